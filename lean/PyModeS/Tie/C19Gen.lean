/-
  C19 transported to the source-generated definition of `RtlReader._process_buffer` (extra/rtlreader.py): the
  statements of `Properties/C19.lean` about `processBuffer` restated about `Gen.rtlreader.RtlReader__process_buffer`
  on a receiver dictionary, by composing `Tie.RtlReader__process_buffer_tie(_model)` with the property theorems.

  The receiver is any attribute dictionary `l` whose `signal_buffer` holds the samples, `noise_floor` a number and
  `debug` any value; the generated method returns `[self', messages]` with `messages` a list of `[msg, ts]`
  (`ts` = the `0` of `Ext.time_time`).  Acceptance by `_check_msg`, the DF and the CRC are read through the GENERATED
  `_check_msg`, `df` and `crc`; only the specification side (`Spec.remH`, the modulator `Demod.modulate`) is hand
  written.
-/
import PyModeS.Properties.C19
import PyModeS.Tie.RtlBuffer
import PyModeS.Tie.Crc

-- symbolic execution of long generated `do` blocks: generous but finite budget (proof times are seconds)
set_option maxHeartbeats 1000000

set_option linter.unusedVariables false
namespace PyModeS.C19Gen
open PyModeS PyModeS.Py PyModeS.CRC PyModeS.Tie PyModeS.Tie.Rtl PyModeS.Tie.RtlBuf
open PyModeS.Demod (modulate)

/-- the returned `[msg, ts]` list -/
def stamped (msgs : List Msg) : Val := .tuple (msgs.map fun m => .tuple [.str m, .num 0])

theorem stamped_eq (msgs : List Msg) : stamped msgs = encStamped msgs := rfl

/-- the receiver after a call: `signal_buffer` emptied, `noise_floor` replaced -/
def selfAfter (l : List (Val × Val)) (nf : Rat) : Val :=
  .dict (setPair (attrKey "signal_buffer") (.tuple []) (setPair (attrKey "noise_floor") (.num nf) l))

/-! ### every message of the output is `bin2hex` of a bit list, hence a non-empty hex string -/

theorem frameOut_inv (P : Msg → Prop) (hP : ∀ bits, P (bin2hexNoPad bits)) (out : List Msg) (msgbin : List Bool)
    (hinv : ∀ m ∈ out, P m) : ∀ m ∈ Demod.frameOut out msgbin, P m := by
  intro m hm
  unfold Demod.frameOut at hm
  split at hm
  · exact hinv m hm
  · split at hm
    · rcases List.mem_append.mp hm with h | h
      · exact hinv m h
      · rw [List.mem_singleton.mp h]; exact hP _
    · exact hinv m hm

theorem demodLoop_inv (P : Msg → Prop) (hP : ∀ bits, P (bin2hexNoPad bits)) (buf : Array Rat) (minAmp : Rat) :
    ∀ (fuel i : Nat) (out res : List Msg) (i' : Nat), (∀ m ∈ out, P m) →
      demodLoop buf minAmp fuel i out = .val (res, i') → ∀ m ∈ res, P m := by
  intro fuel
  induction fuel with
  | zero =>
    intro i out res i' hinv h
    rw [Demod.demodLoop_zero] at h; simp only [Res.val.injEq, Prod.mk.injEq] at h
    rw [← h.1]; exact hinv
  | succ fuel ih =>
    intro i out res i' hinv h
    rw [Demod.demodLoop_succ] at h
    split at h
    · simp only [Res.val.injEq, Prod.mk.injEq] at h
      rw [← h.1]; exact hinv
    · split at h
      · exact ih _ _ _ _ hinv h
      · split at h
        · split at h
          · cases h
          · exact ih _ _ _ _ (frameOut_inv P hP out _ hinv) h
        · exact ih _ _ _ _ hinv h

theorem processBuffer_hex (nf0 : Rat) (buf : Array Rat) (msgs : List Msg) (nf : Rat) (rest : Nat)
    (h : processBuffer nf0 buf = .val (msgs, nf, rest)) : ∀ m ∈ msgs, IsHex m ∧ m ≠ [] := by
  obtain ⟨c, i, _, _, hd, _⟩ := C19.processBuffer_val nf0 buf msgs nf rest h
  exact demodLoop_inv (fun m => IsHex m ∧ m ≠ []) (fun b => ⟨isHex_bin2hexNoPad b, bin2hexNoPad_ne_nil b⟩)
    buf _ _ _ _ _ _ (by simp) hd

/-- a value result of the generated method is a value result of `processBuffer`, and determines it -/
theorem process_buffer_val (l : List (Val × Val)) (buf : Array Rat) (nf0 : Rat) (dbg : Val)
    (hbuf : dictFind l (attrKey "signal_buffer") = some (encRats buf.toList))
    (hnf : dictFind l (attrKey "noise_floor") = some (.num nf0))
    (hdbg : dictFind l (attrKey "debug") = some dbg)
    (hlen : buf.size + 1 < whileFuel) (r : Val)
    (h : Gen.rtlreader.RtlReader__process_buffer (.dict l) = .val r) :
    ∃ msgs nf, processBuffer nf0 buf = .val (msgs, nf, 0) ∧ r = .tuple [selfAfter l nf, stamped msgs] := by
  rw [RtlReader__process_buffer_tie_model l buf nf0 dbg hbuf hnf hdbg hlen] at h
  cases hp : processBuffer nf0 buf with
  | rte => rw [hp] at h; cases h
  | exc => rw [hp] at h; cases h
  | val p =>
    obtain ⟨msgs, nf, rest⟩ := p
    have h0 : rest = 0 := (C19.processBuffer_rest nf0 buf msgs nf rest hp).1
    subst h0
    rw [hp, bind_val'] at h
    refine ⟨msgs, nf, rfl, ?_⟩
    have := Res.val.inj h
    rw [← this]
    simp only [takeLast, Nat.sub_zero, List.drop_length]
    rfl

/-- `checkMsg`, `df`, `crc` of the hand model read through the generated functions -/
theorem check_msg_gen (self : Val) (m : Msg) (hx : IsHex m) (hne : m ≠ []) :
    Gen.rtlreader.RtlReader__check_msg self (.str m) = .val (.tuple [self, .bool true]) ↔ checkMsg m = true := by
  rw [RtlReader__check_msg_tie self m hx hne]
  constructor
  · intro h
    have h1 := Res.val.inj h
    simp only [Val.tuple.injEq, List.cons.injEq, Val.bool.injEq, and_true, true_and] at h1
    exact h1
  · intro h; rw [h]

theorem df_gen (m : Msg) (hx : IsHex m) (hne : m ≠ []) (k : Nat) :
    Gen.py_common.df (.str m) = .val (.num (k : Rat)) ↔ df m = k := by
  rw [df_str1 m hx hne]
  constructor
  · intro h
    have h1 := Res.val.inj h
    simp only [Val.ofNat, Val.num.injEq, Nat.cast_inj] at h1
    exact h1
  · intro h; rw [h]; rfl

/-! ### 1. No DF17 frame with a non-zero checksum is ever returned (unconditional) -/

/-- **never_bad_df17** for the generated `_process_buffer`: for every receiver (any previous noise floor, any sample
    buffer of fewer than `whileFuel - 1` = 2^20 - 1 samples), whatever the method returns is `[self', messages]` with
    `messages` a list of `[msg, 0]`; every `msg` is a non-empty hex string that the generated `_check_msg` accepts, and
    if the generated `df` gives 17 it has 28 digits, the generated `crc(msg)` is 0, and the true remainder of the frame
    polynomial modulo the Mode S generator is 0. -/
theorem never_bad_df17_tie (l : List (Val × Val)) (buf : Array Rat) (nf0 : Rat) (dbg : Val)
    (hbuf : dictFind l (attrKey "signal_buffer") = some (encRats buf.toList))
    (hnf : dictFind l (attrKey "noise_floor") = some (.num nf0))
    (hdbg : dictFind l (attrKey "debug") = some dbg)
    (hlen : buf.size + 1 < whileFuel) (r : Val)
    (h : Gen.rtlreader.RtlReader__process_buffer (.dict l) = .val r) :
    ∃ (self' : Val) (msgs : List Msg), r = .tuple [self', stamped msgs] ∧
      ∀ m ∈ msgs, IsHex m ∧ m ≠ [] ∧
        Gen.rtlreader.RtlReader__check_msg self' (.str m) = .val (.tuple [self', .bool true]) ∧
        (Gen.py_common.df (.str m) = .val (.num 17) →
          m.length = 28 ∧ Gen.py_common.crc (.str m) (.bool false) = .val (.num 0) ∧
          Spec.remH (hex2binM m) = 0) := by
  obtain ⟨msgs, nf, hp, hr⟩ := process_buffer_val l buf nf0 dbg hbuf hnf hdbg hlen r h
  refine ⟨selfAfter l nf, msgs, hr, ?_⟩
  intro m hm
  obtain ⟨hx, hne⟩ := processBuffer_hex nf0 buf msgs nf 0 hp m hm
  obtain ⟨hok, h17⟩ := C19.never_bad_df17 nf0 buf msgs nf 0 hp m hm
  refine ⟨hx, hne, (check_msg_gen _ m hx hne).2 hok, ?_⟩
  intro hdf
  have hdf' : df m = 17 := (df_gen m hx hne 17).1 (by simpa using hdf)
  obtain ⟨hl, hc, hrem⟩ := h17 hdf'
  refine ⟨hl, ?_, hrem⟩
  rw [crc_tie m hx (by omega) false, hc]
  rfl

/-! ### 2. The loop consumes the whole buffer; the noise floor never increases -/

/-- **processBuffer_rest** for the generated method: after a successful call `signal_buffer` is empty, the new
    `noise_floor` is `min(c, old)` with `c` the value of the generated `_calc_noise` (so it never increases), and no
    other attribute changes. -/
theorem process_buffer_rest_tie (l : List (Val × Val)) (buf : Array Rat) (nf0 : Rat) (dbg : Val)
    (hbuf : dictFind l (attrKey "signal_buffer") = some (encRats buf.toList))
    (hnf : dictFind l (attrKey "noise_floor") = some (.num nf0))
    (hdbg : dictFind l (attrKey "debug") = some dbg)
    (hlen : buf.size + 1 < whileFuel) (r : Val)
    (h : Gen.rtlreader.RtlReader__process_buffer (.dict l) = .val r) :
    ∃ (c nf : Rat) (msgs : Val),
      Gen.rtlreader.RtlReader__calc_noise (.dict l) = .val (.tuple [.dict l, .num c]) ∧
      nf = min c nf0 ∧ nf ≤ nf0 ∧
      r = .tuple [.dict (setPair (attrKey "signal_buffer") (.tuple [])
        (setPair (attrKey "noise_floor") (.num nf) l)), msgs] := by
  obtain ⟨msgs, nf, hp, hr⟩ := process_buffer_val l buf nf0 dbg hbuf hnf hdbg hlen r h
  obtain ⟨_, hle, c, i, hc, hmin, _, _, _⟩ := C19.processBuffer_rest nf0 buf msgs nf 0 hp
  refine ⟨c, nf, stamped msgs, ?_, hmin, hle, hr⟩
  rw [RtlReader__calc_noise_tie l buf hbuf, hc, bind_val']

/-! ### 3. A cleanly modulated frame is recovered -/

/-- an upper-case hex string is a hex string -/
theorem isHex_of_upper (m : Msg) (hup : ∀ c ∈ m, c ∈ "0123456789ABCDEF".toList) : IsHex m := by
  intro c hc
  have h := hup c hc
  have key : ∀ c ∈ "0123456789ABCDEF".toList, (hexVal? c).isSome = true := by decide
  exact key c h

/-- transport of a closed-form result of `processBuffer` (nothing left in the buffer) to the generated method -/
theorem process_buffer_of_model (l : List (Val × Val)) (samples : List Rat) (nf0 : Rat) (dbg : Val)
    (hbuf : dictFind l (attrKey "signal_buffer") = some (encRats samples))
    (hnf : dictFind l (attrKey "noise_floor") = some (.num nf0))
    (hdbg : dictFind l (attrKey "debug") = some dbg)
    (hlen : samples.length + 1 < whileFuel) (msgs : List Msg) (c : Rat)
    (hc : calcNoise samples.toArray = .val c)
    (hp : processBuffer nf0 samples.toArray = .val (msgs, min c nf0, 0)) :
    Gen.rtlreader.RtlReader__calc_noise (.dict l) = .val (.tuple [.dict l, .num c]) ∧
    Gen.rtlreader.RtlReader__process_buffer (.dict l) = .val (.tuple [selfAfter l (min c nf0), stamped msgs]) := by
  have hbuf' : dictFind l (attrKey "signal_buffer") = some (encRats samples.toArray.toList) := by
    simpa using hbuf
  have hlen' : samples.toArray.size + 1 < whileFuel := by simpa using hlen
  constructor
  · rw [RtlReader__calc_noise_tie l _ hbuf', hc, bind_val']
  · rw [RtlReader__process_buffer_tie_model l _ nf0 dbg hbuf' hnf hdbg hlen', hp, bind_val']
    simp only [takeLast, Nat.sub_zero, List.drop_length]
    rfl

/-- **clean_signal_recovered_partial** for the generated `_process_buffer` — ONE frame.  `m` is a non-empty upper-case
    hex frame that the generated `_check_msg` accepts, modulated with pulse amplitude `a ∈ [0.3, 1.4]` behind ≥ 200
    samples of lead-in and followed by any amount of noise; every non-pulse sample is `< a/5` and `< 1/5` (lows inside
    the transmission also `≥ 0`); the receiver's `signal_buffer` holds these samples (fewer than 2^20 - 1).  Then for
    EVERY previous noise floor `nf0` the generated method returns exactly `[[m, 0]]`, sets `noise_floor` to
    `min(c, nf0)` (`c` = the generated `_calc_noise`) and empties `signal_buffer`.
    (Partial w.r.t. the property only in the noise hypothesis, 14 dB instead of 10 dB: `C19.snr_10dB_insufficient`.) -/
theorem clean_signal_recovered_partial_tie (l : List (Val × Val)) (dbg : Val)
    (nf0 a : Rat) (lo : Nat → Rat) (pre post : List Rat) (m : Msg)
    (hbuf : dictFind l (attrKey "signal_buffer") = some (encRats (pre ++ modulate a lo (hex2binM m) ++ post)))
    (hnf : dictFind l (attrKey "noise_floor") = some (.num nf0))
    (hdbg : dictFind l (attrKey "debug") = some dbg)
    (hlen : (pre ++ modulate a lo (hex2binM m) ++ post).length + 1 < whileFuel)
    (hup : ∀ c ∈ m, c ∈ "0123456789ABCDEF".toList) (hne : m ≠ [])
    (hok : Gen.rtlreader.RtlReader__check_msg (.dict l) (.str m) = .val (.tuple [.dict l, .bool true]))
    (ha : 3 / 10 ≤ a ∧ a ≤ 14 / 10)
    (hlo : ∀ k, 0 ≤ lo k ∧ lo k < a / 5)
    (hpre : ∀ x ∈ pre, x < a / 5 ∧ x < 1 / 5) (hpost : ∀ x ∈ post, x < a / 5 ∧ x < 1 / 5)
    (hprelen : 200 ≤ pre.length) :
    ∃ c, Gen.rtlreader.RtlReader__calc_noise (.dict l) = .val (.tuple [.dict l, .num c]) ∧
      Gen.rtlreader.RtlReader__process_buffer (.dict l) =
        .val (.tuple [.dict (setPair (attrKey "signal_buffer") (.tuple [])
            (setPair (attrKey "noise_floor") (.num (min c nf0)) l)),
          .tuple [.tuple [.str m, .num 0]]]) := by
  have hok' : checkMsg m = true := (check_msg_gen _ m (isHex_of_upper m hup) hne).1 hok
  obtain ⟨c, hc, hp⟩ := C19.clean_signal_recovered_partial nf0 a lo pre post m hup hok' ha hlo hpre hpost hprelen
  exact ⟨c, process_buffer_of_model l _ nf0 dbg hbuf hnf hdbg hlen [m] c hc hp⟩

/-- **clean_frames_recovered_partial** for the generated `_process_buffer` — ANY NUMBER of frames with one shared
    amplitude and low-sample pattern: each `(m, gap)` is a non-empty upper-case frame accepted by the generated
    `_check_msg`, followed by ≥ 114 samples of noise (`< a/5`, `< 1/5`).  The frames come back exactly, in order. -/
theorem clean_frames_recovered_partial_tie (l : List (Val × Val)) (dbg : Val)
    (nf0 a : Rat) (lo : Nat → Rat) (pre : List Rat) (frames : List (Msg × List Rat))
    (hbuf : dictFind l (attrKey "signal_buffer") =
      some (encRats (pre ++ (frames.flatMap fun f => modulate a lo (hex2binM f.1) ++ f.2))))
    (hnf : dictFind l (attrKey "noise_floor") = some (.num nf0))
    (hdbg : dictFind l (attrKey "debug") = some dbg)
    (hlen : (pre ++ (frames.flatMap fun f => modulate a lo (hex2binM f.1) ++ f.2)).length + 1 < whileFuel)
    (ha : 3 / 10 ≤ a ∧ a ≤ 14 / 10)
    (hlo : ∀ k, 0 ≤ lo k ∧ lo k < a / 5)
    (hpre : ∀ x ∈ pre, x < a / 5 ∧ x < 1 / 5) (hprelen : 200 ≤ pre.length)
    (hframes : ∀ f ∈ frames, (∀ c ∈ f.1, c ∈ "0123456789ABCDEF".toList) ∧ f.1 ≠ [] ∧
      Gen.rtlreader.RtlReader__check_msg (.dict l) (.str f.1) = .val (.tuple [.dict l, .bool true]) ∧
      114 ≤ f.2.length ∧ ∀ x ∈ f.2, x < a / 5 ∧ x < 1 / 5) :
    ∃ c, Gen.rtlreader.RtlReader__calc_noise (.dict l) = .val (.tuple [.dict l, .num c]) ∧
      Gen.rtlreader.RtlReader__process_buffer (.dict l) =
        .val (.tuple [.dict (setPair (attrKey "signal_buffer") (.tuple [])
            (setPair (attrKey "noise_floor") (.num (min c nf0)) l)),
          .tuple (frames.map fun f => .tuple [.str f.1, .num 0])]) := by
  have hframes' : ∀ f ∈ frames, (∀ c ∈ f.1, c ∈ "0123456789ABCDEF".toList) ∧ checkMsg f.1 = true ∧
      114 ≤ f.2.length ∧ ∀ x ∈ f.2, x < a / 5 ∧ x < 1 / 5 := by
    intro f hf
    obtain ⟨h1, h2, h3, h4, h5⟩ := hframes f hf
    exact ⟨h1, (check_msg_gen _ f.1 (isHex_of_upper f.1 h1) h2).1 h3, h4, h5⟩
  obtain ⟨c, hc, hp⟩ := C19.clean_frames_recovered_partial nf0 a lo pre frames ha hlo hpre hprelen hframes'
  obtain ⟨h1, h2⟩ := process_buffer_of_model l _ nf0 dbg hbuf hnf hdbg hlen (frames.map (·.1)) c hc hp
  refine ⟨c, h1, ?_⟩
  rw [h2]
  simp only [selfAfter, stamped, List.map_map]
  rfl

/-- **clean_frames_recovered_multi_partial** for the generated `_process_buffer` — the sequence statement with
    PER-TRANSMISSION pulse amplitude and low samples: `tx` lists `(a, lo, m, gap)`; each amplitude in [0.3, 1.4], lows
    in `[0, a/5)`, `m` a non-empty upper-case frame accepted by the generated `_check_msg`, `gap` ≥ 114 samples of noise
    below `1/5` and below that transmission's `a/5`; lead-in ≥ 200 samples below `1/5` and below every `a/5`.
    The generated method returns exactly the frames, in order, for every previous noise floor. -/
theorem clean_frames_recovered_multi_partial_tie (l : List (Val × Val)) (dbg : Val)
    (nf0 : Rat) (pre : List Rat) (tx : List (Rat × (Nat → Rat) × Msg × List Rat))
    (hbuf : dictFind l (attrKey "signal_buffer") =
      some (encRats (pre ++ (tx.flatMap fun t => modulate t.1 t.2.1 (hex2binM t.2.2.1) ++ t.2.2.2))))
    (hnf : dictFind l (attrKey "noise_floor") = some (.num nf0))
    (hdbg : dictFind l (attrKey "debug") = some dbg)
    (hlen : (pre ++ (tx.flatMap fun t => modulate t.1 t.2.1 (hex2binM t.2.2.1) ++ t.2.2.2)).length + 1 < whileFuel)
    (hprelen : 200 ≤ pre.length)
    (hpre : ∀ x ∈ pre, x < 1 / 5 ∧ ∀ t ∈ tx, x < t.1 / 5)
    (htx : ∀ t ∈ tx, (3 / 10 ≤ t.1 ∧ t.1 ≤ 14 / 10) ∧ (∀ j, 0 ≤ t.2.1 j ∧ t.2.1 j < t.1 / 5) ∧
      (∀ c ∈ t.2.2.1, c ∈ "0123456789ABCDEF".toList) ∧ t.2.2.1 ≠ [] ∧
      Gen.rtlreader.RtlReader__check_msg (.dict l) (.str t.2.2.1) = .val (.tuple [.dict l, .bool true]) ∧
      114 ≤ t.2.2.2.length ∧ ∀ x ∈ t.2.2.2, x < t.1 / 5 ∧ x < 1 / 5) :
    ∃ c, Gen.rtlreader.RtlReader__calc_noise (.dict l) = .val (.tuple [.dict l, .num c]) ∧
      Gen.rtlreader.RtlReader__process_buffer (.dict l) =
        .val (.tuple [.dict (setPair (attrKey "signal_buffer") (.tuple [])
            (setPair (attrKey "noise_floor") (.num (min c nf0)) l)),
          .tuple (tx.map fun t => .tuple [.str t.2.2.1, .num 0])]) := by
  have htx' : ∀ t ∈ tx, (3 / 10 ≤ t.1 ∧ t.1 ≤ 14 / 10) ∧ (∀ j, 0 ≤ t.2.1 j ∧ t.2.1 j < t.1 / 5) ∧
      (∀ c ∈ t.2.2.1, c ∈ "0123456789ABCDEF".toList) ∧ checkMsg t.2.2.1 = true ∧
      114 ≤ t.2.2.2.length ∧ ∀ x ∈ t.2.2.2, x < t.1 / 5 ∧ x < 1 / 5 := by
    intro t ht
    obtain ⟨h1, h2, h3, h4, h5, h6, h7⟩ := htx t ht
    exact ⟨h1, h2, h3, (check_msg_gen _ t.2.2.1 (isHex_of_upper _ h3) h4).1 h5, h6, h7⟩
  obtain ⟨c, hc, hp⟩ := C19.clean_frames_recovered_multi_partial nf0 pre tx hprelen hpre htx'
  obtain ⟨h1, h2⟩ := process_buffer_of_model l _ nf0 dbg hbuf hnf hdbg hlen (tx.map (·.2.2.1)) c hc hp
  refine ⟨c, h1, ?_⟩
  rw [h2]
  simp only [selfAfter, stamped, List.map_map]
  rfl

/-- **snr_10dB_insufficient** for the generated method: the buffer `Demod.noisyBuf` meets the wording of the property
    with 10.46 dB (see `C19.snr_10dB_insufficient`), and the generated `_process_buffer` returns no message for it. -/
theorem snr_10dB_insufficient_tie (l : List (Val × Val)) (dbg : Val)
    (hbuf : dictFind l (attrKey "signal_buffer") = some (encRats Demod.noisyBuf))
    (hnf : dictFind l (attrKey "noise_floor") = some (.num 1000000))
    (hdbg : dictFind l (attrKey "debug") = some dbg) :
    Gen.rtlreader.RtlReader__process_buffer (.dict l) =
      .val (.tuple [.dict (setPair (attrKey "signal_buffer") (.tuple [])
        (setPair (attrKey "noise_floor") (.num (3 / 20)) l)), .tuple []]) := by
  have hbuf' : dictFind l (attrKey "signal_buffer") = some (encRats Demod.noisyBuf.toArray.toList) := by
    simpa using hbuf
  have hlen : Demod.noisyBuf.toArray.size + 1 < whileFuel := by
    have h112 : (hex2binM "8D406B902015A678D4D220AA4BDA".toList).length = 112 := by
      rw [hex2binM_length]; rfl
    simp only [Demod.noisyBuf, List.size_toArray, List.length_append, List.length_replicate,
      Demod.modulate_length, h112, whileFuel]
    decide
  rw [RtlReader__process_buffer_tie_model l _ 1000000 dbg hbuf' hnf hdbg hlen, C19.snr_10dB_insufficient.2.2,
    bind_val']
  simp only [takeLast, Nat.sub_zero, List.drop_length]
  rfl

end PyModeS.C19Gen
