/-
  Tie: generated `bds05.airborne_position` / `bds06.surface_position` (globally unambiguous CPR decoding from an
  even/odd pair of frames) = hand model (`airbornePosition` / `surfacePosition` of `Model/CPR.lean`).

  * `airborne_position_tie`: any two hex strings of at least 22 digits (88 bits: all CPR fields present; in
    particular the 28-digit frames), time stamps any two rationals.  Result encoding `CprGlobal.encOptPos`:
    `None ↦ Val.none`, `(lat, lon) ↦ Val.tuple [.num lat, .num lon]`.
    The length hypothesis is needed: on shorter strings the two models raise in a different order (e.g. two
    14-digit frames with equal format bits: Python reads both format bits first and raises `RuntimeError`
    (`rte`), the hand model reads all the fields of the first frame first and reports `exc` for the empty longitude
    slice).  Frames of 56 bits never carry a position, so this is outside the domain of every property.
  * `surface_position_tie`: any two non-empty hex strings (both models read the fields in the same order, so
    the failures on short strings agree as well), time stamps and reference position any four rationals.

  Helper lemmas live in `namespace PyModeS.Tie.CprGlobal`.
-/
import PyModeS.Tie.Basic
import PyModeS.Tie.Common
import PyModeS.Tie.Cpr
import PyModeS.Generated.Src.bds05
import PyModeS.Generated.Src.bds06
import Mathlib.Tactic.SplitIfs
import Mathlib.Tactic.NormNum

-- symbolic execution of long generated `do` blocks: generous but finite budget (proof times are seconds)
set_option maxHeartbeats 1000000

set_option linter.unusedSimpArgs false
set_option linter.unusedTactic false
set_option linter.unreachableTactic false
set_option linter.unusedVariables false
namespace PyModeS.Tie
open PyModeS PyModeS.Py PyModeS.CRC

namespace CprGlobal

/-! ### number lemmas -/

/-- Python `%` of two integers held as rationals is `Int.emod` (positive divisor) -/
theorem rat_mod_int (j : Int) (n : Nat) (hn : n ≠ 0) :
    (j : Rat) - (n : Rat) * ((((j : Rat) / (n : Rat)).floor : Int) : Rat) = ((j % (n : Int) : Int) : Rat) := by
  have hf : Rat.floor ((j : Rat) / (n : Rat)) = j / (n : Int) := by
    have : Rat.floor ((j : Rat) / (n : Rat)) = ⌊(j : Rat) / (n : Rat)⌋ := rfl
    rw [this, Rat.floor_intCast_div_natCast]
  rw [hf, Int.emod_def]
  push_cast
  ring

theorem pyMod_int_nat (j : Int) (n : Nat) (hn : n ≠ 0) :
    pyMod (.num (j : Rat)) (.num (n : Rat)) = .val (.num ((j % (n : Int) : Int) : Rat)) := by
  have hne : ¬ ((n : Rat) = 0) := by exact_mod_cast hn
  simp only [pyMod, num?_num, if_neg hne, rat_mod_int j n hn]

theorem pyMod_int_60 (j : Int) : pyMod (.num (j : Rat)) (.num 60) = .val (.num ((j % 60 : Int) : Rat)) := by
  have := pyMod_int_nat j 60 (by decide)
  simpa using this

theorem pyMod_int_59 (j : Int) : pyMod (.num (j : Rat)) (.num 59) = .val (.num ((j % 59 : Int) : Rat)) := by
  have := pyMod_int_nat j 59 (by decide)
  simpa using this

theorem pyFloat_num (q : Rat) : pyFloat (.num q) = .val (.num q) := rfl

/-- `max(n - k, 1)` for `k = 0, 1`: the Python number is the cast of the natural number of the hand model -/
theorem pyMax2_sub_one (n k : Nat) :
    pyMax2 (.num ((n : Rat) - (k : Rat))) (.num 1) = .val (.num ((max (n - k) 1 : Nat) : Rat)) := by
  simp only [pyMax2, num?_num]
  by_cases hlt : (n : Rat) - (k : Rat) < 1
  · have h1 : n - k ≤ 1 := by
      have : (n : Rat) < ((k + 1 : Nat) : Rat) := by push_cast; linarith
      have : n < k + 1 := by exact_mod_cast this
      omega
    rw [if_pos hlt, Nat.max_eq_right h1]
    simp
  · have h1 : k + 1 ≤ n := by
      have : ((k + 1 : Nat) : Rat) ≤ (n : Rat) := by push_cast; linarith
      exact_mod_cast this
    rw [if_neg hlt, Nat.max_eq_left (by omega), Nat.cast_sub (by omega)]

theorem pyNe_nat (a b : Nat) : pyNe (.num (a : Rat)) (.num (b : Rat)) = .val (.bool (decide (a ≠ b))) := by
  rw [pyNe_num]
  by_cases h : a = b
  · simp [h]
  · have : ¬ ((a : Rat) = (b : Rat)) := by exact_mod_cast h
    simp [h, this]

theorem pyMax2_sub0 (n : Nat) :
    pyMax2 (.num ((n : Rat) - 0)) (.num 1) = .val (.num ((max (n - 0) 1 : Nat) : Rat)) := by
  have := pyMax2_sub_one n 0
  simpa using this

theorem pyMax2_sub1 (n : Nat) :
    pyMax2 (.num ((n : Rat) - 1)) (.num 1) = .val (.num ((max (n - 1) 1 : Nat) : Rat)) := by
  have := pyMax2_sub_one n 1
  simpa using this

theorem pyDiv_max (a : Rat) (k : Nat) :
    pyDiv (.num a) (.num ((max k 1 : Nat) : Rat)) = .val (.num (a / ((max k 1 : Nat) : Rat))) := by
  apply pyDiv_num
  have : max k 1 ≠ 0 := by omega
  exact_mod_cast this

theorem pyMod_int_max (j : Int) (k : Nat) :
    pyMod (.num (j : Rat)) (.num ((max k 1 : Nat) : Rat)) = .val (.num ((j % ((max k 1 : Nat) : Int) : Int) : Rat)) :=
  pyMod_int_nat j _ (by omega)

/-- `if x >= c: x = x - d` followed by the rest `k` of the function -/
theorem wrap_ge (k : Val → Res Val) (x c d : Rat) :
    (do let g ← pyGe (Val.num x) (Val.num c)
        if pyTruth g = true then (do let y ← pySub (Val.num x) (Val.num d); k y) else k (Val.num x)) =
      k (Val.num (if x ≥ c then x - d else x)) := by
  rw [pyGe_num, bind_val', pyTruth_bool]
  by_cases h : c ≤ x
  · rw [if_pos (decide_eq_true h), pySub_num, bind_val', if_pos (ge_iff_le.mpr h)]
  · rw [if_neg (by simpa using h), if_neg (by simpa using h)]

/-- `if x > c: x = x - d` followed by the rest `k` of the function -/
theorem wrap_gt (k : Val → Res Val) (x c d : Rat) :
    (do let g ← pyGt (Val.num x) (Val.num c)
        if pyTruth g = true then (do let y ← pySub (Val.num x) (Val.num d); k y) else k (Val.num x)) =
      k (Val.num (if x > c then x - d else x)) := by
  rw [pyGt_num, bind_val', pyTruth_bool]
  by_cases h : c < x
  · rw [if_pos (decide_eq_true h), pySub_num, bind_val', if_pos (gt_iff_lt.mpr h)]
  · rw [if_neg (by simpa using h), if_neg (by simpa using h)]

theorem sel_num (p : Prop) [Decidable p] (a b : Rat) :
    (if pyTruth (Val.bool (decide p)) = true then (pure (Val.num a) : Res Val) else pure (Val.num b)) =
      .val (.num (if p then a else b)) := by
  by_cases h : p <;> simp [h]

theorem pyMod_360 (x : Rat) : pyMod (.num x) (.num 360) = .val (.num (rmod360 x)) := by
  have h : ¬ ((360 : Rat) = 0) := by norm_num
  simp only [pyMod, num?_num, if_neg h, rmod360]

theorem argBest_go (ys : List Rat) (best : Rat) (bi i : Nat) :
    ∃ q, argBest (fun q b => decide (q < b)) (ys.map Val.num) i (some (bi, best)) =
      some (argminFirst.go best bi i ys, q) := by
  induction ys generalizing best bi i with
  | nil => exact ⟨best, rfl⟩
  | cons y ys ih =>
    simp only [List.map_cons, argBest, num?_num, argminFirst.go]
    by_cases h : y < best
    · simp only [h, decide_true, if_true]
      exact ih y i (i + 1)
    · simp only [h, decide_false, Bool.false_eq_true, if_false]
      exact ih best bi (i + 1)

theorem go_lt (ys : List Rat) (best : Rat) (bi i : Nat) (h : bi < i) :
    argminFirst.go best bi i ys < i + ys.length := by
  induction ys generalizing best bi i with
  | nil => simpa [argminFirst.go] using h
  | cons y ys ih =>
    simp only [argminFirst.go, List.length_cons]
    split_ifs
    · have := ih y i (i + 1) (by omega); omega
    · have := ih best bi (i + 1) (by omega); omega

/-- `min(range(4), key=dls.__getitem__)` on a list of four numbers -/
theorem argmin4 (d0 d1 d2 d3 : Rat) :
    pyArgMin (.tuple [.num d0, .num d1, .num d2, .num d3]) (.num 4) = .val (Val.ofNat (argminFirst [d0, d1, d2, d3])) := by
  have h4 : (Val.num 4).int? = some (Int.ofNat 4) := by
    have := int?_natLit 4
    simpa using this
  obtain ⟨q, hq⟩ := argBest_go [d1, d2, d3] d0 0 1
  have e : argBest (fun q b => decide (q < b)) (List.take 4 [Val.num d0, .num d1, .num d2, .num d3]) 0 Option.none =
      some (argminFirst [d0, d1, d2, d3], q) := by
    rw [show argminFirst [d0, d1, d2, d3] = argminFirst.go d0 0 1 [d1, d2, d3] from rfl, ← hq]
    rfl
  unfold pyArgMin
  rw [h4]
  dsimp only
  rw [if_neg (by simp), e]

theorem argmin4_lt (d0 d1 d2 d3 : Rat) : argminFirst [d0, d1, d2, d3] < 4 :=
  go_lt [d1, d2, d3] d0 0 1 (by decide)

theorem idx4 (l0 l1 l2 l3 : Rat) (k : Nat) (hk : k < 4) :
    Py.pyIdx (.tuple [.num l0, .num l1, .num l2, .num l3]) (Val.ofNat k) = .val (.num ([l0, l1, l2, l3].getD k 0)) := by
  interval_cases k <;> rfl

/-- the end of `surface_position`: the four candidate longitudes and the one closest to the reference -/
theorem surf_lon_tail (lat lon lo : Rat) :
    (do
      let a ← pyAdd (Val.num lon) (Val.num 90)
      let b ← pyAdd (Val.num lon) (Val.num 180)
      let c ← pyAdd (Val.num lon) (Val.num 270)
      let lons ←
        pyComp (Val.tuple [Val.num lon, a, b, c]) fun x__1 => do
            let t ← pyAdd x__1 (Val.num 180)
            let t ← pyMod t (Val.num 360)
            let t ← pySub t (Val.num 180)
            pure (some t)
      let dls ←
        pyComp lons fun x__2 => do
            let t ← pySub (Val.num lo) x__2
            let t ← pyAdd t (Val.num 180)
            let t ← pyMod t (Val.num 360)
            let t ← pySub t (Val.num 180)
            let t ← pyAbs t
            pure (some t)
      let imin ← pyArgMin dls (Val.num 4)
      let lon ← Py.pyIdx lons imin
      pure (Val.tuple [Val.num lat, lon])) =
    .val (.tuple [.num lat, .num (([lon, lon + 90, lon + 180, lon + 270].map (fun l => rmod360 (l + 180) - 180)).getD
      (argminFirst (([lon, lon + 90, lon + 180, lon + 270].map (fun l => rmod360 (l + 180) - 180)).map
        (fun l => if rmod360 (lo - l + 180) - 180 < 0 then -(rmod360 (lo - l + 180) - 180)
          else rmod360 (lo - l + 180) - 180))) 0)]) := by
  rw [pyAdd_num, bind_val', pyAdd_num, bind_val', pyAdd_num, bind_val']
  simp only [pyComp, pyIter, compList, bind_val', pyAdd_num, pyMod_360, pySub_num, pyAbs_num, Res.pure_eq]
  rw [argmin4, bind_val', idx4 _ _ _ _ _ (argmin4_lt _ _ _ _), bind_val']
  rfl

/-- encoding of the result of the global decoders -/
def encOptPos : Option (Rat × Rat) → Val
  | none => Val.none
  | some (a, b) => Val.tuple [.num a, .num b]

/-- the part of `Gen.bds05.airborne_position` after the even/odd ordering of the two frames (a verbatim copy of
    lines 36-65 of `Generated/Src/bds05.lean`; `airborne_position_tie` checks by `rfl` that the generated
    function continues with exactly this) -/
def airTail (t0 t1 mb0 mb1 : Val) : Res Val := do
  let mut lat : Val := Val.none
  let mut nl : Val := Val.none
  let mut ni : Val := Val.none
  let mut m : Val := Val.none
  let mut lon : Val := Val.none
  let cprlat_even ← pyDiv (← Gen.py_common.bin2int (← pySliceNN mb0 22 39)) (Val.num 131072)
  let cprlon_even ← pyDiv (← Gen.py_common.bin2int (← pySliceNN mb0 39 56)) (Val.num 131072)
  let cprlat_odd ← pyDiv (← Gen.py_common.bin2int (← pySliceNN mb1 22 39)) (Val.num 131072)
  let cprlon_odd ← pyDiv (← Gen.py_common.bin2int (← pySliceNN mb1 39 56)) (Val.num 131072)
  let air_d_lat_even ← pyDiv (Val.num 360) (Val.num 60)
  let air_d_lat_odd ← pyDiv (Val.num 360) (Val.num 59)
  let j ← Gen.Ext.common_floor (← pyAdd (← pySub (← pyMul (Val.num 59) cprlat_even) (← pyMul (Val.num 60) cprlat_odd)) (Val.num ((1 : Rat) / 2)))
  let mut lat_even ← pyFloat (← pyMul air_d_lat_even (← pyAdd (← pyMod j (Val.num 60)) cprlat_even))
  let mut lat_odd ← pyFloat (← pyMul air_d_lat_odd (← pyAdd (← pyMod j (Val.num 59)) cprlat_odd))
  if pyTruth (← pyGe lat_even (Val.num 270)) then
    lat_even ← pySub lat_even (Val.num 360)
  if pyTruth (← pyGe lat_odd (Val.num 270)) then
    lat_odd ← pySub lat_odd (Val.num 360)
  if pyTruth (← pyNe (← Gen.Ext.common_cprNL lat_even) (← Gen.Ext.common_cprNL lat_odd)) then
    return Val.none
  if pyTruth (← pyGt t0 t1) then
    lat := lat_even
    nl ← Gen.Ext.common_cprNL lat
    ni ← pyMax2 (← pySub (← Gen.Ext.common_cprNL lat) (Val.num 0)) (Val.num 1)
    m ← Gen.Ext.common_floor (← pyAdd (← pySub (← pyMul cprlon_even (← pySub nl (Val.num 1))) (← pyMul cprlon_odd nl)) (Val.num ((1 : Rat) / 2)))
    lon ← pyMul (← pyDiv (Val.num 360) ni) (← pyAdd (← pyMod m ni) cprlon_even)
  else
    lat := lat_odd
    nl ← Gen.Ext.common_cprNL lat
    ni ← pyMax2 (← pySub (← Gen.Ext.common_cprNL lat) (Val.num 1)) (Val.num 1)
    m ← Gen.Ext.common_floor (← pyAdd (← pySub (← pyMul cprlon_even (← pySub nl (Val.num 1))) (← pyMul cprlon_odd nl)) (Val.num ((1 : Rat) / 2)))
    lon ← pyMul (← pyDiv (Val.num 360) ni) (← pyAdd (← pyMod m ni) cprlon_odd)
  if pyTruth (← pyGt lon (Val.num 180)) then
    lon ← pySub lon (Val.num 360)
  return (Val.tuple [lat, lon])

theorem airTail_eq (mbE mbO : Bits) (aE bE aO bO : Nat) (tE tO : Rat)
    (haE : bin2intR (slice 22 39 mbE) = .val aE) (hbE : bin2intR (slice 39 56 mbE) = .val bE)
    (haO : bin2intR (slice 22 39 mbO) = .val aO) (hbO : bin2intR (slice 39 56 mbO) = .val bO) :
    airTail (.num tE) (.num tO) (Val.ofBits mbE) (Val.ofBits mbO) =
      (airbornePositionCore cprNL ⟨false, aE, bE⟩ ⟨true, aO, bO⟩ tE tO >>= fun o => .val (encOptPos o)) := by
  have hdiv : ∀ n : Nat, pyDiv (Val.ofNat n) (Val.num 131072) = .val (.num ((n : Rat) / 131072)) := by
    intro n
    simp only [Val.ofNat]
    exact pyDiv_num _ _ (by norm_num)
  unfold airTail
  rw [pySliceNN_ofBits, bind_val', bin2int_ofBits, haE, bind_val', bind_val', hdiv, bind_val']
  rw [pySliceNN_ofBits, bind_val', bin2int_ofBits, hbE, bind_val', bind_val', hdiv, bind_val']
  rw [pySliceNN_ofBits, bind_val', bin2int_ofBits, haO, bind_val', bind_val', hdiv, bind_val']
  rw [pySliceNN_ofBits, bind_val', bin2int_ofBits, hbO, bind_val', bind_val', hdiv, bind_val']
  rw [pyDiv_lit, bind_val', pyDiv_lit, bind_val', pyMul_num, bind_val', pyMul_num, bind_val', pySub_num, bind_val',
    pyAdd_num, bind_val', common_floor_num, bind_val', pyMod_int_60, bind_val', pyAdd_num, bind_val', pyMul_num,
    bind_val', pyFloat_num, bind_val', pyMod_int_59, bind_val', pyAdd_num, bind_val', pyMul_num,
    bind_val', pyFloat_num, bind_val']
  simp only [wrap_ge]
  simp only [common_cprNL_num, bind_val', pyNe_nat, pyTruth_bool, pyGt_num, pySub_num, pyMax2_sub0, pyMax2_sub1,
    pyMul_num, pyAdd_num, common_floor_num, pyDiv_max, pyMod_int_max, wrap_gt, Res.pure_eq]
  unfold airbornePositionCore pfloor two17
  simp only [and_self, if_true, decide_eq_true_eq, gt_iff_lt, ge_iff_le]
  generalize (59 * ((aE : Rat) / 131072) - 60 * ((aO : Rat) / 131072) + 1 / 2).floor = j
  generalize (if (270 : Rat) ≤ 360 / 60 * (((j % 60 : Int) : Rat) + (aE : Rat) / 131072) then
    360 / 60 * (((j % 60 : Int) : Rat) + (aE : Rat) / 131072) - 360
    else 360 / 60 * (((j % 60 : Int) : Rat) + (aE : Rat) / 131072)) = latE
  generalize (if (270 : Rat) ≤ 360 / 59 * (((j % 59 : Int) : Rat) + (aO : Rat) / 131072) then
    360 / 59 * (((j % 59 : Int) : Rat) + (aO : Rat) / 131072) - 360
    else 360 / 59 * (((j % 59 : Int) : Rat) + (aO : Rat) / 131072)) = latO
  generalize cprNL latE = nE
  generalize cprNL latO = nO
  by_cases hn : nE ≠ nO
  · rw [if_pos hn, if_pos hn, bind_val']
    rfl
  rw [if_neg hn, if_neg hn, bind_val']
  by_cases ht : tO < tE
  · simp only [if_pos ht, encOptPos]
    split_ifs <;> rfl
  · simp only [if_neg ht, encOptPos]
    split_ifs <;> rfl

end CprGlobal

open CprGlobal

/-- `bds05.airborne_position(msg0, msg1, t0, t1)` -/
theorem airborne_position_tie (m0 m1 : Msg) (h0 : IsHex m0) (h1 : IsHex m1) (hl0 : 22 ≤ m0.length)
    (hl1 : 22 ≤ m1.length) (t0 t1 : Rat) :
    Gen.bds05.airborne_position (.str m0) (.str m1) (.num t0) (.num t1) =
      (airbornePosition (hex2binM m0) (hex2binM m1) t0 t1 >>= fun o => .val (encOptPos o)) := by
  have hne0 : m0 ≠ [] := by intro e; rw [e] at hl0; simp at hl0
  have hne1 : m1 ≠ [] := by intro e; rw [e] at hl1; simp at hl1
  unfold Gen.bds05.airborne_position airbornePosition
  rw [hex2bin_str m0 h0 hne0, bind_val', pySliceFrom_ofBits, bind_val']
  rw [hex2bin_str m1 h1 hne1, bind_val', pySliceFrom_ofBits, bind_val']
  have hL0 : 56 ≤ ((hex2binM m0).drop 32).length := by rw [List.length_drop, hex2binM_length]; omega
  have hL1 : 56 ≤ ((hex2binM m1).drop 32).length := by rw [List.length_drop, hex2binM_length]; omega
  unfold cprFields
  dsimp only
  generalize (hex2binM m0).drop 32 = mb0 at hL0 ⊢
  generalize (hex2binM m1).drop 32 = mb1 at hL1 ⊢
  have ho0 := idxR_of_lt mb0 21 (by omega)
  have ho1 := idxR_of_lt mb1 21 (by omega)
  have ha0 := bin2intR_slice_of_lt mb0 22 39 (by decide) (by omega)
  have hb0 := bin2intR_slice_of_lt mb0 39 56 (by decide) (by omega)
  have ha1 := bin2intR_slice_of_lt mb1 22 39 (by decide) (by omega)
  have hb1 := bin2intR_slice_of_lt mb1 39 56 (by decide) (by omega)
  generalize mb0[21] = oe0 at ho0
  generalize mb1[21] = oe1 at ho1
  generalize PyModeS.bin2int (slice 22 39 mb0) = a0 at ha0
  generalize PyModeS.bin2int (slice 39 56 mb0) = b0 at hb0
  generalize PyModeS.bin2int (slice 22 39 mb1) = a1 at ha1
  generalize PyModeS.bin2int (slice 39 56 mb1) = b1 at hb1
  rw [pyIdxN_ofBits, ho0, bind_val', bind_val', pyInt1_digit, bind_val']
  rw [pyIdxN_ofBits, ho1, bind_val', bind_val', pyInt1_digit, bind_val']
  rw [ha0, hb0, ha1, hb1]
  have hg01 : ∀ (x y : Bool), (do
      let b ← pyEq (Val.num (if x = true then 1 else 0)) (Val.num 0)
      if pyTruth b = true then pyEq (Val.num (if y = true then 1 else 0)) (Val.num 1) else pure b) =
      Res.val (Val.bool (!x && y)) := by
    intro x y; cases x <;> cases y <;> rfl
  have hg10 : ∀ (x y : Bool), (do
      let b ← pyEq (Val.num (if x = true then 1 else 0)) (Val.num 1)
      if pyTruth b = true then pyEq (Val.num (if y = true then 1 else 0)) (Val.num 0) else pure b) =
      Res.val (Val.bool (x && !y)) := by
    intro x y; cases x <;> cases y <;> rfl
  rw [hg01, bind_val', hg10]
  change (if pyTruth (Val.bool (!oe0 && oe1)) = true then
      airTail (.num t0) (.num t1) (Val.ofBits mb0) (Val.ofBits mb1)
    else (Res.val (Val.bool (oe0 && !oe1)) >>= fun g => if pyTruth g = true then
      airTail (.num t1) (.num t0) (Val.ofBits mb1) (Val.ofBits mb0)
      else (Res.rte : Res PUnit) >>= fun _ => airTail (.num t0) (.num t1) (Val.ofBits mb0) (Val.ofBits mb1))) = _
  rw [bind_val', bind_rte', pyTruth_bool, pyTruth_bool]
  simp only [bind_val', Res.pure_eq]
  have hswap : airbornePositionCore cprNL ⟨true, a0, b0⟩ ⟨false, a1, b1⟩ t0 t1 =
      airbornePositionCore cprNL ⟨false, a1, b1⟩ ⟨true, a0, b0⟩ t1 t0 := by
    unfold airbornePositionCore
    simp only [and_self, if_true, Bool.true_eq_false, Bool.false_eq_true, false_and, and_false, if_false]
  cases oe0 <;> cases oe1
  · unfold airbornePositionCore
    simp only [and_self, if_true, Bool.true_eq_false, Bool.false_eq_true, false_and, and_false, if_false]
    rfl
  · simp only [Bool.not_false, Bool.not_true, Bool.and_true, Bool.true_and, Bool.false_and, Bool.and_false, if_true,
      Bool.false_eq_true, if_false, Bool.and_self]
    exact airTail_eq mb0 mb1 a0 b0 a1 b1 t0 t1 ha0 hb0 ha1 hb1
  · simp only [Bool.not_false, Bool.not_true, Bool.and_true, Bool.true_and, Bool.false_and, Bool.and_false, if_true,
      Bool.false_eq_true, if_false, Bool.and_self]
    rw [hswap]
    exact airTail_eq mb1 mb0 a1 b1 a0 b0 t1 t0 ha1 hb1 ha0 hb0
  · unfold airbornePositionCore
    simp only [and_self, if_true, Bool.true_eq_false, Bool.false_eq_true, false_and, and_false, if_false]
    rfl

/-- `bds06.surface_position(msg0, msg1, t0, t1, lat_ref, lon_ref)`; as in the source, `msg0` is taken as the even
    frame and `msg1` as the odd one without looking at the format bit -/
theorem surface_position_tie (m0 m1 : Msg) (h0 : IsHex m0) (h1 : IsHex m1) (hne0 : m0 ≠ []) (hne1 : m1 ≠ [])
    (t0 t1 la lo : Rat) :
    Gen.bds06.surface_position (.str m0) (.str m1) (.num t0) (.num t1) (.num la) (.num lo) =
      (surfacePosition (hex2binM m0) (hex2binM m1) t0 t1 la lo >>= fun o => .val (encOptPos o)) := by
  have hdiv : ∀ n : Nat, pyDiv (Val.ofNat n) (Val.num 131072) = .val (.num ((n : Rat) / 131072)) := by
    intro n
    simp only [Val.ofNat]
    exact pyDiv_num _ _ (by norm_num)
  unfold Gen.bds06.surface_position surfacePosition surfFields
  rw [hex2bin_str m0 h0 hne0, bind_val', hex2bin_str m1 h1 hne1, bind_val']
  generalize hex2binM m0 = B0
  generalize hex2binM m1 = B1
  rw [pySliceNN_ofBits, bind_val', bin2int_ofBits, bind_assoc]
  generalize bin2intR (slice 54 71 B0) = r
  rcases r with (aE | _ | _)
  rotate_left
  · rfl
  · rfl
  rw [bind_val', bind_val', hdiv, bind_val']
  rw [pySliceNN_ofBits, bind_val', bin2int_ofBits, bind_assoc]
  generalize bin2intR (slice 71 88 B0) = r
  rcases r with (bE | _ | _)
  rotate_left
  · rfl
  · rfl
  rw [bind_val', bind_val', hdiv, bind_val']
  rw [pySliceNN_ofBits, bind_val', bin2int_ofBits, bind_assoc]
  generalize bin2intR (slice 54 71 B1) = r
  rcases r with (aO | _ | _)
  rotate_left
  · rfl
  · rfl
  rw [bind_val', bind_val', hdiv, bind_val']
  rw [pySliceNN_ofBits, bind_val', bin2int_ofBits, bind_assoc]
  generalize bin2intR (slice 71 88 B1) = r
  rcases r with (bO | _ | _)
  rotate_left
  · rfl
  · rfl
  rw [bind_val', bind_val', hdiv, bind_val']
  rw [pyDiv_lit, bind_val', pyDiv_lit, bind_val', pyMul_num, bind_val', pyMul_num, bind_val', pySub_num, bind_val',
    pyAdd_num, bind_val', common_floor_num, bind_val', pyMod_int_60, bind_val', pyAdd_num, bind_val', pyMul_num,
    bind_val', pyFloat_num, bind_val', pyMod_int_59, bind_val', pyAdd_num, bind_val', pyMul_num,
    bind_val', pyFloat_num, bind_val']
  rw [pySub_num, bind_val', pySub_num, bind_val', pySub_num, bind_val', pyAbs_num, bind_val', pySub_num, bind_val',
    pyAbs_num, bind_val', pyLe_num, bind_val', sel_num, bind_val']
  rw [pySub_num, bind_val', pyAbs_num, bind_val', pySub_num, bind_val',
    pyAbs_num, bind_val', pyLe_num, bind_val', sel_num, bind_val']
  rw [common_cprNL_num, bind_val', common_cprNL_num, bind_val', pyNe_nat, bind_val', pyTruth_bool, pyGt_num, bind_val',
    pyTruth_bool]
  change _ = Res.val (encOptPos (surfacePositionCore cprNL (aE, bE) (aO, bO) t0 t1 la lo))
  unfold surfacePositionCore pfloor two17 rabs
  dsimp only
  generalize (59 * ((aE : Rat) / 131072) - 60 * ((aO : Rat) / 131072) + 1 / 2).floor = j
  generalize (90 : Rat) / 60 * (((j % 60 : Int) : Rat) + (aE : Rat) / 131072) = xE
  generalize (90 : Rat) / 59 * (((j % 59 : Int) : Rat) + (aO : Rat) / 131072) = xO
  generalize (if (if xE - la < 0 then -(xE - la) else xE - la) ≤ (if xE - 90 - la < 0 then -(xE - 90 - la) else xE - 90 - la)
    then xE else xE - 90) = latE
  generalize (if (if xO - la < 0 then -(xO - la) else xO - la) ≤ (if xO - 90 - la < 0 then -(xO - 90 - la) else xO - 90 - la)
    then xO else xO - 90) = latO
  generalize cprNL latE = nE
  generalize cprNL latO = nO
  by_cases hn : nE ≠ nO
  · rw [if_pos (decide_eq_true hn), if_pos hn]
    rfl
  rw [if_neg (by simpa using hn), if_neg hn]
  by_cases ht : t1 < t0
  · rw [if_pos (decide_eq_true ht), if_pos (gt_iff_lt.mpr ht)]
    rw [bind_val', bind_val', pySub_num, bind_val', pyMax2_sub0, bind_val', pySub_num, bind_val', pyMul_num, bind_val',
      pyMul_num, bind_val', pySub_num, bind_val', pyAdd_num, bind_val', common_floor_num, bind_val', pyDiv_max,
      bind_val', pyMod_int_max, bind_val', pyAdd_num, bind_val', pyMul_num, bind_val']
    rw [surf_lon_tail]
    rfl
  · rw [if_neg (by simpa using ht), if_neg (by simpa using ht)]
    rw [bind_val', bind_val', pySub_num, bind_val', pyMax2_sub1, bind_val', bind_val', pyMul_num, bind_val',
      pyMul_num, bind_val', pySub_num, bind_val', pyAdd_num, bind_val', common_floor_num, bind_val', pyDiv_max,
      bind_val', pyMod_int_max, bind_val', pyAdd_num, bind_val', pyMul_num, bind_val']
    rw [surf_lon_tail]
    rfl

end PyModeS.Tie
