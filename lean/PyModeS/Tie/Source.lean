/-
  Tie for the stateful code of streamer/source.py (property C16): `NetSource.reset_local_buffer` and
  `NetSource.handle_messages` of the generated model against `nsHandle` of Model/Stream.lean.
-/
import PyModeS.Tie.Basic
import PyModeS.Tie.Common
import PyModeS.Generated.Src.source
import PyModeS.Model.Stream

-- symbolic execution of long generated `do` blocks: generous but finite budget (proof times are seconds)
set_option maxHeartbeats 1000000

set_option linter.style.nameCheck false
set_option linter.unusedSimpArgs false
set_option linter.unusedVariables false
open PyModeS PyModeS.Py PyModeS.CRC
namespace PyModeS.Tie.Source

/-! ### attribute dictionaries -/

theorem dictFind_cons (k k' v : Val) (l : List (Val × Val)) :
    dictFind ((k', v) :: l) k = if Val.beq k k' then some v else dictFind l k := by
  unfold dictFind
  rw [List.find?_cons]
  by_cases h : Val.beq k k' = true
  · simp [h]
  · simp [h]

theorem setPair_cons (k k' v v' : Val) (l : List (Val × Val)) :
    setPair k v ((k', v') :: l) = if Val.beq k k' then (k', v) :: l else (k', v') :: setPair k v l := rfl

/-- the receiver of the `NetSource` methods: the four `local_buffer_*` attributes followed by the others -/
def reprD (am at_ cm ct : Val) (rest : List (Val × Val)) : Val :=
  .dict ((attrKey "local_buffer_adsb_msg", am) :: (attrKey "local_buffer_adsb_ts", at_) ::
    (attrKey "local_buffer_commb_msg", cm) :: (attrKey "local_buffer_commb_ts", ct) :: rest)

theorem get_am (am at_ cm ct rest) : pyGetAttr (reprD am at_ cm ct rest) "local_buffer_adsb_msg" = .val am := by
  simp [pyGetAttr, reprD, dictFind_cons, attrKey, Val.beq]
theorem get_at (am at_ cm ct rest) : pyGetAttr (reprD am at_ cm ct rest) "local_buffer_adsb_ts" = .val at_ := by
  simp [pyGetAttr, reprD, dictFind_cons, attrKey, Val.beq]
theorem get_cm (am at_ cm ct rest) : pyGetAttr (reprD am at_ cm ct rest) "local_buffer_commb_msg" = .val cm := by
  simp [pyGetAttr, reprD, dictFind_cons, attrKey, Val.beq]
theorem get_ct (am at_ cm ct rest) : pyGetAttr (reprD am at_ cm ct rest) "local_buffer_commb_ts" = .val ct := by
  simp [pyGetAttr, reprD, dictFind_cons, attrKey, Val.beq]

theorem set_am (am at_ cm ct rest v) :
    pySetAttr (reprD am at_ cm ct rest) "local_buffer_adsb_msg" v = .val (reprD v at_ cm ct rest) := by
  simp [pySetAttr, reprD, setPair_cons, attrKey, Val.beq]
theorem set_at (am at_ cm ct rest v) :
    pySetAttr (reprD am at_ cm ct rest) "local_buffer_adsb_ts" v = .val (reprD am v cm ct rest) := by
  simp [pySetAttr, reprD, setPair_cons, attrKey, Val.beq]
theorem set_cm (am at_ cm ct rest v) :
    pySetAttr (reprD am at_ cm ct rest) "local_buffer_commb_msg" v = .val (reprD am at_ v ct rest) := by
  simp [pySetAttr, reprD, setPair_cons, attrKey, Val.beq]
theorem set_ct (am at_ cm ct rest v) :
    pySetAttr (reprD am at_ cm ct rest) "local_buffer_commb_ts" v = .val (reprD am at_ cm v rest) := by
  simp [pySetAttr, reprD, setPair_cons, attrKey, Val.beq]

theorem get_stop (am at_ cm ct rest) :
    pyGetAttr (reprD am at_ cm ct rest) "stop_flag" = pyGetAttr (.dict rest) "stop_flag" := by
  simp [pyGetAttr, reprD, dictFind_cons, attrKey, Val.beq]

/-- the events already recorded on an attribute list -/
def outOf (rest : List (Val × Val)) : List Val :=
  match dictFind rest (attrKey "__out__") with
  | some (.tuple es) => es
  | _ => []

/-- `rest` after one more recorded call `label(args)` -/
def emitTo (rest : List (Val × Val)) (label : String) (args : Val) : List (Val × Val) :=
  setPair (attrKey "__out__") (.tuple (outOf rest ++ [.tuple [attrKey label, args]])) rest

theorem emit_reprD (am at_ cm ct rest) (label : String) (args : Val) :
    pyEmit (reprD am at_ cm ct rest) label args = .val (reprD am at_ cm ct (emitTo rest label args)) := by
  simp [pyEmit, reprD, emitTo, outOf, dictFind_cons, setPair_cons, attrKey, Val.beq]
  generalize dictFind rest _ = o
  rcases o with _ | v
  · rfl
  · cases v <;> rfl


/-! ### the abstraction -/

def encMsgs (l : List Msg) : Val := .tuple (l.map Val.str)

/-- The receiver whose local buffers hold `s`; `tsA`, `tsC` are the time stamps kept beside the two message lists
    (any values: the hand model does not have them), `rest` the other attributes (`stop_flag`, `__out__`, …). -/
def reprNs (s : NetSrc) (tsA tsC : List Val) (rest : List (Val × Val)) : Val :=
  reprD (encMsgs s.adsb) (.tuple tsA) (encMsgs s.commb) (.tuple tsC) rest

/-! ### (1) `NetSource.reset_local_buffer` -/

theorem reset_reprD (am at_ cm ct rest) :
    Gen.source.NetSource_reset_local_buffer (reprD am at_ cm ct rest) =
      .val (.tuple [reprD (.tuple []) (.tuple []) (.tuple []) (.tuple []) rest, .none]) := by
  unfold Gen.source.NetSource_reset_local_buffer
  simp only [set_am, bind_val', set_at, set_cm, set_ct]
  rfl

end PyModeS.Tie.Source
namespace PyModeS.Tie
open PyModeS.Tie.Source

/-- on any receiver with the four attributes in any position (or absent): four functional attribute updates -/
theorem NetSource_reset_local_buffer_dict (l : List (Val × Val)) :
    Gen.source.NetSource_reset_local_buffer (.dict l) =
      .val (.tuple [.dict (setPair (attrKey "local_buffer_commb_ts") (.tuple [])
        (setPair (attrKey "local_buffer_commb_msg") (.tuple [])
        (setPair (attrKey "local_buffer_adsb_ts") (.tuple [])
        (setPair (attrKey "local_buffer_adsb_msg") (.tuple []) l)))), .none]) := rfl

end PyModeS.Tie
namespace PyModeS.Tie
open PyModeS.Tie.Source

/-- `reset_local_buffer()` empties the local buffers (`⟨[], []⟩` of the hand model), keeps every other attribute
    and returns `None` -/
theorem NetSource_reset_local_buffer_tie (s : NetSrc) (tsA tsC : List Val) (rest : List (Val × Val)) :
    Gen.source.NetSource_reset_local_buffer (reprNs s tsA tsC rest) =
      .val (.tuple [reprNs ⟨[], []⟩ [] [] rest, .none]) :=
  reset_reprD _ _ _ _ _

end PyModeS.Tie
namespace PyModeS.Tie.Source


/-! ### (2) `NetSource.handle_messages` -/

/-- one `[msg, t]` item of the `messages` argument -/
def encPair (p : Msg × Val) : Val := .tuple [.str p.1, p.2]

/-- the loop body of `nsHandle`, with the time stamps carried along -/
def nsStep (st : NetSrc × List Val × List Val) (p : Msg × Val) : NetSrc × List Val × List Val :=
  if p.1.length < 28 then st else
  if PyModeS.df p.1 = 17 ∨ PyModeS.df p.1 = 18 then
    ({ st.1 with adsb := st.1.adsb ++ [p.1] }, st.2.1 ++ [p.2], st.2.2)
  else if PyModeS.df p.1 = 20 ∨ PyModeS.df p.1 = 21 then
    ({ st.1 with commb := st.1.commb ++ [p.1] }, st.2.1, st.2.2 ++ [p.2])
  else st

/-- the local buffers after the loop (before the send / reset) -/
def nsLoop (s : NetSrc) (msgs : List Msg) : NetSrc :=
  msgs.foldl (fun s m =>
    if m.length < 28 then s else
    let d := PyModeS.df m
    if d = 17 ∨ d = 18 then { s with adsb := s.adsb ++ [m] }
    else if d = 20 ∨ d = 21 then { s with commb := s.commb ++ [m] }
    else s) s

theorem nsHandle_eq (s : NetSrc) (msgs : List Msg) :
    nsHandle s msgs =
      if (nsLoop s msgs).adsb.length > 1 then (⟨[], []⟩, some ((nsLoop s msgs).adsb, (nsLoop s msgs).commb))
      else (nsLoop s msgs, none) := rfl

theorem nsStep_fst (msgs : List (Msg × Val)) (st : NetSrc × List Val × List Val) :
    (msgs.foldl nsStep st).1 = nsLoop st.1 (msgs.map Prod.fst) := by
  induction msgs generalizing st with
  | nil => rfl
  | cons p msgs ih =>
    rw [List.foldl_cons, ih]
    unfold nsLoop
    rw [List.map_cons, List.foldl_cons]
    congr 1
    unfold nsStep
    dsimp only
    split_ifs <;> rfl

/-- all mutable variables of the loop: `msg`, `t`, `df`, and the buffers of `self` -/
abbrev LoopSt := Val × Val × Val × NetSrc × List Val × List Val

def lsStep (st : LoopSt) (p : Msg × Val) : LoopSt :=
  (.str p.1, p.2, if p.1.length < 28 then st.2.2.1 else Val.ofNat (PyModeS.df p.1), nsStep st.2.2.2 p)

def encSt (rest : List (Val × Val)) (st : LoopSt) : Val × Val × Val × Val :=
  (st.1, st.2.1, st.2.2.1, reprNs st.2.2.2.1 st.2.2.2.2.1 st.2.2.2.2.2 rest)

theorem lsStep_foldl_snd (msgs : List (Msg × Val)) (st : LoopSt) :
    (msgs.foldl lsStep st).2.2.2 = msgs.foldl nsStep st.2.2.2 := by
  induction msgs generalizing st with
  | nil => rfl
  | cons p msgs ih => rw [List.foldl_cons, ih, List.foldl_cons]; rfl

/-- loop invariant: a body that simulates `lsStep` on every item makes the whole loop simulate the fold -/
theorem loop_inv (rest : List (Val × Val))
    (f : Val → Val × Val × Val × Val → Res (ForInStep (Val × Val × Val × Val)))
    (msgs : List (Msg × Val))
    (hstep : ∀ p ∈ msgs, ∀ st, f (encPair p) (encSt rest st) = .val (.yield (encSt rest (lsStep st p))))
    (st : LoopSt) :
    forIn (msgs.map encPair) (encSt rest st) f = Res.val (encSt rest (msgs.foldl lsStep st)) := by
  induction msgs generalizing st with
  | nil => rfl
  | cons p msgs ih =>
    rw [List.map_cons, List.forIn_cons, hstep p (by simp), bind_val']
    simp only []
    rw [ih (fun q hq => hstep q (List.mem_cons_of_mem _ hq)), List.foldl_cons]

theorem pyAppend_encMsgs (l : List Msg) (m : Msg) : pyAppend (encMsgs l) (.str m) = .val (encMsgs (l ++ [m])) := by
  simp [pyAppend, encMsgs]

theorem pyLen_encMsgs (l : List Msg) : pyLen (encMsgs l) = .val (Val.ofNat l.length) := by
  simp [pyLen, encMsgs]

theorem pyLt_ofNat (n k : Nat) : pyLt (Val.ofNat n) (.num (k : Rat)) = .val (.bool (decide (n < k))) := by
  simp [pyLt, cmpNum, Val.ofNat]

theorem pyGt_ofNat (n k : Nat) : pyGt (Val.ofNat n) (.num (k : Rat)) = .val (.bool (decide (k < n))) := by
  simp [pyGt, cmpNum, Val.ofNat]


theorem pyLt_ofNat_28 (n : Nat) : pyLt (Val.ofNat n) (Val.num 28) = .val (.bool (decide (n < 28))) := pyLt_ofNat n 28

theorem pyGt_ofNat_one (n : Nat) : pyGt (Val.ofNat n) (Val.num 1) = .val (.bool (decide (1 < n))) := by
  simpa using pyGt_ofNat n 1

/-- the argument of `raw_pipe_in.send` -/
def sendArgs (a : List Msg) (ta : List Val) (c : List Msg) (tc : List Val) : Val :=
  .tuple [.dict [(.str "adsb_ts".toList, .tuple ta), (.str "adsb_msg".toList, encMsgs a),
    (.str "commb_ts".toList, .tuple tc), (.str "commb_msg".toList, encMsgs c)]]

theorem pyEq_ofNat_17 (n : Nat) : pyEq (Val.ofNat n) (Val.num 17) = .val (.bool (decide (n = 17))) := pyEq_ofNat n 17
theorem pyEq_ofNat_18 (n : Nat) : pyEq (Val.ofNat n) (Val.num 18) = .val (.bool (decide (n = 18))) := pyEq_ofNat n 18
theorem pyEq_ofNat_20 (n : Nat) : pyEq (Val.ofNat n) (Val.num 20) = .val (.bool (decide (n = 20))) := pyEq_ofNat n 20
theorem pyEq_ofNat_21 (n : Nat) : pyEq (Val.ofNat n) (Val.num 21) = .val (.bool (decide (n = 21))) := pyEq_ofNat n 21

/-- the time stamps kept beside the buffers after the loop over `msgs` -/
def nsTs (s : NetSrc) (tsA tsC : List Val) (msgs : List (Msg × Val)) : List Val × List Val :=
  (msgs.foldl nsStep (s, tsA, tsC)).2

end PyModeS.Tie.Source
namespace PyModeS.Tie
open PyModeS.Tie.Source

/-- `handle_messages(messages)` with the stop flag clear (`hstop`: the guard `self.stop_flag.value is True` evaluates
    to `False`), on the receiver holding the local buffers `s` and a list of `[msg, t]` items (`t` any value; `msg` a hex
    string whenever it has 28 characters or more -- shorter ones are skipped before `pms.df` is called):
    the result is the receiver holding `(nsHandle s msgs).1`; when `nsHandle` sends `(adsb, commb)` the attribute
    `__out__` gains exactly the event `raw_pipe_in.send({adsb_ts, adsb_msg, commb_ts, commb_msg})`
    (`emitTo`, see `outOf_emitTo`) and the buffers are emptied, otherwise no attribute outside the four buffers changes.
    The time stamp lists (absent from the hand model) are `nsTs`. -/
theorem NetSource_handle_messages_tie (s : NetSrc) (tsA tsC : List Val) (rest : List (Val × Val))
    (msgs : List (Msg × Val))
    (hstop : (pyGetAttr (.dict rest) "stop_flag" >>= fun f => pyGetAttr f "value" >>= fun v =>
      pyIs v (.bool true)) = .val (.bool false))
    (hhex : ∀ p ∈ msgs, 28 ≤ p.1.length → IsHex p.1) :
    Gen.source.NetSource_handle_messages (reprNs s tsA tsC rest) (.tuple (msgs.map encPair)) =
      .val (.tuple [
        (match (nsHandle s (msgs.map Prod.fst)).2 with
          | none => reprNs (nsHandle s (msgs.map Prod.fst)).1 (nsTs s tsA tsC msgs).1 (nsTs s tsA tsC msgs).2 rest
          | some (a, c) => reprNs ⟨[], []⟩ [] []
              (emitTo rest "raw_pipe_in.send" (sendArgs a (nsTs s tsA tsC msgs).1 c (nsTs s tsA tsC msgs).2))),
        .none]) := by
  unfold Gen.source.NetSource_handle_messages
  simp only [reprNs]
  rw [get_stop]
  generalize pyGetAttr (.dict rest) "stop_flag" = r at hstop
  rcases r with f | _ | _
  rotate_left
  · exact absurd hstop (by simp)
  · exact absurd hstop (by simp)
  rw [bind_val'] at hstop ⊢
  generalize pyGetAttr f "value" = r at hstop
  rcases r with v | _ | _
  rotate_left
  · exact absurd hstop (by simp)
  · exact absurd hstop (by simp)
  rw [bind_val'] at hstop ⊢
  rw [hstop, bind_val']
  have hit : pyIter (Val.tuple (msgs.map encPair)) = .val (msgs.map encPair) := rfl
  simp only [pyTruth_bool, Bool.false_eq_true, if_false]
  rw [hit, bind_val']
  have hinit : (Val.none, Val.none, Val.none,
      reprD (encMsgs s.adsb) (Val.tuple tsA) (encMsgs s.commb) (Val.tuple tsC) rest) =
      encSt rest (Val.none, Val.none, Val.none, s, tsA, tsC) := rfl
  rw [hinit, loop_inv rest _ msgs ?step, bind_val']
  case step =>
    intro p hp st
    have hhex := hhex p hp
    obtain ⟨m, t⟩ := p
    obtain ⟨m0, t0, d0, s, ta, tc⟩ := st
    have hu : pyUnpackCheck (encPair (m, t)) 2 = .val () := rfl
    have h0 : pyIdxN (encPair (m, t)) 0 = .val (.str m) := rfl
    have h1 : pyIdxN (encPair (m, t)) 1 = .val t := rfl
    have hl : pyLen (.str m) = .val (Val.ofNat m.length) := rfl
    simp only [encSt, hu, h0, h1, hl, bind_val', pyLt_ofNat_28]
    by_cases hlen : m.length < 28
    · simp only [hlen, decide_true, pyTruth_bool, if_true, lsStep, nsStep]
      rfl
    · have hx : IsHex m := hhex (by simpa using hlen)
      simp only [hlen, decide_false, pyTruth_bool, Bool.false_eq_true, if_false, df_str m hx (by simp at hlen; omega), bind_val',
        pyEq_ofNat_17, pyEq_ofNat_18, pyEq_ofNat_20, pyEq_ofNat_21, Res.pure_eq, reprNs, get_am, get_at, get_cm, get_ct, set_am, set_at, set_cm, set_ct,
        pyAppend_encMsgs, lsStep, nsStep]
      have hap : ∀ (l : List Val), pyAppend (Val.tuple l) t = .val (.tuple (l ++ [t])) := fun _ => rfl
      simp only [hap, bind_val']
      by_cases h17 : PyModeS.df m = 17
      · simp [h17]
      · by_cases h18 : PyModeS.df m = 18
        · simp [h18]
        · by_cases h20 : PyModeS.df m = 20
          · simp [h20]
          · by_cases h21 : PyModeS.df m = 21
            · simp [h21]
            · simp [h17, h18, h20, h21]
  have hfin : (encSt rest (List.foldl lsStep (Val.none, Val.none, Val.none, s, tsA, tsC) msgs)).2.2.2 =
      reprD (encMsgs (nsLoop s (msgs.map Prod.fst)).adsb) (.tuple (nsTs s tsA tsC msgs).1)
        (encMsgs (nsLoop s (msgs.map Prod.fst)).commb) (.tuple (nsTs s tsA tsC msgs).2) rest := by
    have h1 := lsStep_foldl_snd msgs (Val.none, Val.none, Val.none, s, tsA, tsC)
    have h2 := nsStep_fst msgs (s, tsA, tsC)
    simp only [encSt, reprNs, nsTs]
    rw [h1, h2]
  rw [hfin, nsHandle_eq]
  generalize nsLoop s (msgs.map Prod.fst) = s'
  generalize nsTs s tsA tsC msgs = ts'
  simp only [get_am, get_at, get_cm, get_ct, bind_val', pyLen_encMsgs, pyGt_ofNat_one, pyTruth_bool, decide_eq_true_eq,
    emit_reprD, reset_reprD]
  by_cases hgt : 1 < s'.adsb.length
  · simp only [hgt, if_true, gt_iff_lt]
    rfl
  · simp only [hgt, if_false, gt_iff_lt]
    rfl

end PyModeS.Tie
namespace PyModeS.Tie.Source


/-- the event list after a recorded call: exactly one more entry -/
theorem outOf_emitTo (rest : List (Val × Val)) (label : String) (args : Val) :
    outOf (emitTo rest label args) = outOf rest ++ [.tuple [attrKey label, args]] := by
  have key : ∀ (l : List (Val × Val)) (v : Val), dictFind (setPair (attrKey "__out__") v l) (attrKey "__out__") = some v := by
    intro l v
    induction l with
    | nil => simp [setPair, dictFind_cons, attrKey, Val.beq, dictFind]
    | cons kv l ih =>
      obtain ⟨k', v'⟩ := kv
      rw [setPair_cons]
      by_cases hb : Val.beq (attrKey "__out__") k' = true
      · rw [if_pos hb, dictFind_cons, if_pos hb]
      · rw [if_neg hb, dictFind_cons, if_neg hb, ih]
  unfold emitTo
  generalize outOf rest ++ [Val.tuple [attrKey label, args]] = es
  unfold outOf
  rw [key]

end PyModeS.Tie.Source
namespace PyModeS.Tie
open PyModeS.Tie.Source

/-- the same with the stop flag written out: `self.stop_flag = {value: False}` -/
theorem NetSource_handle_messages_tie' (s : NetSrc) (tsA tsC : List Val) (rest : List (Val × Val))
    (msgs : List (Msg × Val))
    (hstop : dictFind rest (attrKey "stop_flag") = some (.dict [(attrKey "value", .bool false)]))
    (hhex : ∀ p ∈ msgs, 28 ≤ p.1.length → IsHex p.1) :
    Gen.source.NetSource_handle_messages (reprNs s tsA tsC rest) (.tuple (msgs.map encPair)) =
      .val (.tuple [
        (match (nsHandle s (msgs.map Prod.fst)).2 with
          | none => reprNs (nsHandle s (msgs.map Prod.fst)).1 (nsTs s tsA tsC msgs).1 (nsTs s tsA tsC msgs).2 rest
          | some (a, c) => reprNs ⟨[], []⟩ [] []
              (emitTo rest "raw_pipe_in.send" (sendArgs a (nsTs s tsA tsC msgs).1 c (nsTs s tsA tsC msgs).2))),
        .none]) := by
  apply NetSource_handle_messages_tie _ _ _ _ _ _ hhex
  simp only [pyGetAttr, hstop, bind_val']
  rfl

end PyModeS.Tie
namespace PyModeS.Tie
open PyModeS.Tie.Source

/-- `handle_messages(messages)` with the stop flag set: `self.stop()` (the socket is closed), nothing else changes
    (this branch is outside `nsHandle`, which models the call with the flag clear) -/
theorem NetSource_handle_messages_stop (s : NetSrc) (tsA tsC : List Val) (rest : List (Val × Val)) (messages : Val)
    (hstop : (pyGetAttr (.dict rest) "stop_flag" >>= fun f => pyGetAttr f "value" >>= fun v =>
      pyIs v (.bool true)) = .val (.bool true)) :
    Gen.source.NetSource_handle_messages (reprNs s tsA tsC rest) messages =
      .val (.tuple [reprNs s tsA tsC (emitTo rest "socket.close" (.tuple [])), .none]) := by
  unfold Gen.source.NetSource_handle_messages
  simp only [reprNs]
  rw [get_stop]
  generalize pyGetAttr (.dict rest) "stop_flag" = r at hstop
  rcases r with f | _ | _
  rotate_left
  · exact absurd hstop (by simp)
  · exact absurd hstop (by simp)
  rw [bind_val'] at hstop ⊢
  generalize pyGetAttr f "value" = r at hstop
  rcases r with v | _ | _
  rotate_left
  · exact absurd hstop (by simp)
  · exact absurd hstop (by simp)
  rw [bind_val'] at hstop ⊢
  rw [hstop, bind_val']
  simp only [pyTruth_bool, if_true, Gen.tcpclient.TcpClient_stop, emit_reprD, bind_val', Res.pure_eq]
  rfl

end PyModeS.Tie
namespace PyModeS.Tie.Source

/-! ### `RtlSdrSource`: the same two methods, duplicated in the source -/

theorem reset_reprD_rtl (am at_ cm ct rest) :
    Gen.source.RtlSdrSource_reset_local_buffer (reprD am at_ cm ct rest) =
      .val (.tuple [reprD (.tuple []) (.tuple []) (.tuple []) (.tuple []) rest, .none]) := by
  unfold Gen.source.RtlSdrSource_reset_local_buffer
  simp only [set_am, bind_val', set_at, set_cm, set_ct]
  rfl

end PyModeS.Tie.Source
namespace PyModeS.Tie
open PyModeS.Tie.Source

theorem RtlSdrSource_reset_local_buffer_tie (s : NetSrc) (tsA tsC : List Val) (rest : List (Val × Val)) :
    Gen.source.RtlSdrSource_reset_local_buffer (reprNs s tsA tsC rest) =
      .val (.tuple [reprNs ⟨[], []⟩ [] [] rest, .none]) :=
  reset_reprD_rtl _ _ _ _ _

end PyModeS.Tie
namespace PyModeS.Tie
open PyModeS.Tie.Source

/-- `RtlSdrSource.handle_messages` is the same code (stop flag clear). -/
theorem RtlSdrSource_handle_messages_tie (s : NetSrc) (tsA tsC : List Val) (rest : List (Val × Val))
    (msgs : List (Msg × Val))
    (hstop : (pyGetAttr (.dict rest) "stop_flag" >>= fun f => pyGetAttr f "value" >>= fun v =>
      pyIs v (.bool true)) = .val (.bool false))
    (hhex : ∀ p ∈ msgs, 28 ≤ p.1.length → IsHex p.1) :
    Gen.source.RtlSdrSource_handle_messages (reprNs s tsA tsC rest) (.tuple (msgs.map encPair)) =
      .val (.tuple [
        (match (nsHandle s (msgs.map Prod.fst)).2 with
          | none => reprNs (nsHandle s (msgs.map Prod.fst)).1 (nsTs s tsA tsC msgs).1 (nsTs s tsA tsC msgs).2 rest
          | some (a, c) => reprNs ⟨[], []⟩ [] []
              (emitTo rest "raw_pipe_in.send" (sendArgs a (nsTs s tsA tsC msgs).1 c (nsTs s tsA tsC msgs).2))),
        .none]) := by
  unfold Gen.source.RtlSdrSource_handle_messages
  simp only [reprNs]
  rw [get_stop]
  generalize pyGetAttr (.dict rest) "stop_flag" = r at hstop
  rcases r with f | _ | _
  rotate_left
  · exact absurd hstop (by simp)
  · exact absurd hstop (by simp)
  rw [bind_val'] at hstop ⊢
  generalize pyGetAttr f "value" = r at hstop
  rcases r with v | _ | _
  rotate_left
  · exact absurd hstop (by simp)
  · exact absurd hstop (by simp)
  rw [bind_val'] at hstop ⊢
  rw [hstop, bind_val']
  have hit : pyIter (Val.tuple (msgs.map encPair)) = .val (msgs.map encPair) := rfl
  simp only [pyTruth_bool, Bool.false_eq_true, if_false]
  rw [hit, bind_val']
  have hinit : (Val.none, Val.none, Val.none,
      reprD (encMsgs s.adsb) (Val.tuple tsA) (encMsgs s.commb) (Val.tuple tsC) rest) =
      encSt rest (Val.none, Val.none, Val.none, s, tsA, tsC) := rfl
  rw [hinit, loop_inv rest _ msgs ?step, bind_val']
  case step =>
    intro p hp st
    have hhex := hhex p hp
    obtain ⟨m, t⟩ := p
    obtain ⟨m0, t0, d0, s, ta, tc⟩ := st
    have hu : pyUnpackCheck (encPair (m, t)) 2 = .val () := rfl
    have h0 : pyIdxN (encPair (m, t)) 0 = .val (.str m) := rfl
    have h1 : pyIdxN (encPair (m, t)) 1 = .val t := rfl
    have hl : pyLen (.str m) = .val (Val.ofNat m.length) := rfl
    simp only [encSt, hu, h0, h1, hl, bind_val', pyLt_ofNat_28]
    by_cases hlen : m.length < 28
    · simp only [hlen, decide_true, pyTruth_bool, if_true, lsStep, nsStep]
      rfl
    · have hx : IsHex m := hhex (by simpa using hlen)
      simp only [hlen, decide_false, pyTruth_bool, Bool.false_eq_true, if_false, df_str m hx (by simp at hlen; omega), bind_val',
        pyEq_ofNat_17, pyEq_ofNat_18, pyEq_ofNat_20, pyEq_ofNat_21, Res.pure_eq, reprNs, get_am, get_at, get_cm, get_ct, set_am, set_at, set_cm, set_ct,
        pyAppend_encMsgs, lsStep, nsStep]
      have hap : ∀ (l : List Val), pyAppend (Val.tuple l) t = .val (.tuple (l ++ [t])) := fun _ => rfl
      simp only [hap, bind_val']
      by_cases h17 : PyModeS.df m = 17
      · simp [h17]
      · by_cases h18 : PyModeS.df m = 18
        · simp [h18]
        · by_cases h20 : PyModeS.df m = 20
          · simp [h20]
          · by_cases h21 : PyModeS.df m = 21
            · simp [h21]
            · simp [h17, h18, h20, h21]
  have hfin : (encSt rest (List.foldl lsStep (Val.none, Val.none, Val.none, s, tsA, tsC) msgs)).2.2.2 =
      reprD (encMsgs (nsLoop s (msgs.map Prod.fst)).adsb) (.tuple (nsTs s tsA tsC msgs).1)
        (encMsgs (nsLoop s (msgs.map Prod.fst)).commb) (.tuple (nsTs s tsA tsC msgs).2) rest := by
    have h1 := lsStep_foldl_snd msgs (Val.none, Val.none, Val.none, s, tsA, tsC)
    have h2 := nsStep_fst msgs (s, tsA, tsC)
    simp only [encSt, reprNs, nsTs]
    rw [h1, h2]
  rw [hfin, nsHandle_eq]
  generalize nsLoop s (msgs.map Prod.fst) = s'
  generalize nsTs s tsA tsC msgs = ts'
  simp only [get_am, get_at, get_cm, get_ct, bind_val', pyLen_encMsgs, pyGt_ofNat_one, pyTruth_bool, decide_eq_true_eq,
    emit_reprD, reset_reprD_rtl]
  by_cases hgt : 1 < s'.adsb.length
  · simp only [hgt, if_true, gt_iff_lt]
    rfl
  · simp only [hgt, if_false, gt_iff_lt]
    rfl

end PyModeS.Tie
