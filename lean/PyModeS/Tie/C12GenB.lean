/-
  C12 transported to the source-generated definitions, second part: `Gen.bds.infer` (`decoder/bds/__init__.py`) and the
  register predicates `Gen.bdsXX.isXX` — totality on every 28-digit frame, EMPTY, DF17 by type code, the Comm-B answer
  as the labels of the satisfied rules, soundness of the status / reserved-bit rules, completeness (`*_complete_tie`,
  `infer_reports_*_tie`) and the integer characterisation of the `is60` core.  Each statement composes a tie theorem
  (`Tie/Infer.lean`, `Tie/Is60.lean`, `Tie/BdsXX.lean`) with a theorem of `Properties/C12.lean`.
  The float-conversion parameter of the hand model is instantiated by `Tie.extIas`, the function the generated code
  computes.  (`is40/44/45/50/53_iff_tie` are in `Tie/C12Gen.lean`.)
-/
import PyModeS.Properties.C12
import PyModeS.Tie.Infer
import PyModeS.Tie.Bds53
import PyModeS.Proofs.CRC.Icao

-- symbolic execution of long generated `do` blocks: generous but finite budget (proof times are seconds)
set_option maxHeartbeats 1000000

set_option linter.unusedSimpArgs false
set_option linter.unusedTactic false
set_option linter.unreachableTactic false
namespace PyModeS.C12GenB
open PyModeS PyModeS.Py PyModeS.CRC PyModeS.C12 PyModeS.Infer

theorem frame_bits (m : Msg) (hl : m.length = 28) : (hex2binM m).length = 112 := by
  rw [hex2binM_length, hl]

/-- a Boolean result read through the encoding of the tie -/
theorem bool_enc_iff (x : Res Bool) (c : Bool) :
    (x >>= fun b => (.val (Val.bool b) : Res Val)) = .val (Val.bool c) ↔ x = .val c := by
  cases x with
  | val b => cases b <;> cases c <;> simp
  | rte => simp
  | exc => simp

/-- a 112-bit frame as the hex string the generated functions take -/
theorem hex_of_frame (frame : Bits) (hlen : frame.length = 112) :
    IsHex (hexOfBits frame) ∧ (hexOfBits frame).length = 28 ∧ hex2binM (hexOfBits frame) = frame :=
  ⟨hexOfBits_isHex _, by rw [hexOfBits_length, hlen], hex2binM_hexOfBits _ (by rw [hlen])⟩

/-! ### 8. totality: every rule and `infer` return a value on every 28-digit hex frame -/

theorem is10_frame_tie (m : Msg) (h : IsHex m) (hl : m.length = 28) :
    Gen.bds10.is10 (.str m) = .val (.bool (is10P (mbOf (hex2binM m)))) := by
  rw [Tie.is10_tie m h hl, is10_frame _ (frame_bits m hl)]; rfl
theorem is17_frame_tie (m : Msg) (h : IsHex m) (hl : m.length = 28) :
    Gen.bds17.is17 (.str m) = .val (.bool (is17P (mbOf (hex2binM m)))) := by
  rw [Tie.is17_tie m h hl, is17_frame _ (frame_bits m hl)]; rfl
theorem is20_frame_tie (m : Msg) (h : IsHex m) (hl : m.length = 28) :
    Gen.bds20.is20 (.str m) = .val (.bool (is20P (mbOf (hex2binM m)))) := by
  rw [Tie.is20_tie m h hl, is20_frame _ (frame_bits m hl)]; rfl
theorem is30_frame_tie (m : Msg) (h : IsHex m) (hl : m.length = 28) :
    Gen.bds30.is30 (.str m) = .val (.bool (is30P (mbOf (hex2binM m)))) := by
  rw [Tie.is30_tie m h hl, is30_frame _ (frame_bits m hl)]; rfl
theorem is40_frame_tie (m : Msg) (h : IsHex m) (hl : m.length = 28) :
    Gen.bds40.is40 (.str m) = .val (.bool (is40P (mbOf (hex2binM m)))) := by
  rw [Tie.is40_tie m h hl, is40_frame _ (frame_bits m hl)]; rfl
theorem is44_frame_tie (m : Msg) (h : IsHex m) (hl : m.length = 28) :
    Gen.bds44.is44 (.str m) = .val (.bool (is44P (mbOf (hex2binM m)))) := by
  rw [Tie.is44_tie m h hl, is44_frame _ (frame_bits m hl)]; rfl
theorem is45_frame_tie (m : Msg) (h : IsHex m) (hl : m.length = 28) :
    Gen.bds45.is45 (.str m) = .val (.bool (is45P (mbOf (hex2binM m)))) := by
  rw [Tie.is45_tie m h hl, is45_frame _ (frame_bits m hl)]; rfl
theorem is50_frame_tie (m : Msg) (h : IsHex m) (hl : m.length = 28) :
    Gen.bds50.is50 (.str m) = .val (.bool (is50P (mbOf (hex2binM m)))) := by
  rw [Tie.is50_tie m h hl, is50_frame _ (frame_bits m hl)]; rfl
theorem is53_frame_tie (m : Msg) (h : IsHex m) (hl : m.length = 28) :
    Gen.bds53.is53 (.str m) = .val (.bool (is53P (mbOf (hex2binM m)))) := by
  rw [Tie.is53_tie m h hl, is53_frame _ (frame_bits m hl)]; rfl
theorem is60_frame_tie (m : Msg) (h : IsHex m) (hl : m.length = 28) :
    Gen.bds60.is60 (.str m) = .val (.bool (is60P Tie.extIas (hex2binM m))) := by
  rw [Tie.is60_tie m h hl, is60_frame _ _ (frame_bits m hl)]; rfl

/-- every generated rule is total on 28-digit hex frames: a Boolean, never an exception -/
theorem rules_total_tie (m : Msg) (h : IsHex m) (hl : m.length = 28) :
    (∃ b, Gen.bds10.is10 (.str m) = .val (.bool b)) ∧ (∃ b, Gen.bds17.is17 (.str m) = .val (.bool b)) ∧
    (∃ b, Gen.bds20.is20 (.str m) = .val (.bool b)) ∧ (∃ b, Gen.bds30.is30 (.str m) = .val (.bool b)) ∧
    (∃ b, Gen.bds40.is40 (.str m) = .val (.bool b)) ∧ (∃ b, Gen.bds44.is44 (.str m) = .val (.bool b)) ∧
    (∃ b, Gen.bds45.is45 (.str m) = .val (.bool b)) ∧ (∃ b, Gen.bds50.is50 (.str m) = .val (.bool b)) ∧
    (∃ b, Gen.bds53.is53 (.str m) = .val (.bool b)) ∧ (∃ b, Gen.bds60.is60 (.str m) = .val (.bool b)) :=
  ⟨⟨_, is10_frame_tie m h hl⟩, ⟨_, is17_frame_tie m h hl⟩, ⟨_, is20_frame_tie m h hl⟩, ⟨_, is30_frame_tie m h hl⟩,
   ⟨_, is40_frame_tie m h hl⟩, ⟨_, is44_frame_tie m h hl⟩, ⟨_, is45_frame_tie m h hl⟩, ⟨_, is50_frame_tie m h hl⟩,
   ⟨_, is53_frame_tie m h hl⟩, ⟨_, is60_frame_tie m h hl⟩⟩

/-- the generated `infer` as an explicit total function of the frame -/
theorem infer_frame_tie (m : Msg) (h : IsHex m) (hl : m.length = 28) (mrar : Bool) :
    Gen.bds.infer (.str m) (.bool mrar) = .val (Tie.Val.ofOptLabel (inferP Tie.extIas (hex2binM m) mrar)) := by
  rw [Tie.infer_tie m h hl, infer_frame _ _ _ (frame_bits m hl)]; rfl

/-- for every 28-digit hex frame the generated `infer` terminates without an exception, with `None` or a string,
    whatever `mrar` -/
theorem infer_total_tie (m : Msg) (h : IsHex m) (hl : m.length = 28) (mrar : Bool) :
    Gen.bds.infer (.str m) (.bool mrar) = .val .none ∨
      ∃ s : String, Gen.bds.infer (.str m) (.bool mrar) = .val (.str s.toList) := by
  rw [infer_frame_tie m h hl]
  cases inferP Tie.extIas (hex2binM m) mrar with
  | none => left; rfl
  | some s => right; exact ⟨s, rfl⟩

/-- the generated all-zero test is total and says what it should -/
theorem allzeros_frame_tie (m : Msg) (h : IsHex m) (hl : m.length = 28) :
    Gen.py_common.allzeros (.str m) = .val (.bool (decide (PyModeS.bin2int (mbOf (hex2binM m)) = 0))) :=
  Tie.allzeros_str m h hl

/-! ### EMPTY and the DF17 path -/

/-- an all-zero MB field is reported as "EMPTY" whatever the header says -/
theorem infer_empty_tie (m : Msg) (h : IsHex m) (hl : m.length = 28) (mrar : Bool)
    (hz : PyModeS.bin2int (mbOf (hex2binM m)) = 0) :
    Gen.bds.infer (.str m) (.bool mrar) = .val (.str "EMPTY".toList) := by
  rw [Tie.infer_tie m h hl, (infer_other_paths _ _ _ (frame_bits m hl)).1 hz]; rfl

/-- DF17 with a type code that names a register: that register (the Comm-B rules are not consulted) -/
theorem infer_df17_tc_tie (m : Msg) (h : IsHex m) (hl : m.length = 28) (mrar : Bool) (tc : Nat) (l : String)
    (hz : PyModeS.bin2int (mbOf (hex2binM m)) ≠ 0) (hdf : dfB (hex2binM m) = 17) (htc : tcB (hex2binM m) = some tc)
    (hlab : inferAdsb tc = some l) :
    Gen.bds.infer (.str m) (.bool mrar) = .val (.str l.toList) := by
  have ha : adsbOf (hex2binM m) = some l := by unfold adsbOf; rw [if_pos hdf, htc]; exact hlab
  rw [Tie.infer_tie m h hl, (infer_other_paths _ _ _ (frame_bits m hl)).2 hz l ha]; rfl

theorem adsbOf_none_of_df (bits : Bits) (hdf : dfB bits ≠ 17) : adsbOf bits = none := by
  unfold adsbOf; rw [if_neg hdf]

/-! ### 9. the Comm-B answer -/

/-- Comm-B path (MB not all zero, not a DF17 frame whose type code names a register): the answer of the generated `infer`
    is the comma-joined list of the labels of the generated rules that hold, in the order BDS10, BDS17, BDS20, BDS30,
    BDS40, [BDS44, BDS45 only with `mrar`], BDS50, BDS60; `None` if there is none -/
theorem infer_commb_eq_rules_tie (m : Msg) (h : IsHex m) (hl : m.length = 28) (mrar : Bool)
    (hz : PyModeS.bin2int (mbOf (hex2binM m)) ≠ 0) (ha : adsbOf (hex2binM m) = none)
    (b10 b17 b20 b30 b40 b44 b45 b50 b60 : Bool)
    (h10 : Gen.bds10.is10 (.str m) = .val (.bool b10)) (h17 : Gen.bds17.is17 (.str m) = .val (.bool b17))
    (h20 : Gen.bds20.is20 (.str m) = .val (.bool b20)) (h30 : Gen.bds30.is30 (.str m) = .val (.bool b30))
    (h40 : Gen.bds40.is40 (.str m) = .val (.bool b40)) (h44 : Gen.bds44.is44 (.str m) = .val (.bool b44))
    (h45 : Gen.bds45.is45 (.str m) = .val (.bool b45)) (h50 : Gen.bds50.is50 (.str m) = .val (.bool b50))
    (h60 : Gen.bds60.is60 (.str m) = .val (.bool b60)) :
    Gen.bds.infer (.str m) (.bool mrar) = .val (Tie.Val.ofOptLabel (joinLabels
      (Infer.sel b10 "BDS10" ++ Infer.sel b17 "BDS17" ++ Infer.sel b20 "BDS20" ++ Infer.sel b30 "BDS30" ++
       Infer.sel b40 "BDS40" ++ Infer.sel (b44 && mrar) "BDS44" ++ Infer.sel (b45 && mrar) "BDS45" ++
       Infer.sel b50 "BDS50" ++ Infer.sel b60 "BDS60"))) := by
  rw [Tie.is10_tie m h hl, bool_enc_iff] at h10
  rw [Tie.is17_tie m h hl, bool_enc_iff] at h17
  rw [Tie.is20_tie m h hl, bool_enc_iff] at h20
  rw [Tie.is30_tie m h hl, bool_enc_iff] at h30
  rw [Tie.is40_tie m h hl, bool_enc_iff] at h40
  rw [Tie.is44_tie m h hl, bool_enc_iff] at h44
  rw [Tie.is45_tie m h hl, bool_enc_iff] at h45
  rw [Tie.is50_tie m h hl, bool_enc_iff] at h50
  rw [Tie.is60_tie m h hl, bool_enc_iff] at h60
  have hb := frame_bits m hl
  have hz' : allzerosB (hex2binM m) = .val false := by
    rw [allzerosB_frame _ hb]
    congr 1
    exact decide_eq_false hz
  have hadsb : dfB (hex2binM m) = 17 → ∀ tc, tcB (hex2binM m) = some tc → inferAdsb tc = none := by
    intro hdf tc htc
    unfold adsbOf at ha
    rw [if_pos hdf, htc] at ha
    exact ha
  rw [Tie.infer_tie m h hl,
    infer_commb_eq_rules Tie.extIas _ mrar hb hz' hadsb b10 b17 b20 b30 b40 b44 b45 b50 b60 h10 h17 h20 h30 h40 h44 h45
      h50 h60]
  rfl

/-- the same with the list characterised by membership: the answer is the join of a sub-list `L` of the nine labels (in
    their fixed, sorted order) that contains a label exactly when the generated rule of that register holds
    (and `mrar` is set, for BDS44 / BDS45) -/
theorem infer_commb_labels_tie (m : Msg) (h : IsHex m) (hl : m.length = 28) (mrar : Bool)
    (hz : PyModeS.bin2int (mbOf (hex2binM m)) ≠ 0) (ha : adsbOf (hex2binM m) = none) :
    ∃ L : List String, Gen.bds.infer (.str m) (.bool mrar) = .val (Tie.Val.ofOptLabel (joinLabels L)) ∧
      L.Sublist allLabels ∧
      ("BDS10" ∈ L ↔ Gen.bds10.is10 (.str m) = .val (.bool true)) ∧
      ("BDS17" ∈ L ↔ Gen.bds17.is17 (.str m) = .val (.bool true)) ∧
      ("BDS20" ∈ L ↔ Gen.bds20.is20 (.str m) = .val (.bool true)) ∧
      ("BDS30" ∈ L ↔ Gen.bds30.is30 (.str m) = .val (.bool true)) ∧
      ("BDS40" ∈ L ↔ Gen.bds40.is40 (.str m) = .val (.bool true)) ∧
      ("BDS44" ∈ L ↔ (Gen.bds44.is44 (.str m) = .val (.bool true) ∧ mrar = true)) ∧
      ("BDS45" ∈ L ↔ (Gen.bds45.is45 (.str m) = .val (.bool true) ∧ mrar = true)) ∧
      ("BDS50" ∈ L ↔ Gen.bds50.is50 (.str m) = .val (.bool true)) ∧
      ("BDS60" ∈ L ↔ Gen.bds60.is60 (.str m) = .val (.bool true)) := by
  have hb := frame_bits m hl
  refine ⟨labelsP Tie.extIas (hex2binM m) mrar, ?_, labelsP_sublist _ _ _, ?_⟩
  · rw [Tie.infer_tie m h hl, infer_commb_frame _ _ _ hb hz ha]; rfl
  obtain ⟨m10, m17, m20, m30, m40, m44, m45, m50, m60⟩ := label_mem_iff Tie.extIas (hex2binM m) mrar
  have e : ∀ b : Bool, ((.val (.bool b) : Res Val) = .val (.bool true)) ↔ b = true := by
    intro b; cases b <;> simp
  rw [is10_frame_tie m h hl, is17_frame_tie m h hl, is20_frame_tie m h hl, is30_frame_tie m h hl,
    is40_frame_tie m h hl, is44_frame_tie m h hl, is45_frame_tie m h hl, is50_frame_tie m h hl, is60_frame_tie m h hl]
  simp only [e]
  exact ⟨m10, m17, m20, m30, m40, m44, m45, m50, m60⟩

/-- a register whose generated rule fails is never reported on the Comm-B path -/
theorem infer_excludes_tie (m : Msg) (h : IsHex m) (hl : m.length = 28) (mrar : Bool)
    (hz : PyModeS.bin2int (mbOf (hex2binM m)) ≠ 0) (ha : adsbOf (hex2binM m) = none) :
    ∃ L : List String, Gen.bds.infer (.str m) (.bool mrar) = .val (Tie.Val.ofOptLabel (joinLabels L)) ∧
      L.Sublist allLabels ∧
      (Gen.bds10.is10 (.str m) = .val (.bool false) → "BDS10" ∉ L) ∧
      (Gen.bds17.is17 (.str m) = .val (.bool false) → "BDS17" ∉ L) ∧
      (Gen.bds20.is20 (.str m) = .val (.bool false) → "BDS20" ∉ L) ∧
      (Gen.bds30.is30 (.str m) = .val (.bool false) → "BDS30" ∉ L) ∧
      (Gen.bds40.is40 (.str m) = .val (.bool false) → "BDS40" ∉ L) ∧
      (Gen.bds44.is44 (.str m) = .val (.bool false) → "BDS44" ∉ L) ∧
      (Gen.bds45.is45 (.str m) = .val (.bool false) → "BDS45" ∉ L) ∧
      (Gen.bds50.is50 (.str m) = .val (.bool false) → "BDS50" ∉ L) ∧
      (Gen.bds60.is60 (.str m) = .val (.bool false) → "BDS60" ∉ L) := by
  obtain ⟨L, hL, hsub, m10, m17, m20, m30, m40, m44, m45, m50, m60⟩ := infer_commb_labels_tie m h hl mrar hz ha
  have ne : ∀ {x : Res Val}, x = .val (.bool false) → x = .val (.bool true) → False := by
    intro x h1 h2; rw [h1] at h2; cases h2
  exact ⟨L, hL, hsub, fun hf hm => ne hf (m10.mp hm), fun hf hm => ne hf (m17.mp hm), fun hf hm => ne hf (m20.mp hm),
    fun hf hm => ne hf (m30.mp hm), fun hf hm => ne hf (m40.mp hm), fun hf hm => ne hf (m44.mp hm).1,
    fun hf hm => ne hf (m45.mp hm).1, fun hf hm => ne hf (m50.mp hm), fun hf hm => ne hf (m60.mp hm)⟩

/-- `None` exactly when no generated rule holds -/
theorem infer_none_of_no_rule_tie (m : Msg) (h : IsHex m) (hl : m.length = 28) (mrar : Bool)
    (hz : PyModeS.bin2int (mbOf (hex2binM m)) ≠ 0) (ha : adsbOf (hex2binM m) = none)
    (h10 : Gen.bds10.is10 (.str m) = .val (.bool false)) (h17 : Gen.bds17.is17 (.str m) = .val (.bool false))
    (h20 : Gen.bds20.is20 (.str m) = .val (.bool false)) (h30 : Gen.bds30.is30 (.str m) = .val (.bool false))
    (h40 : Gen.bds40.is40 (.str m) = .val (.bool false)) (h44 : Gen.bds44.is44 (.str m) = .val (.bool false))
    (h45 : Gen.bds45.is45 (.str m) = .val (.bool false)) (h50 : Gen.bds50.is50 (.str m) = .val (.bool false))
    (h60 : Gen.bds60.is60 (.str m) = .val (.bool false)) :
    Gen.bds.infer (.str m) (.bool mrar) = .val .none := by
  rw [infer_commb_eq_rules_tie m h hl mrar hz ha false false false false false false false false false
    h10 h17 h20 h30 h40 h44 h45 h50 h60]
  rfl

/-- without `mrar` BDS44 and BDS45 are never in the Comm-B answer -/
theorem infer_omits_44_45_tie (m : Msg) (h : IsHex m) (hl : m.length = 28)
    (hz : PyModeS.bin2int (mbOf (hex2binM m)) ≠ 0) (ha : adsbOf (hex2binM m) = none) :
    ∃ L : List String, Gen.bds.infer (.str m) (.bool false) = .val (Tie.Val.ofOptLabel (joinLabels L)) ∧
      L.Sublist allLabels ∧ "BDS44" ∉ L ∧ "BDS45" ∉ L := by
  obtain ⟨L, hL, hsub, -, -, -, -, -, m44, m45, -, -⟩ := infer_commb_labels_tie m h hl false hz ha
  exact ⟨L, hL, hsub, fun hm => absurd (m44.mp hm).2 (by decide), fun hm => absurd (m45.mp hm).2 (by decide)⟩

/-! ### 10. soundness of the status and reserved-bit rules -/

/-- the generated `common.wrongstatus` on in-range arguments: status bit 0 although the field is not all zero -/
theorem wrongstatus_spec_tie (d : Bits) (sb msb lsb : Nat) (h0 : 1 ≤ sb) (h1 : sb ≤ d.length) (h2 : 1 ≤ msb)
    (h3 : msb ≤ lsb) (h4 : msb ≤ d.length) :
    Gen.py_common.wrongstatus (Val.ofBits d) (Val.ofNat sb) (Val.ofNat msb) (Val.ofNat lsb) =
      .val (.bool (decide (d.getD (sb - 1) false = false ∧ PyModeS.bin2int (slice (msb - 1) lsb d) ≠ 0))) := by
  rw [Tie.wrongstatus_ofBits d sb msb lsb h0 h2, wrongstatus_spec d sb msb lsb h0 h1 h2 h3 h4]; rfl

/-- a listed status bit `t.1` (1-based) is 0 although some bit of MB bits `t.2.1 .. t.2.2` is 1 ⇒ the generated rule
    rejects the frame -/
theorem is40_status_sound_tie (m : Msg) (h : IsHex m) (hl : m.length = 28) (t : Nat × Nat × Nat) (ht : t ∈ rules40)
    (h0 : bitAt (mbOf (hex2binM m)) (t.1 - 1) = false) (h1 : true ∈ slice (t.2.1 - 1) t.2.2 (mbOf (hex2binM m))) :
    Gen.bds40.is40 (.str m) = .val (.bool false) := by
  rw [Tie.is40_tie m h hl, is40_status_sound _ (frame_bits m hl) t ht h0 h1]; rfl

theorem is44_status_sound_tie (m : Msg) (h : IsHex m) (hl : m.length = 28) (t : Nat × Nat × Nat) (ht : t ∈ rules44)
    (h0 : bitAt (mbOf (hex2binM m)) (t.1 - 1) = false) (h1 : true ∈ slice (t.2.1 - 1) t.2.2 (mbOf (hex2binM m))) :
    Gen.bds44.is44 (.str m) = .val (.bool false) := by
  rw [Tie.is44_tie m h hl, is44_status_sound _ (frame_bits m hl) t ht h0 h1]; rfl

theorem is45_status_sound_tie (m : Msg) (h : IsHex m) (hl : m.length = 28) (t : Nat × Nat × Nat) (ht : t ∈ rules45)
    (h0 : bitAt (mbOf (hex2binM m)) (t.1 - 1) = false) (h1 : true ∈ slice (t.2.1 - 1) t.2.2 (mbOf (hex2binM m))) :
    Gen.bds45.is45 (.str m) = .val (.bool false) := by
  rw [Tie.is45_tie m h hl, is45_status_sound _ (frame_bits m hl) t ht h0 h1]; rfl

theorem is50_status_sound_tie (m : Msg) (h : IsHex m) (hl : m.length = 28) (t : Nat × Nat × Nat) (ht : t ∈ rules50)
    (h0 : bitAt (mbOf (hex2binM m)) (t.1 - 1) = false) (h1 : true ∈ slice (t.2.1 - 1) t.2.2 (mbOf (hex2binM m))) :
    Gen.bds50.is50 (.str m) = .val (.bool false) := by
  rw [Tie.is50_tie m h hl, is50_status_sound _ (frame_bits m hl) t ht h0 h1]; rfl

theorem is60_status_sound_tie (m : Msg) (h : IsHex m) (hl : m.length = 28) (t : Nat × Nat × Nat) (ht : t ∈ rules60)
    (h0 : bitAt (mbOf (hex2binM m)) (t.1 - 1) = false) (h1 : true ∈ slice (t.2.1 - 1) t.2.2 (mbOf (hex2binM m))) :
    Gen.bds60.is60 (.str m) = .val (.bool false) := by
  rw [Tie.is60_tie m h hl, is60_status_sound _ _ (frame_bits m hl) t ht h0 h1]; rfl

/-- BDS 1,0 reserved bits: first byte must be 0x10 and MB bits 10-14 zero -/
theorem is10_reserved_sound_tie (m : Msg) (h : IsHex m) (hl : m.length = 28)
    (hv : slice 0 8 (mbOf (hex2binM m)) ≠ natToBits 8 0x10 ∨ true ∈ slice 9 14 (mbOf (hex2binM m))) :
    Gen.bds10.is10 (.str m) = .val (.bool false) := by
  rw [Tie.is10_tie m h hl, is10_reserved_sound _ (frame_bits m hl) hv]; rfl

/-- BDS 1,7 exactly: not all zero, MB bits 25-56 zero, and the BDS 2,0 capability bit (MB bit 7) set -/
theorem is17_iff_tie (m : Msg) (h : IsHex m) (hl : m.length = 28) :
    Gen.bds17.is17 (.str m) = .val (.bool true) ↔
      (PyModeS.bin2int (mbOf (hex2binM m)) ≠ 0 ∧ PyModeS.bin2int (slice 24 56 (mbOf (hex2binM m))) = 0 ∧
       bitAt (mbOf (hex2binM m)) 6 = true) := by
  rw [Tie.is17_tie m h hl, bool_enc_iff]
  exact is17_iff _ (frame_bits m hl)

theorem is17_reserved_sound_tie (m : Msg) (h : IsHex m) (hl : m.length = 28)
    (hv : true ∈ slice 24 56 (mbOf (hex2binM m)) ∨ bitAt (mbOf (hex2binM m)) 6 = false) :
    Gen.bds17.is17 (.str m) = .val (.bool false) := by
  rw [Tie.is17_tie m h hl, is17_reserved_sound _ (frame_bits m hl) hv]; rfl

/-- BDS 2,0: first byte 0x20 and (unless the callsign field is all zero) every character legal -/
theorem is20_reserved_sound_tie (m : Msg) (h : IsHex m) (hl : m.length = 28)
    (hv : slice 0 8 (mbOf (hex2binM m)) ≠ natToBits 8 0x20 ∨
      (true ∈ slice 8 56 (mbOf (hex2binM m)) ∧
        ∃ i, i < 8 ∧ Tables.cs20Chars.getD
          (PyModeS.bin2int (slice (6 * i) (6 * i + 6) (slice 8 56 (mbOf (hex2binM m))))) '#' = '#')) :
    Gen.bds20.is20 (.str m) = .val (.bool false) := by
  rw [Tie.is20_tie m h hl, is20_reserved_sound _ (frame_bits m hl) hv]; rfl

/-- BDS 3,0 exactly: not all zero, first byte 0x30, threat type (MB bits 29-30) ≠ 3, MB bits 16-22 < 48 -/
theorem is30_iff_tie (m : Msg) (h : IsHex m) (hl : m.length = 28) :
    Gen.bds30.is30 (.str m) = .val (.bool true) ↔
      (PyModeS.bin2int (mbOf (hex2binM m)) ≠ 0 ∧ slice 0 8 (mbOf (hex2binM m)) = natToBits 8 0x30 ∧
       slice 28 30 (mbOf (hex2binM m)) ≠ [true, true] ∧ PyModeS.bin2int (slice 15 22 (mbOf (hex2binM m))) < 48) := by
  rw [Tie.is30_tie m h hl, bool_enc_iff]
  exact is30_iff _ (frame_bits m hl)

theorem is30_reserved_sound_tie (m : Msg) (h : IsHex m) (hl : m.length = 28)
    (hv : slice 0 8 (mbOf (hex2binM m)) ≠ natToBits 8 0x30 ∨ slice 28 30 (mbOf (hex2binM m)) = [true, true] ∨
      48 ≤ PyModeS.bin2int (slice 15 22 (mbOf (hex2binM m)))) :
    Gen.bds30.is30 (.str m) = .val (.bool false) := by
  rw [Tie.is30_tie m h hl, is30_reserved_sound _ (frame_bits m hl) hv]; rfl

theorem is40_reserved_sound_tie (m : Msg) (h : IsHex m) (hl : m.length = 28)
    (hv : true ∈ slice 39 47 (mbOf (hex2binM m)) ∨ true ∈ slice 51 53 (mbOf (hex2binM m))) :
    Gen.bds40.is40 (.str m) = .val (.bool false) := by
  rw [Tie.is40_tie m h hl, is40_reserved_sound _ (frame_bits m hl) hv]; rfl

/-! ### BDS 6,0 -/

/-- outside DF20 (and whenever Mach or IAS is absent) the altitude cross-check of the generated `is60` is vacuous and the
    rule is exactly, in integers: not all zero, the five status rules, IAS ≤ 500 kt, Mach ≤ 1 (field ≤ 250),
    |vertical rates| ≤ 6000 ft/min (signed fields in −187..187) -/
theorem is60_core_iff_tie (m : Msg) (h : IsHex m) (hl : m.length = 28)
    (hc : dfB (hex2binM m) ≠ 20 ∨ bitAt (mbOf (hex2binM m)) 12 = false ∨ bitAt (mbOf (hex2binM m)) 23 = false) :
    Gen.bds60.is60 (.str m) = .val (.bool true) ↔
      (PyModeS.bin2int (mbOf (hex2binM m)) ≠ 0 ∧ statusP (mbOf (hex2binM m)) rules60 = true ∧
        (bitAt (mbOf (hex2binM m)) 12 = true → fld (mbOf (hex2binM m)) 13 23 ≤ 500) ∧
        (bitAt (mbOf (hex2binM m)) 23 = true → fld (mbOf (hex2binM m)) 24 34 ≤ 250) ∧
        (bitAt (mbOf (hex2binM m)) 34 = true →
          -187 ≤ sval (mbOf (hex2binM m)) 35 36 45 ∧ sval (mbOf (hex2binM m)) 35 36 45 ≤ 187) ∧
        (bitAt (mbOf (hex2binM m)) 45 = true →
          -187 ≤ sval (mbOf (hex2binM m)) 46 47 56 ∧ sval (mbOf (hex2binM m)) 46 47 56 ≤ 187)) := by
  have hb := frame_bits m hl
  rw [Tie.is60_tie m h hl, bool_enc_iff, is60_eq_core _ _ hb hc]
  exact is60Core_iff _ hb

/-- in every case the core conditions are necessary for the generated `is60` -/
theorem is60_core_necessary_tie (m : Msg) (h : IsHex m) (hl : m.length = 28)
    (h60 : Gen.bds60.is60 (.str m) = .val (.bool true)) :
    (PyModeS.bin2int (mbOf (hex2binM m)) ≠ 0 ∧ statusP (mbOf (hex2binM m)) rules60 = true ∧
        (bitAt (mbOf (hex2binM m)) 12 = true → fld (mbOf (hex2binM m)) 13 23 ≤ 500) ∧
        (bitAt (mbOf (hex2binM m)) 23 = true → fld (mbOf (hex2binM m)) 24 34 ≤ 250) ∧
        (bitAt (mbOf (hex2binM m)) 34 = true →
          -187 ≤ sval (mbOf (hex2binM m)) 35 36 45 ∧ sval (mbOf (hex2binM m)) 35 36 45 ≤ 187) ∧
        (bitAt (mbOf (hex2binM m)) 45 = true →
          -187 ≤ sval (mbOf (hex2binM m)) 46 47 56 ∧ sval (mbOf (hex2binM m)) 46 47 56 ≤ 187)) := by
  have hb := frame_bits m hl
  rw [is60_frame_tie m h hl] at h60
  have hp : is60P Tie.extIas (hex2binM m) = true := by
    cases hq : is60P Tie.extIas (hex2binM m) with
    | true => rfl
    | false => rw [hq] at h60; cases h60
  have hcore := is60P_core _ _ hp
  exact (is60Core_iff _ hb).mp (by rw [is60Core_frame _ hb, hcore])

/-! ### 11 / 12. completeness: plausible payloads are accepted by the generated rules and reported by `infer` -/

/-- BDS 5,0: every plausible choice of the five (status, value) pairs, laid out between an arbitrary 32-bit header and
    24-bit parity and written as a hex string, is accepted by the generated `is50` (hypotheses as in `C12.is50_complete`) -/
theorem is50_complete_tie (hdr par : Bits) (hh : hdr.length = 32) (hp : par.length = 24)
    (s1 g1 : Bool) (m1 : Nat) (s2 g2 : Bool) (m2 : Nat) (s3 : Bool) (gs : Nat)
    (s4 g4 : Bool) (m4 : Nat) (s5 : Bool) (tas : Nat)
    (hm1 : m1 < 512) (hm2 : m2 < 1024) (hgs : gs < 1024) (hm4 : m4 < 512) (htas : tas < 1024)
    (z1 : s1 = false → g1 = false ∧ m1 = 0) (z2 : s2 = false → g2 = false ∧ m2 = 0)
    (z3 : s3 = false → gs = 0) (z4 : s4 = false → g4 = false ∧ m4 = 0) (z5 : s5 = false → tas = 0)
    (hroll : s1 = true → -284 ≤ sroll g1 m1 ∧ sroll g1 m1 ≤ 284)
    (hgs300 : s3 = true → gs ≤ 300) (htas300 : s5 = true → tas ≤ 300)
    (hdiff : s3 = true → s5 = true → tas ≤ gs + 100 ∧ gs ≤ tas + 100)
    (hne : s1 = true ∨ s2 = true ∨ s3 = true ∨ s4 = true ∨ s5 = true) :
    Gen.bds50.is50 (.str (hexOfBits (hdr ++ build [(1, s1.toNat), (1, g1.toNat), (9, m1), (1, s2.toNat), (1, g2.toNat),
      (10, m2), (1, s3.toNat), (10, gs), (1, s4.toNat), (1, g4.toNat), (9, m4), (1, s5.toNat), (10, tas)] ++ par))) =
      .val (.bool true) := by
  have hm : is50 (hdr ++ mb50 s1 g1 m1 s2 g2 m2 s3 gs s4 g4 m4 s5 tas ++ par) = .val true :=
    is50_complete hdr par hh hp s1 g1 m1 s2 g2 m2 s3 gs s4 g4 m4 s5 tas hm1 hm2 hgs hm4 htas z1 z2 z3 z4 z5
    hroll hgs300 htas300 hdiff hne
  have hlen : (hdr ++ mb50 s1 g1 m1 s2 g2 m2 s3 gs s4 g4 m4 s5 tas ++ par).length = 112 := by
    simp only [List.length_append, hh, hp, mb50_length]
  obtain ⟨x1, x2, x3⟩ := hex_of_frame _ hlen
  show Gen.bds50.is50 (.str (hexOfBits (hdr ++ mb50 s1 g1 m1 s2 g2 m2 s3 gs s4 g4 m4 s5 tas ++ par))) = _
  rw [Tie.is50_tie _ x1 x2, x3]
  rw [hm]; rfl

/-- BDS 4,0 (hypotheses as in `C12.is40_complete`) -/
theorem is40_complete_tie (hdr par : Bits) (hh : hdr.length = 32) (hp : par.length = 24)
    (s1 : Bool) (mcp : Nat) (s2 : Bool) (fms : Nat) (s3 : Bool) (baro : Nat) (s4 : Bool) (modes : Nat)
    (s5 : Bool) (src : Nat)
    (h1 : mcp < 4096) (h2 : fms < 4096) (h3 : baro < 4096) (h4 : modes < 8) (h5 : src < 4)
    (z1 : s1 = false → mcp = 0) (z2 : s2 = false → fms = 0) (z3 : s3 = false → baro = 0)
    (z4 : s4 = false → modes = 0) (z5 : s5 = false → src = 0)
    (hne : s1 = true ∨ s2 = true ∨ s3 = true ∨ s4 = true ∨ s5 = true) :
    Gen.bds40.is40 (.str (hexOfBits (hdr ++ build [(1, s1.toNat), (12, mcp), (1, s2.toNat), (12, fms), (1, s3.toNat),
      (12, baro), (8, 0), (1, s4.toNat), (3, modes), (2, 0), (1, s5.toNat), (2, src)] ++ par))) = .val (.bool true) := by
  have hm : is40 (hdr ++ mb40 s1 mcp s2 fms s3 baro s4 modes s5 src ++ par) = .val true :=
    is40_complete hdr par hh hp s1 mcp s2 fms s3 baro s4 modes s5 src h1 h2 h3 h4 h5 z1 z2 z3 z4 z5 hne
  have hlen : (hdr ++ mb40 s1 mcp s2 fms s3 baro s4 modes s5 src ++ par).length = 112 := by
    simp only [List.length_append, hh, hp, mb40_length]
  obtain ⟨x1, x2, x3⟩ := hex_of_frame _ hlen
  show Gen.bds40.is40 (.str (hexOfBits (hdr ++ mb40 s1 mcp s2 fms s3 baro s4 modes s5 src ++ par))) = _
  rw [Tie.is40_tie _ x1 x2, x3]
  rw [hm]; rfl

/-- BDS 4,4 with the exact temperature range of the rule (hypotheses as in `C12.is44_complete_exact`; the range
    −320..240 of `C12.is44_complete` lies inside) -/
theorem is44_complete_tie (hdr par : Bits) (hh : hdr.length = 32) (hp : par.length = 24)
    (src : Nat) (sw : Bool) (wspd wdir : Nat) (gt : Bool) (mt : Nat) (sp : Bool) (p : Nat)
    (st : Bool) (turb : Nat) (sh : Bool) (hum : Nat)
    (hsrc : src ≤ 4) (hws : wspd < 512) (hwd : wdir < 512) (hmt : mt < 1024) (hpr : p < 2048)
    (htb : turb < 4) (hhm : hum < 64)
    (z1 : sw = false → wspd = 0 ∧ wdir = 0) (z2 : sp = false → p = 0) (z3 : st = false → turb = 0)
    (z4 : sh = false → hum = 0)
    (hw : sw = true → wspd ≤ 250) (ht : -640 ≤ s10 gt mt ∧ s10 gt mt ≤ 480)
    (hne : src ≠ 0 ∨ sw = true ∨ gt = true ∨ mt ≠ 0 ∨ sp = true ∨ st = true ∨ sh = true) :
    Gen.bds44.is44 (.str (hexOfBits (hdr ++ build [(4, src), (1, sw.toNat), (9, wspd), (9, wdir), (1, gt.toNat),
      (10, mt), (1, sp.toNat), (11, p), (1, st.toNat), (2, turb), (1, sh.toNat), (6, hum)] ++ par))) =
      .val (.bool true) := by
  have hm : is44 (hdr ++ mb44 src sw wspd wdir gt mt sp p st turb sh hum ++ par) = .val true :=
    is44_complete_exact hdr par hh hp src sw wspd wdir gt mt sp p st turb sh hum hsrc hws hwd hmt hpr htb hhm
    z1 z2 z3 z4 hw ht hne
  have hlen : (hdr ++ mb44 src sw wspd wdir gt mt sp p st turb sh hum ++ par).length = 112 := by
    simp only [List.length_append, hh, hp, mb44_length]
  obtain ⟨x1, x2, x3⟩ := hex_of_frame _ hlen
  show Gen.bds44.is44 (.str (hexOfBits (hdr ++ mb44 src sw wspd wdir gt mt sp p st turb sh hum ++ par))) = _
  rw [Tie.is44_tie _ x1 x2, x3]
  rw [hm]; rfl

/-- BDS 4,5 (hypotheses as in `C12.is45_complete`) -/
theorem is45_complete_tie (hdr par : Bits) (hh : hdr.length = 32) (hp : par.length = 24)
    (s1 : Bool) (turb : Nat) (s2 : Bool) (ws : Nat) (s3 : Bool) (mb : Nat) (s4 : Bool) (ic : Nat)
    (s5 : Bool) (wv : Nat) (s6 gt : Bool) (mt : Nat) (s7 : Bool) (p : Nat) (s8 : Bool) (rh : Nat)
    (h1 : turb < 4) (h2 : ws < 4) (h3 : mb < 4) (h4 : ic < 4) (h5 : wv < 4) (h6 : mt < 512)
    (h7 : p < 2048) (h8 : rh < 4096)
    (z1 : s1 = false → turb = 0) (z2 : s2 = false → ws = 0) (z3 : s3 = false → mb = 0)
    (z4 : s4 = false → ic = 0) (z5 : s5 = false → wv = 0) (z6 : s6 = false → gt = false ∧ mt = 0)
    (z7 : s7 = false → p = 0) (z8 : s8 = false → rh = 0)
    (ht : s6 = true → -320 ≤ s9 gt mt ∧ s9 gt mt ≤ 240)
    (hne : s1 = true ∨ s2 = true ∨ s3 = true ∨ s4 = true ∨ s5 = true ∨ s6 = true ∨ s7 = true ∨ s8 = true) :
    Gen.bds45.is45 (.str (hexOfBits (hdr ++ build [(1, s1.toNat), (2, turb), (1, s2.toNat), (2, ws), (1, s3.toNat),
      (2, mb), (1, s4.toNat), (2, ic), (1, s5.toNat), (2, wv), (1, s6.toNat), (1, gt.toNat), (9, mt), (1, s7.toNat),
      (11, p), (1, s8.toNat), (12, rh), (5, 0)] ++ par))) = .val (.bool true) := by
  have hm : is45 (hdr ++ Infer.mb45 s1 turb s2 ws s3 mb s4 ic s5 wv s6 gt mt s7 p s8 rh ++ par) = .val true :=
    is45_complete hdr par hh hp s1 turb s2 ws s3 mb s4 ic s5 wv s6 gt mt s7 p s8 rh h1 h2 h3 h4 h5 h6 h7 h8
    z1 z2 z3 z4 z5 z6 z7 z8 ht hne
  have hlen : (hdr ++ Infer.mb45 s1 turb s2 ws s3 mb s4 ic s5 wv s6 gt mt s7 p s8 rh ++ par).length = 112 := by
    simp only [List.length_append, hh, hp, mb45_length]
  obtain ⟨x1, x2, x3⟩ := hex_of_frame _ hlen
  show Gen.bds45.is45 (.str (hexOfBits (hdr ++ Infer.mb45 s1 turb s2 ws s3 mb s4 ic s5 wv s6 gt mt s7 p s8 rh ++ par))) = _
  rw [Tie.is45_tie _ x1 x2, x3]
  rw [hm]; rfl

/-- BDS 6,0 in a reply that is not DF20 (no altitude to cross-check against): hypotheses as in `C12.is60Core_complete` -/
theorem is60_complete_tie (hdr par : Bits) (hh : hdr.length = 32) (hp : par.length = 24) (hdf : dfB hdr ≠ 20)
    (s1 g1 : Bool) (hdg : Nat) (s2 : Bool) (ias : Nat) (s3 : Bool) (mach : Nat)
    (s4 g4 : Bool) (vb : Nat) (s5 g5 : Bool) (vi : Nat)
    (hhd : hdg < 1024) (hi : ias < 1024) (hm : mach < 1024) (hvb : vb < 512) (hvi : vi < 512)
    (z1 : s1 = false → g1 = false ∧ hdg = 0) (z2 : s2 = false → ias = 0) (z3 : s3 = false → mach = 0)
    (z4 : s4 = false → g4 = false ∧ vb = 0) (z5 : s5 = false → g5 = false ∧ vi = 0)
    (hias : s2 = true → ias ≤ 500) (hmach : s3 = true → mach ≤ 250)
    (hb : s4 = true → -187 ≤ s9 g4 vb ∧ s9 g4 vb ≤ 187) (hn : s5 = true → -187 ≤ s9 g5 vi ∧ s9 g5 vi ≤ 187)
    (hne : s1 = true ∨ s2 = true ∨ s3 = true ∨ s4 = true ∨ s5 = true) :
    Gen.bds60.is60 (.str (hexOfBits (hdr ++ build [(1, s1.toNat), (1, g1.toNat), (10, hdg), (1, s2.toNat), (10, ias),
      (1, s3.toNat), (10, mach), (1, s4.toNat), (1, g4.toNat), (9, vb), (1, s5.toNat), (1, g5.toNat), (9, vi)] ++ par))) =
      .val (.bool true) := by
  have hc : is60Core (hdr ++ mb60 s1 g1 hdg s2 ias s3 mach s4 g4 vb s5 g5 vi ++ par) = .val true :=
    is60Core_complete hdr par hh hp s1 g1 hdg s2 ias s3 mach s4 g4 vb s5 g5 vi hhd hi hm hvb hvi z1 z2 z3 z4 z5
    hias hmach hb hn hne
  have hlen : (hdr ++ mb60 s1 g1 hdg s2 ias s3 mach s4 g4 vb s5 g5 vi ++ par).length = 112 := by
    simp only [List.length_append, hh, hp, mb60_length]
  obtain ⟨x1, x2, x3⟩ := hex_of_frame _ hlen
  have hdf' : dfB (hdr ++ mb60 s1 g1 hdg s2 ias s3 mach s4 g4 vb s5 g5 vi ++ par) ≠ 20 := by
    rw [List.append_assoc, CRC.dfB_append hdr _ (by omega)]; exact hdf
  show Gen.bds60.is60 (.str (hexOfBits (hdr ++ mb60 s1 g1 hdg s2 ias s3 mach s4 g4 vb s5 g5 vi ++ par))) = _
  rw [Tie.is60_tie _ x1 x2, x3, is60_eq_core _ _ hlen (Or.inl hdf')]
  rw [hc]; rfl

/-- a Comm-B reply accepted by the generated `is50` has "BDS50" in the answer of the generated `infer` -/
theorem infer_reports_50_tie (m : Msg) (h : IsHex m) (hl : m.length = 28) (mrar : Bool)
    (ha : adsbOf (hex2binM m) = none) (h50 : Gen.bds50.is50 (.str m) = .val (.bool true)) :
    ∃ L : List String, Gen.bds.infer (.str m) (.bool mrar) = .val (.str (",".intercalate L).toList) ∧
      L.Sublist allLabels ∧ "BDS50" ∈ L := by
  have hz : PyModeS.bin2int (mbOf (hex2binM m)) ≠ 0 := by
    have h50' := h50
    rw [Tie.is50_tie m h hl, bool_enc_iff] at h50'
    exact ((is50_iff _ (frame_bits m hl)).mp h50').1
  obtain ⟨L, hL, hsub, -, -, -, -, -, -, -, m50, -⟩ := infer_commb_labels_tie m h hl mrar hz ha
  have hmem := m50.mpr h50
  refine ⟨L, ?_, hsub, hmem⟩
  rw [hL]
  cases L with
  | nil => cases hmem
  | cons a l => rfl

/-- … "BDS44" when `mrar` is requested -/
theorem infer_reports_44_tie (m : Msg) (h : IsHex m) (hl : m.length = 28)
    (ha : adsbOf (hex2binM m) = none) (h44 : Gen.bds44.is44 (.str m) = .val (.bool true)) :
    ∃ L : List String, Gen.bds.infer (.str m) (.bool true) = .val (.str (",".intercalate L).toList) ∧
      L.Sublist allLabels ∧ "BDS44" ∈ L := by
  have hz : PyModeS.bin2int (mbOf (hex2binM m)) ≠ 0 := by
    rw [Tie.is44_tie m h hl, bool_enc_iff] at h44
    exact ((is44_iff _ (frame_bits m hl)).mp h44).1
  obtain ⟨L, hL, hsub, -, -, -, -, -, m44, -, -, -⟩ := infer_commb_labels_tie m h hl true hz ha
  have hmem := m44.mpr ⟨h44, rfl⟩
  refine ⟨L, ?_, hsub, hmem⟩
  rw [hL]
  cases L with
  | nil => cases hmem
  | cons a l => rfl

/-- … and "BDS45" when `mrar` is requested -/
theorem infer_reports_45_tie (m : Msg) (h : IsHex m) (hl : m.length = 28)
    (ha : adsbOf (hex2binM m) = none) (h45 : Gen.bds45.is45 (.str m) = .val (.bool true)) :
    ∃ L : List String, Gen.bds.infer (.str m) (.bool true) = .val (.str (",".intercalate L).toList) ∧
      L.Sublist allLabels ∧ "BDS45" ∈ L := by
  have hz : PyModeS.bin2int (mbOf (hex2binM m)) ≠ 0 := by
    rw [Tie.is45_tie m h hl, bool_enc_iff] at h45
    exact ((is45_iff _ (frame_bits m hl)).mp h45).1
  obtain ⟨L, hL, hsub, -, -, -, -, -, -, m45, -, -⟩ := infer_commb_labels_tie m h hl true hz ha
  have hmem := m45.mpr ⟨h45, rfl⟩
  refine ⟨L, ?_, hsub, hmem⟩
  rw [hL]
  cases L with
  | nil => cases hmem
  | cons a l => rfl

/-- … "BDS40" and "BDS60" likewise, whatever `mrar` -/
theorem infer_reports_40_60_tie (m : Msg) (h : IsHex m) (hl : m.length = 28) (mrar : Bool)
    (hz : PyModeS.bin2int (mbOf (hex2binM m)) ≠ 0) (ha : adsbOf (hex2binM m) = none) :
    ∃ L : List String, Gen.bds.infer (.str m) (.bool mrar) = .val (Tie.Val.ofOptLabel (joinLabels L)) ∧
      L.Sublist allLabels ∧
      (Gen.bds40.is40 (.str m) = .val (.bool true) → "BDS40" ∈ L) ∧
      (Gen.bds60.is60 (.str m) = .val (.bool true) → "BDS60" ∈ L) := by
  obtain ⟨L, hL, hsub, -, -, -, -, m40, -, -, -, m60⟩ := infer_commb_labels_tie m h hl mrar hz ha
  exact ⟨L, hL, hsub, m40.mpr, m60.mpr⟩

end PyModeS.C12GenB
