/-
  C13 transported to the source-generated definitions, second part: the frame-level specifications of
  `Properties/C13.lean` stated about `Gen.bds61.*` (TC 28), `Gen.bds62.*` (TC 29) and the quality-indicator functions of
  `Gen.adsb.*` (version, NIC supplements, NUCp / NUCv / NACp / NACv / SIL / NIC), by composing the tie theorems
  (`Tie/Bds61.lean`, `Tie/Bds62.lean`, `Tie/Adsb.lean`) with C13.  The right-hand sides are explicit functions of the
  bits of the frame `hex2binM m`, encoded as the Python value the function returns.
  (The TC 28 / TC 29 guards and `selected_heading` are in `Tie/C13Gen.lean`.)
-/
import PyModeS.Properties.C13
import PyModeS.Tie.Bds61
import PyModeS.Tie.Bds62
import PyModeS.Tie.Adsb

-- symbolic execution of long generated `do` blocks: generous but finite budget (proof times are seconds)
set_option maxHeartbeats 1000000

set_option linter.unusedSimpArgs false
set_option linter.unusedTactic false
set_option linter.unreachableTactic false
namespace PyModeS.C13GenB
open PyModeS PyModeS.Py PyModeS.CRC PyModeS.C13 PyModeS.Tie.Adsb

theorem frame_bits (m : Msg) (hl : m.length = 28) : (hex2binM m).length = 112 := by
  rw [hex2binM_length, hl]

/-- bit `i` of a frame, read totally (the statements below use `getD`; within the frame it is `bits[i]`) -/
theorem getD_bits (bits : Bits) (i : Nat) (h : i < bits.length) : bits.getD i false = bits[i] := by
  simp [List.getD_eq_getElem?_getD, List.getElem?_eq_getElem h]

theorem bind_guard {α β} (c : Prop) [Decidable c] (x : α) (f : α → Res β) :
    ((if c then (.rte : Res α) else .val x) >>= f) = if c then .rte else f x := by
  split_ifs <;> rfl

theorem bind_guard' {α β} (c : Prop) [Decidable c] (x : α) (f : α → Res β) :
    ((if c then (.val x : Res α) else .rte) >>= f) = if c then f x else .rte := by
  split_ifs <;> rfl

/-! ### TC 28 (aircraft status) -/

/-- `bds61.emergency_state` (generated): ME bits 9-11; subtype 2 (ACAS RA broadcast) is refused -/
theorem emergency_state_spec_tie (m : Msg) (h : IsHex m) (hl : m.length = 28) (htc : tcB (hex2binM m) = some 28) :
    Gen.bds61.emergency_state (.str m) =
      if PyModeS.bin2int (slice 37 40 (hex2binM m)) = 2 then .rte
      else .val (Val.ofNat (PyModeS.bin2int (slice 40 43 (hex2binM m)))) := by
  rw [Tie.emergency_state_tie m h hl, emergency_state_spec _ (frame_bits m hl) htc, bind_guard]

/-- `bds61.is_emergency` (generated) is true exactly when subtype 1 reports an emergency state other than 0 -/
theorem is_emergency_spec_tie (m : Msg) (h : IsHex m) (hl : m.length = 28) (htc : tcB (hex2binM m) = some 28) :
    Gen.bds61.is_emergency (.str m) =
      if PyModeS.bin2int (slice 37 40 (hex2binM m)) = 2 then .rte
      else .val (.bool (decide (PyModeS.bin2int (slice 37 40 (hex2binM m)) = 1 ∧
        PyModeS.bin2int (slice 40 43 (hex2binM m)) ≠ 0))) := by
  rw [Tie.is_emergency_tie m h hl, is_emergency_spec _ (frame_bits m hl) htc]
  exact bind_guard _ _ _

/-- the two generated functions agree: `is_emergency()` is true exactly when `emergency_state()` reports a state other
    than 0 in a subtype-1 message; both refuse subtype 2 with RuntimeError -/
theorem is_emergency_iff_tie (m : Msg) (h : IsHex m) (hl : m.length = 28) (htc : tcB (hex2binM m) = some 28) :
    (PyModeS.bin2int (slice 37 40 (hex2binM m)) = 2 →
      Gen.bds61.emergency_state (.str m) = .rte ∧ Gen.bds61.is_emergency (.str m) = .rte) ∧
    (PyModeS.bin2int (slice 37 40 (hex2binM m)) ≠ 2 → ∃ s : Nat,
      Gen.bds61.emergency_state (.str m) = .val (Val.ofNat s) ∧
      Gen.bds61.is_emergency (.str m) =
        .val (.bool (decide (PyModeS.bin2int (slice 37 40 (hex2binM m)) = 1 ∧ s ≠ 0)))) := by
  rw [emergency_state_spec_tie m h hl htc, is_emergency_spec_tie m h hl htc]
  refine ⟨fun hst => by simp [hst], fun hst => ⟨_, by rw [if_neg hst], by rw [if_neg hst]⟩⟩

/-! ### TC 29 (target state and status) -/

/-- Python value of `(altitude, source)` -/
def encSelAlt (r : Option Nat × String) : Val := .tuple [Val.ofOptNat r.1, .str r.2.toList]
/-- Python value of `(altitude, source, reference)` -/
def encTgtAlt (r : Option Int × String × String) : Val :=
  .tuple [Val.ofOptInt r.1, .str r.2.1.toList, .str r.2.2.toList]
/-- Python value of `(angle, type, source)` -/
def encTgtAng (r : Option Nat × String × String) : Val :=
  .tuple [Val.ofOptNat r.1, .str r.2.1.toList, .str r.2.2.toList]

/-- selected altitude (subtype 1): `(N − 1)·32 ft` of ME bits 10-20, `(None, "N/A")` for N = 0, source by ME bit 9 -/
theorem selected_altitude_spec_tie (m : Msg) (h : IsHex m) (hl : m.length = 28) (htc : tcB (hex2binM m) = some 29) :
    Gen.bds62.selected_altitude (.str m) =
      if PyModeS.bin2int (slice 37 39 (hex2binM m)) = 0 then .rte
      else .val (encSelAlt (if PyModeS.bin2int (slice 41 52 (hex2binM m)) = 0 then (none, "N/A")
        else (some ((PyModeS.bin2int (slice 41 52 (hex2binM m)) - 1) * 32),
          if (hex2binM m).getD 40 false then "FMS" else "MCP/FCU"))) := by
  have hb := frame_bits m hl
  rw [Tie.selected_altitude_tie m h hl, selected_altitude_spec _ hb htc,
    getD_bits _ 40 (by omega)]
  exact bind_guard _ _ _

/-- target altitude (subtype 0): `−1000 + N·100 ft` of ME bits 16-25; availability/source by ME bits 8-9 (`None` for
    0), reference FL/MSL by ME bit 10 -/
theorem target_altitude_spec_tie (m : Msg) (h : IsHex m) (hl : m.length = 28) (htc : tcB (hex2binM m) = some 29) :
    Gen.bds62.target_altitude (.str m) =
      if PyModeS.bin2int (slice 37 39 (hex2binM m)) = 1 then .rte
      else .val (encTgtAlt (if PyModeS.bin2int (slice 39 41 (hex2binM m)) = 0 then (none, "N/A", "")
        else (some (-1000 + (PyModeS.bin2int (slice 47 57 (hex2binM m)) : Int) * 100),
          if PyModeS.bin2int (slice 39 41 (hex2binM m)) = 1 then "MCP/FCU"
          else if PyModeS.bin2int (slice 39 41 (hex2binM m)) = 2 then "Holding mode" else "FMS/RNAV",
          if (hex2binM m).getD 41 false then "MSL" else "FL"))) := by
  have hb := frame_bits m hl
  rw [Tie.target_altitude_tie m h hl, target_altitude_spec _ hb htc, getD_bits _ 41 (by omega)]
  exact bind_guard _ _ _

/-- vertical mode (subtype 0): ME bits 14-15, `None` for 0 -/
theorem vertical_mode_spec_tie (m : Msg) (h : IsHex m) (hl : m.length = 28) (htc : tcB (hex2binM m) = some 29) :
    Gen.bds62.vertical_mode (.str m) =
      if PyModeS.bin2int (slice 37 39 (hex2binM m)) = 1 then .rte
      else .val (Val.ofOptNat (if PyModeS.bin2int (slice 45 47 (hex2binM m)) = 0 then none
        else some (PyModeS.bin2int (slice 45 47 (hex2binM m))))) := by
  rw [Tie.vertical_mode_tie m h hl, vertical_mode_spec _ (frame_bits m hl) htc]
  exact bind_guard _ _ _

/-- horizontal mode (subtype 0): ME bits 26-27, `None` for 0 -/
theorem horizontal_mode_spec_tie (m : Msg) (h : IsHex m) (hl : m.length = 28) (htc : tcB (hex2binM m) = some 29) :
    Gen.bds62.horizontal_mode (.str m) =
      if PyModeS.bin2int (slice 37 39 (hex2binM m)) = 1 then .rte
      else .val (Val.ofOptNat (if PyModeS.bin2int (slice 57 59 (hex2binM m)) = 0 then none
        else some (PyModeS.bin2int (slice 57 59 (hex2binM m))))) := by
  rw [Tie.horizontal_mode_tie m h hl, horizontal_mode_spec _ (frame_bits m hl) htc]
  exact bind_guard _ _ _

/-- selected heading (subtype 1), pushed through the encoding: `None` when the status bit (ME bit 30) is 0, else
    `sign·180 + N·180/256` degrees -/
theorem selected_heading_value_tie (m : Msg) (h : IsHex m) (hl : m.length = 28) (htc : tcB (hex2binM m) = some 29) :
    Gen.bds62.selected_heading (.str m) =
      if PyModeS.bin2int (slice 37 39 (hex2binM m)) = 0 then .rte
      else .val (Val.ofOptRat (if (hex2binM m).getD 61 false then
        some (headingOf ((hex2binM m).getD 62 false) (PyModeS.bin2int (slice 63 71 (hex2binM m)))) else none)) := by
  have hb := frame_bits m hl
  rw [Tie.selected_heading_tie m h hl, selected_heading_spec _ hb htc, getD_bits _ 61 (by omega),
    getD_bits _ 62 (by omega)]
  exact bind_guard _ _ _

/-- the selected heading covers the full circle (`C13.heading_full_range`): with the sign bit set the generated decoder
    returns a value in [180, 360), without it a value in [0, 180) -/
theorem selected_heading_range_tie (m : Msg) (h : IsHex m) (hl : m.length = 28) (htc : tcB (hex2binM m) = some 29)
    (hst : PyModeS.bin2int (slice 37 39 (hex2binM m)) ≠ 0) (hav : (hex2binM m).getD 61 false = true) :
    ∃ q : Rat, Gen.bds62.selected_heading (.str m) = .val (.num q) ∧
      (if (hex2binM m).getD 62 false then 180 ≤ q ∧ q < 360 else 0 ≤ q ∧ q < 180) := by
  have hb := frame_bits m hl
  refine ⟨headingOf ((hex2binM m).getD 62 false) (PyModeS.bin2int (slice 63 71 (hex2binM m))), ?_, ?_⟩
  · rw [selected_heading_value_tie m h hl htc, if_neg hst, hav]; rfl
  · have hlt : PyModeS.bin2int (slice 63 71 (hex2binM m)) < 256 := by
      have h1 := bin2int_lt (slice 63 71 (hex2binM m))
      have h2 : (slice 63 71 (hex2binM m)).length = 8 := by rw [slice_length_of_le (by omega)]
      rw [h2] at h1; exact h1
    have := all_range_imp heading_full_range _ hlt
    simp only [decide_eq_true_eq] at this
    obtain ⟨-, -, a, b, c, d⟩ := this
    cases (hex2binM m).getD 62 false
    · exact ⟨a, b⟩
    · exact ⟨c, d⟩

/-- target heading / track angle (subtype 0): N degrees of ME bits 28-36, availability/source by ME bits 26-27 (`None`
    for 0), heading/track by ME bit 37 -/
theorem target_angle_spec_tie (m : Msg) (h : IsHex m) (hl : m.length = 28) (htc : tcB (hex2binM m) = some 29) :
    Gen.bds62.target_angle (.str m) =
      if PyModeS.bin2int (slice 37 39 (hex2binM m)) = 1 then .rte
      else .val (encTgtAng (if PyModeS.bin2int (slice 57 59 (hex2binM m)) = 0 then (none, "", "N/A")
        else (some (PyModeS.bin2int (slice 59 68 (hex2binM m))),
          if (hex2binM m).getD 68 false then "Heading" else "Track",
          if PyModeS.bin2int (slice 57 59 (hex2binM m)) = 1 then "MCP/FCU"
          else if PyModeS.bin2int (slice 57 59 (hex2binM m)) = 2 then "Autopilot mode" else "FMS/RNAV"))) := by
  have hb := frame_bits m hl
  rw [Tie.target_angle_tie m h hl, target_angle_spec _ hb htc, getD_bits _ 68 (by omega)]
  exact bind_guard _ _ _

/-- barometric pressure setting (subtype 1): `800 + (N − 1)·0.8 hPa` of ME bits 21-29, `None` for 0 -/
theorem baro_pressure_setting_spec_tie (m : Msg) (h : IsHex m) (hl : m.length = 28)
    (htc : tcB (hex2binM m) = some 29) :
    Gen.bds62.baro_pressure_setting (.str m) =
      if PyModeS.bin2int (slice 37 39 (hex2binM m)) = 0 then .rte
      else .val (Val.ofOptRat (if PyModeS.bin2int (slice 52 61 (hex2binM m)) = 0 then none
        else some (800 + (((PyModeS.bin2int (slice 52 61 (hex2binM m)) : Int) - 1 : Int) : Rat) * 4 / 5))) := by
  rw [Tie.baro_pressure_setting_tie m h hl, baro_pressure_setting_spec _ (frame_bits m hl) htc]
  exact bind_guard _ _ _

/-- mode flags (subtype 1): `None` when the mode-status bit (ME bit 47) is 0, else the flag's bit
    (autopilot ME bit 48, VNAV 49, altitude hold 50, approach 52, LNAV 54) -/
theorem mode_flags_spec_tie (m : Msg) (h : IsHex m) (hl : m.length = 28) (htc : tcB (hex2binM m) = some 29) :
    (Gen.bds62.autopilot (.str m) =
      if PyModeS.bin2int (slice 37 39 (hex2binM m)) = 0 then .rte
      else .val (Tie.ofOptBool (if (hex2binM m).getD 78 false then some ((hex2binM m).getD 79 false) else none))) ∧
    (Gen.bds62.vnav_mode (.str m) =
      if PyModeS.bin2int (slice 37 39 (hex2binM m)) = 0 then .rte
      else .val (Tie.ofOptBool (if (hex2binM m).getD 78 false then some ((hex2binM m).getD 80 false) else none))) ∧
    (Gen.bds62.altitude_hold_mode (.str m) =
      if PyModeS.bin2int (slice 37 39 (hex2binM m)) = 0 then .rte
      else .val (Tie.ofOptBool (if (hex2binM m).getD 78 false then some ((hex2binM m).getD 81 false) else none))) ∧
    (Gen.bds62.approach_mode (.str m) =
      if PyModeS.bin2int (slice 37 39 (hex2binM m)) = 0 then .rte
      else .val (Tie.ofOptBool (if (hex2binM m).getD 78 false then some ((hex2binM m).getD 83 false) else none))) ∧
    (Gen.bds62.lnav_mode (.str m) =
      if PyModeS.bin2int (slice 37 39 (hex2binM m)) = 0 then .rte
      else .val (Tie.ofOptBool (if (hex2binM m).getD 78 false then some ((hex2binM m).getD 85 false) else none))) := by
  have hb := frame_bits m hl
  refine ⟨?_, ?_, ?_, ?_, ?_⟩
  · rw [Tie.autopilot_tie m h hl, autopilot_spec _ hb htc, getD_bits _ 78 (by omega), getD_bits _ 79 (by omega)]
    exact bind_guard _ _ _
  · rw [Tie.vnav_mode_tie m h hl, vnav_mode_spec _ hb htc, getD_bits _ 78 (by omega), getD_bits _ 80 (by omega)]
    exact bind_guard _ _ _
  · rw [Tie.altitude_hold_mode_tie m h hl, altitude_hold_mode_spec _ hb htc, getD_bits _ 78 (by omega),
      getD_bits _ 81 (by omega)]
    exact bind_guard _ _ _
  · rw [Tie.approach_mode_tie m h hl, approach_mode_spec _ hb htc, getD_bits _ 78 (by omega),
      getD_bits _ 83 (by omega)]
    exact bind_guard _ _ _
  · rw [Tie.lnav_mode_tie m h hl, lnav_mode_spec _ hb htc, getD_bits _ 78 (by omega), getD_bits _ 85 (by omega)]
    exact bind_guard _ _ _

/-- TCAS/ACAS operational: subtype 0 carries "not operational" at ME bit 52 (inverted), subtype 1 "operational" at ME
    bit 53; never refused for TC 29 -/
theorem tcas_operational_spec_tie (m : Msg) (h : IsHex m) (hl : m.length = 28) (htc : tcB (hex2binM m) = some 29) :
    Gen.bds62.tcas_operational (.str m) =
      .val (.bool (if PyModeS.bin2int (slice 37 39 (hex2binM m)) = 0 then !((hex2binM m).getD 83 false)
        else (hex2binM m).getD 84 false)) := by
  have hb := frame_bits m hl
  rw [Tie.tcas_operational_tie m h hl, tcas_operational_spec _ hb htc, getD_bits _ 83 (by omega),
    getD_bits _ 84 (by omega)]
  rfl

/-- TCAS/ACAS resolution advisory active (subtype 0): ME bit 53 -/
theorem tcas_ra_spec_tie (m : Msg) (h : IsHex m) (hl : m.length = 28) (htc : tcB (hex2binM m) = some 29) :
    Gen.bds62.tcas_ra (.str m) =
      if PyModeS.bin2int (slice 37 39 (hex2binM m)) = 1 then .rte else .val (.bool ((hex2binM m).getD 84 false)) := by
  have hb := frame_bits m hl
  rw [Tie.tcas_ra_tie m h hl, tcas_ra_spec _ hb htc, getD_bits _ 84 (by omega)]
  exact bind_guard _ _ _

/-- emergency / priority status (subtype 0): ME bits 54-56 -/
theorem emergency_status_spec_tie (m : Msg) (h : IsHex m) (hl : m.length = 28) (htc : tcB (hex2binM m) = some 29) :
    Gen.bds62.emergency_status (.str m) =
      if PyModeS.bin2int (slice 37 39 (hex2binM m)) = 1 then .rte
      else .val (Val.ofNat (PyModeS.bin2int (slice 85 88 (hex2binM m)))) := by
  rw [Tie.emergency_status_tie m h hl, emergency_status_spec _ (frame_bits m hl) htc]
  exact bind_guard _ _ _

/-! ### adsb.py: version and NIC supplements -/

/-- ADS-B version (TC 31): ME bits 41-43; RuntimeError for any other type code -/
theorem version_spec_tie (m : Msg) (h : IsHex m) (hl : m.length = 28) :
    Gen.adsb.version (.str m) =
      if tcB (hex2binM m) = some 31 then .val (Val.ofNat (PyModeS.bin2int (slice 72 75 (hex2binM m)))) else .rte := by
  rw [Tie.version_tie m h (by omega), version_spec _ (frame_bits m hl)]
  exact bind_guard' _ _ _

/-- NIC supplement S (TC 31): ME bit 44 -/
theorem nic_s_spec_tie (m : Msg) (h : IsHex m) (hl : m.length = 28) :
    Gen.adsb.nic_s (.str m) =
      if tcB (hex2binM m) = some 31 then .val (Val.ofNat (b2n ((hex2binM m).getD 75 false))) else .rte := by
  have hb := frame_bits m hl
  rw [Tie.nic_s_tie m h (by omega), nic_s_spec _ hb, getD_bits _ 75 (by omega)]
  exact bind_guard' _ _ _

/-- NIC supplements A and C (TC 31): ME bit 44 and ME bit 20, as the pair `(NICa, NICc)` -/
theorem nic_a_c_spec_tie (m : Msg) (h : IsHex m) (hl : m.length = 28) :
    Gen.adsb.nic_a_c (.str m) =
      if tcB (hex2binM m) = some 31
      then .val (.tuple [Val.ofNat (b2n ((hex2binM m).getD 75 false)), Val.ofNat (b2n ((hex2binM m).getD 51 false))])
      else .rte := by
  have hb := frame_bits m hl
  rw [Tie.nic_a_c_tie m h (by omega), nic_a_c_spec _ hb, getD_bits _ 75 (by omega), getD_bits _ 51 (by omega)]
  exact bind_guard' _ _ _

/-- NIC supplement B (airborne position, TC 9-18): ME bit 8 -/
theorem nic_b_spec_tie (m : Msg) (h : IsHex m) (hl : m.length = 28) :
    Gen.adsb.nic_b (.str m) =
      match tcB (hex2binM m) with
      | some tc => if 9 ≤ tc ∧ tc ≤ 18 then .val (Val.ofNat (b2n ((hex2binM m).getD 39 false))) else .rte
      | none => .rte := by
  have hb := frame_bits m hl
  rw [Tie.nic_b_tie m h (by omega), nic_b_spec _ hb, getD_bits _ 39 (by omega)]
  cases tcB (hex2binM m) with
  | none => rfl
  | some tc => exact bind_guard' _ _ _

/-! ### adsb.py: NUCv / NACv / NACp / SIL (a category field with its table row) -/

/-- NUCv (TC 19, version 0): ME bits 11-13 with the HVE / VVE row of the table -/
theorem nuc_v_spec_tie (m : Msg) (h : IsHex m) (hl : m.length = 28) :
    Gen.adsb.nuc_v (.str m) =
      if tcB (hex2binM m) = some 19
      then .val (enc3 (catRow Tables.tblNUCv (PyModeS.bin2int (slice 42 45 (hex2binM m))))) else .rte := by
  rw [Tie.nuc_v_tie m h (by omega), nuc_v_spec _ (frame_bits m hl)]
  exact bind_guard' _ _ _

/-- NACv (TC 19, version 1-2): ME bits 11-13 with the HFOMr / VFOMr row of the table -/
theorem nac_v_spec_tie (m : Msg) (h : IsHex m) (hl : m.length = 28) :
    Gen.adsb.nac_v (.str m) =
      if tcB (hex2binM m) = some 19
      then .val (enc3 (catRow Tables.tblNACv (PyModeS.bin2int (slice 42 45 (hex2binM m))))) else .rte := by
  rw [Tie.nac_v_tie m h (by omega), nac_v_spec _ (frame_bits m hl)]
  exact bind_guard' _ _ _

/-- NACp: ME bits 40-43 of a TC 29 message, ME bits 45-48 of a TC 31 message, with the EPU / VEPU row; RuntimeError
    for every other type code -/
theorem nac_p_spec_tie (m : Msg) (h : IsHex m) (hl : m.length = 28) :
    (tcB (hex2binM m) = some 29 → Gen.adsb.nac_p (.str m) =
      .val (enc3 (catRow Tables.tblNACp (PyModeS.bin2int (slice 71 75 (hex2binM m)))))) ∧
    (tcB (hex2binM m) = some 31 → Gen.adsb.nac_p (.str m) =
      .val (enc3 (catRow Tables.tblNACp (PyModeS.bin2int (slice 76 80 (hex2binM m)))))) ∧
    (tcB (hex2binM m) ≠ some 29 → tcB (hex2binM m) ≠ some 31 → Gen.adsb.nac_p (.str m) = .rte) := by
  obtain ⟨a, b, c⟩ := nac_p_spec _ (frame_bits m hl)
  refine ⟨fun e => ?_, fun e => ?_, fun e1 e2 => ?_⟩
  · rw [Tie.nac_p_tie m h (by omega), a e]; rfl
  · rw [Tie.nac_p_tie m h (by omega), b e]; rfl
  · rw [Tie.nac_p_tie m h (by omega), c e1 e2]; rfl

/-- SIL: ME bits 45-46 (TC 29) or 51-52 (TC 31) with the table row; the probability base is "unknown" unless the caller
    says version 2, then the SIL supplement bit (ME bit 8 / ME bit 55); `version` is an integer or `None` -/
theorem sil_spec_tie (m : Msg) (h : IsHex m) (hl : m.length = 28) (ver : Option Nat) :
    (tcB (hex2binM m) = some 29 → Gen.adsb.sil (.str m) (Val.ofOptNat ver) =
      .val (encSil ((silRow (PyModeS.bin2int (slice 76 78 (hex2binM m)))).1,
        (silRow (PyModeS.bin2int (slice 76 78 (hex2binM m)))).2,
        if ver = some 2 then (if (hex2binM m).getD 39 false then "sample" else "hour") else "unknown"))) ∧
    (tcB (hex2binM m) = some 31 → Gen.adsb.sil (.str m) (Val.ofOptNat ver) =
      .val (encSil ((silRow (PyModeS.bin2int (slice 82 84 (hex2binM m)))).1,
        (silRow (PyModeS.bin2int (slice 82 84 (hex2binM m)))).2,
        if ver = some 2 then (if (hex2binM m).getD 86 false then "sample" else "hour") else "unknown"))) ∧
    (tcB (hex2binM m) ≠ some 29 → tcB (hex2binM m) ≠ some 31 →
      Gen.adsb.sil (.str m) (Val.ofOptNat ver) = .rte) := by
  have hb := frame_bits m hl
  obtain ⟨a, b, c⟩ := sil_spec _ hb ver
  refine ⟨fun e => ?_, fun e => ?_, fun e1 e2 => ?_⟩
  · rw [Tie.sil_tie m h (by omega), a e, getD_bits _ 39 (by omega)]; rfl
  · rw [Tie.sil_tie m h (by omega), b e, getD_bits _ 86 (by omega)]; rfl
  · rw [Tie.sil_tie m h (by omega), c e1 e2]; rfl

/-! ### adsb.py: NUCp / NIC by type code (position messages, TC 5-18 and 20-22) -/

/-- `nuc_p` (generated): NUCp from the type code (the DO-260B assignment `nucpOfTc`), HPL and RCu from its table row,
    RCv 4 m / 15 m for TC 20 / 21 -/
theorem nuc_p_spec_tie (m : Msg) (h : IsHex m) (hl : m.length = 28) (tc : Nat) (htc : tcB (hex2binM m) = some tc)
    (hr : (5 ≤ tc ∧ tc ≤ 18) ∨ (20 ≤ tc ∧ tc ≤ 22)) :
    Gen.adsb.nuc_p (.str m) = .val (enc4 (nucpOfTc tc, (catRow Tables.tblNUCp (nucpOfTc tc)).2.1,
      (catRow Tables.tblNUCp (nucpOfTc tc)).2.2,
      if tc = 20 then some 4 else if tc = 21 then some 15 else none)) := by
  rw [Tie.nuc_p_tie m h (by omega), (nuc_p_spec _ tc htc hr).2]; rfl

/-- the three type-code look-ups raise RuntimeError outside the position type codes -/
theorem position_quality_guards_tie (m : Msg) (h : IsHex m) (hl : m.length = 28)
    (hg : ∀ tc, tcB (hex2binM m) = some tc → tc < 5 ∨ tc = 19 ∨ tc > 22) (nics nica nicbc : Nat) :
    Gen.adsb.nuc_p (.str m) = .rte ∧ Gen.adsb.nic_v1 (.str m) (Val.ofNat nics) = .rte ∧
    Gen.adsb.nic_v2 (.str m) (Val.ofNat nica) (Val.ofNat nicbc) = .rte := by
  refine ⟨?_, ?_, ?_⟩
  · rw [Tie.nuc_p_tie m h (by omega), nuc_p_guard _ hg]; rfl
  · rw [Tie.nic_v1_tie m h (by omega), nic_v1_guard _ nics hg]; rfl
  · rw [Tie.nic_v2_tie m h (by omega), nic_v2_guard _ nica nicbc hg]; rfl

/-- `nic_v1` (generated) for any supplement argument: the type-code entry exists; the NIC is the entry itself or its
    member for the supplement (`KeyError`, i.e. an exception other than RuntimeError, if it has none), Rc / VPL the row
    of (NIC, supplement) -/
theorem nic_v1_spec_tie (m : Msg) (h : IsHex m) (hl : m.length = 28) (tc : Nat) (htc : tcB (hex2binM m) = some tc)
    (hr : (5 ≤ tc ∧ tc ≤ 18) ∨ (20 ≤ tc ∧ tc ≤ 22)) (nics : Nat) :
    ∃ e, lookup Tables.tcNICv1 tc = some e ∧
      Gen.adsb.nic_v1 (.str m) (Val.ofNat nics) = match nicOfEntry e nics with
        | .val nic => .val (enc3 (match nicRow Tables.tblNICv1 nic nics with
            | some row => (nic, col row 0, col row 1)
            | none => (nic, none, none)))
        | _ => .exc := by
  obtain ⟨e, he, hv⟩ := nic_v1_spec _ tc htc hr nics
  refine ⟨e, he, ?_⟩
  rw [Tie.nic_v1_tie m h (by omega), hv]
  cases hn : nicOfEntry e nics with
  | val nic => rfl
  | rte => rfl
  | exc => rfl

/-- with a 1-bit supplement the generated `nic_v1` never raises and the NIC is the DO-260B value `nicV1OfTc` -/
theorem nic_v1_value_tie (m : Msg) (h : IsHex m) (hl : m.length = 28) (tc : Nat) (htc : tcB (hex2binM m) = some tc)
    (hr : (5 ≤ tc ∧ tc ≤ 18) ∨ (20 ≤ tc ∧ tc ≤ 22)) (nics : Nat) (hn : nics < 2) :
    Gen.adsb.nic_v1 (.str m) (Val.ofNat nics) =
      .val (enc3 (match nicRow Tables.tblNICv1 (nicV1OfTc tc nics) nics with
        | some row => (nicV1OfTc tc nics, col row 0, col row 1)
        | none => (nicV1OfTc tc nics, none, none))) := by
  rw [Tie.nic_v1_tie m h (by omega), nic_v1_value _ tc htc hr nics hn]; rfl

/-- `nic_v2` (generated) for any supplement arguments never raises on a position message: the type-code entry exists,
    the supplement is 0 for TC 20-22 and `2·A + B/C` otherwise, and the result is `(NIC, Rc)` of the (NIC, supplement)
    row — `(None, None)` whenever any of the look-ups inside the `try` fails -/
theorem nic_v2_spec_tie (m : Msg) (h : IsHex m) (hl : m.length = 28) (tc : Nat) (htc : tcB (hex2binM m) = some tc)
    (hr : (5 ≤ tc ∧ tc ≤ 18) ∨ (20 ≤ tc ∧ tc ≤ 22)) (nica nicbc : Nat) :
    ∃ e, lookup Tables.tcNICv2 tc = some e ∧
      Gen.adsb.nic_v2 (.str m) (Val.ofNat nica) (Val.ofNat nicbc) = .val (encNic2 (
        let nics := if 20 ≤ tc ∧ tc ≤ 22 then 0 else nica * 2 + nicbc
        match nicOfEntry e nics with
        | .val nic => (nicRow Tables.tblNICv2 nic nics).map (fun row => (nic, col row 0))
        | _ => none)) := by
  obtain ⟨e, he, hv⟩ := nic_v2_spec _ tc htc hr nica nicbc
  refine ⟨e, he, ?_⟩
  rw [Tie.nic_v2_tie m h (by omega), hv]; rfl

/-- on every position message the generated `nic_v2` returns a pair — `(NIC, Rc)` or `(None, None)` — whatever the
    supplement arguments: it never raises -/
theorem nic_v2_never_raises_tie (m : Msg) (h : IsHex m) (hl : m.length = 28) (tc : Nat)
    (htc : tcB (hex2binM m) = some tc) (hr : (5 ≤ tc ∧ tc ≤ 18) ∨ (20 ≤ tc ∧ tc ≤ 22)) (nica nicbc : Nat) :
    ∃ a b : Val, Gen.adsb.nic_v2 (.str m) (Val.ofNat nica) (Val.ofNat nicbc) = .val (.tuple [a, b]) := by
  obtain ⟨r, hv⟩ := nic_v2_never_raises _ tc htc hr nica nicbc
  rw [Tie.nic_v2_tie m h (by omega), hv]
  cases r with
  | none => exact ⟨_, _, rfl⟩
  | some p => exact ⟨_, _, rfl⟩

end PyModeS.C13GenB
