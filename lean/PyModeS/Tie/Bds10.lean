/-
  Tie: generated `bds10.py` and `bds30.py` = hand model (`Model/Commb.lean`) on every 28-digit hex frame.
-/
import PyModeS.Tie.Basic
import PyModeS.Generated.Src.bds10
import PyModeS.Generated.Src.bds30
import Mathlib.Tactic.SplitIfs

-- symbolic execution of long generated `do` blocks: generous but finite budget (proof times are seconds)
set_option maxHeartbeats 1000000

set_option linter.unusedSimpArgs false
set_option linter.unusedTactic false
set_option linter.unreachableTactic false
namespace PyModeS.Tie
open PyModeS PyModeS.Py PyModeS.CRC

/-! ### comparing bit strings -/

private theorem toDigit_injective : Function.Injective Bool.toDigit := by
  intro a b; cases a <;> cases b <;> decide

private theorem beq_ofBits (a b : Bits) : Val.beq (Val.ofBits a) (Val.ofBits b) = decide (a = b) := by
  simp only [Val.ofBits, Val.beq]
  by_cases hab : a = b
  · simp [hab]
  · have : a.map Bool.toDigit ≠ b.map Bool.toDigit := fun e => hab (List.map_injective_iff.mpr toDigit_injective e)
    simp [hab, this]

private theorem pyNe_ofBits (a b : Bits) : pyNe (Val.ofBits a) (Val.ofBits b) = .val (.bool (decide (a ≠ b))) := by
  simp [pyNe, beq_ofBits]

private theorem pyEq_ofBits (a b : Bits) : pyEq (Val.ofBits a) (Val.ofBits b) = .val (.bool (decide (a = b))) := by
  simp [pyEq, beq_ofBits]

/-- `ovc10` returns `int(d[14])`; the model returns the same bit as a natural number -/
theorem ovc10_tie (m : Msg) (h : IsHex m) (hl : m.length = 28) :
    Gen.bds10.ovc10 (.str m) = (PyModeS.ovc10 (hex2binM m) >>= fun n => .val (Val.ofNat n)) := by
  unfold Gen.bds10.ovc10 PyModeS.ovc10
  commb_open m h hl
  simp [idxR_of_lt, hd, Val.ofNat, b2n]
  cases d[14] <;> simp

private theorem lit10 : Val.str ['0', '0', '0', '1', '0', '0', '0', '0'] = Val.ofBits (natToBits 8 0x10) := rfl
private theorem lit30 : Val.str ['0', '0', '1', '1', '0', '0', '0', '0'] = Val.ofBits (natToBits 8 0x30) := rfl
private theorem lit11 : Val.str ['1', '1'] = Val.ofBits [true, true] := rfl

theorem is10_tie (m : Msg) (h : IsHex m) (hl : m.length = 28) :
    Gen.bds10.is10 (.str m) = (PyModeS.is10 (hex2binM m) >>= fun b => .val (.bool b)) := by
  unfold Gen.bds10.is10 PyModeS.is10
  simp only [allzeros_str m h hl, allzerosB_hex m hl]
  simp only [data_str, Res.bind_val, hex2bin_data m h hl, dataR_hex m hl]
  have hd := mb_length m hl
  generalize slice 32 88 (hex2binM m) = d at hd ⊢
  by_cases hz : PyModeS.bin2int d = 0
  · simp [hz]
  simp only [hz, decide_false, pyTruth_bool, Bool.false_eq_true, if_false, pySliceNN_ofBits, Res.bind_val,
    lit10, pyNe_ofBits]
  by_cases hp : slice 0 8 d = natToBits 8 16
  · simp [hp, idxR_of_lt, hd, bin2intR_slice_of_lt, Val.ofNat]
    generalize d[14] = b14
    generalize PyModeS.bin2int (slice 16 23 d) = v
    generalize PyModeS.bin2int (slice 9 14 d) = r
    by_cases hr : r = 0 <;> cases b14 <;> by_cases h5 : v < 5 <;> by_cases h4 : 4 < v <;> simp [hr, h5, h4]
    all_goals omega
  · simp [hp]

theorem is30_tie (m : Msg) (h : IsHex m) (hl : m.length = 28) :
    Gen.bds30.is30 (.str m) = (PyModeS.is30 (hex2binM m) >>= fun b => .val (.bool b)) := by
  unfold Gen.bds30.is30 PyModeS.is30
  simp only [allzeros_str m h hl, allzerosB_hex m hl]
  simp only [data_str, Res.bind_val, hex2bin_data m h hl, dataR_hex m hl]
  have hd := mb_length m hl
  generalize slice 32 88 (hex2binM m) = d at hd ⊢
  by_cases hz : PyModeS.bin2int d = 0
  · simp [hz]
  simp only [hz, decide_false, pyTruth_bool, Bool.false_eq_true, if_false, pySliceNN_ofBits, Res.bind_val,
    lit30, lit11, pyNe_ofBits, pyEq_ofBits]
  by_cases hp : slice 0 8 d = natToBits 8 48
  · by_cases hq : slice 28 30 d = [true, true]
    · simp [hp, hq]
    · simp [hp, hq, hd, bin2intR_slice_of_lt, Val.ofNat]
      generalize PyModeS.bin2int (slice 15 22 d) = v
      by_cases h48 : v < 48
      · have : ¬ (48 ≤ v) := by omega
        simp [h48, this]
      · have : (48 ≤ v) := by omega
        simp [h48, this]
  · simp [hp]

end PyModeS.Tie
