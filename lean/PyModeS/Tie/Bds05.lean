/-
  Tie: generated `bds05.py` / `bds06.surface_position_with_ref` = hand model (`Model/CPR.lean`, `Model/Adsb.lean`).

  NOTHING PROVED YET in this file (time ran out).  Intended statements (believed true, not yet checked):

  * `airborne_position_with_ref_tie (m) (h : IsHex m) (hl : m.length = 28) (la lo : Rat) :
       Gen.bds05.airborne_position_with_ref (.str m) (.num la) (.num lo) =
         (PyModeS.airbornePositionWithRef (hex2binM m) la lo >>= fun p => .val (.tuple [.num p.1, .num p.2]))`
    and the same for `Gen.bds06.surface_position_with_ref` / `PyModeS.surfacePositionWithRef`.
  * `airborne_position_tie` with `t0 t1 : Rat` passed as `.num t0`, `.num t1`, result encoded as
    `none ↦ Val.none`, `some (la, lo) ↦ .tuple [.num la, .num lo]`; needs
    `pyMod (.num (j:Int)) (.num 60) = .val (.num ((j % 60 : Int) : Rat))` (from `Rat.floor_intCast_div_natCast`
    and `Int.emod_def`) and `pyMax2` on `Val.ofNat`.
  * `altitude_tie` (bds05.altitude) with the tie of `py_common.altitude` as an explicit hypothesis
    `(halt : ∀ b : Bits, Gen.py_common.altitude (Val.ofBits b) = (altitude13 b >>= fun o => .val (Val.ofOptInt o)))`
    (being proved in `Tie/Common.lean`); note the generated code's `alt != -999999` test, absent from `altitude05`,
    needs `altitude13 b ≠ .val (some (-999999))` (true: the three branches give `25 n - 1000`, a multiple of 100, or a
    non-negative number).

  Obstacle met: after opening with
    `simp only [hex2bin_str m h hne, Res.bind_val, pySliceFrom_ofBits]; generalize (hex2binM m).drop 32 = mb`
  the next `simp only [pySliceNN_ofBits, bin2int_ofBits, pyIdxN_ofBits, …, Res.bind_val]` did not finish in 150 s
  (same symptom as `callsign` in `Tie/Bds08.lean`, where the `Res.bind_val` substitution of a value used many times
  ends in a kernel deterministic timeout).  Rewriting the field reads one at a time with dedicated lemmas stated on
  `Val.ofBits mb` should avoid it.
-/
import PyModeS.Tie.Basic
import PyModeS.Generated.Src.bds05
import PyModeS.Generated.Src.bds06

-- symbolic execution of long generated `do` blocks: generous but finite budget (proof times are seconds)
set_option maxHeartbeats 1000000

namespace PyModeS.Tie
open PyModeS PyModeS.Py PyModeS.CRC

end PyModeS.Tie
