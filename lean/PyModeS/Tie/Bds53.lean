/-
  Tie: generated `bds53.py` = hand model (`Model/Commb.lean`) on every 28-digit hex frame.
-/
import PyModeS.Tie.Basic
import PyModeS.Generated.Src.bds53
import Mathlib.Tactic.SplitIfs

-- symbolic execution of long generated `do` blocks: generous but finite budget (proof times are seconds)
set_option maxHeartbeats 1000000

set_option linter.unusedSimpArgs false
set_option linter.unusedTactic false
set_option linter.unreachableTactic false
namespace PyModeS.Tie
open PyModeS PyModeS.Py PyModeS.CRC

theorem hdg53_tie (m : Msg) (h : IsHex m) (hl : m.length = 28) :
    Gen.bds53.hdg53 (.str m) = (PyModeS.hdg53 (hex2binM m) >>= fun o => .val (Val.ofOptRat o)) := by
  unfold Gen.bds53.hdg53 PyModeS.hdg53
  commb_open m h hl
  commb_close

theorem ias53_tie (m : Msg) (h : IsHex m) (hl : m.length = 28) :
    Gen.bds53.ias53 (.str m) = (PyModeS.ias53 (hex2binM m) >>= fun o => .val (Val.ofOptRat o)) := by
  unfold Gen.bds53.ias53 PyModeS.ias53
  commb_open m h hl
  commb_close

theorem mach53_tie (m : Msg) (h : IsHex m) (hl : m.length = 28) :
    Gen.bds53.mach53 (.str m) = (PyModeS.mach53 (hex2binM m) >>= fun o => .val (Val.ofOptRat o)) := by
  unfold Gen.bds53.mach53 PyModeS.mach53
  commb_open m h hl
  commb_close
  all_goals simp

theorem tas53_tie (m : Msg) (h : IsHex m) (hl : m.length = 28) :
    Gen.bds53.tas53 (.str m) = (PyModeS.tas53 (hex2binM m) >>= fun o => .val (Val.ofOptRat o)) := by
  unfold Gen.bds53.tas53 PyModeS.tas53
  commb_open m h hl
  commb_close

theorem vr53_tie (m : Msg) (h : IsHex m) (hl : m.length = 28) :
    Gen.bds53.vr53 (.str m) = (PyModeS.vr53 (hex2binM m) >>= fun o => .val (Val.ofOptRat o)) := by
  unfold Gen.bds53.vr53 PyModeS.vr53
  commb_open m h hl
  commb_close

theorem is53_tie (m : Msg) (h : IsHex m) (hl : m.length = 28) :
    Gen.bds53.is53 (.str m) = (PyModeS.is53 (hex2binM m) >>= fun b => .val (.bool b)) := by
  unfold Gen.bds53.is53 PyModeS.is53
  simp only [allzeros_str m h hl, allzerosB_hex m hl, ias53_tie m h hl, mach53_tie m h hl, tas53_tie m h hl,
    vr53_tie m h hl]
  simp only [data_str, Res.bind_val, hex2bin_data m h hl, dataR_hex m hl]
  generalize slice 32 88 (hex2binM m) = d
  have w1 := ws_lit d 1 3 12 (by decide) (by decide)
  have w2 := ws_lit d 13 14 23 (by decide) (by decide)
  have w3 := ws_lit d 24 25 33 (by decide) (by decide)
  have w4 := ws_lit d 34 35 46 (by decide) (by decide)
  have w5 := ws_lit d 47 49 56 (by decide) (by decide)
  simp only [Nat.cast_ofNat, Nat.cast_one] at w1 w2 w3 w4 w5
  simp only [w1, w2, w3, w4, w5, statusOk]
  by_cases hz : PyModeS.bin2int d = 0
  · simp [hz]
  simp only [hz, decide_false, pyTruth_bool, Bool.false_eq_true, if_false]
  res_bool (PyModeS.wrongstatus d 1 3 12)
  res_bool (PyModeS.wrongstatus d 13 14 23)
  res_bool (PyModeS.wrongstatus d 24 25 33)
  res_bool (PyModeS.wrongstatus d 34 35 46)
  res_bool (PyModeS.wrongstatus d 47 49 56)
  res_opt (PyModeS.ias53 (hex2binM m))
  all_goals try split_ifs
  all_goals try (simp_all; done)
  all_goals res_opt (PyModeS.mach53 (hex2binM m))
  all_goals try split_ifs
  all_goals try (simp_all; done)
  all_goals res_opt (PyModeS.tas53 (hex2binM m))
  all_goals try split_ifs
  all_goals try (simp_all; done)
  all_goals res_opt (PyModeS.vr53 (hex2binM m))
  all_goals try split_ifs
  all_goals try (simp_all; done)

end PyModeS.Tie
