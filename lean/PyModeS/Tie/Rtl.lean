/-
  Tie for the software demodulator of property C19 (`extra/rtlreader.py`): the generated methods
  `RtlReader._check_msg`, `_check_preamble`, `_calc_noise` against `checkMsg`, `checkPreamble`, `calcNoise` of
  Model/Demod.lean.  (`_process_buffer` is in Tie/RtlBuffer.lean.)
-/
import PyModeS.Tie.Basic
import PyModeS.Tie.Common
import PyModeS.Tie.Crc
import PyModeS.Generated.Src.rtlreader
import PyModeS.Model.Demod

-- symbolic execution of long generated `do` blocks: generous but finite budget (proof times are seconds)
set_option maxHeartbeats 1000000

set_option linter.style.nameCheck false
set_option linter.unusedSimpArgs false
set_option linter.unusedVariables false
namespace PyModeS.Tie.Rtl
open PyModeS PyModeS.Py PyModeS.CRC PyModeS.Tie

/-! ### `_check_msg` -/

/-- `common.df(msg)` on a non-empty hex string (`df_str` asks for two digits; `bin2hex` can produce one) -/
theorem df_str1 (m : Msg) (h : IsHex m) (hne : m ≠ []) :
    Gen.py_common.df (.str m) = .val (Val.ofNat (PyModeS.df m)) := by
  unfold Gen.py_common.df PyModeS.df
  have hpos : 0 < m.length := List.length_pos_of_ne_nil hne
  have hne : m.take 2 ≠ [] := by
    intro e; have := congrArg List.length e
    simp only [List.length_take, List.length_nil] at this; omega
  have h8 : 4 ≤ (hex2binM (m.take 2)).length := by
    rw [hex2binM_length, List.length_take]; omega
  have hs : 0 < (slice 0 5 (hex2binM (m.take 2))).length := by simp [slice]; omega
  simp only [pySlice_N, Res.bind_val, hex2bin_str _ (isHex_take' h 2) hne, pySliceNN_ofBits, bin2int_ofBits,
    bin2intR_of_length hs, pyMin2_ofNat_24]

theorem pyIn_ofNat2 (d a b : Nat) :
    pyIn (Val.ofNat d) (.tuple [.num (a : Rat), .num (b : Rat)]) = .val (.bool (decide (d = a ∨ d = b))) := by
  simp only [pyIn, List.any_cons, List.any_nil, ofNat_beq, Bool.or_false, Bool.decide_or]

theorem pyIn_ofNat3 (d a b c : Nat) :
    pyIn (Val.ofNat d) (.tuple [.num (a : Rat), .num (b : Rat), .num (c : Rat)]) =
      .val (.bool (decide (d = a ∨ d = b ∨ d = c))) := by
  simp only [pyIn, List.any_cons, List.any_nil, ofNat_beq, Bool.or_false, Bool.decide_or]

/-! ### lists of samples -/

/-- a Python list (or numpy array) of exact samples -/
def encRats (p : List Rat) : Val := .tuple (p.map Val.num)

theorem pyLen_rats (p : List Rat) : pyLen (encRats p) = .val (Val.ofNat p.length) := by
  simp [pyLen, encRats]

theorem pyIdx_rats (p : List Rat) (k : Nat) (h : k < p.length) :
    Py.pyIdx (encRats p) (Val.ofNat k) = .val (.num (p.getD k 0)) := by
  have hn : ¬ ((k : Int) < 0) := by omega
  simp only [Py.pyIdx, encRats, int?_ofNat, idxList, hn, if_false, Int.toNat_natCast, List.getElem?_map,
    List.getElem?_eq_getElem h, Option.map_some, List.getD_eq_getElem?_getD, Option.getD_some]
  rfl

theorem pyIdxN_rats (p : List Rat) (k : Nat) (h : k < p.length) :
    pyIdxN (encRats p) k = .val (.num (p.getD k 0)) := by
  simp only [pyIdxN, encRats, List.getElem?_map, List.getElem?_eq_getElem h, Option.map_some,
    List.getD_eq_getElem?_getD, Option.getD_some]

/-! ### `_check_preamble` -/

theorem getD_map_cast (l : List Nat) (k : Nat) :
    (l.map (fun (n : Nat) => (n : Rat))).getD k 0 = ((l.getD k 0 : Nat) : Rat) := by
  rw [List.getD_eq_getElem?_getD, List.getD_eq_getElem?_getD, List.getElem?_map]
  cases l[k]? <;> simp

theorem preamble_enc :
    Gen.rtlreader.preamble = encRats (Tables.rtlPreamble.map (fun (n : Nat) => (n : Rat))) := by
  simp [Gen.rtlreader.preamble, Tables.rtlPreamble, encRats]

/-- a `for` loop whose body either goes on (`ok k`) or returns `R` at once -/
theorem loop_early (R : Val) (ok : Nat → Bool)
    (f : Val → Option Val × Val → Res (ForInStep (Option Val × Val))) (l : List Nat)
    (hstep : ∀ k ∈ l, ∀ i, f (Val.ofNat k) (none, i) =
      .val (if ok k then .yield (none, Val.ofNat k) else .done (some R, Val.ofNat k))) :
    ∀ i0, ∃ i', forIn (l.map Val.ofNat) (none, i0) f = .val ((if l.all ok then none else some R), i') := by
  induction l with
  | nil => intro i0; exact ⟨i0, rfl⟩
  | cons k l ih =>
    intro i0
    rw [List.map_cons, List.forIn_cons, hstep k (by simp), bind_val']
    by_cases hk : ok k = true
    · obtain ⟨i', hi'⟩ := ih (fun j hj => hstep j (List.mem_cons_of_mem _ hj)) (Val.ofNat k)
      refine ⟨i', ?_⟩
      simp only [hk, if_true, List.all_cons, Bool.true_and]
      exact hi'
    · refine ⟨Val.ofNat k, ?_⟩
      simp only [hk, List.all_cons, Bool.false_eq_true, if_false, Bool.false_and]
      rfl

theorem loop_early_cont (R : Val) (ok : Nat → Bool)
    (f : Val → Option Val × Val → Res (ForInStep (Option Val × Val))) (l : List Nat)
    (K : Option Val × Val → Res Val) (Rr : Res Val)
    (hstep : ∀ k ∈ l, ∀ i, f (Val.ofNat k) (none, i) =
      .val (if ok k then .yield (none, Val.ofNat k) else .done (some R, Val.ofNat k)))
    (i0 : Val) (hK : ∀ i', K ((if l.all ok then none else some R), i') = Rr) :
    (forIn (l.map Val.ofNat) (none, i0) f >>= K) = Rr := by
  obtain ⟨i', hi'⟩ := loop_early R ok f l hstep i0
  rw [hi', bind_val']
  exact hK i'

/-! ### `_calc_noise` -/

/-- the row means of the complete 200-sample windows, on a list -/
def meansL (b : List Rat) : List Rat :=
  (List.range (b.length / 200)).map (fun k => ((b.drop (k * 200)).take 200).foldl (· + ·) 0 / 200)

theorem calcNoise_list (buf : Array Rat) :
    calcNoise buf = (match meansL buf.toList with
      | [] => .exc
      | m :: ms => .val (ms.foldl min m)) := by
  have hm : (List.range (buf.size / (Tables.rtlSamplesPerMicrosec * 100))).map
      (fun k => (buf.extract (k * (Tables.rtlSamplesPerMicrosec * 100))
        (k * (Tables.rtlSamplesPerMicrosec * 100) + (Tables.rtlSamplesPerMicrosec * 100))).foldl (· + ·) 0 /
          ((Tables.rtlSamplesPerMicrosec * 100 : Nat) : Rat)) = meansL buf.toList := by
    have hw : Tables.rtlSamplesPerMicrosec * 100 = 200 := rfl
    rw [hw, meansL, Array.length_toList]
    apply List.map_congr_left
    intro k _
    rw [← Array.foldl_toList, Array.toList_extract, List.extract_eq_take_drop, Nat.add_sub_cancel_left]
    norm_num
  unfold calcNoise
  simp only []
  rw [hm]
  rfl

/-- `rows = a.reshape(-1, w)` of the first `n` complete rows -/
theorem rowsOf_take {α} (w : Nat) (hw : 0 < w) : ∀ (n fuel : Nat) (L : List α), n ≤ fuel → n * w ≤ L.length →
    rowsOf w fuel (L.take (n * w)) = (List.range n).map (fun k => (L.drop (k * w)).take w) := by
  intro n
  induction n with
  | zero => intro fuel L _ _; cases fuel <;> simp [rowsOf]
  | succ n ih =>
    intro fuel L hf hL
    obtain ⟨fuel, rfl⟩ : ∃ f', fuel = f' + 1 := ⟨fuel - 1, by omega⟩
    have hlen : (n + 1) * w = n * w + w := by ring
    have hne : L.take ((n + 1) * w) ≠ [] := by
      intro e
      have := congrArg List.length e
      rw [List.length_take_of_le hL] at this
      simp at this
      omega
    have hstep : rowsOf w (fuel + 1) (L.take ((n + 1) * w)) =
        (L.take ((n + 1) * w)).take w :: rowsOf w fuel ((L.take ((n + 1) * w)).drop w) := by
      generalize L.take ((n + 1) * w) = l at hne
      cases l with
      | nil => exact absurd rfl hne
      | cons a l => rfl
    rw [hstep, List.take_take, List.drop_take, Nat.min_eq_left (by omega), hlen, Nat.add_sub_cancel,
      ih fuel (L.drop w) (by omega) (by rw [List.length_drop]; omega), List.range_succ_eq_map, List.map_cons,
      List.map_map]
    simp only [Nat.zero_mul, List.drop_zero, List.cons.injEq, true_and]
    apply List.map_congr_left
    intro k _
    simp only [Function.comp, List.drop_drop, Nat.succ_eq_add_one]
    congr 2
    ring

theorem mapM_num (r : List Rat) : (r.map Val.num).mapM Val.num? = some r := by
  induction r with
  | nil => rfl
  | cons a r ih => simp [List.mapM_cons, ih]

theorem mapM_rows (F : Val → Option Val) (rs : List (List Rat))
    (hF : ∀ r ∈ rs, F (.tuple (r.map Val.num)) = some (.num (r.foldl (· + ·) 0 / (r.length : Rat)))) :
    (rs.map (fun r => Val.tuple (r.map Val.num))).mapM F =
      some (rs.map (fun r => Val.num (r.foldl (· + ·) 0 / (r.length : Rat)))) := by
  induction rs with
  | nil => rfl
  | cons r rs ih =>
    rw [List.map_cons, List.mapM_cons, ih (fun r hr => hF r (List.mem_cons_of_mem _ hr)), hF r (by simp)]
    rfl

/-- `rows.mean(axis=1)` on non-empty rows of numbers -/
theorem pyMeanRows_rats (rs : List (List Rat)) (hne : ∀ r ∈ rs, r ≠ []) :
    pyMeanRows (.tuple (rs.map (fun r => Val.tuple (r.map Val.num)))) =
      .val (encRats (rs.map (fun r => r.foldl (· + ·) 0 / (r.length : Rat)))) := by
  unfold pyMeanRows
  simp only []
  rw [mapM_rows _ rs ?hF]
  case hF =>
    intro r hr
    have h1 : r ≠ [] := hne r hr
    have h2 : r.isEmpty = false := by cases r <;> simp_all
    simp only [mapM_num, h2]
    rfl
  simp only [encRats, List.map_map]
  rfl

theorem argBest_min (qs : List Rat) : ∀ (pre : List Rat) (j : Nat) (b : Rat), pre[j]? = some b →
    ∃ i q, argBest (fun q b => decide (q < b)) (qs.map Val.num) pre.length (some (j, b)) = some (i, q) ∧
      (pre ++ qs)[i]? = some q ∧ q = qs.foldl min b := by
  induction qs with
  | nil =>
    intro pre j b hj
    exact ⟨j, b, rfl, by simpa using hj, rfl⟩
  | cons x qs ih =>
    intro pre j b hj
    have hjl : j < pre.length := by
      rcases Nat.lt_or_ge j pre.length with h | h
      · exact h
      · rw [List.getElem?_eq_none h] at hj; cases hj
    simp only [List.map_cons, argBest, num?_num, List.foldl_cons]
    have hpre : (pre ++ [x]).length = pre.length + 1 := by simp
    by_cases hx : x < b
    · have hmin : min b x = x := min_eq_right (le_of_lt hx)
      obtain ⟨i, q, h1, h2, h3⟩ := ih (pre ++ [x]) pre.length x (by simp)
      refine ⟨i, q, ?_, ?_, ?_⟩
      · rw [hpre] at h1; simpa [hx] using h1
      · simpa using h2
      · rw [hmin]; exact h3
    · have hmin : min b x = b := min_eq_left (not_lt.mp hx)
      obtain ⟨i, q, h1, h2, h3⟩ := ih (pre ++ [x]) j b (by rw [List.getElem?_append_left hjl]; exact hj)
      refine ⟨i, q, ?_, ?_, ?_⟩
      · rw [hpre] at h1; simpa [hx] using h1
      · simpa using h2
      · rw [hmin]; exact h3

/-- `min(means)` of a list of numbers (`ValueError` on the empty list) -/
theorem pyMinList_rats (qs : List Rat) :
    pyMinList (encRats qs) = (match qs with
      | [] => .exc
      | m :: ms => .val (.num (ms.foldl min m))) := by
  cases qs with
  | nil => rfl
  | cons m ms =>
    obtain ⟨i, q, h1, h2, h3⟩ := argBest_min ms [m] 0 m rfl
    simp only [pyMinList, encRats, List.map_cons, argBest, num?_num]
    simp only [List.length_singleton, Nat.zero_add] at h1
    rw [h1]
    simp only [List.singleton_append] at h2
    have : (Val.num m :: ms.map Val.num)[i]? = some (Val.num q) := by
      rw [← List.map_cons, List.getElem?_map, h2]; rfl
    simp only [this, h3]

theorem pyFloorDiv_ofNat (n d : Nat) (hd : d ≠ 0) :
    pyFloorDiv (Val.ofNat n) (Val.ofNat d) = .val (Val.ofNat (n / d)) := by
  have hd' : ¬ ((d : Rat) = 0) := by exact_mod_cast hd
  have hf : Rat.floor ((n : Rat) / (d : Rat)) = ((n / d : Nat) : Int) := by
    have : Rat.floor ((n : Rat) / (d : Rat)) = ⌊((n : Rat) / (d : Rat))⌋ := rfl
    rw [this, Rat.floor_natCast_div_natCast]; rfl
  simp only [pyFloorDiv, num?_ofNat, hd', if_false, hf, Val.ofNat, Int.cast_natCast, num?_num]

/-- `l[:k]` -/
theorem pySlice_rats_to (b : List Rat) (k : Nat) :
    pySlice (encRats b) none (some (Val.ofNat k)) = .val (encRats (b.take k)) := by
  have i0 : optInt (some (Val.ofNat k)) = .val (some (k : Int)) := by
    have := int?_ofNat k
    unfold Val.ofNat at this ⊢
    simp only [optInt, this]
  have i1 : optInt none = .val none := rfl
  simp only [pySlice, i0, i1, bind_val', encRats, sliceList, normBound_nonneg, List.length_map, slice,
    List.drop_zero, Nat.sub_zero, List.map_take]
  congr 2
  rcases Nat.lt_or_ge b.length k with hlt | hge
  · rw [Nat.min_eq_right (Nat.le_of_lt hlt), List.take_of_length_le (by simp),
      List.take_of_length_le (by simp; omega)]
  · rw [Nat.min_eq_left hge]

end PyModeS.Tie.Rtl
namespace PyModeS.Tie
open PyModeS PyModeS.Py PyModeS.CRC PyModeS.Tie.Rtl

/-- `_check_msg(msg)` on any non-empty hex string (the receiver is not read and is returned unchanged) -/
theorem RtlReader__check_msg_tie (self : Val) (m : Msg) (h : IsHex m) (hne : m ≠ []) :
    Gen.rtlreader.RtlReader__check_msg self (.str m) = .val (.tuple [self, .bool (checkMsg m)]) := by
  unfold Gen.rtlreader.RtlReader__check_msg
  have hcm : checkMsg m =
      (if (decide (PyModeS.df m = 17) && decide (m.length = 28)) = true then decide (PyModeS.crc m false = 0)
       else if (decide (PyModeS.df m = 20 ∨ PyModeS.df m = 21) && decide (m.length = 28)) = true then true
       else if (decide (PyModeS.df m = 4 ∨ PyModeS.df m = 5 ∨ PyModeS.df m = 11) && decide (m.length = 14)) = true
         then true else false) := by
    simp only [checkMsg, Bool.and_eq_true, decide_eq_true_eq]
  have hlen : pyLen (.str m) = .val (Val.ofNat m.length) := rfl
  have e17 := pyEq_ofNat (PyModeS.df m) 17
  have e28 := pyEq_ofNat m.length 28
  have e14 := pyEq_ofNat m.length 14
  have i2 := pyIn_ofNat2 (PyModeS.df m) 20 21
  have i3 := pyIn_ofNat3 (PyModeS.df m) 4 5 11
  simp only [Nat.cast_ofNat] at e17 e28 e14 i2 i3
  rw [df_str1 m h hne, bind_val', hlen, bind_val', e17, bind_val', hcm]
  simp only [pyTruth_bool, e28, e14, i2, i3, bind_val', Res.pure_eq]
  have e0 := pyEq_ofNat (PyModeS.crc m false) 0
  simp only [Nat.cast_zero] at e0
  by_cases h28 : m.length = 28
  · simp only [crc_tie m h (by omega) false, bind_val', e0, pyTruth_bool]
    generalize decide (PyModeS.df m = 17) = p17
    generalize decide (m.length = 28) = p28
    generalize decide (m.length = 14) = p14
    generalize decide (PyModeS.df m = 20 ∨ PyModeS.df m = 21) = p2
    generalize decide (PyModeS.df m = 4 ∨ PyModeS.df m = 5 ∨ PyModeS.df m = 11) = p3
    generalize decide (PyModeS.crc m false = 0) = pc
    cases p17 <;> cases p28 <;> cases p14 <;> cases p2 <;> cases p3 <;> cases pc <;> rfl
  · simp only [h28, decide_false]
    generalize decide (PyModeS.df m = 17) = p17
    generalize decide (m.length = 14) = p14
    generalize decide (PyModeS.df m = 20 ∨ PyModeS.df m = 21) = p2
    generalize decide (PyModeS.df m = 4 ∨ PyModeS.df m = 5 ∨ PyModeS.df m = 11) = p3
    cases p17 <;> cases p14 <;> cases p2 <;> cases p3 <;> rfl

/-- `_debug_msg(msg)` (its `print` calls are not modelled) on any non-empty hex string: returns `None`, receiver
    unchanged -/
theorem RtlReader__debug_msg_tie (self : Val) (m : Msg) (h : IsHex m) (hne : m ≠ []) :
    Gen.rtlreader.RtlReader__debug_msg self (.str m) = .val (.tuple [self, .none]) := by
  unfold Gen.rtlreader.RtlReader__debug_msg
  have hlen : pyLen (.str m) = .val (Val.ofNat m.length) := rfl
  have e17 := pyEq_ofNat (PyModeS.df m) 17
  have e28 := pyEq_ofNat m.length 28
  have e14 := pyEq_ofNat m.length 14
  have i2 := pyIn_ofNat2 (PyModeS.df m) 20 21
  have i3 := pyIn_ofNat3 (PyModeS.df m) 4 5 11
  simp only [Nat.cast_ofNat] at e17 e28 e14 i2 i3
  rw [df_str1 m h hne, bind_val', hlen, bind_val', e17, bind_val']
  simp only [pyTruth_bool, e28, e14, i2, i3, bind_val', Res.pure_eq]
  generalize decide (PyModeS.df m = 17) = p17
  generalize decide (m.length = 28) = p28
  generalize decide (m.length = 14) = p14
  generalize decide (PyModeS.df m = 20 ∨ PyModeS.df m = 21) = p2
  generalize decide (PyModeS.df m = 4 ∨ PyModeS.df m = 5 ∨ PyModeS.df m = 11) = p3
  cases p17 <;> cases p28 <;> cases p14 <;> cases p2 <;> cases p3 <;> rfl

/-- `_check_preamble(pulses)` on any list of samples (the receiver is not read and is returned unchanged) -/
theorem RtlReader__check_preamble_tie (self : Val) (p : List Rat) :
    Gen.rtlreader.RtlReader__check_preamble self (encRats p) = .val (.tuple [self, .bool (checkPreamble p)]) := by
  unfold Gen.rtlreader.RtlReader__check_preamble checkPreamble
  have e16 : pyNe (Val.ofNat p.length) (Val.num 16) = .val (.bool (!decide (p.length = 16))) := by
    have := ofNat_beq p.length 16
    simp only [Nat.cast_ofNat] at this
    simp only [pyNe, this]
  simp only []
  rw [pyLen_rats, bind_val', e16, bind_val', pyTruth_bool]
  by_cases hl : p.length = 16
  · simp only [hl, decide_true, Bool.not_true, Bool.false_eq_true, if_false, BEq.rfl, Bool.true_and]
    rw [num_zero_ofNat, CrcTie.lit16, CrcTie.pyRange_ofNat, bind_val', CrcTie.pyIter_tuple, bind_val']
    refine loop_early_cont (Val.tuple [self, Val.bool false])
      (fun k => !decide (rabs (p.getD k 0 - (Tables.rtlPreamble.getD k 0 : Rat)) > Tables.rtlThAmpDiff)) _
      (List.range 16) _ _ ?step Val.none ?hK
    case step =>
      intro k hk i
      rw [List.mem_range] at hk
      rw [pyIdx_rats p k (by omega), bind_val', preamble_enc, pyIdx_rats _ k (by simpa [Tables.rtlPreamble] using hk),
        bind_val', pySub_num, bind_val', pyAbs_num, bind_val', Gen.rtlreader.th_amp_diff, pyGt_num, bind_val',
        pyTruth_bool, getD_map_cast]
      simp only [rabs, Tables.rtlThAmpDiff, gt_iff_lt, Res.pure_eq]
      split_ifs <;> simp_all
    case hK =>
      intro i'
      simp only []
      cases (List.range 16).all
        (fun k => !decide (rabs (p.getD k 0 - (Tables.rtlPreamble.getD k 0 : Rat)) > Tables.rtlThAmpDiff)) <;> rfl
  · simp [hl]

/-- `_calc_noise()` on any receiver `l` whose `signal_buffer` attribute holds the samples `buf`: the minimum of the
    window means, `ValueError` (both sides `exc`) when there is no complete window of 200 samples -/
theorem RtlReader__calc_noise_tie (l : List (Val × Val)) (buf : Array Rat)
    (hbuf : dictFind l (attrKey "signal_buffer") = some (encRats buf.toList)) :
    Gen.rtlreader.RtlReader__calc_noise (.dict l) =
      (calcNoise buf >>= fun q => .val (.tuple [.dict l, .num q])) := by
  unfold Gen.rtlreader.RtlReader__calc_noise
  have hb : pyGetAttr (.dict l) "signal_buffer" = .val (encRats buf.toList) := by simp only [pyGetAttr, hbuf]
  have hw : pyMul Gen.rtlreader.smaples_per_microsec (Val.num 100) = .val (Val.ofNat 200) := by
    simp only [Gen.rtlreader.smaples_per_microsec, pyMul_num, Val.ofNat]; norm_num
  have hmul : ∀ a : Nat, pyMul (Val.ofNat a) (Val.ofNat 200) = .val (Val.ofNat (a * 200)) := by
    intro a; simp [Val.ofNat]
  have h200 : (Val.ofNat 200).int? = some (Int.ofNat (199 + 1)) := int?_ofNat 200
  simp only []
  simp only [hw, bind_val', hb, pyLen_rats, pyFloorDiv_ofNat _ 200 (by decide), hmul, pySlice_rats_to]
  rw [encRats, CrcTie.pyList_tuple, bind_val', calcNoise_list]
  generalize buf.toList = b
  have hle : b.length / 200 * 200 ≤ b.length := Nat.div_mul_le_self _ _
  have hlt : (List.map Val.num (List.take (b.length / 200 * 200) b)).length = b.length / 200 * 200 := by
    rw [List.length_map, List.length_take_of_le hle]
  have hrows : rowsOf 200 (b.length / 200 * 200) ((b.map Val.num).take (b.length / 200 * 200)) =
      ((List.range (b.length / 200)).map (fun k => (b.drop (k * 200)).take 200)).map (fun r => r.map Val.num) := by
    rw [rowsOf_take 200 (by decide) (b.length / 200) _ _ (by omega) (by rw [List.length_map]; exact hle),
      List.map_map]
    apply List.map_congr_left
    intro k _
    simp only [Function.comp, List.map_take, List.map_drop]
  have hresh : pyReshapeRows (Val.tuple (List.map Val.num (List.take (b.length / 200 * 200) b))) (Val.ofNat 200) =
      .val (.tuple (((List.range (b.length / 200)).map (fun k => (b.drop (k * 200)).take 200)).map
        (fun r => Val.tuple (r.map Val.num)))) := by
    simp only [pyReshapeRows, h200, hlt, Nat.reduceAdd, Nat.mul_mod_left, ne_eq, not_true_eq_false, if_false]
    rw [List.map_take, hrows, List.map_map]
    rfl
  rw [hresh, bind_val', pyMeanRows_rats _ ?hne, bind_val', pyMinList_rats]
  case hne =>
    intro r hr
    rw [List.mem_map] at hr
    obtain ⟨k, hk, rfl⟩ := hr
    rw [List.mem_range] at hk
    intro e
    have := congrArg List.length e
    rw [List.length_take, List.length_drop] at this
    have h1 : (k + 1) * 200 ≤ b.length / 200 * 200 := Nat.mul_le_mul_right _ hk
    simp at this
    omega
  have hmeans : (((List.range (b.length / 200)).map (fun k => (b.drop (k * 200)).take 200)).map
      (fun r => r.foldl (· + ·) 0 / (r.length : Rat))) = meansL b := by
    rw [meansL, List.map_map]
    apply List.map_congr_left
    intro k hk
    rw [List.mem_range] at hk
    have h1 : (k + 1) * 200 ≤ b.length / 200 * 200 := Nat.mul_le_mul_right _ hk
    have : ((b.drop (k * 200)).take 200).length = 200 := by
      rw [List.length_take, List.length_drop]; omega
    simp only [Function.comp, this]
    norm_num
  rw [hmeans]
  cases meansL b <;> rfl

end PyModeS.Tie
