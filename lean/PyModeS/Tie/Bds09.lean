/-
  Tie: generated `bds09.airborne_velocity` (Generated/Src/bds09.lean, from decoder/bds/bds09.py) against the hand model
  `airborneVelocity` (Model/Adsb.lean).  The ground-speed branch (subtypes 1-2) goes through double precision
  (`Ext.math_sqrt`, `Ext.math_atan2`, `Ext.math_degrees`), which the kernel cannot evaluate (`Float.sqrt`, `Float.atan2`
  are opaque); the hand model keeps the exact components (`Dir.track v_we v_sn`) and the exact integer square root.
  Everything that is exact is tied here:

  * `airborne_velocity_float_tie` (master): generated = model >>= `encVel`, where `encVel` re-computes the two float
    members (`gsSpeed`, `gsTrack`) from the model's exact `v_we`, `v_sn` and copies every other member;
  * 1. `airborne_velocity_guard_tie`, `airborne_velocity_none_tie`, `airborne_velocity_none_iff_tie`;
  * 2. `airborne_velocity_shape_exc_tie` (unconditional), `airborne_velocity_shape_tie`, `airborne_velocity_shape4_tie`
       (under `FloatFinite`: the float externals return finite numbers);
  * 3. `airborne_velocity_vr_tie`, `airborne_velocity_tag_tie`;
  * 4. `airborne_velocity_airspeed_tie`, `airborne_velocity_airspeed_spec_tie` (subtypes other than 1, 2: exact, whole tuple);
  * 5. `airborne_velocity_gs_components_tie`, `airborne_velocity_gs_spec_tie` (arguments of the float externals are the
       model's exact components), `airborne_velocity_speed_tie_partial` (speed member = model's, under `SqrtExact`).

  `source` is taken as a Python bool (`.bool src`).
-/
import PyModeS.Tie.Basic
import PyModeS.Tie.Common
import PyModeS.Tie.Adsb
import PyModeS.Generated.Src.bds09
import PyModeS.Model.Adsb
import PyModeS.Properties.C09
import PyModeS.Proofs.Commb.TellTotal
import Mathlib.Tactic.SplitIfs
import Mathlib.Tactic.NormNum

-- symbolic execution of long generated `do` blocks: generous but finite budget
set_option maxHeartbeats 1000000

set_option linter.unusedSimpArgs false
set_option linter.unusedTactic false
set_option linter.unreachableTactic false
set_option linter.style.nameCheck false
namespace PyModeS.Tie
open PyModeS PyModeS.Py PyModeS.CRC
open Adsb

namespace Bds09

/-- `spd = int(math.sqrt(v_sn * v_sn + v_we * v_we))` as the generated code computes it (double precision) -/
def gsSpeed (vwe vsn : Rat) : Res Val := do
  let s ← Gen.Ext.math_sqrt (.num (vsn * vsn + vwe * vwe))
  pyInt1 s

/-- `trk = math.degrees(math.atan2(v_we, v_sn))`, plus 360 when negative, as the generated code computes it -/
def gsTrack (vwe vsn : Rat) : Res Val := do
  let t ← Gen.Ext.math_atan2 (.num vwe) (.num vsn)
  let t ← Gen.Ext.math_degrees t
  if pyTruth (← pyGe t (.num 0)) then pure t else pyAdd t (.num 360)

/-- the tuple `airborne_velocity` returns: four members, six with `source=True` -/
def velTuple (src : Bool) (spd trk : Val) (v : Velocity) : Val :=
  .tuple ([spd, trk, Val.ofOptInt v.vs, .str v.spdType.toList] ++
    if src then [.str v.dirType.toList, .str v.vrSource.toList] else [])

/-- encoding of the hand model's result; the two floating-point members are computed from the model's exact
    components `v_we`, `v_sn` (the model's own `spd` for ground speed is the exact integer square root, not used here) -/
def encVel (src : Bool) : Option Velocity → Res Val
  | none => .val .none
  | some v =>
    match v.dir with
    | .track vwe vsn => do
        let spd ← gsSpeed vwe vsn
        let trk ← gsTrack vwe vsn
        pure (velTuple src spd trk v)
    | .heading hd => .val (velTuple src (Val.ofOptInt v.spd) (.num hd) v)
    | .none => .val (velTuple src (Val.ofOptInt v.spd) .none v)

theorem in_12 (st : Nat) :
    pyIn (Val.num (st : Rat)) (Val.tuple [Val.num 1, Val.num 2]) = .val (.bool (decide (st = 1 ∨ st = 2))) := by
  have e1 := ofNat_beq st 1
  have e2 := ofNat_beq st 2
  simp only [Nat.cast_ofNat, Nat.cast_one, Val.ofNat] at e1 e2
  simp only [pyIn, List.any_cons, List.any_nil, e1, e2, Bool.or_false]
  congr 2
  by_cases h1 : st = 1 <;> by_cases h2 : st = 2 <;> simp [h1, h2]

theorem eq_zero (n : Nat) : pyEq (Val.num (n : Rat)) (Val.num 0) = .val (.bool (decide (n = 0))) := by
  have := pyEq_ofNat n 0
  simpa [Val.ofNat] using this

/-- `pyTruth_bool` with a proof that is not `rfl`, so that `simp` rewrites the `Decidable` instance of an `if` too -/
theorem pyTruth_bool' (b : Bool) : pyTruth (.bool b) = b := by cases b <;> rfl

theorem pyInt1_int (i : Int) : pyInt1 (.num (i : Rat)) = .val (.num (i : Rat)) := by
  have hf : ∀ j : Int, Rat.floor (j : Rat) = j := by
    intro j
    have : Rat.floor (j : Rat) = ⌊(j : Rat)⌋ := rfl
    rw [this]; exact Int.floor_intCast j
  unfold pyInt1
  by_cases h0 : (i : Rat) < 0
  · have : (-(i : Rat)) = ((-i : Int) : Rat) := by push_cast; rfl
    simp only [h0, if_true, this, hf]
    push_cast; simp
  · simp only [h0, if_false, hf]

/-- vertical rate of the model / of `Properties/C09.lean` (`vertRate`) -/
def vsOf (s : Bool) (vr : Nat) : Option Int :=
  if vr = 0 then none else some ((if s then -1 else 1) * ((vr : Int) - 1) * 64)

/-- the common tail of `airborne_velocity`: vertical-rate source, sign, value, and the returned tuple -/
theorem tail_eval (src b35 b36 : Bool) (vr : Nat) (spd trk ty dty : Val) :
    (do let vr_source ← (if (!b35) = true then pure (Val.str ['G', 'N', 'S', 'S'])
            else pure (Val.str ['B', 'A', 'R', 'O']) : Res Val)
        let vr_sign ← (if b36 = true then pure (Val.num (-1)) else pure (Val.num 1) : Res Val)
        let vs ← (if decide (vr = 0) = true then pure Val.none else do
            let a ← pySub (Val.num (vr : Rat)) (Val.num 1)
            let b ← pyMul vr_sign a
            let c ← pyMul b (Val.num 64)
            pyInt1 c : Res Val)
        if src = true then (pure (Val.tuple [spd, trk, vs, ty, dty, vr_source]) : Res Val)
          else pure (Val.tuple [spd, trk, vs, ty])) =
      .val (.tuple ([spd, trk, Val.ofOptInt (vsOf b36 vr), ty] ++
        if src then [dty, .str (if b35 then ['B', 'A', 'R', 'O'] else ['G', 'N', 'S', 'S'])] else [])) := by
  have hi : ∀ s : Int, pyInt1 (Val.num ((s : Rat) * ((vr : Rat) - 1) * 64)) =
      .val (.num ((s * ((vr : Int) - 1) * 64 : Int) : Rat)) := by
    intro s
    have : (s : Rat) * ((vr : Rat) - 1) * 64 = ((s * ((vr : Int) - 1) * 64 : Int) : Rat) := by push_cast; ring
    rw [this, pyInt1_int]
  have h1 := hi 1
  have h2 := hi (-1)
  simp only [Int.cast_one, Int.cast_neg] at h1 h2
  by_cases hv : vr = 0
  · cases b35 <;> cases b36 <;> cases src <;> simp [hv, vsOf, Val.ofOptInt, Res.pure_eq, bind_val']
  · cases b35 <;> cases b36 <;> cases src <;>
      simp only [hv, vsOf, Val.ofOptInt, Res.pure_eq, bind_val', decide_false, Bool.false_eq_true, if_false, if_true,
        Bool.not_true, Bool.not_false, pySub_num, pyMul_num, h1, h2, List.cons_append, List.nil_append, List.append_nil]

end Bds09
open Bds09

theorem airborne_velocity_float_tie (m : Msg) (h : IsHex m) (hl : m.length = 28) (src : Bool) :
    Gen.bds09.airborne_velocity (.str m) (.bool src) = (airborneVelocity (hex2binM m) >>= encVel src) := by
  unfold Gen.bds09.airborne_velocity airborneVelocity
  have hne : m ≠ [] := by intro e; rw [e] at hl; simp at hl
  dsimp only
  rw [typecode_str m h (by omega), typecode_eq, bind_val', pyNe_lit, bind_val']
  by_cases e : tcB (hex2binM m) = some 19
  swap
  · rw [decide_eq_true e, pyTruth_bool, if_pos rfl, bind_rte', if_pos e]
    rfl
  rw [decide_eq_false (not_not.mpr e), pyTruth_bool, if_neg Bool.false_ne_true, if_neg (not_not.mpr e)]
  rw [hex2bin_str m h hne, bind_val', pySliceFrom_ofBits, bind_val']
  have hd : ((hex2binM m).drop 32).length = 80 := by simp [hex2binM_length, hl]
  generalize (hex2binM m).drop 32 = mb at hd
  simp only [pySliceNN_ofBits, bind_val', bin2int_ofBits, pyIdxN_ofBits, idxR_of_lt, hd, bin2intR_slice_of_lt, Nat.reduceLT,
    pyEq_digit_zero, pyEq_digit_one, Val.ofNat, in_12, eq_zero, eq_lit, pyTruth_bool']
  generalize bin2int (slice 5 8 mb) = st
  generalize bin2int (slice 14 24 mb) = f1
  generalize bin2int (slice 25 35 mb) = f2
  generalize bin2int (slice 37 46 mb) = vr
  generalize mb[13] = b13
  generalize mb[24] = b24
  generalize mb[35] = b35
  generalize mb[36] = b36
  simp only [tail_eval]
  have hvs : (if vr = 0 then none else some ((if b36 = true then -1 else 1) * ((vr : Int) - 1) * 64)) = vsOf b36 vr := rfl
  have hsrc : (if b35 = false then "GNSS" else "BARO").toList =
      if b35 = true then ['B', 'A', 'R', 'O'] else ['G', 'N', 'S', 'S'] := by cases b35 <;> rfl
  simp only [hvs]
  by_cases h12 : st = 1 ∨ st = 2
  · by_cases h1 : f1 = 0
    · simp [h12, h1, encVel, bind_val', Res.pure_eq]
    by_cases h2 : f2 = 0
    · simp [h12, h1, h2, encVel, bind_val', Res.pure_eq]
    rcases h12 with rfl | rfl
    · cases b13 <;> cases b24 <;>
        simp [h1, h2, encVel, velTuple, gsSpeed, gsTrack, bind_val', Res.pure_eq, Val.ofOptInt, hsrc]
    · cases b13 <;> cases b24 <;>
        simp [h1, h2, encVel, velTuple, gsSpeed, gsTrack, bind_val', Res.pure_eq, Val.ofOptInt, hsrc]
  · have n1 : st ≠ 1 := fun e => h12 (Or.inl e)
    have n2 : st ≠ 2 := fun e => h12 (Or.inr e)
    by_cases h4 : st = 4 <;> by_cases h2 : f2 = 0 <;> cases b13 <;> cases b24 <;>
      simp [h12, n1, n2, h4, h2, encVel, velTuple, bind_val', Res.pure_eq, Val.ofOptInt, hsrc]

/-! ### what the floating-point members can be -/

namespace Bds09

theorem float1_num (f : Float → Float) (q : Rat) :
    Gen.Ext.float1 f (.num q) = .exc ∨ ∃ r : Rat, Gen.Ext.float1 f (.num q) = .val (.num r) := by
  unfold Gen.Ext.float1
  simp only [num?_num]
  split
  · exact Or.inl rfl
  · exact Or.inr ⟨_, rfl⟩

/-- the speed is an exception (a NaN or an infinity out of `sqrt`) or an integer -/
theorem gsSpeed_cases (a b : Rat) : gsSpeed a b = .exc ∨ ∃ n : Int, gsSpeed a b = .val (.num (n : Rat)) := by
  unfold gsSpeed Gen.Ext.math_sqrt
  simp only [num?_num]
  split
  · exact Or.inl rfl
  · rcases float1_num Float.sqrt (b * b + a * a) with hx | ⟨r, hr⟩
    · rw [hx]; exact Or.inl rfl
    · rw [hr, bind_val']
      exact Or.inr ⟨_, rfl⟩

/-- the track is an exception (a NaN or an infinity out of `degrees`) or a number -/
theorem gsTrack_cases (a b : Rat) : gsTrack a b = .exc ∨ ∃ r : Rat, gsTrack a b = .val (.num r) := by
  unfold gsTrack Gen.Ext.math_atan2 Gen.Ext.math_degrees
  simp only [num?_num, bind_val']
  rcases float1_num (fun r => r * (180.0 / Float.acos (-1.0)))
    (floatToRat (Float.atan2 (ratToFloat a) (ratToFloat b))) with hx | ⟨r, hr⟩
  · rw [hx]; exact Or.inl rfl
  · rw [hr, bind_val', pyGe_num, bind_val', pyTruth_bool']
    by_cases h0 : (0 : Rat) ≤ r
    · rw [decide_eq_true h0, if_pos rfl]; exact Or.inr ⟨_, rfl⟩
    · rw [decide_eq_false h0, if_neg Bool.false_ne_true, pyAdd_num]; exact Or.inr ⟨_, rfl⟩

/-- the exact double-precision expression behind the speed: `int(sqrt(v_sn² + v_we²))` with the argument converted
    exactly (`ratToFloat`), the result read back exactly (`floatToRat`) and truncated -/
theorem gsSpeed_eq (a b : Rat) :
    gsSpeed a b =
      (let r := Float.sqrt (ratToFloat (b * b + a * a))
       if r.isNaN || r.isInf then .exc else pyInt1 (.num (floatToRat r))) := by
  have hq : ¬ (b * b + a * a < 0) := not_lt.mpr (add_nonneg (mul_self_nonneg b) (mul_self_nonneg a))
  unfold gsSpeed Gen.Ext.math_sqrt Gen.Ext.float1
  simp only [num?_num, hq, if_false]
  split <;> rfl

/-- the hypothesis under which no floating-point step of `airborne_velocity` raises: `math.sqrt` of a non-negative
    number and `math.degrees(math.atan2(·, ·))` are finite (true of IEEE doubles; `Float.sqrt`, `Float.atan2` are
    opaque to the kernel, so it is a hypothesis here) -/
def FloatFinite : Prop :=
  (∀ q : Rat, 0 ≤ q → Gen.Ext.math_sqrt (.num q) ≠ .exc) ∧
  (∀ a b : Rat, (Gen.Ext.math_atan2 (.num a) (.num b) >>= Gen.Ext.math_degrees) ≠ .exc)

theorem gsSpeed_ne_exc (hf : FloatFinite) (a b : Rat) : gsSpeed a b ≠ .exc := by
  have h1 := hf.1 (b * b + a * a) (add_nonneg (mul_self_nonneg b) (mul_self_nonneg a))
  unfold gsSpeed
  unfold Gen.Ext.math_sqrt at h1 ⊢
  simp only [num?_num] at h1 ⊢
  split
  · rename_i hlt; rw [if_pos hlt] at h1; exact absurd rfl h1
  · rename_i hlt
    rw [if_neg hlt] at h1
    rcases float1_num Float.sqrt (b * b + a * a) with hx | ⟨r, hr⟩
    · exact absurd hx h1
    · rw [hr, bind_val']; intro hc; cases hc

theorem gsTrack_ne_exc (hf : FloatFinite) (a b : Rat) : gsTrack a b ≠ .exc := by
  have h2 := hf.2 a b
  unfold gsTrack
  have ha : Gen.Ext.math_atan2 (.num a) (.num b) =
      .val (.num (floatToRat (Float.atan2 (ratToFloat a) (ratToFloat b)))) := rfl
  rw [ha, bind_val'] at h2 ⊢
  generalize floatToRat (Float.atan2 (ratToFloat a) (ratToFloat b)) = x at h2 ⊢
  unfold Gen.Ext.math_degrees at h2 ⊢
  rcases float1_num (fun r => r * (180.0 / Float.acos (-1.0))) x with hx | ⟨r, hr⟩
  · exact absurd hx h2
  · rw [hr, bind_val', pyGe_num, bind_val', pyTruth_bool']
    split <;> intro hc <;> cases hc

theorem velTuple_ne_none (src : Bool) (spd trk : Val) (v : Velocity) : velTuple src spd trk v ≠ .none := by
  intro hc; cases hc

/-- shape of the encoder: `None`, a tuple built on the model's velocity, or an exception out of the two float steps -/
theorem encVel_some (src : Bool) (v : Velocity) :
    (∃ spd trk, encVel src (some v) = .val (velTuple src spd trk v)) ∨
    (encVel src (some v) = .exc ∧ ∃ vwe vsn : Int, v.dir = .track vwe vsn ∧
      (gsSpeed vwe vsn = .exc ∨ gsTrack vwe vsn = .exc)) := by
  rcases hdir : v.dir with ⟨vwe, vsn⟩ | hd | _
  · have he : encVel src (some v) = (do
        let spd ← gsSpeed vwe vsn
        let trk ← gsTrack vwe vsn
        pure (velTuple src spd trk v)) := by
      simp only [encVel, hdir]
    rw [he]
    rcases gsSpeed_cases vwe vsn with hs | ⟨n, hs⟩
    · right; rw [hs]; exact ⟨rfl, vwe, vsn, rfl, Or.inl hs⟩
    · rcases gsTrack_cases vwe vsn with ht | ⟨r, ht⟩
      · right; rw [hs, ht]; exact ⟨rfl, vwe, vsn, rfl, Or.inr ht⟩
      · left; rw [hs, ht]; exact ⟨_, _, rfl⟩
  · left; exact ⟨Val.ofOptInt v.spd, .num hd, by simp only [encVel, hdir]⟩
  · left; exact ⟨Val.ofOptInt v.spd, .none, by simp only [encVel, hdir]⟩

theorem encVel_ne_rte (src : Bool) (o : Option Velocity) : encVel src o ≠ .rte := by
  rcases o with _ | v
  · intro hc; cases hc
  · rcases encVel_some src v with ⟨spd, trk, hv⟩ | ⟨he, _⟩
    · rw [hv]; intro hc; cases hc
    · rw [he]; intro hc; cases hc

theorem encVel_none_iff (src : Bool) (o : Option Velocity) : encVel src o = .val .none ↔ o = none := by
  constructor
  · intro hv
    rcases o with _ | v
    · rfl
    · rcases encVel_some src v with ⟨spd, trk, hv'⟩ | ⟨he, _⟩
      · rw [hv'] at hv; injection hv with hv; exact absurd hv (velTuple_ne_none _ _ _ _)
      · rw [he] at hv; cases hv
  · rintro rfl; rfl

theorem frame_bits (m : Msg) (hl : m.length = 28) : (hex2binM m).length = 112 := by
  rw [hex2binM_length, hl]

/-- the model on a 112-bit frame: RuntimeError or a value, by type code -/
theorem model_cases (m : Msg) (hl : m.length = 28) :
    (tcB (hex2binM m) ≠ some 19 ∧ airborneVelocity (hex2binM m) = .rte) ∨
    (tcB (hex2binM m) = some 19 ∧ ∃ o, airborneVelocity (hex2binM m) = .val o ∧
      ∀ v, o = some v → Tot.okType v.spdType) := by
  by_cases htc : tcB (hex2binM m) = some 19
  · right
    obtain ⟨r, hr, hgood⟩ := Tot.airborneVelocity_spdType (hex2binM m) (frame_bits m hl) htc
    exact ⟨htc, r, hr, hgood⟩
  · left; exact ⟨htc, C09.airborne_velocity_guard _ htc⟩

end Bds09

/-! ### 1. the guard and the `None` result -/

/-- RuntimeError exactly when the type code is not 19, which is exactly when the hand model raises it -/
theorem airborne_velocity_guard_tie (m : Msg) (h : IsHex m) (hl : m.length = 28) (src : Bool) :
    (Gen.bds09.airborne_velocity (.str m) (.bool src) = .rte ↔ tcB (hex2binM m) ≠ some 19) ∧
    (Gen.bds09.airborne_velocity (.str m) (.bool src) = .rte ↔ airborneVelocity (hex2binM m) = .rte) := by
  rw [airborne_velocity_float_tie m h hl src]
  rcases model_cases m hl with ⟨htc, hm⟩ | ⟨htc, o, hm, _⟩
  · rw [hm]; exact ⟨⟨fun _ => htc, fun _ => rfl⟩, ⟨fun _ => rfl, fun _ => rfl⟩⟩
  · rw [hm, bind_val']
    refine ⟨⟨fun hc => absurd hc (encVel_ne_rte src o), fun hc => absurd htc hc⟩,
      ⟨fun hc => absurd hc (encVel_ne_rte src o), fun hc => by cases hc⟩⟩

/-- the generated function returns `None` exactly when the hand model does -/
theorem airborne_velocity_none_tie (m : Msg) (h : IsHex m) (hl : m.length = 28) (src : Bool) :
    Gen.bds09.airborne_velocity (.str m) (.bool src) = .val .none ↔ airborneVelocity (hex2binM m) = .val none := by
  rw [airborne_velocity_float_tie m h hl src]
  rcases model_cases m hl with ⟨htc, hm⟩ | ⟨htc, o, hm, _⟩
  · rw [hm]; exact ⟨fun hc => (nomatch hc), fun hc => (nomatch hc)⟩
  · rw [hm, bind_val', encVel_none_iff]
    exact ⟨fun ho => by rw [ho], fun ho => by injection ho⟩

/-- ... and that is exactly: type code 19, subtype 1 or 2 (ME bits 6-8), and one of the two 10-bit velocity fields
    (ME bits 15-24, 26-35) zero -/
theorem airborne_velocity_none_iff_tie (m : Msg) (h : IsHex m) (hl : m.length = 28) (src : Bool) :
    Gen.bds09.airborne_velocity (.str m) (.bool src) = .val .none ↔
      (tcB (hex2binM m) = some 19 ∧
        (bin2int (slice 37 40 (hex2binM m)) = 1 ∨ bin2int (slice 37 40 (hex2binM m)) = 2) ∧
        (bin2int (slice 46 56 (hex2binM m)) = 0 ∨ bin2int (slice 57 67 (hex2binM m)) = 0)) := by
  rw [airborne_velocity_none_tie m h hl src]
  have hb := frame_bits m hl
  by_cases htc : tcB (hex2binM m) = some 19
  · rw [C09.airborne_velocity_spec _ hb htc]
    unfold C09.airborneSpec
    simp only [htc, true_and]
    constructor
    · intro hv
      injection hv with hv
      by_cases h12 : bin2int (slice 37 40 (hex2binM m)) = 1 ∨ bin2int (slice 37 40 (hex2binM m)) = 2
      · refine ⟨h12, ?_⟩
        by_contra h0
        simp only [h12, if_true, h0, if_false] at hv
        cases hv
      · simp only [h12, if_false] at hv
        cases hv
    · rintro ⟨h12, h0⟩
      simp only [h12, if_true, h0]
  · rw [C09.airborne_velocity_guard _ htc]
    exact ⟨fun hc => (nomatch hc), fun hc => absurd hc.1 htc⟩

/-! ### 2. shape of the result -/

/-- On a TC 19 frame the result is `None`, or a tuple `(spd, trk, vr, tag[, dir_type, vr_source])` whose third to sixth
    members are the model's and whose tag is "GS", "TAS" or "IAS" — or an exception, and then only because
    `math.sqrt` / `math.degrees(math.atan2(..))` gave a NaN or an infinity on the model's exact components.
    Unconditional. -/
theorem airborne_velocity_shape_exc_tie (m : Msg) (h : IsHex m) (hl : m.length = 28) (src : Bool)
    (htc : tcB (hex2binM m) = some 19) :
    Gen.bds09.airborne_velocity (.str m) (.bool src) = .val .none ∨
    (∃ v spd trk, airborneVelocity (hex2binM m) = .val (some v) ∧
      Gen.bds09.airborne_velocity (.str m) (.bool src) = .val (velTuple src spd trk v) ∧
      (v.spdType = "GS" ∨ v.spdType = "TAS" ∨ v.spdType = "IAS")) ∨
    (Gen.bds09.airborne_velocity (.str m) (.bool src) = .exc ∧
      ∃ v, ∃ vwe vsn : Int, airborneVelocity (hex2binM m) = .val (some v) ∧ v.dir = .track vwe vsn ∧
        (gsSpeed vwe vsn = .exc ∨ gsTrack vwe vsn = .exc)) := by
  rw [airborne_velocity_float_tie m h hl src]
  rcases model_cases m hl with ⟨hn, _⟩ | ⟨_, o, hm, hgood⟩
  · exact absurd htc hn
  · rw [hm, bind_val']
    rcases o with _ | v
    · left; rfl
    · rcases encVel_some src v with ⟨spd, trk, hv⟩ | ⟨he, vwe, vsn, hdir, hx⟩
      · right; left; exact ⟨v, spd, trk, rfl, hv, hgood v rfl⟩
      · right; right; exact ⟨he, v, vwe, vsn, rfl, hdir, hx⟩

/-- Under `FloatFinite` (the two float externals never give NaN / infinity: `math.sqrt` on non-negative numbers,
    `math.degrees ∘ math.atan2` everywhere) the result on a TC 19 frame is `None` or the tuple — never an exception. -/
theorem airborne_velocity_shape_tie (hf : FloatFinite) (m : Msg) (h : IsHex m) (hl : m.length = 28) (src : Bool)
    (htc : tcB (hex2binM m) = some 19) :
    Gen.bds09.airborne_velocity (.str m) (.bool src) = .val .none ∨
    (∃ v spd trk, airborneVelocity (hex2binM m) = .val (some v) ∧
      Gen.bds09.airborne_velocity (.str m) (.bool src) = .val (velTuple src spd trk v) ∧
      (v.spdType = "GS" ∨ v.spdType = "TAS" ∨ v.spdType = "IAS")) := by
  rcases airborne_velocity_shape_exc_tie m h hl src htc with h0 | h1 | ⟨_, v, vwe, vsn, _, _, hx⟩
  · exact Or.inl h0
  · exact Or.inr h1
  · rcases hx with hx | hx
    · exact absurd hx (gsSpeed_ne_exc hf _ _)
    · exact absurd hx (gsTrack_ne_exc hf _ _)

/-- the same with `source=False`, in the literal four-tuple form -/
theorem airborne_velocity_shape4_tie (hf : FloatFinite) (m : Msg) (h : IsHex m) (hl : m.length = 28)
    (htc : tcB (hex2binM m) = some 19) :
    Gen.bds09.airborne_velocity (.str m) (.bool false) = .val .none ∨
    ∃ spd trk vr tag, Gen.bds09.airborne_velocity (.str m) (.bool false) = .val (.tuple [spd, trk, vr, .str tag]) ∧
      (tag = ['G', 'S'] ∨ tag = ['T', 'A', 'S'] ∨ tag = ['I', 'A', 'S']) := by
  rcases airborne_velocity_shape_tie hf m h hl false htc with h0 | ⟨v, spd, trk, _, hv, hty⟩
  · exact Or.inl h0
  · refine Or.inr ⟨spd, trk, Val.ofOptInt v.vs, v.spdType.toList, hv, ?_⟩
    rcases hty with e | e | e <;> rw [e]
    · exact Or.inl rfl
    · exact Or.inr (Or.inl rfl)
    · exact Or.inr (Or.inr rfl)

/-! ### 3. vertical rate and the text tags -/

/-- every non-`None` value of the generated function carries the model's vertical rate as its third member -/
theorem airborne_velocity_vr_tie (m : Msg) (h : IsHex m) (hl : m.length = 28) (src : Bool) (t : Val)
    (hg : Gen.bds09.airborne_velocity (.str m) (.bool src) = .val t) (ht : t ≠ .none) :
    ∃ v, airborneVelocity (hex2binM m) = .val (some v) ∧ pyIdxN t 2 = .val (Val.ofOptInt v.vs) := by
  rw [airborne_velocity_float_tie m h hl src] at hg
  rcases model_cases m hl with ⟨_, hm⟩ | ⟨_, o, hm, _⟩
  · rw [hm] at hg; cases hg
  · rw [hm, bind_val'] at hg
    rcases o with _ | v
    · injection hg with hg; exact absurd hg.symm ht
    · rcases encVel_some src v with ⟨spd, trk, hv⟩ | ⟨he, _⟩
      · rw [hv] at hg; injection hg with hg
        refine ⟨v, hm, ?_⟩
        rw [← hg]
        cases src <;> rfl
      · rw [he] at hg; cases hg

/-- ... and the model's speed-type tag as its fourth; with `source=True` also the direction type and the
    vertical-rate source as fifth and sixth -/
theorem airborne_velocity_tag_tie (m : Msg) (h : IsHex m) (hl : m.length = 28) (src : Bool) (t : Val)
    (hg : Gen.bds09.airborne_velocity (.str m) (.bool src) = .val t) (ht : t ≠ .none) :
    ∃ v, airborneVelocity (hex2binM m) = .val (some v) ∧ pyIdxN t 3 = .val (.str v.spdType.toList) ∧
      (v.spdType = "GS" ∨ v.spdType = "TAS" ∨ v.spdType = "IAS") ∧
      (src = true → pyIdxN t 4 = .val (.str v.dirType.toList) ∧ pyIdxN t 5 = .val (.str v.vrSource.toList)) ∧
      (src = false → pyLen t = .val (.num 4)) := by
  rw [airborne_velocity_float_tie m h hl src] at hg
  rcases model_cases m hl with ⟨_, hm⟩ | ⟨_, o, hm, hgood⟩
  · rw [hm] at hg; cases hg
  · rw [hm, bind_val'] at hg
    rcases o with _ | v
    · injection hg with hg; exact absurd hg.symm ht
    · rcases encVel_some src v with ⟨spd, trk, hv⟩ | ⟨he, _⟩
      · rw [hv] at hg; injection hg with hg
        refine ⟨v, hm, ?_, hgood v rfl, ?_, ?_⟩
        · rw [← hg]; cases src <;> rfl
        · intro hs; rw [← hg, hs]; exact ⟨rfl, rfl⟩
        · intro hs; rw [← hg, hs]; rfl
      · rw [he] at hg; cases hg

/-! ### 4. subtypes 3-4 (airspeed and heading; in fact every subtype other than 1, 2): no floating point -/

namespace Bds09

/-- heading member of the tuple; `Dir.track` is the ground-speed case, which has no exact value (it never occurs for
    subtypes other than 1, 2 — see `airborne_velocity_airspeed_tie`, second part) -/
def dirVal : Dir → Val
  | .heading hd => .num hd
  | .none => .none
  | .track vwe vsn => .tuple [Val.ofInt vwe, Val.ofInt vsn]

/-- exact encoding of a model result without ground-speed members -/
def encExact (src : Bool) : Option Velocity → Val
  | none => .none
  | some v => velTuple src (Val.ofOptInt v.spd) (dirVal v.dir) v

end Bds09

/-- For every subtype other than 1 and 2 (ME bits 6-8; the source treats 0, 3, 4, 5, 6, 7 alike: airspeed and heading)
    the whole result of the generated function is the model's, exactly: RuntimeError off type code 19, otherwise the
    tuple `(spd | None, hdg | None, vr | None, "IAS"/"TAS"[, "MAGNETIC_NORTH", "GNSS"/"BARO"])`; the model's direction is
    then never a ground track. -/
theorem airborne_velocity_airspeed_tie (m : Msg) (h : IsHex m) (hl : m.length = 28) (src : Bool)
    (hst : bin2int (slice 37 40 (hex2binM m)) ≠ 1 ∧ bin2int (slice 37 40 (hex2binM m)) ≠ 2) :
    Gen.bds09.airborne_velocity (.str m) (.bool src) =
      (airborneVelocity (hex2binM m) >>= fun o => .val (encExact src o)) ∧
    (∀ v vwe vsn, airborneVelocity (hex2binM m) = .val (some v) → v.dir ≠ .track vwe vsn) := by
  have hb := frame_bits m hl
  rw [airborne_velocity_float_tie m h hl src]
  by_cases htc : tcB (hex2binM m) = some 19
  · rw [C09.airborne_velocity_spec _ hb htc]
    have h12 : ¬ (bin2int (slice 37 40 (hex2binM m)) = 1 ∨ bin2int (slice 37 40 (hex2binM m)) = 2) := by
      rintro (e | e)
      · exact hst.1 e
      · exact hst.2 e
    unfold C09.airborneSpec
    simp only [h12, if_false, bind_val']
    constructor
    · cases (hex2binM m)[45] <;> rfl
    · intro v vwe vsn hv
      injection hv with hv
      injection hv with hv
      rw [← hv]
      cases (hex2binM m)[45] <;> intro hc <;> cases hc
  · rw [C09.airborne_velocity_guard _ htc]
    exact ⟨rfl, fun v vwe vsn hc => (nomatch hc)⟩

/-- the same, written out on the bits of the frame (TC 19, subtype not 1 or 2): airspeed `(N−1)` kt, times 4 for
    subtype 4, `None` for N = 0; heading `N·360/1024` when the status bit is set; vertical rate `±(N−1)·64`;
    "TAS"/"IAS" by ME bit 25 -/
theorem airborne_velocity_airspeed_spec_tie (m : Msg) (h : IsHex m) (hl : m.length = 28) (src : Bool)
    (htc : tcB (hex2binM m) = some 19)
    (hst : bin2int (slice 37 40 (hex2binM m)) ≠ 1 ∧ bin2int (slice 37 40 (hex2binM m)) ≠ 2) :
    Gen.bds09.airborne_velocity (.str m) (.bool src) =
      .val (.tuple ([
        Val.ofOptInt (if bin2int (slice 57 67 (hex2binM m)) = 0 then none
          else some (((bin2int (slice 57 67 (hex2binM m)) : Int) - 1) *
            (if bin2int (slice 37 40 (hex2binM m)) = 4 then 4 else 1))),
        (if (hex2binM m).getD 45 false then .num ((bin2int (slice 46 56 (hex2binM m)) : Rat) / 1024 * 360) else .none),
        Val.ofOptInt (C09.vertRate ((hex2binM m).getD 68 false) (bin2int (slice 69 78 (hex2binM m)))),
        .str (if (hex2binM m).getD 56 false then ['T', 'A', 'S'] else ['I', 'A', 'S'])] ++
        if src then [.str ['M', 'A', 'G', 'N', 'E', 'T', 'I', 'C', '_', 'N', 'O', 'R', 'T', 'H'],
          .str (if (hex2binM m).getD 67 false then ['B', 'A', 'R', 'O'] else ['G', 'N', 'S', 'S'])] else [])) := by
  have hb := frame_bits m hl
  rw [(airborne_velocity_airspeed_tie m h hl src hst).1, C09.airborne_velocity_spec _ hb htc, bind_val']
  have h12 : ¬ (bin2int (slice 37 40 (hex2binM m)) = 1 ∨ bin2int (slice 37 40 (hex2binM m)) = 2) := by
    rintro (e | e)
    · exact hst.1 e
    · exact hst.2 e
  simp only [List.getD_eq_getElem?_getD,
    List.getElem?_eq_getElem (show 45 < (hex2binM m).length by omega),
    List.getElem?_eq_getElem (show 56 < (hex2binM m).length by omega),
    List.getElem?_eq_getElem (show 67 < (hex2binM m).length by omega),
    List.getElem?_eq_getElem (show 68 < (hex2binM m).length by omega), Option.getD_some]
  unfold C09.airborneSpec
  simp only [h12, if_false]
  cases (hex2binM m)[45] <;> cases (hex2binM m)[56] <;> cases (hex2binM m)[67] <;> cases src <;>
    simp [encExact, velTuple, dirVal]

/-! ### 5. subtypes 1-2 (ground speed): the arguments of the float externals are the model's exact components -/

/-- Whenever the model yields a ground track `Dir.track v_we v_sn`, the generated function is exactly
    `int(math.sqrt(v_sn² + v_we²))` and `math.degrees(math.atan2(v_we, v_sn))` (plus 360 when negative) evaluated on
    those same integers, followed by the model's remaining members; and the model's own speed is the exact integer
    square root of the same sum.  (What is NOT proved: that the double-precision `int(sqrt(·))` equals `Nat.sqrt` —
    `Float.sqrt` is opaque to the kernel.) -/
theorem airborne_velocity_gs_components_tie (m : Msg) (h : IsHex m) (hl : m.length = 28) (src : Bool)
    (v : Velocity) (vwe vsn : Int)
    (hm : airborneVelocity (hex2binM m) = .val (some v)) (hdir : v.dir = .track vwe vsn) :
    Gen.bds09.airborne_velocity (.str m) (.bool src) = (do
        let s ← Gen.Ext.math_sqrt (.num ((vsn * vsn + vwe * vwe : Int) : Rat))
        let spd ← pyInt1 s
        let a ← Gen.Ext.math_atan2 (.num (vwe : Rat)) (.num (vsn : Rat))
        let d ← Gen.Ext.math_degrees a
        let trk ← (do if pyTruth (← pyGe d (.num 0)) then pure d else pyAdd d (.num 360))
        pure (velTuple src spd trk v)) ∧
    v.spd = some ((Nat.sqrt (vsn * vsn + vwe * vwe).toNat : Nat) : Int) ∧
    v.spdType = "GS" ∧ v.dirType = "TRUE_NORTH" := by
  have hb := frame_bits m hl
  constructor
  · rw [airborne_velocity_float_tie m h hl src, hm, bind_val']
    simp only [encVel, hdir, gsSpeed, gsTrack, bind_assoc, Int.cast_add, Int.cast_mul]
  · by_cases htc : tcB (hex2binM m) = some 19
    swap
    · rw [C09.airborne_velocity_guard _ htc] at hm; cases hm
    rw [C09.airborne_velocity_spec _ hb htc] at hm
    injection hm with hm
    unfold C09.airborneSpec at hm
    simp only [] at hm
    split at hm
    · split at hm
      · cases hm
      · injection hm with hm
        rw [← hm] at hdir ⊢
        simp only [] at hdir ⊢
        injection hdir with e1 e2
        rw [← e1, ← e2, Int.add_comm]
        exact ⟨rfl, trivial, trivial⟩
    · injection hm with hm
      rw [← hm] at hdir
      simp only [] at hdir
      split at hdir <;> cases hdir

/-- the same on the bits of the frame: TC 19, subtype 1 or 2, both 10-bit velocity fields non-zero; the components are
    `±(N−1)` kt (times 4 for subtype 2), west and south negative -/
theorem airborne_velocity_gs_spec_tie (m : Msg) (h : IsHex m) (hl : m.length = 28) (src : Bool)
    (htc : tcB (hex2binM m) = some 19)
    (h12 : bin2int (slice 37 40 (hex2binM m)) = 1 ∨ bin2int (slice 37 40 (hex2binM m)) = 2)
    (h1 : bin2int (slice 46 56 (hex2binM m)) ≠ 0) (h2 : bin2int (slice 57 67 (hex2binM m)) ≠ 0) :
    let mult : Int := if bin2int (slice 37 40 (hex2binM m)) = 2 then 4 else 1
    let vwe : Int := C09.signedComp ((hex2binM m).getD 45 false) (bin2int (slice 46 56 (hex2binM m))) mult
    let vsn : Int := C09.signedComp ((hex2binM m).getD 56 false) (bin2int (slice 57 67 (hex2binM m))) mult
    Gen.bds09.airborne_velocity (.str m) (.bool src) = (do
        let s ← Gen.Ext.math_sqrt (.num ((vsn * vsn + vwe * vwe : Int) : Rat))
        let spd ← pyInt1 s
        let a ← Gen.Ext.math_atan2 (.num (vwe : Rat)) (.num (vsn : Rat))
        let d ← Gen.Ext.math_degrees a
        let trk ← (do if pyTruth (← pyGe d (.num 0)) then pure d else pyAdd d (.num 360))
        pure (.tuple ([spd, trk,
          Val.ofOptInt (C09.vertRate ((hex2binM m).getD 68 false) (bin2int (slice 69 78 (hex2binM m)))),
          .str ['G', 'S']] ++
          if src then [.str ['T', 'R', 'U', 'E', '_', 'N', 'O', 'R', 'T', 'H'],
            .str (if (hex2binM m).getD 67 false then ['B', 'A', 'R', 'O'] else ['G', 'N', 'S', 'S'])] else []))) := by
  have hb := frame_bits m hl
  intro mult vwe vsn
  have hm := C09.airborne_velocity_spec _ hb htc
  have h0 : ¬ (bin2int (slice 46 56 (hex2binM m)) = 0 ∨ bin2int (slice 57 67 (hex2binM m)) = 0) := by
    rintro (e | e)
    · exact h1 e
    · exact h2 e
  unfold C09.airborneSpec at hm
  simp only [h12, if_true, h0, if_false] at hm
  have hg := (airborne_velocity_gs_components_tie m h hl src _ _ _ hm rfl).1
  rw [hg]
  simp only [vwe, vsn, mult, List.getD_eq_getElem?_getD,
    List.getElem?_eq_getElem (show 45 < (hex2binM m).length by omega),
    List.getElem?_eq_getElem (show 56 < (hex2binM m).length by omega),
    List.getElem?_eq_getElem (show 67 < (hex2binM m).length by omega),
    List.getElem?_eq_getElem (show 68 < (hex2binM m).length by omega), Option.getD_some]
  cases (hex2binM m)[67] <;> cases src <;> simp [velTuple]

/-! ### the speed member, under an explicit hypothesis on `math.sqrt` -/

namespace Bds09

/-- `int(math.sqrt(b² + a²))` in double precision is the exact integer square root for all component pairs that can
    occur (|·| ≤ 4·1022).  True of IEEE doubles (checked by evaluation over all 2·1023² pairs); a hypothesis here
    because `Float.sqrt` is opaque to the kernel. -/
def SqrtExact : Prop :=
  ∀ a b : Int, -4088 ≤ a → a ≤ 4088 → -4088 ≤ b → b ≤ 4088 →
    gsSpeed a b = .val (.num (((Nat.sqrt (b * b + a * a).toNat : Nat) : Int) : Rat))

theorem signedComp_bound (s : Bool) (n : Nat) (st : Nat) (hn : n < 1024) :
    -4088 ≤ C09.signedComp s n (if st = 2 then 4 else 1) ∧ C09.signedComp s n (if st = 2 then 4 else 1) ≤ 4088 := by
  unfold C09.signedComp
  cases s <;> by_cases h2 : st = 2 <;> simp only [h2, if_true, if_false, Bool.false_eq_true] <;> omega

/-- a ground track of the model has components within ±4088 kt, and the model's speed is their exact integer norm -/
theorem track_bounds (m : Msg) (hl : m.length = 28) (v : Velocity) (vwe vsn : Int)
    (hm : airborneVelocity (hex2binM m) = .val (some v)) (hdir : v.dir = .track vwe vsn) :
    (-4088 ≤ vwe ∧ vwe ≤ 4088) ∧ (-4088 ≤ vsn ∧ vsn ≤ 4088) ∧
      v.spd = some ((Nat.sqrt (vsn * vsn + vwe * vwe).toNat : Nat) : Int) := by
  have hb := frame_bits m hl
  by_cases htc : tcB (hex2binM m) = some 19
  swap
  · rw [C09.airborne_velocity_guard _ htc] at hm; cases hm
  rw [C09.airborne_velocity_spec _ hb htc] at hm
  injection hm with hm
  unfold C09.airborneSpec at hm
  simp only [] at hm
  split at hm
  · split at hm
    · cases hm
    · injection hm with hm
      rw [← hm] at hdir ⊢
      simp only [] at hdir ⊢
      injection hdir with e1 e2
      rw [← e1, ← e2, Int.add_comm]
      exact ⟨signedComp_bound _ _ _ (Fields.bin2int_slice_lt _ 46 56),
        signedComp_bound _ _ _ (Fields.bin2int_slice_lt _ 57 67), rfl⟩
  · injection hm with hm
    rw [← hm] at hdir
    simp only [] at hdir
    split at hdir <;> cases hdir

end Bds09

/-- PARTIAL (hypothesis `SqrtExact` about the float external `math.sqrt`): every non-`None` value of the generated
    function carries the model's speed as its first member — `Nat.sqrt (v_sn² + v_we²)` for ground speed, the airspeed
    otherwise.  Missing for a full tie: `SqrtExact` itself (a fact about IEEE `sqrt`), and the track angle, which has
    no exact counterpart in the model (`Dir.track v_we v_sn` keeps the components). -/
theorem airborne_velocity_speed_tie_partial (hs : SqrtExact) (m : Msg) (h : IsHex m) (hl : m.length = 28)
    (src : Bool) (t : Val)
    (hg : Gen.bds09.airborne_velocity (.str m) (.bool src) = .val t) (ht : t ≠ .none) :
    ∃ v, airborneVelocity (hex2binM m) = .val (some v) ∧ pyIdxN t 0 = .val (Val.ofOptInt v.spd) := by
  rw [airborne_velocity_float_tie m h hl src] at hg
  rcases model_cases m hl with ⟨_, hm⟩ | ⟨_, o, hm, _⟩
  · rw [hm] at hg; cases hg
  · rw [hm, bind_val'] at hg
    rcases o with _ | v
    · injection hg with hg; exact absurd hg.symm ht
    · refine ⟨v, hm, ?_⟩
      rcases hdir : v.dir with ⟨vwe, vsn⟩ | hd | _
      · obtain ⟨⟨a1, a2⟩, ⟨b1, b2⟩, hspd⟩ := track_bounds m hl v vwe vsn hm hdir
        have he : encVel src (some v) = (do
            let spd ← gsSpeed vwe vsn
            let trk ← gsTrack vwe vsn
            pure (velTuple src spd trk v)) := by
          simp only [encVel, hdir]
        rw [he, hs vwe vsn a1 a2 b1 b2, bind_val'] at hg
        rcases gsTrack_cases vwe vsn with hx | ⟨r, hr⟩
        · rw [hx] at hg; cases hg
        · rw [hr, bind_val'] at hg
          injection hg with hg
          rw [← hg, hspd]
          cases src <;> rfl
      · have he : encVel src (some v) = .val (velTuple src (Val.ofOptInt v.spd) (.num hd) v) := by
          simp only [encVel, hdir]
        rw [he] at hg; injection hg with hg
        rw [← hg]; cases src <;> rfl
      · have he : encVel src (some v) = .val (velTuple src (Val.ofOptInt v.spd) .none v) := by
          simp only [encVel, hdir]
        rw [he] at hg; injection hg with hg
        rw [← hg]; cases src <;> rfl

/-! ### non-vacuity: the two airborne-velocity frames of tests/ satisfy the hypotheses -/

/-- subtype 1 (ground speed): components `v_we = −8`, `v_sn = −159`; the model's speed is `Nat.sqrt 25345 = 159` -/
example : (∀ c ∈ "8D485020994409940838175B284F".toList, (hexVal? c).isSome) ∧
    "8D485020994409940838175B284F".toList.length = 28 ∧
    tcB (hex2binM "8D485020994409940838175B284F".toList) = some 19 ∧
    bin2int (slice 37 40 (hex2binM "8D485020994409940838175B284F".toList)) = 1 ∧
    bin2int (slice 46 56 (hex2binM "8D485020994409940838175B284F".toList)) ≠ 0 ∧
    bin2int (slice 57 67 (hex2binM "8D485020994409940838175B284F".toList)) ≠ 0 ∧
    airborneVelocity (hex2binM "8D485020994409940838175B284F".toList) =
      .val (some ⟨some 159, Dir.track (-8) (-159), some (-832), "GS", "TRUE_NORTH", "GNSS"⟩) := by
  decide +kernel

/-- subtype 3 (airspeed): the generated function returns `(375, 243.984375, -2304, "TAS")` -/
example : Gen.bds09.airborne_velocity (.str "8DA05F219B06B6AF189400CBC33F".toList) (.bool false) =
    .val (.tuple [.num 375, .num ((15615 : Rat) / 64), .num (-2304), .str ['T', 'A', 'S']]) := by
  have hm : (∀ c ∈ "8DA05F219B06B6AF189400CBC33F".toList, (hexVal? c).isSome) ∧
      "8DA05F219B06B6AF189400CBC33F".toList.length = 28 ∧
      bin2int (slice 37 40 (hex2binM "8DA05F219B06B6AF189400CBC33F".toList)) = 3 ∧
      airborneVelocity (hex2binM "8DA05F219B06B6AF189400CBC33F".toList) =
        .val (some ⟨some 375, Dir.heading ((15615 : Rat) / 64), some (-2304), "TAS", "MAGNETIC_NORTH", "BARO"⟩) := by
    decide +kernel
  obtain ⟨h1, h2, h4, h5⟩ := hm
  rw [(airborne_velocity_airspeed_tie _ h1 h2 false (by rw [h4]; decide)).1, h5]
  rfl

end PyModeS.Tie
