/-
  Tie: generated `bds60.is60` = hand model `PyModeS.is60` (`Model/Commb.lean`) on every 28-digit hex frame,
  for the instance of the model's float-conversion parameter `iasOfMach` that the generated code computes:
  `aero.mach2cas(mach, alt * aero.ft) / aero.kts`, with `aero.mach2cas` evaluated in double precision by the
  external `Ext.aero_mach2cas` and the two unit constants exact rationals.
-/
import PyModeS.Tie.Basic
import PyModeS.Tie.Common
import PyModeS.Tie.Bds60
import PyModeS.Generated.Src.bds60
import Mathlib.Tactic.SplitIfs

-- symbolic execution of long generated `do` blocks: generous but finite budget (proof times are seconds)
set_option maxHeartbeats 1000000

set_option linter.unusedSimpArgs false
set_option linter.unusedTactic false
set_option linter.unreachableTactic false
set_option linter.style.nameCheck false
namespace PyModeS.Tie
open PyModeS PyModeS.Py PyModeS.CRC

/-- what the generated `is60` computes for `aero.mach2cas(mach, alt * aero.ft) / aero.kts`:
    `Ext.aero_mach2cas` (double precision) on the exact arguments, divided by the exact `aero.kts` -/
def extIas (mach : Rat) (alt : Int) : Rat :=
  floatToRat (PyModeS.Aero.mach2cas (ratToFloat mach) (ratToFloat ((alt : Rat) * ((381 : Rat) / 1250)))) /
    ((128611 : Rat) / 250000)

/-- `extIas` is the value of the generated expression `aero.mach2cas(mach, alt * aero.ft) / aero.kts` -/
theorem extIas_spec (mach : Rat) (alt : Int) :
    (do pyDiv (← Gen.Ext.aero_mach2cas (.num mach) (← pyMul (.num (alt : Rat)) Gen.aero.ft)) Gen.aero.kts) =
      .val (.num (extIas mach alt)) := by
  have hk : ((128611 : Rat) / 250000) ≠ 0 := by norm_num
  simp only [Gen.aero.ft, Gen.aero.kts, pyMul_num, bind_val', Gen.Ext.aero_mach2cas, num?_num, pyDiv_num _ _ hk, extIas]

/-- `x is not None and x > lim` on an optional number -/
theorem gateGt (o : Option Rat) (lim : Rat) :
    (pyIsNot (Val.ofOptRat o) Val.none >>= fun b =>
      if pyTruth b = true then pyGt (Val.ofOptRat o) (Val.num lim) else Res.val b) =
      .val (.bool (optGt o lim)) := by
  cases o <;> simp [Val.ofOptRat, optGt]

/-- `x is not None and abs(x) > lim` on an optional number -/
theorem gateAbsGt (o : Option Rat) (lim : Rat) :
    (pyIsNot (Val.ofOptRat o) Val.none >>= fun b =>
      if pyTruth b = true then (pyAbs (Val.ofOptRat o) >>= fun a => pyGt a (Val.num lim)) else Res.val b) =
      .val (.bool (optAbsGt o lim)) := by
  cases o <;> simp [Val.ofOptRat, optAbsGt, rabs]

/-- `abs(ias - ias_) > 20` → `False`, else `True` -/
theorem iasDiffers (x y : Rat) :
    (pySub (.num x) (.num y) >>= fun d => pyAbs d >>= fun a => pyGt a (.num 20) >>= fun c =>
      if pyTruth c = true then Res.val (Val.bool false) else Res.val (Val.bool true)) =
      .val (.bool (!decide (rabs (x - y) > 20))) := by
  simp only [pySub_num, pyAbs_num, pyGt_num, bind_val', pyTruth_bool, rabs, gt_iff_lt]
  generalize x - y = z
  by_cases hc : (20 : Rat) < (if z < 0 then -z else z) <;> simp [hc]

theorem is60_tie (m : Msg) (h : IsHex m) (hl : m.length = 28) :
    Gen.bds60.is60 (.str m) = (PyModeS.is60 extIas (hex2binM m) >>= fun b => .val (.bool b)) := by
  unfold Gen.bds60.is60 PyModeS.is60 PyModeS.is60Core PyModeS.is60AltCheck
  simp only [allzeros_str m h hl, allzerosB_hex m hl, ias60_tie m h hl, mach60_tie m h hl, vr60baro_tie m h hl,
    vr60ins_tie m h hl, df_str m h (by omega), altcode_tie m h (by omega)]
  simp only [data_str, Res.bind_val, hex2bin_data m h hl, dataR_hex m hl]
  rw [← df_eq]
  have halt : PyModeS.df m = 20 → PyModeS.altcode m = altitude13 (slice 19 32 (hex2binM m)) := by
    intro e
    simp [PyModeS.altcode, e]
  generalize altitude13 (slice 19 32 (hex2binM m)) = ra at halt ⊢
  generalize PyModeS.altcode m = rc at halt ⊢
  have hdf := pyEq_ofNat (PyModeS.df m) 20
  simp only [Nat.cast_ofNat] at hdf
  generalize PyModeS.df m = dfv at halt hdf ⊢
  generalize slice 32 88 (hex2binM m) = d
  have w1 := ws_lit d 1 2 12 (by decide) (by decide)
  have w2 := ws_lit d 13 14 23 (by decide) (by decide)
  have w3 := ws_lit d 24 25 34 (by decide) (by decide)
  have w4 := ws_lit d 35 36 45 (by decide) (by decide)
  have w5 := ws_lit d 46 47 56 (by decide) (by decide)
  simp only [Nat.cast_ofNat, Nat.cast_one] at w1 w2 w3 w4 w5
  simp only [w1, w2, w3, w4, w5, statusOk]
  by_cases hz : PyModeS.bin2int d = 0
  · simp [hz]
  simp only [hz, decide_false, pyTruth_bool, Bool.false_eq_true, if_false]
  res_bool (PyModeS.wrongstatus d 1 2 12)
  res_bool (PyModeS.wrongstatus d 13 14 23)
  res_bool (PyModeS.wrongstatus d 24 25 34)
  res_bool (PyModeS.wrongstatus d 35 36 45)
  res_bool (PyModeS.wrongstatus d 46 47 56)
  -- IAS
  generalize PyModeS.ias60 (hex2binM m) = ri
  rcases ri with (oi | _ | _)
  rotate_left
  · rfl
  · rfl
  simp only [bind_val', gateGt, pyTruth_bool]
  cases hc1 : optGt oi 500
  swap
  · simp
  simp only [Bool.false_eq_true, if_false]
  -- Mach
  generalize PyModeS.mach60 (hex2binM m) = rm
  rcases rm with (om | _ | _)
  rotate_left
  · rfl
  · rfl
  simp only [bind_val', gateGt, pyTruth_bool]
  cases hc2 : optGt om 1
  swap
  · simp
  simp only [Bool.false_eq_true, if_false]
  -- barometric vertical rate
  generalize PyModeS.vr60baro (hex2binM m) = rb
  rcases rb with (ob | _ | _)
  rotate_left
  · rfl
  · rfl
  simp only [bind_val', gateAbsGt, pyTruth_bool]
  cases hc3 : optAbsGt ob 6000
  swap
  · simp
  simp only [Bool.false_eq_true, if_false]
  -- inertial vertical rate
  generalize PyModeS.vr60ins (hex2binM m) = rv
  rcases rv with (ov | _ | _)
  rotate_left
  · rfl
  · rfl
  simp only [bind_val', gateAbsGt, pyTruth_bool]
  cases hc4 : optAbsGt ov 6000
  swap
  · simp
  simp only [Bool.false_eq_true, if_false, Bool.not_true]
  -- the check against the altitude of a DF20 reply
  clear hc1 hc2 hc3 hc4
  rcases om with _ | mach
  · simp [Val.ofOptRat]
  rcases oi with _ | ias
  · simp [Val.ofOptRat]
  simp only [Val.ofOptRat, pyIsNot_none_num, bind_val', pyTruth_bool, if_true, hdf, Bool.not_true,
    Bool.false_eq_true, if_false]
  by_cases hd : dfv = 20
  swap
  · simp [hd]
  rw [halt hd]
  simp only [hd, decide_true, if_true]
  rcases ra with ((_ | a) | _ | _)
  · simp [Val.ofOptInt]
  · have hk : ((128611 : Rat) / 250000) ≠ 0 := by norm_num
    have hext : ∀ x y : Rat, Gen.Ext.aero_mach2cas (.num x) (.num y) =
        .val (.num (floatToRat (PyModeS.Aero.mach2cas (ratToFloat x) (ratToFloat y)))) := fun _ _ => rfl
    simp only [Val.ofOptInt, bind_val', pyIsNot_none_num, pyTruth_bool, if_true, Gen.aero.ft, Gen.aero.kts,
      pyMul_num, hext, pyDiv_num _ _ hk, iasDiffers, extIas]
    rfl
  · rfl
  · rfl

end PyModeS.Tie
