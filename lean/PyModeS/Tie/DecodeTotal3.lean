/-
  TOTALITY of the generated `Gen.decode.Decode_process_raw`, third part: the NUC / NIC block (`nuc_p`, `nic_v1`,
  `nic_v2`) with the presence-aware reads of the NIC supplements, and the ADS-B loop body for type codes 20–22.

  Covered ADS-B type codes after this file (DF17/18, 28 hex digits): 0, 1–4, 19, 20–22, 23–31 (`Frame3`); TC 19 under
  `PyModeS.Tie.Bds09.FloatFinite`.  NOT covered: type codes 5–18 (the position block).  For those the file only provides
  the ingredients: `WF3` (with `dictFind_setPair_str_num`, `posOK_setPair`), `shape_pos_ref_tie`, `shape_position_tie`,
  `shape_nic_b_tie`, `shape_nuc_nic_tie` (which already includes 5–18), `tot_runK`, `tot_tryCatch`.
-/
import PyModeS.Tie.DecodeTotal2
set_option maxHeartbeats 1000000
set_option linter.unusedVariables false
set_option linter.unusedSimpArgs false
open PyModeS PyModeS.Py PyModeS.CRC
namespace PyModeS.Tie.DecodeDirect

/-! ### result shapes: `nuc_p`, `nic_v1`, `nic_v2`, `nic_b` -/

theorem posTC_of {n : Nat} (h : (5 ≤ n ∧ n ≤ 8) ∨ (9 ≤ n ∧ n ≤ 18) ∨ (20 ≤ n ∧ n ≤ 22)) : PyModeS.C14.PosTC n := by
  unfold PyModeS.C14.PosTC; omega

/-- type codes 5–8, 9–18, 20–22: `nuc_p` a 4-tuple, `nic_v1` (on a bit) a 3-tuple, `nic_v2` (on naturals) a pair -/
theorem shape_nuc_nic_tie (m : Msg) (hm : IsHex m) (hl : m.length = 28) (n : Nat)
    (htc : PyModeS.typecode m = some n) (hn : (5 ≤ n ∧ n ≤ 8) ∨ (9 ≤ n ∧ n ≤ 18) ∨ (20 ≤ n ∧ n ≤ 22)) :
    (∃ a b c d, Gen.adsb.nuc_p (.str m) = .val (.tuple [a, b, c, d])) ∧
    (∀ k : Nat, k ≤ 1 → ∃ a b c, Gen.adsb.nic_v1 (.str m) (Val.ofNat k) = .val (.tuple [a, b, c])) ∧
    (∀ x y : Nat, ∃ a b, Gen.adsb.nic_v2 (.str m) (Val.ofNat x) (Val.ofNat y) = .val (.tuple [a, b])) := by
  obtain ⟨a1, a2, a3, a4, a5, a6, a7, a8, a9, a10, a11, a12, a13, a14, a15, a16, a17, a18, a19, a20, a21, a22, a23,
    a24, a25, a26, a27, a28, a29, a30, a31, a32, a33, a34, a35, a36, a37⟩ := PyModeS.C14Gen.no_exc_adsb_tie m hm hl
  obtain ⟨g1, g2, g3, g4, g5, g6, g7, g8, g9, g10, g11, g12, g13, g14, g15, g16, g17, -⟩ :=
    PyModeS.C14Gen.guard_iff_tie m hm hl
  have hpos := hasTC_of htc (posTC_of hn)
  refine ⟨?_, fun k hk => ?_, fun x y => ?_⟩
  · obtain ⟨p, hp⟩ := shape_of_tie (PyModeS.Tie.nuc_p_tie m hm (by omega)) a27 (fun hr => g13.1 hr hpos)
    exact ⟨_, _, _, _, hp⟩
  · obtain ⟨p, hp⟩ := shape_of_tie (PyModeS.Tie.nic_v1_tie m hm (by omega) k) (a29 k hk)
      (fun hr => ((g14 k hk).1 hr) hpos)
    exact ⟨_, _, _, hp⟩
  · obtain ⟨p, hp⟩ := shape_of_tie (PyModeS.Tie.nic_v2_tie m hm (by omega) x y) (a30 x y)
      (fun hr => ((g15 x y).1 hr) hpos)
    cases p with
    | none => exact ⟨_, _, hp⟩
    | some p => exact ⟨_, _, hp⟩

/-- type codes 9–18: `nic_b` a natural number -/
theorem shape_nic_b_tie (m : Msg) (hm : IsHex m) (hl : m.length = 28) (n : Nat)
    (htc : PyModeS.typecode m = some n) (hn : 9 ≤ n ∧ n ≤ 18) :
    ∃ k : Nat, Gen.adsb.nic_b (.str m) = .val (Val.ofNat k) := by
  obtain ⟨a1, a2, a3, a4, a5, a6, a7, a8, a9, a10, a11, a12, a13, a14, a15, a16, a17, a18, a19, a20, a21, a22, a23,
    a24, a25, a26, a27, a28, a29, a30, a31, a32, a33, a34, a35, a36, a37⟩ := PyModeS.C14Gen.no_exc_adsb_tie m hm hl
  obtain ⟨g1, g2, g3, g4, g5, g6, g7, g8, g9, g10, g11, g12, -⟩ := PyModeS.C14Gen.guard_iff_tie m hm hl
  obtain ⟨p, hp⟩ := shape_of_tie (PyModeS.Tie.nic_b_tie m hm (by omega)) a33 (fun hr => g12.1 hr (hasTC_of htc hn))
  exact ⟨p, hp⟩


/-! ### presence-aware reads of the NIC supplements -/

def P2s (d : List (Val × Val)) : Prop := P2 d ∧ ∃ n, n ≤ 1 ∧ dictFind d nicsKey = some (Val.ofNat n)
def P2ab (d : List (Val × Val)) : Prop :=
  P2 d ∧ (∃ x, dictFind d nicaKey = some (Val.ofNat x)) ∧ (∃ y, dictFind d nicbcKey = some (Val.ofNat y))

theorem read_entry {β} {a l0 d : List (Val × Val)} {ic : Val} (hic : IsKey ic) (K : Val → Res β) :
    (pyGetAttr (mk a (setPair ic (.dict d) l0)) "acs" >>= fun x => Py.pyIdx x ic >>= K) = K (.dict d) := by
  rw [get_acs, bind_val']
  simp only [Py.pyIdx, dictFind_setPair_self (beq_key_self hic), bind_val']

theorem pyIn_keys (k : List Char) (d : List (Val × Val)) :
    (pyKeys (.dict d) >>= fun ks => pyIn (.str k) ks) = .val (.bool (hasKey d (.str k))) := by
  rw [hasKey_eq_any]; rfl

theorem pyIn_keys' {β} (k : List Char) (d : List (Val × Val)) (K : Val → Res β) :
    (pyKeys (.dict d) >>= fun ks => pyIn (.str k) ks >>= K) = K (.bool (hasKey d (.str k))) := by
  rw [← bind_assoc, pyIn_keys, bind_val']

/-- `self.acs[ic]["ver"] == 1 and "nic_s" in self.acs[ic].keys()`: if true, `nic_s` is there (and is a bit) -/
theorem tot_cond_nics {a l0 : List (Val × Val)} {ic self : Val} (hic : IsKey ic) (hS : St a l0 ic P2 self) :
    Tot (do
        let b81 ← (do pyEq (← Py.pyIdx (← Py.pyIdx (← pyGetAttr self "acs") ic) (Val.str ['v', 'e', 'r'])) (Val.num 1))
        if pyTruth b81 then
          (do pyIn (Val.str ['n', 'i', 'c', '_', 's']) (← pyKeys (← Py.pyIdx (← pyGetAttr self "acs") ic)))
        else pure b81)
      (fun b => pyTruth b = true → St a l0 ic P2s self) := by
  obtain ⟨d, rfl, hd⟩ := hS
  obtain ⟨v, hv⟩ := hd.2.1
  simp only [bind_assoc, read_entry hic]
  simp only [Py.pyIdx, hv, bind_val', pyEq]
  split
  · rw [pyIn_keys]
    refine ⟨_, rfl, fun h => ⟨d, rfl, hd, ?_⟩⟩
    obtain ⟨x, hx⟩ := find_of_hasKey (l := d) (k := nicsKey) h
    obtain ⟨n, hn, rfl⟩ := hd.2.2.1 x hx
    exact ⟨n, hn, hx⟩
  · rename_i hf
    exact ⟨_, rfl, fun h => absurd h hf⟩

/-- `ver == 2 and "nic_a" in keys and "nic_bc" in keys`: if true, both are there (naturals) -/
theorem tot_cond_nicab {a l0 : List (Val × Val)} {ic self : Val} (hic : IsKey ic) (hS : St a l0 ic P2 self) :
    Tot (do
        let b92 ← (do pyEq (← Py.pyIdx (← Py.pyIdx (← pyGetAttr self "acs") ic) (Val.str ['v', 'e', 'r'])) (Val.num 2))
        if pyTruth b92 then
          (do
            let b93 ← (do pyIn (Val.str ['n', 'i', 'c', '_', 'a']) (← pyKeys (← Py.pyIdx (← pyGetAttr self "acs") ic)))
            if pyTruth b93 then
              (do pyIn (Val.str ['n', 'i', 'c', '_', 'b', 'c']) (← pyKeys (← Py.pyIdx (← pyGetAttr self "acs") ic)))
            else pure b93)
        else pure b92)
      (fun b => pyTruth b = true → St a l0 ic P2ab self) := by
  obtain ⟨d, rfl, hd⟩ := hS
  obtain ⟨v, hv⟩ := hd.2.1
  simp only [bind_assoc, read_entry hic]
  simp only [Py.pyIdx, hv, bind_val', pyEq]
  split
  · simp only [pyIn_keys', pyIn_keys]
    refine Tot.ite (fun hc => ?_) (fun hc => ?_)
    · have ha : hasKey d nicaKey = true := hc
      refine ⟨_, rfl, fun h => ⟨d, rfl, hd, ?_, ?_⟩⟩
      · obtain ⟨x, hx⟩ := find_of_hasKey (l := d) (k := nicaKey) ha
        obtain ⟨n, rfl⟩ := hd.2.2.2.1 x hx
        exact ⟨n, hx⟩
      · obtain ⟨x, hx⟩ := find_of_hasKey (l := d) (k := nicbcKey) h
        obtain ⟨n, rfl⟩ := hd.2.2.2.2 x hx
        exact ⟨n, hx⟩
    · exact ⟨_, rfl, fun h => absurd h hc⟩
  · rename_i hf
    exact ⟨_, rfl, fun h => absurd h hf⟩

theorem tot_idx_nics {β} {d : List (Val × Val)} {K : Val → Res β} {Q : β → Prop} (hd : P2s d)
    (hK : ∀ n : Nat, n ≤ 1 → Tot (K (Val.ofNat n)) Q) : Tot (Py.pyIdx (.dict d) nicsKey >>= K) Q := by
  obtain ⟨n, hn, hf⟩ := hd.2
  simp only [Py.pyIdx, hf, bind_val']
  exact hK n hn

theorem tot_idx_nica {β} {d : List (Val × Val)} {K : Val → Res β} {Q : β → Prop} (hd : P2ab d)
    (hK : ∀ n : Nat, Tot (K (Val.ofNat n)) Q) : Tot (Py.pyIdx (.dict d) nicaKey >>= K) Q := by
  obtain ⟨n, hf⟩ := hd.2.1
  simp only [Py.pyIdx, hf, bind_val']
  exact hK n

theorem tot_idx_nicbc {β} {d : List (Val × Val)} {K : Val → Res β} {Q : β → Prop} (hd : P2ab d)
    (hK : ∀ n : Nat, Tot (K (Val.ofNat n)) Q) : Tot (Py.pyIdx (.dict d) nicbcKey >>= K) Q := by
  obtain ⟨n, hf⟩ := hd.2.2
  simp only [Py.pyIdx, hf, bind_val']
  exact hK n

theorem tot_shape4 {β} {x : Res Val} {K : Val → Res β} {Q : β → Prop}
    (h : ∃ a b c d, x = .val (.tuple [a, b, c, d])) (hK : ∀ a b c d, Tot (K (.tuple [a, b, c, d])) Q) :
    Tot (x >>= K) Q := by
  obtain ⟨a, b, c, d, rfl⟩ := h
  exact hK a b c d

theorem tot_shape2 {β} {x : Res Val} {K : Val → Res β} {Q : β → Prop}
    (h : ∃ a b, x = .val (.tuple [a, b])) (hK : ∀ a b, Tot (K (.tuple [a, b])) Q) : Tot (x >>= K) Q := by
  obtain ⟨a, b, rfl⟩ := h
  exact hK a b

/- one step of the walk, with the NUC / NIC block: `hnucp`, `hnicv1`, `hnicv2` are looked up by name -/
set_option hygiene false in
macro "tot_step3" : tactic => `(tactic| first
  | tot_zeta
  | (tguard_bind_head Bind.bind
     first
     | (refine Tot.bind (tot_cond_nics (by assumption) (by assumption)) (fun b hb => ?_))
     | (refine Tot.bind (tot_cond_nicab (by assumption) (by assumption)) (fun b hb => ?_)))
  | (tguard_head ite
     refine Tot.ite (fun hc => ?_) (fun hc => ?_) <;>
       try (first | exact absurd hc Bool.false_ne_true | exact absurd rfl hc | (have hSs := hb hc)))
  | (tguard_bind_head Py.pyIdx
     first
     | (refine tot_idx_nics (by assumption) (fun _ hbit => ?_))
     | (refine tot_idx_nica (by assumption) (fun _ => ?_))
     | (refine tot_idx_nicbc (by assumption) (fun _ => ?_)))
  | (tguard_bind_head Gen.adsb.nuc_p; refine tot_shape4 hnucp (fun _ _ _ _ => ?_))
  | (tguard_bind_head Gen.adsb.nic_v1
     refine tot_shape3 (hnicv1 _ ?hk) (fun _ _ _ => ?_)
     case hk => assumption)
  | (tguard_bind_head Gen.adsb.nic_v2; refine tot_shape2 (hnicv2 _ _) (fun _ _ => ?_))
  | tot_step2)

/- the ADS-B loop body once every type-code test has been decided (`c14 … e31` in the context, with concrete truth
   values): key creation, the four stamps, then whatever blocks the tests leave, walked with `tot_step3` -/
set_option hygiene false in
macro "adsb_class3" : tactic => `(tactic| (
  have h0 : pyIdxN (.tuple [Val.num q, Val.str m]) 0 = .val (.num q) := rfl
  have h1 : pyIdxN (.tuple [Val.num q, Val.str m]) 1 = .val (.str m) := rfl
  refine Tot.of_val ⟨_, rfl⟩ (fun _ => ?_)
  rw [h0, bind_val', h1, bind_val', icao_tie m hm (by omega), bind_val', htcv, bind_val']
  simp -zeta only [c14, c58, c518, c918, c2022, e19, e29, e31, bind_val', pyTruth_bool, Bool.false_eq_true, if_false,
    if_true]
  rw [hs]
  have hic : IsKey (Val.ofOptStr (PyModeS.icao m)) := isKey_icaoKey m
  generalize Val.ofOptStr (PyModeS.icao m) = ic at hic ⊢
  refine Tot.bind (R := fun x => x = .dict l0) ⟨_, get_acs _ _, rfl⟩ (fun x hx => ?_)
  subst hx
  rw [pyNotIn_dict, bind_val', pyTruth_bool]
  by_cases hk : hasKey l0 ic = true
  · rw [hk, Bool.not_true]
    obtain ⟨e, hf⟩ := find_of_hasKey hk
    obtain ⟨kv, hmem, hkv⟩ := mem_of_find hf
    obtain ⟨d0, hd0, hp2⟩ := hwf.2 _ hmem
    rw [hkv] at hd0
    subst hd0
    have hS0 : St a l0 ic Ext (mk a l0) := ⟨d0, by rw [setPair_of_find hf], hp2.2⟩
    refine Tot.mono (Q := fun r => ∃ s', r = ForInStep.yield s' ∧ St a l0 ic P2 s'.1 ∧ IsTup (obA s')) ?_ ?_
    swap
    · rintro r ⟨s', rfl, ⟨d, hd, hnd⟩, hobs⟩
      exact ⟨s', rfl, _, hd, wf2_setPair_present hwf hk (entOK2_of_p2 hnd), hobs⟩
    refine Tot.ite (fun h => absurd h (by decide)) (fun _ => ?_)
    tot_beta
    adsb_prefix2
    repeat' tot_step3
  · have hk' : hasKey l0 ic = false := by simpa using hk
    rw [hk', Bool.not_false]
    refine Tot.mono (Q := fun r => ∃ s', r = ForInStep.yield s' ∧ St a l0 ic P2 s'.1 ∧ IsTup (obA s')) ?_ ?_
    swap
    · rintro r ⟨s', rfl, ⟨d, hd, hnd⟩, hobs⟩
      exact ⟨s', rfl, _, hd, wf2_setPair_new hwf hic hk' (entOK2_of_p2 hnd), hobs⟩
    refine Tot.ite (fun _ => ?_) (fun h => absurd rfl h)
    rw [get_acs, bind_val']
    simp only [pySetItem, bind_val', set_acs]
    have hS0 := St_d3 a l0 ic
    adsb_prefix2
    repeat' tot_step3))


set_option maxRecDepth 100000 in
/-- type codes 20–22 (airborne position, GNSS height — no position decoding in `process_raw`): the NUC / NIC block -/
theorem adsbBody_total3_tc2022 (a l0 : List (Val × Val)) (q : Rat) (m : Msg) (hm : IsHex m) (hl : m.length = 28)
    (n : Nat) (htc : PyModeS.typecode m = some n) (hn : 20 ≤ n ∧ n ≤ 22)
    (s : Val × Val × Val × Val × Val × Val × Val × Val × Val × Val × Val × Val × Val × Val × Val × Val × Val × Val)
    (hs : s.1 = mk a l0) (hwf : WF2 l0) (hob : IsTup (obA s)) :
    Tot (adsbBody (.tuple [.num q, .str m]) s)
      (fun r => ∃ s', r = .yield s' ∧ ∃ l', s'.1 = mk a l' ∧ WF2 l' ∧ IsTup (obA s')) := by
  have ht : Tests n false false false false true false false false := by
    constructor <;> (simp; omega)
  have hsil : True := trivial
  obtain ⟨hnucp, hnicv1, hnicv2⟩ := shape_nuc_nic_tie m hm hl n htc (Or.inr (Or.inr hn))
  unfold adsbBody
  adsb_tests2
  adsb_class3


/-- ADS-B frames covered here: 28 hex digits, DF 17/18, type code in {0, 1–4, 19, 20–22, 23–31}: every type code except
    5–18 (the position block) -/
def Frame3 (m : Msg) : Prop :=
  IsHex m ∧ m.length = 28 ∧ ∃ n, PyModeS.typecode m = some n ∧
    (QuietTC n ∨ (1 ≤ n ∧ n ≤ 4) ∨ n = 19 ∨ n = 29 ∨ n = 31 ∨ (20 ≤ n ∧ n ≤ 22))

/-- **the ADS-B loop is total under `WF2` and keeps it**, for `Frame3` frames, under `FloatFinite` -/
theorem adsbLoop_total3_tie (hf : PyModeS.Tie.Bds09.FloatFinite) (a : List (Val × Val)) (pairs : List (Rat × Msg))
    (hq : ∀ p ∈ pairs, Frame3 p.2) (l0 : List (Val × Val))
    (s : Val × Val × Val × Val × Val × Val × Val × Val × Val × Val × Val × Val × Val × Val × Val × Val × Val × Val)
    (hs : s.1 = mk a l0) (hwf : WF2 l0) (hob : IsTup (obA s)) :
    Tot (forIn (pairs.map encMsg) s adsbBody) (fun s' => ∃ l', s'.1 = mk a l' ∧ WF2 l' ∧ IsTup (obA s')) := by
  refine Tot.forIn (fun s' => ∃ l', s'.1 = mk a l' ∧ WF2 l' ∧ IsTup (obA s')) adsbBody _ ?_ s ⟨l0, hs, hwf, hob⟩
  intro it hit s1 ⟨l1, hs1, hwf1, hob1⟩
  obtain ⟨p, hp, rfl⟩ := List.mem_map.1 hit
  obtain ⟨h1, h2, n, h3, h4 | h4 | h4 | h4 | h4 | h4⟩ := hq p hp
  · exact adsbBody_total2_quiet a l1 p.1 p.2 h1 h2 n h3 h4 s1 hs1 hwf1 hob1
  · exact adsbBody_total2_ident a l1 p.1 p.2 h1 h2 n h3 h4 s1 hs1 hwf1 hob1
  · exact adsbBody_total2_tc19 hf a l1 p.1 p.2 h1 h2 n h3 h4 s1 hs1 hwf1 hob1
  · exact adsbBody_total2_tc29 a l1 p.1 p.2 h1 h2 n h3 h4 s1 hs1 hwf1 hob1
  · exact adsbBody_total2_tc31 a l1 p.1 p.2 h1 h2 n h3 h4 s1 hs1 hwf1 hob1
  · exact adsbBody_total3_tc2022 a l1 p.1 p.2 h1 h2 n h3 h4 s1 hs1 hwf1 hob1

/-- **totality of `Decode.process_raw` (generated)** for ADS-B frames of type code 0, 1–4, 19, 20–31 (`Frame3`), any
    28-digit hex Comm-B frames, numeric time stamps and `tnow`, `dumpto = None`, under `FloatFinite`: the call returns
    `(self', None)` and `self'` satisfies `RecvOK2` again -/
theorem process_raw_total3_tie (hf : PyModeS.Tie.Bds09.FloatFinite) (self : Val) (adsb commb : List (Rat × Msg))
    (t : Rat) (hself : RecvOK2 self)
    (hadsb : ∀ p ∈ adsb, Frame3 p.2) (hcommb : ∀ p ∈ commb, IsHex p.2 ∧ p.2.length = 28) :
    ∃ self', Gen.decode.Decode_process_raw self (tsOf adsb) (msgsOf adsb) (tsOf commb) (msgsOf commb) (.num t) =
      .val (.tuple [self', .none]) ∧ RecvOK2 self' := by
  obtain ⟨attrs, acs, timeout, rfl, hacs, hwf, hto, hdump⟩ := hself
  rw [process_raw_decomp]
  have hpyIs : pyIs (.num t) .none = .val (.bool false) := rfl
  rw [hpyIs, bind_val', pyTruth_bool, if_neg (by decide)]
  generalize ha' : setPair (attrKey "t") (.num t) attrs = a'
  have hacs' : dictFind a' (attrKey "acs") = some (.dict acs) := by
    rw [← ha', dictFind_setPair_ne (isKey_attr "t") (isKey_attr "acs") (attrKey_ne (by decide)), hacs]
  have ht' : dictFind a' (attrKey "t") = some (.num t) := by
    rw [← ha', dictFind_setPair_self (beq_key_self (isKey_attr "t"))]
  have hto' : dictFind a' (attrKey "cache_timeout") = some (.num timeout) := by
    rw [← ha', dictFind_setPair_ne (isKey_attr "t") (isKey_attr "cache_timeout") (attrKey_ne (by decide)), hto]
  have hdump' : dictFind a' (attrKey "dumpto") = some .none := by
    rw [← ha', dictFind_setPair_ne (isKey_attr "t") (isKey_attr "dumpto") (attrKey_ne (by decide)), hdump]
  have hset : pySetAttr (.dict attrs) "t" (.num t) = .val (mk a' acs) := by
    rw [← mk_of_find hacs', ← ha']; rfl
  have key : Tot (phases (.dict attrs) (tsOf adsb) (msgsOf adsb) (tsOf commb) (msgsOf commb) (.num t))
      (fun r => ∃ self', r = .tuple [self', .none] ∧ RecvOK2 self') := by
    unfold phases
    have hit : ∀ l, pyIter (.tuple l) = .val l := fun _ => rfl
    rw [hset, bind_val', pyZip_batch, bind_val', hit, bind_val']
    refine Tot.bind (adsbLoop_total3_tie hf a' adsb hadsb acs _ rfl hwf ⟨[], rfl⟩) ?_
    rintro s1 ⟨l1, hs1, hwf1, hob1⟩
    rw [pyZip_batch, bind_val', hit, bind_val']
    refine Tot.bind (commbLoop_total2_tie a' commb hcommb l1 _ hs1 hwf1 hob1) ?_
    rintro s2 ⟨l2, hs2, hwf2, _⟩
    rw [hs2, get_acs, bind_val']
    have hkeys : pyKeys (.dict l2) = .val (.tuple (keysOf l2)) := rfl
    have hlist : ∀ l, pyList (.tuple l) = .val (.tuple l) := fun _ => rfl
    rw [hkeys, bind_val', hlist, bind_val', hit, bind_val']
    obtain ⟨⟨ic', hev⟩, _⟩ := evict_loop_total_tie a' l2 t timeout s2.2.2.2.1 ht' hto' (wf_of_wf2 hwf2)
    rw [hev, bind_val']
    have hd : pyGetAttr (mk a' (evict t timeout l2)) "dumpto" = .val .none := by
      rw [get_dumpto]; simp only [pyGetAttr, hdump']
    simp only []
    rw [hd, bind_val']
    have hnn : pyIsNot Val.none Val.none = .val (.bool false) := rfl
    rw [hnn, bind_val', pyTruth_bool, if_neg (by decide)]
    refine Tot.pure ⟨_, rfl, _, evict t timeout l2, timeout, rfl, ?_, wf2_evict hwf2 t timeout, ?_, ?_⟩
    · exact dictFind_setPair_self (beq_key_self (isKey_attr "acs")) _ _
    · rw [dictFind_setPair_ne (isKey_attr "acs") (isKey_attr "cache_timeout") (attrKey_ne (by decide)), hto']
    · rw [dictFind_setPair_ne (isKey_attr "acs") (isKey_attr "dumpto") (attrKey_ne (by decide)), hdump']
  obtain ⟨r, hr, self', rfl, hok⟩ := key
  exact ⟨self', hr, hok⟩

theorem history_total3_tie (hf : PyModeS.Tie.Bds09.FloatFinite) (self : Val) (calls : List Call) (hself : RecvOK2 self)
    (hcalls : ∀ c ∈ calls, (∀ p ∈ c.1, Frame3 p.2) ∧ (∀ p ∈ c.2.1, IsHex p.2 ∧ p.2.length = 28)) :
    ∃ self', runHistory self calls = .val self' ∧ RecvOK2 self' := by
  induction calls generalizing self with
  | nil => exact ⟨self, rfl, hself⟩
  | cons c cs ih =>
    obtain ⟨self1, h1, hok1⟩ := process_raw_total3_tie hf self c.1 c.2.1 c.2.2 hself (hcalls c (by simp)).1
      (hcalls c (by simp)).2
    obtain ⟨self', h', hok'⟩ := ih self1 hok1 (fun c' hc' => hcalls c' (List.mem_cons_of_mem _ hc'))
    refine ⟨self', ?_, hok'⟩
    unfold runHistory
    rw [h1, bind_val']
    have : pyIdxN (.tuple [self1, Val.none]) 0 = .val self1 := rfl
    rw [this, bind_val', h']

/-- **no call of a history ever raises**, from the freshly constructed `Decode()`: ADS-B frames of type code 0, 1–4,
    19, 20–31, any 28-digit hex Comm-B frames, under `FloatFinite` -/
theorem history_total3_fresh_tie (hf : PyModeS.Tie.Bds09.FloatFinite) (calls : List Call)
    (hcalls : ∀ c ∈ calls, (∀ p ∈ c.1, Frame3 p.2) ∧ (∀ p ∈ c.2.1, IsHex p.2 ∧ p.2.length = 28)) :
    ∃ self', runHistory freshDecode calls = .val self' ∧ RecvOK2 self' :=
  history_total3_tie hf freshDecode calls recvOK2_fresh hcalls



theorem adsbBody_total3_tc2022_tie : type_of% @adsbBody_total3_tc2022 := @adsbBody_total3_tc2022
theorem tot_cond_nics_tie : type_of% @tot_cond_nics := @tot_cond_nics
theorem tot_cond_nicab_tie : type_of% @tot_cond_nicab := @tot_cond_nicab


/-! ### towards type codes 5–18: the invariant with the position fields, shapes of the position decoders, `try / except`

  These pieces are proved but not yet assembled into `adsbBody_total3_*` for type codes 5–18. -/

abbrev tposKey : Val := Val.str ['t', 'p', 'o', 's']
abbrev latKey : Val := Val.str ['l', 'a', 't']
abbrev lonKey : Val := Val.str ['l', 'o', 'n']
abbrev t0Key : Val := Val.str ['t', '0']
abbrev t1Key : Val := Val.str ['t', '1']

/-- `tpos` present ⇒ `tpos`, `lat`, `lon` numbers; `t0` / `t1` present ⇒ a number, and the frame stored under the numeric
    key 0 / 1 is a 28-digit hex string -/
def PosOK (d : List (Val × Val)) : Prop :=
  (∀ x, dictFind d tposKey = some x →
    (∃ q, x = .num q) ∧ (∃ q, dictFind d latKey = some (.num q)) ∧ (∃ q, dictFind d lonKey = some (.num q))) ∧
  (∀ x, dictFind d t0Key = some x →
    (∃ q, x = .num q) ∧ ∃ m, dictFind d (.num 0) = some (.str m) ∧ IsHex m ∧ m.length = 28) ∧
  (∀ x, dictFind d t1Key = some x →
    (∃ q, x = .num q) ∧ ∃ m, dictFind d (.num 1) = some (.str m) ∧ IsHex m ∧ m.length = 28)

def P3 (d : List (Val × Val)) : Prop := P2 d ∧ PosOK d
def EntOK3 (e : Val) : Prop := ∃ d, e = .dict d ∧ P3 d

/-- `WF2` plus the position fields -/
def WF3 (acs : List (Val × Val)) : Prop := KeysOK acs ∧ ∀ kv ∈ acs, EntOK3 kv.2

theorem wf3_nil : WF3 [] := by simp [WF3, KeysOK, keysOf]

theorem wf2_of_wf3 {acs : List (Val × Val)} (h : WF3 acs) : WF2 acs :=
  ⟨h.1, fun kv hkv => by
    obtain ⟨d, hd, hp, _⟩ := h.2 kv hkv
    exact ⟨d, hd, hp⟩⟩

/-- an item assignment under a string key does not disturb a look-up under a numeric key -/
theorem dictFind_setPair_str_num (s : List Char) (v : Val) (q : Rat) (d : List (Val × Val)) :
    dictFind (setPair (.str s) v d) (.num q) = dictFind d (.num q) := by
  have hb : Val.beq (.num q) (.str s) = false := by simp [Val.beq]
  induction d with
  | nil => simp [setPair_nil, dictFind_cons, hb, dictFind_nil]
  | cons kv l ih =>
    obtain ⟨k'', v'⟩ := kv
    rw [setPair_cons]
    by_cases h : Val.beq (.str s) k'' = true
    · rw [if_pos h, dictFind_cons, dictFind_cons]
      have e1 : k'' = .str s := (beq_key_left (isKey_str s)).1 h
      rw [e1, hb]
      simp
    · rw [if_neg h, dictFind_cons, dictFind_cons, ih]

/-- the position fields survive an item assignment under any other string key -/
theorem posOK_setPair (s : List Char) (v : Val) (h1 : Val.str s ≠ tposKey) (h2 : Val.str s ≠ latKey)
    (h3 : Val.str s ≠ lonKey) (h4 : Val.str s ≠ t0Key) (h5 : Val.str s ≠ t1Key) (d : List (Val × Val))
    (h : PosOK d) : PosOK (setPair (.str s) v d) := by
  unfold PosOK
  rw [dictFind_setPair_ne' (isKey_str _) h1, dictFind_setPair_ne' (isKey_str _) h2,
    dictFind_setPair_ne' (isKey_str _) h3, dictFind_setPair_ne' (isKey_str _) h4,
    dictFind_setPair_ne' (isKey_str _) h5, dictFind_setPair_str_num, dictFind_setPair_str_num]
  exact h

/-- `Continue.runK`: what follows a `try … except: continue` -/
theorem tot_runK {α β} {Q : β → Prop} (e : Option α) (kc : Unit → Res β) (ks : α → Res β)
    (hc : Tot (kc ()) Q) (hs : ∀ x, Tot (ks x) Q) : Tot (Continue.runK e kc ks) Q := by
  cases e with
  | none => exact hc
  | some x => exact hs x

/-- `try: x  except: h` — the `try` body may fail freely as long as the handler returns -/
theorem tot_tryCatch {α} {x : Res α} {h : Err → Res α} {R : α → Prop} (hv : ∀ a, x = .val a → R a)
    (hr : Tot (h .rte) R) (he : Tot (h .exc) R) : Tot (tryCatch x h) R := by
  cases x with
  | val a => exact ⟨a, rfl, hv a rfl⟩
  | rte => exact hr
  | exc => exact he

/-- type codes 5–18, 20–22: `position_with_ref` on numbers returns a pair of numbers, `altitude` returns a value -/
theorem shape_pos_ref_tie (m : Msg) (hm : IsHex m) (hl : m.length = 28) (n : Nat)
    (htc : PyModeS.typecode m = some n) (hn : (5 ≤ n ∧ n ≤ 8) ∨ (9 ≤ n ∧ n ≤ 18) ∨ (20 ≤ n ∧ n ≤ 22)) :
    (∀ la lo : Rat, ∃ x y : Rat, Gen.adsb.position_with_ref (.str m) (.num la) (.num lo) =
      .val (.tuple [.num x, .num y])) ∧
    (∃ v, Gen.adsb.altitude (.str m) = .val v) := by
  obtain ⟨a1, a2, a3, a4, a5, a6, a7, a8, a9, a10, a11, a12, a13, a14, a15, a16, a17, a18, a19, a20, a21, a22, a23,
    a24, a25, a26, a27, a28, a29, a30, a31, a32, a33, a34, a35, a36, a37⟩ := PyModeS.C14Gen.no_exc_adsb_tie m hm hl
  obtain ⟨g1, g2, g3, g4, g5, g6, g7, g8, g9, g10, g11, g12, g13, g14, g15, g16, g17, g18, g19, g20, g21, g22, g23,
    g24, g25, g26, g27, g28, g29, g30, g31, g32, g33, g34, g35, g36⟩ := PyModeS.C14Gen.guard_iff_tie m hm hl
  have hpos := hasTC_of htc (posTC_of hn)
  refine ⟨fun la lo => ?_, ?_⟩
  · obtain ⟨p, hp⟩ := shape_of_tie (PyModeS.C14Gen.position_with_ref_full m hm hl la lo) (a37 la lo)
      (fun hr => ((g36 la lo).1 hr) hpos)
    exact ⟨p.1, p.2, hp⟩
  · cases hc : Gen.adsb.altitude (.str m) with
    | val v => exact ⟨v, rfl⟩
    | rte => exact absurd hpos (g1.1 hc)
    | exc => exact absurd hc a1

/-- `adsb.position` on two stored 28-digit hex frames, numeric times and a reference that is `None, None` or two numbers:
    whatever it returns is `None` or a pair of numbers (it may also raise: the caller's `try` catches that) -/
theorem shape_position_tie (m0 m1 : Msg) (h0 : IsHex m0) (h1 : IsHex m1) (hl0 : m0.length = 28) (hl1 : m1.length = 28)
    (t0 t1 : Rat) (ref : Option (Rat × Rat)) (v : Val)
    (hv : Gen.adsb.position (.str m0) (.str m1) (.num t0) (.num t1)
      (match ref with | none => Val.none | some r => .num r.1) (match ref with | none => Val.none | some r => .num r.2) =
      .val v) : v = .none ∨ ∃ x y : Rat, v = .tuple [.num x, .num y] := by
  have key : ∀ (x : Res (Option (Rat × Rat))), (x >>= fun o => Res.val (PyModeS.Tie.Adsb.encOptPos o)) = .val v →
      v = .none ∨ ∃ x y : Rat, v = .tuple [.num x, .num y] := by
    intro x hx
    cases x with
    | val o =>
      injection hx with hx
      cases o with
      | none => exact Or.inl hx.symm
      | some p => exact Or.inr ⟨p.1, p.2, hx.symm⟩
    | rte => cases hx
    | exc => cases hx
  cases ref with
  | none =>
    have hf := PyModeS.C14Gen.position_full m0 m1 h0 h1 hl0 hl1 t0 t1 none
    simp only [] at hf hv
    rw [hf] at hv
    exact key _ hv
  | some r =>
    have hf := PyModeS.C14Gen.position_full m0 m1 h0 h1 hl0 hl1 t0 t1 (some r)
    simp only [] at hf hv
    rw [hf] at hv
    exact key _ hv

theorem wf2_of_wf3_tie : type_of% @wf2_of_wf3 := @wf2_of_wf3
theorem tot_runK_tie : type_of% @tot_runK := @tot_runK
theorem tot_tryCatch_tie : type_of% @tot_tryCatch := @tot_tryCatch

end PyModeS.Tie.DecodeDirect
