/-
  Tie: generated `bds60.py` field decoders = hand model (`Model/Commb.lean`) on every 28-digit hex frame.
  (`is60` is not translated by py2lean: it calls the floating-point `aero.mach2cas`.)
-/
import PyModeS.Tie.Basic
import PyModeS.Generated.Src.bds60
import Mathlib.Tactic.SplitIfs

-- symbolic execution of long generated `do` blocks: generous but finite budget (proof times are seconds)
set_option maxHeartbeats 1000000

set_option linter.unusedSimpArgs false
set_option linter.unusedTactic false
set_option linter.unreachableTactic false
namespace PyModeS.Tie
open PyModeS PyModeS.Py PyModeS.CRC

theorem hdg60_tie (m : Msg) (h : IsHex m) (hl : m.length = 28) :
    Gen.bds60.hdg60 (.str m) = (PyModeS.hdg60 (hex2binM m) >>= fun o => .val (Val.ofOptRat o)) := by
  unfold Gen.bds60.hdg60 PyModeS.hdg60
  commb_open m h hl
  commb_close

theorem ias60_tie (m : Msg) (h : IsHex m) (hl : m.length = 28) :
    Gen.bds60.ias60 (.str m) = (PyModeS.ias60 (hex2binM m) >>= fun o => .val (Val.ofOptRat o)) := by
  unfold Gen.bds60.ias60 PyModeS.ias60
  commb_open m h hl
  commb_close

theorem mach60_tie (m : Msg) (h : IsHex m) (hl : m.length = 28) :
    Gen.bds60.mach60 (.str m) = (PyModeS.mach60 (hex2binM m) >>= fun o => .val (Val.ofOptRat o)) := by
  unfold Gen.bds60.mach60 PyModeS.mach60
  commb_open m h hl
  commb_close

theorem vr60baro_tie (m : Msg) (h : IsHex m) (hl : m.length = 28) :
    Gen.bds60.vr60baro (.str m) = (PyModeS.vr60baro (hex2binM m) >>= fun o => .val (Val.ofOptRat o)) := by
  unfold Gen.bds60.vr60baro PyModeS.vr60baro
  commb_open m h hl
  commb_close

theorem vr60ins_tie (m : Msg) (h : IsHex m) (hl : m.length = 28) :
    Gen.bds60.vr60ins (.str m) = (PyModeS.vr60ins (hex2binM m) >>= fun o => .val (Val.ofOptRat o)) := by
  unfold Gen.bds60.vr60ins PyModeS.vr60ins
  commb_open m h hl
  commb_close

end PyModeS.Tie
