/-
  TOTALITY of the generated `Gen.decode.Decode_process_raw`, continued (`Tie/DecodeTotal.lean` covers the clean-up loop,
  the Comm-B loop and the ADS-B loop for type codes 0, 1–4, 23–28, 30): richer invariant `WF2`, result shapes of the
  quality-indicator decoders, and the ADS-B loop body for further type codes.

  Covered ADS-B type codes (DF17/18, 28 hex digits): 0, 1–4, 19, 23–28, 29, 30, 31 (`Frame2`).  TC 19 needs the float
  hypothesis `PyModeS.Tie.Bds09.FloatFinite` (via `airborne_velocity_shape4_tie`); nothing else does.
  NOT covered: type codes 5–18 and 20–22 (position block with `try/except … continue`, `nic_b`, `nuc_p`, `nic_v1`,
  `nic_v2`); `WF2` therefore does not yet carry `tpos`/`lat`/`lon`, `t0`/`t1` and the stored frames.
-/
import PyModeS.Tie.DecodeTotal
import PyModeS.Tie.Bds09
set_option maxHeartbeats 1000000
set_option linter.unusedVariables false
set_option linter.unusedSimpArgs false
open PyModeS PyModeS.Py PyModeS.CRC
namespace PyModeS.Tie.DecodeDirect

/-! ### 1. the richer invariant -/

abbrev verKey : Val := Val.str ['v', 'e', 'r']
abbrev nicsKey : Val := Val.str ['n', 'i', 'c', '_', 's']
abbrev nicaKey : Val := Val.str ['n', 'i', 'c', '_', 'a']
abbrev nicbcKey : Val := Val.str ['n', 'i', 'c', '_', 'b', 'c']

/-- `ver` is present and is `None` or a natural number -/
def VerOK (d : List (Val × Val)) : Prop := ∃ v : Option Nat, dictFind d verKey = some (Val.ofOptNat v)

/-- the NIC supplements, when present, are natural numbers (`nic_s` a bit) -/
def NicOK (d : List (Val × Val)) : Prop :=
  (∀ x, dictFind d nicsKey = some x → ∃ n, n ≤ 1 ∧ x = Val.ofNat n) ∧
  (∀ x, dictFind d nicaKey = some x → ∃ n, x = Val.ofNat n) ∧
  (∀ x, dictFind d nicbcKey = some x → ∃ n, x = Val.ofNat n)

def Ext (d : List (Val × Val)) : Prop := VerOK d ∧ NicOK d
def P2 (d : List (Val × Val)) : Prop := NumD d ∧ Ext d

def EntOK2 (e : Val) : Prop := ∃ d, e = .dict d ∧ P2 d

/-- **the richer invariant**: `WF`, and in every entry `ver ∈ {None, nat}`, `nic_s` / `nic_a` / `nic_bc` naturals when
    present -/
def WF2 (acs : List (Val × Val)) : Prop := KeysOK acs ∧ ∀ kv ∈ acs, EntOK2 kv.2

theorem wf2_nil : WF2 [] := by simp [WF2, KeysOK, keysOf]

theorem wf_of_wf2 {acs : List (Val × Val)} (h : WF2 acs) : WF acs :=
  ⟨h.1, fun kv hkv => by
    obtain ⟨d, hd, hn, _⟩ := h.2 kv hkv
    exact ⟨d, hd, hn.1, hn.2⟩⟩

theorem ext_setPair (key v : Val) (h1 : key ≠ verKey) (h2 : key ≠ nicsKey) (h3 : key ≠ nicaKey) (h4 : key ≠ nicbcKey)
    (d : List (Val × Val)) (h : Ext d) : Ext (setPair key v d) := by
  unfold Ext VerOK NicOK
  rw [dictFind_setPair_ne' (isKey_str _) h1, dictFind_setPair_ne' (isKey_str _) h2,
    dictFind_setPair_ne' (isKey_str _) h3, dictFind_setPair_ne' (isKey_str _) h4]
  exact h

theorem p2_setPair (key v : Val) (h1 : key ≠ tKey) (h2 : key ≠ liveKey) (h3 : key ≠ verKey) (h4 : key ≠ nicsKey)
    (h5 : key ≠ nicaKey) (h6 : key ≠ nicbcKey) (d : List (Val × Val)) (h : P2 d) : P2 (setPair key v d) :=
  ⟨numD_setPair key v h1 h2 d h.1, ext_setPair key v h3 h4 h5 h6 d h.2⟩

macro "str_ne" : tactic => `(tactic| (intro h; injection h with h; revert h; decide))

theorem p2_set_ver (v : Nat) (d : List (Val × Val)) (h : P2 d) : P2 (setPair verKey (Val.ofNat v) d) := by
  refine ⟨numD_setPair _ _ (by str_ne) (by str_ne) d h.1, ⟨some v, dictFind_setPair_self (beq_key_self (isKey_str _)) _ _⟩, ?_⟩
  unfold NicOK
  rw [dictFind_setPair_ne' (isKey_str _) (by str_ne), dictFind_setPair_ne' (isKey_str _) (by str_ne),
    dictFind_setPair_ne' (isKey_str _) (by str_ne)]
  exact h.2.2

theorem p2_set_nics (n : Nat) (hn : n ≤ 1) (d : List (Val × Val)) (h : P2 d) : P2 (setPair nicsKey (Val.ofNat n) d) := by
  refine ⟨numD_setPair _ _ (by str_ne) (by str_ne) d h.1, ?_, ?_, ?_, ?_⟩
  · unfold VerOK; rw [dictFind_setPair_ne' (isKey_str _) (by str_ne)]; exact h.2.1
  · rw [dictFind_setPair_self (beq_key_self (isKey_str _))]
    intro x hx; cases hx; exact ⟨n, hn, rfl⟩
  · rw [dictFind_setPair_ne' (isKey_str _) (by str_ne)]; exact h.2.2.2.1
  · rw [dictFind_setPair_ne' (isKey_str _) (by str_ne)]; exact h.2.2.2.2

theorem p2_set_nica (n : Nat) (d : List (Val × Val)) (h : P2 d) : P2 (setPair nicaKey (Val.ofNat n) d) := by
  refine ⟨numD_setPair _ _ (by str_ne) (by str_ne) d h.1, ?_, ?_, ?_, ?_⟩
  · unfold VerOK; rw [dictFind_setPair_ne' (isKey_str _) (by str_ne)]; exact h.2.1
  · rw [dictFind_setPair_ne' (isKey_str _) (by str_ne)]; exact h.2.2.1
  · rw [dictFind_setPair_self (beq_key_self (isKey_str _))]
    intro x hx; cases hx; exact ⟨n, rfl⟩
  · rw [dictFind_setPair_ne' (isKey_str _) (by str_ne)]; exact h.2.2.2.2

theorem p2_set_nicbc (n : Nat) (d : List (Val × Val)) (h : P2 d) : P2 (setPair nicbcKey (Val.ofNat n) d) := by
  refine ⟨numD_setPair _ _ (by str_ne) (by str_ne) d h.1, ?_, ?_, ?_, ?_⟩
  · unfold VerOK; rw [dictFind_setPair_ne' (isKey_str _) (by str_ne)]; exact h.2.1
  · rw [dictFind_setPair_ne' (isKey_str _) (by str_ne)]; exact h.2.2.1
  · rw [dictFind_setPair_ne' (isKey_str _) (by str_ne)]; exact h.2.2.2.1
  · rw [dictFind_setPair_self (beq_key_self (isKey_str _))]
    intro x hx; cases hx; exact ⟨n, rfl⟩


/-! ### 2. result shapes of the decoders the ADS-B loop calls (from the `*_tie`s, `no_exc_adsb_tie`, `guard_iff_tie`) -/

open PyModeS.C14Gen in
theorem shape_of_tie {α} {g : Res Val} {x : Res α} {enc : α → Val} (htie : g = (x >>= fun p => .val (enc p)))
    (hne : g ≠ .exc) (hnr : g ≠ .rte) : ∃ p, g = .val (enc p) := by
  cases x with
  | val p => exact ⟨p, htie⟩
  | rte => exact absurd htie hnr
  | exc => exact absurd htie hne

theorem hasTC_of {m : Msg} {n : Nat} (htc : PyModeS.typecode m = some n) {P : Nat → Prop} (hP : P n) :
    PyModeS.C14.HasTC (hex2binM m) P := ⟨n, by rw [← PyModeS.typecode_eq, htc], hP⟩

theorem tcB_of {m : Msg} {n : Nat} (htc : PyModeS.typecode m = some n) : tcB (hex2binM m) = some n := by
  rw [← PyModeS.typecode_eq, htc]

/-- TC 29 / 31: `sil` (any stored version) and `nac_p` return 3-tuples -/
theorem shape_sil_nacp_tie (m : Msg) (hm : IsHex m) (hl : m.length = 28) (n : Nat)
    (htc : PyModeS.typecode m = some n) (hn : n = 29 ∨ n = 31) :
    (∀ v : Option Nat, ∃ a b c, Gen.adsb.sil (.str m) (Val.ofOptNat v) = .val (.tuple [a, b, c])) ∧
    (∃ a b c, Gen.adsb.nac_p (.str m) = .val (.tuple [a, b, c])) := by
  obtain ⟨a1, a2, a3, a4, a5, a6, a7, a8, a9, a10, a11, a12, a13, a14, a15, a16, a17, a18, a19, a20, a21, a22, a23,
    a24, a25, a26, a27, a28, a29, a30, a31, a32, a33, a34, a35, a36, a37⟩ := PyModeS.C14Gen.no_exc_adsb_tie m hm hl
  obtain ⟨g1, g2, g3, g4, g5, g6, g7, g8, g9, g10, g11, g12, g13, g14, g15, g16, g17, -⟩ :=
    PyModeS.C14Gen.guard_iff_tie m hm hl
  refine ⟨fun v => ?_, ?_⟩
  · obtain ⟨p, hp⟩ := shape_of_tie (PyModeS.Tie.sil_tie m hm (by omega) v) (a36 v)
      (fun hr => (g17 v).1 hr (hasTC_of htc hn))
    exact ⟨_, _, _, hp⟩
  · obtain ⟨p, hp⟩ := shape_of_tie (PyModeS.Tie.nac_p_tie m hm (by omega)) a34
      (fun hr => g16.1 hr (hasTC_of htc hn))
    exact ⟨_, _, _, hp⟩

/-- TC 31: `version` a natural number, `nic_s` a bit, `nic_a_c` a pair of naturals -/
theorem shape_tc31_tie (m : Msg) (hm : IsHex m) (hl : m.length = 28) (htc : PyModeS.typecode m = some 31) :
    (∃ v : Nat, Gen.adsb.version (.str m) = .val (Val.ofNat v)) ∧
    (∃ k : Nat, k ≤ 1 ∧ Gen.adsb.nic_s (.str m) = .val (Val.ofNat k)) ∧
    (∃ x y : Nat, Gen.adsb.nic_a_c (.str m) = .val (.tuple [Val.ofNat x, Val.ofNat y])) := by
  obtain ⟨a1, a2, a3, a4, a5, a6, a7, a8, a9, a10, a11, a12, a13, a14, a15, a16, a17, a18, a19, a20, a21, a22, a23,
    a24, a25, a26, a27, a28, a29, a30, a31, a32, a33, a34, a35, a36, a37⟩ := PyModeS.C14Gen.no_exc_adsb_tie m hm hl
  obtain ⟨g1, g2, g3, g4, g5, g6, g7, g8, g9, g10, g11, g12, g13, g14, g15, g16, g17, -⟩ :=
    PyModeS.C14Gen.guard_iff_tie m hm hl
  have ht := tcB_of htc
  refine ⟨?_, ?_, ?_⟩
  · obtain ⟨p, hp⟩ := shape_of_tie (PyModeS.Tie.version_tie m hm (by omega)) a26 (fun hr => g9.1 hr ht)
    exact ⟨p, hp⟩
  · have htie := PyModeS.Tie.nic_s_tie m hm (by omega)
    have hnr : Gen.adsb.nic_s (.str m) ≠ .rte := fun hr => g10.1 hr ht
    unfold PyModeS.nicS at htie
    rw [if_neg (by rw [ht]; simp)] at htie
    cases hb : idxR (hex2binM m) 75 with
    | val b =>
      rw [hb] at htie
      refine ⟨b2n b, ?_, htie⟩
      cases b <;> decide
    | rte => rw [hb] at htie; exact absurd htie hnr
    | exc => rw [hb] at htie; exact absurd htie a31
  · obtain ⟨p, hp⟩ := shape_of_tie (PyModeS.Tie.nic_a_c_tie m hm (by omega)) a32 (fun hr => g11.1 hr ht)
    exact ⟨p.1, p.2, hp⟩

/-- TC 19: `nuc_v`, `nac_v` 3-tuples; `velocity` is `None` or a 4-tuple whose last member is a string, under
    `FloatFinite` (`math.sqrt` / `math.atan2` never give NaN or infinity) -/
theorem shape_tc19_tie (hf : PyModeS.Tie.Bds09.FloatFinite) (m : Msg) (hm : IsHex m) (hl : m.length = 28)
    (htc : PyModeS.typecode m = some 19) :
    (∃ a b c, Gen.adsb.nuc_v (.str m) = .val (.tuple [a, b, c])) ∧
    (∃ a b c, Gen.adsb.nac_v (.str m) = .val (.tuple [a, b, c])) ∧
    (Gen.adsb.velocity (.str m) (.bool false) = .val .none ∨
      ∃ spd trk vr tag, Gen.adsb.velocity (.str m) (.bool false) = .val (.tuple [spd, trk, vr, .str tag])) := by
  obtain ⟨a1, a2, a3, a4, a5, a6, a7, a8, a9, a10, a11, a12, a13, a14, a15, a16, a17, a18, a19, a20, a21, a22, a23,
    a24, a25, a26, a27, a28, a29, a30, a31, a32, a33, a34, a35, a36, a37⟩ := PyModeS.C14Gen.no_exc_adsb_tie m hm hl
  obtain ⟨g1, g2, g3, g4, g5, g6, g7, g8, g9, g10, g11, g12, g13, g14, g15, g16, g17, -⟩ :=
    PyModeS.C14Gen.guard_iff_tie m hm hl
  have ht := tcB_of htc
  refine ⟨?_, ?_, ?_⟩
  · obtain ⟨p, hp⟩ := shape_of_tie (PyModeS.Tie.nuc_v_tie m hm (by omega)) a28 (fun hr => g5.1 hr ht)
    exact ⟨_, _, _, hp⟩
  · obtain ⟨p, hp⟩ := shape_of_tie (PyModeS.Tie.nac_v_tie m hm (by omega)) a35 (fun hr => g6.1 hr ht)
    exact ⟨_, _, _, hp⟩
  · have hv : Gen.adsb.velocity (.str m) (.bool false) = Gen.bds09.airborne_velocity (.str m) (.bool false) := by
      rw [PyModeS.Tie.velocity_tie m hm (by omega)]
      unfold velocityRoute
      rw [ht]
      rfl
    rw [hv]
    rcases PyModeS.Tie.airborne_velocity_shape4_tie hf m hm hl ht with h0 | ⟨spd, trk, vr, tag, h4, _⟩
    · exact Or.inl h0
    · exact Or.inr ⟨spd, trk, vr, tag, h4⟩


/-! ### 3. the walk under the richer invariant -/

open Lean Elab Tactic Meta in
/-- substitute the leading `have`s of the computation in a goal `Tot x Q` -/
elab "tot_zeta" : tactic => do
  let g ← getMainGoal
  let t := (← instantiateMVars (← g.getType)).consumeMData
  unless t.isAppOfArity ``Tot 3 do throwError "not a Tot goal"
  unless (t.getArg! 1).consumeMData.isLet do throwError "no leading have"
  let x ← totComp
  let g' ← g.replaceTargetDefEq (mkApp3 t.getAppFn (t.getArg! 0) x (t.getArg! 2))
  replaceMainGoal [g']

theorem tot_shape3 {β} {x : Res Val} {K : Val → Res β} {Q : β → Prop}
    (h : ∃ a b c, x = .val (.tuple [a, b, c])) (hK : ∀ a b c, Tot (K (.tuple [a, b, c])) Q) : Tot (x >>= K) Q := by
  obtain ⟨a, b, c, rfl⟩ := h
  exact hK a b c

theorem tot_shape2nat {β} {x : Res Val} {K : Val → Res β} {Q : β → Prop}
    (h : ∃ a b : Nat, x = .val (.tuple [Val.ofNat a, Val.ofNat b]))
    (hK : ∀ a b : Nat, Tot (K (.tuple [Val.ofNat a, Val.ofNat b])) Q) : Tot (x >>= K) Q := by
  obtain ⟨a, b, rfl⟩ := h
  exact hK a b

theorem tot_shapeNat {β} {x : Res Val} {K : Val → Res β} {Q : β → Prop}
    (h : ∃ v : Nat, x = .val (Val.ofNat v)) (hK : ∀ v : Nat, Tot (K (Val.ofNat v)) Q) : Tot (x >>= K) Q := by
  obtain ⟨v, rfl⟩ := h
  exact hK v

theorem tot_shapeBit {β} {x : Res Val} {K : Val → Res β} {Q : β → Prop}
    (h : ∃ k : Nat, k ≤ 1 ∧ x = .val (Val.ofNat k)) (hK : ∀ k : Nat, k ≤ 1 → Tot (K (Val.ofNat k)) Q) :
    Tot (x >>= K) Q := by
  obtain ⟨k, hk, rfl⟩ := h
  exact hK k hk

theorem tot_shapeVel {β} {x : Res Val} {K : Val → Res β} {Q : β → Prop}
    (h : x = .val .none ∨ ∃ spd trk vr tag, x = .val (.tuple [spd, trk, vr, .str tag]))
    (h0 : Tot (K .none) Q) (hK : ∀ spd trk vr tag, Tot (K (.tuple [spd, trk, vr, .str tag])) Q) : Tot (x >>= K) Q := by
  rcases h with rfl | ⟨spd, trk, vr, tag, rfl⟩
  · exact h0
  · exact hK spd trk vr tag

/-- `d["ver"]` on an entry satisfying `P2` -/
theorem tot_idx_ver {β} {d : List (Val × Val)} {K : Val → Res β} {Q : β → Prop} (hd : P2 d)
    (hK : ∀ v : Option Nat, Tot (K (Val.ofOptNat v)) Q) : Tot (Py.pyIdx (.dict d) verKey >>= K) Q := by
  obtain ⟨v, hv⟩ := hd.2.1
  simp only [Py.pyIdx, hv, bind_val']
  exact hK v

theorem tot_val_eq {α β} {x : Res α} {a : α} {K : α → Res β} {Q : β → Prop} (h : x = .val a) (hK : Tot (K a) Q) :
    Tot (x >>= K) Q := by
  subst h; exact hK

macro "rflval" : tactic => `(tactic| refine tot_val_eq rfl ?_)

/- one step of the ADS-B walk under `St a l0 ic P2` / `IsTup`; `hsil` (a hypothesis of that name, any statement) is
   tried for the version-dependent `sil` -/
set_option hygiene false in
macro "tot_step2" : tactic => `(tactic| first
  | tot_zeta
  | (tguard_bind_head pyGetAttr
     first
     | (refine tot_setfield (by assumption) (by assumption) (p2_setPair _ _ ?h1 ?h2 ?h3 ?h4 ?h5 ?h6)
          (fun self' hS' => ?_)
        case h1 => str_ne
        case h2 => str_ne
        case h3 => str_ne
        case h4 => str_ne
        case h5 => str_ne
        case h6 => str_ne)
     | (refine tot_setfield (by assumption) (by assumption) (p2_set_ver _) (fun self' hS' => ?_))
     | (refine tot_setfield (by assumption) (by assumption) (p2_set_nics _ (by assumption)) (fun self' hS' => ?_))
     | (refine tot_setfield (by assumption) (by assumption) (p2_set_nica _) (fun self' hS' => ?_))
     | (refine tot_setfield (by assumption) (by assumption) (p2_set_nicbc _) (fun self' hS' => ?_))
     | (refine tot_idx_acs (by assumption) (by assumption) (fun d hd => ?_)))
  | (tguard_bind_head Py.pyIdx; refine tot_idx_ver (by assumption) (fun v => ?_))
  | (tguard_bind_head pyAppend; refine tot_append (by assumption) (fun ob' hob' => ?_))
  | (tguard_bind_head pyEq; rflval)
  | (tguard_bind_head pyNe; rflval)
  | (tguard_bind_head pyIs; rflval)
  | (tguard_bind_head pyIsNot; rflval)
  | (tguard_bind_head pyIn; rflval)
  | (tguard_bind_head pyUnpackCheck; rflval)
  | (tguard_bind_head pyIdxN; rflval)
  | (tguard_bind_head Pure.pure; rflval)
  | (tguard_bind_head Bind.bind; refine Tot.bind (R := fun _ => True) ?_ (fun _ _ => ?_))
  | (tguard_head Bind.bind
     first
     | (refine tot_shape3 (by first | assumption | apply hsil) (fun _ _ _ => ?_))
     | (refine tot_shape2nat (by assumption) (fun _ _ => ?_))
     | (refine tot_shapeNat (by assumption) (fun _ => ?_))
     | (refine tot_shapeBit (by assumption) (fun _ hbit => ?_))
     | (refine tot_shapeVel (by assumption) ?_ (fun _ _ _ _ => ?_))
     | (refine Tot.of_val (by assumption) (fun _ => ?_)))
  | (tguard_head Pure.pure; first
      | exact Tot.pure ⟨_, rfl, by assumption, by assumption⟩
      | exact Tot.pure trivial)
  | (tguard_head ite
     refine Tot.ite (fun hc => ?_) (fun hc => ?_) <;>
       try (first | exact absurd hc Bool.false_ne_true | exact absurd rfl hc))
  | tot_beta
  | exact ⟨_, rfl, trivial⟩)

theorem entOK2_of_p2 {d : List (Val × Val)} (h : P2 d) : EntOK2 (.dict d) := ⟨d, rfl, h⟩

theorem wf2_setPair_present {l : List (Val × Val)} {ic e' : Val} (hwf : WF2 l) (hk : hasKey l ic = true)
    (he : EntOK2 e') : WF2 (setPair ic e' l) := by
  refine ⟨?_, fun kv hkv => ?_⟩
  · rw [keysOK_iff, keysOf_setPair, hk, if_pos rfl]; exact hwf.1
  · rcases mem_setPair hkv with h | h
    · exact hwf.2 kv h
    · rw [h]; exact he

theorem wf2_setPair_new {l : List (Val × Val)} {ic e' : Val} (hwf : WF2 l) (hic : IsKey ic) (hk : hasKey l ic = false)
    (he : EntOK2 e') : WF2 (setPair ic e' l) := by
  refine ⟨(wf_setPair_new (e' := .dict [(tKey, .num 0), (liveKey, .num 0)]) (wf_of_wf2 hwf) hic hk
    ⟨_, rfl, ⟨0, by simp [dictFind_cons, Val.beq]⟩, ⟨0, by simp [dictFind_cons, Val.beq]⟩⟩).1 |> fun h => ?_, fun kv hkv => ?_⟩
  · rw [keysOK_iff, keysOf_setPair, hk] at h ⊢; exact h
  · rcases mem_setPair hkv with h | h
    · exact hwf.2 kv h
    · rw [h]; exact he


theorem ext_d3 : Ext
    [(Val.str ['l', 'i', 'v', 'e'], Val.none), (Val.str ['c', 'a', 'l', 'l'], Val.none),
      (Val.str ['l', 'a', 't'], Val.none), (Val.str ['l', 'o', 'n'], Val.none),
      (Val.str ['a', 'l', 't'], Val.none), (Val.str ['g', 's'], Val.none),
      (Val.str ['t', 'r', 'k'], Val.none), (Val.str ['r', 'o', 'c'], Val.none),
      (Val.str ['t', 'a', 's'], Val.none), (Val.str ['r', 'o', 'l', 'l'], Val.none),
      (Val.str ['r', 't', 'r', 'k'], Val.none), (Val.str ['i', 'a', 's'], Val.none),
      (Val.str ['m', 'a', 'c', 'h'], Val.none), (Val.str ['h', 'd', 'g'], Val.none),
      (Val.str ['v', 'e', 'r'], Val.none), (Val.str ['H', 'P', 'L'], Val.none),
      (Val.str ['R', 'C', 'u'], Val.none), (Val.str ['R', 'C', 'v'], Val.none),
      (Val.str ['H', 'V', 'E'], Val.none), (Val.str ['V', 'V', 'E'], Val.none),
      (Val.str ['R', 'c'], Val.none), (Val.str ['V', 'P', 'L'], Val.none),
      (Val.str ['E', 'P', 'U'], Val.none), (Val.str ['V', 'E', 'P', 'U'], Val.none),
      (Val.str ['H', 'F', 'O', 'M', 'r'], Val.none), (Val.str ['V', 'F', 'O', 'M', 'r'], Val.none),
      (Val.str ['P', 'E', '_', 'R', 'C', 'u'], Val.none),
      (Val.str ['P', 'E', '_', 'V', 'P', 'L'], Val.none), (Val.str ['h', 'u', 'm', '4', '4'], Val.none),
      (Val.str ['p', '4', '4'], Val.none), (Val.str ['t', 'e', 'm', 'p', '4', '4'], Val.none),
      (Val.str ['t', 'u', 'r', 'b', '4', '4'], Val.none),
      (Val.str ['w', 'i', 'n', 'd', '4', '4'], Val.none)] := by
  refine ⟨⟨none, ?_⟩, ?_, ?_, ?_⟩
  · simp [dictFind_cons, Val.beq, Val.ofOptNat]
  · simp [dictFind_cons, Val.beq, dictFind_nil]
  · simp [dictFind_cons, Val.beq, dictFind_nil]
  · simp [dictFind_cons, Val.beq, dictFind_nil]

/- the four item assignments `tc`, `icao`, `t`, `live` at the head of the body: from `Ext` to `P2` -/
set_option hygiene false in
macro "adsb_prefix2" : tactic => `(tactic| (
  refine tot_setfield hic (by assumption) (P' := Ext)
    (ext_setPair _ _ (by str_ne) (by str_ne) (by str_ne) (by str_ne)) (fun self' hS' => ?_)
  refine tot_setfield hic (by assumption) (P' := Ext)
    (ext_setPair _ _ (by str_ne) (by str_ne) (by str_ne) (by str_ne)) (fun self' hS' => ?_)
  refine tot_setfield hic (by assumption) (P' := fun d => Pt d ∧ Ext d)
    (fun d hd => ⟨⟨q, dictFind_setPair_self (beq_key_self (isKey_str _)) _ _⟩,
      ext_setPair _ _ (by str_ne) (by str_ne) (by str_ne) (by str_ne) d hd⟩) (fun self' hS' => ?_)
  rw [pyInt1_num, bind_val']
  refine tot_setfield hic (by assumption) (P' := P2)
    (fun d (hd : Pt d ∧ Ext d) => ⟨⟨pt_setPair _ _ (by str_ne) d hd.1, ⟨_, dictFind_setPair_self (beq_key_self isKey_liveKey) _ _⟩⟩,
      ext_setPair _ _ (by str_ne) (by str_ne) (by str_ne) (by str_ne) d hd.2⟩) (fun self' hS' => ?_)))

theorem St_d3 (a l0 : List (Val × Val)) (ic : Val) : St a l0 ic Ext (mk a (setPair ic (.dict
    [(Val.str ['l', 'i', 'v', 'e'], Val.none), (Val.str ['c', 'a', 'l', 'l'], Val.none),
      (Val.str ['l', 'a', 't'], Val.none), (Val.str ['l', 'o', 'n'], Val.none),
      (Val.str ['a', 'l', 't'], Val.none), (Val.str ['g', 's'], Val.none),
      (Val.str ['t', 'r', 'k'], Val.none), (Val.str ['r', 'o', 'c'], Val.none),
      (Val.str ['t', 'a', 's'], Val.none), (Val.str ['r', 'o', 'l', 'l'], Val.none),
      (Val.str ['r', 't', 'r', 'k'], Val.none), (Val.str ['i', 'a', 's'], Val.none),
      (Val.str ['m', 'a', 'c', 'h'], Val.none), (Val.str ['h', 'd', 'g'], Val.none),
      (Val.str ['v', 'e', 'r'], Val.none), (Val.str ['H', 'P', 'L'], Val.none),
      (Val.str ['R', 'C', 'u'], Val.none), (Val.str ['R', 'C', 'v'], Val.none),
      (Val.str ['H', 'V', 'E'], Val.none), (Val.str ['V', 'V', 'E'], Val.none),
      (Val.str ['R', 'c'], Val.none), (Val.str ['V', 'P', 'L'], Val.none),
      (Val.str ['E', 'P', 'U'], Val.none), (Val.str ['V', 'E', 'P', 'U'], Val.none),
      (Val.str ['H', 'F', 'O', 'M', 'r'], Val.none), (Val.str ['V', 'F', 'O', 'M', 'r'], Val.none),
      (Val.str ['P', 'E', '_', 'R', 'C', 'u'], Val.none),
      (Val.str ['P', 'E', '_', 'V', 'P', 'L'], Val.none), (Val.str ['h', 'u', 'm', '4', '4'], Val.none),
      (Val.str ['p', '4', '4'], Val.none), (Val.str ['t', 'e', 'm', 'p', '4', '4'], Val.none),
      (Val.str ['t', 'u', 'r', 'b', '4', '4'], Val.none),
      (Val.str ['w', 'i', 'n', 'd', '4', '4'], Val.none)]) l0)) := ⟨_, rfl, ext_d3⟩

/- the ADS-B loop body once every type-code test has been decided (`c14 … e31` in the context, with concrete truth
   values): key creation, the four stamps, then whatever blocks the tests leave, walked with `tot_step2` -/
set_option hygiene false in
macro "adsb_class2" : tactic => `(tactic| (
  have h0 : pyIdxN (.tuple [Val.num q, Val.str m]) 0 = .val (.num q) := rfl
  have h1 : pyIdxN (.tuple [Val.num q, Val.str m]) 1 = .val (.str m) := rfl
  refine Tot.of_val ⟨_, rfl⟩ (fun _ => ?_)
  rw [h0, bind_val', h1, bind_val', icao_tie m hm (by omega), bind_val', htcv, bind_val']
  simp -zeta only [c14, c58, c518, c918, c2022, e19, e29, e31, bind_val', pyTruth_bool, Bool.false_eq_true, if_false,
    if_true]
  rw [hs]
  have hic : IsKey (Val.ofOptStr (PyModeS.icao m)) := isKey_icaoKey m
  generalize Val.ofOptStr (PyModeS.icao m) = ic at hic ⊢
  refine Tot.bind (R := fun x => x = .dict l0) ⟨_, get_acs _ _, rfl⟩ (fun x hx => ?_)
  subst hx
  rw [pyNotIn_dict, bind_val', pyTruth_bool]
  by_cases hk : hasKey l0 ic = true
  · rw [hk, Bool.not_true]
    obtain ⟨e, hf⟩ := find_of_hasKey hk
    obtain ⟨kv, hmem, hkv⟩ := mem_of_find hf
    obtain ⟨d0, hd0, hp2⟩ := hwf.2 _ hmem
    rw [hkv] at hd0
    subst hd0
    have hS0 : St a l0 ic Ext (mk a l0) := ⟨d0, by rw [setPair_of_find hf], hp2.2⟩
    refine Tot.mono (Q := fun r => ∃ s', r = ForInStep.yield s' ∧ St a l0 ic P2 s'.1 ∧ IsTup (obA s')) ?_ ?_
    swap
    · rintro r ⟨s', rfl, ⟨d, hd, hnd⟩, hobs⟩
      exact ⟨s', rfl, _, hd, wf2_setPair_present hwf hk (entOK2_of_p2 hnd), hobs⟩
    refine Tot.ite (fun h => absurd h (by decide)) (fun _ => ?_)
    tot_beta
    adsb_prefix2
    repeat' tot_step2
  · have hk' : hasKey l0 ic = false := by simpa using hk
    rw [hk', Bool.not_false]
    refine Tot.mono (Q := fun r => ∃ s', r = ForInStep.yield s' ∧ St a l0 ic P2 s'.1 ∧ IsTup (obA s')) ?_ ?_
    swap
    · rintro r ⟨s', rfl, ⟨d, hd, hnd⟩, hobs⟩
      exact ⟨s', rfl, _, hd, wf2_setPair_new hwf hic hk' (entOK2_of_p2 hnd), hobs⟩
    refine Tot.ite (fun _ => ?_) (fun h => absurd rfl h)
    rw [get_acs, bind_val']
    simp only [pySetItem, bind_val', set_acs]
    have hS0 := St_d3 a l0 ic
    adsb_prefix2
    repeat' tot_step2))

/-- the type-code tests of the loop body, for a type code `n` -/
structure Tests (n : Nat) (b14 b58 b518 b918 b2022 b19 b29 b31 : Bool) : Prop where
  t14 : decide (1 ≤ n ∧ n ≤ 4) = b14
  t58 : decide (5 ≤ n ∧ n ≤ 8) = b58
  t518 : decide (5 ≤ n ∧ n ≤ 18) = b518
  t918 : decide (9 ≤ n ∧ n ≤ 18) = b918
  t2022 : decide (20 ≤ n ∧ n ≤ 22) = b2022
  t19 : decide (n = 19) = b19
  t29 : decide (n = 29) = b29
  t31 : decide (n = 31) = b31

/- the decided tests as rewrite rules `c14 … e31`, and the type code of the frame -/
set_option hygiene false in
macro "adsb_tests2" : tactic => `(tactic| (
  have c14 := cond_chain 1 4 n 1 4 (by norm_num) (by norm_num)
  have c58 := cond_chain 5 8 n 5 8 (by norm_num) (by norm_num)
  have c518 := cond_chain 5 18 n 5 18 (by norm_num) (by norm_num)
  have c918 := cond_chain 9 18 n 9 18 (by norm_num) (by norm_num)
  have c2022 := cond_chain 20 22 n 20 22 (by norm_num) (by norm_num)
  have e19 := pyEq_ofNat' n 19 19 (by norm_num)
  have e29 := pyEq_ofNat' n 29 29 (by norm_num)
  have e31 := pyEq_ofNat' n 31 31 (by norm_num)
  rw [ht.t14] at c14; rw [ht.t58] at c58; rw [ht.t518] at c518; rw [ht.t918] at c918; rw [ht.t2022] at c2022
  rw [ht.t19] at e19; rw [ht.t29] at e29; rw [ht.t31] at e31
  have htcv : Gen.adsb.typecode (.str m) = .val (Val.ofNat n) := by
    rw [PyModeS.Tie.adsb_typecode_tie m hm (by omega), htc]; rfl))

set_option maxRecDepth 100000 in
/-- type code 29 (target state / operational status precursor): `sil`, `nac_p` -/
theorem adsbBody_total2_tc29 (a l0 : List (Val × Val)) (q : Rat) (m : Msg) (hm : IsHex m) (hl : m.length = 28)
    (n : Nat) (htc : PyModeS.typecode m = some n) (hn : n = 29)
    (s : Val × Val × Val × Val × Val × Val × Val × Val × Val × Val × Val × Val × Val × Val × Val × Val × Val × Val)
    (hs : s.1 = mk a l0) (hwf : WF2 l0) (hob : IsTup (obA s)) :
    Tot (adsbBody (.tuple [.num q, .str m]) s)
      (fun r => ∃ s', r = .yield s' ∧ ∃ l', s'.1 = mk a l' ∧ WF2 l' ∧ IsTup (obA s')) := by
  have ht : Tests n false false false false false false true false := by subst hn; constructor <;> decide
  obtain ⟨hsil, hnacp⟩ := shape_sil_nacp_tie m hm hl n htc (Or.inl hn)
  unfold adsbBody
  adsb_tests2
  adsb_class2


set_option maxRecDepth 100000 in
/-- type code 31 (operational status): `version`, `nac_p`, `sil`, then `nic_s` (version 1) or `nic_a_c` (version 2) -/
theorem adsbBody_total2_tc31 (a l0 : List (Val × Val)) (q : Rat) (m : Msg) (hm : IsHex m) (hl : m.length = 28)
    (n : Nat) (htc : PyModeS.typecode m = some n) (hn : n = 31)
    (s : Val × Val × Val × Val × Val × Val × Val × Val × Val × Val × Val × Val × Val × Val × Val × Val × Val × Val)
    (hs : s.1 = mk a l0) (hwf : WF2 l0) (hob : IsTup (obA s)) :
    Tot (adsbBody (.tuple [.num q, .str m]) s)
      (fun r => ∃ s', r = .yield s' ∧ ∃ l', s'.1 = mk a l' ∧ WF2 l' ∧ IsTup (obA s')) := by
  have ht : Tests n false false false false false false false true := by subst hn; constructor <;> decide
  obtain ⟨hsil, hnacp⟩ := shape_sil_nacp_tie m hm hl n htc (Or.inr hn)
  obtain ⟨hver, hnics, hnicac⟩ := shape_tc31_tie m hm hl (hn ▸ htc)
  unfold adsbBody
  adsb_tests2
  adsb_class2

set_option maxRecDepth 100000 in
/-- type code 19 (airborne velocity): `velocity`, `nuc_v`, `nac_v`; under `FloatFinite` -/
theorem adsbBody_total2_tc19 (hf : PyModeS.Tie.Bds09.FloatFinite) (a l0 : List (Val × Val)) (q : Rat) (m : Msg)
    (hm : IsHex m) (hl : m.length = 28)
    (n : Nat) (htc : PyModeS.typecode m = some n) (hn : n = 19)
    (s : Val × Val × Val × Val × Val × Val × Val × Val × Val × Val × Val × Val × Val × Val × Val × Val × Val × Val)
    (hs : s.1 = mk a l0) (hwf : WF2 l0) (hob : IsTup (obA s)) :
    Tot (adsbBody (.tuple [.num q, .str m]) s)
      (fun r => ∃ s', r = .yield s' ∧ ∃ l', s'.1 = mk a l' ∧ WF2 l' ∧ IsTup (obA s')) := by
  have ht : Tests n false false false false false true false false := by subst hn; constructor <;> decide
  have hsil : True := trivial
  obtain ⟨hnucv, hnacv, hvel⟩ := shape_tc19_tie hf m hm hl (hn ▸ htc)
  unfold adsbBody
  adsb_tests2
  adsb_class2

set_option maxRecDepth 100000 in
/-- type codes 0, 23–28, 30: no decoder is called -/
theorem adsbBody_total2_quiet (a l0 : List (Val × Val)) (q : Rat) (m : Msg) (hm : IsHex m) (hl : m.length = 28)
    (n : Nat) (htc : PyModeS.typecode m = some n) (hn : QuietTC n)
    (s : Val × Val × Val × Val × Val × Val × Val × Val × Val × Val × Val × Val × Val × Val × Val × Val × Val × Val)
    (hs : s.1 = mk a l0) (hwf : WF2 l0) (hob : IsTup (obA s)) :
    Tot (adsbBody (.tuple [.num q, .str m]) s)
      (fun r => ∃ s', r = .yield s' ∧ ∃ l', s'.1 = mk a l' ∧ WF2 l' ∧ IsTup (obA s')) := by
  have ht : Tests n false false false false false false false false := by
    unfold QuietTC at hn
    constructor <;> (simp; omega)
  have hsil : True := trivial
  unfold adsbBody
  adsb_tests2
  adsb_class2

set_option maxRecDepth 100000 in
/-- type codes 1–4 (identification): `callsign` -/
theorem adsbBody_total2_ident (a l0 : List (Val × Val)) (q : Rat) (m : Msg) (hm : IsHex m) (hl : m.length = 28)
    (n : Nat) (htc : PyModeS.typecode m = some n) (hn : 1 ≤ n ∧ n ≤ 4)
    (s : Val × Val × Val × Val × Val × Val × Val × Val × Val × Val × Val × Val × Val × Val × Val × Val × Val × Val)
    (hs : s.1 = mk a l0) (hwf : WF2 l0) (hob : IsTup (obA s)) :
    Tot (adsbBody (.tuple [.num q, .str m]) s)
      (fun r => ∃ s', r = .yield s' ∧ ∃ l', s'.1 = mk a l' ∧ WF2 l' ∧ IsTup (obA s')) := by
  have ht : Tests n true false false false false false false false := by
    constructor <;> (simp; omega)
  have hsil : True := trivial
  have hcs : ∃ v, Gen.bds08.callsign (.str m) = .val v := by
    have hne := (PyModeS.C14Gen.no_exc_adsb_tie m hm hl).2.2.2.2.1
    have hg := (PyModeS.C14Gen.guard_iff_tie m hm hl).2.2.2.2.2.2.2.1
    have hnr : Gen.bds08.callsign (.str m) ≠ .rte := fun hr => hg.1 hr (hasTC_of htc hn)
    cases hc : Gen.bds08.callsign (.str m) with
    | val v => exact ⟨v, rfl⟩
    | rte => exact absurd hc hnr
    | exc => exact absurd hc hne
  unfold adsbBody
  adsb_tests2
  adsb_class2


/-! ### 4. the Comm-B loop and the clean-up keep the richer invariant -/

theorem p2_set_t (z : Rat) (d : List (Val × Val)) (h : P2 d) : P2 (setPair tKey (.num z) d) :=
  ⟨numD_set_t z h.1, ext_setPair _ _ (by str_ne) (by str_ne) (by str_ne) (by str_ne) d h.2⟩

theorem p2_set_live (z : Rat) (d : List (Val × Val)) (h : P2 d) : P2 (setPair liveKey (.num z) d) :=
  ⟨numD_set_live z h.1, ext_setPair _ _ (by str_ne) (by str_ne) (by str_ne) (by str_ne) d h.2⟩

/-- one pass of the Comm-B loop body is total and keeps `WF2` -/
theorem commbBody_total2 (a l0 : List (Val × Val)) (q : Rat) (m : Msg) (hm : IsHex m) (hl : m.length = 28)
    (s : Val × Val × Val × Val × Val × Val × Val × Val × Val × Val × Val × Val × Val × Val × Val × Val)
    (hs : s.1 = mk a l0) (hwf : WF2 l0) (hob : IsTup (obC s)) :
    Tot (commbBody (.tuple [.num q, .str m]) s)
      (fun r => ∃ s', r = .yield s' ∧ ∃ l', s'.1 = mk a l' ∧ WF2 l' ∧ IsTup (obC s')) := by
  unfold commbBody
  extract_lets self0 s13 s12 s11 s10 bds0 s9 r50 s8 t50 s7 rt50 s6 g50 s5 ta50 s4 i60 s3 h60 s2 m60 s1 rb60 s0 ri60 ob0
  have hs0 : self0 = mk a l0 := hs
  have hob0 : IsTup ob0 := hob
  clear_value self0
  subst hs0
  have h0 : pyIdxN (.tuple [Val.num q, Val.str m]) 0 = .val (.num q) := rfl
  have h1 : pyIdxN (.tuple [Val.num q, Val.str m]) 1 = .val (.str m) := rfl
  refine Tot.of_val ⟨_, rfl⟩ (fun _ => ?_)
  rw [h0, bind_val', h1, bind_val', icao_tie m hm (by omega), bind_val']
  have hic : IsKey (Val.ofOptStr (PyModeS.icao m)) := isKey_icaoKey m
  generalize Val.ofOptStr (PyModeS.icao m) = ic at hic ⊢
  refine Tot.bind (R := fun x => x = .dict l0) ⟨_, get_acs _ _, rfl⟩ (fun x hx => ?_)
  subst hx
  rw [pyNotIn_dict, bind_val', pyTruth_bool]
  by_cases hk : hasKey l0 ic = true
  · rw [hk, Bool.not_true, if_neg (by decide)]
    obtain ⟨e, hf⟩ := find_of_hasKey hk
    obtain ⟨kv, hmem, hkv⟩ := mem_of_find hf
    obtain ⟨d0, hd0, hnum⟩ := hwf.2 _ hmem
    rw [hkv] at hd0
    subst hd0
    have hS0 : St a l0 ic P2 (mk a l0) := ⟨d0, by rw [setPair_of_find hf], hnum⟩
    obtain ⟨c1, c2, c3, c4, c5, c6, c7, c8, c9, c10, c11, c12, c13, c14, c15, c16, c17, c18, c19, c20, c21,
      c22, c23, c24, c25, c26, c27, c28, c29, c30, c31, c32, c33, c34, c35, c36, c37, c38, c39, c40, c41,
      c42, c43, c44, c45⟩ := PyModeS.C14Gen.commb_total_tie m hm hl
    have c45' := c45 false
    have hsil : True := trivial
    refine Tot.mono (Q := fun r => ∃ s', r = ForInStep.yield s' ∧ St a l0 ic P2 s'.1 ∧ IsTup (obC s')) ?_ ?_
    swap
    · rintro r ⟨s', rfl, ⟨d, hd, hnd⟩, hobs⟩
      exact ⟨s', rfl, _, hd, wf2_setPair_present hwf hk (entOK2_of_p2 hnd), hobs⟩
    iterate 2 tot_step2
    refine tot_idx_acs hic (by assumption) (fun d hd => ?_)
    obtain ⟨⟨⟨qt, hqt⟩, _⟩, _⟩ := hd
    have hrt : Py.pyIdx (.dict d) (Val.str ['t']) = .val (.num qt) := by simp only [Py.pyIdx, hqt]
    rw [hrt, bind_val']
    obtain ⟨z, hz⟩ := pyMax2_num qt q
    rw [hz, bind_val']
    refine tot_setfield hic (by assumption) (P' := P2) (fun d hd => p2_set_t z d hd) (fun self' hS' => ?_)
    refine tot_idx_acs hic (by assumption) (fun d hd => ?_)
    obtain ⟨⟨_, ⟨ql, hql⟩⟩, _⟩ := hd
    have hrl : Py.pyIdx (.dict d) (Val.str ['l', 'i', 'v', 'e']) = .val (.num ql) := by simp only [Py.pyIdx, hql]
    rw [hrl, bind_val', pyInt1_num, bind_val']
    obtain ⟨z2, hz2⟩ := pyMax2_num ql (PyModeS.pyInt q : Rat)
    rw [hz2, bind_val']
    refine tot_setfield hic (by assumption) (P' := P2) (fun d hd => p2_set_live z2 d hd) (fun self' hS' => ?_)
    repeat' tot_step2
  · have hk' : hasKey l0 ic = false := by simpa using hk
    rw [hk', Bool.not_false, if_pos rfl]
    exact Tot.pure ⟨_, rfl, l0, rfl, hwf, hob0⟩




/-- ADS-B frames covered here: 28 hex digits, DF 17/18, type code in {0, 1–4, 19, 23–31} (i.e. every type code except the
    position / velocity-on-ground range 5–18 and 20–22) -/
def Frame2 (m : Msg) : Prop :=
  IsHex m ∧ m.length = 28 ∧ ∃ n, PyModeS.typecode m = some n ∧
    (QuietTC n ∨ (1 ≤ n ∧ n ≤ 4) ∨ n = 19 ∨ n = 29 ∨ n = 31)

theorem commbLoop_total2_tie (a : List (Val × Val)) (pairs : List (Rat × Msg))
    (hhex : ∀ p ∈ pairs, IsHex p.2 ∧ p.2.length = 28) (l0 : List (Val × Val))
    (s : Val × Val × Val × Val × Val × Val × Val × Val × Val × Val × Val × Val × Val × Val × Val × Val)
    (hs : s.1 = mk a l0) (hwf : WF2 l0) (hob : IsTup (obC s)) :
    Tot (forIn (pairs.map encMsg) s commbBody) (fun s' => ∃ l', s'.1 = mk a l' ∧ WF2 l' ∧ IsTup (obC s')) := by
  refine Tot.forIn (fun s' => ∃ l', s'.1 = mk a l' ∧ WF2 l' ∧ IsTup (obC s')) commbBody _ ?_ s ⟨l0, hs, hwf, hob⟩
  intro it hit s1 ⟨l1, hs1, hwf1, hob1⟩
  obtain ⟨p, hp, rfl⟩ := List.mem_map.1 hit
  have := hhex p hp
  exact commbBody_total2 a l1 p.1 p.2 this.1 this.2 s1 hs1 hwf1 hob1

/-- **the ADS-B loop is total under `WF2` and keeps it**, for `Frame2` frames, under `FloatFinite` -/
theorem adsbLoop_total2_tie (hf : PyModeS.Tie.Bds09.FloatFinite) (a : List (Val × Val)) (pairs : List (Rat × Msg))
    (hq : ∀ p ∈ pairs, Frame2 p.2) (l0 : List (Val × Val))
    (s : Val × Val × Val × Val × Val × Val × Val × Val × Val × Val × Val × Val × Val × Val × Val × Val × Val × Val)
    (hs : s.1 = mk a l0) (hwf : WF2 l0) (hob : IsTup (obA s)) :
    Tot (forIn (pairs.map encMsg) s adsbBody) (fun s' => ∃ l', s'.1 = mk a l' ∧ WF2 l' ∧ IsTup (obA s')) := by
  refine Tot.forIn (fun s' => ∃ l', s'.1 = mk a l' ∧ WF2 l' ∧ IsTup (obA s')) adsbBody _ ?_ s ⟨l0, hs, hwf, hob⟩
  intro it hit s1 ⟨l1, hs1, hwf1, hob1⟩
  obtain ⟨p, hp, rfl⟩ := List.mem_map.1 hit
  obtain ⟨h1, h2, n, h3, h4 | h4 | h4 | h4 | h4⟩ := hq p hp
  · exact adsbBody_total2_quiet a l1 p.1 p.2 h1 h2 n h3 h4 s1 hs1 hwf1 hob1
  · exact adsbBody_total2_ident a l1 p.1 p.2 h1 h2 n h3 h4 s1 hs1 hwf1 hob1
  · exact adsbBody_total2_tc19 hf a l1 p.1 p.2 h1 h2 n h3 h4 s1 hs1 hwf1 hob1
  · exact adsbBody_total2_tc29 a l1 p.1 p.2 h1 h2 n h3 h4 s1 hs1 hwf1 hob1
  · exact adsbBody_total2_tc31 a l1 p.1 p.2 h1 h2 n h3 h4 s1 hs1 hwf1 hob1

theorem wf2_evict {acs : List (Val × Val)} (h : WF2 acs) (t timeout : Rat) : WF2 (evict t timeout acs) :=
  ⟨keysOK_evict h.1 t timeout, fun kv hkv => h.2 kv (List.mem_of_mem_filter hkv)⟩

/-- a receiver `process_raw` can be called on (richer invariant) -/
def RecvOK2 (self : Val) : Prop :=
  ∃ attrs acs timeout, self = .dict attrs ∧ dictFind attrs (attrKey "acs") = some (.dict acs) ∧ WF2 acs ∧
    dictFind attrs (attrKey "cache_timeout") = some (.num timeout) ∧
    dictFind attrs (attrKey "dumpto") = some .none

/-- **totality of `Decode.process_raw` (generated)** for ADS-B frames of type code 0, 1–4, 19, 23–31 (`Frame2`), any
    28-digit hex Comm-B frames, numeric time stamps and `tnow`, `dumpto = None`, under `FloatFinite`: the call returns
    `(self', None)` and `self'` satisfies `RecvOK2` again -/
theorem process_raw_total2_tie (hf : PyModeS.Tie.Bds09.FloatFinite) (self : Val) (adsb commb : List (Rat × Msg))
    (t : Rat) (hself : RecvOK2 self)
    (hadsb : ∀ p ∈ adsb, Frame2 p.2) (hcommb : ∀ p ∈ commb, IsHex p.2 ∧ p.2.length = 28) :
    ∃ self', Gen.decode.Decode_process_raw self (tsOf adsb) (msgsOf adsb) (tsOf commb) (msgsOf commb) (.num t) =
      .val (.tuple [self', .none]) ∧ RecvOK2 self' := by
  obtain ⟨attrs, acs, timeout, rfl, hacs, hwf, hto, hdump⟩ := hself
  rw [process_raw_decomp]
  have hpyIs : pyIs (.num t) .none = .val (.bool false) := rfl
  rw [hpyIs, bind_val', pyTruth_bool, if_neg (by decide)]
  generalize ha' : setPair (attrKey "t") (.num t) attrs = a'
  have hacs' : dictFind a' (attrKey "acs") = some (.dict acs) := by
    rw [← ha', dictFind_setPair_ne (isKey_attr "t") (isKey_attr "acs") (attrKey_ne (by decide)), hacs]
  have ht' : dictFind a' (attrKey "t") = some (.num t) := by
    rw [← ha', dictFind_setPair_self (beq_key_self (isKey_attr "t"))]
  have hto' : dictFind a' (attrKey "cache_timeout") = some (.num timeout) := by
    rw [← ha', dictFind_setPair_ne (isKey_attr "t") (isKey_attr "cache_timeout") (attrKey_ne (by decide)), hto]
  have hdump' : dictFind a' (attrKey "dumpto") = some .none := by
    rw [← ha', dictFind_setPair_ne (isKey_attr "t") (isKey_attr "dumpto") (attrKey_ne (by decide)), hdump]
  have hset : pySetAttr (.dict attrs) "t" (.num t) = .val (mk a' acs) := by
    rw [← mk_of_find hacs', ← ha']; rfl
  have key : Tot (phases (.dict attrs) (tsOf adsb) (msgsOf adsb) (tsOf commb) (msgsOf commb) (.num t))
      (fun r => ∃ self', r = .tuple [self', .none] ∧ RecvOK2 self') := by
    unfold phases
    have hit : ∀ l, pyIter (.tuple l) = .val l := fun _ => rfl
    rw [hset, bind_val', pyZip_batch, bind_val', hit, bind_val']
    refine Tot.bind (adsbLoop_total2_tie hf a' adsb hadsb acs _ rfl hwf ⟨[], rfl⟩) ?_
    rintro s1 ⟨l1, hs1, hwf1, hob1⟩
    rw [pyZip_batch, bind_val', hit, bind_val']
    refine Tot.bind (commbLoop_total2_tie a' commb hcommb l1 _ hs1 hwf1 hob1) ?_
    rintro s2 ⟨l2, hs2, hwf2, _⟩
    rw [hs2, get_acs, bind_val']
    have hkeys : pyKeys (.dict l2) = .val (.tuple (keysOf l2)) := rfl
    have hlist : ∀ l, pyList (.tuple l) = .val (.tuple l) := fun _ => rfl
    rw [hkeys, bind_val', hlist, bind_val', hit, bind_val']
    obtain ⟨⟨ic', hev⟩, _⟩ := evict_loop_total_tie a' l2 t timeout s2.2.2.2.1 ht' hto' (wf_of_wf2 hwf2)
    rw [hev, bind_val']
    have hd : pyGetAttr (mk a' (evict t timeout l2)) "dumpto" = .val .none := by
      rw [get_dumpto]; simp only [pyGetAttr, hdump']
    simp only []
    rw [hd, bind_val']
    have hnn : pyIsNot Val.none Val.none = .val (.bool false) := rfl
    rw [hnn, bind_val', pyTruth_bool, if_neg (by decide)]
    refine Tot.pure ⟨_, rfl, _, evict t timeout l2, timeout, rfl, ?_, wf2_evict hwf2 t timeout, ?_, ?_⟩
    · exact dictFind_setPair_self (beq_key_self (isKey_attr "acs")) _ _
    · rw [dictFind_setPair_ne (isKey_attr "acs") (isKey_attr "cache_timeout") (attrKey_ne (by decide)), hto']
    · rw [dictFind_setPair_ne (isKey_attr "acs") (isKey_attr "dumpto") (attrKey_ne (by decide)), hdump']
  obtain ⟨r, hr, self', rfl, hok⟩ := key
  exact ⟨self', hr, hok⟩

theorem history_total2_tie (hf : PyModeS.Tie.Bds09.FloatFinite) (self : Val) (calls : List Call) (hself : RecvOK2 self)
    (hcalls : ∀ c ∈ calls, (∀ p ∈ c.1, Frame2 p.2) ∧ (∀ p ∈ c.2.1, IsHex p.2 ∧ p.2.length = 28)) :
    ∃ self', runHistory self calls = .val self' ∧ RecvOK2 self' := by
  induction calls generalizing self with
  | nil => exact ⟨self, rfl, hself⟩
  | cons c cs ih =>
    obtain ⟨self1, h1, hok1⟩ := process_raw_total2_tie hf self c.1 c.2.1 c.2.2 hself (hcalls c (by simp)).1
      (hcalls c (by simp)).2
    obtain ⟨self', h', hok'⟩ := ih self1 hok1 (fun c' hc' => hcalls c' (List.mem_cons_of_mem _ hc'))
    refine ⟨self', ?_, hok'⟩
    unfold runHistory
    rw [h1, bind_val']
    have : pyIdxN (.tuple [self1, Val.none]) 0 = .val self1 := rfl
    rw [this, bind_val', h']

theorem recvOK2_fresh : RecvOK2 freshDecode :=
  ⟨_, [], 60, rfl, by simp [dictFind_cons, attrKey, Val.beq], wf2_nil, by simp [dictFind_cons, attrKey, Val.beq],
    by simp [dictFind_cons, attrKey, Val.beq]⟩

/-- **no call of a history ever raises**, from the freshly constructed `Decode()`: ADS-B frames of type code 0, 1–4,
    19, 23–31, any 28-digit hex Comm-B frames, under `FloatFinite` -/
theorem history_total2_fresh_tie (hf : PyModeS.Tie.Bds09.FloatFinite) (calls : List Call)
    (hcalls : ∀ c ∈ calls, (∀ p ∈ c.1, Frame2 p.2) ∧ (∀ p ∈ c.2.1, IsHex p.2 ∧ p.2.length = 28)) :
    ∃ self', runHistory freshDecode calls = .val self' ∧ RecvOK2 self' :=
  history_total2_tie hf freshDecode calls recvOK2_fresh hcalls


/-! audited names -/
theorem wf_of_wf2_tie : type_of% @wf_of_wf2 := @wf_of_wf2
theorem adsbBody_total2_tc29_tie : type_of% @adsbBody_total2_tc29 := @adsbBody_total2_tc29
theorem adsbBody_total2_tc31_tie : type_of% @adsbBody_total2_tc31 := @adsbBody_total2_tc31
theorem adsbBody_total2_tc19_tie : type_of% @adsbBody_total2_tc19 := @adsbBody_total2_tc19
theorem adsbBody_total2_quiet_tie : type_of% @adsbBody_total2_quiet := @adsbBody_total2_quiet
theorem adsbBody_total2_ident_tie : type_of% @adsbBody_total2_ident := @adsbBody_total2_ident
theorem commbBody_total2_tie : type_of% @commbBody_total2 := @commbBody_total2

end PyModeS.Tie.DecodeDirect
