/-
  Tie between the source-generated model (`Generated/Src/*.lean`, rewritten from /repo on every run)
  and the hand-written model the property theorems talk about.

  This file: rewriting lemmas for the Python primitives on the values that occur in decoders
  (bit strings, small numbers), and the tie for `py_common`'s conversion helpers.
-/
import Mathlib.Tactic.Ring
import Mathlib.Algebra.Order.Field.Rat
import Mathlib.Data.Rat.Cast.Defs
import Mathlib.Data.Rat.Floor
import Mathlib.Tactic.IntervalCases
import Mathlib.Tactic.SplitIfs
import Mathlib.Tactic.Linarith
import PyModeS.Generated.Src.py_common
import PyModeS.Proofs.CRC.HexStr
import PyModeS.Model.Commb

-- symbolic execution of long generated `do` blocks: generous but finite budget (proof times are seconds)
set_option maxHeartbeats 1000000

set_option linter.style.nameCheck false
set_option linter.unusedSimpArgs false
namespace PyModeS.Tie
open PyModeS PyModeS.Py PyModeS.CRC

/-! ### numbers -/

@[simp] theorem num?_num (q : Rat) : (Val.num q).num? = some q := rfl
@[simp] theorem num?_ofNat (n : Nat) : (Val.ofNat n).num? = some (n : Rat) := rfl
@[simp] theorem int?_ofNat (n : Nat) : (Val.ofNat n).int? = some (n : Int) := by
  simp [Val.ofNat, Val.int?]
@[simp] theorem int?_natLit (n : Nat) [n.AtLeastTwo] : (Val.num (OfNat.ofNat n)).int? = some (OfNat.ofNat n : Int) := by
  simp [Val.int?]
@[simp] theorem int?_zero : (Val.num 0).int? = some 0 := rfl
@[simp] theorem int?_one : (Val.num 1).int? = some 1 := rfl

@[simp] theorem pySub_num (a b : Rat) : pySub (.num a) (.num b) = .val (.num (a - b)) := rfl
@[simp] theorem pyAdd_num (a b : Rat) : pyAdd (.num a) (.num b) = .val (.num (a + b)) := rfl
@[simp] theorem pyMul_num (a b : Rat) : pyMul (.num a) (.num b) = .val (.num (a * b)) := rfl
@[simp] theorem pyDiv_num (a b : Rat) (h : b ≠ 0) : pyDiv (.num a) (.num b) = .val (.num (a / b)) := by
  simp [pyDiv, h]
@[simp] theorem pyDiv_lit (a : Rat) (n : Nat) [n.AtLeastTwo] :
    pyDiv (.num a) (.num (OfNat.ofNat n)) = .val (.num (a / OfNat.ofNat n)) := by
  apply pyDiv_num
  have : (OfNat.ofNat n : Rat) = (n : Rat) := rfl
  rw [this]
  have h2 : 2 ≤ n := Nat.AtLeastTwo.prop
  exact_mod_cast (by omega : n ≠ 0)
@[simp] theorem pyNeg_num (a : Rat) : pyNeg (.num a) = .val (.num (-a)) := rfl
@[simp] theorem pyAbs_num (a : Rat) : pyAbs (.num a) = .val (.num (if a < 0 then -a else a)) := rfl
@[simp] theorem pyLt_num (a b : Rat) : pyLt (.num a) (.num b) = .val (.bool (decide (a < b))) := rfl
@[simp] theorem pyLe_num (a b : Rat) : pyLe (.num a) (.num b) = .val (.bool (decide (a ≤ b))) := rfl
@[simp] theorem pyGt_num (a b : Rat) : pyGt (.num a) (.num b) = .val (.bool (decide (b < a))) := rfl
@[simp] theorem pyGe_num (a b : Rat) : pyGe (.num a) (.num b) = .val (.bool (decide (b ≤ a))) := rfl
@[simp] theorem pyEq_num (a b : Rat) : pyEq (.num a) (.num b) = .val (.bool (a == b)) := rfl
@[simp] theorem pyNe_num (a b : Rat) : pyNe (.num a) (.num b) = .val (.bool (!(a == b))) := rfl
@[simp] theorem pyIsNot_none_num (a : Rat) : pyIsNot (.num a) .none = .val (.bool true) := rfl
@[simp] theorem pyIsNot_none_none : pyIsNot .none .none = .val (.bool false) := rfl
@[simp] theorem pyIs_none_num (a : Rat) : pyIs (.num a) .none = .val (.bool false) := rfl
@[simp] theorem pyIs_none_none : pyIs .none .none = .val (.bool true) := rfl
@[simp] theorem pyTruth_bool (b : Bool) : pyTruth (.bool b) = b := rfl
@[simp] theorem pyTruth_num (q : Rat) : pyTruth (.num q) = (q != 0) := rfl
@[simp] theorem pyNot_bool (b : Bool) : pyNot (.bool b) = .val (.bool (!b)) := rfl

/-! ### bit strings -/

@[simp] theorem ofBits_length (d : Bits) : pyLen (Val.ofBits d) = .val (Val.ofNat d.length) := by
  simp [pyLen, Val.ofBits]

@[simp] theorem pyIdxN_ofBits (d : Bits) (k : Nat) :
    pyIdxN (Val.ofBits d) k = (idxR d k >>= fun b => .val (.str [b.toDigit])) := by
  simp only [pyIdxN, Val.ofBits, idxR, List.getElem?_map]
  cases h : d[k]? <;> simp

@[simp] theorem pySliceNN_ofBits (d : Bits) (a b : Nat) :
    pySliceNN (Val.ofBits d) a b = .val (Val.ofBits (slice a b d)) := by
  simp [pySliceNN, Val.ofBits, slice, List.map_take, List.map_drop]

@[simp] theorem pySliceFrom_ofBits (d : Bits) (a : Nat) :
    pySliceN_ (Val.ofBits d) a = .val (Val.ofBits (d.drop a)) := by
  simp [pySliceN_, Val.ofBits, List.map_drop]

@[simp] theorem pySliceTo_ofBits (d : Bits) (b : Nat) :
    pySlice_N (Val.ofBits d) b = .val (Val.ofBits (d.take b)) := by
  simp [pySlice_N, Val.ofBits, List.map_take]

@[simp] theorem pyEq_digit_zero (b : Bool) : pyEq (.str [b.toDigit]) (.str ['0']) = .val (.bool (!b)) := by
  cases b <;> rfl
@[simp] theorem pyEq_digit_one (b : Bool) : pyEq (.str [b.toDigit]) (.str ['1']) = .val (.bool b) := by
  cases b <;> rfl
@[simp] theorem pyInt1_digit (b : Bool) : pyInt1 (.str [b.toDigit]) = .val (.num (if b then 1 else 0)) := by
  cases b <;> rfl
@[simp] theorem pyTruth_num01 (b : Bool) : pyTruth (.num (if b = true then 1 else 0)) = b := by
  cases b <;> rfl

theorem digitVal_toDigit (b : Bool) : digitVal? 2 b.toDigit = some b.toNat := by cases b <;> rfl

theorem parseDigits_bits (d : Bits) (acc : Nat) :
    parseDigits 2 (d.map Bool.toDigit) (some acc) = some (d.foldl (fun n b => 2 * n + b.toNat) acc) := by
  induction d generalizing acc with
  | nil => rfl
  | cons b d ih => simp [parseDigits, digitVal_toDigit, ih]

theorem parseNat_bits (d : Bits) (h : d ≠ []) : parseNat 2 (d.map Bool.toDigit) = some (PyModeS.bin2int d) := by
  cases d with
  | nil => exact absurd rfl h
  | cons b d =>
    simp only [parseNat, List.map_cons, parseDigits, digitVal_toDigit, Option.getD_none]
    rw [parseDigits_bits]
    simp [PyModeS.bin2int]

@[simp] theorem pyInt2_ofBits (d : Bits) :
    pyInt2 (Val.ofBits d) (.num 2) = (bin2intR d >>= fun n => .val (Val.ofNat n)) := by
  unfold pyInt2 bin2intR
  have h2 : (Val.num 2).int? = some (Int.ofNat 2) := by
    have := int?_natLit 2
    simpa using this
  rw [h2]
  cases d with
  | nil => simp [Val.ofBits, parseNat, parseDigits]
  | cons b d =>
    have := parseNat_bits (b :: d) (by simp)
    simp only [Val.ofBits, List.map_cons] at this ⊢
    simp [this]


/-! ### `py_common` conversion helpers -/

theorem pyInt1_ofNat (n : Nat) : pyInt1 (Val.ofNat n) = .val (Val.ofNat n) := by
  have h0 : ¬ ((n : Rat) < 0) := by exact_mod_cast Nat.not_lt_zero n
  have hf : Rat.floor (n : Rat) = (n : Int) := by
    have : Rat.floor (n : Rat) = ⌊(n : Rat)⌋ := rfl
    rw [this]; exact_mod_cast Int.floor_natCast n
  simp [pyInt1, Val.ofNat, h0, hf]

theorem ofNat_mul (a b : Nat) : Val.num ((a : Rat) * (b : Rat)) = Val.ofNat (a * b) := by
  simp [Val.ofNat]

/-- zero-padded `Nat.toDigits 2` is the bit string (`bin(n)[2:].zfill(w)`) -/
theorem pad_toDigits2 (k : Nat) : ∀ n, n < 2 ^ (k + 1) →
    List.replicate (k + 1 - (Nat.toDigits 2 n).length) '0' ++ Nat.toDigits 2 n =
      (natToBits (k + 1) n).map Bool.toDigit := by
  induction k with
  | zero =>
    intro n hn
    have hn' : n < 2 := by simpa using hn
    rw [Nat.toDigits_of_lt_base hn']
    interval_cases n <;> rfl
  | succ k ih =>
    intro n hn
    rw [natToBits_succ, Nat.toDigits_eq_if (by decide)]
    split
    · rename_i h2
      have hq : n / 2 = 0 := Nat.div_eq_of_lt h2
      have hz : natToBits (k + 1) 0 = List.replicate (k + 1) false := by
        clear ih hn
        induction k with
        | zero => rfl
        | succ k ih => rw [natToBits_succ, ih]; simp [List.replicate_succ']
      rw [hq, hz]
      interval_cases n <;> simp [List.replicate_succ', Nat.digitChar, Bool.toDigit]
    · have hq : n / 2 < 2 ^ (k + 1) := by rw [Nat.pow_succ] at hn; omega
      have := ih (n / 2) hq
      simp only [List.map_append, List.map_cons, List.map_nil, ← this, List.length_append,
        List.length_singleton, List.append_assoc]
      have hd : [Nat.digitChar (n % 2)] = [Bool.toDigit (n % 2 == 1)] := by
        have : n % 2 < 2 := Nat.mod_lt _ (by decide)
        interval_cases (n % 2) <;> rfl
      rw [hd]
      congr 2
      omega

theorem digitVal16 (c : Char) (h : (hexVal? c).isSome) : digitVal? 16 c = some (hexVal c) := by
  unfold digitVal? hexVal
  cases hc : hexVal? c with
  | none => simp [hc] at h
  | some d =>
    have := hexVal_lt c
    simp only [hexVal, hc, Option.getD_some] at this
    simp [this]

theorem parseDigits_hex (m : Msg) (h : IsHex m) (acc : Nat) :
    parseDigits 16 m (some acc) = some (m.foldl (fun n c => 16 * n + hexVal c) acc) := by
  induction m generalizing acc with
  | nil => rfl
  | cons c m ih =>
    have hc := h c (by simp)
    have hm : IsHex m := fun x hx => h x (List.mem_cons_of_mem _ hx)
    simp [parseDigits, digitVal16 c hc, ih hm]

theorem parseNat_hex (m : Msg) (h : IsHex m) (hne : m ≠ []) : parseNat 16 m = some (hexToNatM m) := by
  cases m with
  | nil => exact absurd rfl hne
  | cons c m =>
    have hc := h c (by simp)
    have hm : IsHex m := fun x hx => h x (List.mem_cons_of_mem _ hx)
    simp only [parseNat, parseDigits, digitVal16 c hc, Option.getD_none]
    rw [parseDigits_hex m hm]
    simp [hexToNatM]

theorem pyInt2_hex (m : Msg) (h : IsHex m) (hne : m ≠ []) :
    pyInt2 (.str m) (.num 16) = .val (Val.ofNat (hexToNatM m)) := by
  unfold pyInt2
  have h16 : (Val.num 16).int? = some (Int.ofNat 16) := by
    have := int?_natLit 16
    simpa using this
  rw [h16]
  simp [parseNat_hex m h hne]

theorem hex2bin_str (m : Msg) (h : IsHex m) (hne : m ≠ []) :
    Gen.py_common.hex2bin (.str m) = .val (Val.ofBits (hex2binM m)) := by
  unfold Gen.py_common.hex2bin
  have hlen : pyLen (.str m) = .val (Val.ofNat m.length) := rfl
  have h4 : (Val.num 4) = Val.ofNat 4 := by simp [Val.ofNat]
  simp only [hlen, Res.bind_val, pyInt2_hex m h hne, h4]
  have hmul : pyMul (Val.ofNat m.length) (Val.ofNat 4) = .val (Val.ofNat (m.length * 4)) := by
    simp [Val.ofNat]
  simp only [hmul, Res.bind_val, pyInt1_ofNat]
  simp only [pyBin, int?_ofNat, pySliceN_, pyZfill, Res.bind_val, List.drop_succ_cons, List.drop_zero, Int.toNat_natCast]
  have hL : (hex2binM m).length = m.length * 4 := by rw [hex2binM_length]; omega
  have hpos : 0 < m.length := List.length_pos_of_ne_nil hne
  obtain ⟨k, hk⟩ : ∃ k, m.length * 4 = k + 1 := ⟨m.length * 4 - 1, by omega⟩
  have hlt : hexToNatM m < 2 ^ (k + 1) := by
    rw [hexToNatM_eq_bin2int, ← hk, ← hL]; exact bin2int_lt _
  have := pad_toDigits2 k (hexToNatM m) hlt
  simp only [pure, Val.ofBits]
  rw [hk, this, ← hk, ← hL, hexToNatM_eq_bin2int, natToBits_bin2int]


@[simp] theorem bin2int_ofBits (d : Bits) :
    Gen.py_common.bin2int (Val.ofBits d) = (bin2intR d >>= fun n => .val (Val.ofNat n)) := by
  unfold Gen.py_common.bin2int
  simp only [pyInt2_ofBits]

theorem normBound_nonneg (n k : Nat) : normBound n (k : Int) = min k n := by
  simp [normBound]

theorem normBound_neg (n k : Nat) (hk : 0 < k) : normBound n (-(k : Int)) = n - k := by
  have : (-(k : Int)) < 0 := by omega
  simp only [normBound, this, if_true, Int.neg_neg, Int.toNat_natCast]

/-- `common.data(msg)` = `msg[8:-6]` -/
theorem data_str (m : Msg) : Gen.py_common.data (.str m) = .val (.str (dataM m)) := by
  unfold Gen.py_common.data
  have h8 : (Val.num 8).int? = some ((8 : Nat) : Int) := by simpa using int?_natLit 8
  have h6 : (Val.num (-6)).int? = some (-((6 : Nat) : Int)) := by
    simp [Val.int?]
  simp only [pySlice, optInt, h8, h6, Res.bind_val, sliceList, normBound_nonneg, normBound_neg _ 6 (by decide)]
  simp only [dataM, dropLast, slice]
  congr 2
  rw [List.drop_take]
  rcases Nat.lt_or_ge m.length 8 with h | h
  · rw [Nat.min_eq_right (by omega)]
    simp [List.drop_eq_nil_of_le (Nat.le_of_lt h), List.drop_length]
  · rw [Nat.min_eq_left h]

theorem dataM_28 (m : Msg) (hl : m.length = 28) : dataM m = slice 8 22 m := by
  simp only [dataM, dropLast, slice, hl, List.drop_take]

theorem isHex_take' {m : Msg} (h : IsHex m) (k : Nat) : IsHex (m.take k) :=
  fun c hc => h c (List.mem_of_mem_take hc)

theorem pyMin2_ofNat_24 (x : Nat) : pyMin2 (Val.ofNat x) (.num 24) = .val (Val.ofNat (min x 24)) := by
  unfold pyMin2
  simp only [num?_ofNat, num?_num]
  by_cases h : 24 < x
  · have : ((24 : Rat) < (x : Rat)) := by exact_mod_cast h
    simp [this, Nat.min_eq_right (Nat.le_of_lt h), Val.ofNat]
  · have : ¬ ((24 : Rat) < (x : Rat)) := by exact_mod_cast h
    simp [this, Nat.min_eq_left (Nat.le_of_not_lt h)]

/-- `common.df(msg)` on a hex string of at least two digits -/
theorem df_str (m : Msg) (h : IsHex m) (hl : 2 ≤ m.length) :
    Gen.py_common.df (.str m) = .val (Val.ofNat (PyModeS.df m)) := by
  unfold Gen.py_common.df PyModeS.df
  have hne : m.take 2 ≠ [] := by
    intro e; have := congrArg List.length e
    rw [List.length_take, Nat.min_eq_left hl] at this; simp at this
  have h8 : (hex2binM (m.take 2)).length = 8 := by
    rw [hex2binM_length, List.length_take, Nat.min_eq_left hl]
  have hs : 0 < (slice 0 5 (hex2binM (m.take 2))).length := by simp [slice, h8]
  simp only [pySlice_N, Res.bind_val, hex2bin_str _ (isHex_take' h 2) hne, pySliceNN_ofBits, bin2int_ofBits,
    bin2intR_of_length hs, pyMin2_ofNat_24]


/-- `common.typecode(msg)` on a hex string of at least ten digits -/
theorem typecode_str (m : Msg) (h : IsHex m) (hl : 10 ≤ m.length) :
    Gen.py_common.typecode (.str m) = .val (Val.ofOptNat (PyModeS.typecode m)) := by
  unfold Gen.py_common.typecode PyModeS.typecode
  have hne : slice 8 10 m ≠ [] := by
    intro e; have := congrArg List.length e; simp [slice] at this; omega
  have h8 : (hex2binM (slice 8 10 m)).length = 8 := by
    rw [hex2binM_length]; simp [slice]; omega
  have hs : 0 < (slice 0 5 (hex2binM (slice 8 10 m))).length := by rw [slice_length, h8]; decide
  simp only [df_str m h (by omega), Res.bind_val, pyNotIn, pyIn, pyNot, Val.truth, pure]
  by_cases hd : PyModeS.df m = 17 ∨ PyModeS.df m = 18
  · have : (List.any [Val.num 17, Val.num 18] fun y => (Val.ofNat (PyModeS.df m)).beq y) = true := by
      rcases hd with hd | hd <;> rw [hd] <;> decide
    simp only [this, Bool.not_true, pyTruth, Val.truth, Bool.not_false, hd, if_true]
    have e : pySliceNN (Val.str m) 8 10 = .val (.str (slice 8 10 m)) := rfl
    simp only [e, Res.bind_val, hex2bin_str _ (isHex_slice h 8 10) hne, pySliceNN_ofBits, bin2int_ofBits,
      bin2intR_of_length hs, Val.ofOptNat]
    rfl
  · have : (List.any [Val.num 17, Val.num 18] fun y => (Val.ofNat (PyModeS.df m)).beq y) = false := by
      simp only [List.any_cons, List.any_nil, Bool.or_false, Val.ofNat, Val.beq, Bool.or_eq_false_iff, beq_eq_false_iff_ne, ne_eq]
      push Not at hd
      constructor
      · intro e; apply hd.1; exact_mod_cast e
      · intro e; apply hd.2; exact_mod_cast e
    simp [this, pyTruth, Val.truth, hd, Val.ofOptNat]

/-- the 56-bit MB field of a 28-digit frame: `hex2bin(data(msg))` -/
theorem hex2bin_data (m : Msg) (h : IsHex m) (hl : m.length = 28) :
    Gen.py_common.hex2bin (.str (dataM m)) = .val (Val.ofBits (slice 32 88 (hex2binM m))) := by
  rw [dataM_28 m hl]
  have hne : slice 8 22 m ≠ [] := by
    intro e; have := congrArg List.length e; simp [slice, hl] at this
  rw [hex2bin_str _ (isHex_slice h 8 22) hne, hex2binM_slice]

theorem mb_length (m : Msg) (hl : m.length = 28) : (slice 32 88 (hex2binM m)).length = 56 := by
  simp [slice, hex2binM_length, hl]

/-- `dataR` of the hand model on a 112-bit frame -/
theorem dataR_hex (m : Msg) (hl : m.length = 28) :
    dataR (hex2binM m) = .val (slice 32 88 (hex2binM m)) := by
  have : (slice 32 88 (hex2binM m)) ≠ [] := by
    intro e; have := congrArg List.length e; rw [mb_length m hl] at this; simp at this
  simp [dataR, hex2binM_length, hl, this]

theorem idxR_of_lt {α} (l : List α) (k : Nat) (h : k < l.length) : idxR l k = .val l[k] := by
  simp [idxR, h]

theorem bin2intR_slice_of_lt (d : Bits) (a b : Nat) (h1 : a < b) (h2 : a < d.length) :
    bin2intR (slice a b d) = .val (PyModeS.bin2int (slice a b d)) := by
  apply bin2intR_of_length
  simp [slice]; omega

/-- `common.allzeros(msg)` -/
theorem allzeros_str (m : Msg) (h : IsHex m) (hl : m.length = 28) :
    Gen.py_common.allzeros (.str m) = .val (.bool (PyModeS.bin2int (slice 32 88 (hex2binM m)) = 0)) := by
  unfold Gen.py_common.allzeros
  have hpos : 0 < (slice 32 88 (hex2binM m)).length := by rw [mb_length m hl]; decide
  simp only [data_str, Res.bind_val, hex2bin_data m h hl, bin2int_ofBits, bin2intR_of_length hpos, Val.ofNat,
    pyGt_num]
  by_cases hz : PyModeS.bin2int (slice 32 88 (hex2binM m)) = 0
  · simp [hz]
  · have : (0 : Rat) < (PyModeS.bin2int (slice 32 88 (hex2binM m)) : Rat) := by
      exact_mod_cast Nat.pos_of_ne_zero hz
    simp [hz, this]

/-- `common.wrongstatus(d, sb, msb, lsb)` on a bit string, 1-based positions as in the source -/
theorem wrongstatus_ofBits (d : Bits) (sb msb lsb : Nat) (h1 : 1 ≤ sb) (h2 : 1 ≤ msb) :
    Gen.py_common.wrongstatus (Val.ofBits d) (Val.ofNat sb) (Val.ofNat msb) (Val.ofNat lsb) =
      (PyModeS.wrongstatus d sb msb lsb >>= fun b => .val (.bool b)) := by
  unfold Gen.py_common.wrongstatus PyModeS.wrongstatus
  have e1 : pySub (Val.ofNat sb) (Val.num 1) = .val (Val.ofNat (sb - 1)) := by
    simp [Val.ofNat, Nat.cast_sub h1]
  have e2 : pySub (Val.ofNat msb) (Val.num 1) = .val (Val.ofNat (msb - 1)) := by
    simp [Val.ofNat, Nat.cast_sub h2]
  have e3 : Py.pyIdx (Val.ofBits d) (Val.ofNat (sb - 1)) = pyIdxN (Val.ofBits d) (sb - 1) := by
    have : ¬ (((sb - 1 : Nat) : Int) < 0) := by omega
    simp only [Py.pyIdx, int?_ofNat, pyIdxN, Val.ofBits, idxList, this, if_false, Int.toNat_natCast]
  have e4 : pySlice (Val.ofBits d) (some (Val.ofNat (msb - 1))) (some (Val.ofNat lsb)) =
      .val (Val.ofBits (slice (msb - 1) lsb d)) := by
    have i0 : ∀ n : Nat, optInt (some (Val.ofNat n)) = .val (some (n : Int)) := by
      intro n
      have := int?_ofNat n
      unfold Val.ofNat at this ⊢
      simp only [optInt, this]
    have i1 := i0 (msb - 1)
    have i2 := i0 lsb
    simp only [pySlice, i1, i2, Res.bind_val, Val.ofBits, sliceList, normBound_nonneg,
      List.length_map]
    simp only [slice, List.map_take, List.map_drop]
    congr 2
    rcases Nat.lt_or_ge d.length (msb - 1) with hlt | hge
    · rw [Nat.min_eq_right (Nat.le_of_lt hlt), List.drop_eq_nil_of_le (by simp), List.drop_eq_nil_of_le (by simp; omega)]
      simp
    · rw [Nat.min_eq_left hge]
      rcases Nat.lt_or_ge d.length lsb with hlt2 | hge2
      · rw [Nat.min_eq_right (Nat.le_of_lt hlt2)]
        rw [List.take_of_length_le (by simp only [List.length_drop, List.length_map]; omega),
          List.take_of_length_le (by simp only [List.length_drop, List.length_map]; omega)]
      · rw [Nat.min_eq_left hge2]
  simp only [e1, e2, e3, e4, Res.bind_val, pyIdxN_ofBits, bin2int_ofBits]
  cases hi : idxR d (sb - 1) with
  | rte => rfl
  | exc => rfl
  | val s =>
    simp only [Res.bind_val, pyInt1_digit]
    cases hv : bin2intR (slice (msb - 1) lsb d) with
    | rte => rfl
    | exc => rfl
    | val v =>
      simp only [Res.bind_val]
      cases s <;> by_cases hz : v = 0 <;> simp [pyNot, Val.truth, pyTruth, Val.ofNat, hz, pure]

theorem allzerosB_hex (m : Msg) (hl : m.length = 28) :
    allzerosB (hex2binM m) = .val (decide (PyModeS.bin2int (slice 32 88 (hex2binM m)) = 0)) := by
  simp [allzerosB, dataR_hex m hl]

/-- the five `wrongstatus` literals of a register, in the `Val.num` form the generated code uses -/
theorem ws_lit (d : Bits) (sb msb lsb : Nat) (h1 : 1 ≤ sb) (h2 : 1 ≤ msb) :
    Gen.py_common.wrongstatus (Val.ofBits d) (.num (sb : Rat)) (.num (msb : Rat)) (.num (lsb : Rat)) =
      (PyModeS.wrongstatus d sb msb lsb >>= fun b => .val (.bool b)) :=
  wrongstatus_ofBits d sb msb lsb h1 h2


/-! ### tactics shared by the per-module tie files -/

set_option hygiene false in
/-- common opening of a Comm-B field decoder: both sides read the MB field `d` of 56 bits -/
macro "commb_open" m:ident h:ident hl:ident : tactic => `(tactic|
  (simp only [data_str, Res.bind_val, hex2bin_data $m $h $hl, dataR_hex $m $hl]
   have hd := mb_length $m $hl
   generalize slice 32 88 (hex2binM $m) = d at hd ⊢))

set_option hygiene false in
/-- evaluate both sides on the symbolic 56-bit field and finish by case analysis and field arithmetic -/
macro "commb_close" : tactic => `(tactic|
  (simp [sfield, ufield, wrap360, idxR_of_lt, hd, bin2intR_slice_of_lt, Val.ofNat, Val.ofOptRat]
   try (split_ifs <;> simp_all [Val.ofOptRat] <;> (try push_cast) <;> (try ring_nf) <;> (try linarith))
   all_goals (try (split_ifs <;> (try ring_nf at *) <;> (try linarith)))))

/-- case analysis on an opaque `Res Bool` subterm occurring on both sides (`wrongstatus …`):
    closes the finished branches, leaves the one that continues -/
macro "res_bool" t:term : tactic => `(tactic|
  (generalize $t = r
   rcases r with ((_ | _) | _ | _)
   all_goals try (simp only [Res.bind_val, Res.bind_rte, Res.bind_exc, Res.pure_eq, pyTruth_bool, Bool.not_true,
     Bool.not_false, Bool.false_eq_true, if_true, if_false])))

/-- case analysis on an opaque `Res (Option Rat)` subterm occurring on both sides (a field decoder) -/
macro "res_opt" t:term : tactic => `(tactic|
  (generalize $t = r
   rcases r with ((_ | _) | _ | _)
   all_goals try (simp only [Res.bind_val, Res.bind_rte, Res.bind_exc, Res.pure_eq, Val.ofOptRat, optAbsGt, optGt,
     pyIsNot_none_num, pyIsNot_none_none, pyTruth_bool, pyAbs_num, pyGt_num, pySub_num, Bool.false_eq_true,
     if_true, if_false, rabs, gt_iff_lt])))


end PyModeS.Tie
