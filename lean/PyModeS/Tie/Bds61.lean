/-
  Tie: generated `bds61.py` (ADS-B TC 28, aircraft status) = hand model (`Model/Adsb.lean`)
  on every 28-digit hex frame.  The decoders read the whole frame (`hex2bin(msg)`, `mb = msgbin[32:]`).
  Helper lemmas are `private` (the same ones are repeated in `Tie/Bds62.lean`).
-/
import PyModeS.Tie.Basic
import PyModeS.Generated.Src.bds61
import Mathlib.Tactic.SplitIfs

-- symbolic execution of long generated `do` blocks: generous but finite budget (proof times are seconds)
set_option maxHeartbeats 1000000

set_option linter.unusedSimpArgs false
set_option linter.unusedTactic false
set_option linter.unreachableTactic false
namespace PyModeS.Tie
open PyModeS PyModeS.Py PyModeS.CRC

/-- `common.typecode(msg)` in terms of the bit string of the frame -/
private theorem typecode_hex (m : Msg) (h : IsHex m) (hl : 10 ≤ m.length) :
    Gen.py_common.typecode (.str m) = .val (Val.ofOptNat (tcB (hex2binM m))) := by
  rw [typecode_str m h hl, typecode_eq]

/-- `typecode(msg) != k` -/
private theorem pyNe_ofOptNat (o : Option Nat) (k : Nat) :
    pyNe (Val.ofOptNat o) (.num (k : Rat)) = .val (.bool (decide (o ≠ some k))) := by
  rcases o with _ | n
  · simp [pyNe, Val.ofOptNat, Val.beq]
  · simp only [pyNe, Val.ofOptNat, Val.beq]
    by_cases e : n = k
    · simp [e]
    · have : ¬ ((n : Rat) = (k : Rat)) := by exact_mod_cast e
      simp [e, this]

/-- a natural number compared with a numeric literal in `Rat` -/
@[simp] private theorem natCast_eq_lit (n k : Nat) [k.AtLeastTwo] :
    ((n : Rat) = ofNat(k)) ↔ n = ofNat(k) := by
  rw [← Nat.cast_ofNat (R := Rat)]; exact Nat.cast_inj

private theorem frame_length (m : Msg) (hl : m.length = 28) : (hex2binM m).length = 112 := by
  rw [hex2binM_length, hl]

set_option hygiene false in
/-- common opening of an ADS-B decoder that reads the whole frame: the type code test becomes a test on
    `tcB bits`, and both sides read the 112-bit frame `bits` -/
macro "adsb61_open" m:ident h:ident hl:ident k:term : tactic => `(tactic|
  (have hne : $m ≠ [] := by intro e; rw [e] at $hl:ident; simp at $hl:ident
   have hk := pyNe_ofOptNat (tcB (hex2binM $m)) $k
   simp only [Nat.cast_ofNat] at hk
   simp only [typecode_hex $m $h (by omega), Res.bind_val, hk, pyTruth_bool, hex2bin_str $m $h hne,
     pySliceFrom_ofBits]
   have hb := frame_length $m $hl
   generalize hex2binM $m = bits at hb ⊢))

set_option hygiene false in
/-- name the ME field `mb = bits[32:]` (80 bits: ME and parity) and forget the frame -/
macro "adsb61_mb" : tactic => `(tactic|
  (have hd : (List.drop 32 bits).length = 80 := by rw [List.length_drop, hb]
   generalize tcB bits = tc
   generalize List.drop 32 bits = d at hd ⊢))

set_option hygiene false in
macro "adsb61_close" : tactic => `(tactic|
  (by_cases htc : tc = some 28 <;>
    simp [htc, idxR_of_lt, hd, bin2intR_slice_of_lt, Val.ofNat, Val.ofOptRat] <;>
    try (split_ifs <;> simp_all) <;> try (split_ifs <;> simp_all)))

theorem emergency_state_tie (m : Msg) (h : IsHex m) (hl : m.length = 28) :
    Gen.bds61.emergency_state (.str m) = (PyModeS.emergencyState (hex2binM m) >>= fun n => .val (Val.ofNat n)) := by
  unfold Gen.bds61.emergency_state PyModeS.emergencyState
  adsb61_open m h hl 28
  adsb61_mb
  adsb61_close

theorem is_emergency_tie (m : Msg) (h : IsHex m) (hl : m.length = 28) :
    Gen.bds61.is_emergency (.str m) = (PyModeS.isEmergency (hex2binM m) >>= fun b => .val (.bool b)) := by
  unfold Gen.bds61.is_emergency PyModeS.isEmergency
  adsb61_open m h hl 28
  adsb61_mb
  adsb61_close

/-! ### `common.squawk` -/

private theorem charsSubset_ofBits (b : Bits) :
    pyCharsSubset (Val.ofBits b) (.str ['0', '1']) = .val (.bool true) := by
  simp only [pyCharsSubset, Val.ofBits, List.all_map]
  congr 2
  rw [List.all_eq_true]
  intro x _
  cases x <;> rfl

private theorem len13 (b : Bits) (hlen : b.length = 13) :
    ∃ C1 A1 C2 A2 C4 A4 X B1 D1 B2 D2 B4 D4, b = [C1, A1, C2, A2, C4, A4, X, B1, D1, B2, D2, B4, D4] := by
  match b, hlen with
  | [C1, A1, C2, A2, C4, A4, X, B1, D1, B2, D2, B4, D4], _ => exact ⟨_, _, _, _, _, _, _, _, _, _, _, _, _, rfl⟩

private theorem pyAdd_str (x y : List Char) : pyAdd (.str x) (.str y) = .val (.str (x ++ y)) := rfl

private theorem pyStr_ofNat (n : Nat) : pyStr (Val.ofNat n) = .val (.str (Nat.repr n).toList) := by
  have := int?_ofNat n
  unfold Val.ofNat at this
  simp only [pyStr, Val.ofNat, this]
  rfl

/-- the text Python builds from the four octal digits: `str(byte1) + str(byte2) + str(byte3) + str(byte4)` -/
def squawkText (l : List Nat) : List Char := l.flatMap fun n => (Nat.repr n).toList

theorem squawk_bits_tie (b : Bits) :
    Gen.py_common.squawk (Val.ofBits b) = (PyModeS.squawk b >>= fun l => .val (.str (squawkText l))) := by
  unfold Gen.py_common.squawk
  simp only [ofBits_length, Res.bind_val, charsSubset_ofBits]
  by_cases hlen : b.length = 13
  · have hg : pyNe (Val.ofNat 13) (Val.num 13) = .val (.bool false) := by
      simp [pyNe, Val.beq, Val.ofNat]
    rw [hlen]
    simp only [hg, Res.bind_val, Res.pure_eq, pyTruth_bool, pyNot_bool, Bool.not_true, Bool.false_eq_true, if_false]
    obtain ⟨C1, A1, C2, A2, C4, A4, X, B1, D1, B2, D2, B4, D4, rfl⟩ := len13 b hlen
    have ix : ∀ (l : Bits) (k : Nat) (x : Bool), l[k]? = some x → pyIdxN (Val.ofBits l) k = .val (.str [x.toDigit]) := by
      intro l k x hx
      simp [pyIdxN_ofBits, idxR, hx]
    rw [ix _ 0 C1 rfl, Res.bind_val, ix _ 1 A1 rfl, Res.bind_val, ix _ 2 C2 rfl, Res.bind_val, ix _ 3 A2 rfl, Res.bind_val,
      ix _ 4 C4 rfl, Res.bind_val, ix _ 5 A4 rfl, Res.bind_val, ix _ 7 B1 rfl, Res.bind_val, ix _ 8 D1 rfl, Res.bind_val,
      ix _ 9 B2 rfl, Res.bind_val, ix _ 10 D2 rfl, Res.bind_val, ix _ 11 B4 rfl, Res.bind_val, ix _ 12 D4 rfl, Res.bind_val]
    have e3 : ∀ x y z : Bool, (Val.str [x.toDigit, y.toDigit, z.toDigit]) = Val.ofBits [x, y, z] := fun _ _ _ => rfl
    have e4 : ∀ x y z : Bool, bin2intR [x, y, z] = .val (PyModeS.bin2int [x, y, z]) := fun _ _ _ => rfl
    simp only [pyAdd_str, List.cons_append, List.nil_append, e3, pyInt2_ofBits, e4, Res.bind_val, pyStr_ofNat, PyModeS.squawk]
    simp [squawkText]
  · have e : PyModeS.squawk b = .rte := by
      unfold PyModeS.squawk
      split
      · simp at hlen
      · rfl
    have hn : ¬ ((b.length : Rat) = 13) := by exact_mod_cast hlen
    have hg : pyNe (Val.ofNat b.length) (Val.num 13) = .val (.bool true) := by
      simp [pyNe, Val.beq, Val.ofNat, hn]
    simp only [hg, e, Res.bind_val, Res.bind_rte, Res.pure_eq, pyTruth_bool, if_true]

/-- `emergency_squawk` returns the squawk as text; the hand model returns the four octal digits, rendered here as
    Python renders them (`str` of each digit, concatenated: `squawkText`) -/
theorem emergency_squawk_tie (m : Msg) (h : IsHex m) (hl : m.length = 28) :
    Gen.bds61.emergency_squawk (.str m) =
      (PyModeS.emergencySquawk (hex2binM m) >>= fun l => .val (.str (squawkText l))) := by
  unfold Gen.bds61.emergency_squawk PyModeS.emergencySquawk
  adsb61_open m h hl 28
  simp only [pySliceNN_ofBits, Res.bind_val, squawk_bits_tie]
  by_cases htc : tcB bits = some 28 <;> simp [htc]

end PyModeS.Tie
