/-
  C13 / C14 transported to the source-generated definitions of bds61.py / bds62.py: type-code guards and the selected
  heading specification stated about `Gen.bds61.*` / `Gen.bds62.*` (the Lean text py2lean.py produced from the current
  source), by composing the tie theorems with `Properties/C13.lean`.
-/
import PyModeS.Properties.C13
import PyModeS.Tie.Bds61
import PyModeS.Tie.Bds62

-- symbolic execution of long generated `do` blocks: generous but finite budget (proof times are seconds)
set_option maxHeartbeats 1000000
namespace PyModeS.C13Gen
open PyModeS PyModeS.Py PyModeS.CRC PyModeS.C13

theorem frame_bits (m : Msg) (hl : m.length = 28) : (hex2binM m).length = 112 := by
  rw [hex2binM_length, hl]

/-- every generated TC29 decoder raises RuntimeError unless the type code is 29 -/
theorem tc29_guards_tie (m : Msg) (h : IsHex m) (hl : m.length = 28) (htc : tcB (hex2binM m) ≠ some 29) :
    Gen.bds62.selected_altitude (.str m) = .rte ∧ Gen.bds62.target_altitude (.str m) = .rte ∧
    Gen.bds62.vertical_mode (.str m) = .rte ∧ Gen.bds62.horizontal_mode (.str m) = .rte ∧
    Gen.bds62.selected_heading (.str m) = .rte ∧ Gen.bds62.target_angle (.str m) = .rte ∧
    Gen.bds62.baro_pressure_setting (.str m) = .rte ∧ Gen.bds62.autopilot (.str m) = .rte ∧
    Gen.bds62.vnav_mode (.str m) = .rte ∧ Gen.bds62.altitude_hold_mode (.str m) = .rte ∧
    Gen.bds62.approach_mode (.str m) = .rte ∧ Gen.bds62.lnav_mode (.str m) = .rte ∧
    Gen.bds62.tcas_operational (.str m) = .rte ∧ Gen.bds62.tcas_ra (.str m) = .rte ∧
    Gen.bds62.emergency_status (.str m) = .rte := by
  obtain ⟨g1, g2, g3, g4, g5, g6, g7, g8, g9, g10, g11⟩ := tc29_guards (hex2binM m) htc
  refine ⟨?_, ?_, ?_, ?_, ?_, ?_, ?_, ?_, ?_, ?_, ?_, ?_, ?_, ?_, ?_⟩
  · rw [Tie.selected_altitude_tie m h hl, g1]; rfl
  · rw [Tie.target_altitude_tie m h hl, g2]; rfl
  · rw [Tie.vertical_mode_tie m h hl, g3]; rfl
  · rw [Tie.horizontal_mode_tie m h hl, g4]; rfl
  · rw [Tie.selected_heading_tie m h hl, g5]; rfl
  · rw [Tie.target_angle_tie m h hl, g6]; rfl
  · rw [Tie.baro_pressure_setting_tie m h hl, g7]; rfl
  · rw [Tie.autopilot_tie m h hl]; unfold autopilot; rw [g8 47]; rfl
  · rw [Tie.vnav_mode_tie m h hl]; unfold vnavMode; rw [g8 48]; rfl
  · rw [Tie.altitude_hold_mode_tie m h hl]; unfold altitudeHoldMode; rw [g8 49]; rfl
  · rw [Tie.approach_mode_tie m h hl]; unfold approachMode; rw [g8 51]; rfl
  · rw [Tie.lnav_mode_tie m h hl]; unfold lnavMode; rw [g8 53]; rfl
  · rw [Tie.tcas_operational_tie m h hl, g9]; rfl
  · rw [Tie.tcas_ra_tie m h hl, g10]; rfl
  · rw [Tie.emergency_status_tie m h hl, g11]; rfl

/-- the generated TC28 decoders raise RuntimeError unless the type code is 28 -/
theorem tc28_guards_tie (m : Msg) (h : IsHex m) (hl : m.length = 28) (htc : tcB (hex2binM m) ≠ some 28) :
    Gen.bds61.is_emergency (.str m) = .rte ∧ Gen.bds61.emergency_state (.str m) = .rte := by
  constructor
  · rw [Tie.is_emergency_tie m h hl, is_emergency_guard _ htc]; rfl
  · rw [Tie.emergency_state_tie m h hl, emergency_state_guard _ htc]; rfl

/-- selected heading of the generated decoder: status / sign / 8-bit magnitude, the sign bit worth 180 degrees -/
theorem selected_heading_spec_tie (m : Msg) (h : IsHex m) (hl : m.length = 28) (htc : tcB (hex2binM m) = some 29) :
    Gen.bds62.selected_heading (.str m) =
      (selectedHeading (hex2binM m) >>= fun r => .val (Val.ofOptRat r)) ∧
    selectedHeading (hex2binM m) =
      (let bits := hex2binM m
       let st := PyModeS.bin2int (slice 37 39 bits)
       if st = 0 then .rte
       else .val (if bits.getD 61 false then
         some (headingOf (bits.getD 62 false) (PyModeS.bin2int (slice 63 71 bits))) else none)) := by
  refine ⟨Tie.selected_heading_tie m h hl, ?_⟩
  have hb := frame_bits m hl
  rw [selected_heading_spec _ hb htc]
  simp only [List.getD_eq_getElem?_getD, List.getElem?_eq_getElem (show 61 < (hex2binM m).length by omega),
    List.getElem?_eq_getElem (show 62 < (hex2binM m).length by omega), Option.getD_some]

end PyModeS.C13Gen
