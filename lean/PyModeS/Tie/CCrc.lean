/-
  Tie: generated `c_common.crc` / `c_common.icao` (Cython module `src/pyModeS/c_common.pyx`) = hand-written
  C-semantics model `C.crc` / `C.icao` (`Model/CCommon.lean`), then the transports to the generated Python functions.

  Route for `crc`: the byte array `bytearray(hex2bin(msg).encode())` is `natList (O.map byteOf)` for a list
  `O : List (Option Bool)` (`none` = a byte zeroed by the `encode` loop, which decodes to chr(0), whose `char_to_int`
  is 0); the comprehension gives the model's byte list; the two nested loops are those of `Tie/Crc.lean` with two more
  `long` conversions of values ≤ 128; all bytes stay below 256, so the final `long` conversion does not wrap.

  Helper lemmas live in `PyModeS.Tie.CCrcTie`; the results in `PyModeS.Tie`.
-/
import PyModeS.Tie.CBasic
import PyModeS.Tie.Icao
set_option maxHeartbeats 1000000
set_option linter.unusedSimpArgs false
set_option linter.style.nameCheck false
namespace PyModeS.Tie.CCrcTie
open PyModeS PyModeS.Py PyModeS.CRC PyModeS.CC CrcTie CB

/-! ### primitives -/

theorem cConvBint_bool (e : Bool) : cConvBint (.bool e) = .val (.bool e) := rfl

theorem pyFloorDiv_ofNat' (n d : Nat) (hd : d ≠ 0) :
    pyFloorDiv (Val.ofNat n) (Val.ofNat d) = .val (Val.ofNat (n / d)) := by
  have hd' : ¬ ((d : Rat) = 0) := by exact_mod_cast hd
  have hf : Rat.floor ((n : Rat) / (d : Rat)) = ((n / d : Nat) : Int) := by
    have : Rat.floor ((n : Rat) / (d : Rat)) = ⌊((n : Rat) / (d : Rat))⌋ := rfl
    rw [this, Rat.floor_natCast_div_natCast]; rfl
  simp only [pyFloorDiv, num?_ofNat, hd', if_false, hf, Val.ofNat, Int.cast_natCast, num?_num]

/-- `range(a, b)` for `a ≤ b` -/
theorem pyRange_ofNat2 (a b : Nat) (h : a ≤ b) :
    pyRange (Val.ofNat a) (Val.ofNat b) = .val (.tuple ((List.range (b - a)).map (fun i => Val.ofNat (a + i)))) := by
  simp only [pyRange, int?_ofNat]
  have : ((b : Int) - (a : Int)).toNat = b - a := by omega
  rw [this]
  simp [Val.ofNat]

theorem optInt_ofNat (k : Nat) : optInt (some (Val.ofNat k)) = .val (some (k : Int)) := by
  have := int?_ofNat k
  unfold Val.ofNat at this ⊢
  simp only [optInt, this]

/-- `l[a:b]` on a list of numbers, bounds inside the list -/
theorem pySlice_repr (l : List Nat) (a b : Nat) (ha : a ≤ l.length) (hb : b ≤ l.length) :
    pySlice (natList l) (some (Val.ofNat a)) (some (Val.ofNat b)) = .val (natList (slice a b l)) := by
  have hna : ¬ ((a : Int) < 0) := by omega
  have hnb : ¬ ((b : Int) < 0) := by omega
  simp only [pySlice, optInt_ofNat, bind_val', natList, sliceList, normBound, hna, hnb, if_false, Int.toNat_natCast,
    List.length_map, Nat.min_eq_left ha, Nat.min_eq_left hb, slice_map]

theorem compList_map (f : Val → Res (Option Val)) (enc : Nat → Val) (g : Nat → Val) (l : List Nat)
    (h : ∀ i ∈ l, f (enc i) = .val (some (g i))) : compList f (l.map enc) = .val (l.map g) := by
  induction l with
  | nil => rfl
  | cons i l ih =>
    have h1 := h i (by simp)
    have h2 := ih (fun j hj => h j (List.mem_cons_of_mem _ hj))
    simp only [List.map_cons, compList, h1, h2]

/-! ### the byte array: bit characters and zeroed bytes -/

def byteOf : Option Bool → Nat
  | none => 0
  | some b => b.toDigit.toNat
def charOf : Option Bool → Char
  | none => Char.ofNat 0
  | some b => b.toDigit
def valOf : Option Bool → Bool
  | none => false
  | some b => b

theorem mapM_obits (g : Val → Option Char) (hg : ∀ x : Option Bool, g (Val.ofNat (byteOf x)) = some (charOf x))
    (o : List (Option Bool)) : (List.map Val.ofNat (o.map byteOf)).mapM g = some (o.map charOf) := by
  induction o with
  | nil => rfl
  | cons x o ih => simp only [List.map_cons, List.mapM_cons, ih, hg]; rfl

/-- `b.decode()` of a byte array of '0'/'1'/NUL bytes -/
theorem pyDecode_obits (o : List (Option Bool)) :
    pyDecode (natList (o.map byteOf)) = .val (.str (o.map charOf)) := by
  unfold pyDecode natList
  simp only []
  rw [mapM_obits _ ?_ o]
  intro x
  rcases x with _ | b
  · rfl
  · cases b <;> rfl

theorem isAscii_obits (o : List (Option Bool)) : IsAscii (o.map charOf) := by
  intro c hc
  rw [List.mem_map] at hc
  obtain ⟨x, _, rfl⟩ := hc
  rcases x with _ | b
  · decide
  · cases b <;> decide

theorem accC_obits (o : List (Option Bool)) : accC 2 (o.map charOf) = C.bin2int (o.map valOf) := by
  unfold accC C.bin2int
  rw [List.foldl_map, List.foldl_map]
  congr 1
  funext acc x
  rcases x with _ | b
  · rfl
  · cases b <;> rfl

/-- `bin2int(_msgbin[a:b].decode())` -/
theorem chunk_obits {β} (o : List (Option Bool)) (a b : Nat) (ha : a ≤ o.length) (hb : b ≤ o.length) (hab : b ≤ a + 8)
    (k : Val → Res β) :
    (pySlice (natList (o.map byteOf)) (some (Val.ofNat a)) (some (Val.ofNat b)) >>= fun s =>
      pyDecode s >>= fun d => Gen.c_common.bin2int d >>= k) =
      k (Val.ofNat (C.bin2int (slice a b (o.map valOf))).toNat) := by
  have hl : (slice a b o).length ≤ 8 := by rw [slice_length]; omega
  rw [pySlice_repr _ _ _ (by simpa using ha) (by simpa using hb), bind_val', slice_map, pyDecode_obits, bind_val',
    c_bin2int_str _ (isAscii_obits _) (by rw [List.length_map]; omega), bind_val', accC_obits, slice_map,
    c_bin2int_eq _ (by rw [List.length_map]; omega), ofInt_natCast, Int.toNat_natCast]

theorem pyEncode_ofBits (b : Bits) : pyEncode (Val.ofBits b) = .val (natList ((b.map some).map byteOf)) := by
  rw [Val.ofBits, pyEncode_ascii _ (isAscii_bits b), List.map_map, List.map_map]
  rfl

theorem hex2bin_len (m : Msg) (h : IsAscii m) : (C.hex2bin m).length = 4 * m.length := by
  rw [c_hex2bin_eq_of_ascii m h, hex2binM_length]

/-! ### bytes stay below 256 -/

def Bdd (l : List Nat) : Prop := ∀ x ∈ l, x < 256

theorem Bdd.getD {l : List Nat} (h : Bdd l) (i : Nat) : l.getD i 0 < 256 := by
  rw [List.getD_eq_getElem?_getD]
  rcases hi : l[i]? with _ | x
  · simp
  · simpa using h x (List.mem_of_getElem? hi)

theorem xorAt_bdd (l : List Nat) (i v : Nat) (hl : Bdd l) (hv : v < 256) : Bdd (xorAt l i v) := by
  intro x hx
  rcases List.mem_or_eq_of_mem_set hx with hx | rfl
  · exact hl x hx
  · exact Nat.xor_lt_two_pow (n := 8) (hl.getD i) hv

theorem crcInner_bdd (mb : List Nat) (i j : Nat) (h : Bdd mb) : Bdd (crcInner Tables.crcG mb i j) := by
  have hG0 : Tables.crcG.getD 0 0 = 255 := rfl
  have hG1 : Tables.crcG.getD 1 0 = 250 := rfl
  have hG2 : Tables.crcG.getD 2 0 = 4 := rfl
  have hG3 : Tables.crcG.getD 3 0 = 128 := rfl
  have hand : ∀ x, 255 &&& x < 256 := fun x => Nat.lt_succ_of_le Nat.and_le_left
  unfold crcInner
  simp only [hG0, hG1, hG2, hG3]
  split
  · refine xorAt_bdd _ _ _ (xorAt_bdd _ _ _ (xorAt_bdd _ _ _ (xorAt_bdd _ _ _ h ?_) (hand _)) (hand _)) (hand _)
    exact Nat.lt_of_le_of_lt (Nat.shiftRight_le _ _) (by decide)
  · exact h

theorem crcLoop_bdd (mb : List Nat) (h : Bdd mb) : Bdd (crcLoop Tables.crcG mb) := by
  unfold crcLoop
  generalize List.range (mb.length - 3) = l
  induction l generalizing mb with
  | nil => exact h
  | cons a l ih =>
    rw [List.foldl_cons]
    apply ih
    generalize List.range 8 = l8
    induction l8 generalizing mb with
    | nil => exact h
    | cons b l8 ih8 => rw [List.foldl_cons]; exact ih8 _ (crcInner_bdd _ _ _ h)

theorem last3_lt (l : List Nat) (h : Bdd l) : last3 l < 2 ^ 24 := by
  unfold last3
  have a := h.getD (l.length - 3)
  have b := h.getD (l.length - 2)
  have c := h.getD (l.length - 1)
  refine Nat.or_lt_two_pow (Nat.or_lt_two_pow ?_ ?_) (by omega)
  · rw [Nat.shiftLeft_eq]; omega
  · rw [Nat.shiftLeft_eq]; omega

/-- the byte list of the C model -/
def mbytesOf (bits : Bits) : List Nat :=
  (List.range (bits.length / 8)).map (fun i => (C.bin2int (slice (8 * i) (8 * i + 8) bits)).toNat)

theorem mbytesOf_length (bits : Bits) : (mbytesOf bits).length = bits.length / 8 := by
  simp [mbytesOf]

theorem mbytesOf_bdd (bits : Bits) : Bdd (mbytesOf bits) := by
  intro x hx
  simp only [mbytesOf, List.mem_map] at hx
  obtain ⟨i, _, rfl⟩ := hx
  have hl : (slice (8 * i) (8 * i + 8) bits).length ≤ 8 := by rw [slice_length]; omega
  rw [c_bin2int_eq _ (by omega), Int.toNat_natCast]
  exact bin2int_lt_of_length_le _ 8 hl

theorem crc_false_eq (m : Msg) : C.crc m false = (last3 (crcLoop Tables.crcG (mbytesOf (C.hex2bin m))) : Int) := rfl
theorem crc_true_eq (m : Msg) :
    C.crc m true = (last3 (crcLoop Tables.crcG
      (mbytesOf (dropLast 24 (C.hex2bin m) ++ List.replicate 24 false))) : Int) := rfl

/-! ### the `encode` loop -/

theorem set_zero (O0 : List (Option Bool)) (a k : Nat) (h : a + k < O0.length) :
    ((O0.take a ++ List.replicate k none ++ O0.drop (a + k)).map byteOf).set (a + k) 0 =
      (O0.take a ++ List.replicate (k + 1) none ++ O0.drop (a + k + 1)).map byteOf := by
  have e0 : (0 : Nat) = byteOf none := rfl
  rw [e0, ← List.map_set]
  congr 1
  have hA : (O0.take a ++ List.replicate k none).length = a + k := by
    rw [List.length_append, List.length_take, List.length_replicate]; omega
  rw [List.replicate_succ', ← List.append_assoc (O0.take a), List.drop_eq_getElem_cons h]
  generalize O0.take a ++ List.replicate k none = A at hA ⊢
  generalize O0[a + k] = x
  generalize O0.drop (a + k + 1) = D
  rw [← hA]
  simp

/-- everything after the `encode` loop, on a byte array of `n` bit characters / zeroed bytes (the text of the
    generated definition from the comprehension on, after the literals 8 have been written `Val.ofNat 8`) -/
theorem crc_rest (n : Nat) (O : List (Option Bool)) (hO : O.length = n) (h24 : 24 ≤ n) (hn : n < 2 ^ 63) :
    Post (do
      let len_mbytes ← cConvSsize (Val.ofNat (n / 8))
      let __do_lift ← pyRange (Val.num 0) len_mbytes
      let __do_lift ←
        pyComp __do_lift fun x__2 => do
            let __do_lift ← pyMul (Val.ofNat 8) x__2
            let __do_lift_1 ← pyMul (Val.ofNat 8) x__2
            let __do_lift_2 ← pyAdd __do_lift_1 (Val.ofNat 8)
            let __do_lift ←
              pySlice (natList (List.map byteOf O)) (some __do_lift) (some __do_lift_2)
            let __do_lift ← pyDecode __do_lift
            let __do_lift ← Gen.c_common.bin2int __do_lift
            pure (some __do_lift)
      let _mbytes ← pyList __do_lift
      let __do_lift ← pySub len_mbytes (Val.num 3)
      let __do_lift ← pyRange (Val.num 0) __do_lift
      let __do_lift ← pyIter __do_lift
      let __s ←
        forIn __do_lift (_mbytes, Val.num 0, Val.num 0, Val.num 0, Val.num 0) fun it__3 __s => do
            let __do_lift ← pyRange (Val.num 0) (Val.ofNat 8)
            let __do_lift ← pyIter __do_lift
            let __s ←
              forIn __do_lift (__s.1, __s.2.1, __s.2.2.1, __s.2.2.2.2) fun it__4 __s => do
                  let __do_lift ← pyShr (Val.num 128) it__4
                  let mask ← cConvLong __do_lift
                  let __do_lift ← Py.pyIdx __s.1 it__3
                  let __do_lift ← pyBitAnd __do_lift mask
                  let bits ← cConvLong __do_lift
                  let __do_lift ← pyGt bits (Val.num 0)
                  if pyTruth __do_lift = true then do
                      let __do_lift ← Py.pyIdx __s.1 it__3
                      let __do_lift_1 ← pyIdxN Gen.c_common._G 0
                      let __do_lift_2 ← pyShr __do_lift_1 it__4
                      let __do_lift ← pyBitXor __do_lift __do_lift_2
                      let _mbytes ← pySetItem __s.1 it__3 __do_lift
                      let __do_lift ← pyAdd it__3 (Val.num 1)
                      let __do_lift_3 ← pyAdd it__3 (Val.num 1)
                      let __do_lift_4 ← Py.pyIdx _mbytes __do_lift_3
                      let __do_lift_5 ← pyIdxN Gen.c_common._G 0
                      let __do_lift_6 ← pySub (Val.ofNat 8) it__4
                      let __do_lift_7 ← pyShl __do_lift_5 __do_lift_6
                      let __do_lift_8 ← pyIdxN Gen.c_common._G 1
                      let __do_lift_9 ← pyShr __do_lift_8 it__4
                      let __do_lift_10 ← pyBitOr __do_lift_7 __do_lift_9
                      let __do_lift_11 ← pyBitAnd (Val.num 255) __do_lift_10
                      let __do_lift_12 ← pyBitXor __do_lift_4 __do_lift_11
                      let _mbytes ← pySetItem _mbytes __do_lift __do_lift_12
                      let __do_lift ← pyAdd it__3 (Val.num 2)
                      let __do_lift_13 ← pyAdd it__3 (Val.num 2)
                      let __do_lift_14 ← Py.pyIdx _mbytes __do_lift_13
                      let __do_lift_15 ← pyIdxN Gen.c_common._G 1
                      let __do_lift_16 ← pySub (Val.ofNat 8) it__4
                      let __do_lift_17 ← pyShl __do_lift_15 __do_lift_16
                      let __do_lift_18 ← pyIdxN Gen.c_common._G 2
                      let __do_lift_19 ← pyShr __do_lift_18 it__4
                      let __do_lift_20 ← pyBitOr __do_lift_17 __do_lift_19
                      let __do_lift_21 ← pyBitAnd (Val.num 255) __do_lift_20
                      let __do_lift_22 ← pyBitXor __do_lift_14 __do_lift_21
                      let _mbytes ← pySetItem _mbytes __do_lift __do_lift_22
                      let __do_lift ← pyAdd it__3 (Val.num 3)
                      let __do_lift_23 ← pyAdd it__3 (Val.num 3)
                      let __do_lift_24 ← Py.pyIdx _mbytes __do_lift_23
                      let __do_lift_25 ← pyIdxN Gen.c_common._G 2
                      let __do_lift_26 ← pySub (Val.ofNat 8) it__4
                      let __do_lift_27 ← pyShl __do_lift_25 __do_lift_26
                      let __do_lift_28 ← pyIdxN Gen.c_common._G 3
                      let __do_lift_29 ← pyShr __do_lift_28 it__4
                      let __do_lift_30 ← pyBitOr __do_lift_27 __do_lift_29
                      let __do_lift_31 ← pyBitAnd (Val.num 255) __do_lift_30
                      let __do_lift_32 ← pyBitXor __do_lift_24 __do_lift_31
                      let _mbytes ← pySetItem _mbytes __do_lift __do_lift_32
                      pure (ForInStep.yield (_mbytes, bits, mask, it__4))
                    else pure (ForInStep.yield (__s.1, bits, mask, it__4))
            pure (ForInStep.yield (__s.1, __s.2.1, __s.2.2.1, it__3, __s.2.2.2))
      let __do_lift ← pySub len_mbytes (Val.num 3)
      let __do_lift ← Py.pyIdx __s.1 __do_lift
      let __do_lift ← pyShl __do_lift (Val.num 16)
      let __do_lift_1 ← pySub len_mbytes (Val.num 2)
      let __do_lift_2 ← Py.pyIdx __s.1 __do_lift_1
      let __do_lift_3 ← pyShl __do_lift_2 (Val.ofNat 8)
      let __do_lift ← pyBitOr __do_lift __do_lift_3
      let __do_lift_4 ← pySub len_mbytes (Val.num 1)
      let __do_lift_5 ← Py.pyIdx __s.1 __do_lift_4
      let __do_lift ← pyBitOr __do_lift __do_lift_5
      let result ← cConvLong __do_lift
      cConvLong result)
    (fun x => x = Val.ofInt (last3 (crcLoop Tables.crcG (mbytesOf (O.map valOf))) : Nat)) := by
  have hn8 : n / 8 < 2 ^ 63 := by omega
  have h3 : 3 ≤ n / 8 := by omega
  have hmbl : (mbytesOf (O.map valOf)).length = n / 8 := by rw [mbytesOf_length, List.length_map, hO]
  rw [cConvSsize_ofNat _ hn8, bind_val', num_zero_ofNat, pyRange_ofNat, bind_val']
  simp only [pyComp, pyIter_tuple, bind_val']
  rw [compList_map _ Val.ofNat (fun i => Val.ofNat (C.bin2int (slice (8 * i) (8 * i + 8) (O.map valOf))).toNat) _ ?hc]
  case hc =>
    intro i hi
    rw [List.mem_range] at hi
    simp only [pyMul_ofNat, bind_val', pyAdd_ofNat]
    rw [chunk_obits O _ _ (by omega) (by omega) (by omega)]
    rfl
  have hmb : Val.tuple ((List.range (n / 8)).map
      (fun i => Val.ofNat (C.bin2int (slice (8 * i) (8 * i + 8) (O.map valOf))).toNat)) =
      natList (mbytesOf (O.map valOf)) := by
    simp only [natList, mbytesOf, List.map_map, List.length_map, hO]
    rfl
  rw [bind_val', Res.pure_eq, bind_val', hmb, pyList_repr, bind_val']
  have hbd := mbytesOf_bdd (O.map valOf)
  generalize mbytesOf (O.map valOf) = mb0 at hmbl hbd ⊢
  have hG : Gen.c_common._G = Val.tuple [Val.ofNat 255, Val.ofNat 250, Val.ofNat 4, Val.ofNat 128] := by
    simp [Gen.c_common._G, Val.ofNat]
  have lit1 : Val.num 1 = Val.ofNat 1 := num_one_ofNat
  have hlen : 3 ≤ mb0.length := by omega
  simp only [lit2, lit3, lit16, lit128, lit255, lit1, hG]
  rw [← hmbl, pySub_ofNat _ _ hlen, bind_val', pyRange_ofNat, bind_val', pyIter_tuple, bind_val']
  refine Post.bind (Post.forIn Val.ofNat
      (fun (t : List Nat) (s : Val × Val × Val × Val × Val) => t.length = mb0.length ∧ s.1 = natList t)
      (fun mb ibyte => (List.range 8).foldl (fun mb ibit => crcInner Tables.crcG mb ibyte ibit) mb)
      _ _ mb0 _ ⟨rfl, rfl⟩ ?step) ?final
  case step =>
    intro ibyte hib mb s hR
    obtain ⟨hmbl', hs⟩ := hR
    have hib' : ibyte + 3 < mb.length := by rw [List.mem_range] at hib; omega
    rcases s with ⟨s1, s2, s3, s4, s5⟩
    simp only at hs
    subst hs
    simp only []
    rw [pyRange_ofNat, bind_val', pyIter_tuple, bind_val']
    refine Post.bind (Post.forIn Val.ofNat
       (fun (t : List Nat) (s : Val × Val × Val × Val) => t.length = mb.length ∧ s.1 = natList t)
       (fun mb ibit => crcInner Tables.crcG mb ibyte ibit) _ _ mb _ ⟨rfl, rfl⟩ ?inner) ?_
    case inner =>
      intro ibit hibit t s hR
      obtain ⟨htl, hs⟩ := hR
      rcases s with ⟨s1, s2, s3, s4⟩
      simp only at hs
      subst hs
      simp only []
      have hi8 : ibit ≤ 8 := by rw [List.mem_range] at hibit; omega
      have hmask : 128 >>> ibit ≤ 128 := Nat.shiftRight_le _ _
      have e1 : cConvLong (Val.ofNat (128 >>> ibit)) = .val (Val.ofNat (128 >>> ibit)) :=
        cConvLong_ofNat _ (by omega)
      have e2 : ∀ x, cConvLong (Val.ofNat (x &&& 128 >>> ibit)) = .val (Val.ofNat (x &&& 128 >>> ibit)) := by
        intro x
        have : x &&& 128 >>> ibit ≤ 128 >>> ibit := Nat.and_le_right
        exact cConvLong_ofNat _ (by omega)
      simp (disch := ((try simp only [List.length_set]); omega)) only [pyShr_ofNat, pyIdx_repr, pyBitAnd_ofNat,
        pyGt_ofNat_zero, bind_val', pyTruth_bool, idx4_0, idx4_1, idx4_2, idx4_3, pyBitXor_ofNat, pySetItem_repr,
        pyAdd_ofNat, pySub_ofNat, pyShl_ofNat, pyBitOr_ofNat, Res.pure_eq, e1, e2]
      rw [crcInner_length, htl]
      have hG0 : Tables.crcG.getD 0 0 = 255 := rfl
      have hG1 : Tables.crcG.getD 1 0 = 250 := rfl
      have hG2 : Tables.crcG.getD 2 0 = 4 := rfl
      have hG3 : Tables.crcG.getD 3 0 = 128 := rfl
      by_cases hbits : t.getD ibyte 0 &&& 128 >>> ibit > 0
      · simp only [hbits, decide_true, if_true]
        refine Post.val ⟨_, rfl, trivial, ?_⟩
        simp only [crcInner, xorAt, hG0, hG1, hG2, hG3, if_pos hbits]
      · simp only [hbits, decide_false, Bool.false_eq_true, if_false]
        refine Post.val ⟨_, rfl, trivial, ?_⟩
        simp only [crcInner, xorAt, hG0, hG1, hG2, hG3, if_neg hbits]
    · rintro ⟨a1, a2, a3, a4⟩ ⟨_, ha⟩
      simp only at ha
      subst ha
      refine Post.val ⟨_, rfl, ?_, rfl⟩
      rw [foldl_crcInner_length, hmbl']
  case final =>
    rintro ⟨a1, a2, a3, a4, a5⟩ ⟨hfl, ha⟩
    simp only at ha
    subst ha
    simp only []
    have hloop : crcLoop Tables.crcG mb0 = (List.range (mb0.length - 3)).foldl
        (fun mb ibyte => (List.range 8).foldl (fun mb ibit => crcInner Tables.crcG mb ibyte ibit) mb) mb0 := rfl
    rw [← hloop] at hfl ⊢
    have hbr := crcLoop_bdd mb0 hbd
    generalize crcLoop Tables.crcG mb0 = r at hfl hbr ⊢
    have hlt := last3_lt r hbr
    have hlast : last3 r = (r.getD (r.length - 3) 0 <<< 16) ||| (r.getD (r.length - 2) 0 <<< 8) |||
        r.getD (r.length - 1) 0 := rfl
    rw [← hfl, pySub_ofNat _ _ (by omega), bind_val', pyIdx_repr _ _ (by omega), bind_val', pyShl_ofNat, bind_val',
      pySub_ofNat _ _ (by omega), bind_val', pyIdx_repr _ _ (by omega), bind_val', pyShl_ofNat, bind_val',
      pyBitOr_ofNat, bind_val', bind_val', pyIdx_repr _ _ (by omega), bind_val',
      pyBitOr_ofNat, bind_val', ← hlast, cConvLong_ofNat _ (by omega), bind_val', cConvLong_ofNat _ (by omega),
      ofInt_natCast]
    exact Post.val rfl

theorem c_crc_core (m : Msg) (h : IsAscii m) (hl : 6 ≤ m.length) (hlen : m.length < 2 ^ 61) (e : Bool) :
    Gen.c_common.crc (.str m) (.bool e) = .val (Val.ofInt (C.crc m e)) := by
  apply Post.eq
  unfold Gen.c_common.crc
  have h63 : 4 * m.length < 2 ^ 63 := by omega
  simp only [cConvStr_str, cConvBint_bool, bind_val', c_hex2bin_tie m h (by omega), pyEncode_ofBits,
    pyBytearray_repr, cConvObj_eq, pyLen_repr, List.length_map, hex2bin_len m h, cConvSsize_ofNat _ h63, lit8,
    pyFloorDiv_ofNat' _ 8 (by decide), pyTruth_bool]
  have hbl := hex2bin_len m h
  cases e
  · simp only [Bool.false_eq_true, if_false, crc_false_eq]
    have := crc_rest (4 * m.length) ((C.hex2bin m).map some) (by rw [List.length_map, hbl]) (by omega) h63
    have hv : ((C.hex2bin m).map some).map valOf = C.hex2bin m := by
      rw [List.map_map]; exact List.map_id _
    rw [hv] at this
    exact this
  · simp only [if_true, crc_true_eq]
    have h24 : 24 ≤ 4 * m.length := by omega
    have lit24' : Val.num 24 = Val.ofNat 24 := by simp [Val.ofNat]
    have e24 : 4 * m.length - (4 * m.length - 24) = 24 := by omega
    rw [cConvSsize_ofNat _ (by omega), bind_val', lit24', pySub_ofNat _ _ h24, bind_val',
      pyRange_ofNat2 _ _ (by omega), bind_val', pyIter_tuple, bind_val', e24]
    have hv0 : ((C.hex2bin m).map some).map valOf = C.hex2bin m := by
      rw [List.map_map]; exact List.map_id _
    have hO0 : ((C.hex2bin m).map some).length = 4 * m.length := by rw [List.length_map, hbl]
    generalize (C.hex2bin m).map some = O0 at hv0 hO0 ⊢
    generalize ha : 4 * m.length - 24 = a
    refine Post.bind (Post.forRange (fun i => Val.ofNat (a + i))
      (fun k (s : Val × Val) => s.1 = natList ((O0.take a ++ List.replicate k none ++ O0.drop (a + k)).map byteOf))
      _ 24 _ ?init ?step) ?fin
    case init => simp
    case step =>
      intro i hi s hs
      rcases s with ⟨s1, s2⟩
      simp only at hs
      subst hs
      simp only []
      have hlt : a + i < O0.length := by omega
      rw [num_zero_ofNat, pySetItem_repr _ _ _ (by
        simp only [List.length_map, List.length_append, List.length_take, List.length_replicate, List.length_drop]
        omega), bind_val', set_zero O0 a i hlt]
      exact Post.val ⟨_, rfl, rfl⟩
    case fin =>
      rintro ⟨s1, s2⟩ hs
      simp only at hs
      subst hs
      simp only []
      have hd : O0.drop (a + 24) = [] := List.drop_eq_nil_of_le (by omega)
      rw [hd, List.append_nil]
      have := crc_rest (4 * m.length) (O0.take a ++ List.replicate 24 none) (by
        simp only [List.length_append, List.length_take, List.length_replicate]; omega) (by omega) h63
      have hv : (O0.take a ++ List.replicate 24 none).map valOf =
          dropLast 24 (C.hex2bin m) ++ List.replicate 24 false := by
        rw [List.map_append, List.map_take, hv0, List.map_replicate, dropLast, hbl, ha]
        rfl
      rw [hv, cConvSsize_ofNat _ (by omega), bind_val'] at this
      exact this


/-! ### `df` (local copy: `c_df_tie` of Tie/CBasic.lean is proved there but was not yet in the built .olean) -/

theorem df_lit24 : Val.num 24 = Val.ofNat 24 := by simp [Val.ofNat]

theorem df_pyGt_ofInt_ofNat (a : Int) (b : Nat) :
    pyGt (Val.ofInt a) (Val.ofNat b) = .val (.bool (decide ((b : Int) < a))) := by
  simp only [Val.ofInt, Val.ofNat, pyGt_num]
  congr 2
  have : ((b : Rat) < (a : Rat)) ↔ ((b : Int) < a) := by
    rw [← Int.cast_natCast (R := Rat) b]; exact Int.cast_lt
  exact decide_eq_decide.mpr this

theorem df_bin2int_idem (b : Bits) : C.wrap64 (C.bin2int b) = C.bin2int b := by
  rw [← accC_bits, accC_idem]

theorem df_tie_local (m : Msg) (h : IsAscii m) : Gen.c_common.df (.str m) = .val (Val.ofNat (C.df m)) := by
  unfold Gen.c_common.df C.df
  have hl2 : (m.take 2).length < 2 ^ 63 := by
    have : (m.take 2).length ≤ 2 := by simp
    omega
  have hl5 : (slice 0 5 (C.hex2bin (m.take 2))).length < 2 ^ 63 := by
    have : (slice 0 5 (C.hex2bin (m.take 2))).length ≤ 5 := by rw [slice_length]; omega
    omega
  have e1 : ∀ k : Nat, pySlice_N (.str m) k = .val (.str (m.take k)) := fun _ => rfl
  have e2 : ∀ b : Bits, cConvStr (Val.ofBits b) = .val (Val.ofBits b) := fun _ => rfl
  simp only [cConvStr_str, bind_val', e1, c_hex2bin_tie _ (isAscii_take h 2) hl2, e2,
    pySliceNN_ofBits, c_bin2int_tie _ hl5, cConvLong_int, df_bin2int_idem, df_lit24, df_pyGt_ofInt_ofNat, pyTruth_bool,
    cConvUchar_ofNat, cConvUchar_int, Res.pure_eq, decide_eq_true_eq]
  split_ifs <;> first | rfl | omega

theorem c_df_lt (m : Msg) : C.df m < 256 := by
  unfold C.df
  simp only []
  split_ifs
  · decide
  · have : (C.bin2int (slice 0 5 (C.hex2bin (List.take 2 m))) % 256) < 256 := Int.emod_lt_of_pos _ (by decide)
    omega

theorem c_crc_nat (m : Msg) (e : Bool) : C.crc m e = ((C.crc m e).toNat : Int) ∧ (C.crc m e).toNat < 2 ^ 24 := by
  have key : ∀ bits, last3 (crcLoop Tables.crcG (mbytesOf bits)) < 2 ^ 24 :=
    fun bits => last3_lt _ (crcLoop_bdd _ (mbytesOf_bdd bits))
  cases e
  · rw [crc_false_eq, Int.toNat_natCast]; exact ⟨rfl, key _⟩
  · rw [crc_true_eq, Int.toNat_natCast]; exact ⟨rfl, key _⟩

end PyModeS.Tie.CCrcTie

namespace PyModeS.Tie
open PyModeS PyModeS.Py PyModeS.CRC PyModeS.CC CrcTie CB CCrcTie

/-- `c_common.crc(msg, encode)` on an ASCII string of at least six characters (any parity: both sides use
    `len // 8` bytes).  `m.length < 2 ^ 61` is forced by `cdef Py_ssize_t len_msgbin = len(_msgbin)` (4 bytes per
    character, converted to a 64-bit signed integer). -/
theorem c_crc_tie (m : Msg) (h : IsAscii m) (hl : 6 ≤ m.length) (hlen : m.length < 2 ^ 61) (e : Bool) :
    Gen.c_common.crc (.str m) (.bool e) = .val (Val.ofInt (C.crc m e)) :=
  c_crc_core m h hl hlen e

/-- `c_common.icao(msg)`: `None` or the 6-character address -/
theorem c_icao_tie (m : Msg) (h : IsAscii m) (hl : 6 ≤ m.length) (hlen : m.length < 2 ^ 61) :
    Gen.c_common.icao (.str m) = .val (Val.ofOptStr (C.icao m)) := by
  unfold Gen.c_common.icao C.icao
  have hin1 := pyIn_ofNat (C.df m) [11, 17, 18]
  have hin2 := pyIn_ofNat (C.df m) [0, 4, 5, 16, 20, 21]
  simp only [List.map_cons, List.map_nil, Nat.cast_ofNat, Nat.cast_zero] at hin1 hin2
  have hsl : pySliceNN (Val.str m) 2 8 = .val (.str (slice 2 8 m)) := rfl
  have hup : ∀ s : Msg, pyUpper (.str s) = .val (.str (s.map Char.toUpper)) := fun _ => rfl
  have hlast : (takeLast 6 m).length ≤ 15 := by simp [takeLast]; omega
  have ha6 : IsAscii (takeLast 6 m) := isAscii_drop h _
  obtain ⟨hc, hclt⟩ := c_crc_nat m true
  have hc0 : cConvLong (Val.ofInt (C.crc m true)) = .val (Val.ofNat (C.crc m true).toNat) := by
    rw [hc, Int.toNat_natCast, ofInt_natCast, cConvLong_ofNat _ (by omega)]
  have hc1 : cConvLong (Val.ofInt (C.hex2int (takeLast 6 m))) = .val (Val.ofNat (C.hex2int (takeLast 6 m)).toNat) := by
    have hb := hexToNatM_lt (takeLast 6 m)
    have h2 : 16 ^ (takeLast 6 m).length ≤ 16 ^ 15 := Nat.pow_le_pow_right (by decide) hlast
    have h3 : (16 : Nat) ^ 15 = 1152921504606846976 := by decide
    rw [c_hex2int_eq_of_ascii _ ha6 hlast, Int.toNat_natCast, ofInt_natCast, cConvLong_ofNat _ (by omega)]
  simp only [cConvStr_str, bind_val', df_tie_local m h, cConvUchar_ofNat, Nat.mod_eq_of_lt (c_df_lt m), hin1, hin2,
    pyTruth_bool, decide_eq_true_eq, hsl, hup, c_crc_tie m h hl hlen true, hc0, pySlice_last6,
    c_hex2int_tie _ ha6 (by omega), hc1, pyBitXor_ofNat, pyFmtHexU6_ofNat, Res.pure_eq, List.mem_cons,
    List.not_mem_nil, or_false]
  split_ifs <;> rfl

/-! ### transports: generated C function = generated Python function -/

/-- on hex frames of whole bytes (at least three) the Cython `crc` returns what the Python `crc` returns -/
theorem c_crc_eq_py_tie (m : Msg) (h : IsHex m) (h2 : m.length % 2 = 0) (hl : 6 ≤ m.length) (hlen : m.length < 2 ^ 61)
    (e : Bool) : Gen.c_common.crc (.str m) (.bool e) = Gen.py_common.crc (.str m) (.bool e) := by
  rw [c_crc_tie m (isAscii_of_isHex h) hl hlen e, crc_tie m h hl e, C15.c_crc_eq m e h h2 hl, ofInt_natCast]

/-- …and the Cython `icao` what the Python `icao` returns -/
theorem c_icao_eq_py_tie (m : Msg) (h : IsHex m) (h2 : m.length % 2 = 0) (hl : 6 ≤ m.length) (hlen : m.length < 2 ^ 61) :
    Gen.c_common.icao (.str m) = Gen.py_common.icao (.str m) := by
  rw [c_icao_tie m (isAscii_of_isHex h) hl hlen, icao_tie m h hl, C15.c_icao_eq m h h2 hl]

/-- the unassigned blocks of `is_icao_assigned` (there is no hand model of this function in `Model/`; this is its
    closed form on the integer value of the address) -/
def icaoAssignedN (n : Nat) : Bool :=
  if 2097152 < n ∧ n < 2621439 then false
  else if 2621440 < n ∧ n < 2686975 then false
  else if 5242880 < n ∧ n < 6291455 then false
  else if 6291456 < n ∧ n < 6815743 then false
  else if 6815744 < n ∧ n < 7274496 then false
  else if 9437184 < n ∧ n < 10485759 then false
  else if 11534336 < n ∧ n < 12582911 then false
  else if 13631488 < n ∧ n < 14680063 then false
  else if 15728640 < n ∧ n < 16777215 then false
  else true

/-- `c_common.is_icao_assigned(icao)` on a string: `False` unless it has six characters, else the block test on
    `hex2int(icao)` (ASCII is needed only for the `encode()` inside `hex2int`) -/
theorem c_is_icao_assigned_tie (s : Msg) (h : IsAscii s) :
    Gen.c_common.is_icao_assigned (.str s) =
      .val (.bool (decide (s.length = 6) && icaoAssignedN (C.hex2int s).toNat)) := by
  unfold Gen.c_common.is_icao_assigned
  have g1 : pyIs (.str s) Val.none = .val (.bool false) := rfl
  have g2 : pyIsInstance (.str s) (Val.str ['s', 't', 'r']) = .val (.bool true) := rfl
  have g3 : pyLen (.str s) = .val (Val.ofNat s.length) := rfl
  simp only [cConvStr_str, bind_val', g1, g2, g3, pyTruth_bool, pyNot_bool, Res.pure_eq, Bool.false_eq_true,
    if_false, Bool.not_true]
  have g4 : pyNe (Val.ofNat s.length) (Val.num 6) = .val (.bool (!decide (s.length = 6))) := by
    have := ofNat_beq s.length 6
    simp only [Nat.cast_ofNat] at this
    simp only [pyNe, this]
  rw [g4, bind_val']
  by_cases hl : s.length = 6
  · have hb := hexToNatM_lt s
    rw [hl] at hb
    have hc : cConvLong (Val.ofInt (C.hex2int s)) = .val (Val.ofNat (C.hex2int s).toNat) := by
      rw [c_hex2int_eq_of_ascii _ h (by omega), Int.toNat_natCast, ofInt_natCast, cConvLong_ofNat _ (by omega)]
    simp only [hl, decide_true, Bool.not_true, pyTruth_bool, Bool.false_eq_true, if_false,
      c_hex2int_tie s h (by omega), bind_val', hc, Bool.true_and]
    generalize (C.hex2int s).toNat = n
    simp only [Val.ofNat, pyLt_num, Nat.ofNat_lt_cast, Nat.cast_lt_ofNat, bind_val', pyTruth_bool, decide_eq_true_eq,
      chain_and, cConvBint_bool, icaoAssignedN]
    split_ifs <;> rfl
  · simp only [hl, decide_false, Bool.not_false, pyTruth_bool, if_true, cConvBint_bool, Bool.false_and]

theorem c_is_icao_assigned_eq_py_tie (s : Msg) (h : IsHex s) :
    Gen.c_common.is_icao_assigned (.str s) = Gen.py_common.is_icao_assigned (.str s) := by
  unfold Gen.c_common.is_icao_assigned Gen.py_common.is_icao_assigned
  have g1 : pyIs (.str s) Val.none = .val (.bool false) := rfl
  have g2 : pyIsInstance (.str s) (Val.str ['s', 't', 'r']) = .val (.bool true) := rfl
  have g3 : pyLen (.str s) = .val (Val.ofNat s.length) := rfl
  simp only [cConvStr_str, bind_val', g1, g2, g3, pyTruth_bool, pyNot_bool, Res.pure_eq, Bool.false_eq_true,
    if_false, Bool.not_true]
  have g4 : pyNe (Val.ofNat s.length) (Val.num 6) = .val (.bool (!decide (s.length = 6))) := by
    have := ofNat_beq s.length 6
    simp only [Nat.cast_ofNat] at this
    simp only [pyNe, this]
  rw [g4, bind_val', bind_val']
  by_cases hl : s.length = 6
  · have hne : s ≠ [] := by intro e; rw [e] at hl; simp at hl
    have hb := hexToNatM_lt s
    rw [hl] at hb
    have hc : cConvLong (Val.ofInt (C.hex2int s)) = .val (Val.ofNat (hexToNatM s)) := by
      rw [c_hex2int_eq_of_ascii _ (isAscii_of_isHex h) (by omega), ofInt_natCast, cConvLong_ofNat _ (by omega)]
    simp only [hl, decide_true, Bool.not_true, pyTruth_bool, Bool.false_eq_true, if_false,
      c_hex2int_tie s (isAscii_of_isHex h) (by omega), bind_val', hc, pyInt2_hex s h hne, cConvBint_bool]
  · simp only [hl, decide_false, Bool.not_false, pyTruth_bool, if_true, cConvBint_bool]

end PyModeS.Tie
