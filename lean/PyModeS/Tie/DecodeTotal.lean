/-
  TOTALITY of the generated `Gen.decode.Decode_process_raw` (companion of `Tie/DecodeDirect.lean`, which proves the
  partial-correctness half): under a well-formedness invariant `WF` of the aircraft table the loops return a value and
  re-establish `WF`.

  Proved: `evict_loop_total_tie` (clean-up loop), `commbBody_total` / `commbLoop_total_tie` (Comm-B loop, every 28-digit
  hex frame), `adsbBody_total_quiet` / `adsbBody_total_ident` / `adsbLoop_total_quiet_tie` (ADS-B loop for DF17/18 frames
  of type code 0, 1–4, 23–28, 30), `process_raw_total_quiet_tie`, `history_total_tie`,
  `history_total_fresh_tie`.
  NOT proved: the ADS-B loop body for type codes 5–22 (velocity / position / NUC-NIC blocks), 29 and 31 (SIL / NAC /
  version blocks); `WF` would have to be extended by the fields those blocks read back (`ver`, `nic_s`, `nic_a`,
  `nic_bc`, `tpos`/`lat`/`lon`, `t0`/`t1` and the stored frames under the keys 0 and 1).
-/
import PyModeS.Tie.DecodeDirect
import PyModeS.Tie.C14Gen
set_option maxHeartbeats 1000000
set_option linter.unusedVariables false
set_option linter.unusedSimpArgs false
open PyModeS PyModeS.Py PyModeS.CRC
namespace PyModeS.Tie.DecodeDirect

/-! ### total correctness -/

/-- `r` returns a value satisfying `Q` -/
def Tot {α} (r : Res α) (Q : α → Prop) : Prop := ∃ a, r = .val a ∧ Q a

theorem Tot.val {α} {Q : α → Prop} {a : α} (h : Q a) : Tot (.val a) Q := ⟨a, rfl, h⟩
theorem Tot.pure {α} {Q : α → Prop} {a : α} (h : Q a) : Tot (pure a : Res α) Q := ⟨a, rfl, h⟩

theorem Tot.bind {α β} {x : Res α} {k : α → Res β} {R : α → Prop} {Q : β → Prop}
    (hx : Tot x R) (hk : ∀ a, R a → Tot (k a) Q) : Tot (x >>= k) Q := by
  obtain ⟨a, rfl, ha⟩ := hx
  rw [bind_val']
  exact hk a ha

theorem Tot.of_val {α β} {x : Res α} {k : α → Res β} {Q : β → Prop}
    (hx : ∃ a, x = .val a) (hk : ∀ a, Tot (k a) Q) : Tot (x >>= k) Q := by
  obtain ⟨a, rfl⟩ := hx
  rw [bind_val']
  exact hk a

theorem Tot.ite {α} {Q : α → Prop} {c : Prop} [Decidable c] {x y : Res α}
    (hx : c → Tot x Q) (hy : ¬ c → Tot y Q) : Tot (if c then x else y) Q := by
  split
  · exact hx ‹_›
  · exact hy ‹_›

theorem Tot.mono {α} {Q Q' : α → Prop} {x : Res α} (h : Tot x Q) (hq : ∀ a, Q a → Q' a) : Tot x Q' := by
  obtain ⟨a, rfl, ha⟩ := h
  exact ⟨a, rfl, hq a ha⟩

/-- loop rule (total correctness) -/
theorem Tot.forIn {σ} (I : σ → Prop) (f : Val → σ → Res (ForInStep σ)) (items : List Val)
    (hstep : ∀ it ∈ items, ∀ s, I s → Tot (f it s) (fun r => ∃ s', r = ForInStep.yield s' ∧ I s')) :
    ∀ s0, I s0 → Tot (forIn items s0 f) I := by
  induction items with
  | nil => intro s0 h0; exact ⟨s0, rfl, h0⟩
  | cons it items ih =>
    intro s0 h0
    rw [List.forIn_cons]
    refine Tot.bind (hstep it (by simp) s0 h0) ?_
    rintro r ⟨s', rfl, hs'⟩
    exact ih (fun it' hit' => hstep it' (List.mem_cons_of_mem _ hit')) s' hs'

/-! ### the well-formedness invariant of the table -/

abbrev tKey : Val := Val.str ['t']

/-- an entry the loops can work with: a dictionary whose `t` and `live` are numbers -/
def EntOK (e : Val) : Prop :=
  ∃ d, e = .dict d ∧ (∃ q, dictFind d tKey = some (.num q)) ∧ (∃ q, dictFind d liveKey = some (.num q))

/-- **the invariant**: keys are strings / `None` without repetition, every entry is a dictionary with numeric `t`, `live` -/
def WF (acs : List (Val × Val)) : Prop := KeysOK acs ∧ ∀ kv ∈ acs, EntOK kv.2

theorem wf_nil : WF [] := by simp [WF, KeysOK, keysOf]

theorem liveOf_of_entOK {e : Val} (h : EntOK e) : ∃ q, liveOf e = some q := by
  obtain ⟨d, rfl, _, q, hq⟩ := h
  exact ⟨q, by simp only [liveOf, hq]; rfl⟩

/-! ### (1) the clean-up loop is total under `WF` and keeps it -/

theorem wf_evict {acs : List (Val × Val)} (h : WF acs) (t timeout : Rat) : WF (evict t timeout acs) :=
  ⟨keysOK_evict h.1 t timeout, fun kv hkv => h.2 kv (List.mem_of_mem_filter hkv)⟩

/-- the generated clean-up loop on a receiver with `t`, `cache_timeout` numeric and a `WF` table returns a value: the
    receiver with the table `evict t timeout acs`, which is `WF` again -/
theorem evict_loop_total_tie (a acs : List (Val × Val)) (t timeout : Rat) (ic : Val)
    (ht : dictFind a (attrKey "t") = some (.num t))
    (hto : dictFind a (attrKey "cache_timeout") = some (.num timeout)) (hwf : WF acs) :
    (∃ ic', forIn (keysOf acs) (mk a acs, ic) evictBody = Res.val (mk a (evict t timeout acs), ic')) ∧
      WF (evict t timeout acs) :=
  ⟨evict_loop_spec a acs t timeout ic ht hto hwf.1 (fun kv hkv => liveOf_of_entOK (hwf.2 kv hkv)), wf_evict hwf t timeout⟩


/-! ### total-correctness walk: syntactic dispatch on goals `Tot x Q` -/

open Lean Elab Tactic Meta in
/-- the computation `x` of a goal `Tot x Q`, with leading `have`s substituted -/
def totComp : TacticM Expr := do
  let g := (← instantiateMVars (← getMainTarget)).consumeMData
  unless g.isAppOfArity ``Tot 3 do throwError "not a Tot goal"
  let mut x := (g.getArg! 1).consumeMData
  for _ in [0:64] do
    if x.isLet then x := (x.letBody!.instantiate1 x.letValue!).consumeMData else break
  return x

open Lean Elab Tactic Meta in
elab "tguard_head " c:ident : tactic => do
  let cname ← realizeGlobalConstNoOverloadWithInfo c
  let x ← totComp
  unless x.getAppFn.isConstOf cname do throwError "head mismatch"

open Lean Elab Tactic Meta in
elab "tguard_bind_head " c:ident : tactic => do
  let cname ← realizeGlobalConstNoOverloadWithInfo c
  let x ← totComp
  unless x.isAppOfArity ``Bind.bind 6 do throwError "not a bind"
  unless (x.getArg! 4).consumeMData.getAppFn.isConstOf cname do throwError "head mismatch"

open Lean Elab Tactic Meta in
elab "tot_beta" : tactic => do
  let g ← getMainGoal
  let t := (← instantiateMVars (← g.getType)).consumeMData
  let x ← totComp
  unless x.getAppFn.isLambda do throwError "not a beta redex"
  let g' ← g.replaceTargetDefEq (mkApp3 t.getAppFn (t.getArg! 0) x.headBeta (t.getArg! 2))
  replaceMainGoal [g']

/-! ### the entry of the current address -/

/-- the numeric fields the loops read back -/
def NumD (d : List (Val × Val)) : Prop :=
  (∃ q, dictFind d tKey = some (.num q)) ∧ (∃ q, dictFind d liveKey = some (.num q))

theorem numD_setPair (key v : Val) (h1 : key ≠ tKey) (h2 : key ≠ liveKey) (d : List (Val × Val)) (h : NumD d) :
    NumD (setPair key v d) := by
  unfold NumD
  rw [dictFind_setPair_ne' (isKey_str _) h1, dictFind_setPair_ne' isKey_liveKey h2]
  exact h

/-- the receiver is `a` with the table `l0` in which the entry of `ic` has been replaced by a dictionary `d` with `P d` -/
def St (a l0 : List (Val × Val)) (ic : Val) (P : List (Val × Val) → Prop) (self : Val) : Prop :=
  ∃ d, self = mk a (setPair ic (.dict d) l0) ∧ P d

def IsTup (v : Val) : Prop := ∃ l, v = .tuple l

/-- `self.acs[ic][key] = v` succeeds on such a receiver -/
theorem tot_setfield {β} {a l0 : List (Val × Val)} {ic self : Val} {P P' : List (Val × Val) → Prop}
    {key v : Val} {K : Val → Res β} {Q : β → Prop} (hic : IsKey ic) (hS : St a l0 ic P self)
    (htr : ∀ d, P d → P' (setPair key v d)) (hK : ∀ self', St a l0 ic P' self' → Tot (K self') Q) :
    Tot (pyGetAttr self "acs" >>= fun x => Py.pyIdx x ic >>= fun y => pySetItem y key v >>= fun s1 =>
      pyGetAttr self "acs" >>= fun x' => pySetItem x' ic s1 >>= fun s2 => pySetAttr self "acs" s2 >>= K) Q := by
  obtain ⟨d, rfl, hP⟩ := hS
  rw [get_acs, bind_val']
  simp only [Py.pyIdx, dictFind_setPair_self (beq_key_self hic), bind_val', pySetItem,
    setPair_setPair (beq_key_self hic), set_acs]
  exact hK _ ⟨_, rfl, htr d hP⟩

/-- `self.acs[ic]` (read) -/
theorem tot_idx_acs {β} {a l0 : List (Val × Val)} {ic self : Val} {P : List (Val × Val) → Prop}
    {K : Val → Res β} {Q : β → Prop} (hic : IsKey ic) (hS : St a l0 ic P self)
    (hK : ∀ d, P d → Tot (K (.dict d)) Q) :
    Tot (pyGetAttr self "acs" >>= fun x => Py.pyIdx x ic >>= K) Q := by
  obtain ⟨d, rfl, hP⟩ := hS
  rw [get_acs, bind_val']
  simp only [Py.pyIdx, dictFind_setPair_self (beq_key_self hic), bind_val']
  exact hK d hP

theorem tot_append {β} {ob v : Val} {K : Val → Res β} {Q : β → Prop} (h : IsTup ob)
    (hK : ∀ ob', IsTup ob' → Tot (K ob') Q) : Tot (pyAppend ob v >>= K) Q := by
  obtain ⟨l, rfl⟩ := h
  exact hK _ ⟨_, rfl⟩

macro "key_ne'" : tactic => `(tactic| (intro h; injection h with h; revert h; decide))

/-- one step of the Comm-B walk (the invariant is `St a l0 ic NumD` on the receiver and `IsTup` on the output list) -/
macro "tot_step" : tactic => `(tactic| first
  | (tguard_bind_head pyGetAttr
     refine tot_setfield (by assumption) (by assumption) (numD_setPair _ _ ?h1 ?h2) (fun self' hS' => ?_)
     case h1 => key_ne'
     case h2 => key_ne')
  | (tguard_bind_head pyAppend; refine tot_append (by assumption) (fun ob' hob' => ?_))
  | (tguard_bind_head pyEq; refine Tot.of_val ⟨_, rfl⟩ (fun _ => ?_))
  | (tguard_bind_head Pure.pure; refine Tot.of_val ⟨_, rfl⟩ (fun _ => ?_))
  | (tguard_bind_head Bind.bind; refine Tot.bind (R := fun _ => True) ?_ (fun _ _ => ?_))
  | (tguard_head Bind.bind; refine Tot.of_val (by assumption) (fun _ => ?_))
  | (tguard_head Pure.pure; first
      | exact Tot.pure ⟨_, rfl, by assumption, by assumption⟩
      | exact Tot.pure trivial)
  | (tguard_head ite; refine Tot.ite (fun _ => ?_) (fun _ => ?_))
  | tot_beta)


theorem find_of_hasKey {l : List (Val × Val)} {k : Val} (h : hasKey l k = true) : ∃ e, dictFind l k = some e := by
  have := dictFind_isSome l k
  rw [h] at this
  cases hd : dictFind l k with
  | none => rw [hd] at this; cases this
  | some e => exact ⟨e, rfl⟩

theorem mem_setPair {k v : Val} : ∀ {l : List (Val × Val)} {kv : Val × Val}, kv ∈ setPair k v l → kv ∈ l ∨ kv.2 = v := by
  intro l
  induction l with
  | nil => intro kv h; rw [setPair_nil] at h; right; rw [List.mem_singleton.1 h]
  | cons kv0 l ih =>
    intro kv h
    obtain ⟨k', v'⟩ := kv0
    rw [setPair_cons] at h
    by_cases hb : Val.beq k k' = true
    · rw [if_pos hb] at h
      rcases List.mem_cons.1 h with h | h
      · right; rw [h]
      · left; exact List.mem_cons_of_mem _ h
    · rw [if_neg hb] at h
      rcases List.mem_cons.1 h with h | h
      · left; rw [h]; exact List.mem_cons_self
      · rcases ih h with h | h
        · left; exact List.mem_cons_of_mem _ h
        · right; exact h

theorem mem_of_find {l : List (Val × Val)} {k e : Val} (hf : dictFind l k = some e) : ∃ kv ∈ l, kv.2 = e := by
  unfold dictFind at hf
  cases hfind : l.find? (fun kv => Val.beq k kv.1) with
  | none => rw [hfind] at hf; cases hf
  | some kv => rw [hfind] at hf; cases hf; exact ⟨kv, List.mem_of_find?_eq_some hfind, rfl⟩

theorem entOK_of_numD {d : List (Val × Val)} (h : NumD d) : EntOK (.dict d) := ⟨d, rfl, h.1, h.2⟩

/-- replacing the entry of a key that is present by a good entry keeps `WF` -/
theorem wf_setPair_present {l : List (Val × Val)} {ic e' : Val} (hwf : WF l) (hk : hasKey l ic = true)
    (he : EntOK e') : WF (setPair ic e' l) := by
  refine ⟨?_, fun kv hkv => ?_⟩
  · rw [keysOK_iff, keysOf_setPair, hk, if_pos rfl]; exact hwf.1
  · rcases mem_setPair hkv with h | h
    · exact hwf.2 kv h
    · rw [h]; exact he

theorem numD_set_t {d : List (Val × Val)} (z : Rat) (h : NumD d) : NumD (setPair tKey (.num z) d) := by
  refine ⟨⟨z, dictFind_setPair_self (beq_key_self (isKey_str _)) _ _⟩, ?_⟩
  rw [dictFind_setPair_ne' isKey_liveKey (by intro h; injection h with h; revert h; decide)]
  exact h.2

theorem numD_set_live {d : List (Val × Val)} (z : Rat) (h : NumD d) : NumD (setPair liveKey (.num z) d) := by
  refine ⟨?_, ⟨z, dictFind_setPair_self (beq_key_self isKey_liveKey) _ _⟩⟩
  rw [dictFind_setPair_ne' (isKey_str _) (by intro h; injection h with h; revert h; decide)]
  exact h.1

theorem pyMax2_num (x y : Rat) : ∃ z, pyMax2 (.num x) (.num y) = .val (.num z) := by
  unfold pyMax2
  simp only [Val.num?]
  by_cases h : x < y
  · exact ⟨y, by rw [if_pos h]⟩
  · exact ⟨x, by rw [if_neg h]⟩

abbrev obC (s : Val × Val × Val × Val × Val × Val × Val × Val × Val × Val × Val × Val × Val × Val × Val × Val) : Val :=
  s.2.2.2.2.2.2.2.2.2.2.2.2.2.2.2

/-- **one pass of the Comm-B loop body is total**: numeric time stamp, 28-digit hex frame, `WF` table, output list a
    list; the new table is `WF` again -/
theorem commbBody_total (a l0 : List (Val × Val)) (q : Rat) (m : Msg) (hm : IsHex m) (hl : m.length = 28)
    (s : Val × Val × Val × Val × Val × Val × Val × Val × Val × Val × Val × Val × Val × Val × Val × Val)
    (hs : s.1 = mk a l0) (hwf : WF l0) (hob : IsTup (obC s)) :
    Tot (commbBody (.tuple [.num q, .str m]) s)
      (fun r => ∃ s', r = .yield s' ∧ ∃ l', s'.1 = mk a l' ∧ WF l' ∧ IsTup (obC s')) := by
  unfold commbBody
  extract_lets self0 s13 s12 s11 s10 bds0 s9 r50 s8 t50 s7 rt50 s6 g50 s5 ta50 s4 i60 s3 h60 s2 m60 s1 rb60 s0 ri60 ob0
  have hs0 : self0 = mk a l0 := hs
  have hob0 : IsTup ob0 := hob
  clear_value self0
  subst hs0
  have h0 : pyIdxN (.tuple [Val.num q, Val.str m]) 0 = .val (.num q) := rfl
  have h1 : pyIdxN (.tuple [Val.num q, Val.str m]) 1 = .val (.str m) := rfl
  refine Tot.of_val ⟨_, rfl⟩ (fun _ => ?_)
  rw [h0, bind_val', h1, bind_val', icao_tie m hm (by omega), bind_val']
  have hic : IsKey (Val.ofOptStr (PyModeS.icao m)) := isKey_icaoKey m
  generalize Val.ofOptStr (PyModeS.icao m) = ic at hic ⊢
  refine Tot.bind (R := fun x => x = .dict l0) ⟨_, get_acs _ _, rfl⟩ (fun x hx => ?_)
  subst hx
  rw [pyNotIn_dict, bind_val', pyTruth_bool]
  by_cases hk : hasKey l0 ic = true
  · rw [hk, Bool.not_true, if_neg (by decide)]
    obtain ⟨e, hf⟩ := find_of_hasKey hk
    obtain ⟨kv, hmem, hkv⟩ := mem_of_find hf
    obtain ⟨d0, hd0, hnum⟩ := hwf.2 _ hmem
    rw [hkv] at hd0
    subst hd0
    have hS0 : St a l0 ic NumD (mk a l0) := ⟨d0, by rw [setPair_of_find hf], hnum⟩
    obtain ⟨c1, c2, c3, c4, c5, c6, c7, c8, c9, c10, c11, c12, c13, c14, c15, c16, c17, c18, c19, c20, c21,
      c22, c23, c24, c25, c26, c27, c28, c29, c30, c31, c32, c33, c34, c35, c36, c37, c38, c39, c40, c41,
      c42, c43, c44, c45⟩ := PyModeS.C14Gen.commb_total_tie m hm hl
    have c45' := c45 false
    refine Tot.mono (Q := fun r => ∃ s', r = ForInStep.yield s' ∧ St a l0 ic NumD s'.1 ∧ IsTup (obC s')) ?_ ?_
    swap
    · rintro r ⟨s', rfl, ⟨d, hd, hnd⟩, hobs⟩
      exact ⟨s', rfl, _, hd, wf_setPair_present hwf hk (entOK_of_numD hnd), hobs⟩
    tot_step
    refine tot_idx_acs hic (by assumption) (fun d hd => ?_)
    obtain ⟨⟨qt, hqt⟩, _⟩ := hd
    have hrt : Py.pyIdx (.dict d) (Val.str ['t']) = .val (.num qt) := by simp only [Py.pyIdx, hqt]
    rw [hrt, bind_val']
    obtain ⟨z, hz⟩ := pyMax2_num qt q
    rw [hz, bind_val']
    refine tot_setfield hic (by assumption) (P' := NumD) (fun d hd => numD_set_t z hd) (fun self' hS' => ?_)
    refine tot_idx_acs hic (by assumption) (fun d hd => ?_)
    obtain ⟨_, ⟨ql, hql⟩⟩ := hd
    have hrl : Py.pyIdx (.dict d) (Val.str ['l', 'i', 'v', 'e']) = .val (.num ql) := by simp only [Py.pyIdx, hql]
    rw [hrl, bind_val', pyInt1_num, bind_val']
    obtain ⟨z2, hz2⟩ := pyMax2_num ql (PyModeS.pyInt q : Rat)
    rw [hz2, bind_val']
    refine tot_setfield hic (by assumption) (P' := NumD) (fun d hd => numD_set_live z2 hd) (fun self' hS' => ?_)
    repeat' tot_step
  · have hk' : hasKey l0 ic = false := by simpa using hk
    rw [hk', Bool.not_false, if_pos rfl]
    exact Tot.pure ⟨_, rfl, l0, rfl, hwf, hob0⟩


/-- **the Comm-B loop is total under `WF` and keeps it** (numeric time stamps, 28-digit hex frames) -/
theorem commbLoop_total_tie (a : List (Val × Val)) (pairs : List (Rat × Msg))
    (hhex : ∀ p ∈ pairs, IsHex p.2 ∧ p.2.length = 28) (l0 : List (Val × Val))
    (s : Val × Val × Val × Val × Val × Val × Val × Val × Val × Val × Val × Val × Val × Val × Val × Val)
    (hs : s.1 = mk a l0) (hwf : WF l0) (hob : IsTup (obC s)) :
    Tot (forIn (pairs.map encMsg) s commbBody) (fun s' => ∃ l', s'.1 = mk a l' ∧ WF l' ∧ IsTup (obC s')) := by
  refine Tot.forIn (fun s' => ∃ l', s'.1 = mk a l' ∧ WF l' ∧ IsTup (obC s')) commbBody _ ?_ s ⟨l0, hs, hwf, hob⟩
  intro it hit s1 ⟨l1, hs1, hwf1, hob1⟩
  obtain ⟨p, hp, rfl⟩ := List.mem_map.1 hit
  have := hhex p hp
  exact commbBody_total a l1 p.1 p.2 this.1 this.2 s1 hs1 hwf1 hob1

/-! ### (3) the ADS-B loop body on frames whose type code is outside every decoded range -/

/-- `a <= tc <= b` (a chained comparison of the source) -/
theorem cond_chain (a b n : Nat) (x y : Rat) (hx : x = a) (hy : y = b) :
    (pyLe (.num x) (Val.ofNat n) >>= fun c =>
      if pyTruth c = true then (pure (Val.num y) >>= fun z => pyLe (Val.ofNat n) z) else pure c) =
      .val (.bool (decide (a ≤ n ∧ n ≤ b))) := by
  subst hx hy
  simp only [Val.ofNat, pyLe_num, bind_val', pyTruth_bool, Nat.cast_le, Res.pure_eq]
  by_cases h1 : a ≤ n <;> by_cases h2 : n ≤ b <;> simp [h1, h2]

theorem pyEq_ofNat' (n k : Nat) (x : Rat) (hx : x = k) : pyEq (Val.ofNat n) (.num x) = .val (.bool (decide (n = k))) := by
  subst hx; exact pyEq_ofNat n k

abbrev obA (s : Val × Val × Val × Val × Val × Val × Val × Val × Val × Val × Val × Val × Val × Val × Val × Val × Val × Val) :
    Val := s.2.2.2.2.2.2.2.2.2.2.2.2.2.2.2.2.2

/-- type codes for which `process_raw` calls no decoder at all: 0, 23–28, 30 -/
def QuietTC (n : Nat) : Prop := n = 0 ∨ (23 ≤ n ∧ n ≤ 28) ∨ n = 30

def Pt (d : List (Val × Val)) : Prop := ∃ q, dictFind d tKey = some (.num q)

theorem pt_setPair (key v : Val) (h1 : key ≠ tKey) (d : List (Val × Val)) (h : Pt d) : Pt (setPair key v d) := by
  unfold Pt
  rw [dictFind_setPair_ne' (isKey_str _) h1]
  exact h


theorem wf_setPair_new {l : List (Val × Val)} {ic e' : Val} (hwf : WF l) (hic : IsKey ic) (hk : hasKey l ic = false)
    (he : EntOK e') : WF (setPair ic e' l) := by
  refine ⟨?_, fun kv hkv => ?_⟩
  · rw [keysOK_iff, keysOf_setPair, hk]
    have := keysOKl_addKey hic ((keysOK_iff l).1 hwf.1)
    unfold addKey at this
    rw [← hasKey_eq_any, hk] at this
    exact this
  · rcases mem_setPair hkv with h | h
    · exact hwf.2 kv h
    · rw [h]; exact he

/- the straight-line rest of the ADS-B body once every type-code test has been decided: four item assignments
   (`tc`, `icao`, `t`, `live`) and the chain of join points down to the final `yield` -/
set_option hygiene false in
macro "adsb_quiet_tail" : tactic => `(tactic| (
  refine tot_setfield hic (by assumption) (P' := fun _ => True) (fun _ _ => trivial) (fun self' hS' => ?_)
  refine tot_setfield hic (by assumption) (P' := fun _ => True) (fun _ _ => trivial) (fun self' hS' => ?_)
  refine tot_setfield hic (by assumption) (P' := Pt)
    (fun d _ => ⟨q, dictFind_setPair_self (beq_key_self (isKey_str _)) _ _⟩) (fun self' hS' => ?_)
  rw [pyInt1_num, bind_val']
  refine tot_setfield hic (by assumption) (P' := NumD)
    (fun d hd => ⟨pt_setPair _ _ (by intro h; injection h with h; revert h; decide) d hd,
      ⟨_, dictFind_setPair_self (beq_key_self isKey_liveKey) _ _⟩⟩) (fun self' hS' => ?_)
  repeat' tot_step))

set_option maxRecDepth 100000 in
theorem adsbBody_total_quiet (a l0 : List (Val × Val)) (q : Rat) (m : Msg) (hm : IsHex m) (hl : m.length = 28)
    (n : Nat) (htc : PyModeS.typecode m = some n) (hn : QuietTC n)
    (s : Val × Val × Val × Val × Val × Val × Val × Val × Val × Val × Val × Val × Val × Val × Val × Val × Val × Val)
    (hs : s.1 = mk a l0) (hwf : WF l0) (hob : IsTup (obA s)) :
    Tot (adsbBody (.tuple [.num q, .str m]) s)
      (fun r => ∃ s', r = .yield s' ∧ ∃ l', s'.1 = mk a l' ∧ WF l' ∧ IsTup (obA s')) := by
  unfold adsbBody
  have c14 := cond_chain 1 4 n 1 4 (by norm_num) (by norm_num)
  have c58 := cond_chain 5 8 n 5 8 (by norm_num) (by norm_num)
  have c518 := cond_chain 5 18 n 5 18 (by norm_num) (by norm_num)
  have c918 := cond_chain 9 18 n 9 18 (by norm_num) (by norm_num)
  have c2022 := cond_chain 20 22 n 20 22 (by norm_num) (by norm_num)
  have e19 := pyEq_ofNat' n 19 19 (by norm_num)
  have e29 := pyEq_ofNat' n 29 29 (by norm_num)
  have e31 := pyEq_ofNat' n 31 31 (by norm_num)
  have d14 : decide (1 ≤ n ∧ n ≤ 4) = false := by unfold QuietTC at hn; simp; omega
  have d58 : decide (5 ≤ n ∧ n ≤ 8) = false := by unfold QuietTC at hn; simp; omega
  have d518 : decide (5 ≤ n ∧ n ≤ 18) = false := by unfold QuietTC at hn; simp; omega
  have d918 : decide (9 ≤ n ∧ n ≤ 18) = false := by unfold QuietTC at hn; simp; omega
  have d2022 : decide (20 ≤ n ∧ n ≤ 22) = false := by unfold QuietTC at hn; simp; omega
  have f19 : decide (n = 19) = false := by unfold QuietTC at hn; simp; omega
  have f29 : decide (n = 29) = false := by unfold QuietTC at hn; simp; omega
  have f31 : decide (n = 31) = false := by unfold QuietTC at hn; simp; omega
  rw [d14] at c14; rw [d58] at c58; rw [d518] at c518; rw [d918] at c918; rw [d2022] at c2022
  rw [f19] at e19; rw [f29] at e29; rw [f31] at e31
  have h0 : pyIdxN (.tuple [Val.num q, Val.str m]) 0 = .val (.num q) := rfl
  have h1 : pyIdxN (.tuple [Val.num q, Val.str m]) 1 = .val (.str m) := rfl
  have htcv : Gen.adsb.typecode (.str m) = .val (Val.ofNat n) := by
    rw [PyModeS.Tie.adsb_typecode_tie m hm (by omega), htc]; rfl
  refine Tot.of_val ⟨_, rfl⟩ (fun _ => ?_)
  rw [h0, bind_val', h1, bind_val', icao_tie m hm (by omega), bind_val', htcv, bind_val']
  simp -zeta only [c14, c58, c518, c918, c2022, e19, e29, e31, bind_val', pyTruth_bool, Bool.false_eq_true, if_false]
  rw [hs]
  have hic : IsKey (Val.ofOptStr (PyModeS.icao m)) := isKey_icaoKey m
  generalize Val.ofOptStr (PyModeS.icao m) = ic at hic ⊢
  refine Tot.bind (R := fun x => x = .dict l0) ⟨_, get_acs _ _, rfl⟩ (fun x hx => ?_)
  subst hx
  rw [pyNotIn_dict, bind_val', pyTruth_bool]
  by_cases hk : hasKey l0 ic = true
  · rw [hk, Bool.not_true]
    obtain ⟨e, hf⟩ := find_of_hasKey hk
    obtain ⟨kv, hmem, hkv⟩ := mem_of_find hf
    obtain ⟨d0, hd0, hnum⟩ := hwf.2 _ hmem
    rw [hkv] at hd0
    subst hd0
    have hS0 : St a l0 ic (fun _ => True) (mk a l0) := ⟨d0, by rw [setPair_of_find hf], trivial⟩
    refine Tot.mono (Q := fun r => ∃ s', r = ForInStep.yield s' ∧ St a l0 ic NumD s'.1 ∧ IsTup (obA s')) ?_ ?_
    swap
    · rintro r ⟨s', rfl, ⟨d, hd, hnd⟩, hobs⟩
      exact ⟨s', rfl, _, hd, wf_setPair_present hwf hk (entOK_of_numD hnd), hobs⟩
    refine Tot.ite (fun h => absurd h (by decide)) (fun _ => ?_)
    tot_beta
    adsb_quiet_tail
  · have hk' : hasKey l0 ic = false := by simpa using hk
    rw [hk', Bool.not_false]
    refine Tot.mono (Q := fun r => ∃ s', r = ForInStep.yield s' ∧ St a l0 ic NumD s'.1 ∧ IsTup (obA s')) ?_ ?_
    swap
    · rintro r ⟨s', rfl, ⟨d, hd, hnd⟩, hobs⟩
      exact ⟨s', rfl, _, hd, wf_setPair_new hwf hic hk' (entOK_of_numD hnd), hobs⟩
    refine Tot.ite (fun _ => ?_) (fun h => absurd rfl h)
    rw [get_acs, bind_val']
    simp only [pySetItem, bind_val', set_acs]
    generalize hd3 : (Val.str ['l', 'i', 'v', 'e'], Val.none) :: _ = d3
    have hS0 : St a l0 ic (fun _ => True) (mk a (setPair ic (.dict d3) l0)) := ⟨d3, rfl, trivial⟩
    adsb_quiet_tail


/- the same for identification frames (type code 1–4): `callsign` is decoded and stored -/
set_option maxRecDepth 100000 in
theorem adsbBody_total_ident (a l0 : List (Val × Val)) (q : Rat) (m : Msg) (hm : IsHex m) (hl : m.length = 28)
    (n : Nat) (htc : PyModeS.typecode m = some n) (hn : 1 ≤ n ∧ n ≤ 4)
    (s : Val × Val × Val × Val × Val × Val × Val × Val × Val × Val × Val × Val × Val × Val × Val × Val × Val × Val)
    (hs : s.1 = mk a l0) (hwf : WF l0) (hob : IsTup (obA s)) :
    Tot (adsbBody (.tuple [.num q, .str m]) s)
      (fun r => ∃ s', r = .yield s' ∧ ∃ l', s'.1 = mk a l' ∧ WF l' ∧ IsTup (obA s')) := by
  unfold adsbBody
  have c14 := cond_chain 1 4 n 1 4 (by norm_num) (by norm_num)
  have c58 := cond_chain 5 8 n 5 8 (by norm_num) (by norm_num)
  have c518 := cond_chain 5 18 n 5 18 (by norm_num) (by norm_num)
  have c918 := cond_chain 9 18 n 9 18 (by norm_num) (by norm_num)
  have c2022 := cond_chain 20 22 n 20 22 (by norm_num) (by norm_num)
  have e19 := pyEq_ofNat' n 19 19 (by norm_num)
  have e29 := pyEq_ofNat' n 29 29 (by norm_num)
  have e31 := pyEq_ofNat' n 31 31 (by norm_num)
  have d14 : decide (1 ≤ n ∧ n ≤ 4) = true := by simp; omega
  have d58 : decide (5 ≤ n ∧ n ≤ 8) = false := by simp; omega
  have d518 : decide (5 ≤ n ∧ n ≤ 18) = false := by simp; omega
  have d918 : decide (9 ≤ n ∧ n ≤ 18) = false := by simp; omega
  have d2022 : decide (20 ≤ n ∧ n ≤ 22) = false := by simp; omega
  have f19 : decide (n = 19) = false := by simp; omega
  have f29 : decide (n = 29) = false := by simp; omega
  have f31 : decide (n = 31) = false := by simp; omega
  rw [d14] at c14; rw [d58] at c58; rw [d518] at c518; rw [d918] at c918; rw [d2022] at c2022
  rw [f19] at e19; rw [f29] at e29; rw [f31] at e31
  have h0 : pyIdxN (.tuple [Val.num q, Val.str m]) 0 = .val (.num q) := rfl
  have h1 : pyIdxN (.tuple [Val.num q, Val.str m]) 1 = .val (.str m) := rfl
  have hcs : ∃ v, Gen.bds08.callsign (.str m) = .val v := by
    have hne := (PyModeS.C14Gen.no_exc_adsb_tie m hm hl).2.2.2.2.1
    have hg := (PyModeS.C14Gen.guard_iff_tie m hm hl).2.2.2.2.2.2.2.1
    have hnr : Gen.bds08.callsign (.str m) ≠ .rte := by
      intro hr
      exact hg.1 hr ⟨n, by rw [← PyModeS.typecode_eq, htc], hn⟩
    cases hc : Gen.bds08.callsign (.str m) with
    | val v => exact ⟨v, rfl⟩
    | rte => exact absurd hc hnr
    | exc => exact absurd hc hne
  have htcv : Gen.adsb.typecode (.str m) = .val (Val.ofNat n) := by
    rw [PyModeS.Tie.adsb_typecode_tie m hm (by omega), htc]; rfl
  refine Tot.of_val ⟨_, rfl⟩ (fun _ => ?_)
  rw [h0, bind_val', h1, bind_val', icao_tie m hm (by omega), bind_val', htcv, bind_val']
  simp -zeta only [c14, c58, c518, c918, c2022, e19, e29, e31, bind_val', pyTruth_bool, Bool.false_eq_true, if_false, if_true]
  rw [hs]
  have hic : IsKey (Val.ofOptStr (PyModeS.icao m)) := isKey_icaoKey m
  generalize Val.ofOptStr (PyModeS.icao m) = ic at hic ⊢
  refine Tot.bind (R := fun x => x = .dict l0) ⟨_, get_acs _ _, rfl⟩ (fun x hx => ?_)
  subst hx
  rw [pyNotIn_dict, bind_val', pyTruth_bool]
  by_cases hk : hasKey l0 ic = true
  · rw [hk, Bool.not_true]
    obtain ⟨e, hf⟩ := find_of_hasKey hk
    obtain ⟨kv, hmem, hkv⟩ := mem_of_find hf
    obtain ⟨d0, hd0, hnum⟩ := hwf.2 _ hmem
    rw [hkv] at hd0
    subst hd0
    have hS0 : St a l0 ic (fun _ => True) (mk a l0) := ⟨d0, by rw [setPair_of_find hf], trivial⟩
    refine Tot.mono (Q := fun r => ∃ s', r = ForInStep.yield s' ∧ St a l0 ic NumD s'.1 ∧ IsTup (obA s')) ?_ ?_
    swap
    · rintro r ⟨s', rfl, ⟨d, hd, hnd⟩, hobs⟩
      exact ⟨s', rfl, _, hd, wf_setPair_present hwf hk (entOK_of_numD hnd), hobs⟩
    refine Tot.ite (fun h => absurd h (by decide)) (fun _ => ?_)
    tot_beta
    adsb_quiet_tail
  · have hk' : hasKey l0 ic = false := by simpa using hk
    rw [hk', Bool.not_false]
    refine Tot.mono (Q := fun r => ∃ s', r = ForInStep.yield s' ∧ St a l0 ic NumD s'.1 ∧ IsTup (obA s')) ?_ ?_
    swap
    · rintro r ⟨s', rfl, ⟨d, hd, hnd⟩, hobs⟩
      exact ⟨s', rfl, _, hd, wf_setPair_new hwf hic hk' (entOK_of_numD hnd), hobs⟩
    refine Tot.ite (fun _ => ?_) (fun h => absurd rfl h)
    rw [get_acs, bind_val']
    simp only [pySetItem, bind_val', set_acs]
    generalize hd3 : (Val.str ['l', 'i', 'v', 'e'], Val.none) :: _ = d3
    have hS0 : St a l0 ic (fun _ => True) (mk a (setPair ic (.dict d3) l0)) := ⟨d3, rfl, trivial⟩
    adsb_quiet_tail


/-- ADS-B frames this file proves the loop total for: 28 hex digits, DF 17/18 (`typecode` defined) and a type code for
    which `process_raw` calls no decoder (0, 23–28, 30) or only `callsign` (1–4, identification) -/
def QuietFrame (m : Msg) : Prop :=
  IsHex m ∧ m.length = 28 ∧ ∃ n, PyModeS.typecode m = some n ∧ (QuietTC n ∨ (1 ≤ n ∧ n ≤ 4))

/-- **the ADS-B loop is total under `WF` and keeps it**, for quiet frames -/
theorem adsbLoop_total_quiet_tie (a : List (Val × Val)) (pairs : List (Rat × Msg))
    (hq : ∀ p ∈ pairs, QuietFrame p.2) (l0 : List (Val × Val))
    (s : Val × Val × Val × Val × Val × Val × Val × Val × Val × Val × Val × Val × Val × Val × Val × Val × Val × Val)
    (hs : s.1 = mk a l0) (hwf : WF l0) (hob : IsTup (obA s)) :
    Tot (forIn (pairs.map encMsg) s adsbBody) (fun s' => ∃ l', s'.1 = mk a l' ∧ WF l' ∧ IsTup (obA s')) := by
  refine Tot.forIn (fun s' => ∃ l', s'.1 = mk a l' ∧ WF l' ∧ IsTup (obA s')) adsbBody _ ?_ s ⟨l0, hs, hwf, hob⟩
  intro it hit s1 ⟨l1, hs1, hwf1, hob1⟩
  obtain ⟨p, hp, rfl⟩ := List.mem_map.1 hit
  obtain ⟨h1, h2, n, h3, h4 | h4⟩ := hq p hp
  · exact adsbBody_total_quiet a l1 p.1 p.2 h1 h2 n h3 h4 s1 hs1 hwf1 hob1
  · exact adsbBody_total_ident a l1 p.1 p.2 h1 h2 n h3 h4 s1 hs1 hwf1 hob1

/-! ### (4) the whole method -/

/-- a receiver `process_raw` can be called on: `acs` a `WF` table, `cache_timeout` a number, `dumpto` `None` -/
def RecvOK (self : Val) : Prop :=
  ∃ attrs acs timeout, self = .dict attrs ∧ dictFind attrs (attrKey "acs") = some (.dict acs) ∧ WF acs ∧
    dictFind attrs (attrKey "cache_timeout") = some (.num timeout) ∧
    dictFind attrs (attrKey "dumpto") = some .none

/-- **totality of `Decode.process_raw` (generated)**, quiet ADS-B frames, any 28-digit hex Comm-B frames, numeric time
    stamps and `tnow`: the call returns `(self', None)` and `self'` is again a receiver it can be called on
    (in particular its table is `WF`) -/
theorem process_raw_total_quiet_tie (self : Val) (adsb commb : List (Rat × Msg)) (t : Rat) (hself : RecvOK self)
    (hadsb : ∀ p ∈ adsb, QuietFrame p.2) (hcommb : ∀ p ∈ commb, IsHex p.2 ∧ p.2.length = 28) :
    ∃ self', Gen.decode.Decode_process_raw self (tsOf adsb) (msgsOf adsb) (tsOf commb) (msgsOf commb) (.num t) =
      .val (.tuple [self', .none]) ∧ RecvOK self' := by
  obtain ⟨attrs, acs, timeout, rfl, hacs, hwf, hto, hdump⟩ := hself
  rw [process_raw_decomp]
  have hpyIs : pyIs (.num t) .none = .val (.bool false) := rfl
  rw [hpyIs, bind_val', pyTruth_bool, if_neg (by decide)]
  generalize ha' : setPair (attrKey "t") (.num t) attrs = a'
  have hacs' : dictFind a' (attrKey "acs") = some (.dict acs) := by
    rw [← ha', dictFind_setPair_ne (isKey_attr "t") (isKey_attr "acs") (attrKey_ne (by decide)), hacs]
  have ht' : dictFind a' (attrKey "t") = some (.num t) := by
    rw [← ha', dictFind_setPair_self (beq_key_self (isKey_attr "t"))]
  have hto' : dictFind a' (attrKey "cache_timeout") = some (.num timeout) := by
    rw [← ha', dictFind_setPair_ne (isKey_attr "t") (isKey_attr "cache_timeout") (attrKey_ne (by decide)), hto]
  have hdump' : dictFind a' (attrKey "dumpto") = some .none := by
    rw [← ha', dictFind_setPair_ne (isKey_attr "t") (isKey_attr "dumpto") (attrKey_ne (by decide)), hdump]
  have hset : pySetAttr (.dict attrs) "t" (.num t) = .val (mk a' acs) := by
    rw [← mk_of_find hacs', ← ha']; rfl
  have key : Tot (phases (.dict attrs) (tsOf adsb) (msgsOf adsb) (tsOf commb) (msgsOf commb) (.num t))
      (fun r => ∃ self', r = .tuple [self', .none] ∧ RecvOK self') := by
    unfold phases
    have hit : ∀ l, pyIter (.tuple l) = .val l := fun _ => rfl
    rw [hset, bind_val', pyZip_batch, bind_val', hit, bind_val']
    refine Tot.bind (adsbLoop_total_quiet_tie a' adsb hadsb acs _ rfl hwf ⟨[], rfl⟩) ?_
    rintro s1 ⟨l1, hs1, hwf1, hob1⟩
    rw [pyZip_batch, bind_val', hit, bind_val']
    refine Tot.bind (commbLoop_total_tie a' commb hcommb l1 _ hs1 hwf1 hob1) ?_
    rintro s2 ⟨l2, hs2, hwf2, _⟩
    rw [hs2, get_acs, bind_val']
    have hkeys : pyKeys (.dict l2) = .val (.tuple (keysOf l2)) := rfl
    have hlist : ∀ l, pyList (.tuple l) = .val (.tuple l) := fun _ => rfl
    rw [hkeys, bind_val', hlist, bind_val', hit, bind_val']
    obtain ⟨⟨ic', hev⟩, hwf3⟩ := evict_loop_total_tie a' l2 t timeout s2.2.2.2.1 ht' hto' hwf2
    rw [hev, bind_val']
    have hd : pyGetAttr (mk a' (evict t timeout l2)) "dumpto" = .val .none := by
      rw [get_dumpto]; simp only [pyGetAttr, hdump']
    simp only []
    rw [hd, bind_val']
    have hnn : pyIsNot Val.none Val.none = .val (.bool false) := rfl
    rw [hnn, bind_val', pyTruth_bool, if_neg (by decide)]
    refine Tot.pure ⟨_, rfl, _, evict t timeout l2, timeout, rfl, ?_, hwf3, ?_, ?_⟩
    · exact dictFind_setPair_self (beq_key_self (isKey_attr "acs")) _ _
    · rw [dictFind_setPair_ne (isKey_attr "acs") (isKey_attr "cache_timeout") (attrKey_ne (by decide)), hto']
    · rw [dictFind_setPair_ne (isKey_attr "acs") (isKey_attr "dumpto") (attrKey_ne (by decide)), hdump']
  obtain ⟨r, hr, self', rfl, hok⟩ := key
  exact ⟨self', hr, hok⟩

/-- a call: the ADS-B batch, the Comm-B batch, `tnow` -/
abbrev Call := List (Rat × Msg) × List (Rat × Msg) × Rat

/-- a history of calls, each on the receiver the previous one returned -/
def runHistory : Val → List Call → Res Val
  | self, [] => .val self
  | self, c :: cs =>
    Gen.decode.Decode_process_raw self (tsOf c.1) (msgsOf c.1) (tsOf c.2.1) (msgsOf c.2.1) (.num c.2.2) >>= fun r =>
      pyIdxN r 0 >>= fun self' => runHistory self' cs

/-- **no call of a history ever raises** (quiet ADS-B frames, 28-digit hex Comm-B frames): from any good receiver, in
    particular from the freshly constructed one (`acs = {}`, `WF []`), every call returns and the final receiver is good -/
theorem history_total_tie (self : Val) (calls : List Call) (hself : RecvOK self)
    (hcalls : ∀ c ∈ calls, (∀ p ∈ c.1, QuietFrame p.2) ∧ (∀ p ∈ c.2.1, IsHex p.2 ∧ p.2.length = 28)) :
    ∃ self', runHistory self calls = .val self' ∧ RecvOK self' := by
  induction calls generalizing self with
  | nil => exact ⟨self, rfl, hself⟩
  | cons c cs ih =>
    obtain ⟨self1, h1, hok1⟩ := process_raw_total_quiet_tie self c.1 c.2.1 c.2.2 hself (hcalls c (by simp)).1
      (hcalls c (by simp)).2
    obtain ⟨self', h', hok'⟩ := ih self1 hok1 (fun c' hc' => hcalls c' (List.mem_cons_of_mem _ hc'))
    refine ⟨self', ?_, hok'⟩
    unfold runHistory
    rw [h1, bind_val']
    have : pyIdxN (.tuple [self1, Val.none]) 0 = .val self1 := rfl
    rw [this, bind_val', h']

/-- the freshly constructed `Decode()` (no `latlon`, no `dumpto`): `acs = {}`, `t = 0`, `cache_timeout = 60` -/
def freshDecode : Val :=
  .dict [(attrKey "acs", .dict []), (attrKey "lat0", .none), (attrKey "lon0", .none), (attrKey "t", .num 0),
    (attrKey "cache_timeout", .num 60), (attrKey "dumpto", .none)]

theorem recvOK_fresh : RecvOK freshDecode :=
  ⟨_, [], 60, rfl, by simp [dictFind_cons, attrKey, Val.beq], wf_nil, by simp [dictFind_cons, attrKey, Val.beq],
    by simp [dictFind_cons, attrKey, Val.beq]⟩

theorem history_total_fresh_tie (calls : List Call)
    (hcalls : ∀ c ∈ calls, (∀ p ∈ c.1, QuietFrame p.2) ∧ (∀ p ∈ c.2.1, IsHex p.2 ∧ p.2.length = 28)) :
    ∃ self', runHistory freshDecode calls = .val self' ∧ RecvOK self' :=
  history_total_tie freshDecode calls recvOK_fresh hcalls



end PyModeS.Tie.DecodeDirect
