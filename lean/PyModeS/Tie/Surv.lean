/-
  Tie: generated `decoder/surv.py` and `decoder/allcall.py` = hand model (`Model/Misc.lean`), as exported
  (i.e. including the DF check of each module's decorator).

  The hand model keeps only the numeric fields; where the Python function also returns a text label
  (`fs`, `um`, `capability`) the label is given explicitly by `fsText` / `umText` / `caText` below, so the
  tie is about the complete Python result.
-/
import PyModeS.Tie.Common
import PyModeS.Tie.Icao
import PyModeS.Generated.Src.surv
import PyModeS.Generated.Src.allcall
import PyModeS.Model.Misc

-- symbolic execution of long generated `do` blocks: generous but finite budget (proof times are seconds)
set_option maxHeartbeats 1000000

set_option linter.unusedSimpArgs false
set_option linter.unusedTactic false
set_option linter.unreachableTactic false
set_option linter.style.nameCheck false
namespace PyModeS.Tie
open PyModeS PyModeS.Py PyModeS.CRC

/-! ### the DF guards -/

theorem df_in45 (m : Msg) :
    pyNotIn (Val.ofNat (PyModeS.df m)) (Val.tuple [Val.num 4, Val.num 5]) =
      .val (.bool (!decide (PyModeS.df m ∈ [4, 5]))) := by
  have hin := pyNotIn_ofNat (PyModeS.df m) [4, 5]
  simp only [List.map_cons, List.map_nil, Nat.cast_ofNat] at hin
  exact hin

/-- opening of every `surv` function: the decorator's DF check against the hand model's `survGuard` -/
theorem surv_guard {α} (m : Msg) (K : Res Val) (f : Res α) (enc : α → Res Val)
    (hK : PyModeS.df m = 4 ∨ PyModeS.df m = 5 → K = (f >>= enc)) :
    (if pyTruth (.bool (!decide (PyModeS.df m ∈ [4, 5]))) = true then ((Res.rte : Res PUnit) >>= fun _ => K) else K) =
      (survGuard (hex2binM m) f >>= enc) := by
  unfold survGuard
  simp only []
  rw [← df_eq]
  by_cases hd : PyModeS.df m ∈ [4, 5]
  · have hd' := hd
    simp only [List.mem_cons, List.not_mem_nil, or_false] at hd'
    have : ¬ (PyModeS.df m ≠ 4 ∧ PyModeS.df m ≠ 5) := by omega
    simp only [hd, decide_true, Bool.not_true, pyTruth_bool, Bool.false_eq_true, if_false, this, Res.pure_eq,
      bind_val']
    exact hK hd'
  · have hd' := hd
    simp only [List.mem_cons, List.not_mem_nil, or_false] at hd'
    have : (PyModeS.df m ≠ 4 ∧ PyModeS.df m ≠ 5) := by omega
    simp only [hd, decide_false, Bool.not_false, pyTruth_bool, if_true]
    rw [if_pos this]
    rfl

/-! ### surv.fs -/

/-- the text label `surv.fs` returns next to the FS value -/
def fsText (n : Nat) : Val :=
  if n = 0 then .str "no alert, no SPI, aircraft is airborne".toList
  else if n = 1 then .str "no alert, no SPI, aircraft is on-ground".toList
  else if n = 2 then .str "alert, no SPI, aircraft is airborne".toList
  else if n = 3 then .str "alert, no SPI, aircraft is on-ground".toList
  else if n = 4 then .str "alert, SPI, aircraft is airborne or on-ground".toList
  else if n = 5 then .str "no alert, SPI, aircraft is airborne or on-ground".toList
  else .str []

theorem pyEq_ofNat_lits (n : Nat) :
    pyEq (Val.ofNat n) (Val.num 0) = .val (.bool (decide (n = 0))) ∧
    pyEq (Val.ofNat n) (Val.num 1) = .val (.bool (decide (n = 1))) ∧
    pyEq (Val.ofNat n) (Val.num 2) = .val (.bool (decide (n = 2))) ∧
    pyEq (Val.ofNat n) (Val.num 3) = .val (.bool (decide (n = 3))) ∧
    pyEq (Val.ofNat n) (Val.num 4) = .val (.bool (decide (n = 4))) ∧
    pyEq (Val.ofNat n) (Val.num 5) = .val (.bool (decide (n = 5))) ∧
    pyEq (Val.ofNat n) (Val.num 6) = .val (.bool (decide (n = 6))) ∧
    pyEq (Val.ofNat n) (Val.num 7) = .val (.bool (decide (n = 7))) := by
  have e0 := pyEq_ofNat n 0
  have e1 := pyEq_ofNat n 1
  have e2 := pyEq_ofNat n 2
  have e3 := pyEq_ofNat n 3
  have e4 := pyEq_ofNat n 4
  have e5 := pyEq_ofNat n 5
  have e6 := pyEq_ofNat n 6
  have e7 := pyEq_ofNat n 7
  simp only [Nat.cast_ofNat, Nat.cast_zero, Nat.cast_one] at e0 e1 e2 e3 e4 e5 e6 e7
  exact ⟨e0, e1, e2, e3, e4, e5, e6, e7⟩

/-- `surv.fs(msg)`: the pair (FS, text) -/
theorem fs_tie (m : Msg) (h : IsHex m) (hl : 2 ≤ m.length) :
    Gen.surv.fs (.str m) = (survFs (hex2binM m) >>= fun n => .val (.tuple [Val.ofNat n, fsText n])) := by
  unfold Gen.surv.fs survFs
  simp only [df_str m h hl, bind_val', df_in45]
  apply surv_guard
  intro _
  unfold Gen.surv.fs_undecorated
  have hne : m ≠ [] := by intro e; simp [e] at hl
  have hs : 0 < (slice 5 8 (hex2binM m)).length := by rw [slice_length, hex2binM_length]; omega
  obtain ⟨e0, e1, e2, e3, e4, e5, -, -⟩ := pyEq_ofNat_lits (PyModeS.bin2int (slice 5 8 (hex2binM m)))
  simp only [hex2bin_str m h hne, bind_val', pySliceNN_ofBits, bin2int_ofBits, bin2intR_of_length hs, e0, e1, e2, e3,
    e4, e5, pyTruth_bool, decide_eq_true_eq, Res.pure_eq, fsText]
  split_ifs <;> rfl

/-! ### surv.um -/

/-- the text label `surv.um` returns next to IIS and IDS -/
def umText (ids : Nat) : Val :=
  if ids = 3 then .str "Comm-D interrogator identifier code".toList
  else if ids = 2 then .str "Comm-C interrogator identifier code".toList
  else if ids = 1 then .str "Comm-B interrogator identifier code".toList
  else .none

/-- `surv.um(msg)`: the triple (IIS, IDS, text) -/
theorem um_tie (m : Msg) (h : IsHex m) (hl : 2 ≤ m.length) :
    Gen.surv.um (.str m) =
      (survUm (hex2binM m) >>= fun p => .val (.tuple [Val.ofNat p.1, Val.ofNat p.2, umText p.2])) := by
  unfold Gen.surv.um survUm
  simp only [df_str m h hl, bind_val', df_in45]
  apply surv_guard
  intro _
  unfold Gen.surv.um_undecorated
  have hne : m ≠ [] := by intro e; simp [e] at hl
  simp only [hex2bin_str m h hne, bind_val', pySliceNN_ofBits, bin2int_ofBits]
  generalize bin2intR (slice 13 17 (hex2binM m)) = r1
  rcases r1 with (iis | _ | _)
  swap; · rfl
  swap; · rfl
  generalize bin2intR (slice 17 19 (hex2binM m)) = r2
  rcases r2 with (ids | _ | _)
  swap; · rfl
  swap; · rfl
  obtain ⟨e0, e1, e2, e3, -, -, -, -⟩ := pyEq_ofNat_lits ids
  simp only [bind_val', e0, e1, e2, e3, pyTruth_bool, decide_eq_true_eq, Res.pure_eq, umText]
  split_ifs <;> first | rfl | omega

/-! ### surv.altitude, surv.identity -/

/-- `surv.altitude(msg)` (named `surv_altitude_tie`: `altitude_tie` is `common.altitude`) -/
theorem surv_altitude_tie (m : Msg) (h : IsHex m) (hl : 2 ≤ m.length) :
    Gen.surv.altitude (.str m) = (survAltitude (hex2binM m) >>= fun o => .val (Val.ofOptInt o)) := by
  unfold Gen.surv.altitude survAltitude
  simp only [df_str m h hl, bind_val', df_in45]
  apply surv_guard
  intro _
  unfold Gen.surv.altitude_undecorated
  simp only [altcode_tie m h hl, altcode_eq, Res.pure_eq]

/-- `surv.identity(msg)` -/
theorem identity_tie (m : Msg) (h : IsHex m) (hl : 2 ≤ m.length) :
    Gen.surv.identity (.str m) = (survIdentity (hex2binM m) >>= fun l => .val (Val.ofDigits l)) := by
  unfold Gen.surv.identity survIdentity
  simp only [df_str m h hl, bind_val', df_in45]
  apply surv_guard
  intro _
  unfold Gen.surv.identity_undecorated
  simp only [idcode_tie m h hl, idcode_eq, Res.pure_eq]

/-! ### allcall.py -/

theorem df_ne11 (m : Msg) :
    pyNe (Val.ofNat (PyModeS.df m)) (Val.num 11) = .val (.bool (!decide (PyModeS.df m = 11))) := by
  have := ofNat_beq (PyModeS.df m) 11
  simp only [Nat.cast_ofNat] at this
  simp only [pyNe, this]

/-- opening of every `allcall` function: the decorator's DF check against the hand model's `allcallGuard` -/
theorem allcall_guard {α} (m : Msg) (K : Res Val) (f : Res α) (enc : α → Res Val)
    (hK : PyModeS.df m = 11 → K = (f >>= enc)) :
    (if pyTruth (.bool (!decide (PyModeS.df m = 11))) = true then ((Res.rte : Res PUnit) >>= fun _ => K) else K) =
      (allcallGuard (hex2binM m) f >>= enc) := by
  unfold allcallGuard
  rw [← df_eq]
  by_cases hd : PyModeS.df m = 11
  · simp only [hd, decide_true, Bool.not_true, pyTruth_bool, Bool.false_eq_true, if_false, ne_eq, not_true_eq_false]
    exact hK hd
  · simp only [hd, decide_false, Bool.not_false, pyTruth_bool, if_true, ne_eq, not_false_eq_true]
    rfl

/-- the text label `allcall.capability` returns next to the CA value -/
def caText (n : Nat) : Val :=
  if n = 0 then .str "level 1 transponder".toList
  else if n = 4 then .str "level 2 transponder, ability to set CA to 7, on ground".toList
  else if n = 5 then .str "level 2 transponder, ability to set CA to 7, airborne".toList
  else if n = 6 then .str "evel 2 transponder, ability to set CA to 7, either airborne or ground".toList
  else if n = 7 then
    .str "Downlink Request value is not 0, or the Flight Status is 2, 3, 4 or 5, and either airborne or on the ground".toList
  else .none

/-- `allcall.capability(msg)`: the pair (CA, text) -/
theorem capability_tie (m : Msg) (h : IsHex m) (hl : 2 ≤ m.length) :
    Gen.allcall.capability (.str m) =
      (PyModeS.capability (hex2binM m) >>= fun n => .val (.tuple [Val.ofNat n, caText n])) := by
  unfold Gen.allcall.capability PyModeS.capability
  simp only [df_str m h hl, bind_val', df_ne11]
  apply allcall_guard
  intro _
  unfold Gen.allcall.capability_undecorated
  have hne : m ≠ [] := by intro e; simp [e] at hl
  have hs : 0 < (slice 5 8 (hex2binM m)).length := by rw [slice_length, hex2binM_length]; omega
  obtain ⟨e0, -, -, -, e4, e5, e6, e7⟩ := pyEq_ofNat_lits (PyModeS.bin2int (slice 5 8 (hex2binM m)))
  simp only [hex2bin_str m h hne, bind_val', pySliceNN_ofBits, bin2int_ofBits, bin2intR_of_length hs, e0, e4, e5, e6,
    e7, pyTruth_bool, decide_eq_true_eq, Res.pure_eq, caText]
  split_ifs <;> rfl

/-- `allcall.interrogator(msg)`: the interrogator-code string -/
theorem interrogator_tie (m : Msg) (h : IsHex m) (hl : 6 ≤ m.length) :
    Gen.allcall.interrogator (.str m) =
      (PyModeS.interrogator (hex2binM m) >>= fun s => .val (.str s.toList)) := by
  unfold Gen.allcall.interrogator PyModeS.interrogator
  simp only [df_str m h (by omega), bind_val', df_ne11]
  apply allcall_guard
  intro _
  unfold Gen.allcall.interrogator_undecorated
  simp only [crc_false_bits m h hl, bind_val']
  generalize crcBitsPy (hex2binM m) = r
  have hgt : pyGt (Val.ofNat r) (Val.num 79) = .val (.bool (decide (79 < r))) := by
    simp only [Val.ofNat, pyGt_num]
    congr 2
    have : ((79 : Rat) < (r : Rat)) ↔ 79 < r := by exact_mod_cast Iff.rfl
    exact decide_eq_decide.mpr this
  have hlt : pyLt (Val.ofNat r) (Val.num 16) = .val (.bool (decide (r < 16))) := by
    simp only [Val.ofNat, pyLt_num]
    congr 2
    have : ((r : Rat) < (16 : Rat)) ↔ r < 16 := by exact_mod_cast Iff.rfl
    exact decide_eq_decide.mpr this
  simp only [hgt, hlt, bind_val', pyTruth_bool, decide_eq_true_eq, gt_iff_lt]
  by_cases h79 : 79 < r
  · simp only [h79, if_true, bind_val', Res.pure_eq]
    rfl
  · by_cases h16 : r < 16
    · simp only [h79, h16, if_true, if_false, bind_val', Res.pure_eq, pyStr_ofNat, pyAdd_str, String.toList_append]
      rfl
    · have hsub : pySub (Val.ofNat r) (Val.num 16) = .val (Val.ofNat (r - 16)) := by
        have : 16 ≤ r := by omega
        simp [Val.ofNat, Nat.cast_sub this]
      simp only [h79, h16, if_true, if_false, bind_val', Res.pure_eq, hsub, pyStr_ofNat, pyAdd_str,
        String.toList_append]
      rfl

/-- `allcall.icao(msg)`: the DF 11 check, then `common.icao` (which for DF 11 is `msg[2:8].upper()`) -/
theorem allcall_icao_tie (m : Msg) (h : IsHex m) (hl : 6 ≤ m.length) :
    Gen.allcall.icao (.str m) =
      (allcallGuard (hex2binM m) (.val (PyModeS.icao m)) >>= fun o => .val (Val.ofOptStr o)) := by
  unfold Gen.allcall.icao
  simp only [df_str m h (by omega), bind_val', df_ne11]
  apply allcall_guard
  intro _
  unfold Gen.allcall.icao_undecorated
  simp only [icao_tie m h hl, bind_val', Res.pure_eq]

/-- on DF 11 the result of `allcall.icao` is the AA field in upper case -/
theorem allcall_icao_df11 (m : Msg) (h : IsHex m) (hl : 6 ≤ m.length) (hd : PyModeS.df m = 11) :
    Gen.allcall.icao (.str m) = .val (.str ((slice 2 8 m).map Char.toUpper)) := by
  rw [allcall_icao_tie m h hl]
  have : dfB (hex2binM m) = 11 := by rw [← df_eq]; exact hd
  simp [allcallGuard, this, PyModeS.icao, hd, Val.ofOptStr]

end PyModeS.Tie
