/-
  Tie: the source-generated aeronautics module `Gen.aero.*` (Generated/Src/aero.lean, produced mechanically from
  src/pyModeS/extra/aero.py) = the hand-written POLYMORPHIC model `PyModeS.Aero.*` (Model/Aero.lean) instantiated
  at `Rat`, with the `AeroOps Rat` operations being exactly what the double-precision externals of Py/Ext.lean
  compute (`sqrt x := floatToRat (Float.sqrt (ratToFloat x))`, …).  The same polymorphic definitions, instantiated
  at `ℝ`, carry the C20 theorems (Proofs/Aero/*.lean); so these ties say that the generated text is the SAME
  formula, operation for operation, as the definition the theorems are about.

  WHAT IS ASSUMED.  `Float` is opaque to Lean, so nothing can be proved about the value of a libm call.  The
  externals return `.exc` when the double result is NaN or ±inf, and `pyDiv` returns `.exc` on a zero divisor
  (the Rat model has `x / 0 = 0`).  For every function `f` we prove the exact characterisation

      Returns (Gen.aero.f (.num x) (.num H)) (Cond x H) (.num (Aero.f (α := Rat) x H))

  i.e. `Cond → Gen.aero.f … = .val (model value)` AND `¬ Cond → Gen.aero.f … = .exc`, where `Cond` is the
  conjunction of
    * `Fin1 g a` / `Fin2 g a b` : "the double `g (ratToFloat a)` is neither NaN nor infinite", one per call site
      of an external, with `a` the exact rational argument that occurs there (written with the model's own
      expressions), and
    * `d ≠ 0` for the divisors that are not constants (`density H`, `vsound H`).
  So the hypotheses of the `aero_<f>_tie` corollaries are not only sufficient but necessary for the generated
  function to return at all.  Everything else — which operations, in which order, all constants, the `max`
  and clamp branches, the tuple plumbing between `atmos` and its callers — is proved.

  DIFFERENCES between the generated text and the hand model (all reported, none hidden):
   1. `np.radians(x)` / `math.degrees(x)`: the externals compute ONE double multiplication
      `x * (pi / 180.0)` resp. `x * (180.0 / pi)` with everything (also `pi / 180.0`) rounded in double; the model's
      `radians x := x * (AeroOps.pi / 180.0)` at `Rat` is an exact rational product with the rational value of the
      double `pi`.  These are different rationals in general (same real-number formula).  Therefore `distance` and
      `bearing` are tied to `distanceWith` / `bearingWith`, the model's text with the angle conversions as
      parameters (`Aero.distance = distanceWith Aero.radians`, `Aero.bearing = bearingWith Aero.radians Aero.degrees`
      hold by `rfl` for EVERY numeric type, see `distance_eq_distanceWith`, `bearing_eq_bearingWith`), instantiated at
      the externals' conversions `extRadians`, `extDegrees`.
   2. constants: the generator writes every Python float literal as the exact decimal fraction
      (`288.15 ↦ 5763/20`, `R ↦ 28705287/100000` as a module constant `Gen.aero.R'`, `gamma ↦ 7/5`, `3.5 ↦ 7/2`);
      the model writes scientific literals (`OfScientific Rat`, also exact decimals).  Equal as rationals (lemmas
      `lit_*`, `*_rat`, by `norm_num`).  `2 / 7.0` is a generated DIVISION `pyDiv 2 7` = the model's `2.0 / 7.0`.
   3. `np.maximum(a, b)` is `if a < b then b else a`, the model's `max` at `Rat` is `if a ≤ b then b else a`:
      equal (`np_maximum_num`).  `np.where(c > 1, 1, c)` / `np.where(c < -1, -1, c)` are the model's two `if`s
      (`np_where_lt`).
   4. `(x + 360) % 360` is `pyMod` on rationals, `x - 360 * ⌊x / 360⌋`; `AeroOps.mod360` at `Rat` is defined as
      exactly that (it is the same expression as the `ℝ` instance's).
   5. `np.arctan2` is the one external without a NaN/inf check (no `Fin2 Float.atan2` hypothesis occurs).
   6. `temperature H` needs `AtmosFin H` although its value `max (288.15 - 0.0065 H) 216.65` involves no float:
      the Python evaluates the whole of `atmos` (and the generated code stops if `pow`/`exp` overflow).
   7. Not a difference of text but of arithmetic, for the record: between two externals the generated code computes
      in exact rationals (`pyMul`, `pyDiv`, …) where CPython rounds after every operation; this is the
      generator's number model, the same on both sides of these ties.
-/
import PyModeS.Tie.Basic
import PyModeS.Tie.Common
import PyModeS.Generated.Src.aero
import PyModeS.Model.Aero

set_option maxHeartbeats 1000000

set_option linter.unusedSimpArgs false
set_option linter.unusedTactic false
set_option linter.unreachableTactic false
set_option linter.style.nameCheck false
namespace PyModeS.Tie
open PyModeS PyModeS.Py PyModeS.Aero

/-! ### the `Rat` instance of the model: the operations are the externals -/

/-- a double-precision function of one argument, on exact rationals (what `Ext.float1` returns) -/
def ext1 (f : Float → Float) (x : Rat) : Rat := floatToRat (f (ratToFloat x))
/-- a double-precision function of two arguments, on exact rationals (what `Ext.float_pow` returns) -/
def ext2 (f : Float → Float → Float) (x y : Rat) : Rat := floatToRat (f (ratToFloat x) (ratToFloat y))

/-- third instance of the polymorphic aero model (after `Float` and `ℝ`): exact rational arithmetic, the
    transcendental functions evaluated in double precision exactly as the externals of Py/Ext.lean do -/
instance instAeroOpsRat : AeroOps Rat where
  sqrt := ext1 Float.sqrt
  exp := ext1 Float.exp
  pow := ext2 Float.pow
  sin := ext1 Float.sin
  cos := ext1 Float.cos
  acos := ext1 Float.acos
  atan2 := ext2 Float.atan2
  pi := floatToRat (Float.acos (-1.0))
  mod360 := fun x => x - 360 * ((x / 360).floor : Int)

/-- `Ext.np_pi` is the `pi` of the instance -/
theorem np_pi_eq : Gen.Ext.np_pi = .num (AeroOps.pi : Rat) := rfl

/-- the double `f x` is finite (neither NaN nor ±inf) -/
def Fin1 (f : Float → Float) (x : Rat) : Prop :=
  (f (ratToFloat x)).isNaN = false ∧ (f (ratToFloat x)).isInf = false
/-- the double `f x y` is finite (neither NaN nor ±inf) -/
def Fin2 (f : Float → Float → Float) (x y : Rat) : Prop :=
  (f (ratToFloat x) (ratToFloat y)).isNaN = false ∧ (f (ratToFloat x) (ratToFloat y)).isInf = false

instance (f : Float → Float) (x : Rat) : Decidable (Fin1 f x) := by unfold Fin1; infer_instance
instance (f : Float → Float → Float) (x y : Rat) : Decidable (Fin2 f x y) := by unfold Fin2; infer_instance

/-! ### `Returns`: value under a condition, exception otherwise -/

/-- the generated computation `r` returns `v` when `C` holds and raises an exception (`.exc`) when it does not -/
def Returns (r : Res Val) (C : Prop) (v : Val) : Prop := (C → r = .val v) ∧ (¬ C → r = .exc)

theorem Returns.ite_val {c : Prop} [Decidable c] (v : Val) : Returns (if c then .val v else .exc) c v :=
  ⟨fun h => if_pos h, fun h => if_neg h⟩

theorem Returns.ite {c : Prop} [Decidable c] {r : Res Val} {C : Prop} {v : Val} (h : Returns r C v) :
    Returns (if c then r else .exc) (c ∧ C) v := by
  constructor
  · intro hc
    rw [if_pos hc.1]
    exact h.1 hc.2
  · intro hn
    by_cases hc : c
    · rw [if_pos hc]
      exact h.2 (fun hC => hn ⟨hc, hC⟩)
    · rw [if_neg hc]

theorem Returns.iff {r : Res Val} {C D : Prop} {v : Val} (h : Returns r C v) (e : C ↔ D) : Returns r D v :=
  ⟨fun d => h.1 (e.2 d), fun nd => h.2 (fun c => nd (e.1 c))⟩

theorem Returns.of_exc {r : Res Val} {C : Prop} {v : Val} (e : r = .exc) (h : C → False) : Returns r C v :=
  ⟨fun c => absurd c h, fun _ => e⟩

theorem Returns.and_left {r : Res Val} {A C : Prop} {v : Val} (a : A) (h : Returns r C v) : Returns r (A ∧ C) v :=
  h.iff ⟨fun c => ⟨a, c⟩, fun c => c.2⟩

/-- `(if c then .val a else .exc) >>= k` -/
theorem ite_bind {c : Prop} [Decidable c] (a : Val) (k : Val → Res Val) :
    ((if c then Res.val a else Res.exc) >>= k) = if c then k a else .exc := by
  by_cases h : c
  · rw [if_pos h, if_pos h, Res.bind_val]
  · rw [if_neg h, if_neg h, Res.bind_exc]

/-! ### the externals on numbers -/

theorem float1_eq (f : Float → Float) (x : Rat) :
    Gen.Ext.float1 f (.num x) = if Fin1 f x then .val (.num (ext1 f x)) else .exc := by
  unfold Gen.Ext.float1 ext1
  simp only [num?_num]
  by_cases h : Fin1 f x
  · rw [if_pos h]
    simp only [h.1, h.2, Bool.or_self, Bool.false_eq_true, if_false]
  · rw [if_neg h]
    unfold Fin1 at h
    by_cases h1 : (f (ratToFloat x)).isNaN = false
    · have h2 : (f (ratToFloat x)).isInf = true := by
        cases e : (f (ratToFloat x)).isInf
        · exact absurd ⟨h1, e⟩ h
        · rfl
      simp only [h1, h2, Bool.false_or, if_true]
    · have h1' : (f (ratToFloat x)).isNaN = true := by
        cases e : (f (ratToFloat x)).isNaN
        · exact absurd e h1
        · rfl
      simp only [h1', Bool.true_or, if_true]

theorem float_pow_eq (x y : Rat) :
    Gen.Ext.float_pow (.num x) (.num y) =
      if Fin2 Float.pow x y then .val (.num (AeroOps.pow x y)) else .exc := by
  unfold Gen.Ext.float_pow
  simp only [num?_num]
  by_cases h : Fin2 Float.pow x y
  · rw [if_pos h]
    simp only [h.1, h.2, Bool.or_self, Bool.false_eq_true, if_false]
    rfl
  · rw [if_neg h]
    unfold Fin2 at h
    by_cases h1 : (Float.pow (ratToFloat x) (ratToFloat y)).isNaN = false
    · have h2 : (Float.pow (ratToFloat x) (ratToFloat y)).isInf = true := by
        cases e : (Float.pow (ratToFloat x) (ratToFloat y)).isInf
        · exact absurd ⟨h1, e⟩ h
        · rfl
      simp only [h1, h2, Bool.false_or, if_true]
    · have h1' : (Float.pow (ratToFloat x) (ratToFloat y)).isNaN = true := by
        cases e : (Float.pow (ratToFloat x) (ratToFloat y)).isNaN
        · exact absurd e h1
        · rfl
      simp only [h1', Bool.true_or, if_true]

theorem np_exp_eq (x : Rat) :
    Gen.Ext.np_exp (.num x) = if Fin1 Float.exp x then .val (.num (AeroOps.exp x)) else .exc := float1_eq _ _
theorem np_sqrt_eq (x : Rat) :
    Gen.Ext.np_sqrt (.num x) = if Fin1 Float.sqrt x then .val (.num (AeroOps.sqrt x)) else .exc := float1_eq _ _
theorem np_sin_eq (x : Rat) :
    Gen.Ext.np_sin (.num x) = if Fin1 Float.sin x then .val (.num (AeroOps.sin x)) else .exc := float1_eq _ _
theorem np_cos_eq (x : Rat) :
    Gen.Ext.np_cos (.num x) = if Fin1 Float.cos x then .val (.num (AeroOps.cos x)) else .exc := float1_eq _ _
theorem np_arccos_eq (x : Rat) :
    Gen.Ext.np_arccos (.num x) = if Fin1 Float.acos x then .val (.num (AeroOps.acos x)) else .exc := float1_eq _ _
/-- `np.arctan2` has no NaN / inf check in Py/Ext.lean -/
theorem np_arctan2_num (y x : Rat) : Gen.Ext.np_arctan2 (.num y) (.num x) = .val (.num (AeroOps.atan2 y x)) := rfl

/-- `np.maximum` (`if x < y then y else x`) is the model's `max` at `Rat` (`if x ≤ y then y else x`) -/
theorem np_maximum_num (x y : Rat) : Gen.Ext.np_maximum (.num x) (.num y) = .val (.num (max x y)) := by
  unfold Gen.Ext.np_maximum
  simp only [num?_num]
  rw [max_def]
  by_cases h : x < y
  · simp [h, le_of_lt h]
  · by_cases h2 : x = y
    · simp [h2]
    · have : ¬ x ≤ y := fun hle => h (lt_of_le_of_ne hle h2)
      simp [h, this]

/-- `np.where(a < b, x, y)` on scalars is the model's `if a < b then x else y` -/
theorem np_where_lt (a b x y : Rat) :
    Gen.Ext.np_where (.bool (decide (a < b))) (.num x) (.num y) = .val (.num (if a < b then x else y)) := by
  by_cases h : a < b <;> simp [Gen.Ext.np_where, Val.truth, h]

theorem pyDiv_eq (a b : Rat) : pyDiv (.num a) (.num b) = if b ≠ 0 then .val (.num (a / b)) else .exc := by
  by_cases h : b = 0
  · subst h
    simp [pyDiv]
  · rw [if_pos h, pyDiv_num _ _ h]

/-- `x % 360` on rationals is the instance's `mod360` -/
theorem pyMod_360 (a : Rat) : pyMod (.num a) (.num 360) = .val (.num (AeroOps.mod360 a)) := by
  unfold pyMod
  simp only [num?_num]
  rw [if_neg (by norm_num)]
  rfl

/-! ### constants: the generator's exact fractions are the model's scientific literals -/

theorem lit_T0 : (288.15 : Rat) = 5763 / 20 := by norm_num
theorem lit_lapse : (0.0065 : Rat) = 13 / 2000 := by norm_num
theorem lit_Ttrop : (216.65 : Rat) = 4333 / 20 := by norm_num
theorem lit_rho0 : (1.225 : Rat) = 49 / 40 := by norm_num
theorem lit_expo : (4.256848030018761 : Rat) = 4256848030018761 / 1000000000000000 := by norm_num
theorem lit_zero : (0.0 : Rat) = 0 := by norm_num
theorem lit_11000 : (11000.0 : Rat) = 11000 := by norm_num
theorem lit_scale : (6341.552161 : Rat) = 6341552161 / 1000000 := by norm_num
theorem lit_R : (287.05287 : Rat) = 28705287 / 100000 := by norm_num
theorem lit_one : (1.0 : Rat) = 1 := by norm_num
theorem lit_two : (2.0 : Rat) = 2 := by norm_num
theorem lit_seven : (7.0 : Rat) = 7 := by norm_num
theorem lit_35 : (3.5 : Rat) = 7 / 2 := by norm_num
theorem lit_90 : (90.0 : Rat) = 90 := by norm_num
theorem lit_360 : (360.0 : Rat) = 360 := by norm_num
theorem gamma_rat : (Aero.gamma : Rat) = 7 / 5 := by unfold Aero.gamma; norm_num
theorem R_rat : (Aero.R : Rat) = 28705287 / 100000 := by unfold Aero.R; norm_num
theorem p0_rat : (Aero.p0 : Rat) = 101325 := by unfold Aero.p0; norm_num
theorem rho0_rat : (Aero.rho0 : Rat) = 49 / 40 := by unfold Aero.rho0; norm_num
theorem rEarth_rat : (Aero.rEarth : Rat) = 6371000 := by unfold Aero.rEarth; norm_num

/-- the module constants of the generated file are the model's constants at `Rat` -/
theorem gen_constants :
    Gen.aero.R' = .num (Aero.R : Rat) ∧ Gen.aero.p0 = .num (Aero.p0 : Rat) ∧ Gen.aero.rho0 = .num (Aero.rho0 : Rat) ∧
    Gen.aero.gamma = .num (Aero.gamma : Rat) ∧ Gen.aero.r_earth = .num (Aero.rEarth : Rat) ∧
    Gen.aero.kts = .num (Aero.kts : Rat) ∧ Gen.aero.ft = .num (Aero.ft : Rat) := by
  rw [R_rat, p0_rat, rho0_rat, gamma_rat, rEarth_rat]
  refine ⟨rfl, rfl, rfl, rfl, rfl, ?_, ?_⟩
  · unfold Gen.aero.kts Aero.kts; norm_num
  · unfold Gen.aero.ft Aero.ft; norm_num

/-! ### atmos -/

/-- the model's `atmos` at `Rat`, unfolded (by `rfl`) -/
theorem atmos_rat (H : Rat) : Aero.atmos (α := Rat) H =
    (let T : Rat := max (288.15 - 0.0065 * H) 216.65
     let rho : Rat := 1.225 * AeroOps.pow (T / 288.15) 4.256848030018761 *
        AeroOps.exp (-(max 0.0 (H - 11000.0)) / 6341.552161)
     (rho * 287.05287 * T, rho, T)) := rfl

theorem temperature_rat (H : Rat) : Aero.temperature (α := Rat) H = max (288.15 - 0.0065 * H) 216.65 := rfl
theorem pressure_rat (H : Rat) :
    Aero.pressure (α := Rat) H = Aero.density H * Aero.R * Aero.temperature H := rfl

/-- the two float calls of `atmos H` return finite doubles:
    `pow (T / 288.15, 4.256848030018761)` and `exp (-max (0, H - 11000) / 6341.552161)` -/
def AtmosFin (H : Rat) : Prop :=
  Fin2 Float.pow (Aero.temperature H / 288.15) 4.256848030018761 ∧
  Fin1 Float.exp (-(max 0.0 (H - 11000.0)) / 6341.552161)

theorem aero_atmos_spec (H : Rat) :
    Returns (Gen.aero.atmos (.num H)) (AtmosFin H)
      (.tuple [.num (Aero.pressure (α := Rat) H), .num (Aero.density (α := Rat) H),
        .num (Aero.temperature (α := Rat) H)]) := by
  show Returns _ _ (.tuple [.num (Aero.atmos (α := Rat) H).1, .num (Aero.atmos (α := Rat) H).2.1,
        .num (Aero.atmos (α := Rat) H).2.2])
  unfold AtmosFin
  rw [atmos_rat, temperature_rat]
  simp only [lit_T0, lit_lapse, lit_Ttrop, lit_rho0, lit_expo, lit_zero, lit_11000, lit_scale, lit_R]
  unfold Gen.aero.atmos
  rw [pyMul_num, Res.bind_val, pySub_num, Res.bind_val, np_maximum_num, Res.bind_val]
  rw [pyDiv_num _ _ (by norm_num), Res.bind_val, float_pow_eq, ite_bind, pyMul_num, Res.bind_val,
    pySub_num, Res.bind_val, np_maximum_num, Res.bind_val, pyNeg_num, Res.bind_val,
    pyDiv_num _ _ (by norm_num), Res.bind_val, np_exp_eq, ite_bind,
    pyMul_num, Res.bind_val, Gen.aero.R', pyMul_num, Res.bind_val, pyMul_num, Res.bind_val]
  exact Returns.ite (Returns.ite_val _)

/-- `atmos` tie, components named by the model's accessor functions -/
theorem aero_atmos_tie' (H : Rat) (hf : AtmosFin H) :
    Gen.aero.atmos (.num H) =
      .val (.tuple [.num (Aero.pressure (α := Rat) H), .num (Aero.density (α := Rat) H),
        .num (Aero.temperature (α := Rat) H)]) := (aero_atmos_spec H).1 hf

/-- `atmos` tie: the generated function returns the model's triple -/
theorem aero_atmos_tie (H : Rat) (hf : AtmosFin H) :
    Gen.aero.atmos (.num H) =
      .val (.tuple [.num (Aero.atmos (α := Rat) H).1, .num (Aero.atmos (α := Rat) H).2.1,
        .num (Aero.atmos (α := Rat) H).2.2]) := aero_atmos_tie' H hf

/-- when a float call of `atmos` overflows, the generated function raises -/
theorem aero_atmos_exc (H : Rat) (hf : ¬ AtmosFin H) : Gen.aero.atmos (.num H) = .exc := (aero_atmos_spec H).2 hf

/-- tuple plumbing `p, rho, T = atmos(H)` -/
theorem unpack3 (a b c : Val) (k : Val → Val → Val → Res Val) :
    (do let t ← Res.val (Val.tuple [a, b, c])
        pyUnpackCheck t 3
        let p ← pyIdxN t 0
        let r ← pyIdxN t 1
        let T ← pyIdxN t 2
        k p r T) = k a b c := rfl

theorem aero_temperature_spec (H : Rat) :
    Returns (Gen.aero.temperature (.num H)) (AtmosFin H) (.num (Aero.temperature (α := Rat) H)) := by
  unfold Gen.aero.temperature
  by_cases ha : AtmosFin H
  · rw [aero_atmos_tie' H ha]
    exact ⟨fun _ => rfl, fun h => absurd ha h⟩
  · rw [aero_atmos_exc H ha]
    exact Returns.of_exc rfl ha

theorem aero_pressure_spec (H : Rat) :
    Returns (Gen.aero.pressure (.num H)) (AtmosFin H) (.num (Aero.pressure (α := Rat) H)) := by
  unfold Gen.aero.pressure
  by_cases ha : AtmosFin H
  · rw [aero_atmos_tie' H ha]
    exact ⟨fun _ => rfl, fun h => absurd ha h⟩
  · rw [aero_atmos_exc H ha]
    exact Returns.of_exc rfl ha

theorem aero_density_spec (H : Rat) :
    Returns (Gen.aero.density (.num H)) (AtmosFin H) (.num (Aero.density (α := Rat) H)) := by
  unfold Gen.aero.density
  by_cases ha : AtmosFin H
  · rw [aero_atmos_tie' H ha]
    exact ⟨fun _ => rfl, fun h => absurd ha h⟩
  · rw [aero_atmos_exc H ha]
    exact Returns.of_exc rfl ha

theorem aero_temperature_tie (H : Rat) (hf : AtmosFin H) :
    Gen.aero.temperature (.num H) = .val (.num (Aero.temperature (α := Rat) H)) := (aero_temperature_spec H).1 hf
theorem aero_pressure_tie (H : Rat) (hf : AtmosFin H) :
    Gen.aero.pressure (.num H) = .val (.num (Aero.pressure (α := Rat) H)) := (aero_pressure_spec H).1 hf
theorem aero_density_tie (H : Rat) (hf : AtmosFin H) :
    Gen.aero.density (.num H) = .val (.num (Aero.density (α := Rat) H)) := (aero_density_spec H).1 hf

/-! ### vsound, tas2mach, mach2tas, eas2tas, tas2eas -/

/-- the float calls of `vsound H` return finite doubles: those of `atmos H` and `sqrt (gamma * R * T)` -/
def VsoundFin (H : Rat) : Prop :=
  AtmosFin H ∧ Fin1 Float.sqrt (Aero.gamma * Aero.R * Aero.temperature H)

theorem aero_vsound_spec (H : Rat) :
    Returns (Gen.aero.vsound (.num H)) (VsoundFin H) (.num (Aero.vsound (α := Rat) H)) := by
  unfold Gen.aero.vsound VsoundFin
  by_cases ha : AtmosFin H
  · rw [aero_temperature_tie H ha, Res.bind_val]
    unfold Aero.vsound
    simp only [gamma_rat, R_rat]
    rw [Gen.aero.gamma, Gen.aero.R', pyMul_num, Res.bind_val, pyMul_num, Res.bind_val, np_sqrt_eq]
    exact Returns.and_left ha (Returns.ite_val _)
  · rw [(aero_temperature_spec H).2 ha]
    exact Returns.of_exc rfl (fun h => ha h.1)

theorem aero_vsound_tie (H : Rat) (hf : VsoundFin H) :
    Gen.aero.vsound (.num H) = .val (.num (Aero.vsound (α := Rat) H)) := (aero_vsound_spec H).1 hf

theorem aero_tas2mach_spec (v H : Rat) :
    Returns (Gen.aero.tas2mach (.num v) (.num H)) (VsoundFin H ∧ Aero.vsound (α := Rat) H ≠ 0)
      (.num (Aero.tas2mach (α := Rat) v H)) := by
  unfold Gen.aero.tas2mach
  by_cases hv : VsoundFin H
  · rw [aero_vsound_tie H hv, Res.bind_val, pyDiv_eq]
    exact Returns.and_left hv (Returns.ite_val _)
  · rw [(aero_vsound_spec H).2 hv]
    exact Returns.of_exc rfl (fun h => hv h.1)

theorem aero_tas2mach_tie (v H : Rat) (hf : VsoundFin H) (hz : Aero.vsound (α := Rat) H ≠ 0) :
    Gen.aero.tas2mach (.num v) (.num H) = .val (.num (Aero.tas2mach (α := Rat) v H)) :=
  (aero_tas2mach_spec v H).1 ⟨hf, hz⟩

theorem aero_mach2tas_spec (m H : Rat) :
    Returns (Gen.aero.mach2tas (.num m) (.num H)) (VsoundFin H) (.num (Aero.mach2tas (α := Rat) m H)) := by
  unfold Gen.aero.mach2tas
  by_cases hv : VsoundFin H
  · rw [aero_vsound_tie H hv, Res.bind_val, pyMul_num]
    exact ⟨fun _ => rfl, fun h => absurd hv h⟩
  · rw [(aero_vsound_spec H).2 hv]
    exact Returns.of_exc rfl hv

theorem aero_mach2tas_tie (m H : Rat) (hf : VsoundFin H) :
    Gen.aero.mach2tas (.num m) (.num H) = .val (.num (Aero.mach2tas (α := Rat) m H)) :=
  (aero_mach2tas_spec m H).1 hf

theorem aero_eas2tas_spec (v H : Rat) :
    Returns (Gen.aero.eas2tas (.num v) (.num H))
      (AtmosFin H ∧ Aero.density (α := Rat) H ≠ 0 ∧ Fin1 Float.sqrt (Aero.rho0 / Aero.density H))
      (.num (Aero.eas2tas (α := Rat) v H)) := by
  unfold Gen.aero.eas2tas
  by_cases ha : AtmosFin H
  · rw [aero_density_tie H ha, Res.bind_val]
    unfold Aero.eas2tas
    simp only [rho0_rat]
    rw [Gen.aero.rho0, pyDiv_eq, ite_bind, np_sqrt_eq, ite_bind, pyMul_num]
    exact Returns.and_left ha (Returns.ite (Returns.ite_val _))
  · rw [(aero_density_spec H).2 ha]
    exact Returns.of_exc rfl (fun h => ha h.1)

theorem aero_eas2tas_tie (v H : Rat) (ha : AtmosFin H) (hz : Aero.density (α := Rat) H ≠ 0)
    (hs : Fin1 Float.sqrt (Aero.rho0 / Aero.density H)) :
    Gen.aero.eas2tas (.num v) (.num H) = .val (.num (Aero.eas2tas (α := Rat) v H)) :=
  (aero_eas2tas_spec v H).1 ⟨ha, hz, hs⟩

theorem aero_tas2eas_spec (v H : Rat) :
    Returns (Gen.aero.tas2eas (.num v) (.num H))
      (AtmosFin H ∧ Fin1 Float.sqrt (Aero.density H / Aero.rho0))
      (.num (Aero.tas2eas (α := Rat) v H)) := by
  unfold Gen.aero.tas2eas
  by_cases ha : AtmosFin H
  · rw [aero_density_tie H ha, Res.bind_val]
    unfold Aero.tas2eas
    simp only [rho0_rat]
    rw [Gen.aero.rho0, pyDiv_num _ _ (by norm_num), Res.bind_val, np_sqrt_eq, ite_bind, pyMul_num]
    exact Returns.and_left ha (Returns.ite_val _)
  · rw [(aero_density_spec H).2 ha]
    exact Returns.of_exc rfl (fun h => ha h.1)

theorem aero_tas2eas_tie (v H : Rat) (ha : AtmosFin H)
    (hs : Fin1 Float.sqrt (Aero.density H / Aero.rho0)) :
    Gen.aero.tas2eas (.num v) (.num H) = .val (.num (Aero.tas2eas (α := Rat) v H)) :=
  (aero_tas2eas_spec v H).1 ⟨ha, hs⟩

/-! ### cas2tas, tas2cas, mach2cas, cas2mach -/

theorem temperature_pos (H : Rat) : 0 < Aero.temperature (α := Rat) H := by
  rw [temperature_rat]
  exact lt_of_lt_of_le (by norm_num) (le_max_right _ _)

/-- `p = rho * R * T` with `T ≥ 216.65`: the pressure divisor is non-zero when the density divisor is -/
theorem pressure_ne_zero (H : Rat) (hz : Aero.density (α := Rat) H ≠ 0) : Aero.pressure (α := Rat) H ≠ 0 := by
  rw [pressure_rat, R_rat]
  have := temperature_pos H
  exact mul_ne_zero (mul_ne_zero hz (by norm_num)) (ne_of_gt this)

/-- the model's `cas2tas` at `Rat`, the `let (p, rho, _) := atmos H` pattern opened (by `rfl`) -/
theorem cas2tas_rat (v H : Rat) : Aero.cas2tas (α := Rat) v H =
    (let p : Rat := Aero.pressure H
     let rho : Rat := Aero.density H
     let qdyn : Rat := Aero.p0 * (AeroOps.pow (1.0 + Aero.rho0 * v * v / (7.0 * Aero.p0)) 3.5 - 1.0)
     AeroOps.sqrt (7.0 * p / rho * (AeroOps.pow (1.0 + qdyn / p) (2.0 / 7.0) - 1.0))) := rfl

theorem tas2cas_rat (v H : Rat) : Aero.tas2cas (α := Rat) v H =
    (let p : Rat := Aero.pressure H
     let rho : Rat := Aero.density H
     let qdyn : Rat := p * (AeroOps.pow (1.0 + rho * v * v / (7.0 * p)) 3.5 - 1.0)
     AeroOps.sqrt (7.0 * Aero.p0 / Aero.rho0 * (AeroOps.pow (qdyn / Aero.p0 + 1.0) (2.0 / 7.0) - 1.0))) := rfl

/-- the three float calls of `cas2tas v H` after `atmos H` return finite doubles -/
def Cas2tasFin (v H : Rat) : Prop :=
  let p : Rat := Aero.pressure H
  let rho : Rat := Aero.density H
  let qdyn : Rat := Aero.p0 * (AeroOps.pow (1.0 + Aero.rho0 * v * v / (7.0 * Aero.p0)) 3.5 - 1.0)
  Fin2 Float.pow (1.0 + Aero.rho0 * v * v / (7.0 * Aero.p0)) 3.5 ∧
  Fin2 Float.pow (1.0 + qdyn / p) (2.0 / 7.0) ∧
  Fin1 Float.sqrt (7.0 * p / rho * (AeroOps.pow (1.0 + qdyn / p) (2.0 / 7.0) - 1.0))

/-- the three float calls of `tas2cas v H` after `atmos H` return finite doubles -/
def Tas2casFin (v H : Rat) : Prop :=
  let p : Rat := Aero.pressure H
  let rho : Rat := Aero.density H
  let qdyn : Rat := p * (AeroOps.pow (1.0 + rho * v * v / (7.0 * p)) 3.5 - 1.0)
  Fin2 Float.pow (1.0 + rho * v * v / (7.0 * p)) 3.5 ∧
  Fin2 Float.pow (qdyn / Aero.p0 + 1.0) (2.0 / 7.0) ∧
  Fin1 Float.sqrt (7.0 * Aero.p0 / Aero.rho0 * (AeroOps.pow (qdyn / Aero.p0 + 1.0) (2.0 / 7.0) - 1.0))

theorem aero_cas2tas_spec (v H : Rat) :
    Returns (Gen.aero.cas2tas (.num v) (.num H))
      (AtmosFin H ∧ Aero.density (α := Rat) H ≠ 0 ∧ Cas2tasFin v H)
      (.num (Aero.cas2tas (α := Rat) v H)) := by
  unfold Gen.aero.cas2tas
  by_cases ha : AtmosFin H
  swap
  · rw [aero_atmos_exc H ha]
    exact Returns.of_exc rfl (fun h => ha h.1)
  rw [aero_atmos_tie' H ha, unpack3, cas2tas_rat]
  unfold Cas2tasFin
  simp only [lit_one, lit_two, lit_seven, lit_35, p0_rat, rho0_rat]
  rw [Gen.aero.rho0, Gen.aero.p0, pyMul_num, Res.bind_val, pyMul_num, Res.bind_val, pyMul_num, Res.bind_val,
    pyDiv_num _ _ (by norm_num), Res.bind_val, pyAdd_num, Res.bind_val, float_pow_eq, ite_bind,
    pySub_num, Res.bind_val, pyMul_num, Res.bind_val]
  rw [pyMul_num, Res.bind_val, pyDiv_eq, ite_bind, pyDiv_eq, ite_bind, pyAdd_num,
    Res.bind_val, pyDiv_num _ _ (by norm_num), Res.bind_val, float_pow_eq, ite_bind, pySub_num,
    Res.bind_val, pyMul_num, Res.bind_val, np_sqrt_eq]
  refine (Returns.ite (Returns.ite (Returns.ite (Returns.ite (Returns.ite_val _))))).iff ?_
  constructor
  · rintro ⟨h1, hz, _, h2, h3⟩
    exact ⟨ha, hz, h1, h2, h3⟩
  · rintro ⟨_, hz, h1, h2, h3⟩
    exact ⟨h1, hz, pressure_ne_zero H hz, h2, h3⟩

theorem aero_cas2tas_tie (v H : Rat) (ha : AtmosFin H) (hz : Aero.density (α := Rat) H ≠ 0)
    (hf : Cas2tasFin v H) :
    Gen.aero.cas2tas (.num v) (.num H) = .val (.num (Aero.cas2tas (α := Rat) v H)) :=
  (aero_cas2tas_spec v H).1 ⟨ha, hz, hf⟩

theorem pressure_ne_zero_iff (H : Rat) : (7 : Rat) * Aero.pressure (α := Rat) H ≠ 0 ↔ Aero.density (α := Rat) H ≠ 0 := by
  constructor
  · intro h hd
    apply h
    rw [pressure_rat, hd]
    simp
  · intro hz
    exact mul_ne_zero (by norm_num) (pressure_ne_zero H hz)

theorem aero_tas2cas_spec (v H : Rat) :
    Returns (Gen.aero.tas2cas (.num v) (.num H))
      (AtmosFin H ∧ Aero.density (α := Rat) H ≠ 0 ∧ Tas2casFin v H)
      (.num (Aero.tas2cas (α := Rat) v H)) := by
  unfold Gen.aero.tas2cas
  by_cases ha : AtmosFin H
  swap
  · rw [aero_atmos_exc H ha]
    exact Returns.of_exc rfl (fun h => ha h.1)
  rw [aero_atmos_tie' H ha, unpack3, tas2cas_rat]
  unfold Tas2casFin
  simp only [lit_one, lit_two, lit_seven, lit_35, p0_rat, rho0_rat]
  rw [pyMul_num, Res.bind_val, pyMul_num, Res.bind_val, pyMul_num, Res.bind_val,
    pyDiv_eq, ite_bind, pyAdd_num, Res.bind_val, float_pow_eq, ite_bind,
    pySub_num, Res.bind_val, pyMul_num, Res.bind_val]
  rw [Gen.aero.rho0, Gen.aero.p0, pyMul_num, Res.bind_val, pyDiv_num _ _ (by norm_num), Res.bind_val,
    pyDiv_num _ _ (by norm_num), Res.bind_val, pyAdd_num,
    Res.bind_val, pyDiv_num _ _ (by norm_num), Res.bind_val, float_pow_eq, ite_bind, pySub_num,
    Res.bind_val, pyMul_num, Res.bind_val, np_sqrt_eq]
  refine (Returns.ite (Returns.ite (Returns.ite (Returns.ite_val _)))).iff ?_
  constructor
  · rintro ⟨hz, h1, h2, h3⟩
    exact ⟨ha, (pressure_ne_zero_iff H).1 hz, h1, h2, h3⟩
  · rintro ⟨_, hz, h1, h2, h3⟩
    exact ⟨(pressure_ne_zero_iff H).2 hz, h1, h2, h3⟩

theorem aero_tas2cas_tie (v H : Rat) (ha : AtmosFin H) (hz : Aero.density (α := Rat) H ≠ 0)
    (hf : Tas2casFin v H) :
    Gen.aero.tas2cas (.num v) (.num H) = .val (.num (Aero.tas2cas (α := Rat) v H)) :=
  (aero_tas2cas_spec v H).1 ⟨ha, hz, hf⟩

theorem aero_mach2cas_spec (m H : Rat) :
    Returns (Gen.aero.mach2cas (.num m) (.num H))
      (VsoundFin H ∧ Aero.density (α := Rat) H ≠ 0 ∧ Tas2casFin (Aero.mach2tas m H) H)
      (.num (Aero.mach2cas (α := Rat) m H)) := by
  unfold Gen.aero.mach2cas
  by_cases hv : VsoundFin H
  · rw [aero_mach2tas_tie m H hv, Res.bind_val]
    refine Returns.iff (aero_tas2cas_spec (Aero.mach2tas m H) H) ?_
    constructor
    · rintro ⟨_, hz, hf⟩
      exact ⟨hv, hz, hf⟩
    · rintro ⟨_, hz, hf⟩
      exact ⟨hv.1, hz, hf⟩
  · rw [(aero_mach2tas_spec m H).2 hv]
    exact Returns.of_exc rfl (fun h => hv h.1)

theorem aero_mach2cas_tie (m H : Rat) (hv : VsoundFin H) (hz : Aero.density (α := Rat) H ≠ 0)
    (hf : Tas2casFin (Aero.mach2tas m H) H) :
    Gen.aero.mach2cas (.num m) (.num H) = .val (.num (Aero.mach2cas (α := Rat) m H)) :=
  (aero_mach2cas_spec m H).1 ⟨hv, hz, hf⟩

theorem aero_cas2mach_spec (v H : Rat) :
    Returns (Gen.aero.cas2mach (.num v) (.num H))
      ((AtmosFin H ∧ Aero.density (α := Rat) H ≠ 0 ∧ Cas2tasFin v H) ∧
        VsoundFin H ∧ Aero.vsound (α := Rat) H ≠ 0)
      (.num (Aero.cas2mach (α := Rat) v H)) := by
  unfold Gen.aero.cas2mach
  by_cases hc : AtmosFin H ∧ Aero.density (α := Rat) H ≠ 0 ∧ Cas2tasFin v H
  · rw [(aero_cas2tas_spec v H).1 hc, Res.bind_val]
    exact Returns.and_left hc (aero_tas2mach_spec (Aero.cas2tas v H) H)
  · rw [(aero_cas2tas_spec v H).2 hc]
    exact Returns.of_exc rfl (fun h => hc h.1)

theorem aero_cas2mach_tie (v H : Rat) (hv : VsoundFin H) (hz : Aero.density (α := Rat) H ≠ 0)
    (hf : Cas2tasFin v H) (hs : Aero.vsound (α := Rat) H ≠ 0) :
    Gen.aero.cas2mach (.num v) (.num H) = .val (.num (Aero.cas2mach (α := Rat) v H)) :=
  (aero_cas2mach_spec v H).1 ⟨⟨hv.1, hz, hf⟩, hv, hs⟩

/-! ### distance, bearing -/

section Geo
set_option linter.unusedSectionVars false
variable {α : Type} [Add α] [Sub α] [Mul α] [Div α] [Neg α] [OfScientific α] [OfNat α 0] [OfNat α 1] [Max α]
  [LT α] [DecidableLT α] [AeroOps α]

/-- `Aero.distance` with the degree→radian conversion as a parameter (the same text otherwise) -/
def distanceWith (rad : α → α) (lat1 lon1 lat2 lon2 H : α) : α :=
  let phi1 := rad (90.0 - lat1)
  let phi2 := rad (90.0 - lat2)
  let theta1 := rad lon1
  let theta2 := rad lon2
  let c : α := AeroOps.sin phi1 * AeroOps.sin phi2 * AeroOps.cos (theta1 - theta2) + AeroOps.cos phi1 * AeroOps.cos phi2
  let c : α := if (1.0 : α) < c then 1.0 else c
  let c : α := if c < (-1.0 : α) then -1.0 else c
  AeroOps.acos c * (Aero.rEarth + H)

/-- `Aero.bearing` with the two angle conversions as parameters (the same text otherwise) -/
def bearingWith (rad deg : α → α) (lat1 lon1 lat2 lon2 : α) : α :=
  let lat1 := rad lat1
  let lon1 := rad lon1
  let lat2 := rad lat2
  let lon2 := rad lon2
  let x : α := AeroOps.sin (lon2 - lon1) * AeroOps.cos lat2
  let y : α := AeroOps.cos lat1 * AeroOps.sin lat2 - AeroOps.sin lat1 * AeroOps.cos lat2 * AeroOps.cos (lon2 - lon1)
  AeroOps.mod360 (deg (AeroOps.atan2 x y) + 360.0)

/-- the hand model is the instance at its own `radians` / `degrees`, for every numeric type (in particular `ℝ`) -/
theorem distance_eq_distanceWith : (Aero.distance : α → α → α → α → α → α) = distanceWith Aero.radians := rfl
theorem bearing_eq_bearingWith :
    (Aero.bearing : α → α → α → α → α) = bearingWith Aero.radians Aero.degrees := rfl
end Geo

/-- `np.radians` in double precision (Py/Ext.lean): ONE rounded multiplication by the double `pi / 180.0` -/
def radF : Float → Float := fun r => r * (Float.acos (-1.0) / 180.0)
/-- `math.degrees` in double precision (Py/Ext.lean): one rounded multiplication by the double `180.0 / pi` -/
def degF : Float → Float := fun r => r * (180.0 / Float.acos (-1.0))
/-- what `np.radians` returns; NOT the model's exact product `x * (AeroOps.pi / 180.0)` at `Rat` (difference 1) -/
def extRadians (x : Rat) : Rat := ext1 radF x
/-- what `math.degrees` returns; NOT the model's exact product `x * (180.0 / AeroOps.pi)` at `Rat` -/
def extDegrees (x : Rat) : Rat := ext1 degF x

theorem np_radians_eq (x : Rat) :
    Gen.Ext.np_radians (.num x) = if Fin1 radF x then .val (.num (extRadians x)) else .exc := float1_eq _ _
theorem math_degrees_eq (x : Rat) :
    Gen.Ext.math_degrees (.num x) = if Fin1 degF x then .val (.num (extDegrees x)) else .exc := float1_eq _ _

/-- the ten float calls of `distance` return finite doubles (in evaluation order) -/
def DistanceFin (lat1 lon1 lat2 lon2 : Rat) : Prop :=
  let phi1 := extRadians (90.0 - lat1)
  let phi2 := extRadians (90.0 - lat2)
  let theta1 := extRadians lon1
  let theta2 := extRadians lon2
  let c : Rat := AeroOps.sin phi1 * AeroOps.sin phi2 * AeroOps.cos (theta1 - theta2) + AeroOps.cos phi1 * AeroOps.cos phi2
  let c : Rat := if (1.0 : Rat) < c then 1.0 else c
  let c : Rat := if c < (-1.0 : Rat) then -1.0 else c
  Fin1 radF (90.0 - lat1) ∧ Fin1 radF (90.0 - lat2) ∧ Fin1 radF lon1 ∧ Fin1 radF lon2 ∧
  Fin1 Float.sin phi1 ∧ Fin1 Float.sin phi2 ∧ Fin1 Float.cos (theta1 - theta2) ∧
  Fin1 Float.cos phi1 ∧ Fin1 Float.cos phi2 ∧ Fin1 Float.acos c

theorem aero_distance_spec (lat1 lon1 lat2 lon2 H : Rat) :
    Returns (Gen.aero.distance (.num lat1) (.num lon1) (.num lat2) (.num lon2) (.num H))
      (DistanceFin lat1 lon1 lat2 lon2)
      (.num (distanceWith (α := Rat) extRadians lat1 lon1 lat2 lon2 H)) := by
  unfold distanceWith DistanceFin
  simp only [lit_one, lit_90, rEarth_rat]
  unfold Gen.aero.distance
  rw [pySub_num, Res.bind_val, np_radians_eq, ite_bind, pySub_num, Res.bind_val, np_radians_eq, ite_bind,
    np_radians_eq, ite_bind, np_radians_eq, ite_bind]
  rw [np_sin_eq, ite_bind, np_sin_eq, ite_bind, pyMul_num, Res.bind_val, pySub_num,
    Res.bind_val, np_cos_eq, ite_bind, pyMul_num, Res.bind_val, np_cos_eq, ite_bind,
    np_cos_eq, ite_bind, pyMul_num, Res.bind_val, pyAdd_num, Res.bind_val]
  rw [pyGt_num, Res.bind_val, np_where_lt, Res.bind_val, pyLt_num, Res.bind_val, np_where_lt, Res.bind_val,
    np_arccos_eq, ite_bind, Gen.aero.r_earth, pyAdd_num, Res.bind_val, pyMul_num]
  exact Returns.ite (Returns.ite (Returns.ite (Returns.ite (Returns.ite (Returns.ite (Returns.ite (Returns.ite
    (Returns.ite (Returns.ite_val _)))))))))

theorem aero_distance_tie (lat1 lon1 lat2 lon2 H : Rat) (hf : DistanceFin lat1 lon1 lat2 lon2) :
    Gen.aero.distance (.num lat1) (.num lon1) (.num lat2) (.num lon2) (.num H) =
      .val (.num (distanceWith (α := Rat) extRadians lat1 lon1 lat2 lon2 H)) :=
  (aero_distance_spec lat1 lon1 lat2 lon2 H).1 hf

/-- the eleven checked float calls of `bearing` return finite doubles, in evaluation order (`cos lat2` and
    `lon2 - lon1` are evaluated twice by the Python text; `arctan2` is not checked by the external) -/
def BearingFin (lat1 lon1 lat2 lon2 : Rat) : Prop :=
  let la1 := extRadians lat1
  let lo1 := extRadians lon1
  let la2 := extRadians lat2
  let lo2 := extRadians lon2
  let x : Rat := AeroOps.sin (lo2 - lo1) * AeroOps.cos la2
  let y : Rat := AeroOps.cos la1 * AeroOps.sin la2 - AeroOps.sin la1 * AeroOps.cos la2 * AeroOps.cos (lo2 - lo1)
  Fin1 radF lat1 ∧ Fin1 radF lon1 ∧ Fin1 radF lat2 ∧ Fin1 radF lon2 ∧
  Fin1 Float.sin (lo2 - lo1) ∧ Fin1 Float.cos la2 ∧ Fin1 Float.cos la1 ∧ Fin1 Float.sin la2 ∧
  Fin1 Float.sin la1 ∧ Fin1 Float.cos la2 ∧ Fin1 Float.cos (lo2 - lo1) ∧ Fin1 degF (AeroOps.atan2 x y)

theorem aero_bearing_spec (lat1 lon1 lat2 lon2 : Rat) :
    Returns (Gen.aero.bearing (.num lat1) (.num lon1) (.num lat2) (.num lon2))
      (BearingFin lat1 lon1 lat2 lon2)
      (.num (bearingWith (α := Rat) extRadians extDegrees lat1 lon1 lat2 lon2)) := by
  unfold bearingWith BearingFin
  simp only [lit_360]
  unfold Gen.aero.bearing
  dsimp only
  rw [np_radians_eq, ite_bind, np_radians_eq, ite_bind, np_radians_eq, ite_bind, np_radians_eq, ite_bind]
  rw [pySub_num, Res.bind_val, np_sin_eq, ite_bind, np_cos_eq, ite_bind, pyMul_num, Res.bind_val]
  rw [np_cos_eq, ite_bind, np_sin_eq, ite_bind, pyMul_num, Res.bind_val, np_sin_eq, ite_bind, ite_bind,
    pyMul_num, Res.bind_val, Res.bind_val, np_cos_eq, ite_bind, pyMul_num, Res.bind_val, pySub_num, Res.bind_val]
  rw [np_arctan2_num, Res.bind_val, math_degrees_eq, ite_bind, pyAdd_num, Res.bind_val, pyMod_360]
  exact Returns.ite (Returns.ite (Returns.ite (Returns.ite (Returns.ite (Returns.ite (Returns.ite (Returns.ite
    (Returns.ite (Returns.ite (Returns.ite (Returns.ite_val _)))))))))))

theorem aero_bearing_tie (lat1 lon1 lat2 lon2 : Rat) (hf : BearingFin lat1 lon1 lat2 lon2) :
    Gen.aero.bearing (.num lat1) (.num lon1) (.num lat2) (.num lon2) =
      .val (.num (bearingWith (α := Rat) extRadians extDegrees lat1 lon1 lat2 lon2)) :=
  (aero_bearing_spec lat1 lon1 lat2 lon2).1 hf

end PyModeS.Tie
