/-
  C12 transported to the source-generated definitions: the exact integer characterisations of the register predicates
  (`Properties/C12.lean`) hold of the functions py2lean.py produced from the current text of bds40/44/45/50/53.py.
-/
import PyModeS.Properties.C12
import PyModeS.Tie.Bds40
import PyModeS.Tie.Bds44
import PyModeS.Tie.Bds45
import PyModeS.Tie.Bds50
import PyModeS.Tie.Bds53

-- symbolic execution of long generated `do` blocks: generous but finite budget (proof times are seconds)
set_option maxHeartbeats 1000000
namespace PyModeS.C12Gen
open PyModeS PyModeS.Py PyModeS.CRC PyModeS.C12 PyModeS.Infer

theorem frame_bits (m : Msg) (hl : m.length = 28) : (hex2binM m).length = 112 := by
  rw [hex2binM_length, hl]

/-- a Boolean result read through the encoding of the tie -/
theorem bool_bind_iff (x : Res Bool) :
    (x >>= fun b => (.val (Val.bool b) : Res Val)) = .val (Val.bool true) ↔ x = .val true := by
  cases x with
  | val b => cases b <;> simp
  | rte => simp
  | exc => simp

theorem is40_iff_tie (m : Msg) (h : IsHex m) (hl : m.length = 28) :
    Gen.bds40.is40 (.str m) = .val (.bool true) ↔
      (bin2int (mbOf (hex2binM m)) ≠ 0 ∧ statusP (mbOf (hex2binM m)) rules40 = true ∧
       bin2int (slice 39 47 (mbOf (hex2binM m))) = 0 ∧ bin2int (slice 51 53 (mbOf (hex2binM m))) = 0) := by
  rw [Tie.is40_tie m h hl, bool_bind_iff]
  exact is40_iff _ (frame_bits m hl)

theorem is44_iff_tie (m : Msg) (h : IsHex m) (hl : m.length = 28) :
    Gen.bds44.is44 (.str m) = .val (.bool true) ↔
      (bin2int (mbOf (hex2binM m)) ≠ 0 ∧ statusP (mbOf (hex2binM m)) rules44 = true ∧ fld (mbOf (hex2binM m)) 0 4 ≤ 4 ∧
        (bitAt (mbOf (hex2binM m)) 4 = true → fld (mbOf (hex2binM m)) 5 14 ≤ 250) ∧
        -640 ≤ sval (mbOf (hex2binM m)) 23 24 34 ∧ sval (mbOf (hex2binM m)) 23 24 34 ≤ 480) := by
  rw [Tie.is44_tie m h hl, bool_bind_iff]
  exact is44_iff _ (frame_bits m hl)

theorem is45_iff_tie (m : Msg) (h : IsHex m) (hl : m.length = 28) :
    Gen.bds45.is45 (.str m) = .val (.bool true) ↔
      (bin2int (mbOf (hex2binM m)) ≠ 0 ∧ statusP (mbOf (hex2binM m)) rules45 = true ∧ fld (mbOf (hex2binM m)) 51 56 = 0 ∧
        -320 ≤ sval (mbOf (hex2binM m)) 16 17 26 ∧ sval (mbOf (hex2binM m)) 16 17 26 ≤ 240) := by
  rw [Tie.is45_tie m h hl, bool_bind_iff]
  exact is45_iff _ (frame_bits m hl)

theorem is50_iff_tie (m : Msg) (h : IsHex m) (hl : m.length = 28) :
    Gen.bds50.is50 (.str m) = .val (.bool true) ↔
      (bin2int (mbOf (hex2binM m)) ≠ 0 ∧ statusP (mbOf (hex2binM m)) rules50 = true ∧
        (bitAt (mbOf (hex2binM m)) 0 = true → -284 ≤ sval (mbOf (hex2binM m)) 1 2 11 ∧ sval (mbOf (hex2binM m)) 1 2 11 ≤ 284) ∧
        (bitAt (mbOf (hex2binM m)) 23 = true → fld (mbOf (hex2binM m)) 24 34 ≤ 300) ∧
        (bitAt (mbOf (hex2binM m)) 45 = true → fld (mbOf (hex2binM m)) 46 56 ≤ 300) ∧
        (bitAt (mbOf (hex2binM m)) 23 = true → bitAt (mbOf (hex2binM m)) 45 = true →
          fld (mbOf (hex2binM m)) 46 56 ≤ fld (mbOf (hex2binM m)) 24 34 + 100 ∧
          fld (mbOf (hex2binM m)) 24 34 ≤ fld (mbOf (hex2binM m)) 46 56 + 100)) := by
  rw [Tie.is50_tie m h hl, bool_bind_iff]
  exact is50_iff _ (frame_bits m hl)

theorem is53_iff_tie (m : Msg) (h : IsHex m) (hl : m.length = 28) :
    Gen.bds53.is53 (.str m) = .val (.bool true) ↔
      (bin2int (mbOf (hex2binM m)) ≠ 0 ∧ statusP (mbOf (hex2binM m)) rules53 = true ∧
        (bitAt (mbOf (hex2binM m)) 12 = true → fld (mbOf (hex2binM m)) 13 23 ≤ 500) ∧
        (bitAt (mbOf (hex2binM m)) 23 = true → fld (mbOf (hex2binM m)) 24 33 ≤ 125) ∧
        (bitAt (mbOf (hex2binM m)) 33 = true → fld (mbOf (hex2binM m)) 34 46 ≤ 1000) ∧
        (bitAt (mbOf (hex2binM m)) 46 = true → -125 ≤ sval (mbOf (hex2binM m)) 47 48 56 ∧ sval (mbOf (hex2binM m)) 47 48 56 ≤ 125)) := by
  rw [Tie.is53_tie m h hl, bool_bind_iff]
  exact is53_iff _ (frame_bits m hl)

end PyModeS.C12Gen
