/-
  C14, the `tell()` clause, transported to the source-generated definition `Gen.decoder.tell`
  (`Generated/Src/decoder.lean`, from `src/pyModeS/decoder/__init__.py`; the `_print` helper is inlined: a printed value
  is just evaluated, a `%s` format is `pyFormatS`): on every 28-digit hex frame, whatever its bits, `tell` returns
  normally (the value `None`) — neither RuntimeError (`.rte`) nor any other exception (`.exc`).

  The proof is a symbolic execution of the generated `do` block, one run per branch (DF 17 by type code, TC 29 by the
  subtype field; DF 20/21; every other DF), with the results of the generated decoders it calls taken from the tie
  theorems through `Tie/C14Gen.lean` (`no_exc_adsb_tie`, `guard_iff_tie`, `commb_total_tie`, `val_iff_examples_tie`).

  Statements (end of the file, `namespace PyModeS.Tie`; the per-branch lemmas `tell_commb_tie`, `tell_other_df_tie`,
  `tell_tc_*_tie`, `tell_df17_not19_tie` are in `PyModeS.Tie.TellGen` and give the value `None`):
  * `tell_total_112_not_tc19_tie`: unconditional, every frame that is not DF 17 / TC 19.
  * `tell_total_112_nofloat_tie`: unconditional, every frame except the DF 17 / TC 19 ground-speed frames with both
    velocity fields non-zero (the only frames on which `tell` reaches `math.sqrt` / `math.atan2`).
  * `tell_total_112_velshape_tie_partial`: every frame, given that on a TC 19 frame the generated
    `bds09.airborne_velocity` (no tie theorem) returns `None` or a 4-tuple ending in `"GS"` / `"TAS"` / `"IAS"`.
  * `tell_velocity_shape_tie` / `tell_velocity_shape_nofloat_tie`: that shape, proved from the generated
    definition of `airborne_velocity` — under `FloatOK` / without any hypothesis outside the ground-speed case.
  * `tell_total_112_tie_partial`: every frame, under `FloatOK` only.  `FloatOK` cannot be discharged inside Lean:
    `Ext.math_sqrt` / `Ext.math_degrees` are `Float.sqrt` / a `Float` multiplication guarded by `isNaN || isInf`
    (→ `.exc`), and `Float` operations are opaque to the kernel; evaluated (`#eval`) it holds on every sampled point.
-/
import PyModeS.Tie.C14Gen
import PyModeS.Generated.Src.decoder
set_option maxHeartbeats 1000000
set_option linter.unusedSimpArgs false
set_option linter.unusedVariables false
set_option linter.unusedTactic false
set_option linter.unreachableTactic false
set_option linter.style.nameCheck false
namespace PyModeS.Tie.TellGen
open PyModeS PyModeS.Py PyModeS.CRC PyModeS.C14 PyModeS.Tie PyModeS.Tie.Adsb

theorem one_le_lit (n : Nat) : pyLe (.num 1) (.num (n : Rat)) = .val (.bool (decide (1 ≤ n))) := by
  simp [pyLe_num]
theorem truth_bool (b : Bool) : pyTruth (.bool b) = b := by cases b <;> rfl
theorem pyEq_any_str (a : Val) (l : List Char) : pyEq a (.str l) = .val (.bool (Val.beq a (.str l))) := rfl
theorem pyIsNot_def (a b : Val) : pyIsNot a b = .val (.bool (!Val.beq a b)) := rfl
theorem pyEq_str (a b : List Char) : pyEq (.str a) (.str b) = .val (.bool (a == b)) := rfl
theorem pyEq_none_str (b : List Char) : pyEq .none (.str b) = .val (.bool false) := rfl
theorem pyIsNot_str_none (a : List Char) : pyIsNot (.str a) .none = .val (.bool true) := rfl
theorem pyKeys_dict (l : List (Val × Val)) : pyKeys (.dict l) = .val (.tuple (l.map (·.1))) := rfl
theorem pyIn_tuple (x : Val) (ks : List Val) : pyIn x (.tuple ks) = .val (.bool (ks.any (fun y => Val.beq x y))) := by
  cases x <;> rfl
theorem pyIdx_dict_of_mem (l : List (Val × Val)) (x : Val)
    (h : (l.map (·.1)).any (fun y => Val.beq x y) = true) :
    Py.pyIdx (.dict l) x = .val ((dictFind l x).getD .none) := by
  have : ∃ v, dictFind l x = some v := by
    unfold dictFind
    rw [List.any_map] at h
    obtain ⟨kv, hkv, hb⟩ := List.any_eq_true.mp h
    cases hf : l.find? (fun kv => Val.beq x kv.1) with
    | some kv => exact ⟨_, rfl⟩
    | none =>
      rw [List.find?_eq_none] at hf
      exact absurd hb (by simpa using hf kv hkv)
  obtain ⟨v, hv⟩ := this
  cases x <;> simp [Py.pyIdx, hv]
theorem fmt_skip {β} (ps as : List Val) (k : Res β) : (pyFormatS (.tuple ps) (.tuple as) >>= fun _ => k) = k := rfl
theorem pyIdxN_tuple0 (a : Val) (l : List Val) : pyIdxN (.tuple (a :: l)) 0 = .val a := rfl
theorem pyIdxN_tuple1 (a b : Val) (l : List Val) : pyIdxN (.tuple (a :: b :: l)) 1 = .val b := rfl
theorem pyIdxN_tuple2 (a b c : Val) (l : List Val) : pyIdxN (.tuple (a :: b :: c :: l)) 2 = .val c := rfl
theorem pyIdxN_tuple3 (a b c d : Val) (l : List Val) : pyIdxN (.tuple (a :: b :: c :: d :: l)) 3 = .val d := rfl


theorem idx_skip_if {β} (L : List (Val × Val)) (x : Val) (K : Res β)
    {inst : Decidable ((L.map (·.1)).any (fun y => Val.beq x y) = true)} :
    (@ite _ ((L.map (·.1)).any (fun y => Val.beq x y) = true) inst (Py.pyIdx (.dict L) x >>= fun _ => K) K) = K := by
  by_cases hc : (L.map (·.1)).any (fun y => Val.beq x y) = true
  · rw [if_pos hc, pyIdx_dict_of_mem L x hc, bind_val']
  · rw [if_neg hc]

theorem ite_val_skip {α β} {c : Prop} {inst : Decidable c} (a b : α) (K : Res β) :
    ((@ite _ c inst (Res.val a) (Res.val b)) >>= fun _ => K) = K := by
  by_cases hc : c
  · rw [if_pos hc, bind_val']
  · rw [if_neg hc, bind_val']

/-- two passes: first without unfolding the join points (`have __do_jp := …`) so that every decided `if` is pruned
    while the term is still of linear size, then with them -/
macro "tell_simp" "[" ts:Lean.Parser.Tactic.simpLemma,* "]" : tactic => `(tactic| (
  simp -zeta only [bind_val', Res.pure_eq, truth_bool, Val.ofNat, eq_lit, one_le_lit, lit_le, le_lit,
    pyEq_none_str, pyIsNot_none_none, pyIsNot_str_none, pyEq_str, pyKeys_dict, pyIn_tuple, fmt_skip, idx_skip_if,
    pyIdxN_tuple0, pyIdxN_tuple1, pyIdxN_tuple2, pyIdxN_tuple3, pyIs_none_num, pyIs_none_none,
    decide_true, decide_false, Bool.false_eq_true, ↓reduceIte, ite_self, ite_val_skip, $ts,*]
  first
  | done
  | simp only [bind_val', Res.pure_eq, truth_bool, Val.ofNat, eq_lit, one_le_lit, lit_le, le_lit,
    pyEq_none_str, pyIsNot_none_none, pyIsNot_str_none, pyEq_str, pyKeys_dict, pyIn_tuple, fmt_skip, idx_skip_if,
    pyIdxN_tuple0, pyIdxN_tuple1, pyIdxN_tuple2, pyIdxN_tuple3, pyIs_none_num, pyIs_none_none,
    decide_true, decide_false, Bool.false_eq_true, ↓reduceIte, ite_self, ite_val_skip, $ts,*]))

theorem pair_of_wind (o : Option (Nat × Rat)) : ∃ a b, encWind44 o = .tuple [a, b] := by
  rcases o with _ | ⟨s, d⟩ <;> exact ⟨_, _, rfl⟩

theorem altcode_val (m : Msg) (h : IsHex m) (hl : m.length = 28) (hd : PyModeS.df m = 20) :
    ∃ a, Gen.py_common.altcode (.str m) = .val a := by
  rw [altcode_tie m h (by omega), altcode_eq]
  rw [df_eq] at hd
  exact C14Gen.enc_isVal (Tot.altcodeB_isVal_df20 _ (C14Gen.frame_bits m hl) hd) _

theorem idcode_val (m : Msg) (h : IsHex m) (hl : m.length = 28) (hd : PyModeS.df m = 21) :
    ∃ a, Gen.py_common.idcode (.str m) = .val a := by
  rw [idcode_tie m h (by omega), idcode_eq]
  rw [df_eq] at hd
  exact C14Gen.enc_isVal (Tot.idcodeB_isVal_df21 _ (C14Gen.frame_bits m hl) hd) _

set_option maxRecDepth 10000 in
theorem tell_commb_tie (m : Msg) (h : IsHex m) (hl : m.length = 28)
    (hd : PyModeS.df m = 20 ∨ PyModeS.df m = 21) :
    Gen.decoder.tell (.str m) = .val .none := by
  obtain ⟨-, -, -, -, ⟨v20, c20⟩, -, -, -, ⟨v401, c401⟩, ⟨v402, c402⟩, ⟨v403, c403⟩, -, ⟨w44, cw44⟩, ⟨t44, ct44⟩,
    ⟨v443, c443⟩, ⟨v444, c444⟩, ⟨v445, c445⟩, -, ⟨v451, c451⟩, ⟨v452, c452⟩, ⟨v453, c453⟩, ⟨v454, c454⟩,
    ⟨v455, c455⟩, ⟨v456, c456⟩, ⟨v457, c457⟩, ⟨v458, c458⟩, -, ⟨v501, c501⟩, ⟨v502, c502⟩, ⟨v503, c503⟩,
    ⟨v504, c504⟩, ⟨v505, c505⟩, -, -, -, -, -, -, -, ⟨v601, c601⟩, ⟨v602, c602⟩, ⟨v603, c603⟩, ⟨v604, c604⟩,
    ⟨v605, c605⟩, cinf⟩ := C14Gen.commb_total_tie m h hl
  obtain ⟨B, hB⟩ := cinf true
  obtain ⟨wa, wb, hw⟩ : ∃ a b, w44 = .tuple [a, b] := by
    rw [wind44_tie m h hl] at cw44
    generalize PyModeS.wind44 (hex2binM m) = r at cw44
    rcases r with (o | _ | _)
    · cases cw44; exact pair_of_wind o
    · cases cw44
    · cases cw44
  obtain ⟨ta, tb, ht⟩ : ∃ a b, t44 = .tuple [a, b] := by
    rw [temp44_tie m h hl] at ct44
    generalize PyModeS.temp44 (hex2binM m) = r at ct44
    rcases r with (o | _ | _)
    · cases ct44; exact ⟨_, _, rfl⟩
    · cases ct44
    · cases ct44
  subst hw ht
  unfold Gen.decoder.tell
  rw [df_str m h (by omega), icao_tie m h (by omega)]
  have hA : ∀ K : Res Val, (if decide (PyModeS.df m = 20) = true then
      (Gen.py_common.altcode (.str m) >>= fun _ => K) else K) = K := by
    intro K
    by_cases e : PyModeS.df m = 20
    · obtain ⟨a, ha⟩ := altcode_val m h hl e
      rw [ha, bind_val', ite_self]
    · rw [if_neg (by simpa using e)]
  have hI : ∀ K : Res Val, (if decide (PyModeS.df m = 21) = true then
      (Gen.py_common.idcode (.str m) >>= fun _ => K) else K) = K := by
    intro K
    by_cases e : PyModeS.df m = 21
    · obtain ⟨a, ha⟩ := idcode_val m h hl e
      rw [ha, bind_val', ite_self]
    · rw [if_neg (by simpa using e)]
  generalize PyModeS.df m = d at *
  have d17 : decide (d = 17) = false := by rcases hd with e | e <;> simp [e]
  have dor : (if decide (d = 20) = true then Res.val (Val.bool (decide (d = 20)))
      else Res.val (Val.bool (decide (d = 21)))) = Res.val (Val.bool true) := by
    rcases hd with e | e <;> simp [e]
  tell_simp [d17, dor, hA, hI, hB, pyEq_any_str, pyIsNot_def, c20, c401, c402, c403, cw44, ct44, c443, c444, c445,
    c451, c452, c453, c454, c455, c456, c457, c458, c501, c502, c503, c504, c505, c601, c602, c603, c604, c605]
  cases hb : B.beq Val.none <;>
    simp only [hb, Bool.not_true, Bool.not_false, Bool.false_eq_true, ↓reduceIte, bind_val', truth_bool, idx_skip_if]


/-! ### DF other than 17, 20, 21 -/
set_option maxRecDepth 10000 in
theorem tell_other_df_tie (m : Msg) (h : IsHex m) (hl : m.length = 28)
    (h17 : PyModeS.df m ≠ 17) (h20 : PyModeS.df m ≠ 20) (h21 : PyModeS.df m ≠ 21) :
    Gen.decoder.tell (.str m) = .val .none := by
  unfold Gen.decoder.tell
  rw [df_str m h (by omega), icao_tie m h (by omega)]
  generalize PyModeS.df m = d at *
  have d17 : decide (d = 17) = false := by simpa using h17
  have d20 : decide (d = 20) = false := by simpa using h20
  have d21 : decide (d = 21) = false := by simpa using h21
  tell_simp [d17, d20, d21]

/-! ### DF 17 -/

set_option hygiene false in
/-- the facts shared by the DF 17 branches: `df`, `icao`, `typecode` evaluated, the Comm-B part skipped -/
macro "tell17_open" m:ident h:ident hd:ident : tactic => `(tactic| (
  unfold Gen.decoder.tell
  rw [df_str $m $h (by omega), icao_tie $m $h (by omega), typecode_str' $m $h (by omega)]
  generalize PyModeS.df $m = d at *
  have d17 : decide (d = 17) = true := by simp [$hd:ident]
  have d20 : decide (d = 20) = false := by simp [$hd:ident]
  have d21 : decide (d = 21) = false := by simp [$hd:ident]))

set_option hygiene false in
macro "tc_fact" n:ident ":" p:term : tactic =>
  `(tactic| first
    | have $n : ($p) = True := eq_true (by omega)
    | have $n : ($p) = False := eq_false (by omega))

set_option hygiene false in
/-- the truth value of every type-code comparison of `tell`, from the range hypotheses in the context -/
macro "tc_facts" n:ident : tactic => `(tactic| (
  tc_fact f1 : 1 ≤ $n
  tc_fact f2 : $n ≤ 4
  tc_fact f3 : 5 ≤ $n
  tc_fact f4 : $n ≤ 8
  tc_fact f5 : 9 ≤ $n
  tc_fact f6 : $n ≤ 18
  tc_fact f7 : $n = 19
  tc_fact f8 : 20 ≤ $n
  tc_fact f9 : $n ≤ 22
  tc_fact f10 : $n = 29))

set_option maxRecDepth 10000 in
set_option hygiene false in
theorem tell_tc_none_tie (m : Msg) (h : IsHex m) (hl : m.length = 28) (hd : PyModeS.df m = 17)
    (htc : tcB (hex2binM m) = none) :
    Gen.decoder.tell (.str m) = .val .none := by
  tell17_open m h hd
  rw [htc]
  tell_simp [d17, d20, d21, Val.ofOptNat]

set_option maxRecDepth 10000 in
set_option hygiene false in
theorem tell_tc_1_4_tie (m : Msg) (h : IsHex m) (hl : m.length = 28) (hd : PyModeS.df m = 17)
    (n : Nat) (htc : tcB (hex2binM m) = some n) (hr : 1 ≤ n ∧ n ≤ 4) :
    Gen.decoder.tell (.str m) = .val .none := by
  have hcs : ∃ v, Gen.bds08.callsign (.str m) = .val v :=
    (val_iff_of (C14Gen.no_exc_adsb_tie m h hl).2.2.2.2.1 (C14Gen.guard_iff_tie m h hl).2.2.2.2.2.2.2.1).mpr
      ⟨n, htc, hr⟩
  obtain ⟨cs, hcs⟩ := hcs
  tell17_open m h hd
  rw [htc]
  tc_facts n
  tell_simp [d17, d20, d21, Val.ofOptNat, f1, f2, f3, f4, f5, f6, f7, f8, f9, f10, hcs]


set_option maxRecDepth 10000 in
set_option hygiene false in
theorem tell_tc_other_tie (m : Msg) (h : IsHex m) (hl : m.length = 28) (hd : PyModeS.df m = 17)
    (n : Nat) (htc : tcB (hex2binM m) = some n) (hr : n = 0 ∨ (23 ≤ n ∧ n ≠ 29)) :
    Gen.decoder.tell (.str m) = .val .none := by
  tell17_open m h hd
  rw [htc]
  rcases hr with hr | hr
  · tc_facts n
    tell_simp [d17, d20, d21, Val.ofOptNat, f1, f2, f3, f4, f5, f6, f7, f8, f9, f10]
  · tc_facts n
    tell_simp [d17, d20, d21, Val.ofOptNat, f1, f2, f3, f4, f5, f6, f7, f8, f9, f10]

theorem pyDiv_131072 (a : Rat) : pyDiv (.num a) (.num 131072) = .val (.num (a / 131072)) := pyDiv_lit a 131072

/-- what the position branches of `tell` read besides the decoders: the odd/even flag and the two 17-bit CPR fields -/
theorem cpr_facts (m : Msg) (h : IsHex m) (hl : m.length = 28) :
    (∃ oe, Gen.adsb.oe_flag (.str m) = .val oe) ∧
    Gen.py_common.hex2bin (.str m) = .val (Val.ofBits (hex2binM m)) ∧
    bin2intR (slice 54 71 (hex2binM m)) = .val (PyModeS.bin2int (slice 54 71 (hex2binM m))) ∧
    bin2intR (slice 71 88 (hex2binM m)) = .val (PyModeS.bin2int (slice 71 88 (hex2binM m))) := by
  have hne : m ≠ [] := by intro e; rw [e] at hl; simp at hl
  have hb := C14Gen.frame_bits m hl
  refine ⟨?_, hex2bin_str m h hne, bin2intR_slice_of_lt _ _ _ (by omega) (by omega),
    bin2intR_slice_of_lt _ _ _ (by omega) (by omega)⟩
  rw [oe_flag_tie m h hne]
  exact C14Gen.enc_isVal (Tot.oeFlag_isVal _ hb) _

set_option maxRecDepth 10000 in
set_option hygiene false in
theorem tell_tc_5_8_tie (m : Msg) (h : IsHex m) (hl : m.length = 28) (hd : PyModeS.df m = 17)
    (n : Nat) (htc : tcB (hex2binM m) = some n) (hr : 5 ≤ n ∧ n ≤ 8) :
    Gen.decoder.tell (.str m) = .val .none := by
  obtain ⟨⟨oe, hoe⟩, hhb, hs1, hs2⟩ := cpr_facts m h hl
  have hsv : ∃ a b l, Gen.bds06.surface_velocity (.str m) (.bool false) = .val (.tuple (a :: b :: l)) := by
    obtain ⟨v, hv⟩ := (val_iff_of ((C14Gen.no_exc_adsb_tie m h hl).2.2.1 false)
      ((C14Gen.guard_iff_tie m h hl).2.2.1 false)).mpr ⟨n, htc, hr⟩
    rw [surface_velocity_tie m h (by omega)] at hv ⊢
    generalize PyModeS.surfaceVelocity (hex2binM m) = r at hv ⊢
    rcases r with (p | _ | _)
    · exact ⟨_, _, _, rfl⟩
    · cases hv
    · cases hv
  obtain ⟨sa, sb, sl, hsv⟩ := hsv
  tell17_open m h hd
  rw [htc]
  tc_facts n
  tell_simp [d17, d20, d21, Val.ofOptNat, f1, f2, f3, f4, f5, f6, f7, f8, f9, f10, hoe, hhb, hs1, hs2, hsv,
    pySliceNN_ofBits, bin2int_ofBits, pyDiv_131072, ite_val_skip]

set_option maxRecDepth 10000 in
set_option hygiene false in
theorem tell_tc_pos_tie (m : Msg) (h : IsHex m) (hl : m.length = 28) (hd : PyModeS.df m = 17)
    (n : Nat) (htc : tcB (hex2binM m) = some n) (hr : (9 ≤ n ∧ n ≤ 18) ∨ (20 ≤ n ∧ n ≤ 22)) :
    Gen.decoder.tell (.str m) = .val .none := by
  obtain ⟨⟨oe, hoe⟩, hhb, hs1, hs2⟩ := cpr_facts m h hl
  obtain ⟨alt, halt⟩ := (C14Gen.val_iff_examples_tie m h hl).1.mpr ⟨n, htc, by unfold PosTC; omega⟩
  tell17_open m h hd
  rw [htc]
  rcases hr with hr | hr
  · tc_facts n
    tell_simp [d17, d20, d21, Val.ofOptNat, f1, f2, f3, f4, f5, f6, f7, f8, f9, f10, hoe, hhb, hs1, hs2, halt,
      pySliceNN_ofBits, bin2int_ofBits, pyDiv_131072, ite_val_skip]
  · tc_facts n
    tell_simp [d17, d20, d21, Val.ofOptNat, f1, f2, f3, f4, f5, f6, f7, f8, f9, f10, hoe, hhb, hs1, hs2, halt,
      pySliceNN_ofBits, bin2int_ofBits, pyDiv_131072, ite_val_skip]

/-- `None`, `True` or `False` -/
def IsOptBool (v : Val) : Prop := v = .none ∨ v = .bool true ∨ v = .bool false
/-- `None`, 1, 2 or 3 (a vertical / horizontal mode of BDS 6,2) -/
def IsMode (v : Val) : Prop := v = .none ∨ v = .num 1 ∨ v = .num 2 ∨ v = .num 3

theorem optbool_lookup {v : Val} (hv : IsOptBool v) (a b : Val) {inst : Decidable (pyTruth v = true)} :
    (@ite _ (pyTruth v = true) inst (Py.pyIdx (.dict [(.num 0, a), (.num 1, b)]) v) (Res.val .none)) =
      .val (if pyTruth v = true then b else .none) := by
  rcases hv with e | e | e <;> subst e
  · have : ¬ pyTruth Val.none = true := by simp [pyTruth, Val.truth]
    rw [if_neg this, if_neg this]
  · have : pyTruth (Val.bool true) = true := rfl
    rw [if_pos this, if_pos this]; rfl
  · have : ¬ pyTruth (Val.bool false) = true := by simp [pyTruth, Val.truth]
    rw [if_neg this, if_neg this]

theorem bool_lookup (t : Bool) (a b : Val) :
    Py.pyIdx (.dict [(.num 0, a), (.num 1, b)]) (.bool t) = .val (if t then b else a) := by
  cases t <;> rfl

theorem mode_skip {v : Val} (hv : IsMode v) (a b c : Val) {β} (K : Res β)
    {inst : Decidable ((!Val.beq v .none) = true)} :
    (@ite _ ((!Val.beq v .none) = true) inst
      (Py.pyIdx (.dict [(.num 1, a), (.num 2, b), (.num 3, c)]) v >>= fun _ => K) K) = K := by
  by_cases hc : (!Val.beq v .none) = true
  · rw [if_pos hc]
    rcases hv with e | e | e | e <;> subst e
    · exact absurd hc (by simp [Val.beq])
    · rfl
    · rfl
    · rfl
  · rw [if_neg hc]

theorem emergency_lookup (e : Nat) (he : e < 8) (a0 a1 a2 a3 a4 a5 a6 a7 : Val) :
    Py.pyIdx (.dict [(.num 0, a0), (.num 1, a1), (.num 2, a2), (.num 3, a3), (.num 4, a4), (.num 5, a5),
      (.num 6, a6), (.num 7, a7)]) (.num (e : Rat)) =
      .val ((dictFind [(.num 0, a0), (.num 1, a1), (.num 2, a2), (.num 3, a3), (.num 4, a4), (.num 5, a5),
        (.num 6, a6), (.num 7, a7)] (.num (e : Rat))).getD .none) :=
  pyIdx_dict_of_mem _ _ (by interval_cases e <;> rfl)

theorem types_lookup (tag : List Char) (ht : tag = ['G', 'S'] ∨ tag = ['T', 'A', 'S'] ∨ tag = ['I', 'A', 'S'])
    (a b c : Val) :
    Py.pyIdx (.dict [(.str ['G', 'S'], a), (.str ['T', 'A', 'S'], b), (.str ['I', 'A', 'S'], c)]) (.str tag) =
      .val ((dictFind [(.str ['G', 'S'], a), (.str ['T', 'A', 'S'], b), (.str ['I', 'A', 'S'], c)]
        (.str tag)).getD .none) :=
  pyIdx_dict_of_mem _ _ (by rcases ht with e | e | e <;> subst e <;> rfl)

theorem shape_of_tie {α} {g : Res Val} {x : Res α} {f : α → Val} (ht : g = (x >>= fun a => .val (f a)))
    (hv : ∃ v, g = .val v) : ∃ a, x = .val a ∧ g = .val (f a) := by
  obtain ⟨v, hv⟩ := hv
  rw [ht] at hv ⊢
  rcases x with (a | _ | _)
  · exact ⟨a, rfl, rfl⟩
  · cases hv
  · cases hv

theorem val_of {x : Res Val} {P : Prop} (hne : x ≠ .exc) (hr : x = .rte ↔ P) (hp : ¬ P) : ∃ v, x = .val v := by
  rcases x with (v | _ | _)
  · exact ⟨v, rfl⟩
  · exact absurd (hr.mp rfl) hp
  · exact absurd rfl hne

theorem pyIsNot_tuple_none (l : List Val) : pyIsNot (.tuple l) .none = .val (.bool true) := rfl
theorem pyUnpackCheck_4 (a b c d : Val) : pyUnpackCheck (.tuple [a, b, c, d]) 4 = .val PUnit.unit := rfl
theorem pyUnpackCheck_3 (a b c : Val) : pyUnpackCheck (.tuple [a, b, c]) 3 = .val PUnit.unit := rfl
theorem pyUnpackCheck_2 (a b : Val) : pyUnpackCheck (.tuple [a, b]) 2 = .val PUnit.unit := rfl

/-- the shape of what `velocity(msg)` returns that `tell` relies on: `None`, or a 4-tuple whose last member is one of
    the three keys of the `types` dictionary -/
def VelShape (r : Res Val) : Prop :=
  r = .val .none ∨ ∃ s t v tag, r = .val (.tuple [s, t, v, .str tag]) ∧
    (tag = ['G', 'S'] ∨ tag = ['T', 'A', 'S'] ∨ tag = ['I', 'A', 'S'])

set_option maxRecDepth 10000 in
set_option hygiene false in
theorem tell_tc_19_tie_partial (m : Msg) (h : IsHex m) (hl : m.length = 28) (hd : PyModeS.df m = 17)
    (htc : tcB (hex2binM m) = some 19) (hv : VelShape (Gen.adsb.velocity (.str m) (.bool false))) :
    Gen.decoder.tell (.str m) = .val .none := by
  tell17_open m h hd
  rw [htc]
  generalize hn : (19 : Nat) = n
  have hn' : n = 19 := hn.symm
  tc_facts n
  rcases hv with hv | ⟨s, t, v, tag, hv, htag⟩
  · tell_simp [d17, d20, d21, Val.ofOptNat, f1, f2, f3, f4, f5, f6, f7, f8, f9, f10, hv]
  · have tl := fun a b c => types_lookup tag htag a b c
    tell_simp [d17, d20, d21, Val.ofOptNat, f1, f2, f3, f4, f5, f6, f7, f8, f9, f10, hv, pyIsNot_tuple_none,
      pyUnpackCheck_4, tl]


theorem eq_zero_lit (n : Nat) : pyEq (.num (n : Rat)) (.num 0) = .val (.bool (decide (n = 0))) := by
  have := pyEq_ofNat n 0
  simpa [Val.ofNat] using this

theorem isMode_ofOptNat (r : Option Nat) (hr : ∀ v, r = some v → v = 1 ∨ v = 2 ∨ v = 3) : IsMode (Val.ofOptNat r) := by
  rcases r with _ | v
  · exact Or.inl rfl
  · rcases hr v rfl with e | e | e <;> subst e
    · exact Or.inr (Or.inl (by simp [Val.ofOptNat]))
    · exact Or.inr (Or.inr (Or.inl (by simp [Val.ofOptNat])))
    · exact Or.inr (Or.inr (Or.inr (by simp [Val.ofOptNat])))

theorem isOptBool_ofOptBool (r : Option Bool) : IsOptBool (ofOptBool r) := by
  rcases r with _ | b
  · exact Or.inl rfl
  · cases b
    · exact Or.inr (Or.inr rfl)
    · exact Or.inr (Or.inl rfl)

theorem isOptBool_bool (b : Bool) : IsOptBool (.bool b) := isOptBool_ofOptBool (some b)

set_option maxRecDepth 10000 in
set_option hygiene false in
/-- TC 29 with subtype field (ME bits 6–7) = 0: the "version 0" decoders -/
theorem tell_tc_29_v0_tie (m : Msg) (h : IsHex m) (hl : m.length = 28) (hd : PyModeS.df m = 17)
    (htc : tcB (hex2binM m) = some 29) (hst : PyModeS.bin2int (slice 37 39 (hex2binM m)) = 0) :
    Gen.decoder.tell (.str m) = .val .none := by
  have hne : m ≠ [] := by intro e; rw [e] at hl; simp at hl
  have hb := C14Gen.frame_bits m hl
  have hhb := hex2bin_str m h hne
  have hsub : bin2intR (slice 5 7 ((hex2binM m).drop 32)) = .val 0 := by
    rw [Tot.slice_drop32, bin2intR_slice_of_lt _ _ _ (by omega) (by omega)]
    exact congrArg Res.val hst
  obtain ⟨-, -, -, -, -, -, -, -, -, -, n11, n12, n13, -, n15, -, -, -, -, -, -, n22, n23, n24, -⟩ :=
    C14Gen.no_exc_adsb_tie m h hl
  obtain ⟨-, -, -, -, -, -, -, -, -, -, -, -, -, -, -, -, -, -, -, -, -, -, -, -, -, -, -, -, g29, g30, g31, g32, g33,
    g34, g35, -⟩ := C14Gen.guard_iff_tie m h hl
  have np : ¬ (tcB (hex2binM m) ≠ some 29 ∨ PyModeS.bin2int (slice 37 39 (hex2binM m)) = 1) := by
    rw [htc, hst]; simp
  have hst1 : PyModeS.bin2int (slice 37 39 (hex2binM m)) ≠ 1 := by rw [hst]; omega
  obtain ⟨top, -, htop⟩ := shape_of_tie (tcas_operational_tie m h hl) (val_of n22 g35 (by rw [htc]; simp))
  obtain ⟨ta, -, hta⟩ := shape_of_tie (target_altitude_tie m h hl) (val_of n11 g29 np)
  obtain ⟨tg, -, htg⟩ := shape_of_tie (target_angle_tie m h hl) (val_of n15 g32 np)
  obtain ⟨vm, hvm0, hvm⟩ := shape_of_tie (vertical_mode_tie m h hl) (val_of n12 g30 np)
  obtain ⟨hm, hhm0, hhm⟩ := shape_of_tie (horizontal_mode_tie m h hl) (val_of n13 g31 np)
  obtain ⟨ra, -, hra⟩ := shape_of_tie (tcas_ra_tie m h hl) (val_of n23 g33 np)
  obtain ⟨es, hes0, hes⟩ := shape_of_tie (emergency_status_tie m h hl) (val_of n24 g34 np)
  obtain ⟨-, hk⟩ := tell_lookup_keys (hex2binM m) hb
  obtain ⟨⟨vm', hvm1, kvm⟩, ⟨hm', hhm1, khm⟩, ⟨es', hes1, kes⟩⟩ := hk htc hst1
  rw [hvm0] at hvm1; cases hvm1
  rw [hhm0] at hhm1; cases hhm1
  rw [hes0] at hes1; cases hes1
  have ivm := isMode_ofOptNat vm kvm
  have ihm := isMode_ofOptNat hm khm
  generalize Val.ofOptNat vm = vmv at hvm ivm
  generalize Val.ofOptNat hm = hmv at hhm ihm
  have l1 := fun a b c K inst => @mode_skip vmv ivm a b c Val K inst
  have l2 := fun a b c K inst => @mode_skip hmv ihm a b c Val K inst
  have l3 := fun a b inst => @optbool_lookup (.bool top) (isOptBool_bool top) a b inst
  have l4 := emergency_lookup es kes
  tell17_open m h hd
  rw [htc]
  generalize hn : (29 : Nat) = n
  have hn' : n = 29 := hn.symm
  tc_facts n
  tell_simp [d17, d20, d21, Val.ofOptNat, f1, f2, f3, f4, f5, f6, f7, f8, f9, f10, hhb, hsub, htop, hta, htg, hvm, hhm,
    hra, hes, pySliceFrom_ofBits, pySliceNN_ofBits, bin2int_ofBits, eq_zero_lit, pyUnpackCheck_3, pyIsNot_def,
    l1, l2, l3, l4, bool_lookup]


theorem bin2int_digit (x : Bool) : Gen.py_common.bin2int (.str [x.toDigit]) = .val (Val.ofNat x.toNat) := by
  have := bin2int_ofBits [x]
  rw [bin2intR_of_length (by simp)] at this
  simpa [Val.ofBits, PyModeS.bin2int] using this

set_option maxRecDepth 10000 in
set_option hygiene false in
/-- TC 29 with subtype field (ME bits 6–7) ≠ 0: the "version 1" decoders -/
theorem tell_tc_29_v1_tie (m : Msg) (h : IsHex m) (hl : m.length = 28) (hd : PyModeS.df m = 17)
    (htc : tcB (hex2binM m) = some 29) (hst : PyModeS.bin2int (slice 37 39 (hex2binM m)) ≠ 0) :
    Gen.decoder.tell (.str m) = .val .none := by
  have hne : m ≠ [] := by intro e; rw [e] at hl; simp at hl
  have hb := C14Gen.frame_bits m hl
  have hhb := hex2bin_str m h hne
  have hsub : bin2intR (slice 5 7 ((hex2binM m).drop 32)) =
      .val (PyModeS.bin2int (slice 37 39 (hex2binM m))) := by
    rw [Tot.slice_drop32, bin2intR_slice_of_lt _ _ _ (by omega) (by omega)]
  have hbit : ∃ x, idxR ((hex2binM m).drop 32) 46 = .val x :=
    ⟨_, idxR_of_lt _ _ (by simp [hb])⟩
  obtain ⟨x46, hbit⟩ := hbit
  obtain ⟨-, -, -, -, -, -, -, -, -, n10, -, -, -, n14, -, n16, n17, n18, n19, n20, n21, n22, -⟩ :=
    C14Gen.no_exc_adsb_tie m h hl
  obtain ⟨-, -, -, -, -, -, -, -, -, -, -, -, -, -, -, -, -, -, -, -, g21, g22, g23, g24, g25, g26, g27, g28, -, -, -,
    -, -, -, g35, -⟩ := C14Gen.guard_iff_tie m h hl
  have np : ¬ (tcB (hex2binM m) ≠ some 29 ∨ PyModeS.bin2int (slice 37 39 (hex2binM m)) = 0) := by
    rw [htc]; simp [hst]
  obtain ⟨top, -, htop⟩ := shape_of_tie (tcas_operational_tie m h hl) (val_of n22 g35 (by rw [htc]; simp))
  obtain ⟨sa, -, hsa⟩ := shape_of_tie (selected_altitude_tie m h hl) (val_of n10 g21 np)
  obtain ⟨baro, hbaro⟩ := val_of n16 g22 np
  obtain ⟨hdg, hhdg⟩ := val_of n14 g23 np
  obtain ⟨ap, -, hap⟩ := shape_of_tie (autopilot_tie m h hl) (val_of n17 g24 np)
  obtain ⟨vn, -, hvn⟩ := shape_of_tie (vnav_mode_tie m h hl) (val_of n18 g25 np)
  obtain ⟨ah, -, hah⟩ := shape_of_tie (altitude_hold_mode_tie m h hl) (val_of n19 g26 np)
  obtain ⟨apr, -, hapr⟩ := shape_of_tie (approach_mode_tie m h hl) (val_of n20 g27 np)
  obtain ⟨ln, -, hln⟩ := shape_of_tie (lnav_mode_tie m h hl) (val_of n21 g28 np)
  have i1 := isOptBool_ofOptBool ap
  have i2 := isOptBool_ofOptBool vn
  have i3 := isOptBool_ofOptBool ah
  have i4 := isOptBool_ofOptBool apr
  have i5 := isOptBool_ofOptBool ln
  generalize ofOptBool ap = v1 at hap i1
  generalize ofOptBool vn = v2 at hvn i2
  generalize ofOptBool ah = v3 at hah i3
  generalize ofOptBool apr = v4 at hapr i4
  generalize ofOptBool ln = v5 at hln i5
  have l1 := fun a b inst => @optbool_lookup v1 i1 a b inst
  have l2 := fun a b inst => @optbool_lookup v2 i2 a b inst
  have l3 := fun a b inst => @optbool_lookup v3 i3 a b inst
  have l4 := fun a b inst => @optbool_lookup v4 i4 a b inst
  have l5 := fun a b inst => @optbool_lookup v5 i5 a b inst
  tell17_open m h hd
  rw [htc]
  generalize hn : (29 : Nat) = n
  have hn' : n = 29 := hn.symm
  tc_facts n
  have hst' : (PyModeS.bin2int (slice 37 39 (hex2binM m)) = 0) = False := eq_false hst
  tell_simp [d17, d20, d21, Val.ofOptNat, f1, f2, f3, f4, f5, f6, f7, f8, f9, f10, hhb, hsub, hbit, htop, hsa, hbaro,
    hhdg, hap, hvn, hah, hapr, hln, hst', pySliceFrom_ofBits, pySliceNN_ofBits, pyIdxN_ofBits, bin2int_ofBits,
    bin2int_digit, eq_zero_lit, pyUnpackCheck_2, pyIs_none, pyNot_bool,
    l1, l2, l3, l4, l5, bool_lookup]


/-! ### assembling the branches -/

/-- DF 17, every type code except 19 -/
theorem tell_df17_not19_tie (m : Msg) (h : IsHex m) (hl : m.length = 28) (hd : PyModeS.df m = 17)
    (h19 : tcB (hex2binM m) ≠ some 19) :
    Gen.decoder.tell (.str m) = .val .none := by
  rcases htc : tcB (hex2binM m) with _ | n
  · exact tell_tc_none_tie m h hl hd htc
  · have hn19 : n ≠ 19 := by intro e; rw [htc, e] at h19; exact h19 rfl
    by_cases c1 : 1 ≤ n ∧ n ≤ 4
    · exact tell_tc_1_4_tie m h hl hd n htc c1
    by_cases c2 : 5 ≤ n ∧ n ≤ 8
    · exact tell_tc_5_8_tie m h hl hd n htc c2
    by_cases c3 : (9 ≤ n ∧ n ≤ 18) ∨ (20 ≤ n ∧ n ≤ 22)
    · exact tell_tc_pos_tie m h hl hd n htc c3
    by_cases c4 : n = 29
    · subst c4
      by_cases hst : PyModeS.bin2int (slice 37 39 (hex2binM m)) = 0
      · exact tell_tc_29_v0_tie m h hl hd htc hst
      · exact tell_tc_29_v1_tie m h hl hd htc hst
    · exact tell_tc_other_tie m h hl hd n htc (by omega)

/-- **C14, the `tell()` clause, generated definition, every frame that is not an airborne-velocity message**
    (DF ≠ 17 or type code ≠ 19): `tell` returns normally (`None`), unconditionally -/
theorem tell_total_112_not_tc19_tie (m : Msg) (h : IsHex m) (hl : m.length = 28)
    (h19 : ¬ (PyModeS.df m = 17 ∧ tcB (hex2binM m) = some 19)) :
    Gen.decoder.tell (.str m) = .val .none := by
  by_cases hd : PyModeS.df m = 17
  · exact tell_df17_not19_tie m h hl hd (fun e => h19 ⟨hd, e⟩)
  by_cases h20 : PyModeS.df m = 20
  · exact tell_commb_tie m h hl (Or.inl h20)
  by_cases h21 : PyModeS.df m = 21
  · exact tell_commb_tie m h hl (Or.inr h21)
  · exact tell_other_df_tie m h hl hd h20 h21

/-- on a TC 19 frame `adsb.velocity` is `bds09.airborne_velocity` -/
theorem velocity_tc19 (m : Msg) (h : IsHex m) (hl : m.length = 28) (htc : tcB (hex2binM m) = some 19) (src : Val) :
    Gen.adsb.velocity (.str m) src = Gen.bds09.airborne_velocity (.str m) src := by
  rw [velocity_tie m h (by omega), ((velocityRoute_table (hex2binM m)).2.1).mpr htc]
  rfl

/-! ### `bds09.airborne_velocity` (no tie theorem): the shape `tell` relies on, from the generated definition -/

theorem ite_val_bind {α β} {c : Prop} {inst : Decidable c} (a b : α) (f : α → Res β) :
    ((@ite _ c inst (Res.val a) (Res.val b)) >>= f) = f (@ite _ c inst a b) := by
  by_cases hc : c
  · rw [if_pos hc, if_pos hc, bind_val']
  · rw [if_neg hc, if_neg hc, bind_val']
theorem ite_num {c : Prop} {inst : Decidable c} (x y : Rat) :
    (@ite _ c inst (Val.num x) (Val.num y)) = Val.num (@ite _ c inst x y) := by
  by_cases hc : c
  · rw [if_pos hc, if_pos hc]
  · rw [if_neg hc, if_neg hc]
theorem pyInt1_num (q : Rat) :
    pyInt1 (.num q) = .val (.num ((if q < 0 then -((-q).floor) else q.floor : Int) : Rat)) := rfl
theorem pyDiv_1024 (a : Rat) : pyDiv (.num a) (.num 1024) = .val (.num (a / 1024)) := pyDiv_lit a 1024
theorem pyIn_12 (st : Nat) :
    pyIn (Val.num (st : Rat)) (.tuple [.num 1, .num 2]) = .val (.bool (decide (st = 1 ∨ st = 2))) := by
  have := pyIn_ofNat st [1, 2]
  simpa [Val.ofNat] using this

macro "av_simp" "[" ts:Lean.Parser.Tactic.simpLemma,* "]" : tactic => `(tactic| (
  simp -zeta only [bind_val', Res.pure_eq, truth_bool, Val.ofNat, eq_lit, eq_zero_lit, pyIn_12,
    pySliceFrom_ofBits, pySliceNN_ofBits, pyIdxN_ofBits, bin2int_ofBits, pyEq_digit_zero, pyEq_digit_one,
    ite_val_bind, ite_num, pySub_num, pyMul_num, pyAdd_num, pyDiv_1024, pyInt1_num, pyGe_num, pyIsNot_none_none, pyIsNot_none_num,
    decide_true, decide_false, Bool.false_eq_true, Bool.or_true, Bool.or_false, Bool.true_or, Bool.false_or,
    ↓reduceIte, ite_self, or_true, true_or, or_false, false_or, $ts,*]
  try simp only [bind_val', Res.pure_eq, truth_bool, Val.ofNat, eq_lit, eq_zero_lit, pyIn_12,
    pySliceFrom_ofBits, pySliceNN_ofBits, pyIdxN_ofBits, bin2int_ofBits, pyEq_digit_zero, pyEq_digit_one,
    ite_val_bind, ite_num, pySub_num, pyMul_num, pyAdd_num, pyDiv_1024, pyInt1_num, pyGe_num, pyIsNot_none_none, pyIsNot_none_num,
    decide_true, decide_false, Bool.false_eq_true, Bool.or_true, Bool.or_false, Bool.true_or, Bool.false_or,
    ↓reduceIte, ite_self, or_true, true_or, or_false, false_or, $ts,*]))

/-- **residual floating-point hypothesis**: the two libm calls of `bds09.airborne_velocity` — `math.sqrt` of the squared
    ground speed, `math.degrees(math.atan2(v_we, v_sn))` — do not raise (in the model: do not produce NaN / Inf, `Float`
    operations being opaque) on velocity components in the range a frame can carry (10-bit fields, minus one, times 4 for
    the supersonic subtype: at most 4088 in absolute value) -/
def FloatOK : Prop := ∀ a b : Rat, -4088 ≤ a → a ≤ 4088 → -4088 ≤ b → b ≤ 4088 →
  (∃ r : Rat, Gen.Ext.math_sqrt (.num (b * b + a * a)) = .val (.num r)) ∧
  (∃ r : Rat, (Gen.Ext.math_atan2 (.num a) (.num b) >>= Gen.Ext.math_degrees) = .val (.num r))

theorem gs_tail (hF : FloatOK) (a b : Rat) (ha1 : -4088 ≤ a) (ha2 : a ≤ 4088) (hb1 : -4088 ≤ b) (hb2 : b ≤ 4088)
    (vs : Val) :
    VelShape (do
      let spd ← Gen.Ext.math_sqrt (Val.num (b * b + a * a))
      let spd ← pyInt1 spd
      let trk ← Gen.Ext.math_atan2 (Val.num a) (Val.num b)
      let trk ← Gen.Ext.math_degrees trk
      let trk ← (do
        let l ← pyGe trk (Val.num 0)
        if pyTruth l = true then Res.val trk else pyAdd trk (Val.num 360))
      Res.val (Val.tuple [spd, trk, vs, Val.str ['G', 'S']])) := by
  obtain ⟨⟨r, hr⟩, ⟨t, ht⟩⟩ := hF a b ha1 ha2 hb1 hb2
  have hat : Gen.Ext.math_atan2 (Val.num a) (Val.num b) =
      .val (.num (floatToRat (Float.atan2 (ratToFloat a) (ratToFloat b)))) := rfl
  rw [hat, bind_val'] at ht
  rw [hr, bind_val', pyInt1_num, bind_val', hat, bind_val', ht, bind_val', pyGe_num, bind_val', truth_bool]
  by_cases c : (0 : Rat) ≤ t
  · simp only [c, decide_true, ↓reduceIte, bind_val']
    exact Or.inr ⟨_, _, _, _, rfl, Or.inl rfl⟩
  · simp only [c, decide_false, Bool.false_eq_true, ↓reduceIte, pyAdd_num, bind_val']
    exact Or.inr ⟨_, _, _, _, rfl, Or.inl rfl⟩

theorem bound1 (s : Bool) (k : Nat) (h0 : k ≠ 0) (h1 : k < 1024) :
    -4088 ≤ (if s = true then (-1 : Rat) else 1) * ((k : Rat) - 1) ∧
      (if s = true then (-1 : Rat) else 1) * ((k : Rat) - 1) ≤ 4088 := by
  have a1 : (1 : Rat) ≤ k := by exact_mod_cast Nat.one_le_iff_ne_zero.mpr h0
  have a2 : (k : Rat) ≤ 1023 := by exact_mod_cast (by omega : k ≤ 1023)
  cases s <;> simp only [Bool.false_eq_true, ↓reduceIte] <;> constructor <;> linarith

theorem bound4 (s : Bool) (k : Nat) (h0 : k ≠ 0) (h1 : k < 1024) :
    -4088 ≤ (if s = true then (-1 : Rat) else 1) * (((k : Rat) - 1) * 4) ∧
      (if s = true then (-1 : Rat) else 1) * (((k : Rat) - 1) * 4) ≤ 4088 := by
  have a1 : (1 : Rat) ≤ k := by exact_mod_cast Nat.one_le_iff_ne_zero.mpr h0
  have a2 : (k : Rat) ≤ 1023 := by exact_mod_cast (by omega : k ≤ 1023)
  cases s <;> simp only [Bool.false_eq_true, ↓reduceIte] <;> constructor <;> linarith

macro "av_close" x:ident y:ident : tactic => `(tactic| (
  cases $x:ident <;> cases $y:ident <;>
    simp only [Bool.not_true, Bool.not_false, ↓reduceIte, Bool.false_eq_true, bind_val', pyMul_num] <;>
    first
    | exact Or.inl rfl
    | exact Or.inr ⟨_, _, _, _, rfl, Or.inl rfl⟩
    | exact Or.inr ⟨_, _, _, _, rfl, Or.inr (Or.inl rfl)⟩
    | exact Or.inr ⟨_, _, _, _, rfl, Or.inr (Or.inr rfl)⟩))

/-- a TC 19 frame whose `airborne_velocity` reaches the floating-point calls: ground-speed subtype (1 or 2) with both
    velocity fields non-zero (`mb` = the 80 bits after the first 32) -/
def GsMoving (m : Msg) : Prop :=
  (PyModeS.bin2int (slice 5 8 ((hex2binM m).drop 32)) = 1 ∨ PyModeS.bin2int (slice 5 8 ((hex2binM m).drop 32)) = 2) ∧
    PyModeS.bin2int (slice 14 24 ((hex2binM m).drop 32)) ≠ 0 ∧ PyModeS.bin2int (slice 25 35 ((hex2binM m).drop 32)) ≠ 0

set_option maxRecDepth 10000 in
/-- the generated `bds09.airborne_velocity` on a TC 19 frame, from its definition: `None`, or a 4-tuple ending in one of
    the three speed-type tags; the floating-point hypothesis is needed only on a `GsMoving` frame -/
theorem airborne_velocity_shape (m : Msg) (h : IsHex m) (hl : m.length = 28) (htc : tcB (hex2binM m) = some 19)
    (hF : GsMoving m → FloatOK) :
    VelShape (Gen.bds09.airborne_velocity (.str m) (.bool false)) := by
  unfold GsMoving at hF
  have hne : m ≠ [] := by intro e; rw [e] at hl; simp at hl
  have hb := C14Gen.frame_bits m hl
  unfold Gen.bds09.airborne_velocity
  rw [typecode_str' m h (by omega), htc, hex2bin_str m h hne]
  have e19 : pyNe (Val.ofOptNat (some 19)) (Val.num 19) = .val (.bool false) := by
    rw [pyNe_lit]; simp
  have hmb : ((hex2binM m).drop 32).length = 80 := by simp [hb]
  simp -zeta only [bind_val', pySliceFrom_ofBits]
  generalize (hex2binM m).drop 32 = mb at hmb hF ⊢
  have s1 := bin2intR_slice_of_lt mb 5 8 (by omega) (by omega)
  have s2 := bin2intR_slice_of_lt mb 14 24 (by omega) (by omega)
  have s3 := bin2intR_slice_of_lt mb 25 35 (by omega) (by omega)
  have s4 := bin2intR_slice_of_lt mb 37 46 (by omega) (by omega)
  obtain ⟨b13, i1⟩ : ∃ x, idxR mb 13 = .val x := ⟨_, idxR_of_lt _ _ (by omega)⟩
  obtain ⟨b24, i2⟩ : ∃ x, idxR mb 24 = .val x := ⟨_, idxR_of_lt _ _ (by omega)⟩
  obtain ⟨b35, i3⟩ : ∃ x, idxR mb 35 = .val x := ⟨_, idxR_of_lt _ _ (by omega)⟩
  obtain ⟨b36, i4⟩ : ∃ x, idxR mb 36 = .val x := ⟨_, idxR_of_lt _ _ (by omega)⟩
  generalize PyModeS.bin2int (slice 5 8 mb) = st at s1 hF
  have hew : PyModeS.bin2int (slice 14 24 mb) < 1024 := Tot.bin2int_slice_lt 14 24 mb
  have hns : PyModeS.bin2int (slice 25 35 mb) < 1024 := Tot.bin2int_slice_lt 25 35 mb
  generalize PyModeS.bin2int (slice 14 24 mb) = ew at s2 hew hF
  generalize PyModeS.bin2int (slice 25 35 mb) = ns at s3 hns hF
  generalize PyModeS.bin2int (slice 37 46 mb) = vr at s4
  by_cases c1 : st = 1
  · have k1 : (st = 1) = True := eq_true c1
    have k2 : (st = 2) = False := eq_false (by omega)
    by_cases cew : ew = 0
    · have kew : (ew = 0) = True := eq_true cew
      av_simp [e19, s1, s2, s3, s4, i1, i2, i3, i4, k1, k2, kew]
      exact Or.inl rfl
    have kew : (ew = 0) = False := eq_false cew
    by_cases cns : ns = 0
    · have kns : (ns = 0) = True := eq_true cns
      av_simp [e19, s1, s2, s3, s4, i1, i2, i3, i4, k1, k2, kew, kns]
      exact Or.inl rfl
    have kns : (ns = 0) = False := eq_false cns
    av_simp [e19, s1, s2, s3, s4, i1, i2, i3, i4, k1, k2, kew, kns]
    exact gs_tail (hF ⟨Or.inl c1, cew, cns⟩) _ _ (bound1 b13 ew cew hew).1 (bound1 b13 ew cew hew).2 (bound1 b24 ns cns hns).1
      (bound1 b24 ns cns hns).2 _
  have k1 : (st = 1) = False := eq_false c1
  by_cases c2 : st = 2
  · have k2 : (st = 2) = True := eq_true c2
    by_cases cew : ew = 0
    · have kew : (ew = 0) = True := eq_true cew
      av_simp [e19, s1, s2, s3, s4, i1, i2, i3, i4, k1, k2, kew]
      exact Or.inl rfl
    have kew : (ew = 0) = False := eq_false cew
    by_cases cns : ns = 0
    · have kns : (ns = 0) = True := eq_true cns
      av_simp [e19, s1, s2, s3, s4, i1, i2, i3, i4, k1, k2, kew, kns]
      exact Or.inl rfl
    have kns : (ns = 0) = False := eq_false cns
    av_simp [e19, s1, s2, s3, s4, i1, i2, i3, i4, k1, k2, kew, kns]
    exact gs_tail (hF ⟨Or.inr c2, cew, cns⟩) _ _ (bound4 b13 ew cew hew).1 (bound4 b13 ew cew hew).2 (bound4 b24 ns cns hns).1
      (bound4 b24 ns cns hns).2 _
  have k2 : (st = 2) = False := eq_false c2
  by_cases c4 : st = 4
  · have k4 : (st = 4) = True := eq_true c4
    by_cases cns : ns = 0
    · have kns : (ns = 0) = True := eq_true cns
      av_simp [e19, s1, s2, s3, s4, i1, i2, i3, i4, k1, k2, k4, kns]
      av_close b13 b24
    · have kns : (ns = 0) = False := eq_false cns
      av_simp [e19, s1, s2, s3, s4, i1, i2, i3, i4, k1, k2, k4, kns]
      av_close b13 b24
  · have k4 : (st = 4) = False := eq_false c4
    by_cases cns : ns = 0
    · have kns : (ns = 0) = True := eq_true cns
      av_simp [e19, s1, s2, s3, s4, i1, i2, i3, i4, k1, k2, k4, kns]
      av_close b13 b24
    · have kns : (ns = 0) = False := eq_false cns
      av_simp [e19, s1, s2, s3, s4, i1, i2, i3, i4, k1, k2, k4, kns]
      av_close b13 b24

/-! ### all frames -/

/-- **C14, the `tell()` clause, generated definition, every 28-digit frame**, under the hypothesis `hv` on the one
    decoder that has no tie theorem: on a TC 19 frame the generated `bds09.airborne_velocity` returns `None` or a 4-tuple
    whose last member is `"GS"`, `"TAS"` or `"IAS"` (`VelShape`; proved below from `FloatOK`) -/
theorem tell_velshape (m : Msg) (h : IsHex m) (hl : m.length = 28)
    (hv : PyModeS.df m = 17 → tcB (hex2binM m) = some 19 →
      VelShape (Gen.bds09.airborne_velocity (.str m) (.bool false))) :
    Gen.decoder.tell (.str m) = .val .none := by
  by_cases h19 : PyModeS.df m = 17 ∧ tcB (hex2binM m) = some 19
  · refine tell_tc_19_tie_partial m h hl h19.1 h19.2 ?_
    rw [velocity_tc19 m h hl h19.2]
    exact hv h19.1 h19.2
  · exact tell_total_112_not_tc19_tie m h hl h19

end PyModeS.Tie.TellGen

/-! ## The statements -/
namespace PyModeS.Tie
open PyModeS PyModeS.Py PyModeS.CRC PyModeS.C14 PyModeS.Tie.TellGen

/-- **`bds09.airborne_velocity` (generated, no tie theorem), value shape on a TC 19 frame**: under `FloatOK` it returns
    `None` or a 4-tuple `(speed, track / heading, vertical rate, tag)` with `tag` one of `"GS"`, `"TAS"`, `"IAS"` —
    in particular neither RuntimeError nor any other exception -/
theorem tell_velocity_shape_tie (hF : FloatOK) (m : Msg) (h : IsHex m) (hl : m.length = 28)
    (htc : tcB (hex2binM m) = some 19) :
    Gen.bds09.airborne_velocity (.str m) (.bool false) = .val .none ∨
      ∃ spd trk vr tag, Gen.bds09.airborne_velocity (.str m) (.bool false) = .val (.tuple [spd, trk, vr, .str tag]) ∧
        (tag = ['G', 'S'] ∨ tag = ['T', 'A', 'S'] ∨ tag = ['I', 'A', 'S']) :=
  airborne_velocity_shape m h hl htc (fun _ => hF)

/-- the same **without any hypothesis** on every TC 19 frame that does not reach the floating-point calls: airspeed
    subtypes (3, 4, and the reserved ones), or a ground-speed subtype with a zero velocity field -/
theorem tell_velocity_shape_nofloat_tie (m : Msg) (h : IsHex m) (hl : m.length = 28)
    (htc : tcB (hex2binM m) = some 19) (hs : ¬ GsMoving m) :
    Gen.bds09.airborne_velocity (.str m) (.bool false) = .val .none ∨
      ∃ spd trk vr tag, Gen.bds09.airborne_velocity (.str m) (.bool false) = .val (.tuple [spd, trk, vr, .str tag]) ∧
        (tag = ['G', 'S'] ∨ tag = ['T', 'A', 'S'] ∨ tag = ['I', 'A', 'S']) :=
  airborne_velocity_shape m h hl htc (fun g => absurd g hs)

/-- **C14 (`tell`), generated definition, unconditional part 1**: every 28-digit hex frame that is not an airborne
    velocity message (DF ≠ 17, or type code ≠ 19) -/
theorem tell_total_112_not_tc19_tie (m : Msg) (h : IsHex m) (hl : m.length = 28)
    (h19 : ¬ (PyModeS.df m = 17 ∧ tcB (hex2binM m) = some 19)) :
    ∃ v, Gen.decoder.tell (.str m) = .val v :=
  ⟨_, TellGen.tell_total_112_not_tc19_tie m h hl h19⟩

/-- **C14 (`tell`), generated definition, unconditional part 2**: every 28-digit hex frame except the DF 17 / TC 19
    frames of a ground-speed subtype with both velocity fields non-zero (the only ones on which `tell` reaches
    `math.sqrt` / `math.atan2`) -/
theorem tell_total_112_nofloat_tie (m : Msg) (h : IsHex m) (hl : m.length = 28)
    (hs : ¬ (PyModeS.df m = 17 ∧ tcB (hex2binM m) = some 19 ∧ GsMoving m)) :
    ∃ v, Gen.decoder.tell (.str m) = .val v :=
  ⟨_, tell_velshape m h hl (fun hd htc => airborne_velocity_shape m h hl htc (fun g => absurd ⟨hd, htc, g⟩ hs))⟩

/-- **C14 (`tell`), generated definition, every 28-digit hex frame**, given the shape of what the generated
    `bds09.airborne_velocity` returns on a TC 19 frame (hypothesis `hv`, stated for the frame at hand) -/
theorem tell_total_112_velshape_tie_partial (m : Msg) (h : IsHex m) (hl : m.length = 28)
    (hv : PyModeS.df m = 17 → tcB (hex2binM m) = some 19 →
      (Gen.bds09.airborne_velocity (.str m) (.bool false) = .val .none ∨
        ∃ spd trk vr tag, Gen.bds09.airborne_velocity (.str m) (.bool false) = .val (.tuple [spd, trk, vr, .str tag]) ∧
          (tag = ['G', 'S'] ∨ tag = ['T', 'A', 'S'] ∨ tag = ['I', 'A', 'S']))) :
    ∃ v, Gen.decoder.tell (.str m) = .val v :=
  ⟨_, tell_velshape m h hl hv⟩

/-- **C14, the `tell()` clause, for the source-generated `tell`**: on every 28-digit hex frame, whatever its bits,
    `tell` returns normally.  PARTIAL: the only assumption is `FloatOK` — the floating-point externals `Ext.math_sqrt`
    and `Ext.math_atan2` / `Ext.math_degrees` (opaque `Float` operations, which the model turns into an exception when
    the result is NaN or infinite) return a number on velocity components of absolute value at most 4088; it is used
    on the DF 17 / TC 19 ground-speed frames only (`tell_total_112_nofloat_tie` covers all the others without it). -/
theorem tell_total_112_tie_partial (hF : FloatOK) (m : Msg) (h : IsHex m) (hl : m.length = 28) :
    ∃ v, Gen.decoder.tell (.str m) = .val v :=
  ⟨_, tell_velshape m h hl (fun _ htc => airborne_velocity_shape m h hl htc (fun _ => hF))⟩

/-- the value is `None`, and in particular neither RuntimeError nor any other exception escapes -/
theorem tell_none_112_tie_partial (hF : FloatOK) (m : Msg) (h : IsHex m) (hl : m.length = 28) :
    Gen.decoder.tell (.str m) = .val .none ∧ Gen.decoder.tell (.str m) ≠ .rte ∧ Gen.decoder.tell (.str m) ≠ .exc := by
  have e := tell_velshape m h hl (fun _ htc => airborne_velocity_shape m h hl htc (fun _ => hF))
  rw [e]
  exact ⟨rfl, by simp, by simp⟩

end PyModeS.Tie
