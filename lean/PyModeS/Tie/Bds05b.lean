/-
  Tie: generated `bds05.altitude` = hand model `altitude05`, and generated `bds06.surface_velocity` =
  hand model `surfaceVelocity` (`Model/Adsb.lean`).
-/
import PyModeS.Tie.Basic
import PyModeS.Tie.Common
import PyModeS.Generated.Src.bds05
import PyModeS.Generated.Src.bds06
import Mathlib.Tactic.SplitIfs
import Mathlib.Tactic.NormNum

-- symbolic execution of long generated `do` blocks: generous but finite budget (proof times are seconds)
set_option maxHeartbeats 1000000

set_option linter.unusedSimpArgs false
set_option linter.unusedTactic false
set_option linter.unreachableTactic false
namespace PyModeS.Tie
open PyModeS PyModeS.Py PyModeS.CRC

/-! ### bds05.altitude -/

/-- `common.altitude` never returns the sentinel `-999999` the source tests for -/
theorem altitude13_ne_sentinel (b : Bits) : altitude13 b ≠ .val (some (-999999)) := by
  by_cases hb : b.length = 13
  swap
  · rw [altitude13_ne b hb]; intro h; cases h
  obtain ⟨C1, A1, C2, A2, C4, A4, M, B1, Q, B2, D2, B4, D4, rfl⟩ :
      ∃ C1 A1 C2 A2 C4 A4 M B1 Q B2 D2 B4 D4, b = [C1, A1, C2, A2, C4, A4, M, B1, Q, B2, D2, B4, D4] := by
    rcases b with _ | ⟨a0, _ | ⟨a1, _ | ⟨a2, _ | ⟨a3, _ | ⟨a4, _ | ⟨a5, _ | ⟨a6, _ | ⟨a7, _ | ⟨a8, _ | ⟨a9,
      _ | ⟨a10, _ | ⟨a11, _ | ⟨a12, _ | ⟨a13, t⟩⟩⟩⟩⟩⟩⟩⟩⟩⟩⟩⟩⟩⟩ <;> simp at hb
    exact ⟨a0, a1, a2, a3, a4, a5, a6, a7, a8, a9, a10, a11, a12, rfl⟩
  unfold altitude13
  simp only []
  split_ifs
  · intro h; cases h
  · intro h
    injection h with h
    injection h with h
    omega
  · intro h
    injection h with h
    revert h
    unfold PyModeS.gray2alt
    simp only []
    split_ifs <;> intro h
    · cases h
    · injection h with h; omega
    · injection h with h; omega
    · injection h with h; omega
    · injection h with h; omega
  · intro h
    injection h with h
    injection h with h
    unfold m2ft at h
    omega

/-- the type-code guard `tc is None or tc < 9 or tc == 19 or tc > 22` once the type code is known -/
theorem altitude_guard_tc (tc : Nat) :
    (do let b__1 ← pyIs (Val.ofOptNat (some tc)) Val.none
        if pyTruth b__1 then pure b__1 else (do
          let b__2 ← pyLt (Val.ofOptNat (some tc)) (Val.num 9)
          if pyTruth b__2 then pure b__2 else (do
            let b__3 ← pyEq (Val.ofOptNat (some tc)) (Val.num 19)
            if pyTruth b__3 then pure b__3 else pyGt (Val.ofOptNat (some tc)) (Val.num 22)))) =
      .val (.bool (decide (tc < 9 ∨ tc = 19 ∨ tc > 22))) := by
  have e19 := pyEq_ofNat tc 19
  simp only [Nat.cast_ofNat] at e19
  have hof : Val.ofOptNat (some tc) = Val.ofNat tc := rfl
  rw [hof, e19]
  simp only [Val.ofNat, pyIs_none_num, bind_val', pyTruth_bool, Bool.false_eq_true, if_false,
    pyLt_num, pyGt_num, Res.pure_eq]
  by_cases h1 : tc < 9
  · have : (tc : Rat) < 9 := by exact_mod_cast h1
    simp [h1, this]
  · have h1' : ¬ ((tc : Rat) < 9) := by exact_mod_cast h1
    by_cases h19 : tc = 19
    · simp [h19]
    by_cases h4 : tc > 22
    · have : (22 : Rat) < (tc : Rat) := by exact_mod_cast h4
      simp [h1, h1', h4, this, h19]
    · have : ¬ ((22 : Rat) < (tc : Rat)) := by exact_mod_cast h4
      simp [h1, h1', h4, this, h19]

/-- `bds05.altitude(msg)`: barometric altitude (an `int` or `None`) for TC 9-18, GNSS height for TC 20-22.
    (Named `bds05_altitude_tie` because `altitude_tie` is the tie of `common.altitude` in `Tie/Common.lean`.) -/
theorem bds05_altitude_tie (m : Msg) (h : IsHex m) (hl : 10 ≤ m.length) :
    Gen.bds05.altitude (.str m) = (altitude05 (hex2binM m) >>= fun o => .val (Val.ofOptRat o)) := by
  unfold Gen.bds05.altitude altitude05
  have hne : m ≠ [] := by intro e; rw [e] at hl; simp at hl
  rw [typecode_str m h hl, typecode_eq, bind_val']
  generalize tcB (hex2binM m) = o
  rcases o with _ | tc
  · rfl
  · rw [altitude_guard_tc, bind_val']
    by_cases hg : tc < 9 ∨ tc = 19 ∨ tc > 22
    · simp only [hg, decide_true, pyTruth_bool, if_true, bind_rte']
    · simp only [hg, decide_false, pyTruth_bool, Bool.false_eq_true, if_false]
      rw [hex2bin_str m h hne, bind_val', pySliceFrom_ofBits, bind_val', pySliceNN_ofBits, bind_val']
      generalize slice 8 20 ((hex2binM m).drop 32) = altbin
      have hof : Val.ofOptNat (some tc) = Val.ofNat tc := rfl
      rw [hof]
      have hlt : pyLt (Val.ofNat tc) (Val.num 19) = .val (.bool (decide (tc < 19))) := by
        simp only [Val.ofNat, pyLt_num]
        congr 2
        by_cases h19 : tc < 19
        · have : (tc : Rat) < 19 := by exact_mod_cast h19
          simp [h19, this]
        · have : ¬ ((tc : Rat) < 19) := by exact_mod_cast h19
          simp [h19, this]
      rw [hlt, bind_val']
      by_cases h19 : tc < 19
      · simp only [h19, decide_true, pyTruth_bool, if_true]
        have h0 : Val.str ['0'] = Val.ofBits [false] := rfl
        rw [pySliceNN_ofBits, bind_val', h0, pyAdd_ofBits, bind_val', pySliceFrom_ofBits, bind_val', pyAdd_ofBits,
          bind_val', altitude_tie]
        have hs := altitude13_ne_sentinel (slice 0 6 altbin ++ [false] ++ List.drop 6 altbin)
        generalize altitude13 (slice 0 6 altbin ++ [false] ++ List.drop 6 altbin) = r at hs ⊢
        rcases r with ((_ | a) | _ | _)
        · rfl
        · have hne' : ¬ ((a : Rat) = -999999) := by
            intro e
            apply hs
            have : a = -999999 := by exact_mod_cast e
            rw [this]
          have hb : ((a : Rat) == -999999) = false := by simpa using hne'
          simp only [bind_val', Val.ofOptInt, pyNe_num, hb, Bool.not_false, pyTruth_bool, if_true, Res.pure_eq]
          rfl
        · rfl
        · rfl
      · simp only [h19, decide_false, pyTruth_bool, Bool.false_eq_true, if_false, bin2int_ofBits]
        rcases bin2intR altbin with (n | _ | _)
        · simp only [bind_val', Val.ofNat, pyMul_num, Res.pure_eq, Val.ofOptRat]
          congr 2
          ring
        · rfl
        · rfl

/-! ### bds06.surface_velocity -/

/-- the type-code guard `tc is None or tc < 5 or tc > 8` once the type code is known -/
theorem surfvel_guard_tc (tc : Nat) :
    (do let b__1 ← pyIs (Val.ofOptNat (some tc)) Val.none
        if pyTruth b__1 then pure b__1 else (do
          let b__2 ← pyLt (Val.ofOptNat (some tc)) (Val.num 5)
          if pyTruth b__2 then pure b__2 else pyGt (Val.ofOptNat (some tc)) (Val.num 8))) =
      .val (.bool (decide (tc < 5 ∨ tc > 8))) := by
  simp only [Val.ofOptNat, Val.ofNat, pyIs_none_num, bind_val', pyTruth_bool, Bool.false_eq_true, if_false,
    pyLt_num, pyGt_num, Res.pure_eq]
  by_cases h1 : tc < 5
  · have : (tc : Rat) < 5 := by exact_mod_cast h1
    simp [h1, this]
  · have h1' : ¬ ((tc : Rat) < 5) := by exact_mod_cast h1
    by_cases h4 : tc > 8
    · have : (8 : Rat) < (tc : Rat) := by exact_mod_cast h4
      simp [h1, h1', h4, this]
    · have : ¬ ((8 : Rat) < (tc : Rat)) := by exact_mod_cast h4
      simp [h1, h1', h4, this]


/-- `t[j]` for a list literal and an integer value (possibly negative) = the hand model's `pyIdx` -/
theorem pyIdx_tuple_int {α} (g : α → Val) (l : List α) (j : Int) :
    Py.pyIdx (.tuple (l.map g)) (.num (j : Rat)) = (PyModeS.pyIdx l j >>= fun a => .val (g a)) := by
  have hi : (Val.num (j : Rat)).int? = some j := by simp [Val.int?]
  have hmask : ∀ mask, Val.num (j : Rat) ≠ Val.tuple mask := fun _ e => by cases e
  unfold Py.pyIdx
  simp only [hi, idxList, PyModeS.pyIdx, idxR, List.length_map, List.getElem?_map]
  by_cases hj : j < 0
  · simp only [hj, if_true]
    by_cases hle : (-j).toNat ≤ l.length
    · have h2 : ¬ (j + (l.length : Int) < 0) := by omega
      have h3 : (j + (l.length : Int)).toNat = l.length - (-j).toNat := by omega
      simp only [hle, if_true, h2, if_false, h3]
      cases l[l.length - (-j).toNat]? <;> rfl
    · have h2 : (j + (l.length : Int) < 0) := by omega
      simp only [hle, if_false, h2, if_true]
      rfl
  · simp only [hj, if_false]
    cases l[j.toNat]? <;> rfl

/-- the indices (from `s`) of the members of `l` greater than `n`: the value of the generator expression -/
def gtIdx (n : Nat) : Nat → List Nat → List Val
  | _, [] => []
  | s, k :: ks => if n < k then Val.ofNat s :: gtIdx n (s + 1) ks else gtIdx n (s + 1) ks

theorem pyGt_lit_ofNat (k n : Nat) : pyGt (Val.num (k : Rat)) (Val.ofNat n) = .val (.bool (decide (n < k))) := by
  simp only [Val.ofNat, pyGt_num]
  congr 2
  by_cases h : n < k
  · have : (n : Rat) < (k : Rat) := by exact_mod_cast h
    simp [h, this]
  · have : ¬ ((n : Rat) < (k : Rat)) := by exact_mod_cast h
    simp [h, this]

theorem compList_gt (n : Nat) (l : List Nat) (s : Nat) :
    compList (fun x__4 => do
        let __do_lift ← pyIdxN x__4 1
        let __do_lift ← pyGt __do_lift (Val.ofNat n)
        if (!pyTruth __do_lift) = true then pure none
          else do
            let __do_lift ← pyIdxN x__4 0
            pure (some __do_lift)) (enumFrom s (l.map fun (k : Nat) => Val.num (k : Rat))) = .val (gtIdx n s l) := by
  induction l generalizing s with
  | nil => rfl
  | cons k ks ih =>
    have h1 : pyIdxN (Val.tuple [Val.ofNat s, Val.num (k : Rat)]) 1 = .val (Val.num (k : Rat)) := rfl
    have h0 : pyIdxN (Val.tuple [Val.ofNat s, Val.num (k : Rat)]) 0 = .val (Val.ofNat s) := rfl
    simp only [List.map_cons, enumFrom, compList, ih, h1, h0, bind_val', pyGt_lit_ofNat, pyTruth_bool, gtIdx]
    by_cases h : n < k <;> simp [h]

theorem pyNext_gtIdx (n : Nat) (l : List Nat) (s : Nat) :
    pyNext (.tuple (gtIdx n s l)) =
      (match l.findIdx? (fun m => decide (m > n)) with
       | some i => .val (Val.ofNat (s + i))
       | none => .exc) := by
  induction l generalizing s with
  | nil => rfl
  | cons k ks ih =>
    simp only [gtIdx, List.findIdx?_cons]
    by_cases h : n < k
    · simp [h, pyNext]
    · simp only [h, if_false, ih, decide_false, Bool.false_eq_true, gt_iff_lt]
      cases List.findIdx? (fun m => decide (n < m)) ks with
      | none => rfl
      | some i =>
        simp only [Option.map_some]
        rw [show s + 1 + i = s + (i + 1) by omega]

/-- `next(m[0] for m in enumerate(l) if m[1] > n)` on a literal list of numbers -/
theorem next_enum_gt (n : Nat) (l : List Nat) :
    (do let e ← pyEnumerate (.tuple (l.map fun (k : Nat) => Val.num (k : Rat)))
        let c ← pyComp e (fun x__4 => do
          let __do_lift ← pyIdxN x__4 1
          let __do_lift ← pyGt __do_lift (Val.ofNat n)
          if (!pyTruth __do_lift) = true then pure none
            else do
              let __do_lift ← pyIdxN x__4 0
              pure (some __do_lift))
        pyNext c) = (firstGreater l n >>= fun i => .val (Val.ofNat i)) := by
  have he : ∀ l, pyEnumerate (.tuple l) = .val (.tuple (enumFrom 0 l)) := fun _ => rfl
  have hc : ∀ l f, pyComp (.tuple l) f = (compList f l >>= fun r => .val (.tuple r)) := fun _ _ => rfl
  rw [he, bind_val', hc, compList_gt, bind_val', bind_val', pyNext_gtIdx]
  simp only [firstGreater, Nat.zero_add]
  cases List.findIdx? (fun m => decide (m > n)) l <;> rfl


theorem next_enum_gt_k (n : Nat) (l : List Nat) (R : Val → Res Val) :
    (do let e ← pyEnumerate (.tuple (l.map fun (k : Nat) => Val.num (k : Rat)))
        let c ← pyComp e (fun x__4 => do
          let __do_lift ← pyIdxN x__4 1
          let __do_lift ← pyGt __do_lift (Val.ofNat n)
          if (!pyTruth __do_lift) = true then pure none
            else do
              let __do_lift ← pyIdxN x__4 0
              pure (some __do_lift))
        let i ← pyNext c
        R i) = (firstGreater l n >>= fun i => R (Val.ofNat i)) := by
  have := congrArg (fun x => x >>= R) (next_enum_gt n l)
  simp only [bind_assoc] at this
  rw [this]
  rcases firstGreater l n with (i | _ | _) <;> rfl

/-- the movement-to-speed part of `surface_velocity`, with the rest of the function as a continuation `K` -/
theorem spd_block (n : Nat) (K : Val → Res Val) :
    (do let __do_lift ← (do
          let b__3 ← pyEq (Val.ofNat n) (Val.num 0)
          if pyTruth b__3 = true then pure b__3 else pyGt (Val.ofNat n) (Val.num 124))
        if pyTruth __do_lift = true then K Val.none
        else do
          let __do_lift ← pyEq (Val.ofNat n) (Val.num 1)
          if pyTruth __do_lift = true then K (Val.num 0)
          else do
            let __do_lift ← pyEq (Val.ofNat n) (Val.num 124)
            if pyTruth __do_lift = true then K (Val.num 175)
            else do
              let __do_lift ← pyEnumerate
                (Val.tuple [Val.num 2, Val.num 9, Val.num 13, Val.num 39, Val.num 94, Val.num 109, Val.num 124])
              let __do_lift ← pyComp __do_lift fun x__4 => do
                let __do_lift ← pyIdxN x__4 1
                let __do_lift ← pyGt __do_lift (Val.ofNat n)
                if (!pyTruth __do_lift) = true then pure none
                  else do
                    let __do_lift ← pyIdxN x__4 0
                    pure (some __do_lift)
              let i ← pyNext __do_lift
              let __do_lift ← pySub i (Val.num 1)
              let __do_lift ← Py.pyIdx
                (Val.tuple [Val.num (1 / 8), Val.num 1, Val.num 2, Val.num 15, Val.num 70, Val.num 100, Val.num 175])
                __do_lift
              let __do_lift_1 ← pySub i (Val.num 1)
              let __do_lift_2 ← Py.pyIdx
                (Val.tuple [Val.num 2, Val.num 9, Val.num 13, Val.num 39, Val.num 94, Val.num 109, Val.num 124])
                __do_lift_1
              let __do_lift_3 ← pySub (Val.ofNat n) __do_lift_2
              let __do_lift_4 ← pySub i (Val.num 1)
              let __do_lift_5 ← Py.pyIdx
                (Val.tuple [Val.num (1 / 8), Val.num (1 / 4), Val.num (1 / 2), Val.num 1, Val.num 2, Val.num 5])
                __do_lift_4
              let __do_lift_6 ← pyMul __do_lift_3 __do_lift_5
              let spd ← pyAdd __do_lift __do_lift_6
              K spd) = (movSpeed n >>= fun o => K (Val.ofOptRat o)) := by
  have e0 := pyEq_ofNat n 0
  have e1 := pyEq_ofNat n 1
  have e124 := pyEq_ofNat n 124
  have g124 : pyGt (Val.ofNat n) (Val.num 124) = .val (.bool (decide (n > 124))) := by
    simp only [Val.ofNat, pyGt_num]
    congr 2
    by_cases h : n > 124
    · have : (124 : Rat) < (n : Rat) := by exact_mod_cast h
      simp [h, this]
    · have : ¬ ((124 : Rat) < (n : Rat)) := by exact_mod_cast h
      simp [h, this]
  simp only [Nat.cast_zero, Nat.cast_one, Nat.cast_ofNat] at e0 e1 e124
  simp only [e0, e1, e124, g124, bind_val', pyTruth_bool, decide_eq_true_eq]
  unfold movSpeed
  by_cases h0 : n = 0
  · subst h0; rfl
  by_cases hgt : n > 124
  · simp only [h0, hgt, if_false, if_true, bind_val', pyTruth_bool, decide_true, or_true, Val.ofOptRat]
  by_cases h1 : n = 1
  · subst h1; rfl
  by_cases h124 : n = 124
  · subst h124; rfl
  simp only [h0, hgt, h1, h124, if_false, bind_val', pyTruth_bool, decide_false, or_false, Bool.false_eq_true]
  have hn := next_enum_gt_k n Tables.movLb
  simp only [Tables.movLb, List.map_cons, List.map_nil, Nat.cast_ofNat] at hn
  rw [hn, bind_assoc]
  simp only [Tables.movLb, Tables.ktsLb, Tables.movStep]
  generalize firstGreater [2, 9, 13, 39, 94, 109, 124] n = ri
  rcases ri with (i | _ | _)
  swap
  · rfl
  swap
  · rfl
  have hsub : pySub (Val.ofNat i) (Val.num 1) = .val (.num (((i : Int) - 1 : Int) : Rat)) := by
    simp [Val.ofNat]
  have hk := pyIdx_tuple_int Val.num Tables.ktsLb ((i : Int) - 1)
  have hl := pyIdx_tuple_int (fun (k : Nat) => Val.num (k : Rat)) Tables.movLb ((i : Int) - 1)
  have hs := pyIdx_tuple_int Val.num Tables.movStep ((i : Int) - 1)
  simp only [Tables.movLb, Tables.ktsLb, Tables.movStep, List.map_cons, List.map_nil, Nat.cast_ofNat] at hk hl hs
  simp only [bind_val', hsub, hk, hl, hs, bind_assoc]
  generalize PyModeS.pyIdx [(1 : Rat) / 8, 1, 2, 15, 70, 100, 175] ((i : Int) - 1) = rk
  generalize PyModeS.pyIdx [2, 9, 13, 39, 94, 109, 124] ((i : Int) - 1) = rl
  generalize PyModeS.pyIdx [(1 : Rat) / 8, 1 / 4, 1 / 2, 1, 2, 5] ((i : Int) - 1) = rs
  rcases rk with (k | _ | _)
  swap
  · rfl
  swap
  · rfl
  rcases rl with (lb | _ | _)
  swap
  · rfl
  swap
  · rfl
  rcases rs with (st | _ | _)
  swap
  · rfl
  swap
  · rfl
  simp only [bind_val', Val.ofNat, pySub_num, pyMul_num, pyAdd_num, Res.pure_eq, Val.ofOptRat]
  congr 3
  push_cast
  ring

theorem surface_velocity_tie (m : Msg) (h : IsHex m) (hl : 10 ≤ m.length) (src : Bool) :
    Gen.bds06.surface_velocity (.str m) (.bool src) =
      (surfaceVelocity (hex2binM m) >>= fun p => .val (.tuple ([Val.ofOptRat p.1, Val.ofOptRat p.2, .num 0,
        .str ['G', 'S']] ++ if src then [.str ['T', 'R', 'U', 'E', '_', 'N', 'O', 'R', 'T', 'H'], .none] else []))) := by
  unfold Gen.bds06.surface_velocity surfaceVelocity
  have hne : m ≠ [] := by intro e; rw [e] at hl; simp at hl
  rw [typecode_str m h hl, typecode_eq, bind_val']
  generalize tcB (hex2binM m) = o
  rcases o with _ | tc
  · rfl
  · rw [surfvel_guard_tc, bind_val']
    dsimp only
    by_cases hg : tc < 5 ∨ tc > 8
    · rw [decide_eq_true hg, pyTruth_bool, if_pos rfl, bind_rte', if_pos hg]
      rfl
    · rw [decide_eq_false hg, pyTruth_bool, if_neg Bool.false_ne_true, if_neg hg]
      rw [hex2bin_str m h hne, bind_val', pySliceFrom_ofBits, bind_val']
      generalize (hex2binM m).drop 32 = mb
      rw [pyIdxN_ofBits, bind_assoc]
      generalize idxR mb 12 = rst
      rcases rst with (st | _ | _)
      swap
      · rfl
      swap
      · rfl
      rw [bind_val', bind_val', bind_val', pyInt1_digit, bind_val']
      have hK : ∀ (trk spd : Val),
          (if pyTruth (Val.bool src) = true then
              (pure (Val.tuple [spd, trk, Val.num 0, Val.str ['G', 'S'],
                Val.str ['T', 'R', 'U', 'E', '_', 'N', 'O', 'R', 'T', 'H'], Val.none]) : Res Val)
            else pure (Val.tuple [spd, trk, Val.num 0, Val.str ['G', 'S']])) =
          .val (.tuple ([spd, trk, .num 0, .str ['G', 'S']] ++
            if src then [.str ['T', 'R', 'U', 'E', '_', 'N', 'O', 'R', 'T', 'H'], .none] else [])) := by
        intro trk spd; cases src <;> rfl
      cases st
      · have e : pyEq (Val.num (if false = true then 1 else 0)) (Val.num 1) = .val (.bool false) := by simp
        rw [e, bind_val', pyTruth_bool, if_neg Bool.false_ne_true, pySliceNN_ofBits, bind_val', bin2int_ofBits,
          bind_assoc]
        conv_rhs => simp only [Bool.false_eq_true, if_false, Res.pure_eq, bind_val']
        generalize bin2intR (slice 5 12 mb) = rm
        rcases rm with (n | _ | _)
        swap
        · rfl
        swap
        · rfl
        rw [bind_val', bind_val', bind_val']
        rw [spd_block n (fun spd => if pyTruth (Val.bool src) = true then
              (pure (Val.tuple [spd, Val.none, Val.num 0, Val.str ['G', 'S'],
                Val.str ['T', 'R', 'U', 'E', '_', 'N', 'O', 'R', 'T', 'H'], Val.none]) : Res Val)
            else pure (Val.tuple [spd, Val.none, Val.num 0, Val.str ['G', 'S']])), bind_assoc]
        simp only [hK, bind_val']
        rfl
      · have e : pyEq (Val.num (if true = true then 1 else 0)) (Val.num 1) = .val (.bool true) := by simp
        rw [e, bind_val', pyTruth_bool, if_pos rfl, pySliceNN_ofBits, bind_val', bin2int_ofBits, bind_assoc]
        conv_rhs => simp only [if_true, Res.pure_eq, bind_val', bind_assoc]
        generalize bin2intR (slice 13 20 mb) = rv
        rcases rv with (v | _ | _)
        swap
        · rfl
        swap
        · rfl
        have hmul : pyMul (Val.ofNat v) (Val.num 360) = .val (.num ((v : Rat) * 360)) := rfl
        rw [bind_val', bind_val', bind_val', hmul, bind_val', pyDiv_lit, bind_val', pySliceNN_ofBits, bind_val',
          bin2int_ofBits, bind_assoc]
        generalize bin2intR (slice 5 12 mb) = rm
        rcases rm with (n | _ | _)
        swap
        · rfl
        swap
        · rfl
        rw [bind_val', bind_val', bind_val']
        rw [spd_block n (fun spd => if pyTruth (Val.bool src) = true then
              (pure (Val.tuple [spd, (Val.num ((v : Rat) * 360 / 128)), Val.num 0, Val.str ['G', 'S'],
                Val.str ['T', 'R', 'U', 'E', '_', 'N', 'O', 'R', 'T', 'H'], Val.none]) : Res Val)
            else pure (Val.tuple [spd, (Val.num ((v : Rat) * 360 / 128)), Val.num 0, Val.str ['G', 'S']]))]
        simp only [hK, bind_val']
        rfl

end PyModeS.Tie
