/-
  C11 transported to the source-generated definitions: for every 28-digit hex frame the function that py2lean.py
  produced from the *current* text of bdsXX.py returns the Doc 9871 row value.  Each statement is the composition of
  a tie theorem (`Tie/BdsXX.lean`: generated definition = hand-written model) with the row theorem of
  `Properties/C11.lean`; nothing here mentions the hand-written model any more.
-/
import PyModeS.Properties.C11
import PyModeS.Tie.Bds40
import PyModeS.Tie.Bds44
import PyModeS.Tie.Bds45
import PyModeS.Tie.Bds50
import PyModeS.Tie.Bds53
import PyModeS.Tie.Bds60

-- symbolic execution of long generated `do` blocks: generous but finite budget (proof times are seconds)
set_option maxHeartbeats 1000000
namespace PyModeS.C11Gen
open PyModeS PyModeS.Py PyModeS.CRC PyModeS.C11

theorem frame_bits (m : Msg) (hl : m.length = 28) : (hex2binM m).length = 112 := by
  rw [hex2binM_length, hl]

/-- the MB field of the frame, as the row specifications see it -/
def mb (m : Msg) : Bits := slice 32 88 (hex2binM m)

theorem selalt40mcp_spec_tie (m : Msg) (h : IsHex m) (hl : m.length = 28) :
    Gen.bds40.selalt40mcp (.str m) = .val (Val.ofOptRat (decodeRow rSelalt40mcp (mb m))) := by
  rw [Tie.selalt40mcp_tie m h hl, selalt40mcp_row _ (frame_bits m hl)]; rfl

theorem selalt40fms_spec_tie (m : Msg) (h : IsHex m) (hl : m.length = 28) :
    Gen.bds40.selalt40fms (.str m) = .val (Val.ofOptRat (decodeRow rSelalt40fms (mb m))) := by
  rw [Tie.selalt40fms_tie m h hl, selalt40fms_row _ (frame_bits m hl)]; rfl

theorem p40baro_spec_tie (m : Msg) (h : IsHex m) (hl : m.length = 28) :
    Gen.bds40.p40baro (.str m) = .val (Val.ofOptRat (decodeRow rP40baro (mb m))) := by
  rw [Tie.p40baro_tie m h hl, p40baro_row _ (frame_bits m hl)]; rfl

theorem p44_spec_tie (m : Msg) (h : IsHex m) (hl : m.length = 28) :
    Gen.bds44.p44 (.str m) = .val (Val.ofOptRat (decodeRow rP44 (mb m))) := by
  rw [Tie.p44_tie m h hl, p44_row _ (frame_bits m hl)]; rfl

theorem hum44_spec_tie (m : Msg) (h : IsHex m) (hl : m.length = 28) :
    Gen.bds44.hum44 (.str m) = .val (Val.ofOptRat (decodeRow rHum44 (mb m))) := by
  rw [Tie.hum44_tie m h hl, hum44_row _ (frame_bits m hl)]; rfl

theorem turb44_spec_tie (m : Msg) (h : IsHex m) (hl : m.length = 28) :
    Gen.bds44.turb44 (.str m) = .val (Val.ofOptRat (decodeRow rTurb44 (mb m))) := by
  rw [Tie.turb44_tie m h hl, turb44_row _ (frame_bits m hl)]; rfl

theorem turb45_spec_tie (m : Msg) (h : IsHex m) (hl : m.length = 28) :
    Gen.bds45.turb45 (.str m) = .val (Val.ofOptRat (decodeRow rTurb45 (mb m))) := by
  rw [Tie.turb45_tie m h hl, turb45_row _ (frame_bits m hl)]; rfl

theorem ws45_spec_tie (m : Msg) (h : IsHex m) (hl : m.length = 28) :
    Gen.bds45.ws45 (.str m) = .val (Val.ofOptRat (decodeRow rWs45 (mb m))) := by
  rw [Tie.ws45_tie m h hl, ws45_row _ (frame_bits m hl)]; rfl

theorem mb45_spec_tie (m : Msg) (h : IsHex m) (hl : m.length = 28) :
    Gen.bds45.mb45 (.str m) = .val (Val.ofOptRat (decodeRow rMb45 (mb m))) := by
  rw [Tie.mb45_tie m h hl, mb45_row _ (frame_bits m hl)]; rfl

theorem ic45_spec_tie (m : Msg) (h : IsHex m) (hl : m.length = 28) :
    Gen.bds45.ic45 (.str m) = .val (Val.ofOptRat (decodeRow rIc45 (mb m))) := by
  rw [Tie.ic45_tie m h hl, ic45_row _ (frame_bits m hl)]; rfl

theorem wv45_spec_tie (m : Msg) (h : IsHex m) (hl : m.length = 28) :
    Gen.bds45.wv45 (.str m) = .val (Val.ofOptRat (decodeRow rWv45 (mb m))) := by
  rw [Tie.wv45_tie m h hl, wv45_row _ (frame_bits m hl)]; rfl

theorem p45_spec_tie (m : Msg) (h : IsHex m) (hl : m.length = 28) :
    Gen.bds45.p45 (.str m) = .val (Val.ofOptRat (decodeRow rP45 (mb m))) := by
  rw [Tie.p45_tie m h hl, p45_row _ (frame_bits m hl)]; rfl

theorem rh45_spec_tie (m : Msg) (h : IsHex m) (hl : m.length = 28) :
    Gen.bds45.rh45 (.str m) = .val (Val.ofOptRat (decodeRow rRh45 (mb m))) := by
  rw [Tie.rh45_tie m h hl, rh45_row _ (frame_bits m hl)]; rfl

theorem roll50_spec_tie (m : Msg) (h : IsHex m) (hl : m.length = 28) :
    Gen.bds50.roll50 (.str m) = .val (Val.ofOptRat (decodeRow rRoll50 (mb m))) := by
  rw [Tie.roll50_tie m h hl, roll50_row _ (frame_bits m hl)]; rfl

theorem trk50_spec_tie (m : Msg) (h : IsHex m) (hl : m.length = 28) :
    Gen.bds50.trk50 (.str m) = .val (Val.ofOptRat (decodeRow rTrk50 (mb m))) := by
  rw [Tie.trk50_tie m h hl, trk50_row _ (frame_bits m hl)]; rfl

theorem gs50_spec_tie (m : Msg) (h : IsHex m) (hl : m.length = 28) :
    Gen.bds50.gs50 (.str m) = .val (Val.ofOptRat (decodeRow rGs50 (mb m))) := by
  rw [Tie.gs50_tie m h hl, gs50_row _ (frame_bits m hl)]; rfl

theorem rtrk50_spec_tie (m : Msg) (h : IsHex m) (hl : m.length = 28) :
    Gen.bds50.rtrk50 (.str m) = .val (Val.ofOptRat (decodeRow rRtrk50 (mb m))) := by
  rw [Tie.rtrk50_tie m h hl, rtrk50_row _ (frame_bits m hl)]; rfl

theorem tas50_spec_tie (m : Msg) (h : IsHex m) (hl : m.length = 28) :
    Gen.bds50.tas50 (.str m) = .val (Val.ofOptRat (decodeRow rTas50 (mb m))) := by
  rw [Tie.tas50_tie m h hl, tas50_row _ (frame_bits m hl)]; rfl

theorem hdg53_spec_tie (m : Msg) (h : IsHex m) (hl : m.length = 28) :
    Gen.bds53.hdg53 (.str m) = .val (Val.ofOptRat (decodeRow rHdg53 (mb m))) := by
  rw [Tie.hdg53_tie m h hl, hdg53_row _ (frame_bits m hl)]; rfl

theorem ias53_spec_tie (m : Msg) (h : IsHex m) (hl : m.length = 28) :
    Gen.bds53.ias53 (.str m) = .val (Val.ofOptRat (decodeRow rIas53 (mb m))) := by
  rw [Tie.ias53_tie m h hl, ias53_row _ (frame_bits m hl)]; rfl

theorem mach53_spec_tie (m : Msg) (h : IsHex m) (hl : m.length = 28) :
    Gen.bds53.mach53 (.str m) = .val (Val.ofOptRat (decodeRow rMach53 (mb m))) := by
  rw [Tie.mach53_tie m h hl, mach53_row _ (frame_bits m hl)]; rfl

theorem tas53_spec_tie (m : Msg) (h : IsHex m) (hl : m.length = 28) :
    Gen.bds53.tas53 (.str m) = .val (Val.ofOptRat (decodeRow rTas53 (mb m))) := by
  rw [Tie.tas53_tie m h hl, tas53_row _ (frame_bits m hl)]; rfl

theorem vr53_spec_tie (m : Msg) (h : IsHex m) (hl : m.length = 28) :
    Gen.bds53.vr53 (.str m) = .val (Val.ofOptRat (decodeRow rVr53 (mb m))) := by
  rw [Tie.vr53_tie m h hl, vr53_row _ (frame_bits m hl)]; rfl

theorem hdg60_spec_tie (m : Msg) (h : IsHex m) (hl : m.length = 28) :
    Gen.bds60.hdg60 (.str m) = .val (Val.ofOptRat (decodeRow rHdg60 (mb m))) := by
  rw [Tie.hdg60_tie m h hl, hdg60_row _ (frame_bits m hl)]; rfl

theorem ias60_spec_tie (m : Msg) (h : IsHex m) (hl : m.length = 28) :
    Gen.bds60.ias60 (.str m) = .val (Val.ofOptRat (decodeRow rIas60 (mb m))) := by
  rw [Tie.ias60_tie m h hl, ias60_row _ (frame_bits m hl)]; rfl

theorem mach60_spec_tie (m : Msg) (h : IsHex m) (hl : m.length = 28) :
    Gen.bds60.mach60 (.str m) = .val (Val.ofOptRat (decodeRow rMach60 (mb m))) := by
  rw [Tie.mach60_tie m h hl, mach60_row _ (frame_bits m hl)]; rfl

theorem vr60baro_spec_tie (m : Msg) (h : IsHex m) (hl : m.length = 28) :
    Gen.bds60.vr60baro (.str m) = .val (Val.ofOptRat (decodeRow rVr60baro (mb m))) := by
  rw [Tie.vr60baro_tie m h hl, vr60baro_row _ (frame_bits m hl)]; rfl

theorem vr60ins_spec_tie (m : Msg) (h : IsHex m) (hl : m.length = 28) :
    Gen.bds60.vr60ins (.str m) = .val (Val.ofOptRat (decodeRow rVr60ins (mb m))) := by
  rw [Tie.vr60ins_tie m h hl, vr60ins_row _ (frame_bits m hl)]; rfl

end PyModeS.C11Gen
