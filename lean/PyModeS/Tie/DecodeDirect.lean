/-
  Property statements proved DIRECTLY about the generated `Gen.decode.Decode_process_raw`
  (`Generated/Src/decode.lean`, the translation of `Decode.process_raw` of pyModeS/streamer/decode.py): the live
  aircraft table of property C17.  No hand model is involved; `Model/Tracker.lean` / `Properties/C17.lean` were only
  used to choose the statements.

  * The three loop bodies `adsbBody`, `commbBody`, `evictBody` are not retyped: `loop_body_def` extracts them from the
    value of the generated constant; `process_raw_decomp` (by `rfl`) says the function is the three loops over them.
  * (A) `evict_loop_spec`, `evict_loop_val`, `evict_absent`, `evict_present`: the clean-up loop leaves exactly
    `evict t timeout acs`.
  * (B) `commbBody_unknown(_hex)`, `commbLoop_keys`: Comm-B gating; the Comm-B loop never changes the key list.
  * (C) `adsbLoop_keys`: the key list after the ADS-B loop is the old one extended by the addresses of the messages.
  * values: `adsbBody_live`, `commbBody_live`, `adsbLoop_rel`, `commbLoop_rel` (`live = int(t)` / `max(live, int(t))`,
    other entries untouched).
  * end to end: `process_raw_spec`, `process_raw_rel`, `keys_and_staleness_gen`, `absent_if_silent_gen`,
    `absent_after_61_gen`, `listed_if_recent_gen`.
  All end-to-end statements are partial-correctness statements (“if the call returns a value …”): that the call does
  return (no crash) needs totality of every decoder it calls and is NOT proved here.
-/
import PyModeS.Tie.Basic
import PyModeS.Tie.Common
import PyModeS.Generated.Src.decode
import Lean
import PyModeS.Proofs.Tracker.Hoare
import PyModeS.Tie.Icao
set_option maxHeartbeats 1000000
open PyModeS PyModeS.Py PyModeS.CRC

namespace PyModeS.Tie.DecodeDirect
open Lean Elab Command Meta

/-- all loop bodies (third explicit argument of `forIn`) of a term, in textual order -/
partial def collectForInBodies (e : Expr) (acc : Array Expr) : Array Expr :=
  match e with
  | .app .. =>
    let acc := if e.isAppOfArity ``ForIn.forIn 8 then acc.push e.appArg! else acc
    e.getAppArgs.foldl (fun acc a => collectForInBodies a acc) (collectForInBodies e.getAppFn acc)
  | .lam _ t b _ => collectForInBodies b (collectForInBodies t acc)
  | .forallE _ t b _ => collectForInBodies b (collectForInBodies t acc)
  | .letE _ t v b _ => collectForInBodies b (collectForInBodies v (collectForInBodies t acc))
  | .mdata _ e => collectForInBodies e acc
  | .proj _ _ e => collectForInBodies e acc
  | _ => acc

/-- `loop_body_def name := c # i`: define `name` as the body of the `i`-th `for` loop of the constant `c` -/
elab "loop_body_def " n:ident " := " c:ident " # " i:num : command => do
  let cname ← liftCoreM <| realizeGlobalConstNoOverloadWithInfo c
  let cinfo ← getConstInfo cname
  let some v := cinfo.value? | throwError "no value"
  let bodies := collectForInBodies v #[]
  let some b := bodies[i.getNat]? | throwError "only {bodies.size} loops"
  if b.hasLooseBVars then throwError "loop body refers to outer variables"
  let ty ← liftTermElabM <| inferType b
  let ns ← getCurrNamespace
  let declName := ns ++ n.getId
  liftCoreM <| addDecl <| Declaration.defnDecl {
    name := declName, levelParams := [], type := ty, value := b,
    hints := ReducibilityHints.regular (getMaxHeight (← getEnv) b + 1), safety := DefinitionSafety.safe }
  let c := mkConst declName
  liftCoreM <| addDecl <| Declaration.thmDecl {
    name := declName ++ `def, levelParams := [], type := ← liftTermElabM (mkEq c b), value := ← liftTermElabM (mkEqRefl c) }

loop_body_def adsbBody := PyModeS.Gen.decode.Decode_process_raw # 0
loop_body_def commbBody := PyModeS.Gen.decode.Decode_process_raw # 1
loop_body_def evictBody := PyModeS.Gen.decode.Decode_process_raw # 2


/-- everything after `self.t = tnow` is decided -/
noncomputable def phases (self adsb_ts adsb_msg commb_ts commb_msg tnow : Val) : Res Val := do
  let self ← pySetAttr self "t" tnow
  let items ← pyIter (← pyZip adsb_ts adsb_msg)
  let s ← forIn items (self, Val.none, Val.none, Val.none, Val.none, Val.none, Val.none, Val.none, Val.none, Val.none,
    Val.none, Val.none, Val.none, Val.none, Val.none, Val.none, Val.tuple [], Val.tuple []) adsbBody
  let items ← pyIter (← pyZip commb_ts commb_msg)
  let s ← forIn items (s.1, s.2.1, s.2.2.1, s.2.2.2.1, Val.none, Val.none, Val.none, Val.none, Val.none, Val.none,
    Val.none, Val.none, Val.none, Val.none, Val.none, s.2.2.2.2.2.2.2.2.2.2.2.2.2.2.2.2.2) commbBody
  let keys ← pyIter (← pyList (← pyKeys (← pyGetAttr s.1 "acs")))
  let s ← forIn keys (s.1, s.2.2.2.1) evictBody
  if pyTruth (← pyIsNot (← pyGetAttr s.1 "dumpto") Val.none) then
    (pyUnmodelled "method .strftime/1" : Res PUnit)
    (pyUnmodelled "format string '/pymodes_dump_%s.csv'" : Res PUnit)
    (pyUnmodelled "expression statement" : Res PUnit)
    (pyUnmodelled "statement With" : Res PUnit)
  return (Val.tuple [s.1, Val.none])

theorem process_raw_decomp (self adsb_ts adsb_msg commb_ts commb_msg tnow : Val) :
    Gen.decode.Decode_process_raw self adsb_ts adsb_msg commb_ts commb_msg tnow =
      (pyIs tnow Val.none >>= fun c =>
        if pyTruth c = true then
          Gen.Ext.time_time >>= fun tnow' => phases self adsb_ts adsb_msg commb_ts commb_msg tnow'
        else phases self adsb_ts adsb_msg commb_ts commb_msg tnow) := rfl


/-! ### dictionaries with string / `None` keys -/

/-- the values `pms.icao(msg)` can return: a string or `None` -/
def IsKey (v : Val) : Prop := v = .none ∨ ∃ s, v = .str s

theorem isKey_str (s : List Char) : IsKey (.str s) := Or.inr ⟨s, rfl⟩
theorem isKey_none : IsKey .none := Or.inl rfl
theorem isKey_attr (n : String) : IsKey (attrKey n) := Or.inr ⟨_, rfl⟩

theorem beq_key_left {k v : Val} (hk : IsKey k) : Val.beq k v = true ↔ v = k := by
  rcases hk with rfl | ⟨s, rfl⟩
  · cases v <;> simp [Val.beq]
  · cases v <;> simp [Val.beq]
    exact eq_comm

theorem beq_key_right {k v : Val} (hk : IsKey k) : Val.beq v k = true ↔ v = k := by
  rcases hk with rfl | ⟨s, rfl⟩
  · cases v <;> simp [Val.beq]
  · cases v <;> simp [Val.beq]

theorem beq_key_self {k : Val} (hk : IsKey k) : Val.beq k k = true := (beq_key_left hk).2 rfl

theorem dictFind_cons (k k' v : Val) (l : List (Val × Val)) :
    dictFind ((k', v) :: l) k = if Val.beq k k' then some v else dictFind l k := by
  unfold dictFind
  rw [List.find?_cons]
  by_cases h : Val.beq k k' = true
  · simp [h]
  · simp [h]

theorem dictFind_nil (k : Val) : dictFind [] k = none := rfl

theorem setPair_cons (k k' v v' : Val) (l : List (Val × Val)) :
    setPair k v ((k', v') :: l) = if Val.beq k k' then (k', v) :: l else (k', v') :: setPair k v l := rfl

theorem setPair_nil (k v : Val) : setPair k v [] = [(k, v)] := rfl

/-- the key list of a dictionary (insertion order) -/
def keysOf (l : List (Val × Val)) : List Val := l.map (·.1)

/-- `k in d` -/
def hasKey (l : List (Val × Val)) (k : Val) : Bool := l.any (fun kv => Val.beq k kv.1)

theorem hasKey_cons (k k' v : Val) (l : List (Val × Val)) :
    hasKey ((k', v) :: l) k = (Val.beq k k' || hasKey l k) := rfl

theorem hasKey_iff_mem {k : Val} (hk : IsKey k) (l : List (Val × Val)) : hasKey l k = true ↔ k ∈ keysOf l := by
  induction l with
  | nil => simp [hasKey, keysOf]
  | cons kv l ih =>
    obtain ⟨k', v⟩ := kv
    rw [hasKey_cons, Bool.or_eq_true, ih, beq_key_left hk]
    simp [keysOf, eq_comm]

theorem dictFind_isSome (l : List (Val × Val)) (k : Val) : (dictFind l k).isSome = hasKey l k := by
  induction l with
  | nil => rfl
  | cons kv l ih =>
    obtain ⟨k', v⟩ := kv
    rw [dictFind_cons, hasKey_cons]
    by_cases h : Val.beq k k' = true
    · simp [h]
    · simp [h, ih]

theorem hasKey_of_find {l : List (Val × Val)} {k e : Val} (h : dictFind l k = some e) : hasKey l k = true := by
  rw [← dictFind_isSome, h]; rfl

/-- item assignment keeps the key list when the key is present, and appends the key otherwise -/
theorem keysOf_setPair (k v : Val) (l : List (Val × Val)) :
    keysOf (setPair k v l) = if hasKey l k then keysOf l else keysOf l ++ [k] := by
  induction l with
  | nil => rfl
  | cons kv l ih =>
    obtain ⟨k', v'⟩ := kv
    rw [setPair_cons, hasKey_cons]
    by_cases h : Val.beq k k' = true
    · simp [h, keysOf]
    · simp only [h, if_false, Bool.false_or, Bool.false_eq_true]
      simp only [keysOf, List.map_cons] at ih ⊢
      rw [ih]
      split <;> simp

theorem dictFind_setPair_self {k : Val} (hk : Val.beq k k = true) (v : Val) (l : List (Val × Val)) :
    dictFind (setPair k v l) k = some v := by
  induction l with
  | nil => simp [setPair_nil, dictFind_cons, hk]
  | cons kv l ih =>
    obtain ⟨k', v'⟩ := kv
    rw [setPair_cons]
    by_cases h : Val.beq k k' = true
    · rw [if_pos h, dictFind_cons, if_pos h]
    · rw [if_neg h, dictFind_cons, if_neg h, ih]

theorem dictFind_setPair_ne {k k' : Val} (hk : IsKey k) (hk' : IsKey k') (hne : k ≠ k') (v : Val)
    (l : List (Val × Val)) : dictFind (setPair k v l) k' = dictFind l k' := by
  have hb : Val.beq k' k = false := by
    rw [Bool.eq_false_iff]; intro h; exact hne ((beq_key_left hk').1 h)
  induction l with
  | nil => simp [setPair_nil, dictFind_cons, hb, dictFind_nil]
  | cons kv l ih =>
    obtain ⟨k'', v'⟩ := kv
    rw [setPair_cons]
    by_cases h : Val.beq k k'' = true
    · rw [if_pos h, dictFind_cons, dictFind_cons]
      have : Val.beq k' k'' = false := by
        rw [Bool.eq_false_iff]; intro h'
        exact hne (((beq_key_left hk).1 h).symm.trans ((beq_key_left hk').1 h'))
      simp [this]
    · rw [if_neg h, dictFind_cons, dictFind_cons, ih]

theorem setPair_setPair {k : Val} (hk : Val.beq k k = true) (v1 v2 : Val) (l : List (Val × Val)) :
    setPair k v2 (setPair k v1 l) = setPair k v2 l := by
  induction l with
  | nil => simp [setPair_nil, setPair_cons, hk]
  | cons kv l ih =>
    obtain ⟨k', v'⟩ := kv
    rw [setPair_cons]
    by_cases h : Val.beq k k' = true
    · rw [if_pos h, setPair_cons, if_pos h, setPair_cons, if_pos h]
    · rw [if_neg h, setPair_cons, if_neg h, setPair_cons, if_neg h, ih]

theorem setPair_of_find {l : List (Val × Val)} {k v : Val} (h : dictFind l k = some v) : setPair k v l = l := by
  induction l with
  | nil => simp [dictFind_nil] at h
  | cons kv l ih =>
    obtain ⟨k', v'⟩ := kv
    rw [dictFind_cons] at h
    rw [setPair_cons]
    by_cases hb : Val.beq k k' = true
    · rw [if_pos hb] at h ⊢
      cases h; rfl
    · rw [if_neg hb] at h ⊢
      rw [ih h]


/-! ### the receiver: an attribute dictionary whose `acs` attribute is the aircraft table -/

/-- the receiver with attributes `a` and aircraft table `l` (`self.acs = l` on top of `a`) -/
def mk (a l : List (Val × Val)) : Val := .dict (setPair (attrKey "acs") (.dict l) a)

/-- any attribute dictionary that has a table under `acs` is of that form -/
theorem mk_of_find {a l : List (Val × Val)} (h : dictFind a (attrKey "acs") = some (.dict l)) :
    Val.dict a = mk a l := by
  unfold mk; rw [setPair_of_find h]

theorem get_acs (a l : List (Val × Val)) : pyGetAttr (mk a l) "acs" = .val (.dict l) := by
  unfold mk pyGetAttr
  simp only [dictFind_setPair_self (beq_key_self (isKey_attr "acs"))]

theorem set_acs (a l l' : List (Val × Val)) : pySetAttr (mk a l) "acs" (.dict l') = .val (mk a l') := by
  unfold mk pySetAttr
  simp only [setPair_setPair (beq_key_self (isKey_attr "acs"))]

theorem attrKey_ne_acs {n : String} (h : n.toList ≠ "acs".toList) : attrKey "acs" ≠ attrKey n := by
  intro e
  unfold attrKey at e
  exact h (Val.str.inj e).symm

theorem get_other (a l : List (Val × Val)) (n : String) (h : n.toList ≠ "acs".toList) :
    pyGetAttr (mk a l) n = pyGetAttr (.dict a) n := by
  unfold mk pyGetAttr
  simp only [dictFind_setPair_ne (isKey_attr "acs") (isKey_attr n) (attrKey_ne_acs h)]

theorem get_t (a l : List (Val × Val)) : pyGetAttr (mk a l) "t" = pyGetAttr (.dict a) "t" :=
  get_other a l "t" (by decide)
theorem get_timeout (a l : List (Val × Val)) :
    pyGetAttr (mk a l) "cache_timeout" = pyGetAttr (.dict a) "cache_timeout" :=
  get_other a l "cache_timeout" (by decide)
theorem get_dumpto (a l : List (Val × Val)) : pyGetAttr (mk a l) "dumpto" = pyGetAttr (.dict a) "dumpto" :=
  get_other a l "dumpto" (by decide)
theorem get_lat0 (a l : List (Val × Val)) : pyGetAttr (mk a l) "lat0" = pyGetAttr (.dict a) "lat0" :=
  get_other a l "lat0" (by decide)
theorem get_lon0 (a l : List (Val × Val)) : pyGetAttr (mk a l) "lon0" = pyGetAttr (.dict a) "lon0" :=
  get_other a l "lon0" (by decide)

/-- the table of a receiver is determined by the receiver -/
theorem mk_inj {a l l' : List (Val × Val)} (h : mk a l = mk a l') : l = l' := by
  have h1 := get_acs a l
  rw [h, get_acs] at h1
  injection h1 with h1
  injection h1 with h1
  exact h1.symm

/-! ### (A) the eviction loop -/

abbrev liveKey : Val := Val.str ['l', 'i', 'v', 'e']

/-- `ac["live"]` as a number, when the table entry `ac` is a dictionary with a numeric `live` -/
def liveOf (e : Val) : Option Rat :=
  match e with
  | .dict ac => (match dictFind ac liveKey with
    | some x => x.num?
    | none => none)
  | _ => none

/-- the clean-up test of `process_raw`: the entry stays unless `t - live > timeout` -/
def keep (t timeout : Rat) (kv : Val × Val) : Bool :=
  match liveOf kv.2 with
  | some q => decide (t - q ≤ timeout)
  | none => true

/-- the table after the clean-up -/
def evict (t timeout : Rat) (acs : List (Val × Val)) : List (Val × Val) := acs.filter (keep t timeout)

theorem mem_evict {t timeout : Rat} {acs : List (Val × Val)} {kv : Val × Val} {q : Rat} (hq : liveOf kv.2 = some q) :
    kv ∈ evict t timeout acs ↔ kv ∈ acs ∧ t - q ≤ timeout := by
  simp [evict, keep, hq]

theorem pyIdx_live (e : Val) :
    (Py.pyIdx e liveKey >>= fun x => pySub (.num t) x) =
      match liveOf e with
      | some q => .val (.num (t - q))
      | none => .exc := by
  cases e with
  | dict ac =>
    simp only [Py.pyIdx, liveOf]
    cases dictFind ac liveKey with
    | none => rfl
    | some x =>
      simp only [bind_val', pySub, arith, num?_num]
      cases x.num? <;> rfl
  | none => rfl
  | bool b => rfl
  | num q => rfl
  | str s => rfl
  | tuple l => rfl

/-- one pass of the generated loop body on a key that is in the table -/
theorem evictBody_eval (a l : List (Val × Val)) (k ic e : Val) (t timeout : Rat)
    (ht : dictFind a (attrKey "t") = some (.num t))
    (hto : dictFind a (attrKey "cache_timeout") = some (.num timeout))
    (hk : dictFind l k = some e) :
    evictBody k (mk a l, ic) =
      match liveOf e with
      | none => .exc
      | some q =>
        if timeout < t - q then .val (.yield (mk a (l.filter (fun kv => !Val.beq k kv.1)), k))
        else .val (.yield (mk a l, k)) := by
  have h1 : pyGetAttr (mk a l) "t" = .val (.num t) := by rw [get_t]; simp only [pyGetAttr, ht]
  have h2 : pyGetAttr (mk a l) "cache_timeout" = .val (.num timeout) := by
    rw [get_timeout]; simp only [pyGetAttr, hto]
  have h3 : Py.pyIdx (.dict l) k = .val e := by simp only [Py.pyIdx, hk]
  have h4 := pyIdx_live (t := t) e
  have h5 : pyDelItem (.dict l) k = .val (.dict (l.filter (fun kv => !Val.beq k kv.1))) := by
    have := hasKey_of_find hk
    unfold hasKey at this
    simp only [pyDelItem, this, if_true]
  unfold evictBody
  simp only []
  rw [h1, bind_val', get_acs, bind_val', h3, bind_val']
  rw [← bind_assoc (Py.pyIdx e liveKey) (fun x => pySub (.num t) x), h4]
  cases liveOf e with
  | none => rfl
  | some q =>
    simp only []
    rw [bind_val', h2, bind_val', pyGt_num, bind_val', pyTruth_bool, bind_val', h5, bind_val', set_acs, bind_val']
    simp only [decide_eq_true_eq]
    rfl


/-- a well-formed table: every key is a string or `None` (what `pms.icao` returns) and no key occurs twice -/
def KeysOK (l : List (Val × Val)) : Prop := (∀ k ∈ keysOf l, IsKey k) ∧ (keysOf l).Nodup

theorem keysOf_append (l l' : List (Val × Val)) : keysOf (l ++ l') = keysOf l ++ keysOf l' := by
  simp [keysOf]

theorem keysOf_cons (kv : Val × Val) (l : List (Val × Val)) : keysOf (kv :: l) = kv.1 :: keysOf l := rfl

theorem dictFind_of_not_mem {k : Val} (hk : IsKey k) {l : List (Val × Val)} (h : k ∉ keysOf l) :
    dictFind l k = none := by
  have := dictFind_isSome l k
  rw [Bool.eq_false_iff.2 (fun h' => h ((hasKey_iff_mem hk l).1 h'))] at this
  cases hd : dictFind l k with
  | none => rfl
  | some x => rw [hd] at this; cases this

theorem dictFind_append (l l' : List (Val × Val)) (k : Val) :
    dictFind (l ++ l') k = (dictFind l k).or (dictFind l' k) := by
  induction l with
  | nil => simp [dictFind_nil]
  | cons kv l ih =>
    obtain ⟨k', v⟩ := kv
    rw [List.cons_append, dictFind_cons, dictFind_cons, ih]
    split <;> rfl

theorem filter_not_beq_of_not_mem {k : Val} (hk : IsKey k) {l : List (Val × Val)} (h : k ∉ keysOf l) :
    l.filter (fun kv => !Val.beq k kv.1) = l := by
  rw [List.filter_eq_self]
  intro kv hkv
  have : Val.beq k kv.1 = false := by
    rw [Bool.eq_false_iff]; intro hb
    exact h ((beq_key_left hk).1 hb ▸ List.mem_map_of_mem hkv)
  simp [this]

theorem keysOK_drop {done todo : List (Val × Val)} {kv : Val × Val} (hK : KeysOK (done ++ kv :: todo)) :
    KeysOK (done ++ todo) := by
  have hkeys : keysOf (done ++ kv :: todo) = keysOf done ++ kv.1 :: keysOf todo := by
    rw [keysOf_append, keysOf_cons]
  have hnd := hK.2
  rw [hkeys, List.nodup_append] at hnd
  refine ⟨fun k' hk' => hK.1 k' ?_, ?_⟩
  · rw [hkeys]; rw [keysOf_append] at hk'
    rcases List.mem_append.1 hk' with h | h
    · exact List.mem_append_left _ h
    · exact List.mem_append_right _ (List.mem_cons_of_mem _ h)
  · rw [keysOf_append, List.nodup_append]
    exact ⟨hnd.1, (List.nodup_cons.1 hnd.2.1).2,
      fun x hx y hy => hnd.2.2 x hx y (List.mem_cons_of_mem _ hy)⟩

/-- one iteration of the eviction loop, from the middle: the entries `done` have been looked at (and kept), the entry
    `(k, e)` is next, `todo` are still to come -/
theorem evict_step (a : List (Val × Val)) (t timeout : Rat)
    (ht : dictFind a (attrKey "t") = some (.num t))
    (hto : dictFind a (attrKey "cache_timeout") = some (.num timeout))
    (done todo : List (Val × Val)) (k e ic : Val) (hK : KeysOK (done ++ (k, e) :: todo)) :
    forIn (keysOf ((k, e) :: todo)) (mk a (done ++ (k, e) :: todo), ic) evictBody =
      match liveOf e with
      | none => Res.exc
      | some q =>
        if timeout < t - q then forIn (keysOf todo) (mk a (done ++ todo), k) evictBody
        else forIn (keysOf todo) (mk a ((done ++ [(k, e)]) ++ todo), k) evictBody := by
  have hkeys : keysOf (done ++ (k, e) :: todo) = keysOf done ++ k :: keysOf todo := by
    rw [keysOf_append, keysOf_cons]
  have hkk : IsKey k := hK.1 k (by rw [hkeys]; simp)
  have hnd := hK.2
  rw [hkeys, List.nodup_append] at hnd
  have hk_done : k ∉ keysOf done := fun hm => hnd.2.2 k hm k (by simp) rfl
  have hk_todo : k ∉ keysOf todo := (List.nodup_cons.1 hnd.2.1).1
  have hfind : dictFind (done ++ (k, e) :: todo) k = some e := by
    rw [dictFind_append, dictFind_of_not_mem hkk hk_done, dictFind_cons, beq_key_self hkk]
    rfl
  rw [keysOf_cons, List.forIn_cons, evictBody_eval a _ k ic e t timeout ht hto hfind]
  cases liveOf e with
  | none => rfl
  | some q =>
    simp only []
    by_cases hstale : timeout < t - q
    · rw [if_pos hstale, if_pos hstale, bind_val']
      simp only []
      have hfil : (done ++ (k, e) :: todo).filter (fun kv => !Val.beq k kv.1) = done ++ todo := by
        rw [List.filter_append, List.filter_cons, filter_not_beq_of_not_mem hkk hk_done,
          filter_not_beq_of_not_mem hkk hk_todo]
        simp [beq_key_self hkk]
      rw [hfil]
    · rw [if_neg hstale, if_neg hstale, bind_val']
      simp only []
      have e1 : done ++ (k, e) :: todo = (done ++ [(k, e)]) ++ todo := by simp
      rw [e1]

theorem evict_cons (t timeout : Rat) (k e : Val) (todo : List (Val × Val)) (q : Rat) (hq : liveOf e = some q) :
    evict t timeout ((k, e) :: todo) =
      if timeout < t - q then evict t timeout todo else (k, e) :: evict t timeout todo := by
  unfold evict
  rw [List.filter_cons]
  by_cases hstale : timeout < t - q
  · have : keep t timeout (k, e) = false := by
      simp only [keep, hq, decide_eq_false_iff_not, not_le]; exact hstale
    simp [this, hstale]
  · have : keep t timeout (k, e) = true := by
      simp only [keep, hq, decide_eq_true_eq]; exact not_lt.1 hstale
    simp [this, hstale]

/-- the eviction loop, from the middle, when every remaining entry has a numeric `live` -/
theorem evict_loop_aux (a : List (Val × Val)) (t timeout : Rat)
    (ht : dictFind a (attrKey "t") = some (.num t))
    (hto : dictFind a (attrKey "cache_timeout") = some (.num timeout))
    (todo : List (Val × Val)) : ∀ (done : List (Val × Val)) (ic : Val), KeysOK (done ++ todo) →
    (∀ kv ∈ todo, ∃ q, liveOf kv.2 = some q) →
    ∃ ic', forIn (keysOf todo) (mk a (done ++ todo), ic) evictBody =
      Res.val (mk a (done ++ evict t timeout todo), ic') := by
  induction todo with
  | nil => intro done ic _ _; exact ⟨ic, rfl⟩
  | cons kv todo ih =>
    intro done ic hK hlive
    obtain ⟨k, e⟩ := kv
    obtain ⟨q, hq⟩ := hlive (k, e) (by simp)
    have hlive' : ∀ kv ∈ todo, ∃ q, liveOf kv.2 = some q := fun kv hkv => hlive kv (List.mem_cons_of_mem _ hkv)
    rw [evict_step a t timeout ht hto done todo k e ic hK, hq, evict_cons t timeout k e todo q hq]
    simp only []
    by_cases hstale : timeout < t - q
    · rw [if_pos hstale, if_pos hstale]
      exact ih done k (keysOK_drop hK) hlive'
    · rw [if_neg hstale, if_neg hstale]
      obtain ⟨ic', h⟩ := ih (done ++ [(k, e)]) k (by rw [List.append_assoc]; exact hK) hlive'
      exact ⟨ic', by rw [h]; simp⟩

/-- if the eviction loop returns at all, every entry it looked at had a numeric `live` -/
theorem evict_loop_live (a : List (Val × Val)) (t timeout : Rat)
    (ht : dictFind a (attrKey "t") = some (.num t))
    (hto : dictFind a (attrKey "cache_timeout") = some (.num timeout))
    (todo : List (Val × Val)) : ∀ (done : List (Val × Val)) (ic : Val) (s : Val × Val), KeysOK (done ++ todo) →
    forIn (keysOf todo) (mk a (done ++ todo), ic) evictBody = Res.val s →
    ∀ kv ∈ todo, ∃ q, liveOf kv.2 = some q := by
  induction todo with
  | nil => intro _ _ _ _ _ kv hkv; cases hkv
  | cons kv todo ih =>
    intro done ic s hK hs
    obtain ⟨k, e⟩ := kv
    rw [evict_step a t timeout ht hto done todo k e ic hK] at hs
    cases hq : liveOf e with
    | none => rw [hq] at hs; cases hs
    | some q =>
      rw [hq] at hs
      simp only [] at hs
      have hrest : ∀ kv ∈ todo, ∃ q, liveOf kv.2 = some q := by
        by_cases hstale : timeout < t - q
        · rw [if_pos hstale] at hs
          exact ih done k s (keysOK_drop hK) hs
        · rw [if_neg hstale] at hs
          exact ih (done ++ [(k, e)]) k s (by rw [List.append_assoc]; exact hK) hs
      intro kv hkv
      rcases List.mem_cons.1 hkv with rfl | h
      · exact ⟨q, hq⟩
      · exact hrest kv h

/-- **(A)** The generated clean-up loop, run on a receiver whose table `acs` is well formed and whose entries all have
    a numeric `live`, leaves exactly the entries with `t - live ≤ cache_timeout` (in their old order); no other
    attribute of the receiver changes. -/
theorem evict_loop_spec (a acs : List (Val × Val)) (t timeout : Rat) (ic : Val)
    (ht : dictFind a (attrKey "t") = some (.num t))
    (hto : dictFind a (attrKey "cache_timeout") = some (.num timeout))
    (hK : KeysOK acs) (hlive : ∀ kv ∈ acs, ∃ q, liveOf kv.2 = some q) :
    ∃ ic', forIn (keysOf acs) (mk a acs, ic) evictBody = Res.val (mk a (evict t timeout acs), ic') :=
  evict_loop_aux a t timeout ht hto acs [] ic hK hlive

/-- the same without the assumption on `live`: if the loop returns, the assumption held and the result is `evict` -/
theorem evict_loop_val (a acs : List (Val × Val)) (t timeout : Rat) (ic : Val) (s : Val × Val)
    (ht : dictFind a (attrKey "t") = some (.num t))
    (hto : dictFind a (attrKey "cache_timeout") = some (.num timeout))
    (hK : KeysOK acs) (h : forIn (keysOf acs) (mk a acs, ic) evictBody = Res.val s) :
    s.1 = mk a (evict t timeout acs) ∧ ∀ kv ∈ acs, ∃ q, liveOf kv.2 = some q := by
  have hlive := evict_loop_live a t timeout ht hto acs [] ic s hK h
  obtain ⟨ic', h'⟩ := evict_loop_spec a acs t timeout ic ht hto hK hlive
  rw [h'] at h
  cases h
  exact ⟨rfl, hlive⟩


/-! #### staleness bounds: `live` is `int(t)` of the last message -/

/-- `int(t)` on a number is the truncation `pyInt` of the hand model (`Model/Tracker.lean`) -/
theorem pyInt1_num (q : Rat) : pyInt1 (.num q) = .val (.num (PyModeS.pyInt q : Rat)) := by
  unfold pyInt1 PyModeS.pyInt
  by_cases h : q < 0
  · have : ¬ (q ≥ 0) := not_le.2 h
    simp only [h, if_true, this, if_false]
  · have : q ≥ 0 := not_lt.1 h
    simp only [h, if_false, this, if_true]

/-- for a time stamp `t ≥ 0` that is `⌊t⌋` -/
theorem pyInt1_num_nonneg (q : Rat) (h : 0 ≤ q) : pyInt1 (.num q) = .val (.num (q.floor : Rat)) := by
  rw [pyInt1_num]; unfold PyModeS.pyInt; rw [if_pos h]

/-- an aircraft last heard (`live = int(tm)`) more than 61 s before `t` is not in the table after the clean-up
    (timeout 60 s, any sign of `tm`; for `tm ≥ 0` see `evict_absent_nonneg`) -/
theorem evict_absent (t tm : Rat) (acs : List (Val × Val)) (kv : Val × Val)
    (hlive : liveOf kv.2 = some (PyModeS.pyInt tm : Rat)) (hsilent : t - tm ≥ 61) : kv ∉ evict t 60 acs := by
  rw [mem_evict hlive]
  rintro ⟨_, h⟩
  have := (Tracker.pyInt_abs_lt tm).2
  linarith

/-- with `tm ≥ 0` (`int` = floor): more than 60 s of silence are enough -/
theorem evict_absent_nonneg (t tm : Rat) (acs : List (Val × Val)) (kv : Val × Val) (h0 : 0 ≤ tm)
    (hlive : liveOf kv.2 = some (tm.floor : Rat)) (hsilent : t - tm > 60) : kv ∉ evict t 60 acs := by
  have e : (tm.floor : Rat) = (PyModeS.pyInt tm : Rat) := by unfold PyModeS.pyInt; rw [if_pos h0]
  rw [e] at hlive
  rw [mem_evict hlive]
  rintro ⟨_, h⟩
  have := (Tracker.pyInt_nonneg_bounds tm h0).1
  linarith

/-- an aircraft heard within the last 59 s (`live = int(tm)`) stays in the table -/
theorem evict_present (t tm : Rat) (acs : List (Val × Val)) (kv : Val × Val) (hmem : kv ∈ acs)
    (hlive : liveOf kv.2 = some (PyModeS.pyInt tm : Rat)) (hrecent : t - tm ≤ 59) : kv ∈ evict t 60 acs := by
  rw [mem_evict hlive]
  refine ⟨hmem, ?_⟩
  have := (Tracker.pyInt_abs_lt tm).1
  linarith

/-- whatever stays has `t - live ≤ timeout` -/
theorem evict_fresh (t timeout : Rat) (acs : List (Val × Val)) (kv : Val × Val) (q : Rat)
    (hmem : kv ∈ evict t timeout acs) (hlive : liveOf kv.2 = some q) : t - q ≤ timeout :=
  ((mem_evict hlive).1 hmem).2

theorem evict_sublist (t timeout : Rat) (acs : List (Val × Val)) : (evict t timeout acs).Sublist acs :=
  List.filter_sublist

theorem keysOf_evict_subset (t timeout : Rat) (acs : List (Val × Val)) :
    ∀ k ∈ keysOf (evict t timeout acs), k ∈ keysOf acs := by
  intro k hk
  unfold keysOf at hk ⊢
  obtain ⟨kv, hkv, rfl⟩ := List.mem_map.1 hk
  exact List.mem_map_of_mem (List.mem_of_mem_filter hkv)


/-! ### (B) Comm-B gating -/

theorem pyNotIn_dict (k : Val) (l : List (Val × Val)) : pyNotIn k (.dict l) = .val (.bool (!hasKey l k)) := rfl
theorem pyIn_dict (k : Val) (l : List (Val × Val)) : pyIn k (.dict l) = .val (.bool (hasKey l k)) := rfl

theorem commbBody_unknown (self : Val) (l : List (Val × Val)) (tv msg ic : Val)
    (t0 msg0 ic0 bds r50 t50 rt50 g50 ta50 i60 h60 m60 rb60 ri60 ob : Val)
    (hacs : pyGetAttr self "acs" = .val (.dict l)) (hic : Gen.py_common.icao msg = .val ic)
    (hnot : hasKey l ic = false) :
    commbBody (.tuple [tv, msg]) (self, t0, msg0, ic0, bds, r50, t50, rt50, g50, ta50, i60, h60, m60, rb60, ri60, ob) =
      .val (.yield (self, tv, msg, ic, bds, r50, t50, rt50, g50, ta50, i60, h60, m60, rb60, ri60, ob)) := by
  unfold commbBody
  simp -zeta only []
  extract_lets self'
  have hs : self' = self := rfl
  clear_value self'
  subst hs
  have hu : pyUnpackCheck (.tuple [tv, msg]) 2 = .val () := rfl
  have h0 : pyIdxN (.tuple [tv, msg]) 0 = .val tv := rfl
  have h1 : pyIdxN (.tuple [tv, msg]) 1 = .val msg := rfl
  rw [hu, bind_val', h0, bind_val', h1, bind_val', hic, bind_val', hacs, bind_val', pyNotIn_dict, bind_val', hnot]
  rfl


/-- the same for a hex frame: the address is `PyModeS.icao m` (`icao_tie`) -/
theorem commbBody_unknown_hex (self : Val) (l : List (Val × Val)) (tv : Val) (m : Msg)
    (t0 msg0 ic0 bds r50 t50 rt50 g50 ta50 i60 h60 m60 rb60 ri60 ob : Val)
    (hacs : pyGetAttr self "acs" = .val (.dict l)) (hm : IsHex m) (hl : 6 ≤ m.length)
    (hnot : hasKey l (Val.ofOptStr (PyModeS.icao m)) = false) :
    commbBody (.tuple [tv, .str m])
        (self, t0, msg0, ic0, bds, r50, t50, rt50, g50, ta50, i60, h60, m60, rb60, ri60, ob) =
      .val (.yield (self, tv, .str m, Val.ofOptStr (PyModeS.icao m), bds, r50, t50, rt50, g50, ta50, i60, h60, m60,
        rb60, ri60, ob)) :=
  commbBody_unknown self l tv (.str m) _ t0 msg0 ic0 bds r50 t50 rt50 g50 ta50 i60 h60 m60 rb60 ri60 ob hacs
    (icao_tie m hm hl) hnot

/-! #### the whole Comm-B loop never changes the key list -/

open PyModeS.Tracker (RAll rall_val rall_pure rall_rte rall_exc rall_bind rall_ite rall_of_forall rall_mono
  rall_elim rall_intro)

/-- the receiver is `a` with some table whose key list is `ks` -/
def Inv (a : List (Val × Val)) (ks : List Val) (self : Val) : Prop := ∃ l, self = mk a l ∧ keysOf l = ks

/-- `self.acs[ic][key] = v` (the six steps the translator emits for it) keeps the key list -/
theorem rall_setfield {β} {a : List (Val × Val)} {ks : List Val} {self : Val} (ic key v : Val) (K : Val → Res β)
    (P : β → Prop) (hI : Inv a ks self) (hK : ∀ self', Inv a ks self' → RAll P (K self')) :
    RAll P (pyGetAttr self "acs" >>= fun x => Py.pyIdx x ic >>= fun y => pySetItem y key v >>= fun s1 =>
      pyGetAttr self "acs" >>= fun x' => pySetItem x' ic s1 >>= fun s2 => pySetAttr self "acs" s2 >>= K) := by
  obtain ⟨l, rfl, hks⟩ := hI
  rw [get_acs, bind_val']
  simp only [Py.pyIdx]
  cases hf : dictFind l ic with
  | none => simp only [bind_exc', rall_exc]
  | some e =>
    simp only [bind_val']
    generalize pySetItem e key v = r
    rcases r with s1 | _ | _
    · rw [bind_val']
      simp only [pySetItem, bind_val', set_acs]
      refine hK _ ⟨_, rfl, ?_⟩
      rw [keysOf_setPair, hasKey_of_find hf, if_pos rfl, hks]
    · simp only [bind_rte', rall_rte]
    · simp only [bind_exc', rall_exc]

theorem hasKey_eq_any (l : List (Val × Val)) (k : Val) : hasKey l k = (keysOf l).any (fun k' => Val.beq k k') := by
  simp [hasKey, keysOf, List.any_map, Function.comp_def]

/-- `self.acs[ic]` (read): if it succeeds, `ic` is one of the keys -/
theorem rall_idx_acs {β} {a : List (Val × Val)} {ks : List Val} {self : Val} (ic : Val) (K : Val → Res β)
    (P : β → Prop) (hI : Inv a ks self) (hK : ∀ y, ks.any (fun k => Val.beq ic k) = true → RAll P (K y)) :
    RAll P (pyGetAttr self "acs" >>= fun x => Py.pyIdx x ic >>= K) := by
  obtain ⟨l, rfl, hks⟩ := hI
  rw [get_acs, bind_val']
  simp only [Py.pyIdx]
  cases hf : dictFind l ic with
  | none => simp only [bind_exc', rall_exc]
  | some e =>
    simp only [bind_val']
    refine hK e ?_
    rw [← hks, ← hasKey_eq_any]
    exact hasKey_of_find hf

/-- `self.acs[ic] = s1` for a key `ic` that is present keeps the key list -/
theorem rall_settail {β} {a : List (Val × Val)} {ks : List Val} {self : Val} (ic s1 : Val) (K : Val → Res β)
    (P : β → Prop) (hI : Inv a ks self) (hmem : ks.any (fun k => Val.beq ic k) = true)
    (hK : ∀ self', Inv a ks self' → RAll P (K self')) :
    RAll P (pyGetAttr self "acs" >>= fun x' => pySetItem x' ic s1 >>= fun s2 => pySetAttr self "acs" s2 >>= K) := by
  obtain ⟨l, rfl, hks⟩ := hI
  rw [get_acs, bind_val']
  simp only [pySetItem, bind_val', set_acs]
  refine hK _ ⟨_, rfl, ?_⟩
  rw [keysOf_setPair, hasKey_eq_any, hks, hmem, if_pos rfl]

theorem rall_bind_any {α β} {P : β → Prop} {x : Res α} {f : α → Res β} (h : ∀ a, RAll P (f a)) :
    RAll P (x >>= f) := rall_bind.2 (fun a _ => h a)



/-- what a loop body must return: `yield` of a state whose receiver still satisfies the invariant -/
abbrev YieldInv {σ} (I : Val → Prop) (proj : σ → Val) (r : ForInStep σ) : Prop := ∃ s', r = .yield s' ∧ I (proj s')

/-! cheap syntactic dispatch for the walk: the shape of the computation in a goal `RAll P x` (below leading `have`s) -/

open Lean Elab Tactic Meta in
/-- the computation `x` of a goal `RAll P x`, with leading `have`s substituted -/
def rallComp : TacticM Expr := do
  let g ← instantiateMVars (← getMainTarget)
  let g := g.consumeMData
  unless g.isApp do throwError "not an application"
  let mut x := g.appArg!.consumeMData
  for _ in [0:64] do
    if x.isLet then x := (x.letBody!.instantiate1 x.letValue!).consumeMData else break
  return x

open Lean Elab Tactic Meta in
/-- succeeds iff the goal is `RAll P x` with `x` an application of the constant `c` -/
elab "guard_head " c:ident : tactic => do
  let cname ← realizeGlobalConstNoOverloadWithInfo c
  let x ← rallComp
  unless x.getAppFn.isConstOf cname do throwError "head mismatch"

open Lean Elab Tactic Meta in
/-- succeeds iff the goal is `RAll P (x >>= f)` with `x` an application of the constant `c` -/
elab "guard_bind_head " c:ident : tactic => do
  let cname ← realizeGlobalConstNoOverloadWithInfo c
  let x ← rallComp
  unless x.isAppOfArity ``Bind.bind 6 do throwError "not a bind"
  unless (x.getArg! 4).consumeMData.getAppFn.isConstOf cname do throwError "head mismatch"


open Lean Elab Tactic Meta in
/-- `RAll P ((fun x => b) a)` to `RAll P b[a]` (below leading `have`s) -/
elab "rall_beta" : tactic => do
  let g ← getMainGoal
  let t := (← instantiateMVars (← g.getType)).consumeMData
  let x ← rallComp
  unless x.getAppFn.isLambda do throwError "not a beta redex"
  let g' ← g.replaceTargetDefEq (mkApp t.appFn! x.headBeta)
  replaceMainGoal [g']

macro "walk_step" : tactic => `(tactic| first
  | (guard_bind_head pyGetAttr
     first
     | (refine rall_setfield _ _ _ _ _ (by assumption) (fun self' hI' => ?_))
     | (refine rall_settail _ _ _ _ (by assumption) (by assumption) (fun self' hI' => ?_))
     | (refine rall_idx_acs _ _ _ (by assumption) (fun _ hmem => ?_))
     | (refine rall_bind_any (fun _ => ?_)))
  | (guard_head Bind.bind; refine rall_bind_any (fun _ => ?_))
  | (guard_head Pure.pure; refine rall_pure.2 ⟨_, rfl, by assumption⟩)
  | (guard_head ite; refine rall_ite.2 ⟨fun _ => ?_, fun _ => ?_⟩)
  | rall_beta)

theorem commbBody_inv (a : List (Val × Val)) (ks : List Val) (it : Val)
    (s : Val × Val × Val × Val × Val × Val × Val × Val × Val × Val × Val × Val × Val × Val × Val × Val)
    (hI : Inv a ks s.1) : RAll (YieldInv (Inv a ks) (·.1)) (commbBody it s) := by
  unfold commbBody
  extract_lets self0
  have hI0 : Inv a ks self0 := hI
  clear_value self0
  clear hI
  repeat' walk_step


/-- loop rule (partial correctness): an invariant kept by every pass of the body holds after the loop -/
theorem rall_forIn {σ} (I : σ → Prop) (f : Val → σ → Res (ForInStep σ)) (items : List Val)
    (hstep : ∀ it ∈ items, ∀ s, I s → RAll (fun r => ∃ s', r = ForInStep.yield s' ∧ I s') (f it s)) :
    ∀ s0, I s0 → RAll I (forIn items s0 f) := by
  induction items with
  | nil => intro s0 h0; exact rall_val.2 h0
  | cons it items ih =>
    intro s0 h0
    rw [List.forIn_cons]
    refine rall_bind.2 (fun r hr => ?_)
    obtain ⟨s', rfl, hs'⟩ := rall_elim (hstep it (by simp) s0 h0) hr
    exact ih (fun it' hit' => hstep it' (List.mem_cons_of_mem _ hit')) s' hs'

/-- **(B)** The whole Comm-B loop, on any list of items and from any state whose receiver has the key list `ks`:
    if it returns, the receiver still has exactly the key list `ks` (same keys, same order) -- a Comm-B message never
    adds (or removes) an aircraft -- and no attribute other than `acs` has changed. -/
theorem commbLoop_keys (a : List (Val × Val)) (ks : List Val) (items : List Val)
    (s : Val × Val × Val × Val × Val × Val × Val × Val × Val × Val × Val × Val × Val × Val × Val × Val)
    (hI : Inv a ks s.1) : RAll (fun s' => Inv a ks s'.1) (forIn items s commbBody) :=
  rall_forIn (fun s' => Inv a ks s'.1) commbBody items (fun it _ s hs => commbBody_inv a ks it s hs) s hI

theorem commbLoop_keys_val {a : List (Val × Val)} {items : List Val}
    {s s' : Val × Val × Val × Val × Val × Val × Val × Val × Val × Val × Val × Val × Val × Val × Val × Val}
    {l : List (Val × Val)} (hs : s.1 = mk a l) (h : forIn items s commbBody = .val s') :
    ∃ l', s'.1 = mk a l' ∧ keysOf l' = keysOf l := by
  have := rall_elim (P := fun s' => Inv a (keysOf l) s'.1) (commbLoop_keys a (keysOf l) items s ⟨l, hs, rfl⟩) h
  exact this


/-! ### (C) the ADS-B loop: the key list grows by the addresses of the processed messages -/

/-- the key list after `if icao not in self.acs: self.acs[icao] = {...}` -/
def addKey (ks : List Val) (ic : Val) : List Val := if ks.any (fun k => Val.beq ic k) then ks else ks ++ [ic]

theorem rall_runK {α β} {P : β → Prop} (e : Option α) (kc : Unit → Res β) (ks : α → Res β)
    (hc : RAll P (kc ())) (hs : ∀ x, RAll P (ks x)) : RAll P (Continue.runK e kc ks) := by
  cases e with
  | none => exact hc
  | some x => exact hs x

macro "walk_step'" : tactic => `(tactic| first
  | walk_step
  | (guard_head Continue.runK; refine rall_runK _ _ _ ?_ (fun _ => ?_)))

/-- walk through a block; `h` proves the join point that follows it -/
macro "walk_using " h:term : tactic => `(tactic| repeat' (first | walk_step' | (apply $h; assumption)))

/- the join points of the ADS-B loop body after the time stamps are stored (`J2`: everything after the call-sign block,
   …, `K31`: the version block), each proved to keep the invariant `Q` of the receiver with the walk `w`; leaves `hJ2`
   in the context -/
set_option hygiene false in
macro "adsb_tail " Q:term " with " w:tacticSeq : tactic => `(tactic| (
  extract_lets s5 s8 s11 s38 J2 J1
  have hJ2 : ∀ r self cs ob, $Q self → RAll (YieldInv $Q (·.1)) (J2 r self cs ob) := by
    intro r self cs ob hI
    simp -zeta only [J2]
    refine rall_bind_any (fun c => ?_)
    extract_lets J3
    have hJ3 : ∀ r self vdata spd trk roc tag ob, $Q self →
        RAll (YieldInv $Q (·.1)) (J3 r self vdata spd trk roc tag ob) := by
      intro r self vdata spd trk roc tag ob hI
      simp -zeta only [J3]
      refine rall_bind_any (fun c => ?_)
      extract_lets J4
      have hJ4 : ∀ r self oe rlat rlon latlon alt lu ob, $Q self →
          RAll (YieldInv $Q (·.1)) (J4 r self oe rlat rlon latlon alt lu ob) := by
        intro r self oe rlat rlon latlon alt lu ob hI
        simp -zeta only [J4]
        refine rall_bind_any (fun c => ?_)
        extract_lets K31 K29 K19 Knuc
        have hK31 : ∀ r self, $Q self → RAll (YieldInv $Q (·.1)) (K31 r self) := by
          intro r self hI
          simp -zeta only [K31]
          repeat' ($w)
        clear_value K31
        have hK29 : ∀ r self, $Q self → RAll (YieldInv $Q (·.1)) (K29 r self) := by
          intro r self hI
          simp -zeta only [K29]
          repeat' (first | ($w) | (apply hK31; assumption))
        clear_value K29
        have hK19 : ∀ r self, $Q self → RAll (YieldInv $Q (·.1)) (K19 r self) := by
          intro r self hI
          simp -zeta only [K19]
          repeat' (first | ($w) | (apply hK29; assumption))
        clear_value K19
        have hKnuc : ∀ r self, $Q self → RAll (YieldInv $Q (·.1)) (Knuc r self) := by
          intro r self hI
          simp -zeta only [Knuc]
          repeat' (first | ($w) | (apply hK19; assumption))
        clear_value Knuc
        repeat' (first | ($w) | (apply hKnuc; assumption))
      clear_value J4
      repeat' (first | ($w) | (apply hJ4; assumption))
    clear_value J3
    repeat' (first | ($w) | (apply hJ3; assumption))
  clear_value J2))

theorem adsbBody_inv (a : List (Val × Val)) (ks : List Val) (tv msg : Val)
    (s : Val × Val × Val × Val × Val × Val × Val × Val × Val × Val × Val × Val × Val × Val × Val × Val × Val × Val)
    (hI : Inv a ks s.1) :
    RAll (fun r => ∃ ic, Gen.py_common.icao msg = .val ic ∧ YieldInv (Inv a (addKey ks ic)) (·.1) r)
      (adsbBody (.tuple [tv, msg]) s) := by
  unfold adsbBody
  extract_lets self0
  have hI0 : Inv a ks self0 := hI
  clear_value self0
  clear hI
  have h0 : pyIdxN (.tuple [tv, msg]) 0 = .val tv := rfl
  have h1 : pyIdxN (.tuple [tv, msg]) 1 = .val msg := rfl
  refine rall_bind_any (fun _ => ?_)
  rw [h0, bind_val', h1, bind_val']
  refine rall_bind.2 (fun ic hic => ?_)
  refine rall_mono (P := YieldInv (Inv a (addKey ks ic)) (·.1)) ?_ (fun r hr => ⟨ic, hic, hr⟩)
  refine rall_bind_any (fun tc => ?_)
  obtain ⟨l, rfl, hks⟩ := hI0
  rw [get_acs, bind_val', pyNotIn_dict, bind_val', pyTruth_bool]
  adsb_tail (Inv a (addKey ks ic)) with walk_step'
  have hJ1 : ∀ r self, Inv a (addKey ks ic) self →
      RAll (YieldInv (Inv a (addKey ks ic)) (·.1)) (J1 r self) := by
    intro r self hI
    simp -zeta only [J1]
    walk_using hJ2
  clear_value J1
  have hany : ks.any (fun k => Val.beq ic k) = hasKey l ic := by rw [hasKey_eq_any, hks]
  by_cases hk : hasKey l ic = true
  · rw [hk]
    simp only [Bool.not_true, Bool.false_eq_true, if_false]
    refine hJ1 _ _ ⟨l, rfl, ?_⟩
    unfold addKey
    rw [hany, hk, if_pos rfl, hks]
  · have hk' : hasKey l ic = false := by simpa using hk
    rw [hk']
    simp only [Bool.not_false, if_true, bind_val', pySetItem, set_acs]
    refine hJ1 _ _ ⟨_, rfl, ?_⟩
    unfold addKey
    rw [hany, hk', keysOf_setPair, hk', hks]


/-- a `[t, msg]` item of `zip(adsb_ts, adsb_msg)` -/
def encPair (p : Val × Val) : Val := .tuple [p.1, p.2]

/-- **(C)** The whole ADS-B loop over the items `zip(ts, msgs)`, from any state whose receiver has the key list `ks`:
    if it returns, `common.icao` returned an address `ic` for every message and the receiver's key list is `ks` extended,
    in order, by every address that was not yet present (`addKey`); no attribute other than `acs` has changed. -/
theorem adsbLoop_keys (a : List (Val × Val)) (pairs : List (Val × Val)) :
    ∀ (ks : List Val)
      (s : Val × Val × Val × Val × Val × Val × Val × Val × Val × Val × Val × Val × Val × Val × Val × Val × Val × Val),
    Inv a ks s.1 →
    RAll (fun s' => ∃ ics, List.Forall₂ (fun p ic => Gen.py_common.icao p.2 = .val ic) pairs ics ∧
        Inv a (ics.foldl addKey ks) s'.1)
      (forIn (pairs.map encPair) s adsbBody) := by
  induction pairs with
  | nil => intro ks s hI; exact rall_val.2 ⟨[], List.Forall₂.nil, hI⟩
  | cons p pairs ih =>
    intro ks s hI
    rw [List.map_cons, List.forIn_cons]
    refine rall_bind.2 (fun r hr => ?_)
    obtain ⟨ic, hic, s', rfl, hs'⟩ := rall_elim (adsbBody_inv a ks p.1 p.2 s hI) hr
    refine rall_mono (ih (addKey ks ic) s' hs') ?_
    rintro s'' ⟨ics, hics, hI''⟩
    exact ⟨ic :: ics, List.Forall₂.cons hic hics, hI''⟩

/-! #### the key list as a set: `addKey` on well-formed key lists -/

def KeysOKl (ks : List Val) : Prop := (∀ k ∈ ks, IsKey k) ∧ ks.Nodup

theorem keysOK_iff (l : List (Val × Val)) : KeysOK l ↔ KeysOKl (keysOf l) := Iff.rfl

theorem any_beq_iff_mem {ic : Val} (hic : IsKey ic) (ks : List Val) :
    ks.any (fun k => Val.beq ic k) = true ↔ ic ∈ ks := by
  rw [List.any_eq_true]
  constructor
  · rintro ⟨k, hk, hb⟩
    rw [(beq_key_left hic).1 hb] at hk; exact hk
  · intro h; exact ⟨ic, h, beq_key_self hic⟩

theorem addKey_of_isKey {ic : Val} (hic : IsKey ic) (ks : List Val) [Decidable (ic ∈ ks)] :
    addKey ks ic = if ic ∈ ks then ks else ks ++ [ic] := by
  unfold addKey
  by_cases h : ic ∈ ks
  · rw [if_pos h, if_pos ((any_beq_iff_mem hic ks).2 h)]
  · rw [if_neg h, if_neg (fun h' => h ((any_beq_iff_mem hic ks).1 h'))]

theorem mem_addKey {ic : Val} (hic : IsKey ic) (ks : List Val) (k : Val) :
    k ∈ addKey ks ic ↔ k ∈ ks ∨ k = ic := by
  classical
  rw [addKey_of_isKey hic]
  by_cases h : ic ∈ ks
  · rw [if_pos h]
    constructor
    · exact Or.inl
    · rintro (h' | rfl)
      · exact h'
      · exact h
  · rw [if_neg h]; simp

theorem keysOKl_addKey {ic : Val} (hic : IsKey ic) {ks : List Val} (h : KeysOKl ks) : KeysOKl (addKey ks ic) := by
  classical
  rw [addKey_of_isKey hic]
  by_cases hm : ic ∈ ks
  · rw [if_pos hm]; exact h
  · rw [if_neg hm]
    refine ⟨fun k hk => ?_, ?_⟩
    · rcases List.mem_append.1 hk with h' | h'
      · exact h.1 k h'
      · rw [List.mem_singleton.1 h']; exact hic
    · rw [List.nodup_append]
      refine ⟨h.2, by simp, ?_⟩
      intro x hx y hy
      rw [List.mem_singleton.1 hy]
      rintro rfl
      exact hm hx

theorem keysOKl_foldl {ics : List Val} (hics : ∀ ic ∈ ics, IsKey ic) : ∀ {ks : List Val}, KeysOKl ks →
    KeysOKl (ics.foldl addKey ks) := by
  induction ics with
  | nil => intro ks h; exact h
  | cons ic ics ih =>
    intro ks h
    exact ih (fun x hx => hics x (List.mem_cons_of_mem _ hx)) (keysOKl_addKey (hics ic (by simp)) h)

theorem mem_foldl_addKey {ics : List Val} (hics : ∀ ic ∈ ics, IsKey ic) : ∀ (ks : List Val) (k : Val),
    k ∈ ics.foldl addKey ks ↔ k ∈ ks ∨ k ∈ ics := by
  induction ics with
  | nil => intro ks k; simp
  | cons ic ics ih =>
    intro ks k
    rw [List.foldl_cons, ih (fun x hx => hics x (List.mem_cons_of_mem _ hx)), mem_addKey (hics ic (by simp))]
    simp only [List.mem_cons]
    tauto

/-- the key `process_raw` files a hex frame under: `pms.icao(msg)` (a 6-character string, or `None`) -/
def icaoKey (m : Msg) : Val := Val.ofOptStr (PyModeS.icao m)

theorem isKey_icaoKey (m : Msg) : IsKey (icaoKey m) := by
  unfold icaoKey
  cases PyModeS.icao m with
  | none => exact isKey_none
  | some s => exact isKey_str s


/-! ### `Decode.process_raw` end to end -/

theorem pyZip_tuple (xs ys : List Val) :
    pyZip (.tuple xs) (.tuple ys) = .val (.tuple ((xs.zip ys).map encPair)) := rfl

theorem attrKey_ne {n n' : String} (h : n.toList ≠ n'.toList) : attrKey n ≠ attrKey n' := by
  intro e
  unfold attrKey at e
  exact h (Val.str.inj e)

/-- on hex frames the addresses the ADS-B loop files the messages under are `icaoKey` (`icao_tie`) -/
theorem ics_of_hex : ∀ (ts : List Val) (ms : List Msg) (ics : List Val), (∀ m ∈ ms, IsHex m ∧ 6 ≤ m.length) →
    List.Forall₂ (fun (p : Val × Val) ic => Gen.py_common.icao p.2 = .val ic) (ts.zip (ms.map Val.str)) ics →
    ics = (ts.zip ms).map (fun p => icaoKey p.2) := by
  intro ts
  induction ts with
  | nil => intro ms ics _ h; cases h; rfl
  | cons t ts ih =>
    intro ms ics hms h
    cases ms with
    | nil => cases h; rfl
    | cons m ms =>
      simp only [List.map_cons, List.zip_cons_cons] at h ⊢
      cases h with
      | cons h1 h2 =>
        have hm := hms m (by simp)
        rw [icao_tie m hm.1 hm.2] at h1
        injection h1 with h1
        rw [← h1, ih ms _ (fun m' hm' => hms m' (List.mem_cons_of_mem _ hm')) h2]
        rfl

/-- **`Decode.process_raw` (generated definition), end to end.**  Receiver: any attribute dictionary `attrs` whose `acs`
    is a well-formed table and whose `cache_timeout` is a number; ADS-B messages: hex strings; Comm-B arguments: any
    values; `tnow = t`.  If the call returns at all, then there is a table `mid` (the table after the two message
    loops) such that
    * the key list of `mid` is the old key list extended, in order, by the addresses of the processed ADS-B messages
      that were not yet present -- Comm-B messages add nothing;
    * every entry of `mid` has a numeric `live`;
    * the result is `(self', None)` where `self'` is `attrs` with `t := tnow` and `acs := evict t timeout mid`:
      exactly the entries of `mid` with `t - live ≤ cache_timeout`, nothing else changed. -/
theorem process_raw_spec (attrs acs : List (Val × Val)) (ts : List Val) (ms : List Msg) (cts cms : Val)
    (t timeout : Rat) (r : Val)
    (hacs : dictFind attrs (attrKey "acs") = some (.dict acs)) (hK : KeysOK acs)
    (hto : dictFind attrs (attrKey "cache_timeout") = some (.num timeout))
    (hms : ∀ m ∈ ms, IsHex m ∧ 6 ≤ m.length)
    (h : Gen.decode.Decode_process_raw (.dict attrs) (.tuple ts) (.tuple (ms.map Val.str)) cts cms (.num t) = .val r) :
    ∃ mid : List (Val × Val),
      keysOf mid = ((ts.zip ms).map (fun p => icaoKey p.2)).foldl addKey (keysOf acs) ∧
      (∀ kv ∈ mid, ∃ q, liveOf kv.2 = some q) ∧
      r = .tuple [mk (setPair (attrKey "t") (.num t) attrs) (evict t timeout mid), .none] := by
  rw [process_raw_decomp] at h
  have hpyIs : pyIs (.num t) .none = .val (.bool false) := rfl
  rw [hpyIs, bind_val', pyTruth_bool, if_neg (by decide)] at h
  generalize ha' : setPair (attrKey "t") (.num t) attrs = a' at *
  have hacs' : dictFind a' (attrKey "acs") = some (.dict acs) := by
    rw [← ha', dictFind_setPair_ne (isKey_attr "t") (isKey_attr "acs") (attrKey_ne (by decide)), hacs]
  have ht' : dictFind a' (attrKey "t") = some (.num t) := by
    rw [← ha', dictFind_setPair_self (beq_key_self (isKey_attr "t"))]
  have hto' : dictFind a' (attrKey "cache_timeout") = some (.num timeout) := by
    rw [← ha', dictFind_setPair_ne (isKey_attr "t") (isKey_attr "cache_timeout") (attrKey_ne (by decide)), hto]
  have hset : pySetAttr (.dict attrs) "t" (.num t) = .val (mk a' acs) := by
    rw [← mk_of_find hacs', ← ha']; rfl
  refine rall_elim (P := fun r => ∃ mid : List (Val × Val),
      keysOf mid = ((ts.zip ms).map (fun p => icaoKey p.2)).foldl addKey (keysOf acs) ∧
      (∀ kv ∈ mid, ∃ q, liveOf kv.2 = some q) ∧
      r = .tuple [mk a' (evict t timeout mid), .none]) ?_ h
  unfold phases
  rw [hset, bind_val', pyZip_tuple, bind_val']
  have hit : ∀ l, pyIter (.tuple l) = .val l := fun _ => rfl
  rw [hit, bind_val']
  refine rall_bind.2 (fun s1 hs1 => ?_)
  obtain ⟨ics, hics, hI1⟩ := rall_elim (adsbLoop_keys a' _ (keysOf acs) _ ⟨acs, rfl, rfl⟩) hs1
  rw [ics_of_hex ts ms ics hms hics] at hI1
  refine rall_bind_any (fun z => ?_)
  refine rall_bind_any (fun items => ?_)
  refine rall_bind.2 (fun s2 hs2 => ?_)
  obtain ⟨l2, hl2, hk2⟩ := rall_elim (commbLoop_keys a' _ items _ hI1) hs2
  have hK2 : KeysOK l2 := by
    rw [keysOK_iff, hk2]
    exact keysOKl_foldl (fun ic hic => by
      obtain ⟨p, _, rfl⟩ := List.mem_map.1 hic
      exact isKey_icaoKey p.2) hK
  rw [hl2, get_acs, bind_val']
  have hkeys : pyKeys (.dict l2) = .val (.tuple (keysOf l2)) := rfl
  have hlist : ∀ l, pyList (.tuple l) = .val (.tuple l) := fun _ => rfl
  rw [hkeys, bind_val', hlist, bind_val', hit, bind_val']
  refine rall_bind.2 (fun s3 hs3 => ?_)
  obtain ⟨h31, hlive⟩ := evict_loop_val a' l2 t timeout _ s3 ht' hto' hK2 hs3
  refine rall_bind_any (fun d => ?_)
  refine rall_bind_any (fun c => ?_)
  refine rall_ite.2 ⟨fun _ => ?_, fun _ => ?_⟩
  · exact (rall_exc.2 trivial : RAll _ Res.exc)
  · exact rall_pure.2 ⟨l2, hk2, hlive, by rw [h31]⟩


/-! ### values: which `live` an aircraft ends a pass with

  The invariants above only follow the key list.  Here the table itself is followed: a pass of either loop body touches
  only the entry of the message's address (`Frame`), an ADS-B pass leaves `live = int(t)` there and a Comm-B pass
  `live = max(live, int(t))`. -/

/-- the tables `l0` and `l` agree outside the key `ic` -/
def Frame (l0 : List (Val × Val)) (ic : Val) (l : List (Val × Val)) : Prop :=
  ∀ k, IsKey k → k ≠ ic → dictFind l k = dictFind l0 k

/-- the receiver is `a` with a table whose key list is `ks` and which satisfies `F` -/
def InvF (a : List (Val × Val)) (ks : List Val) (F : List (Val × Val) → Prop) (self : Val) : Prop :=
  ∃ l, self = mk a l ∧ keysOf l = ks ∧ F l

/-- `F` survives `self.acs[ic][key] = v` for every `key` other than `"live"` -/
def Closed (ic : Val) (F : List (Val × Val) → Prop) : Prop :=
  ∀ l e key v s1, F l → dictFind l ic = some e → key ≠ liveKey → pySetItem e key v = .val s1 → F (setPair ic s1 l)

theorem dictFind_setPair_ne' {k k' : Val} (hk' : IsKey k') (hne : k ≠ k') (v : Val) (l : List (Val × Val)) :
    dictFind (setPair k v l) k' = dictFind l k' := by
  have hb : Val.beq k' k = false := by
    rw [Bool.eq_false_iff]; intro h; exact hne ((beq_key_left hk').1 h)
  induction l with
  | nil => simp [setPair_nil, dictFind_cons, hb, dictFind_nil]
  | cons kv l ih =>
    obtain ⟨k'', v'⟩ := kv
    rw [setPair_cons]
    by_cases h : Val.beq k k'' = true
    · rw [if_pos h, dictFind_cons, dictFind_cons]
      have : Val.beq k' k'' = false := by
        rw [Bool.eq_false_iff]; intro h'
        have e1 : k'' = k' := (beq_key_left hk').1 h'
        rw [e1] at h
        exact hne ((beq_key_right hk').1 h)
      simp [this]
    · rw [if_neg h, dictFind_cons, dictFind_cons, ih]

theorem isKey_liveKey : IsKey liveKey := isKey_str _

/-- an item assignment under another key leaves `live` alone -/
theorem liveOf_setItem_ne {e key v s1 : Val} (hkey : key ≠ liveKey) (h : pySetItem e key v = .val s1) :
    liveOf s1 = liveOf e := by
  cases e with
  | dict ee =>
    simp only [pySetItem, Res.val.injEq] at h
    subst h
    simp only [liveOf, dictFind_setPair_ne' isKey_liveKey hkey]
  | tuple l =>
    simp only [pySetItem] at h
    split at h
    · split at h
      · split at h
        · cases h; rfl
        · cases h
      · split at h
        · cases h; rfl
        · cases h
    · cases h
  | none => cases h
  | bool b => cases h
  | num q => cases h
  | str s => cases h

/-- `ac["live"] = v` -/
theorem liveOf_setItem_live {e v s1 : Val} (h : pySetItem e liveKey v = .val s1) : liveOf s1 = v.num? := by
  cases e with
  | dict ee =>
    simp only [pySetItem, Res.val.injEq] at h
    subst h
    simp only [liveOf, dictFind_setPair_self (beq_key_self isKey_liveKey)]
  | tuple l =>
    have : liveKey.int? = none := rfl
    simp only [pySetItem, this] at h
    cases h
  | none => cases h
  | bool b => cases h
  | num q => cases h
  | str s => cases h

/-- `self.acs[ic][key] = v` with a transition `F → F'` of the table predicate -/
theorem rall_setfield_gen {β} {a : List (Val × Val)} {ks : List Val} {self : Val} (F F' : List (Val × Val) → Prop)
    (ic key v : Val) (K : Val → Res β) (P : β → Prop) (hI : InvF a ks F self)
    (htr : ∀ l e s1, F l → dictFind l ic = some e → pySetItem e key v = .val s1 → F' (setPair ic s1 l))
    (hK : ∀ self', InvF a ks F' self' → RAll P (K self')) :
    RAll P (pyGetAttr self "acs" >>= fun x => Py.pyIdx x ic >>= fun y => pySetItem y key v >>= fun s1 =>
      pyGetAttr self "acs" >>= fun x' => pySetItem x' ic s1 >>= fun s2 => pySetAttr self "acs" s2 >>= K) := by
  obtain ⟨l, rfl, hks, hF⟩ := hI
  rw [get_acs, bind_val']
  simp only [Py.pyIdx]
  cases hf : dictFind l ic with
  | none => simp only [bind_exc', rall_exc]
  | some e =>
    simp only [bind_val']
    cases hr : pySetItem e key v with
    | val s1 =>
      rw [bind_val']
      simp only [pySetItem, bind_val', set_acs]
      refine hK _ ⟨_, rfl, ?_, htr l e s1 hF hf hr⟩
      rw [keysOf_setPair, hasKey_of_find hf, if_pos rfl, hks]
    | rte => simp only [bind_rte', rall_rte]
    | exc => simp only [bind_exc', rall_exc]

theorem rall_setfieldF {β} {a : List (Val × Val)} {ks : List Val} {self : Val} {F : List (Val × Val) → Prop}
    (ic key v : Val) (K : Val → Res β) (P : β → Prop) (hI : InvF a ks F self) (hc : Closed ic F)
    (hkey : key ≠ liveKey) (hK : ∀ self', InvF a ks F self' → RAll P (K self')) :
    RAll P (pyGetAttr self "acs" >>= fun x => Py.pyIdx x ic >>= fun y => pySetItem y key v >>= fun s1 =>
      pyGetAttr self "acs" >>= fun x' => pySetItem x' ic s1 >>= fun s2 => pySetAttr self "acs" s2 >>= K) :=
  rall_setfield_gen F F ic key v K P hI (fun l e s1 hF hf hr => hc l e key v s1 hF hf hkey hr) hK

/-- `self.acs[ic]["t" + str(oe)] = v` -/
theorem rall_setfield_tkeyF {β} {a : List (Val × Val)} {ks : List Val} {self : Val} {F : List (Val × Val) → Prop}
    (ic oe v : Val) (K : Val → Res β) (P : β → Prop) (hI : InvF a ks F self) (hc : Closed ic F)
    (hK : ∀ self', InvF a ks F self' → RAll P (K self')) :
    RAll P (pyGetAttr self "acs" >>= fun x => Py.pyIdx x ic >>= fun y => pyStr oe >>= fun so =>
      pyAdd (Val.str ['t']) so >>= fun key => pySetItem y key v >>= fun s1 =>
      pyGetAttr self "acs" >>= fun x' => pySetItem x' ic s1 >>= fun s2 => pySetAttr self "acs" s2 >>= K) := by
  obtain ⟨l, rfl, hks, hF⟩ := hI
  rw [get_acs, bind_val']
  simp only [Py.pyIdx]
  cases hf : dictFind l ic with
  | none => simp only [bind_exc', rall_exc]
  | some e =>
    simp only [bind_val']
    refine rall_bind.2 (fun so _ => ?_)
    refine rall_bind.2 (fun key hkey => ?_)
    have hne : key ≠ liveKey := by
      rintro rfl
      cases so with
      | str z => simp only [pyAdd, Res.val.injEq, Val.str.injEq] at hkey; cases hkey
      | none => cases hkey
      | bool b => cases hkey
      | num q => cases hkey
      | tuple l => cases hkey
      | dict l => cases hkey
    cases hr : pySetItem e key v with
    | val s1 =>
      rw [bind_val']
      simp only [pySetItem, bind_val', set_acs]
      refine hK _ ⟨_, rfl, ?_, hc l e key v s1 hF hf hne hr⟩
      rw [keysOf_setPair, hasKey_of_find hf, if_pos rfl, hks]
    | rte => simp only [bind_rte', rall_rte]
    | exc => simp only [bind_exc', rall_exc]

/-- `self.acs[ic]` (read) under `InvF` -/
theorem rall_idx_acsF {β} {a : List (Val × Val)} {ks : List Val} {self : Val} {F : List (Val × Val) → Prop}
    (ic : Val) (K : Val → Res β) (P : β → Prop) (hI : InvF a ks F self)
    (hK : ∀ y, (∃ l, F l ∧ dictFind l ic = some y) → RAll P (K y)) :
    RAll P (pyGetAttr self "acs" >>= fun x => Py.pyIdx x ic >>= K) := by
  obtain ⟨l, rfl, hks, hF⟩ := hI
  rw [get_acs, bind_val']
  simp only [Py.pyIdx]
  cases hf : dictFind l ic with
  | none => simp only [bind_exc', rall_exc]
  | some e =>
    simp only [bind_val']
    exact hK e ⟨l, hF, hf⟩

theorem pyInt1_isNum {v r : Val} (h : pyInt1 v = .val r) : ∃ q, r = .num q := by
  unfold pyInt1 at h
  split at h
  · cases h; exact ⟨_, rfl⟩
  · cases h; exact ⟨_, rfl⟩
  · split at h
    · cases h; exact ⟨_, rfl⟩
    · cases h
  · split at h
    · cases h; exact ⟨_, rfl⟩
    · cases h
  · cases h

/-- `oe = pms.adsb.oe_flag(msg)` is a number, so the key `oe` is never `"live"` -/
theorem rall_oe_flag {β} (msg : Val) (K : Val → Res β) (P : β → Prop)
    (hK : ∀ oe, oe ≠ liveKey → RAll P (K oe)) : RAll P (Gen.adsb.oe_flag msg >>= K) := by
  refine rall_bind.2 (fun oe hoe => hK oe ?_)
  unfold Gen.adsb.oe_flag at hoe
  rintro rfl
  cases h1 : Gen.py_common.hex2bin msg with
  | val b =>
    rw [h1, bind_val'] at hoe
    cases h2 : pyIdxN b 53 with
    | val c =>
      rw [h2, bind_val'] at hoe
      cases h3 : pyInt1 c with
      | val r =>
        rw [h3] at hoe
        obtain ⟨q, rfl⟩ := pyInt1_isNum h3
        cases hoe
      | rte => rw [h3] at hoe; cases hoe
      | exc => rw [h3] at hoe; cases hoe
    | rte => rw [h2] at hoe; cases hoe
    | exc => rw [h2] at hoe; cases hoe
  | rte => rw [h1] at hoe; cases hoe
  | exc => rw [h1] at hoe; cases hoe


theorem dictFind_setPair_of_find {l : List (Val × Val)} {k e : Val} (v : Val) (h : dictFind l k = some e) :
    dictFind (setPair k v l) k = some v := by
  induction l with
  | nil => simp [dictFind_nil] at h
  | cons kv l ih =>
    obtain ⟨k', v'⟩ := kv
    rw [dictFind_cons] at h
    rw [setPair_cons]
    by_cases hb : Val.beq k k' = true
    · rw [if_pos hb, dictFind_cons, if_pos hb]
    · rw [if_neg hb] at h
      rw [if_neg hb, dictFind_cons, if_neg hb, ih h]

theorem frame_refl (l0 : List (Val × Val)) (ic : Val) : Frame l0 ic l0 := fun _ _ _ => rfl

theorem frame_setPair {l0 l : List (Val × Val)} {ic : Val} (s1 : Val) (h : Frame l0 ic l) :
    Frame l0 ic (setPair ic s1 l) := by
  intro k hk hne
  rw [dictFind_setPair_ne' hk (Ne.symm hne), h k hk hne]

theorem closed_frame (l0 : List (Val × Val)) (ic : Val) : Closed ic (Frame l0 ic) :=
  fun _ _ _ _ s1 hF _ _ _ => frame_setPair s1 hF

/-- after `self.acs[ic]["live"] = int(tv)`: the table agrees with `l0` outside `ic`, and the entry of `ic` has
    `live = int(tv)` -/
def FA1 (l0 : List (Val × Val)) (ic tv : Val) (l : List (Val × Val)) : Prop :=
  Frame l0 ic l ∧ ∃ e lv, dictFind l ic = some e ∧ pyInt1 tv = .val lv ∧ liveOf e = lv.num?

theorem closed_FA1 (l0 : List (Val × Val)) (ic tv : Val) : Closed ic (FA1 l0 ic tv) := by
  rintro l e key v s1 ⟨hfr, e', lv, he', hlv, hl⟩ hf hkey hr
  rw [hf] at he'
  cases he'
  exact ⟨frame_setPair s1 hfr, s1, lv, dictFind_setPair_of_find s1 hf, hlv, (liveOf_setItem_ne hkey hr).trans hl⟩

macro "key_ne" : tactic => `(tactic| first | assumption | (intro h; injection h with h; revert h; decide))

macro "walkF_step" : tactic => `(tactic| first
  | (guard_bind_head pyGetAttr
     first
     | (refine rall_setfieldF _ _ _ _ _ (by assumption) (by assumption) ?hk (fun self' hI' => ?_)
        case hk => key_ne)
     | (refine rall_setfield_tkeyF _ _ _ _ _ (by assumption) (by assumption) (fun self' hI' => ?_))
     | (refine rall_bind_any (fun _ => ?_)))
  | (guard_bind_head Gen.adsb.oe_flag; refine rall_oe_flag _ _ _ (fun oe hoe => ?_))
  | (guard_head Bind.bind; refine rall_bind_any (fun _ => ?_))
  | (guard_head Pure.pure; refine rall_pure.2 ⟨_, rfl, by assumption⟩)
  | (guard_head ite; refine rall_ite.2 ⟨fun _ => ?_, fun _ => ?_⟩)
  | (guard_head Continue.runK; refine rall_runK _ _ _ ?_ (fun _ => ?_))
  | rall_beta)

/-- one pass of the ADS-B loop body on `(tv, msg)` from the table `l0`: if it returns, `common.icao` gave an address
    `ic`, the key list is `addKey (keysOf l0) ic`, every entry under another key is untouched and the entry of `ic` has
    `live = int(tv)` -/
theorem adsbBody_live (a l0 : List (Val × Val)) (tv msg : Val)
    (s : Val × Val × Val × Val × Val × Val × Val × Val × Val × Val × Val × Val × Val × Val × Val × Val × Val × Val)
    (hs : s.1 = mk a l0) :
    RAll (fun r => ∃ ic, Gen.py_common.icao msg = .val ic ∧
        YieldInv (InvF a (addKey (keysOf l0) ic) (FA1 l0 ic tv)) (·.1) r)
      (adsbBody (.tuple [tv, msg]) s) := by
  unfold adsbBody
  extract_lets self0
  have hs0 : self0 = mk a l0 := hs
  clear_value self0
  subst hs0
  clear hs
  have h0 : pyIdxN (.tuple [tv, msg]) 0 = .val tv := rfl
  have h1 : pyIdxN (.tuple [tv, msg]) 1 = .val msg := rfl
  refine rall_bind_any (fun _ => ?_)
  rw [h0, bind_val', h1, bind_val']
  refine rall_bind.2 (fun ic hic => ?_)
  refine rall_mono (P := YieldInv (InvF a (addKey (keysOf l0) ic) (FA1 l0 ic tv)) (·.1)) ?_
    (fun r hr => ⟨ic, hic, hr⟩)
  refine rall_bind_any (fun tc => ?_)
  rw [get_acs, bind_val', pyNotIn_dict, bind_val', pyTruth_bool]
  have hc0 := closed_frame l0 ic
  have hc1 := closed_FA1 l0 ic tv
  adsb_tail (InvF a (addKey (keysOf l0) ic) (FA1 l0 ic tv)) with walkF_step
  have hJ1 : ∀ r self, InvF a (addKey (keysOf l0) ic) (Frame l0 ic) self →
      RAll (YieldInv (InvF a (addKey (keysOf l0) ic) (FA1 l0 ic tv)) (·.1)) (J1 r self) := by
    intro r self hI
    simp -zeta only [J1]
    iterate 3 walkF_step
    refine rall_bind.2 (fun lv hlv => ?_)
    refine rall_setfield_gen (Frame l0 ic) (FA1 l0 ic tv) _ _ _ _ _ (by assumption) ?_ (fun self' hI' => ?_)
    · intro l e s1 hF hf hr
      exact ⟨frame_setPair s1 hF, s1, lv, dictFind_setPair_of_find s1 hf, hlv, liveOf_setItem_live hr⟩
    repeat' (first | walkF_step | (apply hJ2; assumption))
  clear_value J1
  have hany : (keysOf l0).any (fun k => Val.beq ic k) = hasKey l0 ic := by rw [hasKey_eq_any]
  by_cases hk : hasKey l0 ic = true
  · rw [hk]
    simp only [Bool.not_true, Bool.false_eq_true, if_false]
    refine hJ1 _ _ ⟨l0, rfl, ?_, frame_refl l0 ic⟩
    unfold addKey
    rw [hany, hk, if_pos rfl]
  · have hk' : hasKey l0 ic = false := by simpa using hk
    rw [hk']
    simp only [Bool.not_false, if_true, bind_val', pySetItem, set_acs]
    refine hJ1 _ _ ⟨_, rfl, ?_, frame_setPair _ (frame_refl l0 ic)⟩
    unfold addKey
    rw [hany, hk', keysOf_setPair, hk']


/-- the `live` stamp filed under the key `k` (if there is an entry with a numeric `live`) -/
def liveAt (l : List (Val × Val)) (k : Val) : Option Rat :=
  match dictFind l k with
  | some e => liveOf e
  | none => none

theorem liveAt_of_find {l : List (Val × Val)} {k e : Val} (h : dictFind l k = some e) : liveAt l k = liveOf e := by
  simp only [liveAt, h]

theorem liveAt_frame {l0 l : List (Val × Val)} {ic k : Val} (h : Frame l0 ic l) (hk : IsKey k) (hne : k ≠ ic) :
    liveAt l k = liveAt l0 k := by
  simp only [liveAt, h k hk hne]

theorem liveOf_of_idx {e ov : Val} (h : Py.pyIdx e liveKey = .val ov) : liveOf e = ov.num? := by
  cases e with
  | dict ee =>
    simp only [Py.pyIdx] at h
    simp only [liveOf]
    cases hd : dictFind ee liveKey with
    | none => rw [hd] at h; cases h
    | some x => rw [hd] at h; cases h; rfl
  | none => cases h
  | bool b => cases h
  | num q => cases h
  | str s => cases h
  | tuple l => cases h

theorem pyMax2_val {x y r : Val} (h : pyMax2 x y = .val r) :
    ∃ p q, x.num? = some p ∧ y.num? = some q ∧ r.num? = some (max p q) := by
  unfold pyMax2 at h
  cases hx : x.num? with
  | none => rw [hx] at h; cases h
  | some p =>
    cases hy : y.num? with
    | none => rw [hx, hy] at h; cases h
    | some q =>
      rw [hx, hy] at h
      simp only [Res.val.injEq] at h
      refine ⟨p, q, rfl, rfl, ?_⟩
      by_cases hpq : p < q
      · rw [if_pos hpq] at h; rw [← h, hy, max_eq_right (le_of_lt hpq)]
      · rw [if_neg hpq] at h; rw [← h, hx, max_eq_left (not_lt.1 hpq)]

/-- Comm-B pass, before `live` is updated: only the entry of `ic` has changed, and its `live` is the old one -/
def FC0 (l0 : List (Val × Val)) (ic : Val) (l : List (Val × Val)) : Prop :=
  Frame l0 ic l ∧ hasKey l ic = true ∧ liveAt l ic = liveAt l0 ic

/-- Comm-B pass, after `self.acs[ic]["live"] = max(self.acs[ic]["live"], int(tv))` -/
def FC1 (l0 : List (Val × Val)) (ic tv : Val) (l : List (Val × Val)) : Prop :=
  Frame l0 ic l ∧ ∃ x nv y, liveAt l0 ic = some x ∧ pyInt1 tv = .val nv ∧ nv.num? = some y ∧
    liveAt l ic = some (max x y)

theorem closed_FC0 (l0 : List (Val × Val)) (ic : Val) : Closed ic (FC0 l0 ic) := by
  rintro l e key v s1 ⟨hfr, hk, hl⟩ hf hkey hr
  refine ⟨frame_setPair s1 hfr, hasKey_of_find (dictFind_setPair_of_find s1 hf), ?_⟩
  rw [liveAt_of_find (dictFind_setPair_of_find s1 hf), liveOf_setItem_ne hkey hr, ← liveAt_of_find hf, hl]

theorem closed_FC1 (l0 : List (Val × Val)) (ic tv : Val) : Closed ic (FC1 l0 ic tv) := by
  rintro l e key v s1 ⟨hfr, x, nv, y, h1, h2, h3, hl⟩ hf hkey hr
  refine ⟨frame_setPair s1 hfr, x, nv, y, h1, h2, h3, ?_⟩
  rw [liveAt_of_find (dictFind_setPair_of_find s1 hf), liveOf_setItem_ne hkey hr, ← liveAt_of_find hf, hl]

/-- what one pass of the Comm-B loop body on `(tv, msg)` does to the table `l0` -/
def CommbPost (l0 : List (Val × Val)) (tv msg : Val) (l' : List (Val × Val)) : Prop :=
  ∃ ic, Gen.py_common.icao msg = .val ic ∧ Frame l0 ic l' ∧
    ((hasKey l0 ic = false ∧ l' = l0) ∨
     (∃ x nv y, liveAt l0 ic = some x ∧ pyInt1 tv = .val nv ∧ nv.num? = some y ∧ liveAt l' ic = some (max x y)))

/-- one pass of the Comm-B loop body on `(tv, msg)` from the table `l0`: if it returns, the key list is unchanged, every
    entry under a key other than the message's address `ic` is untouched, and either `ic` is unknown and nothing has
    changed at all, or the entry of `ic` now has `live = max(old live, int(tv))` -/
theorem commbBody_live (a l0 : List (Val × Val)) (tv msg : Val)
    (s : Val × Val × Val × Val × Val × Val × Val × Val × Val × Val × Val × Val × Val × Val × Val × Val)
    (hs : s.1 = mk a l0) :
    RAll (YieldInv (InvF a (keysOf l0) (CommbPost l0 tv msg)) (·.1)) (commbBody (.tuple [tv, msg]) s) := by
  unfold commbBody
  extract_lets self0
  have hs0 : self0 = mk a l0 := hs
  clear_value self0
  subst hs0
  clear hs
  have h0 : pyIdxN (.tuple [tv, msg]) 0 = .val tv := rfl
  have h1 : pyIdxN (.tuple [tv, msg]) 1 = .val msg := rfl
  refine rall_bind_any (fun _ => ?_)
  rw [h0, bind_val', h1, bind_val']
  refine rall_bind.2 (fun ic hic => ?_)
  refine rall_bind.2 (fun x hx => ?_)
  rw [get_acs] at hx
  cases hx
  rw [pyNotIn_dict, bind_val', pyTruth_bool]
  by_cases hk : hasKey l0 ic = true
  · rw [hk, Bool.not_true, if_neg (by decide)]
    have hc0 := closed_FC0 l0 ic
    have hc1 := closed_FC1 l0 ic tv
    have hI0 : InvF a (keysOf l0) (FC0 l0 ic) (mk a l0) := ⟨l0, rfl, rfl, frame_refl l0 ic, hk, rfl⟩
    refine rall_mono (P := YieldInv (InvF a (keysOf l0) (FC1 l0 ic tv)) (·.1)) ?_ ?_
    swap
    · rintro r ⟨s', rfl, l', h1, h2, hfr, hrest⟩
      exact ⟨s', rfl, l', h1, h2, ic, hic, hfr, Or.inr hrest⟩
    iterate 6 walkF_step
    refine rall_idx_acsF _ _ _ (by assumption) (fun e he => ?_)
    obtain ⟨l, ⟨hfr, hkl, hl⟩, hfe⟩ := he
    refine rall_bind.2 (fun ov hov => ?_)
    refine rall_bind.2 (fun nv hnv => ?_)
    refine rall_bind.2 (fun s181 hmax => ?_)
    obtain ⟨p, q, hp, hq, hr⟩ := pyMax2_val hmax
    have hold : liveAt l0 ic = some p := by
      rw [← hl, liveAt_of_find hfe, liveOf_of_idx hov, hp]
    refine rall_setfield_gen (FC0 l0 ic) (FC1 l0 ic tv) _ _ _ _ _ (by assumption) ?_ (fun self' hI' => ?_)
    · rintro l2 e2 s1 ⟨hfr2, _, _⟩ hf2 hr2
      refine ⟨frame_setPair s1 hfr2, p, nv, q, hold, hnv, hq, ?_⟩
      rw [liveAt_of_find (dictFind_setPair_of_find s1 hf2), liveOf_setItem_live hr2, hr]
    repeat' walkF_step
  · have hk' : hasKey l0 ic = false := by simpa using hk
    rw [hk', Bool.not_false, if_pos rfl]
    exact rall_pure.2 ⟨_, rfl, l0, rfl, rfl, ic, hic, frame_refl l0 ic, Or.inl ⟨hk', rfl⟩⟩


/-! #### the two loops as chains of per-message relations on the table -/

/-- what one ADS-B message `(q, m)` (time stamp `q`, hex frame `m`) does to the table: the key list gains the address if
    it is new, entries under other keys are untouched, the entry of the address has `live = int(q)` -/
def AdsbStepRel (p : Rat × Msg) (l l' : List (Val × Val)) : Prop :=
  keysOf l' = addKey (keysOf l) (icaoKey p.2) ∧ Frame l (icaoKey p.2) l' ∧
    liveAt l' (icaoKey p.2) = some (PyModeS.pyInt p.1 : Rat)

/-- what one Comm-B message `(q, m)` does to the table: same key list, entries under other keys untouched; an unknown
    address changes nothing at all, a known one gets `live = max(live, int(q))` -/
def CommbStepRel (p : Rat × Msg) (l l' : List (Val × Val)) : Prop :=
  keysOf l' = keysOf l ∧ Frame l (icaoKey p.2) l' ∧
    ((hasKey l (icaoKey p.2) = false ∧ l' = l) ∨
     (∃ x, liveAt l (icaoKey p.2) = some x ∧ liveAt l' (icaoKey p.2) = some (max x (PyModeS.pyInt p.1 : Rat))))

/-- `l'` is reached from `l` by one `R`-step per message, in order -/
def relChain (R : Rat × Msg → List (Val × Val) → List (Val × Val) → Prop) :
    List (Rat × Msg) → List (Val × Val) → List (Val × Val) → Prop
  | [], l, l' => l' = l
  | p :: ps, l, l' => ∃ l1, R p l l1 ∧ relChain R ps l1 l'

/-- a `[t, msg]` item with a numeric time stamp and a hex frame -/
def encMsg (p : Rat × Msg) : Val := encPair (.num p.1, .str p.2)

theorem num?_pyInt1 {q : Rat} {lv : Val} (h : pyInt1 (.num q) = .val lv) :
    lv.num? = some (PyModeS.pyInt q : Rat) := by
  rw [pyInt1_num] at h
  cases h
  rfl

/-- **the ADS-B loop, values**: on `(time stamp, hex frame)` items the table after the loop is reached from the table
    before by one `AdsbStepRel` per message -/
theorem adsbLoop_rel (a : List (Val × Val)) (pairs : List (Rat × Msg))
    (hhex : ∀ p ∈ pairs, IsHex p.2 ∧ 6 ≤ p.2.length) :
    ∀ (l0 : List (Val × Val))
      (s : Val × Val × Val × Val × Val × Val × Val × Val × Val × Val × Val × Val × Val × Val × Val × Val × Val × Val),
    s.1 = mk a l0 →
    RAll (fun s' => ∃ l', s'.1 = mk a l' ∧ relChain AdsbStepRel pairs l0 l')
      (forIn (pairs.map encMsg) s adsbBody) := by
  induction pairs with
  | nil => intro l0 s hs; exact rall_val.2 ⟨l0, hs, rfl⟩
  | cons p pairs ih =>
    intro l0 s hs
    rw [List.map_cons, List.forIn_cons]
    refine rall_bind.2 (fun r hr => ?_)
    have hp := hhex p (by simp)
    obtain ⟨ic, hic, s', rfl, l1, hs', hk1, hfr, e, lv, hfe, hlv, hle⟩ :=
      rall_elim (adsbBody_live a l0 (.num p.1) (.str p.2) s hs) hr
    rw [icao_tie p.2 hp.1 hp.2] at hic
    injection hic with hic
    have hic' : ic = icaoKey p.2 := hic.symm
    subst hic'
    refine rall_mono (ih (fun p' hp' => hhex p' (List.mem_cons_of_mem _ hp')) l1 s' hs') ?_
    rintro s'' ⟨l', hs'', hch⟩
    refine ⟨l', hs'', l1, ⟨hk1, hfr, ?_⟩, hch⟩
    rw [liveAt_of_find hfe, hle, num?_pyInt1 hlv]

/-- **the Comm-B loop, values** -/
theorem commbLoop_rel (a : List (Val × Val)) (pairs : List (Rat × Msg))
    (hhex : ∀ p ∈ pairs, IsHex p.2 ∧ 6 ≤ p.2.length) :
    ∀ (l0 : List (Val × Val))
      (s : Val × Val × Val × Val × Val × Val × Val × Val × Val × Val × Val × Val × Val × Val × Val × Val),
    s.1 = mk a l0 →
    RAll (fun s' => ∃ l', s'.1 = mk a l' ∧ relChain CommbStepRel pairs l0 l')
      (forIn (pairs.map encMsg) s commbBody) := by
  induction pairs with
  | nil => intro l0 s hs; exact rall_val.2 ⟨l0, hs, rfl⟩
  | cons p pairs ih =>
    intro l0 s hs
    rw [List.map_cons, List.forIn_cons]
    refine rall_bind.2 (fun r hr => ?_)
    have hp := hhex p (by simp)
    obtain ⟨s', rfl, l1, hs', hk1, ic, hic, hfr, hcase⟩ :=
      rall_elim (commbBody_live a l0 (.num p.1) (.str p.2) s hs) hr
    rw [icao_tie p.2 hp.1 hp.2] at hic
    injection hic with hic
    have hic' : ic = icaoKey p.2 := hic.symm
    subst hic'
    refine rall_mono (ih (fun p' hp' => hhex p' (List.mem_cons_of_mem _ hp')) l1 s' hs') ?_
    rintro s'' ⟨l', hs'', hch⟩
    refine ⟨l', hs'', l1, ⟨hk1, hfr, ?_⟩, hch⟩
    rcases hcase with h | ⟨x, nv, y, hx, hnv, hy, hl⟩
    · exact Or.inl h
    · refine Or.inr ⟨x, hx, ?_⟩
      rw [num?_pyInt1 hnv] at hy
      injection hy with hy
      rw [hl, hy]


/-! #### consequences of the chains: key lists and bounds on `live` -/

theorem adsbChain_keys : ∀ (ps : List (Rat × Msg)) (l l' : List (Val × Val)), relChain AdsbStepRel ps l l' →
    keysOf l' = (ps.map (fun p => icaoKey p.2)).foldl addKey (keysOf l) := by
  intro ps
  induction ps with
  | nil => intro l l' h; rw [show l' = l from h]; rfl
  | cons p ps ih =>
    rintro l l' ⟨l1, ⟨hk, _, _⟩, hch⟩
    rw [ih l1 l' hch, hk]
    rfl

theorem commbChain_keys : ∀ (ps : List (Rat × Msg)) (l l' : List (Val × Val)), relChain CommbStepRel ps l l' →
    keysOf l' = keysOf l := by
  intro ps
  induction ps with
  | nil => intro l l' h; rw [show l' = l from h]
  | cons p ps ih =>
    rintro l l' ⟨l1, ⟨hk, _, _⟩, hch⟩
    rw [ih l1 l' hch, hk]

/-- every numeric `live` filed under `k` is at most `L` -/
def LiveLe (k : Val) (L : Rat) (l : List (Val × Val)) : Prop := ∀ q, liveAt l k = some q → q ≤ L

/-- `k` is in the table with a numeric `live ≥ G` -/
def LiveGe (k : Val) (G : Rat) (l : List (Val × Val)) : Prop := ∃ q, liveAt l k = some q ∧ G ≤ q

theorem adsbStep_liveLe {k : Val} (hk : IsKey k) {L : Rat} {p : Rat × Msg} {l l' : List (Val × Val)}
    (h : AdsbStepRel p l l') (hl : LiveLe k L l) (hp : icaoKey p.2 = k → (PyModeS.pyInt p.1 : Rat) ≤ L) :
    LiveLe k L l' := by
  obtain ⟨_, hfr, hlive⟩ := h
  intro q hq
  by_cases hkk : k = icaoKey p.2
  · subst hkk
    rw [hlive] at hq
    injection hq with hq
    rw [← hq]; exact hp rfl
  · rw [liveAt_frame hfr hk hkk] at hq
    exact hl q hq

theorem commbStep_liveLe {k : Val} (hk : IsKey k) {L : Rat} {p : Rat × Msg} {l l' : List (Val × Val)}
    (h : CommbStepRel p l l') (hl : LiveLe k L l) (hp : icaoKey p.2 = k → (PyModeS.pyInt p.1 : Rat) ≤ L) :
    LiveLe k L l' := by
  obtain ⟨_, hfr, hcase⟩ := h
  intro q hq
  by_cases hkk : k = icaoKey p.2
  · subst hkk
    rcases hcase with ⟨_, rfl⟩ | ⟨x, hx, hl'⟩
    · exact hl q hq
    · rw [hl'] at hq
      injection hq with hq
      rw [← hq]
      exact max_le (hl x hx) (hp rfl)
  · rw [liveAt_frame hfr hk hkk] at hq
    exact hl q hq

theorem adsbChain_liveLe {k : Val} (hk : IsKey k) {L : Rat} : ∀ (ps : List (Rat × Msg)) (l l' : List (Val × Val)),
    relChain AdsbStepRel ps l l' → LiveLe k L l →
    (∀ p ∈ ps, icaoKey p.2 = k → (PyModeS.pyInt p.1 : Rat) ≤ L) → LiveLe k L l' := by
  intro ps
  induction ps with
  | nil => intro l l' h hl _; rw [show l' = l from h]; exact hl
  | cons p ps ih =>
    rintro l l' ⟨l1, hstep, hch⟩ hl hps
    exact ih l1 l' hch (adsbStep_liveLe hk hstep hl (hps p (by simp)))
      (fun p' hp' => hps p' (List.mem_cons_of_mem _ hp'))

theorem commbChain_liveLe {k : Val} (hk : IsKey k) {L : Rat} : ∀ (ps : List (Rat × Msg)) (l l' : List (Val × Val)),
    relChain CommbStepRel ps l l' → LiveLe k L l →
    (∀ p ∈ ps, icaoKey p.2 = k → (PyModeS.pyInt p.1 : Rat) ≤ L) → LiveLe k L l' := by
  intro ps
  induction ps with
  | nil => intro l l' h hl _; rw [show l' = l from h]; exact hl
  | cons p ps ih =>
    rintro l l' ⟨l1, hstep, hch⟩ hl hps
    exact ih l1 l' hch (commbStep_liveLe hk hstep hl (hps p (by simp)))
      (fun p' hp' => hps p' (List.mem_cons_of_mem _ hp'))

theorem adsbStep_liveGe_self {p : Rat × Msg} {l l' : List (Val × Val)} (h : AdsbStepRel p l l') :
    LiveGe (icaoKey p.2) (PyModeS.pyInt p.1 : Rat) l' := ⟨_, h.2.2, le_refl _⟩

theorem adsbStep_liveGe {k : Val} (hk : IsKey k) {G : Rat} {p : Rat × Msg} {l l' : List (Val × Val)}
    (h : AdsbStepRel p l l') (hl : LiveGe k G l) (hp : icaoKey p.2 = k → G ≤ (PyModeS.pyInt p.1 : Rat)) :
    LiveGe k G l' := by
  obtain ⟨_, hfr, hlive⟩ := h
  by_cases hkk : k = icaoKey p.2
  · subst hkk
    exact ⟨_, hlive, hp rfl⟩
  · obtain ⟨q, hq, hG⟩ := hl
    exact ⟨q, by rw [liveAt_frame hfr hk hkk, hq], hG⟩

theorem commbStep_liveGe {k : Val} (hk : IsKey k) {G : Rat} {p : Rat × Msg} {l l' : List (Val × Val)}
    (h : CommbStepRel p l l') (hl : LiveGe k G l) : LiveGe k G l' := by
  obtain ⟨_, hfr, hcase⟩ := h
  obtain ⟨q, hq, hG⟩ := hl
  by_cases hkk : k = icaoKey p.2
  · subst hkk
    rcases hcase with ⟨_, rfl⟩ | ⟨x, hx, hl'⟩
    · exact ⟨q, hq, hG⟩
    · rw [hq] at hx
      injection hx with hx
      exact ⟨_, hl', le_trans hG (hx ▸ le_max_left _ _)⟩
  · exact ⟨q, by rw [liveAt_frame hfr hk hkk, hq], hG⟩

theorem adsbChain_liveGe {k : Val} (hk : IsKey k) {G : Rat} : ∀ (ps : List (Rat × Msg)) (l l' : List (Val × Val)),
    relChain AdsbStepRel ps l l' → LiveGe k G l →
    (∀ p ∈ ps, icaoKey p.2 = k → G ≤ (PyModeS.pyInt p.1 : Rat)) → LiveGe k G l' := by
  intro ps
  induction ps with
  | nil => intro l l' h hl _; rw [show l' = l from h]; exact hl
  | cons p ps ih =>
    rintro l l' ⟨l1, hstep, hch⟩ hl hps
    exact ih l1 l' hch (adsbStep_liveGe hk hstep hl (hps p (by simp)))
      (fun p' hp' => hps p' (List.mem_cons_of_mem _ hp'))

theorem commbChain_liveGe {k : Val} (hk : IsKey k) {G : Rat} : ∀ (ps : List (Rat × Msg)) (l l' : List (Val × Val)),
    relChain CommbStepRel ps l l' → LiveGe k G l → LiveGe k G l' := by
  intro ps
  induction ps with
  | nil => intro l l' h hl; rw [show l' = l from h]; exact hl
  | cons p ps ih =>
    rintro l l' ⟨l1, hstep, hch⟩ hl
    exact ih l1 l' hch (commbStep_liveGe hk hstep hl)

theorem relChain_append {R : Rat × Msg → List (Val × Val) → List (Val × Val) → Prop} :
    ∀ (ps qs : List (Rat × Msg)) (l l' : List (Val × Val)), relChain R (ps ++ qs) l l' →
    ∃ l1, relChain R ps l l1 ∧ relChain R qs l1 l' := by
  intro ps
  induction ps with
  | nil => intro qs l l' h; exact ⟨l, rfl, h⟩
  | cons p ps ih =>
    rintro qs l l' ⟨l1, hstep, hch⟩
    obtain ⟨l2, h1, h2⟩ := ih qs l1 l' hch
    exact ⟨l2, ⟨l1, hstep, h1⟩, h2⟩

/-! #### the clean-up, by key -/

theorem dictFind_iff_mem {l : List (Val × Val)} (hK : KeysOK l) {k : Val} (hk : IsKey k) (e : Val) :
    dictFind l k = some e ↔ (k, e) ∈ l := by
  induction l with
  | nil => simp [dictFind_nil]
  | cons kv l ih =>
    obtain ⟨k', v⟩ := kv
    have hK' : KeysOK l := keysOK_drop (done := []) hK
    have hnd : k' ∉ keysOf l := (List.nodup_cons.1 hK.2).1
    rw [dictFind_cons]
    by_cases hb : Val.beq k k' = true
    · have hkk : k' = k := (beq_key_left hk).1 hb
      subst hkk
      rw [if_pos hb]
      constructor
      · intro h; cases h; exact List.mem_cons_self
      · intro h
        rcases List.mem_cons.1 h with h | h
        · cases h; rfl
        · exact absurd (List.mem_map_of_mem (f := (·.1)) h) hnd
    · rw [if_neg hb, ih hK']
      constructor
      · exact List.mem_cons_of_mem _
      · intro h
        rcases List.mem_cons.1 h with h | h
        · cases h; exact absurd (beq_key_self hk) hb
        · exact h

theorem keysOK_evict {l : List (Val × Val)} (hK : KeysOK l) (t timeout : Rat) : KeysOK (evict t timeout l) := by
  refine ⟨fun k hk => hK.1 k (keysOf_evict_subset t timeout l k hk), ?_⟩
  exact List.Nodup.sublist (List.Sublist.map _ (evict_sublist t timeout l)) hK.2

/-- silent for too long: not listed after the clean-up -/
theorem absent_of_liveLe {mid : List (Val × Val)} (hK : KeysOK mid) (hlive : ∀ kv ∈ mid, ∃ q, liveOf kv.2 = some q)
    {k : Val} (hk : IsKey k) {L t timeout : Rat} (hL : LiveLe k L mid) (hsilent : t - L > timeout) :
    k ∉ keysOf (evict t timeout mid) := by
  intro hmem
  obtain ⟨kv, hkv, rfl⟩ := List.mem_map.1 hmem
  obtain ⟨k, e⟩ := kv
  have hin : (k, e) ∈ mid := List.mem_of_mem_filter hkv
  obtain ⟨q, hq⟩ := hlive (k, e) hin
  have hfind := (dictFind_iff_mem hK hk e).2 hin
  have hle := hL q (by rw [liveAt_of_find hfind]; exact hq)
  have := ((mem_evict (kv := (k, e)) hq).1 hkv).2
  linarith

/-- heard recently enough: listed after the clean-up, with the same `live` -/
theorem present_of_liveGe {mid : List (Val × Val)} (hK : KeysOK mid) {k : Val} (hk : IsKey k) {G t timeout : Rat}
    (hG : LiveGe k G mid) (hrecent : t - G ≤ timeout) :
    k ∈ keysOf (evict t timeout mid) ∧ LiveGe k G (evict t timeout mid) := by
  obtain ⟨q, hq, hGq⟩ := hG
  unfold liveAt at hq
  cases hf : dictFind mid k with
  | none => rw [hf] at hq; cases hq
  | some e =>
    rw [hf] at hq
    have hin : (k, e) ∈ mid := (dictFind_iff_mem hK hk e).1 hf
    have hin' : (k, e) ∈ evict t timeout mid := (mem_evict (kv := (k, e)) hq).2 ⟨hin, by linarith⟩
    refine ⟨List.mem_map_of_mem (f := (·.1)) hin', q, ?_, hGq⟩
    rw [liveAt_of_find ((dictFind_iff_mem (keysOK_evict hK t timeout) hk e).2 hin')]
    exact hq


/-! ### `Decode.process_raw` end to end, with the `live` stamps -/

/-- the time stamps / frames of a batch as the Python lists handed to `process_raw` -/
def tsOf (ps : List (Rat × Msg)) : Val := .tuple (ps.map (fun p => .num p.1))
def msgsOf (ps : List (Rat × Msg)) : Val := .tuple (ps.map (fun p => .str p.2))

theorem pyZip_batch (ps : List (Rat × Msg)) : pyZip (tsOf ps) (msgsOf ps) = .val (.tuple (ps.map encMsg)) := by
  unfold tsOf msgsOf
  rw [pyZip_tuple, List.zip_map', List.map_map]
  rfl

/-- **`Decode.process_raw` (generated definition), end to end, with values.**  Batches of `(time stamp, hex frame)`
    pairs for both loops, `tnow = t`.  If the call returns, there are tables `l1` (after the ADS-B loop) and `mid` (after
    the Comm-B loop) with: `l1` reached from the old table by one `AdsbStepRel` per ADS-B message, `mid` reached from
    `l1` by one `CommbStepRel` per Comm-B message, `mid` well formed with a numeric `live` everywhere, and the result
    is `(self', None)`, `self'` = `attrs` with `t := tnow` and `acs := evict t timeout mid`. -/
theorem process_raw_rel (attrs acs : List (Val × Val)) (adsb commb : List (Rat × Msg)) (t timeout : Rat) (r : Val)
    (hacs : dictFind attrs (attrKey "acs") = some (.dict acs)) (hK : KeysOK acs)
    (hto : dictFind attrs (attrKey "cache_timeout") = some (.num timeout))
    (hadsb : ∀ p ∈ adsb, IsHex p.2 ∧ 6 ≤ p.2.length) (hcommb : ∀ p ∈ commb, IsHex p.2 ∧ 6 ≤ p.2.length)
    (h : Gen.decode.Decode_process_raw (.dict attrs) (tsOf adsb) (msgsOf adsb) (tsOf commb) (msgsOf commb) (.num t) =
      .val r) :
    ∃ l1 mid : List (Val × Val),
      relChain AdsbStepRel adsb acs l1 ∧ relChain CommbStepRel commb l1 mid ∧ KeysOK mid ∧
      (∀ kv ∈ mid, ∃ q, liveOf kv.2 = some q) ∧
      r = .tuple [mk (setPair (attrKey "t") (.num t) attrs) (evict t timeout mid), .none] := by
  rw [process_raw_decomp] at h
  have hpyIs : pyIs (.num t) .none = .val (.bool false) := rfl
  rw [hpyIs, bind_val', pyTruth_bool, if_neg (by decide)] at h
  generalize ha' : setPair (attrKey "t") (.num t) attrs = a' at *
  have hacs' : dictFind a' (attrKey "acs") = some (.dict acs) := by
    rw [← ha', dictFind_setPair_ne (isKey_attr "t") (isKey_attr "acs") (attrKey_ne (by decide)), hacs]
  have ht' : dictFind a' (attrKey "t") = some (.num t) := by
    rw [← ha', dictFind_setPair_self (beq_key_self (isKey_attr "t"))]
  have hto' : dictFind a' (attrKey "cache_timeout") = some (.num timeout) := by
    rw [← ha', dictFind_setPair_ne (isKey_attr "t") (isKey_attr "cache_timeout") (attrKey_ne (by decide)), hto]
  have hset : pySetAttr (.dict attrs) "t" (.num t) = .val (mk a' acs) := by
    rw [← mk_of_find hacs', ← ha']; rfl
  refine rall_elim (P := fun r => ∃ l1 mid : List (Val × Val),
      relChain AdsbStepRel adsb acs l1 ∧ relChain CommbStepRel commb l1 mid ∧ KeysOK mid ∧
      (∀ kv ∈ mid, ∃ q, liveOf kv.2 = some q) ∧
      r = .tuple [mk a' (evict t timeout mid), .none]) ?_ h
  unfold phases
  have hit : ∀ l, pyIter (.tuple l) = .val l := fun _ => rfl
  rw [hset, bind_val', pyZip_batch, bind_val', hit, bind_val']
  refine rall_bind.2 (fun s1 hs1 => ?_)
  obtain ⟨l1, hl1, hch1⟩ := rall_elim (adsbLoop_rel a' adsb hadsb acs _ rfl) hs1
  rw [pyZip_batch, bind_val', hit, bind_val']
  refine rall_bind.2 (fun s2 hs2 => ?_)
  obtain ⟨l2, hl2, hch2⟩ := rall_elim (commbLoop_rel a' commb hcommb l1 _ hl1) hs2
  have hK2 : KeysOK l2 := by
    rw [keysOK_iff, commbChain_keys commb l1 l2 hch2, adsbChain_keys adsb acs l1 hch1]
    exact keysOKl_foldl (fun ic hic => by
      obtain ⟨p, _, rfl⟩ := List.mem_map.1 hic
      exact isKey_icaoKey p.2) hK
  rw [hl2, get_acs, bind_val']
  have hkeys : pyKeys (.dict l2) = .val (.tuple (keysOf l2)) := rfl
  have hlist : ∀ l, pyList (.tuple l) = .val (.tuple l) := fun _ => rfl
  rw [hkeys, bind_val', hlist, bind_val', hit, bind_val']
  refine rall_bind.2 (fun s3 hs3 => ?_)
  obtain ⟨h31, hlive⟩ := evict_loop_val a' l2 t timeout _ s3 ht' hto' hK2 hs3
  refine rall_bind_any (fun d => ?_)
  refine rall_bind_any (fun c => ?_)
  refine rall_ite.2 ⟨fun _ => ?_, fun _ => ?_⟩
  · exact (rall_exc.2 trivial : RAll _ Res.exc)
  · exact rall_pure.2 ⟨l1, l2, hch1, hch2, hK2, hlive, by rw [h31]⟩

/-- **absent_if_silent, on the generated code.**  `L` bounds every `live` stamp the address `k` can end the loops with:
    its stamp before the call and `int(t)` of every message (ADS-B or Comm-B) of this call filed under `k`.  If
    `tnow - L > cache_timeout`, `k` is not in the table after the call. -/
theorem absent_if_silent_gen (attrs acs : List (Val × Val)) (adsb commb : List (Rat × Msg)) (t timeout : Rat)
    (self' res : Val)
    (hacs : dictFind attrs (attrKey "acs") = some (.dict acs)) (hK : KeysOK acs)
    (hto : dictFind attrs (attrKey "cache_timeout") = some (.num timeout))
    (hadsb : ∀ p ∈ adsb, IsHex p.2 ∧ 6 ≤ p.2.length) (hcommb : ∀ p ∈ commb, IsHex p.2 ∧ 6 ≤ p.2.length)
    (h : Gen.decode.Decode_process_raw (.dict attrs) (tsOf adsb) (msgsOf adsb) (tsOf commb) (msgsOf commb) (.num t) =
      .val (.tuple [self', res]))
    (k : Val) (hk : IsKey k) (L : Rat)
    (hold : ∀ q, liveAt acs k = some q → q ≤ L)
    (ha : ∀ p ∈ adsb, icaoKey p.2 = k → (PyModeS.pyInt p.1 : Rat) ≤ L)
    (hc : ∀ p ∈ commb, icaoKey p.2 = k → (PyModeS.pyInt p.1 : Rat) ≤ L)
    (hsilent : t - L > timeout) :
    ∃ acs', pyGetAttr self' "acs" = .val (.dict acs') ∧ k ∉ keysOf acs' := by
  obtain ⟨l1, mid, h1, h2, hKm, hlive, hr⟩ :=
    process_raw_rel attrs acs adsb commb t timeout _ hacs hK hto hadsb hcommb h
  injection hr with hr
  injection hr with hr _
  subst hr
  refine ⟨_, get_acs _ _, ?_⟩
  exact absent_of_liveLe hKm hlive hk
    (commbChain_liveLe hk commb l1 mid h2 (adsbChain_liveLe hk adsb acs l1 h1 hold ha) hc) hsilent

/-- **absent_after_61, on the generated code**: everything known about `k` -- the stamp stored before the call (`int`
    of a time `≤ T`) and every message of this call filed under `k` -- dates from `T` or earlier, the timeout is 60 s
    and `tnow - T > 61`: `k` is absent after the call. -/
theorem absent_after_61_gen (attrs acs : List (Val × Val)) (adsb commb : List (Rat × Msg)) (t : Rat)
    (self' res : Val)
    (hacs : dictFind attrs (attrKey "acs") = some (.dict acs)) (hK : KeysOK acs)
    (hto : dictFind attrs (attrKey "cache_timeout") = some (.num 60))
    (hadsb : ∀ p ∈ adsb, IsHex p.2 ∧ 6 ≤ p.2.length) (hcommb : ∀ p ∈ commb, IsHex p.2 ∧ 6 ≤ p.2.length)
    (h : Gen.decode.Decode_process_raw (.dict attrs) (tsOf adsb) (msgsOf adsb) (tsOf commb) (msgsOf commb) (.num t) =
      .val (.tuple [self', res]))
    (k : Val) (hk : IsKey k) (T : Rat)
    (hold : ∀ q, liveAt acs k = some q → ∃ t0, t0 ≤ T ∧ q = (PyModeS.pyInt t0 : Rat))
    (ha : ∀ p ∈ adsb, icaoKey p.2 = k → p.1 ≤ T)
    (hc : ∀ p ∈ commb, icaoKey p.2 = k → p.1 ≤ T)
    (hsilent : t - T > 61) :
    ∃ acs', pyGetAttr self' "acs" = .val (.dict acs') ∧ k ∉ keysOf acs' := by
  have hmono : ∀ {x y : Rat}, x ≤ y → (PyModeS.pyInt x : Rat) ≤ (PyModeS.pyInt y : Rat) :=
    fun hxy => by exact_mod_cast Tracker.pyInt_mono hxy
  refine absent_if_silent_gen attrs acs adsb commb t 60 self' res hacs hK hto hadsb hcommb h k hk
    (PyModeS.pyInt T : Rat) ?_ (fun p hp e => hmono (ha p hp e)) (fun p hp e => hmono (hc p hp e)) ?_
  · intro q hq
    obtain ⟨t0, ht0, rfl⟩ := hold q hq
    exact hmono ht0
  · have := (Tracker.pyInt_bounds T).1
    linarith

/-- **listed_if_recent (last message form), on the generated code.**  The ADS-B batch is `pre ++ (q, m) :: post` where
    every later message of the same address has `int(t') ≥ int(q)` (in particular: `(q, m)` is the last message of its
    address, or the batch is sorted by time).  If `tnow - q ≤ 59` and the timeout is 60 s, the address is in the table
    after the call, with a numeric `live ≥ int(q)`. -/
theorem listed_if_recent_gen (attrs acs : List (Val × Val)) (pre post commb : List (Rat × Msg)) (q : Rat) (m : Msg)
    (t : Rat) (self' res : Val)
    (hacs : dictFind attrs (attrKey "acs") = some (.dict acs)) (hK : KeysOK acs)
    (hto : dictFind attrs (attrKey "cache_timeout") = some (.num 60))
    (hadsb : ∀ p ∈ pre ++ (q, m) :: post, IsHex p.2 ∧ 6 ≤ p.2.length)
    (hcommb : ∀ p ∈ commb, IsHex p.2 ∧ 6 ≤ p.2.length)
    (h : Gen.decode.Decode_process_raw (.dict attrs) (tsOf (pre ++ (q, m) :: post)) (msgsOf (pre ++ (q, m) :: post))
      (tsOf commb) (msgsOf commb) (.num t) = .val (.tuple [self', res]))
    (hpost : ∀ p ∈ post, icaoKey p.2 = icaoKey m → (PyModeS.pyInt q : Rat) ≤ (PyModeS.pyInt p.1 : Rat))
    (hrecent : t - q ≤ 59) :
    ∃ acs', pyGetAttr self' "acs" = .val (.dict acs') ∧ icaoKey m ∈ keysOf acs' ∧
      LiveGe (icaoKey m) (PyModeS.pyInt q : Rat) acs' := by
  obtain ⟨l1, mid, h1, h2, hKm, hlive, hr⟩ :=
    process_raw_rel attrs acs (pre ++ (q, m) :: post) commb t 60 _ hacs hK hto hadsb hcommb h
  injection hr with hr
  injection hr with hr _
  subst hr
  obtain ⟨l0, hpre, hrest⟩ := relChain_append pre ((q, m) :: post) acs l1 h1
  have hrest' : ∃ l0', AdsbStepRel (q, m) l0 l0' ∧ relChain AdsbStepRel post l0' l1 := hrest
  obtain ⟨l0', hstep, hpostc⟩ := hrest'
  have hk := isKey_icaoKey m
  have g1 : LiveGe (icaoKey m) (PyModeS.pyInt q : Rat) l1 :=
    adsbChain_liveGe hk post l0' l1 hpostc (adsbStep_liveGe_self hstep) hpost
  have g2 := commbChain_liveGe hk commb l1 mid h2 g1
  have hb := (Tracker.pyInt_bounds q).2
  obtain ⟨hin, hge⟩ := present_of_liveGe (t := t) (timeout := 60) hKm hk g2 (by linarith)
  exact ⟨_, get_acs _ _, hin, hge⟩


/-- **keys_grow_only_by_adsb / stale_removed, on the generated code**: after a call that returns, every key of the table
    was there before or is the address of an ADS-B message of the call (Comm-B messages add nothing), the table is well
    formed, and every listed aircraft has a numeric `live` with `tnow - live ≤ cache_timeout`. -/
theorem keys_and_staleness_gen (attrs acs : List (Val × Val)) (adsb commb : List (Rat × Msg)) (t timeout : Rat)
    (self' res : Val)
    (hacs : dictFind attrs (attrKey "acs") = some (.dict acs)) (hK : KeysOK acs)
    (hto : dictFind attrs (attrKey "cache_timeout") = some (.num timeout))
    (hadsb : ∀ p ∈ adsb, IsHex p.2 ∧ 6 ≤ p.2.length) (hcommb : ∀ p ∈ commb, IsHex p.2 ∧ 6 ≤ p.2.length)
    (h : Gen.decode.Decode_process_raw (.dict attrs) (tsOf adsb) (msgsOf adsb) (tsOf commb) (msgsOf commb) (.num t) =
      .val (.tuple [self', res])) :
    res = .none ∧ ∃ acs', pyGetAttr self' "acs" = .val (.dict acs') ∧ KeysOK acs' ∧
      (∀ k ∈ keysOf acs', k ∈ keysOf acs ∨ ∃ p ∈ adsb, k = icaoKey p.2) ∧
      (∀ kv ∈ acs', ∃ q, liveOf kv.2 = some q ∧ t - q ≤ timeout) := by
  obtain ⟨l1, mid, h1, h2, hKm, hlive, hr⟩ :=
    process_raw_rel attrs acs adsb commb t timeout _ hacs hK hto hadsb hcommb h
  injection hr with hr
  injection hr with hr hr2
  injection hr2 with hr2 _
  subst hr
  refine ⟨hr2, _, get_acs _ _, keysOK_evict hKm t timeout, ?_, ?_⟩
  · intro k hk
    have hk' := keysOf_evict_subset t timeout mid k hk
    rw [commbChain_keys commb l1 mid h2, adsbChain_keys adsb acs l1 h1, mem_foldl_addKey (fun ic hic => by
      obtain ⟨p, _, rfl⟩ := List.mem_map.1 hic
      exact isKey_icaoKey p.2)] at hk'
    rcases hk' with h | h
    · exact Or.inl h
    · obtain ⟨p, hp, rfl⟩ := List.mem_map.1 h
      exact Or.inr ⟨p, hp, rfl⟩
  · intro kv hkv
    obtain ⟨q, hq⟩ := hlive kv (List.mem_of_mem_filter hkv)
    exact ⟨q, hq, evict_fresh t timeout mid kv q hkv hq⟩

/-! audited names (the harness audits the axioms of every theorem whose name ends in `_tie`) -/
theorem process_raw_decomp_tie : type_of% @process_raw_decomp := @process_raw_decomp
theorem evict_loop_spec_tie : type_of% @evict_loop_spec := @evict_loop_spec
theorem evict_loop_val_tie : type_of% @evict_loop_val := @evict_loop_val
theorem evict_absent_tie : type_of% @evict_absent := @evict_absent
theorem evict_absent_nonneg_tie : type_of% @evict_absent_nonneg := @evict_absent_nonneg
theorem evict_present_tie : type_of% @evict_present := @evict_present
theorem commbBody_unknown_hex_tie : type_of% @commbBody_unknown_hex := @commbBody_unknown_hex
theorem commbLoop_keys_tie : type_of% @commbLoop_keys := @commbLoop_keys
theorem commbLoop_keys_val_tie : type_of% @commbLoop_keys_val := @commbLoop_keys_val
theorem adsbLoop_keys_tie : type_of% @adsbLoop_keys := @adsbLoop_keys
theorem adsbBody_live_tie : type_of% @adsbBody_live := @adsbBody_live
theorem commbBody_live_tie : type_of% @commbBody_live := @commbBody_live
theorem process_raw_spec_tie : type_of% @process_raw_spec := @process_raw_spec
theorem process_raw_rel_tie : type_of% @process_raw_rel := @process_raw_rel
theorem absent_if_silent_gen_tie : type_of% @absent_if_silent_gen := @absent_if_silent_gen
theorem absent_after_61_gen_tie : type_of% @absent_after_61_gen := @absent_after_61_gen
theorem listed_if_recent_gen_tie : type_of% @listed_if_recent_gen := @listed_if_recent_gen
theorem keys_and_staleness_gen_tie : type_of% @keys_and_staleness_gen := @keys_and_staleness_gen

end PyModeS.Tie.DecodeDirect
