/-
  Tie for `TcpClient.read_skysense_buffer` (extra/tcpclient.py, property C16): the generated method (a `while` loop
  with fuel over `self.buffer`) against `readSky` / `skyLoop` of Model/Stream.lean.
-/
import PyModeS.Tie.Basic
import PyModeS.Tie.Common
import PyModeS.Generated.Src.tcpclient
import PyModeS.Model.Stream

-- symbolic execution of long generated `do` blocks: generous but finite budget (proof times are seconds)
set_option maxHeartbeats 1000000

set_option linter.style.nameCheck false
set_option linter.unusedSimpArgs false
set_option linter.unusedVariables false
open PyModeS PyModeS.Py PyModeS.CRC PyModeS.Tie
namespace PyModeS.Tie.Sky

/-! ### attribute dictionaries with string keys -/


theorem dictFind_cons (k k' v : Val) (l : List (Val × Val)) :
    dictFind ((k', v) :: l) k = if Val.beq k k' then some v else dictFind l k := by
  unfold dictFind
  rw [List.find?_cons]
  by_cases h : Val.beq k k' = true
  · simp [h]
  · simp [h]

theorem setPair_cons (k k' v v' : Val) (l : List (Val × Val)) :
    setPair k v ((k', v') :: l) = if Val.beq k k' then (k', v) :: l else (k', v') :: setPair k v l := rfl

theorem beq_str_str (a b : List Char) : Val.beq (.str a) (.str b) = (a == b) := by simp [Val.beq]

theorem beq_str_iff (a : List Char) (k : Val) : Val.beq (.str a) k = true ↔ k = .str a := by
  cases k with
  | str b => rw [beq_str_str]; simp only [beq_iff_eq, Val.str.injEq]; exact eq_comm
  | none => simp [Val.beq]
  | bool b => simp [Val.beq]
  | num b => simp [Val.beq]
  | tuple b => simp [Val.beq]
  | dict b => simp [Val.beq]

theorem dictFind_setPair_same (a : List Char) (v : Val) (l : List (Val × Val)) :
    dictFind (setPair (.str a) v l) (.str a) = some v := by
  induction l with
  | nil => simp [setPair, dictFind_cons, beq_str_str]
  | cons kv l ih =>
    obtain ⟨k', v'⟩ := kv
    rw [setPair_cons]
    by_cases hb : Val.beq (.str a) k' = true
    · rw [if_pos hb, dictFind_cons, if_pos hb]
    · rw [if_neg hb, dictFind_cons, if_neg hb, ih]

theorem dictFind_setPair_ne (a b : List Char) (h : a ≠ b) (v : Val) (l : List (Val × Val)) :
    dictFind (setPair (.str a) v l) (.str b) = dictFind l (.str b) := by
  induction l with
  | nil => simp [setPair, dictFind_cons, beq_str_str, Ne.symm h]
  | cons kv l ih =>
    obtain ⟨k', v'⟩ := kv
    rw [setPair_cons]
    by_cases hb : Val.beq (.str a) k' = true
    · rw [if_pos hb]
      have hk := (beq_str_iff a k').1 hb
      subst hk
      simp [dictFind_cons, beq_str_str, Ne.symm h]
    · rw [if_neg hb, dictFind_cons, dictFind_cons, ih]

theorem setPair_setPair (a : List Char) (v v' : Val) (l : List (Val × Val)) :
    setPair (.str a) v' (setPair (.str a) v l) = setPair (.str a) v' l := by
  induction l with
  | nil => simp [setPair, beq_str_str]
  | cons kv l ih =>
    obtain ⟨k', v''⟩ := kv
    by_cases hb : Val.beq (.str a) k' = true
    · simp [setPair_cons, hb]
    · simp [setPair_cons, hb, ih]



theorem setPair_of_find (a : List Char) (v : Val) (l : List (Val × Val)) (h : dictFind l (.str a) = some v) :
    setPair (.str a) v l = l := by
  induction l with
  | nil => simp [dictFind] at h
  | cons kv l ih =>
    obtain ⟨k', v'⟩ := kv
    rw [dictFind_cons] at h
    rw [setPair_cons]
    by_cases hb : Val.beq (.str a) k' = true
    · rw [if_pos hb] at h ⊢
      cases h; rfl
    · rw [if_neg hb] at h ⊢
      rw [ih h]

/-! ### bytes -/

def encBytes (l : List Byte) : Val := .tuple (l.map Val.ofNat)

/-- the receiver `l` with `self.buffer = buf` -/
def selfB (l : List (Val × Val)) (buf : List Byte) : Val :=
  .dict (setPair (attrKey "buffer") (encBytes buf) l)

theorem get_buf (l : List (Val × Val)) (buf : List Byte) :
    pyGetAttr (selfB l buf) "buffer" = .val (encBytes buf) := by
  simp only [pyGetAttr, selfB, attrKey, dictFind_setPair_same]

theorem set_buf (l : List (Val × Val)) (buf buf' : List Byte) :
    pySetAttr (selfB l buf) "buffer" (encBytes buf') = .val (selfB l buf') := by
  simp only [pySetAttr, selfB, attrKey, setPair_setPair]

theorem len_bytes (buf : List Byte) : pyLen (encBytes buf) = .val (Val.ofNat buf.length) := by
  simp [pyLen, encBytes]

theorem pyIdx_bytes (buf : List Byte) (k : Nat) (h : k < buf.length) :
    Py.pyIdx (encBytes buf) (Val.ofNat k) = .val (Val.ofNat (buf.getD k 0)) := by
  have hk : ¬ ((k : Int) < 0) := by omega
  have e : Val.ofNat k = .num (k : Rat) := rfl
  have hi : (Val.num (k : Rat)).int? = some (k : Int) := int?_ofNat k
  rw [e]
  simp only [Py.pyIdx, encBytes, hi, idxList, hk, if_false, Int.toNat_natCast]
  simp [h]

theorem pyIdxN_bytes (buf : List Byte) (k : Nat) (h : k < buf.length) :
    pyIdxN (encBytes buf) k = .val (Val.ofNat (buf.getD k 0)) := by
  simp [pyIdxN, encBytes, h]

theorem optInt_ofNat (n : Nat) : optInt (some (Val.ofNat n)) = .val (some (n : Int)) := by
  have := int?_ofNat n
  unfold Val.ofNat at this ⊢
  simp only [optInt, this]

theorem pySlice_bytes (buf : List Byte) (a b : Nat) :
    pySlice (encBytes buf) (some (Val.ofNat a)) (some (Val.ofNat b)) = .val (encBytes (slice a b buf)) := by
  simp only [pySlice, optInt_ofNat, bind_val', encBytes, sliceList, normBound_nonneg, List.length_map]
  simp only [slice, List.map_take, List.map_drop]
  congr 2
  rcases Nat.lt_or_ge buf.length a with hlt | hge
  · rw [Nat.min_eq_right (Nat.le_of_lt hlt), List.drop_eq_nil_of_le (by simp), List.drop_eq_nil_of_le (by simp; omega)]
    simp
  · rw [Nat.min_eq_left hge]
    rcases Nat.lt_or_ge buf.length b with hlt2 | hge2
    · rw [Nat.min_eq_right (Nat.le_of_lt hlt2)]
      rw [List.take_of_length_le (by simp only [List.length_drop, List.length_map]; omega),
        List.take_of_length_le (by simp only [List.length_drop, List.length_map]; omega)]
    · rw [Nat.min_eq_left hge2]

theorem pySlice_bytes_from (buf : List Byte) (k : Nat) :
    pySlice (encBytes buf) (some (Val.ofNat k)) none = .val (encBytes (buf.drop k)) := by
  have i1 : optInt none = .val none := rfl
  simp only [pySlice, optInt_ofNat, i1, bind_val', encBytes, sliceList, normBound_nonneg, List.length_map, slice]
  congr 2
  rw [← List.map_drop]
  rcases Nat.lt_or_ge buf.length k with hlt | hge
  · rw [Nat.min_eq_right (Nat.le_of_lt hlt), List.drop_eq_nil_of_le (Nat.le_of_lt hlt)]
    simp
  · rw [Nat.min_eq_left hge, List.take_of_length_le (by simp)]

theorem pySliceN_bytes (buf : List Byte) (k : Nat) : pySliceN_ (encBytes buf) k = .val (encBytes (buf.drop k)) := by
  simp [pySliceN_, encBytes, List.map_drop]

/-! ### numbers -/

theorem pyAdd_ofNat (a k : Nat) : pyAdd (Val.ofNat a) (.num (k : Rat)) = .val (Val.ofNat (a + k)) := by
  simp [pyAdd, arith, Val.ofNat]
theorem bitop_lit (f : Nat → Nat → Nat) (a k : Nat) :
    bitop f (Val.ofNat a) (.num (k : Rat)) = .val (Val.ofNat (f a k)) := bitop_ofNat f a k

theorem add1 (a : Nat) : pyAdd (Val.ofNat a) (.num 1) = .val (Val.ofNat (a + 1)) := by simpa using pyAdd_ofNat a 1
theorem add3 (a : Nat) : pyAdd (Val.ofNat a) (.num 3) = .val (Val.ofNat (a + 3)) := pyAdd_ofNat a 3
theorem add6 (a : Nat) : pyAdd (Val.ofNat a) (.num 6) = .val (Val.ofNat (a + 6)) := pyAdd_ofNat a 6
theorem add7 (a : Nat) : pyAdd (Val.ofNat a) (.num 7) = .val (Val.ofNat (a + 7)) := pyAdd_ofNat a 7
theorem add14 (a : Nat) : pyAdd (Val.ofNat a) (.num 14) = .val (Val.ofNat (a + 14)) := pyAdd_ofNat a 14
theorem add24 (a : Nat) : pyAdd (Val.ofNat a) (.num 24) = .val (Val.ofNat (a + 24)) := pyAdd_ofNat a 24
theorem shr7 (a : Nat) : pyShr (Val.ofNat a) (.num 7) = .val (Val.ofNat (a >>> 7)) := bitop_lit _ a 7
theorem shr6 (a : Nat) : pyShr (Val.ofNat a) (.num 6) = .val (Val.ofNat (a >>> 6)) := bitop_lit _ a 6
theorem shl10 (a : Nat) : pyShl (Val.ofNat a) (.num 10) = .val (Val.ofNat (a <<< 10)) := bitop_lit _ a 10
theorem shl2 (a : Nat) : pyShl (Val.ofNat a) (.num 2) = .val (Val.ofNat (a <<< 2)) := bitop_lit _ a 2
theorem shl24 (a : Nat) : pyShl (Val.ofNat a) (.num 24) = .val (Val.ofNat (a <<< 24)) := bitop_lit _ a 24
theorem shl16 (a : Nat) : pyShl (Val.ofNat a) (.num 16) = .val (Val.ofNat (a <<< 16)) := bitop_lit _ a 16
theorem shl8 (a : Nat) : pyShl (Val.ofNat a) (.num 8) = .val (Val.ofNat (a <<< 8)) := bitop_lit _ a 8
theorem and127 (a : Nat) : pyBitAnd (Val.ofNat a) (.num 127) = .val (Val.ofNat (a &&& 127)) := bitop_lit _ a 127
theorem and63 (a : Nat) : pyBitAnd (Val.ofNat a) (.num 63) = .val (Val.ofNat (a &&& 63)) := bitop_lit _ a 63
theorem bitor (a b : Nat) : pyBitOr (Val.ofNat a) (Val.ofNat b) = .val (Val.ofNat (a ||| b)) := bitop_ofNat _ a b
theorem eq36 (n : Nat) : pyEq (Val.ofNat n) (.num 36) = .val (.bool (decide (n = 36))) := pyEq_ofNat n 36
theorem gt24 (n : Nat) : pyGt (Val.ofNat n) (.num 24) = .val (.bool (decide (24 < n))) := by
  have : pyGt (Val.ofNat n) (.num ((24 : Nat) : Rat)) = .val (.bool (decide (24 < n))) := by
    simp [pyGt, cmpNum, Val.ofNat]
  exact this
theorem le24 (n : Nat) : pyLe (Val.ofNat n) (.num 24) = .val (.bool (decide (n ≤ 24))) := by
  have : pyLe (Val.ofNat n) (.num ((24 : Nat) : Rat)) = .val (.bool (decide (n ≤ 24))) := by
    simp [pyLe, cmpNum, Val.ofNat]
  exact this
theorem pyMul_ofNat_num (n : Nat) (q : Rat) : pyMul (Val.ofNat n) (.num q) = .val (.num ((n : Rat) * q)) := rfl
theorem pyAdd_ofNat_num (n : Nat) (q : Rat) : pyAdd (Val.ofNat n) (.num q) = .val (.num ((n : Rat) + q)) := rfl


/-! ### `"".join("%02X" % j for j in payload)` -/

theorem fmt2 (b : Nat) (h : b < 256) : pyFmtHexU 2 (Val.ofNat b) = .val (.str (hex2 b)) := by
  have := pad_toDigits_eq_hexN 1 b (by simpa using h)
  simp only [pyFmtHexU, int?_ofNat]
  show Res.val (Val.str _) = _
  rw [this]
  rfl

theorem compList_hex (f : Val → Res (Option Val)) (p : List Byte)
    (hf : ∀ b ∈ p, f (Val.ofNat b) = .val (some (.str (hex2 b)))) :
    compList f (p.map Val.ofNat) = .val (p.map fun b => .str (hex2 b)) := by
  induction p with
  | nil => rfl
  | cons b p ih =>
    simp only [List.map_cons, compList, hf b (by simp), ih (fun c hc => hf c (List.mem_cons_of_mem _ hc))]

theorem pyComp_hex (f : Val → Res (Option Val)) (p : List Byte)
    (hf : ∀ b ∈ p, f (Val.ofNat b) = .val (some (.str (hex2 b)))) :
    pyComp (encBytes p) f = .val (.tuple (p.map fun b => .str (hex2 b))) := by
  have hit : pyIter (encBytes p) = .val (p.map Val.ofNat) := rfl
  simp only [pyComp, hit, bind_val', compList_hex f p hf, Res.pure_eq]

theorem mapM_str (g : Val → Option (List Char)) (hg : ∀ t, g (.str t) = some t) (ss : List (List Char)) :
    (ss.map Val.str).mapM g = some ss := by
  induction ss with
  | nil => rfl
  | cons a ss ih => simp [List.mapM_cons, hg, ih]

theorem flatten_intersperse_nil : ∀ ss : List (List Char), (List.intersperse [] ss).flatten = ss.flatten
  | [] => rfl
  | [a] => rfl
  | a :: b :: rest => by
    have ih := flatten_intersperse_nil (b :: rest)
    simp only [List.intersperse, List.flatten_cons, List.nil_append] at ih ⊢
    rw [ih]

theorem pyJoin_hex (p : List Byte) :
    pyJoin (.str []) (.tuple (p.map fun b => .str (hex2 b))) = .val (.str (hexOfBytes p)) := by
  have e : (p.map fun b => Val.str (hex2 b)) = (p.map hex2).map Val.str := by rw [List.map_map]; rfl
  rw [e]
  simp only [pyJoin]
  rw [mapM_str _ (fun t => rfl)]
  simp only [List.intercalate, flatten_intersperse_nil, hexOfBytes, List.flatMap]


/-! ### the hand model's loop, with the time stamps the source attaches to the messages -/

def skyPayload (buf : List Byte) : List Byte :=
  if buf.getD 1 0 >>> 7 ≠ 0 then slice 1 15 buf else slice 1 8 buf

/-- `sec + nano * 1.0e-9` from the six time-stamp bytes at positions 15 … 20 (exact arithmetic) -/
def skyTs (buf : List Byte) : Rat :=
  let t := slice 15 21 buf
  let sec := ((t.getD 0 0 &&& 127) <<< 10) ||| (t.getD 1 0 <<< 2) ||| (t.getD 2 0 >>> 6)
  let nano := ((t.getD 2 0 &&& 63) <<< 24) ||| (t.getD 3 0 <<< 16) ||| (t.getD 4 0 <<< 8) ||| t.getD 5 0
  (sec : Rat) + (nano : Rat) * ((1 : Rat) / 1000000000)

/-- `skyLoop` of Model/Stream.lean with `(msg, ts)` pairs -/
def skyLoopT : Nat → List Byte → List (Msg × Rat) → List (Msg × Rat) × List Byte
  | 0, buf, out => (out.reverse, buf)
  | fuel + 1, buf, out =>
    if buf.length ≤ 24 then (out.reverse, buf)
    else if buf.getD 0 0 = 0x24 ∧ buf.getD 24 0 = 0x24 then
      skyLoopT fuel (buf.drop 24) ((hexOfBytes (skyPayload buf), skyTs buf) :: out)
    else skyLoopT fuel (buf.drop 1) out

theorem skyLoopT_fst (n : Nat) (buf : List Byte) (out : List (Msg × Rat)) :
    skyLoop n buf (out.map Prod.fst) = ((skyLoopT n buf out).1.map Prod.fst, (skyLoopT n buf out).2) := by
  induction n generalizing buf out with
  | zero => simp [skyLoop, skyLoopT]
  | succ n ih =>
    rw [skyLoop, skyLoopT]
    by_cases h1 : buf.length ≤ 24
    · simp [h1]
    · by_cases h2 : buf.getD 0 0 = 0x24 ∧ buf.getD 24 0 = 0x24
      · rw [if_neg h1, if_pos h2, if_neg h1, if_pos h2]
        have := ih (buf.drop 24) ((hexOfBytes (skyPayload buf), skyTs buf) :: out)
        rw [List.map_cons] at this
        exact this
      · rw [if_neg h1, if_neg h2, if_neg h1, if_neg h2]
        exact ih _ _

/-- `readSky` with time stamps -/
def readSkyT (buf : List Byte) : List (Msg × Rat) × List Byte := skyLoopT buf.length buf []

theorem readSkyT_fst (buf : List Byte) : readSky buf = ((readSkyT buf).1.map Prod.fst, (readSkyT buf).2) :=
  skyLoopT_fst buf.length buf []

/-! ### the `while` loop -/

def encTS (l : List (Msg × Rat)) : Val := .tuple (l.map fun p => .tuple [.str p.1, .num p.2])

/-- the mutable variables of the loop: `i, payload, msg, tsbin, sec, nano, ts, self, messages` and the fuel flag -/
abbrev S := Val × Val × Val × Val × Val × Val × Val × Val × Val × Bool

/-- what the loop state is required to hold (the seven scratch variables are unconstrained) -/
def Rel (l : List (Val × Val)) (st : S) (buf : List Byte) (msgs : List (Msg × Rat)) (fl : Bool) : Prop :=
  st.2.2.2.2.2.2.2.1 = selfB l buf ∧ st.2.2.2.2.2.2.2.2.1 = encTS msgs ∧ st.2.2.2.2.2.2.2.2.2 = fl

theorem sky_loop (l : List (Val × Val)) (f : Nat → S → Res (ForInStep S))
    (hdone : ∀ x st buf out, Rel l st buf out true → buf.length ≤ 24 →
      ∃ st', f x st = .val (.done st') ∧ Rel l st' buf out false)
    (hmsg : ∀ x st buf out, Rel l st buf out true → 24 < buf.length → (∀ b ∈ buf, b < 256) →
      (buf.getD 0 0 = 36 ∧ buf.getD 24 0 = 36) →
      ∃ st', f x st = .val (.yield st') ∧
        Rel l st' (buf.drop 24) (out ++ [(hexOfBytes (skyPayload buf), skyTs buf)]) true)
    (hskip : ∀ x st buf out, Rel l st buf out true → 24 < buf.length → (∀ b ∈ buf, b < 256) →
      ¬ (buf.getD 0 0 = 36 ∧ buf.getD 24 0 = 36) →
      ∃ st', f x st = .val (.yield st') ∧ Rel l st' (buf.drop 1) out true) :
    ∀ (n : Nat) (buf : List Byte) (out : List (Msg × Rat)), buf.length ≤ n → (∀ b ∈ buf, b < 256) →
      ∀ (a r : Nat), n < r → ∀ st, Rel l st buf out.reverse true →
      ∃ st', forIn (List.range' a r 1) st f = .val st' ∧
        Rel l st' (skyLoopT n buf out).2 (skyLoopT n buf out).1 false := by
  intro n
  induction n with
  | zero =>
    intro buf out hl hb a r hr st hrel
    obtain ⟨r', rfl⟩ : ∃ r', r = r' + 1 := ⟨r - 1, by omega⟩
    obtain ⟨st', h1, h2⟩ := hdone a st buf out.reverse hrel (by omega)
    refine ⟨st', ?_, h2⟩
    rw [List.range'_succ, List.forIn_cons, h1, bind_val']
    rfl
  | succ n ih =>
    intro buf out hl hb a r hr st hrel
    obtain ⟨r', rfl⟩ : ∃ r', r = r' + 1 := ⟨r - 1, by omega⟩
    rw [List.range'_succ, List.forIn_cons, skyLoopT]
    by_cases h1 : buf.length ≤ 24
    · obtain ⟨st', e1, e2⟩ := hdone a st buf out.reverse hrel h1
      rw [if_pos h1]
      refine ⟨st', ?_, e2⟩
      rw [e1, bind_val']
      rfl
    · rw [if_neg h1]
      by_cases h2 : buf.getD 0 0 = 0x24 ∧ buf.getD 24 0 = 0x24
      · rw [if_pos h2]
        obtain ⟨st', e1, e2⟩ := hmsg a st buf out.reverse hrel (by omega) hb h2
        rw [e1, bind_val']
        simp only []
        have e2' : Rel l st' (buf.drop 24) ((hexOfBytes (skyPayload buf), skyTs buf) :: out).reverse true := by
          rw [List.reverse_cons]; exact e2
        exact ih (buf.drop 24) _ (by rw [List.length_drop]; omega)
          (fun b hb' => hb b (List.mem_of_mem_drop hb')) (a + 1) r' (by omega) st' e2'
      · rw [if_neg h2]
        obtain ⟨st', e1, e2⟩ := hskip a st buf out.reverse hrel (by omega) hb h2
        rw [e1, bind_val']
        simp only []
        exact ih (buf.drop 1) _ (by rw [List.length_drop]; omega)
          (fun b hb' => hb b (List.mem_of_mem_drop hb')) (a + 1) r' (by omega) st' e2

/-- the same in continuation form (so that `f` and `K` are found by unification with the goal) -/
theorem sky_loop_cont (l : List (Val × Val)) (f : Nat → S → Res (ForInStep S)) (K : S → Res Val) (R : Res Val)
    (hdone : ∀ x st buf out, Rel l st buf out true → buf.length ≤ 24 →
      ∃ st', f x st = .val (.done st') ∧ Rel l st' buf out false)
    (hmsg : ∀ x st buf out, Rel l st buf out true → 24 < buf.length → (∀ b ∈ buf, b < 256) →
      (buf.getD 0 0 = 36 ∧ buf.getD 24 0 = 36) →
      ∃ st', f x st = .val (.yield st') ∧
        Rel l st' (buf.drop 24) (out ++ [(hexOfBytes (skyPayload buf), skyTs buf)]) true)
    (hskip : ∀ x st buf out, Rel l st buf out true → 24 < buf.length → (∀ b ∈ buf, b < 256) →
      ¬ (buf.getD 0 0 = 36 ∧ buf.getD 24 0 = 36) →
      ∃ st', f x st = .val (.yield st') ∧ Rel l st' (buf.drop 1) out true)
    (buf : List Byte) (hb : ∀ b ∈ buf, b < 256) (r : Nat) (hr : buf.length < r) (st : S)
    (hrel : Rel l st buf [] true)
    (hK : ∀ st', Rel l st' (readSkyT buf).2 (readSkyT buf).1 false → K st' = R) :
    (forIn (List.range' 0 r 1) st f >>= K) = R := by
  obtain ⟨st', h1, h2⟩ := sky_loop l f hdone hmsg hskip buf.length buf [] (Nat.le_refl _) hb 0 r hr st hrel
  rw [h1, bind_val']
  exact hK st' h2


theorem pyAppend_encTS (out : List (Msg × Rat)) (m : Msg) (t : Rat) :
    pyAppend (encTS out) (.tuple [.str m, .num t]) = .val (encTS (out ++ [(m, t)])) := by
  simp [pyAppend, encTS]

theorem skyLoop_short (n : Nat) (buf : List Byte) (out : List Msg) (h : buf.length ≤ 24) :
    skyLoop n buf out = (out.reverse, buf) := by
  cases n with
  | zero => rfl
  | succ n => rw [skyLoop, if_pos h]

end PyModeS.Tie.Sky
namespace PyModeS.Tie
open PyModeS.Tie.Sky

/-- `read_skysense_buffer()` on any receiver `l` whose `buffer` attribute holds the bytes `buf` (all below 256, as the
    items of a `bytes` chunk are; fewer than `whileFuel` = 2^20 of them, the iterations the generated `while` loop is
    granted): `self.buffer` becomes `(readSky buf).2`, and the method returns `None` when there are at most 24 bytes
    (the hand model has `[]` there) and otherwise the `[msg, ts]` list `readSkyT buf`, whose messages are
    `(readSky buf).1` (`readSkyT_fst`) and whose time stamps are `skyTs` of each frame. -/
theorem TcpClient_read_skysense_buffer_tie (l : List (Val × Val)) (buf : List Byte)
    (hbuf : dictFind l (attrKey "buffer") = some (encBytes buf))
    (hb : ∀ b ∈ buf, b < 256) (hlen : buf.length < whileFuel) :
    Gen.tcpclient.TcpClient_read_skysense_buffer (.dict l) =
      .val (.tuple [.dict (setPair (attrKey "buffer") (encBytes (readSky buf).2) l),
        if buf.length ≤ 24 then .none else encTS (readSkyT buf).1]) := by
  have hself : Val.dict l = selfB l buf := by
    unfold selfB; rw [attrKey] at hbuf ⊢; rw [setPair_of_find _ _ _ hbuf]
  rw [hself]
  unfold Gen.tcpclient.TcpClient_read_skysense_buffer
  simp only [get_buf, len_bytes, le24, bind_val', pyTruth_bool, decide_eq_true_eq]
  by_cases h24 : buf.length ≤ 24
  · rw [if_pos h24, if_pos h24]
    have : (readSky buf).2 = buf := by rw [readSky, skyLoop_short _ _ _ h24]
    rw [this]
    rfl
  · rw [if_neg h24, if_neg h24]
    simp only [Std.Legacy.Range.forIn_eq_forIn_range', Std.Legacy.Range.size]
    simp only [Nat.sub_zero, Nat.add_sub_cancel, Nat.div_one]
    refine sky_loop_cont l _ _ _ ?hdone ?hmsg ?hskip buf hb whileFuel hlen _ ⟨rfl, rfl, rfl⟩ ?hK
    case hK =>
      rintro ⟨i0, p0, m0, tb0, s0, n0, t0, self0, msgs0, fl0⟩ ⟨h1, h2, h3⟩
      simp only at h1 h2 h3
      subst h1 h2 h3
      simp only [Bool.false_eq_true, if_false, Res.pure_eq]
      rw [readSkyT_fst]
      rfl
    case hdone =>
      rintro x ⟨i0, p0, m0, tb0, s0, n0, t0, self0, msgs0, fl0⟩ buf' out ⟨h1, h2, h3⟩ hle
      simp only at h1 h2 h3
      subst h1 h2 h3
      have hgt : decide (24 < buf'.length) = false := by simp; omega
      simp only [get_buf, len_bytes, gt24, bind_val', pyTruth_bool, hgt, Bool.not_false, if_true, Res.pure_eq]
      exact ⟨_, rfl, rfl, rfl, rfl⟩
    case hskip =>
      rintro x ⟨i0, p0, m0, tb0, s0, n0, t0, self0, msgs0, fl0⟩ buf' out ⟨h1, h2, h3⟩ hlt hb' hne
      simp only at h1 h2 h3
      subst h1 h2 h3
      have hgt : decide (24 < buf'.length) = true := by simp; omega
      simp only [get_buf, len_bytes, gt24, bind_val', pyTruth_bool, hgt, Bool.not_true, Bool.false_eq_true, if_false,
        Res.pure_eq, num_zero_ofNat, add24, add1, Nat.zero_add, pyIdx_bytes buf' 0 (by omega),
        pyIdx_bytes buf' 24 (by omega), eq36]
      by_cases ha : buf'.getD 0 0 = 36
      · have hb2 : ¬ buf'.getD 24 0 = 36 := fun hb => hne ⟨ha, hb⟩
        simp only [ha, hb2, decide_true, decide_false, if_true, bind_val', pyTruth_bool, Bool.false_eq_true, if_false,
          pySliceN_bytes, set_buf]
        exact ⟨_, rfl, rfl, rfl, rfl⟩
      · simp only [ha, decide_false, if_true, bind_val', pyTruth_bool, Bool.false_eq_true, if_false,
          pySliceN_bytes, set_buf]
        exact ⟨_, rfl, rfl, rfl, rfl⟩
    case hmsg =>
      rintro x ⟨i0, p0, m0, tb0, s0, n0, t0, self0, msgs0, fl0⟩ buf' out ⟨h1, h2, h3⟩ hlt hb' ⟨ha, hb24⟩
      simp only at h1 h2 h3
      subst h1 h2 h3
      have hgt : decide (24 < buf'.length) = true := by simp; omega
      have e24 : Val.num 24 = Val.ofNat 24 := rfl
      simp only [get_buf, len_bytes, gt24, bind_val', pyTruth_bool, hgt, Bool.not_true, Bool.false_eq_true, if_false,
        Res.pure_eq, num_zero_ofNat, add24, add1, add14, add6, add3, add7, Nat.zero_add, Nat.reduceAdd,
        pyIdx_bytes buf' 0 (by omega), pyIdx_bytes buf' 24 (by omega), pyIdx_bytes buf' 1 (by omega), eq36, ha, hb24,
        decide_true, if_true, shr7, pyTruth_ofNat, pySlice_bytes]
      have hl6 : (slice 15 21 buf').length = 6 := by simp [slice]; omega
      have hfmt : ∀ (p : List Byte), (∀ b ∈ p, b < 256) → ∀ b ∈ p,
          (fun x__3 => do
            let __do_lift ← pyFmtHexU 2 x__3
            Res.val (some __do_lift) : Val → Res (Option Val)) (Val.ofNat b) = .val (some (.str (hex2 b))) := by
        intro p hp b hbp
        simp only [fmt2 b (hp b hbp), bind_val']
      have hsl : ∀ a c, ∀ b ∈ slice a c buf', b < 256 := by
        intro a c b hbm
        exact hb' b (List.mem_of_mem_drop (List.mem_of_mem_take hbm))
      by_cases hlong : buf'.getD 1 0 >>> 7 ≠ 0
      · have hpl : skyPayload buf' = slice 1 15 buf' := by rw [skyPayload, if_pos hlong]
        rw [if_pos (decide_eq_true hlong), pyComp_hex _ (slice 1 15 buf') (hfmt _ (hsl 1 15))]
        simp only [bind_val', pyJoin_hex, pyIdxN_bytes (slice 15 21 buf') 0 (by omega),
          pyIdxN_bytes (slice 15 21 buf') 1 (by omega), pyIdxN_bytes (slice 15 21 buf') 2 (by omega),
          pyIdxN_bytes (slice 15 21 buf') 3 (by omega), pyIdxN_bytes (slice 15 21 buf') 4 (by omega),
          pyIdxN_bytes (slice 15 21 buf') 5 (by omega), and127, shl10, shl2, bitor, shr6, and63, shl24, shl16, shl8,
          pyMul_ofNat_num, pyAdd_ofNat_num, e24, pySlice_bytes_from, set_buf, pyAppend_encTS]
        refine ⟨_, rfl, rfl, ?_, rfl⟩
        rw [hpl]
        simp only [encTS, List.map_append, List.map_cons, List.map_nil]
        rfl
      · have hpl : skyPayload buf' = slice 1 8 buf' := by rw [skyPayload, if_neg hlong]
        rw [if_neg (by rw [decide_eq_false hlong]; exact Bool.false_ne_true),
          pyComp_hex _ (slice 1 8 buf') (hfmt _ (hsl 1 8))]
        simp only [bind_val', pyJoin_hex, pyIdxN_bytes (slice 15 21 buf') 0 (by omega),
          pyIdxN_bytes (slice 15 21 buf') 1 (by omega), pyIdxN_bytes (slice 15 21 buf') 2 (by omega),
          pyIdxN_bytes (slice 15 21 buf') 3 (by omega), pyIdxN_bytes (slice 15 21 buf') 4 (by omega),
          pyIdxN_bytes (slice 15 21 buf') 5 (by omega), and127, shl10, shl2, bitor, shr6, and63, shl24, shl16, shl8,
          pyMul_ofNat_num, pyAdd_ofNat_num, e24, pySlice_bytes_from, set_buf, pyAppend_encTS]
        refine ⟨_, rfl, rfl, ?_, rfl⟩
        rw [hpl]
        simp only [encTS, List.map_append, List.map_cons, List.map_nil]
        rfl

end PyModeS.Tie
