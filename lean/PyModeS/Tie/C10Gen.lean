/-
  C10 transported to the source-generated definitions of bds08.py / bds20.py: the callsign / cs20 round trips, the
  independence of the eight characters and the category specification stated about `Gen.bds08.callsign`,
  `Gen.bds08.category` and `Gen.bds20.cs20` (the Lean text py2lean.py produced from the current Python source, table
  literal included).  Each statement composes a tie theorem (`Tie/Callsign.lean`, `Tie/Bds08.lean`, `Tie/Bds20.lean`)
  with a theorem of `Properties/C10.lean`; the hand-written model no longer occurs in the statements.  The last section
  feeds the generated functions with the hex digits of an identification frame / a BDS 2,0 reply built by an encoder.
-/
import PyModeS.Properties.C10
import PyModeS.Proofs.Fields.Frame
import PyModeS.Tie.Callsign
import PyModeS.Tie.Bds08
import PyModeS.Tie.Bds20

-- symbolic execution of long generated `do` blocks: generous but finite budget (proof times are seconds)
set_option maxHeartbeats 1000000
namespace PyModeS.C10Gen
open PyModeS PyModeS.Py PyModeS.CRC PyModeS.C10 PyModeS.Spec

theorem frame_bits (m : Msg) (hl : m.length = 28) : (hex2binM m).length = 112 := by
  rw [hex2binM_length, hl]

theorem slice_append_left {α} (a b : Nat) (l r : List α) (hb : b ≤ l.length) :
    slice a b (l ++ r) = slice a b l := by
  simp only [slice]
  by_cases ha : a ≤ l.length
  · rw [List.drop_append_of_le_length ha, List.take_append_of_le_length (by simp; omega)]
  · have h1 : b - a = 0 := by omega
    simp [h1]

/-! ### bds08.callsign -/

/-- **Round trip** (frames of any length, in particular 28 hex digits): any eight legal codes placed in ME bits 9–56
    of a TC 1–4 frame come back from the generated `callsign` as the eight Annex 10 characters (`_` for space),
    whatever the other bits are. -/
theorem callsign_roundtrip_tie (m : Msg) (h : IsHex m) (hl : 10 ≤ m.length) (tc : Nat)
    (htc : tcB (hex2binM m) = some tc) (h14 : 1 ≤ tc ∧ tc ≤ 4) (c0 c1 c2 c3 c4 c5 c6 c7 : Nat)
    (hc : ∀ c ∈ [c0, c1, c2, c3, c4, c5, c6, c7], (idChar c).isSome)
    (hf : slice 40 88 (hex2binM m) = build (eight c0 c1 c2 c3 c4 c5 c6 c7)) :
    Gen.bds08.callsign (.str m) =
      .val (.str ([c0, c1, c2, c3, c4, c5, c6, c7].map (fun c => (idChar c).getD '#'))) := by
  rw [Tie.callsign_tie m h hl, callsign_roundtrip_frame _ tc htc h14 c0 c1 c2 c3 c4 c5 c6 c7 hc hf]
  rfl

/-- outside TC 1–4 (or outside DF 17/18) the generated `callsign` raises RuntimeError -/
theorem callsign_guard_tie (m : Msg) (h : IsHex m) (hl : 10 ≤ m.length)
    (hg : ∀ tc, tcB (hex2binM m) = some tc → tc < 1 ∨ tc > 4) :
    Gen.bds08.callsign (.str m) = .rte := by
  rw [Tie.callsign_tie m h hl]
  unfold PyModeS.callsign
  cases htc : tcB (hex2binM m) with
  | none => rfl
  | some tc =>
    show ((if tc < 1 ∨ tc > 4 then Res.rte else _) >>= _) = _
    rw [if_pos (hg tc htc)]
    rfl

/-- **Independence.** Two identification messages whose eight codes differ only in code `k`: the generated `callsign`
    decodes both to eight characters, output position `j` is the Annex 10 character of code `j` of the respective
    frame, the two callsigns agree at every position `j ≠ k`, and position `k` holds the character of `c_k` resp. `c'`. -/
theorem callsign_char_independent_tie (m m' : Msg) (h : IsHex m) (h' : IsHex m') (hl : 10 ≤ m.length)
    (hl' : 10 ≤ m'.length) (tc tc' : Nat)
    (htc : tcB (hex2binM m) = some tc) (h14 : 1 ≤ tc ∧ tc ≤ 4)
    (htc' : tcB (hex2binM m') = some tc') (h14' : 1 ≤ tc' ∧ tc' ≤ 4)
    (c0 c1 c2 c3 c4 c5 c6 c7 d0 d1 d2 d3 d4 d5 d6 d7 : Nat)
    (hc : ∀ c ∈ [c0, c1, c2, c3, c4, c5, c6, c7], (idChar c).isSome)
    (hf : slice 40 88 (hex2binM m) = build (eight c0 c1 c2 c3 c4 c5 c6 c7))
    (hf' : slice 40 88 (hex2binM m') = build (eight d0 d1 d2 d3 d4 d5 d6 d7))
    (k c' : Nat) (hc' : (idChar c').isSome)
    (hd : [d0, d1, d2, d3, d4, d5, d6, d7] = [c0, c1, c2, c3, c4, c5, c6, c7].set k c') :
    ∃ s s' : List Char, Gen.bds08.callsign (.str m) = .val (.str s) ∧ Gen.bds08.callsign (.str m') = .val (.str s') ∧
      s.length = 8 ∧ s'.length = 8 ∧
      (∀ j : Nat, s[j]? = ([c0, c1, c2, c3, c4, c5, c6, c7][j]?).map (fun c => (idChar c).getD '#')) ∧
      (∀ j : Nat, s'[j]? = ([d0, d1, d2, d3, d4, d5, d6, d7][j]?).map (fun c => (idChar c).getD '#')) ∧
      s' = s.set k ((idChar c').getD '#') ∧
      (∀ j : Nat, j ≠ k → s[j]? = s'[j]?) ∧
      (k < 8 → s[k]? = ([c0, c1, c2, c3, c4, c5, c6, c7][k]?).map (fun c => (idChar c).getD '#') ∧
        s'[k]? = some ((idChar c').getD '#')) := by
  obtain ⟨s, s', r, r', rest⟩ := callsign_char_independent (hex2binM m) (hex2binM m') tc tc' htc h14 htc' h14'
    c0 c1 c2 c3 c4 c5 c6 c7 d0 d1 d2 d3 d4 d5 d6 d7 hc hf hf' k c' hc' hd
  refine ⟨s, s', ?_, ?_, rest⟩
  · rw [Tie.callsign_tie m h hl, r]; rfl
  · rw [Tie.callsign_tie m' h' hl', r']; rfl

/-! ### bds08.category -/

/-- the generated `category` is ME bits 6–8 for TC 1–4, RuntimeError otherwise (28-digit frames) -/
theorem category_spec_tie (m : Msg) (h : IsHex m) (hl : m.length = 28) :
    Gen.bds08.category (.str m) = match tcB (hex2binM m) with
      | some tc => if 1 ≤ tc ∧ tc ≤ 4 then .val (Val.ofNat (bin2int (slice 37 40 (hex2binM m)))) else .rte
      | none => .rte := by
  rw [Tie.category_tie m h (by omega), category_spec _ (frame_bits m hl)]
  cases tcB (hex2binM m) with
  | none => rfl
  | some tc => by_cases c : 1 ≤ tc ∧ tc ≤ 4 <;> simp [c]

/-! ### bds20.cs20 -/

/-- **Round trip.** The generated `cs20` returns the eight characters of MB bits 9–56 for any eight codes `< 64`
    (`#` for codes outside the alphabet), each output position depending on its own code only. -/
theorem cs20_roundtrip_tie (m : Msg) (h : IsHex m) (hl : m.length = 28) (c0 c1 c2 c3 c4 c5 c6 c7 : Nat)
    (h0 : c0 < 64) (h1 : c1 < 64) (h2 : c2 < 64) (h3 : c3 < 64) (h4 : c4 < 64) (h5 : c5 < 64)
    (h6 : c6 < 64) (h7 : c7 < 64)
    (hf : slice 8 56 (slice 32 88 (hex2binM m)) = build (eight c0 c1 c2 c3 c4 c5 c6 c7)) :
    Gen.bds20.cs20 (.str m) =
      .val (.str ([c0, c1, c2, c3, c4, c5, c6, c7].map (fun c => Tables.cs20Chars.getD c '#'))) := by
  rw [Tie.cs20_tie m h hl, cs20_roundtrip _ _ (Tie.dataR_hex m hl) c0 c1 c2 c3 c4 c5 c6 c7 h0 h1 h2 h3 h4 h5 h6 h7 hf]
  rfl

/-- … and on legal codes the looked-up character is the Annex 10 character (never `#`) -/
theorem cs20_roundtrip_legal_tie (m : Msg) (h : IsHex m) (hl : m.length = 28) (c0 c1 c2 c3 c4 c5 c6 c7 : Nat)
    (hc : ∀ c ∈ [c0, c1, c2, c3, c4, c5, c6, c7], (idChar c).isSome)
    (hf : slice 8 56 (slice 32 88 (hex2binM m)) = build (eight c0 c1 c2 c3 c4 c5 c6 c7)) :
    Gen.bds20.cs20 (.str m) =
      .val (.str ([c0, c1, c2, c3, c4, c5, c6, c7].map (fun c => (idChar c).getD '#'))) := by
  have hall := all_range_imp chars_table_spec.1
  have key : ∀ c, (idChar c).isSome → c < 64 ∧ Tables.cs20Chars.getD c '#' = (idChar c).getD '#' := by
    intro c hs
    have hlt : c < 64 := by
      unfold idChar at hs
      split at hs
      · omega
      · split at hs
        · omega
        · split at hs
          · omega
          · simp at hs
    have := hall c hlt
    cases hi : idChar c with
    | none => rw [hi] at hs; simp at hs
    | some ch =>
      rw [hi] at this
      simp only [Bool.and_eq_true, beq_iff_eq, bne_iff_ne] at this
      exact ⟨hlt, by simp [List.getD, this.1.2]⟩
  rw [cs20_roundtrip_tie m h hl c0 c1 c2 c3 c4 c5 c6 c7 (key c0 (hc c0 (by simp))).1 (key c1 (hc c1 (by simp))).1
    (key c2 (hc c2 (by simp))).1 (key c3 (hc c3 (by simp))).1 (key c4 (hc c4 (by simp))).1
    (key c5 (hc c5 (by simp))).1 (key c6 (hc c6 (by simp))).1 (key c7 (hc c7 (by simp))).1 hf]
  simp only [List.map_cons, List.map_nil]
  rw [(key c0 (hc c0 (by simp))).2, (key c1 (hc c1 (by simp))).2, (key c2 (hc c2 (by simp))).2,
    (key c3 (hc c3 (by simp))).2, (key c4 (hc c4 (by simp))).2, (key c5 (hc c5 (by simp))).2,
    (key c6 (hc c6 (by simp))).2, (key c7 (hc c7 (by simp))).2]

/-- **Independence** for the generated `cs20` (any codes `< 64`). -/
theorem cs20_char_independent_tie (m m' : Msg) (h : IsHex m) (h' : IsHex m') (hl : m.length = 28)
    (hl' : m'.length = 28)
    (c0 c1 c2 c3 c4 c5 c6 c7 d0 d1 d2 d3 d4 d5 d6 d7 : Nat)
    (hc : ∀ c ∈ [c0, c1, c2, c3, c4, c5, c6, c7], c < 64)
    (hf : slice 8 56 (slice 32 88 (hex2binM m)) = build (eight c0 c1 c2 c3 c4 c5 c6 c7))
    (hf' : slice 8 56 (slice 32 88 (hex2binM m')) = build (eight d0 d1 d2 d3 d4 d5 d6 d7))
    (k c' : Nat) (hc' : c' < 64)
    (hd : [d0, d1, d2, d3, d4, d5, d6, d7] = [c0, c1, c2, c3, c4, c5, c6, c7].set k c') :
    ∃ s s' : List Char, Gen.bds20.cs20 (.str m) = .val (.str s) ∧ Gen.bds20.cs20 (.str m') = .val (.str s') ∧
      s.length = 8 ∧ s'.length = 8 ∧
      (∀ j : Nat, s[j]? = ([c0, c1, c2, c3, c4, c5, c6, c7][j]?).map (fun c => Tables.cs20Chars.getD c '#')) ∧
      (∀ j : Nat, s'[j]? = ([d0, d1, d2, d3, d4, d5, d6, d7][j]?).map (fun c => Tables.cs20Chars.getD c '#')) ∧
      s' = s.set k (Tables.cs20Chars.getD c' '#') ∧
      (∀ j : Nat, j ≠ k → s[j]? = s'[j]?) ∧
      (k < 8 → s[k]? = ([c0, c1, c2, c3, c4, c5, c6, c7][k]?).map (fun c => Tables.cs20Chars.getD c '#') ∧
        s'[k]? = some (Tables.cs20Chars.getD c' '#')) := by
  obtain ⟨s, s', r, r', rest⟩ := cs20_char_independent (hex2binM m) (hex2binM m') _ _ (Tie.dataR_hex m hl)
    (Tie.dataR_hex m' hl') c0 c1 c2 c3 c4 c5 c6 c7 d0 d1 d2 d3 d4 d5 d6 d7 hc hf hf' k c' hc' hd
  refine ⟨s, s', ?_, ?_, rest⟩
  · rw [Tie.cs20_tie m h hl, r]; rfl
  · rw [Tie.cs20_tie m' h' hl', r']; rfl

/-! ### encoder round trips: the generated decoders applied to the hex digits of an encoded frame -/

/-- DF 17/18 identification frame: DF, CA, ICAO | TC, category | eight 6-bit character codes | parity -/
def idFrame (df ca icao tc cat c0 c1 c2 c3 c4 c5 c6 c7 parity : Nat) : Bits :=
  build [(5, df), (3, ca), (24, icao), (5, tc), (3, cat)] ++ build (eight c0 c1 c2 c3 c4 c5 c6 c7) ++
    natToBits 24 parity

/-- **Identification round trip.** For every DF 17/18 identification frame (TC 1–4, any CA, address, parity) carrying
    a category `< 8` and eight legal character codes, the generated `callsign` applied to the 28 hex digits returns the
    eight Annex 10 characters and the generated `category` returns the category. -/
theorem identification_roundtrip_tie (df ca icao tc cat c0 c1 c2 c3 c4 c5 c6 c7 parity : Nat)
    (hdf : df = 17 ∨ df = 18) (h14 : 1 ≤ tc ∧ tc ≤ 4) (hcat : cat < 8)
    (hc : ∀ c ∈ [c0, c1, c2, c3, c4, c5, c6, c7], (idChar c).isSome) :
    Gen.bds08.callsign (.str (hexOfBits (idFrame df ca icao tc cat c0 c1 c2 c3 c4 c5 c6 c7 parity))) =
      .val (.str ([c0, c1, c2, c3, c4, c5, c6, c7].map (fun c => (idChar c).getD '#'))) ∧
    Gen.bds08.category (.str (hexOfBits (idFrame df ca icao tc cat c0 c1 c2 c3 c4 c5 c6 c7 parity))) =
      .val (Val.ofNat cat) := by
  have hpre : (build [(5, df), (3, ca), (24, icao), (5, tc), (3, cat)]).length = 40 := by simp [build_length]
  have hmid : (build (eight c0 c1 c2 c3 c4 c5 c6 c7)).length = 48 := by simp [build_length, eight]
  have hlen : (idFrame df ca icao tc cat c0 c1 c2 c3 c4 c5 c6 c7 parity).length = 112 := by
    simp only [idFrame, List.length_append, hpre, hmid, natToBits_length]
  have hm : slice 40 88 (idFrame df ca icao tc cat c0 c1 c2 c3 c4 c5 c6 c7 parity) =
      build (eight c0 c1 c2 c3 c4 c5 c6 c7) := by
    have := slice_append_mid (build [(5, df), (3, ca), (24, icao), (5, tc), (3, cat)])
      (build (eight c0 c1 c2 c3 c4 c5 c6 c7)) (natToBits 24 parity)
    rw [hpre, hmid] at this
    exact this
  have hhead : ∀ a b, b ≤ 40 → slice a b (idFrame df ca icao tc cat c0 c1 c2 c3 c4 c5 c6 c7 parity) =
      slice a b (build [(5, df), (3, ca), (24, icao), (5, tc), (3, cat)]) := by
    intro a b hb
    unfold idFrame
    rw [List.append_assoc, slice_append_left _ _ _ _ (by omega)]
  have sb := slice_build [(5, df), (3, ca), (24, icao), (5, tc), (3, cat)]
  have f0 : slice 0 5 (idFrame df ca icao tc cat c0 c1 c2 c3 c4 c5 c6 c7 parity) = natToBits 5 df := by
    rw [hhead 0 5 (by omega)]; simpa [offset] using sb 0 (by simp)
  have f3 : slice 32 37 (idFrame df ca icao tc cat c0 c1 c2 c3 c4 c5 c6 c7 parity) = natToBits 5 tc := by
    rw [hhead 32 37 (by omega)]; simpa [offset] using sb 3 (by simp)
  have f4 : slice 37 40 (idFrame df ca icao tc cat c0 c1 c2 c3 c4 c5 c6 c7 parity) = natToBits 3 cat := by
    rw [hhead 37 40 (by omega)]; simpa [offset] using sb 4 (by simp)
  have htc : tcB (idFrame df ca icao tc cat c0 c1 c2 c3 c4 c5 c6 c7 parity) = some tc :=
    Fields.tcB_of_slices hdf (by omega) f0 f3
  have hhex := hexOfBits_isHex (idFrame df ca icao tc cat c0 c1 c2 c3 c4 c5 c6 c7 parity)
  have hl : (hexOfBits (idFrame df ca icao tc cat c0 c1 c2 c3 c4 c5 c6 c7 parity)).length = 28 := by
    rw [hexOfBits_length, hlen]
  have hback := hex2binM_hexOfBits (idFrame df ca icao tc cat c0 c1 c2 c3 c4 c5 c6 c7 parity) (by rw [hlen])
  constructor
  · exact callsign_roundtrip_tie _ hhex (by omega) tc (by rw [hback]; exact htc) h14 c0 c1 c2 c3 c4 c5 c6 c7 hc
      (by rw [hback]; exact hm)
  · rw [category_spec_tie _ hhex hl, hback, htc, f4, bin2int_natToBits_of_lt (by omega : cat < 2 ^ 3)]
    simp [h14]

/-- a 112-bit Comm-B reply whose MB field is BDS 2,0: 32 header bits | `0x20` (or any first MB byte `b1`) |
    eight 6-bit character codes | parity -/
def cs20Frame (hdr b1 c0 c1 c2 c3 c4 c5 c6 c7 parity : Nat) : Bits :=
  natToBits 32 hdr ++ (natToBits 8 b1 ++ build (eight c0 c1 c2 c3 c4 c5 c6 c7)) ++ natToBits 24 parity

/-- **BDS 2,0 round trip.** For every header, first MB byte and parity, the generated `cs20` applied to the 28 hex
    digits of the reply returns the Annex 10 characters of the eight legal codes in MB bits 9–56. -/
theorem cs20_frame_roundtrip_tie (hdr b1 c0 c1 c2 c3 c4 c5 c6 c7 parity : Nat)
    (hc : ∀ c ∈ [c0, c1, c2, c3, c4, c5, c6, c7], (idChar c).isSome) :
    Gen.bds20.cs20 (.str (hexOfBits (cs20Frame hdr b1 c0 c1 c2 c3 c4 c5 c6 c7 parity))) =
      .val (.str ([c0, c1, c2, c3, c4, c5, c6, c7].map (fun c => (idChar c).getD '#'))) := by
  have hmid : (build (eight c0 c1 c2 c3 c4 c5 c6 c7)).length = 48 := by simp [build_length, eight]
  have hlen : (cs20Frame hdr b1 c0 c1 c2 c3 c4 c5 c6 c7 parity).length = 112 := by
    simp only [cs20Frame, List.length_append, hmid, natToBits_length]
  have hmb : slice 32 88 (cs20Frame hdr b1 c0 c1 c2 c3 c4 c5 c6 c7 parity) =
      natToBits 8 b1 ++ build (eight c0 c1 c2 c3 c4 c5 c6 c7) := by
    have := slice_append_mid (natToBits 32 hdr) (natToBits 8 b1 ++ build (eight c0 c1 c2 c3 c4 c5 c6 c7))
      (natToBits 24 parity)
    simp only [List.length_append, hmid, natToBits_length] at this
    exact this
  have hcs : slice 8 56 (natToBits 8 b1 ++ build (eight c0 c1 c2 c3 c4 c5 c6 c7)) =
      build (eight c0 c1 c2 c3 c4 c5 c6 c7) := by
    have := slice_append_mid (natToBits 8 b1) (build (eight c0 c1 c2 c3 c4 c5 c6 c7)) []
    simp only [hmid, natToBits_length, List.append_nil] at this
    exact this
  have hhex := hexOfBits_isHex (cs20Frame hdr b1 c0 c1 c2 c3 c4 c5 c6 c7 parity)
  have hl : (hexOfBits (cs20Frame hdr b1 c0 c1 c2 c3 c4 c5 c6 c7 parity)).length = 28 := by
    rw [hexOfBits_length, hlen]
  have hback := hex2binM_hexOfBits (cs20Frame hdr b1 c0 c1 c2 c3 c4 c5 c6 c7 parity) (by rw [hlen])
  exact cs20_roundtrip_legal_tie _ hhex hl c0 c1 c2 c3 c4 c5 c6 c7 hc (by rw [hback, hmb, hcs])

end PyModeS.C10Gen
