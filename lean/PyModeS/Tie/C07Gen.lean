/-
  C07 transported to the source-generated definitions: the frame-level altitude theorems of `Properties/C07.lean`
  stated about `Gen.py_common.altcode`, `Gen.surv.altitude`, `Gen.bds05.altitude`, `Gen.adsb.altitude` and the encoder
  round trips about `Gen.py_common.altitude` (the Lean text py2lean.py produced from the current Python source), by
  composing the tie theorems (`Tie/Common.lean`, `Tie/Surv.lean`, `Tie/Bds05b.lean`, `Tie/Adsb.lean`) with C07.
  (The 13-bit specification and the length guard of `altitude` are in `Tie/C0278Gen.lean`.)
-/
import PyModeS.Properties.C07
import PyModeS.Tie.Common
import PyModeS.Tie.Surv
import PyModeS.Tie.Bds05b
import PyModeS.Tie.Adsb

-- symbolic execution of long generated `do` blocks: generous but finite budget (proof times are seconds)
set_option maxHeartbeats 1000000
namespace PyModeS.C07Gen
open PyModeS PyModeS.Py PyModeS.CRC PyModeS.Spec

theorem bits_ge (m : Msg) {k : Nat} (hl : k ≤ m.length) : 4 * k ≤ (hex2binM m).length := by
  rw [hex2binM_length]; omega

/-! ### round trips through the Annex 10 encoders, for the generated `common.altitude` -/

/-- Q = 0: the generated `altitude` decodes the Gillham code of every legal altitude -1200 … 126700 ft to it -/
theorem altitude_gillham_roundtrip_tie (k : Nat) (h : k < 1280) :
    Gen.py_common.altitude (Val.ofBits (ac13OfAlt k)) = .val (.num (((k : Int) * 100 - 1200 : Int) : Rat)) := by
  rw [Tie.altitude_tie, C07.gillham_roundtrip k h]; rfl

/-- Q = 1: `N*25 - 1000` ft for every `N < 2048` -/
theorem altitude_q25_roundtrip_tie (n : Nat) (h : n < 2048) :
    Gen.py_common.altitude (Val.ofBits (ac13OfN25 n)) = .val (.num (((n : Int) * 25 - 1000 : Int) : Rat)) := by
  rw [Tie.altitude_tie, C07.q25_roundtrip n h]; rfl

/-- M = 1: metres converted to feet, `floor(N * 3.28084)`, for every `0 < N < 4096` -/
theorem altitude_metric_roundtrip_tie (n : Nat) (h0 : 0 < n) (h : n < 4096) :
    Gen.py_common.altitude (Val.ofBits (ac13OfMetric n)) =
      .val (.num ((((n * 328084 / 100000 : Nat) : Int)) : Rat)) := by
  rw [Tie.altitude_tie, C07.metric_roundtrip n h0 h]; rfl

/-- the all-zero code is `None` -/
theorem altitude_zero_code_none_tie : Gen.py_common.altitude (Val.ofBits (natToBits 13 0)) = .val .none := by
  rw [Tie.altitude_tie, C07.zero_code_none]; rfl

/-- illegal Gillham patterns (C1 C2 C4 in {000, 101, 111}) give `None` for every 500-ft field -/
theorem altitude_illegal_gillham_none_tie (g : Nat) (h : g < 256) :
    Gen.py_common.altitude (Val.ofBits (ac13OfGillham g 0)) = .val .none ∧
    Gen.py_common.altitude (Val.ofBits (ac13OfGillham g 5)) = .val .none ∧
    Gen.py_common.altitude (Val.ofBits (ac13OfGillham g 7)) = .val .none := by
  obtain ⟨h0, h5, h7⟩ := C07.illegal_gillham_none g h
  have hl : ∀ c, (ac13OfGillham g c).length = 13 := fun c => by simp [ac13OfGillham]
  refine ⟨?_, ?_, ?_⟩
  · rw [Tie.altitude_tie, C07.altitude13_spec _ (hl 0), h0]; rfl
  · rw [Tie.altitude_tie, C07.altitude13_spec _ (hl 5), h5]; rfl
  · rw [Tie.altitude_tie, C07.altitude13_spec _ (hl 7), h7]; rfl

/-! ### frame level -/

/-- `common.altcode` (generated) on every hex string of at least 8 digits: for DF 0/4/16/20 the Annex 10 altitude of
    bits 20–32 (a function of the DF and the AC field only); every other DF is rejected with RuntimeError -/
theorem altcode_frame_tie (m : Msg) (h : IsHex m) (hl : 8 ≤ m.length) :
    Gen.py_common.altcode (.str m) =
      if dfB (hex2binM m) = 0 ∨ dfB (hex2binM m) = 4 ∨ dfB (hex2binM m) = 16 ∨ dfB (hex2binM m) = 20
      then .val (Val.ofOptInt (alt13 (PyModeS.bin2int (slice 19 32 (hex2binM m))))) else .rte := by
  rw [Tie.altcode_tie m h (by omega), C07.altcode_msg, C07.altcode_frame _ (bits_ge m hl)]
  split_ifs <;> rfl

/-- `surv.altitude` (generated, with its DF decorator): DF 4 only -/
theorem surv_altitude_frame_tie (m : Msg) (h : IsHex m) (hl : 8 ≤ m.length) :
    Gen.surv.altitude (.str m) =
      if dfB (hex2binM m) = 4
      then .val (Val.ofOptInt (alt13 (PyModeS.bin2int (slice 19 32 (hex2binM m))))) else .rte := by
  rw [Tie.surv_altitude_tie m h (by omega), C07.surv_altitude_frame _ (bits_ge m hl)]
  split_ifs <;> rfl

/-- the generated `surv.altitude` and `common.altcode` agree on every DF 4 frame -/
theorem surv_altitude_eq_altcode_tie (m : Msg) (h : IsHex m) (hl : 8 ≤ m.length) (hd : dfB (hex2binM m) = 4) :
    Gen.surv.altitude (.str m) = Gen.py_common.altcode (.str m) := by
  rw [surv_altitude_frame_tie m h hl, altcode_frame_tie m h hl]
  simp [hd]

/-- the right-hand side of the ADS-B altitude specification (C07.adsb_altitude_frame), as a Python value -/
def adsbAltSpec (bits : Bits) : Res Val :=
  match tcB bits with
  | none => .rte
  | some tc =>
    if 5 ≤ tc ∧ tc ≤ 8 then .val (.num 0)
    else if 9 ≤ tc ∧ tc ≤ 18 then .val (Val.ofOptInt (alt13 (PyModeS.bin2int (C07.ac13OfAdsb bits))))
    else if 20 ≤ tc ∧ tc ≤ 22 then .val (.num ((PyModeS.bin2int (slice 40 52 bits) : Rat) * 328084 / 100000))
    else .rte

theorem ofOptRat_optIntToRat (o : Option Int) : Val.ofOptRat (optIntToRat o) = Val.ofOptInt o := by
  cases o <;> rfl

theorem adsbAltitude_enc (bits : Bits) (h : bits.length = 112) :
    (adsbAltitude bits >>= fun o => (.val (Val.ofOptRat o) : Res Val)) = adsbAltSpec bits := by
  rw [C07.adsb_altitude_frame bits h]
  unfold adsbAltSpec
  cases tcB bits with
  | none => rfl
  | some tc =>
    simp only []
    split_ifs
    · simp [Val.ofOptRat]
    · simp only [Res.bind_val, ofOptRat_optIntToRat]
    · simp only [Res.bind_val, Val.ofOptRat]
    · rfl

/-- `adsb.altitude` (generated dispatcher + generated `bds05.altitude`) on every 28-digit frame: TC 9–18 barometric
    code (12-bit field, M = 0), TC 20–22 GNSS height in metres × 3.28084, TC 5–8 zero, RuntimeError otherwise —
    a function of DF, TC and ME bits 9–20 only -/
theorem adsb_altitude_frame_tie (m : Msg) (h : IsHex m) (hl : m.length = 28) :
    Gen.adsb.altitude (.str m) = adsbAltSpec (hex2binM m) := by
  have hb : (hex2binM m).length = 112 := by rw [hex2binM_length, hl]
  rw [Tie.adsb_altitude_tie_of_callee m h (by omega) (Tie.bds05_altitude_tie m h (by omega)), adsbAltitude_enc _ hb]

/-- `bds05.altitude` (generated) on every 28-digit frame: as `adsb.altitude` but TC 5–8 is rejected as well -/
theorem bds05_altitude_frame_tie (m : Msg) (h : IsHex m) (hl : m.length = 28) :
    Gen.bds05.altitude (.str m) =
      match tcB (hex2binM m) with
      | none => .rte
      | some tc => if 9 ≤ tc ∧ tc ≤ 18 ∨ 20 ≤ tc ∧ tc ≤ 22 then adsbAltSpec (hex2binM m) else .rte := by
  have hb : (hex2binM m).length = 112 := by rw [hex2binM_length, hl]
  have ha := adsb_altitude_frame_tie m h hl
  rw [Tie.adsb_altitude_tie m h (by omega)] at ha
  cases htc : tcB (hex2binM m) with
  | none =>
    rw [Tie.bds05_altitude_tie m h (by omega)]
    unfold altitude05; rw [htc]; rfl
  | some tc =>
    rw [htc] at ha
    simp only [] at ha ⊢
    by_cases c : 9 ≤ tc ∧ tc ≤ 18 ∨ 20 ≤ tc ∧ tc ≤ 22
    · have c1 : ¬ (tc < 5 ∨ tc = 19 ∨ tc > 22) := by omega
      have c2 : ¬ (tc ≥ 5 ∧ tc ≤ 8) := by omega
      rw [if_neg c1, if_neg c2] at ha
      rw [if_pos c, ha]
    · rw [if_neg c, Tie.bds05_altitude_tie m h (by omega)]
      unfold altitude05; rw [htc]
      have c1 : tc < 9 ∨ tc = 19 ∨ tc > 22 := by omega
      simp [c1]

end PyModeS.C07Gen
