/-
  Tie: the two generated versions of the CPR "number of longitude zones" function,
  `Gen.py_common.cprNL` (src/pyModeS/py_common.py:190) and `Gen.c_common.cprNL` (src/pyModeS/c_common.pyx:221),
  and their helper `floor`.

  The main branch of `cprNL` goes through double-precision `cos`/`arccos` (`Ext.np_cos`, `Ext.np_arccos`: Lean `Float`,
  opaque to the kernel), so the full tie to the exact hand model `PyModeS.cprNL` (Model/CPR.lean, property C06) is out of
  reach.  What is exact are the three guard branches (`np.isclose(lat, 0)`, `lat > 87 or lat < -87`,
  `np.isclose(abs(lat), 87)`; the Cython text spells the two `isclose` out as `abs(..) <= 1e-08 + 1e-05 * ..`):
  `Ext.np_isclose` is exact rational arithmetic `|a - b| ≤ 1e-8 + 1e-5·|b|`, `Ext.np_floor` is the exact rational floor.

  Helper lemmas live in `PyModeS.Tie.NLG`; the results in `PyModeS.Tie`.
-/
import PyModeS.Tie.CBasic
import PyModeS.Generated.Src.py_common
import PyModeS.Generated.Src.c_common
import PyModeS.Properties.C06
set_option maxHeartbeats 1000000
set_option linter.unusedSimpArgs false
set_option linter.style.nameCheck false

namespace PyModeS.Tie.NLG
open PyModeS PyModeS.Py

/-! ### the float boundary, named -/

/-- `np.pi`: the double `acos(-1.0)` as an exact rational (opaque to the kernel) -/
def piF : Rat := floatToRat (Float.acos (-1.0))

theorem np_pi_eq : Gen.Ext.np_pi = .num piF := rfl

/-- a libm function applied to a rational in double precision: the argument is rounded by `ratToFloat`, the result is
    read back exactly by `floatToRat`; `none` when the result is nan or ±inf (numpy would warn, the model raises) -/
def fl1 (f : Float → Float) (r : Rat) : Option Rat :=
  let y := f (ratToFloat r)
  if y.isNaN || y.isInf then none else some (floatToRat y)

theorem float1_num (f : Float → Float) (r : Rat) :
    Gen.Ext.float1 f (.num r) = match fl1 f r with | some c => .val (.num c) | none => .exc := by
  unfold Gen.Ext.float1 fl1
  simp only [Val.num?]
  split_ifs <;> rfl

theorem np_cos_num (r : Rat) :
    Gen.Ext.np_cos (.num r) = match fl1 Float.cos r with | some c => .val (.num c) | none => .exc :=
  float1_num _ r
theorem np_arccos_num (r : Rat) :
    Gen.Ext.np_arccos (.num r) = match fl1 Float.acos r with | some c => .val (.num c) | none => .exc :=
  float1_num _ r

/-- the main branch of `cprNL` with every external call spelled out:
    `post ⌊ 2π / acos(1 − (1 − cos(π/30)) / cos(π/180·x)²) ⌋`, `x = |lat|`.
    Only `cos`, `acos` (and the constant π) are evaluated in double precision (`fl1`, `piF`); `+ − · / ⌊⌋` between them
    are the exact rational operations of the value model (`Py/Val.lean`: Python floats are modelled exactly).
    `post` is what happens to the integer afterwards: nothing in Python, the C conversions in Cython. -/
def nlMain (post : Int → Int) (x : Rat) : Res Val :=
  match fl1 Float.cos (piF / 30), fl1 Float.cos (piF / 180 * x) with
  | some c30, some cl =>
    if cl ^ 2 = 0 then .exc
    else match fl1 Float.acos (1 - (1 - c30) / cl ^ 2) with
      | some ac => if ac = 0 then .exc else .val (Val.ofInt (post (2 * piF / ac).floor))
      | none => .exc
  | _, _ => .exc

/-- `<long> x` of a double holding the integer `n` (x86-64 `cvttsd2si`: out of range gives LONG_MIN) -/
def satLong (n : Int) : Int := if n ≥ (2 ^ 63 : Nat) ∨ n < -((2 ^ 63 : Nat) : Int) then -((2 ^ 63 : Nat) : Int) else n

/-- what the Cython text does to `⌊nl⌋`: `<long>`, `cdef long`, then `cdef int` (twice) -/
def cPost (n : Int) : Int := C.wrap32 (satLong n)

theorem satLong_of_range {n : Int} (h0 : -9223372036854775808 ≤ n) (h1 : n < 9223372036854775808) : satLong n = n := by
  unfold satLong
  have h : ((2 ^ 63 : Nat) : Int) = 9223372036854775808 := by norm_num
  rw [h, if_neg (by omega)]

theorem wrap64_of_range' {x : Int} (h0 : -9223372036854775808 ≤ x) (h1 : x < 9223372036854775808) : C.wrap64 x = x := by
  unfold C.wrap64
  have e1 : (2 : Int) ^ 64 = 18446744073709551616 := by norm_num
  have e2 : (2 : Int) ^ 63 = 9223372036854775808 := by norm_num
  simp only [e1, e2]
  split <;> omega

theorem wrap64_satLong (n : Int) : C.wrap64 (satLong n) = satLong n := by
  apply wrap64_of_range'
  · unfold satLong
    have h : ((2 ^ 63 : Nat) : Int) = 9223372036854775808 := by norm_num
    rw [h]; split_ifs <;> omega
  · unfold satLong
    have h : ((2 ^ 63 : Nat) : Int) = 9223372036854775808 := by norm_num
    rw [h]; split_ifs <;> omega

theorem cPost_of_range {n : Int} (h0 : -2147483648 ≤ n) (h1 : n < 2147483648) : cPost n = n := by
  unfold cPost
  rw [satLong_of_range (by omega) (by omega), CC.wrap32_of_range h0 h1]

/-! ### exact primitives -/

theorem ite_abs (a : Rat) : (if a < 0 then -a else a) = |a| := C06.rabs_eq_abs a

theorem pyAbs_abs (a : Rat) : pyAbs (.num a) = .val (.num |a|) := by
  rw [pyAbs_num, ite_abs]

/-- `np.isclose(a, b)` (default tolerances) is exact rational arithmetic -/
theorem isclose_num (a b : Rat) :
    Gen.Ext.np_isclose (.num a) (.num b) =
      .val (.bool (decide (|a - b| ≤ (1 : Rat) / 100000000 + (1 : Rat) / 100000 * |b|))) := by
  unfold Gen.Ext.np_isclose
  simp only [Val.num?]
  have h1 : (if a - b < 0 then b - a else a - b) = |a - b| := by
    rw [← ite_abs (a - b)]; congr 1; ring
  rw [h1, ite_abs]

theorem floor_intCast (n : Int) : Rat.floor (n : Rat) = n := by
  have : Rat.floor (n : Rat) = ⌊(n : Rat)⌋ := rfl
  rw [this]; exact Int.floor_intCast n

theorem np_floor_num (q : Rat) : Gen.Ext.np_floor (.num q) = .val (Val.ofInt q.floor) := rfl
theorem common_floor_num (q : Rat) : Gen.Ext.common_floor (.num q) = .val (Val.ofInt q.floor) := rfl

theorem pyInt1_ofInt (n : Int) : pyInt1 (Val.ofInt n) = .val (Val.ofInt n) := by
  have h := CB.truncInt?_int n
  simp only [truncInt?, Option.some.injEq] at h
  simp only [pyInt1, Val.ofInt, h]

theorem cCastLong_ofInt (n : Int) : cCastLong (Val.ofInt n) = .val (Val.ofInt (satLong n)) := by
  have h := CB.truncInt?_int n
  simp only [truncInt?, Option.some.injEq] at h
  simp only [cCastLong, Val.ofInt, Val.num?, h, satLong]
  split_ifs <;> rfl

theorem cConvDouble_num (q : Rat) : cConvDouble (.num q) = .val (.num q) := rfl

theorem num_ofInt (k : Int) : Val.num (k : Rat) = Val.ofInt k := rfl

end PyModeS.Tie.NLG

namespace PyModeS.Tie
open PyModeS PyModeS.Py NLG

/-! ### 6. `floor` -/

/-- `common.floor(x) = int(np.floor(x))` is the exact rational floor, for every rational argument
    (`Ext.np_floor` does not go through `Float`) -/
theorem floor_tie (q : Rat) : Gen.py_common.floor (.num q) = .val (Val.ofInt q.floor) := by
  unfold Gen.py_common.floor
  rw [np_floor_num, bind_val', pyInt1_ofInt]

theorem floor_int_tie (n : Int) : Gen.py_common.floor (.num (n : Rat)) = .val (.num (n : Rat)) := by
  rw [floor_tie, floor_intCast]; rfl

/-- the external `Ext.common_floor` that the generated `cprNL` calls for `floor(nl)` is the generated `floor` -/
theorem common_floor_eq_gen_floor (q : Rat) : Gen.Ext.common_floor (.num q) = Gen.py_common.floor (.num q) := by
  rw [floor_tie, common_floor_num]

/-- Cython `floor(double x)`: `<long> c_floor(x)`; the floor saturated to LONG_MIN outside the `long` range -/
theorem c_floor_tie (q : Rat) : Gen.c_common.floor (.num q) = .val (Val.ofInt (satLong q.floor)) := by
  unfold Gen.c_common.floor
  show (cConvDouble (Val.num q) >>= fun x => _) = _
  rw [cConvDouble_num, bind_val', np_floor_num, bind_val', cCastLong_ofInt, bind_val', CB.cConvLong_int,
    wrap64_satLong]

theorem c_floor_int_tie (n : Int) (h0 : -9223372036854775808 ≤ n) (h1 : n < 9223372036854775808) :
    Gen.c_common.floor (.num (n : Rat)) = .val (.num (n : Rat)) := by
  rw [c_floor_tie, floor_intCast, satLong_of_range h0 h1]; rfl

/-- the two `floor`s agree wherever the floor fits a C `long` -/
theorem c_floor_eq_py_tie (q : Rat) (h0 : -9223372036854775808 ≤ q.floor) (h1 : q.floor < 9223372036854775808) :
    Gen.c_common.floor (.num q) = Gen.py_common.floor (.num q) := by
  rw [c_floor_tie, floor_tie, satLong_of_range h0 h1]

/-! ### the whole generated `cprNL`, guards decided, main branch spelled out -/

namespace NLG

theorem pyPow_two (x : Rat) : pyPow (.num x) (.num 2) = .val (.num (x ^ 2)) := by
  have h : Val.int? (.num 2) = some (Int.ofNat 2) := by
    simp only [Val.int?]; rfl
  simp only [pyPow, Val.num?, h]

theorem pyDiv_num' (a b : Rat) : pyDiv (.num a) (.num b) = if b = 0 then .exc else .val (.num (a / b)) := rfl

/-- the text of the main branch (both modules up to the C conversions, which are the identity on numbers) -/
theorem main_py (x : Rat) :
    (do
      let __do_lift ← pyMul (Val.num 2) (Val.num 15)
      let __do_lift ← pyDiv Gen.Ext.np_pi __do_lift
      let __do_lift ← Gen.Ext.np_cos __do_lift
      let a ← pySub (Val.num 1) __do_lift
      let __do_lift ← pyDiv Gen.Ext.np_pi (Val.num 180)
      let __do_lift_1 ← (Res.val (Val.num x) : Res Val)
      let __do_lift ← pyMul __do_lift __do_lift_1
      let __do_lift ← Gen.Ext.np_cos __do_lift
      let b ← pyPow __do_lift (Val.num 2)
      let __do_lift ← pyMul (Val.num 2) Gen.Ext.np_pi
      let __do_lift_2 ← pyDiv a b
      let __do_lift_3 ← pySub (Val.num 1) __do_lift_2
      let __do_lift_4 ← Gen.Ext.np_arccos __do_lift_3
      let nl ← pyDiv __do_lift __do_lift_4
      Gen.Ext.common_floor nl : Res Val) = nlMain id x := by
  have e30 : (2 : Rat) * 15 = 30 := by norm_num
  have n30 : (30 : Rat) ≠ 0 := by norm_num
  have n180 : (180 : Rat) ≠ 0 := by norm_num
  unfold nlMain
  rw [np_pi_eq, pyMul_num, bind_val', e30, pyDiv_num _ _ n30, bind_val', np_cos_num]
  rcases fl1 Float.cos (piF / 30) with _ | c30
  · rfl
  simp only [bind_val', pySub_num, pyDiv_num _ _ n180, pyMul_num, np_cos_num]
  rcases fl1 Float.cos (piF / 180 * x) with _ | cl
  · rfl
  simp only [bind_val', pyPow_two, pyMul_num, pyDiv_num']
  by_cases hb : cl ^ 2 = 0
  · simp only [hb, if_true, bind_exc']
  simp only [hb, if_false, bind_val', pySub_num, np_arccos_num]
  rcases fl1 Float.acos (1 - (1 - c30) / cl ^ 2) with _ | ac
  · rfl
  simp only [bind_val', pyDiv_num']
  by_cases hc : ac = 0
  · simp only [hc, if_true, bind_exc']
  simp only [hc, if_false, bind_val', common_floor_num, id]

end NLG

theorem py_cprNL_unfold (q : Rat) :
    Gen.py_common.cprNL (.num q) =
      if |q| ≤ (1 : Rat) / 100000000 then .val (.num 59)
      else if 87 < q ∨ q < -87 then .val (.num 1)
      else if |(|q| - 87)| ≤ (1 : Rat) / 100000000 + (1 : Rat) / 100000 * 87 then .val (.num 2)
      else nlMain id |q| := by
  unfold Gen.py_common.cprNL
  have ez : |(0 : Rat)| = 0 := abs_zero
  have e87 : |(87 : Rat)| = 87 := abs_of_pos (by norm_num)
  rw [isclose_num, bind_val', pyTruth_bool, sub_zero, ez, mul_zero, add_zero]
  by_cases h1 : |q| ≤ (1 : Rat) / 100000000
  · rw [if_pos h1, decide_eq_true h1, if_pos rfl, Res.pure_eq]
  rw [if_neg h1, decide_eq_false h1, if_neg (by simp), pyGt_num, bind_val', pyTruth_bool, pyLt_num, pyAbs_abs]
  by_cases h2 : 87 < q ∨ q < -87
  · rw [if_pos h2]
    rcases h2 with h2 | h2
    · simp only [h2, decide_true, if_true, Res.pure_eq, bind_val', pyTruth_bool]
    · by_cases h2' : 87 < q
      · simp only [h2', decide_true, if_true, Res.pure_eq, bind_val', pyTruth_bool]
      · simp only [h2, h2', decide_true, decide_false, if_true, if_false, Res.pure_eq, bind_val', pyTruth_bool,
          Bool.false_eq_true]
  rw [if_neg h2]
  rw [not_or, not_lt, not_lt] at h2
  have h2a : ¬ 87 < q := not_lt.mpr h2.1
  have h2b : ¬ q < -87 := not_lt.mpr h2.2
  simp only [h2a, h2b, decide_false, if_false, Bool.false_eq_true, bind_val', pyTruth_bool, isclose_num, e87]
  by_cases h3 : |(|q| - 87)| ≤ (1 : Rat) / 100000000 + (1 : Rat) / 100000 * 87
  · simp only [h3, decide_true, if_true, Res.pure_eq]
  simp only [h3, decide_false, if_false, Bool.false_eq_true]
  exact main_py |q|

namespace NLG

theorem cConvInt_small (k : Int) (h0 : -2147483648 ≤ k) (h1 : k < 2147483648) :
    cConvInt (.num (k : Rat)) = .val (.num (k : Rat)) := by
  rw [num_ofInt, CB.cConvInt_int, CC.wrap32_of_range h0 h1]

theorem cConvInt_59 : cConvInt (.num 59) = .val (.num 59) := by
  have := cConvInt_small 59 (by norm_num) (by norm_num); norm_num at this; exact this
theorem cConvInt_1 : cConvInt (.num 1) = .val (.num 1) := by
  have := cConvInt_small 1 (by norm_num) (by norm_num); norm_num at this; exact this
theorem cConvInt_2 : cConvInt (.num 2) = .val (.num 2) := by
  have := cConvInt_small 2 (by norm_num) (by norm_num); norm_num at this; exact this
theorem cConvInt_15 : cConvInt (.num 15) = .val (.num 15) := by
  have := cConvInt_small 15 (by norm_num) (by norm_num); norm_num at this; exact this

/-- the text of the main branch of the Cython module -/
theorem main_c (x : Rat) :
    (do
      let nz ← cConvInt (Val.num 15)
      let __do_lift ← pyMul (Val.num 2) nz
      let __do_lift ← pyDiv Gen.Ext.np_pi __do_lift
      let __do_lift ← Gen.Ext.np_cos __do_lift
      let __do_lift ← pySub (Val.num 1) __do_lift
      let a ← cConvDouble __do_lift
      let __do_lift ← pyDiv Gen.Ext.np_pi (Val.num 180)
      let __do_lift_3 ← (Res.val (Val.num x) : Res Val)
      let __do_lift ← pyMul __do_lift __do_lift_3
      let __do_lift ← Gen.Ext.np_cos __do_lift
      let __do_lift ← pyPow __do_lift (Val.num 2)
      let b ← cConvDouble __do_lift
      let __do_lift ← pyMul (Val.num 2) Gen.Ext.np_pi
      let __do_lift_4 ← pyDiv a b
      let __do_lift_5 ← pySub (Val.num 1) __do_lift_4
      let __do_lift_6 ← Gen.Ext.np_arccos __do_lift_5
      let __do_lift ← pyDiv __do_lift __do_lift_6
      let nl ← cConvDouble __do_lift
      let NL' ← Gen.c_common.floor nl
      cConvInt NL' : Res Val) = nlMain cPost x := by
  have e30 : (2 : Rat) * 15 = 30 := by norm_num
  have n30 : (30 : Rat) ≠ 0 := by norm_num
  have n180 : (180 : Rat) ≠ 0 := by norm_num
  unfold nlMain
  rw [cConvInt_15, bind_val', np_pi_eq, pyMul_num, bind_val', e30, pyDiv_num _ _ n30, bind_val', np_cos_num]
  rcases fl1 Float.cos (piF / 30) with _ | c30
  · rfl
  simp only [bind_val', pySub_num, cConvDouble_num, pyDiv_num _ _ n180, pyMul_num, np_cos_num]
  rcases fl1 Float.cos (piF / 180 * x) with _ | cl
  · rfl
  simp only [bind_val', pyPow_two, cConvDouble_num, pyMul_num, pyDiv_num']
  by_cases hb : cl ^ 2 = 0
  · simp only [hb, if_true, bind_exc']
  simp only [hb, if_false, bind_val', pySub_num, np_arccos_num]
  rcases fl1 Float.acos (1 - (1 - c30) / cl ^ 2) with _ | ac
  · rfl
  simp only [bind_val', pyDiv_num']
  by_cases hc : ac = 0
  · simp only [hc, if_true, bind_exc']
  simp only [hc, if_false, bind_val', cConvDouble_num, c_floor_tie, CB.cConvInt_int, cPost]

end NLG

theorem c_cprNL_unfold (q : Rat) :
    Gen.c_common.cprNL (.num q) =
      if |q| ≤ (1 : Rat) / 100000000 then .val (.num 59)
      else if 87 < q ∨ q < -87 then .val (.num 1)
      else if |(|q| - 87)| ≤ (1 : Rat) / 100000000 + (1 : Rat) / 100000 * 87 then .val (.num 2)
      else nlMain cPost |q| := by
  unfold Gen.c_common.cprNL
  show (cConvDouble (Val.num q) >>= fun x => _) = _
  rw [cConvDouble_num, bind_val', pyAbs_abs, bind_val', pyLe_num, bind_val', pyTruth_bool]
  by_cases h1 : |q| ≤ (1 : Rat) / 100000000
  · rw [if_pos h1, decide_eq_true h1, if_pos rfl, cConvInt_59]
  rw [if_neg h1, decide_eq_false h1, if_neg (by simp), pyGt_num, bind_val', pyTruth_bool, pyLt_num]
  by_cases h2 : 87 < q ∨ q < -87
  · rw [if_pos h2]
    rcases h2 with h2 | h2
    · simp only [h2, decide_true, if_true, Res.pure_eq, bind_val', pyTruth_bool, cConvInt_1]
    · by_cases h2' : 87 < q
      · simp only [h2', decide_true, if_true, Res.pure_eq, bind_val', pyTruth_bool, cConvInt_1]
      · simp only [h2, h2', decide_true, decide_false, if_true, if_false, Res.pure_eq, bind_val', pyTruth_bool,
          Bool.false_eq_true, cConvInt_1]
  rw [if_neg h2]
  rw [not_or, not_lt, not_lt] at h2
  have h2a : ¬ 87 < q := not_lt.mpr h2.1
  have h2b : ¬ q < -87 := not_lt.mpr h2.2
  simp only [h2a, h2b, decide_false, if_false, Bool.false_eq_true, bind_val', pyTruth_bool, pyAbs_abs, pySub_num,
    pyMul_num, pyAdd_num, pyLe_num]
  by_cases h3 : |(|q| - 87)| ≤ (1 : Rat) / 100000000 + (1 : Rat) / 100000 * 87
  · simp only [h3, decide_true, if_true, cConvInt_2]
  simp only [h3, decide_false, if_false, Bool.false_eq_true]
  exact main_c |q|

/-! ### 1–3. the guard branches (every rational latitude) -/

namespace NLG
theorem not_zero_of_polar {q : Rat} (h : 87 < |q|) : ¬ |q| ≤ (1 : Rat) / 100000000 := by
  intro h'; norm_num at h'; linarith
theorem polar_iff (q : Rat) : 87 < |q| ↔ (87 < q ∨ q < -87) := by
  rw [lt_abs]
  constructor
  · rintro (h | h)
    · exact Or.inl h
    · exact Or.inr (by linarith)
  · rintro (h | h)
    · exact Or.inl h
    · exact Or.inr (by linarith)
theorem not_zero_of_87 {q : Rat} (h : |(|q| - 87)| ≤ (1 : Rat) / 100000000 + (1 : Rat) / 100000 * 87) :
    ¬ |q| ≤ (1 : Rat) / 100000000 := by
  intro h'
  have := (abs_le.mp h).1
  norm_num at h' this; linarith
end NLG

/-- `np.isclose(lat, 0)`: `|lat| ≤ 1e-8` gives 59 -/
theorem cprNL_zero_tie (q : Rat) (h : |q| ≤ (1 : Rat) / 100000000) :
    Gen.py_common.cprNL (.num q) = .val (.num 59) := by
  rw [py_cprNL_unfold, if_pos h]
/-- Cython: `abs(lat) <= 1e-08` gives 59 -/
theorem c_cprNL_zero_tie (q : Rat) (h : |q| ≤ (1 : Rat) / 100000000) :
    Gen.c_common.cprNL (.num q) = .val (.num 59) := by
  rw [c_cprNL_unfold, if_pos h]

/-- `lat > 87 or lat < -87` gives 1 -/
theorem cprNL_polar_tie (q : Rat) (h : 87 < |q|) : Gen.py_common.cprNL (.num q) = .val (.num 1) := by
  rw [py_cprNL_unfold, if_neg (not_zero_of_polar h), if_pos ((polar_iff q).mp h)]
theorem c_cprNL_polar_tie (q : Rat) (h : 87 < |q|) : Gen.c_common.cprNL (.num q) = .val (.num 1) := by
  rw [c_cprNL_unfold, if_neg (not_zero_of_polar h), if_pos ((polar_iff q).mp h)]

/-- `np.isclose(abs(lat), 87)`, i.e. `| |lat| − 87 | ≤ 1e-8 + 1e-5·|87|`, reached only for `|lat| ≤ 87`: gives 2.
    The window is `86.99912999 ≤ |lat| ≤ 87`. -/
theorem cprNL_87_tie (q : Rat) (h1 : |q| ≤ 87)
    (h2 : |(|q| - 87)| ≤ (1 : Rat) / 100000000 + (1 : Rat) / 100000 * 87) :
    Gen.py_common.cprNL (.num q) = .val (.num 2) := by
  rw [py_cprNL_unfold, if_neg (not_zero_of_87 h2), if_neg (fun h => absurd ((polar_iff q).mpr h) (not_lt.mpr h1)),
    if_pos h2]
/-- Cython: `abs(abs(lat) - 87) <= 1e-08 + 1e-05 * 87` (the same rational inequality) gives 2 -/
theorem c_cprNL_87_tie (q : Rat) (h1 : |q| ≤ 87)
    (h2 : |(|q| - 87)| ≤ (1 : Rat) / 100000000 + (1 : Rat) / 100000 * 87) :
    Gen.c_common.cprNL (.num q) = .val (.num 2) := by
  rw [c_cprNL_unfold, if_neg (not_zero_of_87 h2), if_neg (fun h => absurd ((polar_iff q).mpr h) (not_lt.mpr h1)),
    if_pos h2]

/-- the `isclose` window around 87 in plain form -/
theorem window_87_iff (q : Rat) :
    (|q| ≤ 87 ∧ |(|q| - 87)| ≤ (1 : Rat) / 100000000 + (1 : Rat) / 100000 * 87) ↔
      ((8699912999 : Rat) / 100000000 ≤ |q| ∧ |q| ≤ 87) := by
  constructor
  · rintro ⟨h1, h2⟩
    have h3 := (abs_le.mp h2).1
    exact ⟨by norm_num at h3 ⊢; linarith, h1⟩
  · rintro ⟨h1, h2⟩
    refine ⟨h2, abs_le.mpr ⟨?_, ?_⟩⟩
    · norm_num at h1 ⊢; linarith
    · norm_num; linarith

/-! ### 4. on the guard regions: both generated functions = hand model `PyModeS.cprNL` = exact staircase -/

/-- the hand model (Model/CPR.lean) in the same shape -/
theorem model_cprNL_unfold (q : Rat) :
    PyModeS.cprNL q =
      if |q| ≤ (1 : Rat) / 100000000 then 59
      else if 87 < q ∨ q < -87 then 1
      else if |(|q| - 87)| ≤ (1 : Rat) / 100000000 + (1 : Rat) / 100000 * 87 then 2
      else nlStair |q| := by
  unfold PyModeS.cprNL
  have e : (87 : Rat) / 100000 = (1 : Rat) / 100000 * 87 := by norm_num
  simp only [C06.rabs_eq_abs, e, gt_iff_lt]

/-- the three guard regions -/
def NLGuardRegion (q : Rat) : Prop :=
  |q| ≤ (1 : Rat) / 100000000 ∨ 87 < |q| ∨
    (|q| ≤ 87 ∧ |(|q| - 87)| ≤ (1 : Rat) / 100000000 + (1 : Rat) / 100000 * 87)

/-- On the three guard regions the two generated functions return the same value, that value is the hand model's
    `PyModeS.cprNL q`, and it is the exact DO-260B staircase `nlStair |q|` (C06: θ₃ = 86.5353…° lies below the whole
    `isclose` window 86.99912999 ≤ |q| ≤ 87, so the short-cut 2 is the exact value on all of it; NL(87) = 2, NL = 1
    above; 59 below θ₅₉ = 10.47…°).  No disagreement on any guard region. -/
theorem cprNL_guards_agree_tie (q : Rat) (h : NLGuardRegion q) :
    Gen.py_common.cprNL (.num q) = .val (Val.ofNat (PyModeS.cprNL q)) ∧
    Gen.c_common.cprNL (.num q) = .val (Val.ofNat (PyModeS.cprNL q)) ∧
    Gen.c_common.cprNL (.num q) = Gen.py_common.cprNL (.num q) ∧
    PyModeS.cprNL q = nlStair |q| := by
  have e59 : Val.ofNat 59 = .num 59 := by simp [Val.ofNat]
  have e1 : Val.ofNat 1 = .num 1 := by simp [Val.ofNat]
  have e2 : Val.ofNat 2 = .num 2 := by simp [Val.ofNat]
  refine ⟨?_, ?_, ?_, C06.cprNL_eq_stair_abs q⟩
  · rcases h with h | h | ⟨h1, h2⟩
    · rw [cprNL_zero_tie q h, model_cprNL_unfold, if_pos h, e59]
    · rw [cprNL_polar_tie q h, model_cprNL_unfold, if_neg (not_zero_of_polar h), if_pos ((polar_iff q).mp h), e1]
    · rw [cprNL_87_tie q h1 h2, model_cprNL_unfold, if_neg (not_zero_of_87 h2),
        if_neg (fun h => absurd ((polar_iff q).mpr h) (not_lt.mpr h1)), if_pos h2, e2]
  · rcases h with h | h | ⟨h1, h2⟩
    · rw [c_cprNL_zero_tie q h, model_cprNL_unfold, if_pos h, e59]
    · rw [c_cprNL_polar_tie q h, model_cprNL_unfold, if_neg (not_zero_of_polar h), if_pos ((polar_iff q).mp h), e1]
    · rw [c_cprNL_87_tie q h1 h2, model_cprNL_unfold, if_neg (not_zero_of_87 h2),
        if_neg (fun h => absurd ((polar_iff q).mpr h) (not_lt.mpr h1)), if_pos h2, e2]
  · rcases h with h | h | ⟨h1, h2⟩
    · rw [c_cprNL_zero_tie q h, cprNL_zero_tie q h]
    · rw [c_cprNL_polar_tie q h, cprNL_polar_tie q h]
    · rw [c_cprNL_87_tie q h1 h2, cprNL_87_tie q h1 h2]

/-- concrete values on the guard regions, exact staircase included: the ends of the 87-window and of the 0-window -/
theorem cprNL_guard_values :
    Gen.py_common.cprNL (.num 87) = .val (.num 2) ∧ Gen.c_common.cprNL (.num 87) = .val (.num 2) ∧ nlStair 87 = 2 ∧
    Gen.py_common.cprNL (.num (8699912999 / 100000000)) = .val (.num 2) ∧
    Gen.c_common.cprNL (.num (-8699912999 / 100000000)) = .val (.num 2) ∧
    nlStair (8699912999 / 100000000) = 2 ∧
    Gen.py_common.cprNL (.num (870000001 / 10000000)) = .val (.num 1) ∧ nlStair (870000001 / 10000000) = 1 ∧
    Gen.py_common.cprNL (.num (1 / 100000000)) = .val (.num 59) ∧ nlStair (1 / 100000000) = 59 := by
  refine ⟨cprNL_87_tie _ ?_ ?_, c_cprNL_87_tie _ ?_ ?_, C06.nlStair_87' _ (by norm_num) (by norm_num),
    cprNL_87_tie _ ?_ ?_, c_cprNL_87_tie _ ?_ ?_, C06.nlStair_87' _ (by norm_num) (by norm_num),
    cprNL_polar_tie _ ?_, C06.nlStair_gt_87 _ (by norm_num), cprNL_zero_tie _ ?_, C06.nlStair_59 _ (by norm_num)⟩ <;>
  norm_num [abs_of_pos, abs_of_neg]

/-! ### 5. the main branch -/

/-- Outside the three guard regions the generated Python function IS the explicit float expression `nlMain id |q|`
    (`NLG.nlMain`: `⌊2π / acos(1 − (1 − cos(π/30)) / cos(π/180·|q|)²)⌋` with `cos`, `acos`, π in double precision).
    Missing for a full tie to `PyModeS.cprNL`: `nlMain id |q| = .val (Val.ofNat (nlStair |q|))`, a statement about
    the values of libm `cos`/`acos` (Lean `Float`, opaque to the kernel); see `cprNL_tie_partial`. -/
theorem cprNL_main_branch_tie_partial (q : Rat) (h0 : (1 : Rat) / 100000000 < |q|) (h87 : |q| ≤ 87)
    (hw : (1 : Rat) / 100000000 + (1 : Rat) / 100000 * 87 < |(|q| - 87)|) :
    Gen.py_common.cprNL (.num q) = nlMain id |q| := by
  rw [py_cprNL_unfold, if_neg (not_le.mpr h0), if_neg (fun h => absurd ((polar_iff q).mpr h) (not_lt.mpr h87)),
    if_neg (not_le.mpr hw)]

/-- the Cython function: the same float expression, then `cPost` = `<long>` (saturating), `long`, `int` (wrapping) -/
theorem c_cprNL_main_branch_tie_partial (q : Rat) (h0 : (1 : Rat) / 100000000 < |q|) (h87 : |q| ≤ 87)
    (hw : (1 : Rat) / 100000000 + (1 : Rat) / 100000 * 87 < |(|q| - 87)|) :
    Gen.c_common.cprNL (.num q) = nlMain cPost |q| := by
  rw [c_cprNL_unfold, if_neg (not_le.mpr h0), if_neg (fun h => absurd ((polar_iff q).mpr h) (not_lt.mpr h87)),
    if_neg (not_le.mpr hw)]

/-- the main-branch region in plain form: `1e-8 < |q| < 86.99912999` -/
theorem main_region_iff (q : Rat) :
    ((1 : Rat) / 100000000 < |q| ∧ |q| ≤ 87 ∧ (1 : Rat) / 100000000 + (1 : Rat) / 100000 * 87 < |(|q| - 87)|) ↔
      ((1 : Rat) / 100000000 < |q| ∧ |q| < (8699912999 : Rat) / 100000000) := by
  constructor
  · rintro ⟨h0, h1, h2⟩
    refine ⟨h0, ?_⟩
    rw [abs_of_nonpos (by linarith)] at h2
    norm_num at h2 ⊢; linarith
  · rintro ⟨h0, h1⟩
    refine ⟨h0, by linarith, ?_⟩
    rw [abs_of_nonpos (by linarith)]
    norm_num at h1 ⊢; linarith

/-! ### the two modules against each other, and the full tie with the float evaluation named as the hypothesis -/

namespace NLG
theorem ofInt_inj {a b : Int} (h : (Res.val (Val.ofInt a) : Res Val) = .val (Val.ofInt b)) : a = b := by
  simp only [Val.ofInt, Res.val.injEq, Val.num.injEq] at h
  exact_mod_cast h

/-- the C conversions do nothing to a main-branch result that fits a C `int` -/
theorem nlMain_cPost (x : Rat) (n : Int) (h0 : -2147483648 ≤ n) (h1 : n < 2147483648)
    (h : nlMain id x = .val (Val.ofInt n)) : nlMain cPost x = .val (Val.ofInt n) := by
  revert h
  unfold nlMain
  generalize fl1 Float.cos (piF / 30) = o1
  generalize fl1 Float.cos (piF / 180 * x) = o2
  rcases o1 with _ | c30
  · exact id
  rcases o2 with _ | cl
  · exact id
  simp only
  by_cases hb : cl ^ 2 = 0
  · rw [if_pos hb, if_pos hb]; exact id
  rw [if_neg hb, if_neg hb]
  generalize fl1 Float.acos (1 - (1 - c30) / cl ^ 2) = o3
  rcases o3 with _ | ac
  · exact id
  simp only
  by_cases hc : ac = 0
  · rw [if_pos hc, if_pos hc]; exact id
  rw [if_neg hc, if_neg hc]
  intro h
  have e : (2 * piF / ac).floor = n := ofInt_inj h
  rw [e, cPost_of_range h0 h1]
end NLG

/-- Every rational latitude: whenever the generated Python `cprNL` returns an integer that fits a C `int`, the generated
    Cython `cprNL` returns the same integer (guards: identical rational inequalities; main branch: the same float
    expression, and the C conversions are the identity on such a value). -/
theorem c_cprNL_eq_py_tie_partial (q : Rat) (n : Int) (h0 : -2147483648 ≤ n) (h1 : n < 2147483648)
    (h : Gen.py_common.cprNL (.num q) = .val (Val.ofInt n)) :
    Gen.c_common.cprNL (.num q) = .val (Val.ofInt n) := by
  rw [py_cprNL_unfold] at h
  rw [c_cprNL_unfold]
  split_ifs at h ⊢
  · exact h
  · exact h
  · exact h
  · exact nlMain_cPost _ n h0 h1 h

/-- the float evaluation, named: at latitude `q` the double-precision main branch returns the exact staircase value.
    NOT true for every rational `q`: within about 1e-12° of a transition latitude the double-precision expression can
    land on the other side (observed with `#eval`, i.e. compiled `Float`, not kernel-checked:
    `q = 10470471299967/10¹²` (1e-12° below the enclosure of θ₅₉) evaluates to 58 where `nlStair` is 59;
    `q = 14828174368686/10¹²` to 57 where `nlStair` is 58; at distance 1e-9° from all 58 enclosures the two agree).
    C06 (`grid_avoids_transitions_sharp`) keeps every CPR grid latitude more than 8069e-12° away from the transitions. -/
def NLFloatOK (q : Rat) : Prop := nlMain id |q| = .val (Val.ofNat (nlStair |q|))

/-- Full tie of both generated functions to the hand model `PyModeS.cprNL` (= the exact DO-260B staircase, C06), for
    every rational latitude, with the float evaluation `NLFloatOK q` as the only hypothesis — and that hypothesis is
    used only outside the three guard regions (`cprNL_guards_agree_tie` needs none).
    Missing: `NLFloatOK q` itself for `1e-8 < |q| < 86.99912999`, a statement about libm `cos`/`acos` on doubles. -/
theorem cprNL_tie_partial (q : Rat) (hf : NLFloatOK q) :
    Gen.py_common.cprNL (.num q) = .val (Val.ofNat (PyModeS.cprNL q)) ∧
    Gen.c_common.cprNL (.num q) = .val (Val.ofNat (PyModeS.cprNL q)) := by
  have hpy : Gen.py_common.cprNL (.num q) = .val (Val.ofNat (PyModeS.cprNL q)) := by
    by_cases hg : NLGuardRegion q
    · exact (cprNL_guards_agree_tie q hg).1
    · unfold NLGuardRegion at hg
      rw [not_or, not_or] at hg
      obtain ⟨g1, g2, g3⟩ := hg
      have g2' : ¬ (87 < q ∨ q < -87) := fun h => g2 ((polar_iff q).mpr h)
      have g3' : ¬ |(|q| - 87)| ≤ (1 : Rat) / 100000000 + (1 : Rat) / 100000 * 87 :=
        fun h => g3 ⟨not_lt.mp g2, h⟩
      rw [py_cprNL_unfold, model_cprNL_unfold, if_neg g1, if_neg g2', if_neg g3', if_neg g1, if_neg g2', if_neg g3']
      exact hf
  refine ⟨hpy, ?_⟩
  rw [← CB.ofInt_natCast] at hpy ⊢
  have hr := (C06.cprNL_range q).2
  exact c_cprNL_eq_py_tie_partial q _ (by omega) (by omega) hpy

end PyModeS.Tie
