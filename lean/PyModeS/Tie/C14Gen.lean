/-
  C14 transported to the source-generated definitions: on every 28-digit hex frame the generated decoders return a value
  or raise RuntimeError — never another exception (`.exc`) — and each guarded decoder raises RuntimeError exactly outside
  its documented DF / TC / subtype set.  Derived from `C14.no_exc_112`, `C14.guard_iff`, `C14.guard_iff_surv_allcall`,
  `C14.commb_total` and the routing tables of `Properties/C14.lean` through the tie theorems.

  Not covered here: `bds09.airborne_velocity` (no tie theorem), `surv.dr` (its tie is proved in `Tie/C08Gen.lean`, where
  the corresponding totality / guard statement `dr_total_guard_tie` is), `tell` (no tie).
-/
import PyModeS.Properties.C14
import PyModeS.Tie.Common
import PyModeS.Tie.Surv
import PyModeS.Tie.Bds05b
import PyModeS.Tie.Bds08
import PyModeS.Tie.Callsign
import PyModeS.Tie.Cpr
import PyModeS.Tie.CprGlobal
import PyModeS.Tie.Bds10
import PyModeS.Tie.Bds17
import PyModeS.Tie.Bds20
import PyModeS.Tie.Bds40
import PyModeS.Tie.Bds44
import PyModeS.Tie.Bds45
import PyModeS.Tie.Bds50
import PyModeS.Tie.Bds53
import PyModeS.Tie.Bds60
import PyModeS.Tie.Is60
import PyModeS.Tie.Infer
import PyModeS.Tie.Bds61
import PyModeS.Tie.Bds62
import PyModeS.Tie.Adsb

-- symbolic execution of long generated `do` blocks: generous but finite budget (proof times are seconds)
set_option maxHeartbeats 1000000

set_option linter.unusedSimpArgs false
set_option linter.unusedTactic false
set_option linter.unreachableTactic false
set_option linter.unusedVariables false
namespace PyModeS.C14Gen
open PyModeS PyModeS.Py PyModeS.CRC PyModeS.C14

theorem frame_bits (m : Msg) (hl : m.length = 28) : (hex2binM m).length = 112 := by
  rw [hex2binM_length, hl]

/-! ### the encoding of a result into a Python value keeps the outcome class -/

theorem enc_ne_exc {α} {x : Res α} (hx : x ≠ .exc) (f : α → Val) :
    (x >>= fun a => (.val (f a) : Res Val)) ≠ .exc := by
  rcases x with (a | _ | _)
  · intro e; cases e
  · intro e; cases e
  · exact absurd rfl hx

theorem enc_rte_iff {α} (x : Res α) (f : α → Val) :
    (x >>= fun a => (.val (f a) : Res Val)) = .rte ↔ x = .rte := by
  rcases x with (a | _ | _)
  · constructor <;> (intro e; cases e)
  · exact ⟨fun _ => rfl, fun _ => rfl⟩
  · constructor <;> (intro e; cases e)

theorem enc_isVal {α} {x : Res α} (hx : x.isVal = true) (f : α → Val) :
    ∃ v, (x >>= fun a => (.val (f a) : Res Val)) = .val v := by
  rcases x with (a | _ | _)
  · exact ⟨f a, rfl⟩
  · cases hx
  · cases hx

/-- "a value or RuntimeError" -/
theorem val_or_rte_of_ne_exc {x : Res Val} (hx : x ≠ .exc) : (∃ v, x = .val v) ∨ x = .rte := by
  rcases x with (a | _ | _)
  · exact Or.inl ⟨a, rfl⟩
  · exact Or.inr rfl
  · exact absurd rfl hx

/-- `adsb.altitude` = `adsbAltitude`, with the tie of its callee plugged in -/
theorem adsb_altitude_full (m : Msg) (h : IsHex m) (hl : m.length = 28) :
    Gen.adsb.altitude (.str m) = (adsbAltitude (hex2binM m) >>= fun o => .val (Val.ofOptRat o)) :=
  Tie.adsb_altitude_tie_of_callee m h (by omega) (Tie.bds05_altitude_tie m h (by omega))

/-- `adsb.position_with_ref` = `positionWithRef`, with the ties of its two callees plugged in -/
theorem position_with_ref_full (m : Msg) (h : IsHex m) (hl : m.length = 28) (la lo : Rat) :
    Gen.adsb.position_with_ref (.str m) (.num la) (.num lo) =
      (positionWithRef (hex2binM m) la lo >>= fun p => .val (Tie.Adsb.encPos p)) := by
  have hne : m ≠ [] := by intro e; rw [e] at hl; simp at hl
  exact Tie.position_with_ref_tie_of_callees m h (by omega) la lo
    (Tie.surface_position_with_ref_tie m h hne la lo) (Tie.airborne_position_with_ref_tie m h hne la lo)

/-- `adsb.position` = `position`, with the ties of its two callees plugged in; the optional reference position is passed
    as two numbers or as `None, None` -/
theorem position_full (m0 m1 : Msg) (h0 : IsHex m0) (h1 : IsHex m1) (hl0 : m0.length = 28) (hl1 : m1.length = 28)
    (t0 t1 : Rat) (ref : Option (Rat × Rat)) :
    Gen.adsb.position (.str m0) (.str m1) (.num t0) (.num t1)
        (match ref with | none => Val.none | some r => .num r.1) (match ref with | none => Val.none | some r => .num r.2) =
      (PyModeS.position (hex2binM m0) (hex2binM m1) t0 t1 ref >>= fun o => .val (Tie.Adsb.encOptPos o)) := by
  have hne0 : m0 ≠ [] := by intro e; rw [e] at hl0; simp at hl0
  have hne1 : m1 ≠ [] := by intro e; rw [e] at hl1; simp at hl1
  have he : Tie.CprGlobal.encOptPos = Tie.Adsb.encOptPos := by
    funext o
    rcases o with _ | ⟨a, b⟩ <;> rfl
  have hs : ∀ la lo,
      Gen.bds06.surface_position (.str m0) (.str m1) (.num t0) (.num t1) (.num la) (.num lo) =
        (surfacePosition (hex2binM m0) (hex2binM m1) t0 t1 la lo >>= fun o => .val (Tie.Adsb.encOptPos o)) := by
    intro la lo
    rw [Tie.surface_position_tie m0 m1 h0 h1 hne0 hne1 t0 t1 la lo, he]
  have ha : Gen.bds05.airborne_position (.str m0) (.str m1) (.num t0) (.num t1) =
      (airbornePosition (hex2binM m0) (hex2binM m1) t0 t1 >>= fun o => .val (Tie.Adsb.encOptPos o)) := by
    rw [Tie.airborne_position_tie m0 m1 h0 h1 (by omega) (by omega) t0 t1, he]
  rcases ref with _ | r
  · exact Tie.position_tie_of_callees m0 m1 h0 h1 (by omega) (by omega) t0 t1 none (fun la lo _ => hs la lo) ha
  · exact Tie.position_tie_of_callees m0 m1 h0 h1 (by omega) (by omega) t0 t1 (some r) (fun la lo _ => hs la lo) ha

/-! ### 5. no exception other than RuntimeError -/

/-- **C14 (totality), generated ADS-B decoders** (bds05/06/08/09/61/62 and adsb.py): on every 28-digit hex frame none of
    them lets an exception other than RuntimeError escape -/
theorem no_exc_adsb_tie (m : Msg) (h : IsHex m) (hl : m.length = 28) :
    Gen.adsb.altitude (.str m) ≠ .exc ∧ Gen.bds05.altitude (.str m) ≠ .exc ∧
    (∀ src : Bool, Gen.bds06.surface_velocity (.str m) (.bool src) ≠ .exc) ∧
    Gen.bds08.category (.str m) ≠ .exc ∧ Gen.bds08.callsign (.str m) ≠ .exc ∧
    Gen.bds09.altitude_diff (.str m) ≠ .exc ∧ Gen.bds61.is_emergency (.str m) ≠ .exc ∧
    Gen.bds61.emergency_state (.str m) ≠ .exc ∧ Gen.bds61.emergency_squawk (.str m) ≠ .exc ∧
    Gen.bds62.selected_altitude (.str m) ≠ .exc ∧ Gen.bds62.target_altitude (.str m) ≠ .exc ∧
    Gen.bds62.vertical_mode (.str m) ≠ .exc ∧ Gen.bds62.horizontal_mode (.str m) ≠ .exc ∧
    Gen.bds62.selected_heading (.str m) ≠ .exc ∧ Gen.bds62.target_angle (.str m) ≠ .exc ∧
    Gen.bds62.baro_pressure_setting (.str m) ≠ .exc ∧ Gen.bds62.autopilot (.str m) ≠ .exc ∧
    Gen.bds62.vnav_mode (.str m) ≠ .exc ∧ Gen.bds62.altitude_hold_mode (.str m) ≠ .exc ∧
    Gen.bds62.approach_mode (.str m) ≠ .exc ∧ Gen.bds62.lnav_mode (.str m) ≠ .exc ∧
    Gen.bds62.tcas_operational (.str m) ≠ .exc ∧ Gen.bds62.tcas_ra (.str m) ≠ .exc ∧
    Gen.bds62.emergency_status (.str m) ≠ .exc ∧ Gen.adsb.oe_flag (.str m) ≠ .exc ∧
    Gen.adsb.version (.str m) ≠ .exc ∧ Gen.adsb.nuc_p (.str m) ≠ .exc ∧ Gen.adsb.nuc_v (.str m) ≠ .exc ∧
    (∀ nics, nics ≤ 1 → Gen.adsb.nic_v1 (.str m) (Val.ofNat nics) ≠ .exc) ∧
    (∀ nica nicbc, Gen.adsb.nic_v2 (.str m) (Val.ofNat nica) (Val.ofNat nicbc) ≠ .exc) ∧
    Gen.adsb.nic_s (.str m) ≠ .exc ∧ Gen.adsb.nic_a_c (.str m) ≠ .exc ∧ Gen.adsb.nic_b (.str m) ≠ .exc ∧
    Gen.adsb.nac_p (.str m) ≠ .exc ∧ Gen.adsb.nac_v (.str m) ≠ .exc ∧
    (∀ v : Option Nat, Gen.adsb.sil (.str m) (Val.ofOptNat v) ≠ .exc) ∧
    (∀ la lo : Rat, Gen.adsb.position_with_ref (.str m) (.num la) (.num lo) ≠ .exc) := by
  have hne : m ≠ [] := by intro e; rw [e] at hl; simp at hl
  obtain ⟨a1, a2, a3, a4, a5, -, a7, a8, a9, a10, a11, a12, a13, a14, a15, a16, a17, a18, a19, a20, a21, a22, a23,
    a24, a25, a26, a27, a28, a29, a30, a31, a32, a33, a34, a35, a36, a37, a38⟩ := no_exc_adsb _ (frame_bits m hl)
  refine ⟨?_, ?_, fun src => ?_, ?_, ?_, ?_, ?_, ?_, ?_, ?_, ?_, ?_, ?_, ?_, ?_, ?_, ?_, ?_, ?_, ?_, ?_, ?_, ?_, ?_, ?_,
    ?_, ?_, ?_, fun nics hn => ?_, fun nica nicbc => ?_, ?_, ?_, ?_, ?_, ?_, fun v => ?_, fun la lo => ?_⟩
  · rw [adsb_altitude_full m h hl]; exact enc_ne_exc a1 _
  · rw [Tie.bds05_altitude_tie m h (by omega)]; exact enc_ne_exc a2 _
  · rw [Tie.surface_velocity_tie m h (by omega) src]; exact enc_ne_exc a3 _
  · rw [Tie.category_tie m h (by omega)]; exact enc_ne_exc a4 _
  · rw [Tie.callsign_tie m h (by omega)]; exact enc_ne_exc a5 _
  · rw [Tie.altitude_diff_tie m h (by omega)]; exact enc_ne_exc a7 _
  · rw [Tie.is_emergency_tie m h hl]; exact enc_ne_exc a8 _
  · rw [Tie.emergency_state_tie m h hl]; exact enc_ne_exc a9 _
  · rw [Tie.emergency_squawk_tie m h hl]; exact enc_ne_exc a10 _
  · rw [Tie.selected_altitude_tie m h hl]; exact enc_ne_exc a11 _
  · rw [Tie.target_altitude_tie m h hl]; exact enc_ne_exc a12 _
  · rw [Tie.vertical_mode_tie m h hl]; exact enc_ne_exc a13 _
  · rw [Tie.horizontal_mode_tie m h hl]; exact enc_ne_exc a14 _
  · rw [Tie.selected_heading_tie m h hl]; exact enc_ne_exc a15 _
  · rw [Tie.target_angle_tie m h hl]; exact enc_ne_exc a16 _
  · rw [Tie.baro_pressure_setting_tie m h hl]; exact enc_ne_exc a17 _
  · rw [Tie.autopilot_tie m h hl]; exact enc_ne_exc a18 _
  · rw [Tie.vnav_mode_tie m h hl]; exact enc_ne_exc a19 _
  · rw [Tie.altitude_hold_mode_tie m h hl]; exact enc_ne_exc a20 _
  · rw [Tie.approach_mode_tie m h hl]; exact enc_ne_exc a21 _
  · rw [Tie.lnav_mode_tie m h hl]; exact enc_ne_exc a22 _
  · rw [Tie.tcas_operational_tie m h hl]; exact enc_ne_exc a23 _
  · rw [Tie.tcas_ra_tie m h hl]; exact enc_ne_exc a24 _
  · rw [Tie.emergency_status_tie m h hl]; exact enc_ne_exc a25 _
  · rw [Tie.oe_flag_tie m h hne]; exact enc_ne_exc a26 _
  · rw [Tie.version_tie m h (by omega)]; exact enc_ne_exc a27 _
  · rw [Tie.nuc_p_tie m h (by omega)]; exact enc_ne_exc a28 _
  · rw [Tie.nuc_v_tie m h (by omega)]; exact enc_ne_exc a29 _
  · rw [Tie.nic_v1_tie m h (by omega)]; exact enc_ne_exc (a30 nics hn) _
  · rw [Tie.nic_v2_tie m h (by omega)]; exact enc_ne_exc (a31 nica nicbc) _
  · rw [Tie.nic_s_tie m h (by omega)]; exact enc_ne_exc a32 _
  · rw [Tie.nic_a_c_tie m h (by omega)]; exact enc_ne_exc a33 _
  · rw [Tie.nic_b_tie m h (by omega)]; exact enc_ne_exc a34 _
  · rw [Tie.nac_p_tie m h (by omega)]; exact enc_ne_exc a35 _
  · rw [Tie.nac_v_tie m h (by omega)]; exact enc_ne_exc a36 _
  · rw [Tie.sil_tie m h (by omega)]; exact enc_ne_exc (a37 v) _
  · rw [position_with_ref_full m h hl]; exact enc_ne_exc (a38 la lo) _

/-- `adsb.position` (generated, with the generated bds05 / bds06 global decoders) on two 28-digit hex frames, any times
    and any reference (two numbers, or `None, None`) -/
theorem no_exc_position_tie (m0 m1 : Msg) (h0 : IsHex m0) (h1 : IsHex m1) (hl0 : m0.length = 28) (hl1 : m1.length = 28)
    (t0 t1 : Rat) (ref : Option (Rat × Rat)) :
    Gen.adsb.position (.str m0) (.str m1) (.num t0) (.num t1)
      (match ref with | none => Val.none | some r => .num r.1) (match ref with | none => Val.none | some r => .num r.2)
      ≠ .exc := by
  rw [position_full m0 m1 h0 h1 hl0 hl1]
  exact enc_ne_exc (no_exc_position _ _ (frame_bits m0 hl0) (frame_bits m1 hl1) t0 t1 ref) _

/-- **every generated Comm-B function returns a value** on every 28-digit hex frame (so neither RuntimeError nor any
    other exception), whatever `mrar` -/
theorem commb_total_tie (m : Msg) (h : IsHex m) (hl : m.length = 28) :
    (∃ v, Gen.bds10.ovc10 (.str m) = .val v) ∧ (∃ v, Gen.bds10.is10 (.str m) = .val v) ∧
    (∃ v, Gen.bds17.cap17 (.str m) = .val v) ∧ (∃ v, Gen.bds17.is17 (.str m) = .val v) ∧
    (∃ v, Gen.bds20.cs20 (.str m) = .val v) ∧ (∃ v, Gen.bds20.is20 (.str m) = .val v) ∧
    (∃ v, Gen.bds30.is30 (.str m) = .val v) ∧ (∃ v, Gen.bds40.is40 (.str m) = .val v) ∧
    (∃ v, Gen.bds40.selalt40mcp (.str m) = .val v) ∧ (∃ v, Gen.bds40.selalt40fms (.str m) = .val v) ∧
    (∃ v, Gen.bds40.p40baro (.str m) = .val v) ∧ (∃ v, Gen.bds44.is44 (.str m) = .val v) ∧
    (∃ v, Gen.bds44.wind44 (.str m) = .val v) ∧ (∃ v, Gen.bds44.temp44 (.str m) = .val v) ∧
    (∃ v, Gen.bds44.p44 (.str m) = .val v) ∧ (∃ v, Gen.bds44.hum44 (.str m) = .val v) ∧
    (∃ v, Gen.bds44.turb44 (.str m) = .val v) ∧ (∃ v, Gen.bds45.is45 (.str m) = .val v) ∧
    (∃ v, Gen.bds45.turb45 (.str m) = .val v) ∧ (∃ v, Gen.bds45.ws45 (.str m) = .val v) ∧
    (∃ v, Gen.bds45.mb45 (.str m) = .val v) ∧ (∃ v, Gen.bds45.ic45 (.str m) = .val v) ∧
    (∃ v, Gen.bds45.wv45 (.str m) = .val v) ∧ (∃ v, Gen.bds45.temp45 (.str m) = .val v) ∧
    (∃ v, Gen.bds45.p45 (.str m) = .val v) ∧ (∃ v, Gen.bds45.rh45 (.str m) = .val v) ∧
    (∃ v, Gen.bds50.is50 (.str m) = .val v) ∧ (∃ v, Gen.bds50.roll50 (.str m) = .val v) ∧
    (∃ v, Gen.bds50.trk50 (.str m) = .val v) ∧ (∃ v, Gen.bds50.gs50 (.str m) = .val v) ∧
    (∃ v, Gen.bds50.rtrk50 (.str m) = .val v) ∧ (∃ v, Gen.bds50.tas50 (.str m) = .val v) ∧
    (∃ v, Gen.bds53.is53 (.str m) = .val v) ∧ (∃ v, Gen.bds53.hdg53 (.str m) = .val v) ∧
    (∃ v, Gen.bds53.ias53 (.str m) = .val v) ∧ (∃ v, Gen.bds53.mach53 (.str m) = .val v) ∧
    (∃ v, Gen.bds53.tas53 (.str m) = .val v) ∧ (∃ v, Gen.bds53.vr53 (.str m) = .val v) ∧
    (∃ v, Gen.bds60.is60 (.str m) = .val v) ∧ (∃ v, Gen.bds60.hdg60 (.str m) = .val v) ∧
    (∃ v, Gen.bds60.ias60 (.str m) = .val v) ∧ (∃ v, Gen.bds60.mach60 (.str m) = .val v) ∧
    (∃ v, Gen.bds60.vr60baro (.str m) = .val v) ∧ (∃ v, Gen.bds60.vr60ins (.str m) = .val v) ∧
    (∀ mrar : Bool, ∃ v, Gen.bds.infer (.str m) (.bool mrar) = .val v) := by
  obtain ⟨c1, c2, c3, c4, c5, c6, c7, c8, c9, c10, c11, c12, c13, c14, c15, c16, c17, c18, c19, c20, c21,
    c22, c23, c24, c25, c26, c27, c28, c29, c30, c31, c32, c33, c34, c35, c36, c37, c38, -, c40, c41,
    c42, c43, c44, c45, c46⟩ := commb_total _ (frame_bits m hl)
  refine ⟨?_, ?_, ?_, ?_, ?_, ?_, ?_, ?_, ?_, ?_, ?_, ?_, ?_, ?_, ?_, ?_, ?_, ?_, ?_, ?_, ?_, ?_, ?_, ?_, ?_, ?_, ?_, ?_,
    ?_, ?_, ?_, ?_, ?_, ?_, ?_, ?_, ?_, ?_, ?_, ?_, ?_, ?_, ?_, ?_, fun mrar => ?_⟩
  · rw [Tie.ovc10_tie m h hl]; exact enc_isVal c1 _
  · rw [Tie.is10_tie m h hl]; exact enc_isVal c2 _
  · rw [Tie.cap17_tie m h hl]; exact enc_isVal c3 _
  · rw [Tie.is17_tie m h hl]; exact enc_isVal c4 _
  · rw [Tie.cs20_tie m h hl]; exact enc_isVal c5 _
  · rw [Tie.is20_tie m h hl]; exact enc_isVal c6 _
  · rw [Tie.is30_tie m h hl]; exact enc_isVal c7 _
  · rw [Tie.is40_tie m h hl]; exact enc_isVal c8 _
  · rw [Tie.selalt40mcp_tie m h hl]; exact enc_isVal c9 _
  · rw [Tie.selalt40fms_tie m h hl]; exact enc_isVal c10 _
  · rw [Tie.p40baro_tie m h hl]; exact enc_isVal c11 _
  · rw [Tie.is44_tie m h hl]; exact enc_isVal c12 _
  · rw [Tie.wind44_tie m h hl]; exact enc_isVal c13 _
  · rw [Tie.temp44_tie m h hl]; exact enc_isVal c14 _
  · rw [Tie.p44_tie m h hl]; exact enc_isVal c15 _
  · rw [Tie.hum44_tie m h hl]; exact enc_isVal c16 _
  · rw [Tie.turb44_tie m h hl]; exact enc_isVal c17 _
  · rw [Tie.is45_tie m h hl]; exact enc_isVal c18 _
  · rw [Tie.turb45_tie m h hl]; exact enc_isVal c19 _
  · rw [Tie.ws45_tie m h hl]; exact enc_isVal c20 _
  · rw [Tie.mb45_tie m h hl]; exact enc_isVal c21 _
  · rw [Tie.ic45_tie m h hl]; exact enc_isVal c22 _
  · rw [Tie.wv45_tie m h hl]; exact enc_isVal c23 _
  · rw [Tie.temp45_tie m h hl]; exact enc_isVal c24 _
  · rw [Tie.p45_tie m h hl]; exact enc_isVal c25 _
  · rw [Tie.rh45_tie m h hl]; exact enc_isVal c26 _
  · rw [Tie.is50_tie m h hl]; exact enc_isVal c27 _
  · rw [Tie.roll50_tie m h hl]; exact enc_isVal c28 _
  · rw [Tie.trk50_tie m h hl]; exact enc_isVal c29 _
  · rw [Tie.gs50_tie m h hl]; exact enc_isVal c30 _
  · rw [Tie.rtrk50_tie m h hl]; exact enc_isVal c31 _
  · rw [Tie.tas50_tie m h hl]; exact enc_isVal c32 _
  · rw [Tie.is53_tie m h hl]; exact enc_isVal c33 _
  · rw [Tie.hdg53_tie m h hl]; exact enc_isVal c34 _
  · rw [Tie.ias53_tie m h hl]; exact enc_isVal c35 _
  · rw [Tie.mach53_tie m h hl]; exact enc_isVal c36 _
  · rw [Tie.tas53_tie m h hl]; exact enc_isVal c37 _
  · rw [Tie.vr53_tie m h hl]; exact enc_isVal c38 _
  · rw [Tie.is60_tie m h hl]; exact enc_isVal (c40 Tie.extIas) _
  · rw [Tie.hdg60_tie m h hl]; exact enc_isVal c41 _
  · rw [Tie.ias60_tie m h hl]; exact enc_isVal c42 _
  · rw [Tie.mach60_tie m h hl]; exact enc_isVal c43 _
  · rw [Tie.vr60baro_tie m h hl]; exact enc_isVal c44 _
  · rw [Tie.vr60ins_tie m h hl]; exact enc_isVal c45 _
  · rw [Tie.infer_tie m h hl]; exact enc_isVal (c46 Tie.extIas mrar) _

/-- surv.py and allcall.py (generated, with their DF decorators), on 14-digit and on 28-digit hex frames -/
theorem no_exc_surv_allcall_tie (m : Msg) (h : IsHex m) (hl : m.length = 14 ∨ m.length = 28) :
    Gen.surv.fs (.str m) ≠ .exc ∧ Gen.surv.um (.str m) ≠ .exc ∧ Gen.surv.altitude (.str m) ≠ .exc ∧
    Gen.surv.identity (.str m) ≠ .exc ∧ Gen.allcall.interrogator (.str m) ≠ .exc ∧
    Gen.allcall.capability (.str m) ≠ .exc := by
  have hb : (hex2binM m).length = 56 ∨ (hex2binM m).length = 112 := by rw [hex2binM_length]; omega
  obtain ⟨s1, -, s3, s4, s5, s6, s7⟩ := no_exc_surv_allcall _ hb
  refine ⟨?_, ?_, ?_, ?_, ?_, ?_⟩
  · rw [Tie.fs_tie m h (by omega)]; exact enc_ne_exc s1 _
  · rw [Tie.um_tie m h (by omega)]; exact enc_ne_exc s3 _
  · rw [Tie.surv_altitude_tie m h (by omega)]; exact enc_ne_exc s4 _
  · rw [Tie.identity_tie m h (by omega)]; exact enc_ne_exc s5 _
  · rw [Tie.interrogator_tie m h (by omega)]; exact enc_ne_exc s6 _
  · rw [Tie.capability_tie m h (by omega)]; exact enc_ne_exc s7 _

/-- in the form "a value or RuntimeError", e.g. for the dispatchers of adsb.py -/
theorem adsb_dispatch_val_or_rte_tie (m : Msg) (h : IsHex m) (hl : m.length = 28) :
    ((∃ v, Gen.adsb.altitude (.str m) = .val v) ∨ Gen.adsb.altitude (.str m) = .rte) ∧
    (∀ la lo : Rat, (∃ v, Gen.adsb.position_with_ref (.str m) (.num la) (.num lo) = .val v) ∨
      Gen.adsb.position_with_ref (.str m) (.num la) (.num lo) = .rte) := by
  have := no_exc_adsb_tie m h hl
  exact ⟨val_or_rte_of_ne_exc this.1, fun la lo =>
    val_or_rte_of_ne_exc (this.2.2.2.2.2.2.2.2.2.2.2.2.2.2.2.2.2.2.2.2.2.2.2.2.2.2.2.2.2.2.2.2.2.2.2.2 la lo)⟩

/-! ### 6. type guards: RuntimeError exactly outside the documented DF / TC / subtype -/

/-- **C14 (type guards), generated ADS-B decoders.** On every 28-digit hex frame each TC-guarded generated decoder
    raises RuntimeError exactly when (DF, TC, subtype) is outside its documented set (`HasTC bits P`: the frame is
    DF17/18 and its type code satisfies `P`; `PosTC`: 5–18 or 20–22); by `no_exc_adsb_tie` it returns a value in every
    other case.  The TC 29 guards are stated as coded (only one value of the 2-bit subtype field, ME bits 6–7, is
    excluded); for TC 28 the 3-bit subtype is ME bits 6–8. -/
theorem guard_iff_tie (m : Msg) (h : IsHex m) (hl : m.length = 28) :
    (Gen.adsb.altitude (.str m) = .rte ↔ ¬ HasTC (hex2binM m) PosTC) ∧
    (Gen.bds05.altitude (.str m) = .rte ↔ ¬ HasTC (hex2binM m) (fun tc => 9 ≤ tc ∧ tc ≤ 18 ∨ 20 ≤ tc ∧ tc ≤ 22)) ∧
    (∀ src : Bool, Gen.bds06.surface_velocity (.str m) (.bool src) = .rte ↔
      ¬ HasTC (hex2binM m) (fun tc => 5 ≤ tc ∧ tc ≤ 8)) ∧
    (Gen.bds09.altitude_diff (.str m) = .rte ↔ tcB (hex2binM m) ≠ some 19) ∧
    (Gen.adsb.nuc_v (.str m) = .rte ↔ tcB (hex2binM m) ≠ some 19) ∧
    (Gen.adsb.nac_v (.str m) = .rte ↔ tcB (hex2binM m) ≠ some 19) ∧
    (Gen.bds08.category (.str m) = .rte ↔ ¬ HasTC (hex2binM m) (fun tc => 1 ≤ tc ∧ tc ≤ 4)) ∧
    (Gen.bds08.callsign (.str m) = .rte ↔ ¬ HasTC (hex2binM m) (fun tc => 1 ≤ tc ∧ tc ≤ 4)) ∧
    (Gen.adsb.version (.str m) = .rte ↔ tcB (hex2binM m) ≠ some 31) ∧
    (Gen.adsb.nic_s (.str m) = .rte ↔ tcB (hex2binM m) ≠ some 31) ∧
    (Gen.adsb.nic_a_c (.str m) = .rte ↔ tcB (hex2binM m) ≠ some 31) ∧
    (Gen.adsb.nic_b (.str m) = .rte ↔ ¬ HasTC (hex2binM m) (fun tc => 9 ≤ tc ∧ tc ≤ 18)) ∧
    (Gen.adsb.nuc_p (.str m) = .rte ↔ ¬ HasTC (hex2binM m) PosTC) ∧
    (∀ nics, nics ≤ 1 → (Gen.adsb.nic_v1 (.str m) (Val.ofNat nics) = .rte ↔ ¬ HasTC (hex2binM m) PosTC)) ∧
    (∀ nica nicbc, Gen.adsb.nic_v2 (.str m) (Val.ofNat nica) (Val.ofNat nicbc) = .rte ↔ ¬ HasTC (hex2binM m) PosTC) ∧
    (Gen.adsb.nac_p (.str m) = .rte ↔ ¬ HasTC (hex2binM m) (fun tc => tc = 29 ∨ tc = 31)) ∧
    (∀ v : Option Nat, Gen.adsb.sil (.str m) (Val.ofOptNat v) = .rte ↔
      ¬ HasTC (hex2binM m) (fun tc => tc = 29 ∨ tc = 31)) ∧
    (Gen.bds61.emergency_squawk (.str m) = .rte ↔ tcB (hex2binM m) ≠ some 28) ∧
    (Gen.bds61.is_emergency (.str m) = .rte ↔
      ¬ (tcB (hex2binM m) = some 28 ∧ PyModeS.bin2int (slice 37 40 (hex2binM m)) ≠ 2)) ∧
    (Gen.bds61.emergency_state (.str m) = .rte ↔
      ¬ (tcB (hex2binM m) = some 28 ∧ PyModeS.bin2int (slice 37 40 (hex2binM m)) ≠ 2)) ∧
    -- TC 29, "version 1"-style decoders, as coded
    (Gen.bds62.selected_altitude (.str m) = .rte ↔
      tcB (hex2binM m) ≠ some 29 ∨ PyModeS.bin2int (slice 37 39 (hex2binM m)) = 0) ∧
    (Gen.bds62.baro_pressure_setting (.str m) = .rte ↔
      tcB (hex2binM m) ≠ some 29 ∨ PyModeS.bin2int (slice 37 39 (hex2binM m)) = 0) ∧
    (Gen.bds62.selected_heading (.str m) = .rte ↔
      tcB (hex2binM m) ≠ some 29 ∨ PyModeS.bin2int (slice 37 39 (hex2binM m)) = 0) ∧
    (Gen.bds62.autopilot (.str m) = .rte ↔
      tcB (hex2binM m) ≠ some 29 ∨ PyModeS.bin2int (slice 37 39 (hex2binM m)) = 0) ∧
    (Gen.bds62.vnav_mode (.str m) = .rte ↔
      tcB (hex2binM m) ≠ some 29 ∨ PyModeS.bin2int (slice 37 39 (hex2binM m)) = 0) ∧
    (Gen.bds62.altitude_hold_mode (.str m) = .rte ↔
      tcB (hex2binM m) ≠ some 29 ∨ PyModeS.bin2int (slice 37 39 (hex2binM m)) = 0) ∧
    (Gen.bds62.approach_mode (.str m) = .rte ↔
      tcB (hex2binM m) ≠ some 29 ∨ PyModeS.bin2int (slice 37 39 (hex2binM m)) = 0) ∧
    (Gen.bds62.lnav_mode (.str m) = .rte ↔
      tcB (hex2binM m) ≠ some 29 ∨ PyModeS.bin2int (slice 37 39 (hex2binM m)) = 0) ∧
    -- TC 29, "version 0"-style decoders, as coded
    (Gen.bds62.target_altitude (.str m) = .rte ↔
      tcB (hex2binM m) ≠ some 29 ∨ PyModeS.bin2int (slice 37 39 (hex2binM m)) = 1) ∧
    (Gen.bds62.vertical_mode (.str m) = .rte ↔
      tcB (hex2binM m) ≠ some 29 ∨ PyModeS.bin2int (slice 37 39 (hex2binM m)) = 1) ∧
    (Gen.bds62.horizontal_mode (.str m) = .rte ↔
      tcB (hex2binM m) ≠ some 29 ∨ PyModeS.bin2int (slice 37 39 (hex2binM m)) = 1) ∧
    (Gen.bds62.target_angle (.str m) = .rte ↔
      tcB (hex2binM m) ≠ some 29 ∨ PyModeS.bin2int (slice 37 39 (hex2binM m)) = 1) ∧
    (Gen.bds62.tcas_ra (.str m) = .rte ↔
      tcB (hex2binM m) ≠ some 29 ∨ PyModeS.bin2int (slice 37 39 (hex2binM m)) = 1) ∧
    (Gen.bds62.emergency_status (.str m) = .rte ↔
      tcB (hex2binM m) ≠ some 29 ∨ PyModeS.bin2int (slice 37 39 (hex2binM m)) = 1) ∧
    (Gen.bds62.tcas_operational (.str m) = .rte ↔ tcB (hex2binM m) ≠ some 29) ∧
    (∀ la lo : Rat, Gen.adsb.position_with_ref (.str m) (.num la) (.num lo) = .rte ↔ ¬ HasTC (hex2binM m) PosTC) := by
  obtain ⟨g1, g2, g3, -, g5, g6, g7, g8, g9, g10, g11, g12, g13, g14, g15, g16, g17, g18, g19, g20, g21, g22, g23, g24,
    g25, g26, g27, g28, g29, g30, g31, g32, g33, g34, g35, g36, g37⟩ := guard_iff _ (frame_bits m hl)
  refine ⟨?_, ?_, fun src => ?_, ?_, ?_, ?_, ?_, ?_, ?_, ?_, ?_, ?_, ?_, fun nics hn => ?_, fun nica nicbc => ?_, ?_,
    fun v => ?_, ?_, ?_, ?_, ?_, ?_, ?_, ?_, ?_, ?_, ?_, ?_, ?_, ?_, ?_, ?_, ?_, ?_, ?_, fun la lo => ?_⟩
  · rw [adsb_altitude_full m h hl, enc_rte_iff]; exact g1
  · rw [Tie.bds05_altitude_tie m h (by omega), enc_rte_iff]; exact g2
  · rw [Tie.surface_velocity_tie m h (by omega) src, enc_rte_iff]; exact g3
  · rw [Tie.altitude_diff_tie m h (by omega), enc_rte_iff]; exact g5
  · rw [Tie.nuc_v_tie m h (by omega), enc_rte_iff]; exact g6
  · rw [Tie.nac_v_tie m h (by omega), enc_rte_iff]; exact g7
  · rw [Tie.category_tie m h (by omega), enc_rte_iff]; exact g8
  · rw [Tie.callsign_tie m h (by omega), enc_rte_iff]; exact g9
  · rw [Tie.version_tie m h (by omega), enc_rte_iff]; exact g10
  · rw [Tie.nic_s_tie m h (by omega), enc_rte_iff]; exact g11
  · rw [Tie.nic_a_c_tie m h (by omega), enc_rte_iff]; exact g12
  · rw [Tie.nic_b_tie m h (by omega), enc_rte_iff]; exact g13
  · rw [Tie.nuc_p_tie m h (by omega), enc_rte_iff]; exact g14
  · rw [Tie.nic_v1_tie m h (by omega), enc_rte_iff]; exact g15 nics hn
  · rw [Tie.nic_v2_tie m h (by omega), enc_rte_iff]; exact g16 nica nicbc
  · rw [Tie.nac_p_tie m h (by omega), enc_rte_iff]; exact g17
  · rw [Tie.sil_tie m h (by omega), enc_rte_iff]; exact g18 v
  · rw [Tie.emergency_squawk_tie m h hl, enc_rte_iff]; exact g19
  · rw [Tie.is_emergency_tie m h hl, enc_rte_iff]; exact g20
  · rw [Tie.emergency_state_tie m h hl, enc_rte_iff]; exact g21
  · rw [Tie.selected_altitude_tie m h hl, enc_rte_iff]; exact g22
  · rw [Tie.baro_pressure_setting_tie m h hl, enc_rte_iff]; exact g23
  · rw [Tie.selected_heading_tie m h hl, enc_rte_iff]; exact g24
  · rw [Tie.autopilot_tie m h hl, enc_rte_iff]; exact g25
  · rw [Tie.vnav_mode_tie m h hl, enc_rte_iff]; exact g26
  · rw [Tie.altitude_hold_mode_tie m h hl, enc_rte_iff]; exact g27
  · rw [Tie.approach_mode_tie m h hl, enc_rte_iff]; exact g28
  · rw [Tie.lnav_mode_tie m h hl, enc_rte_iff]; exact g29
  · rw [Tie.target_altitude_tie m h hl, enc_rte_iff]; exact g30
  · rw [Tie.vertical_mode_tie m h hl, enc_rte_iff]; exact g31
  · rw [Tie.horizontal_mode_tie m h hl, enc_rte_iff]; exact g32
  · rw [Tie.target_angle_tie m h hl, enc_rte_iff]; exact g33
  · rw [Tie.tcas_ra_tie m h hl, enc_rte_iff]; exact g34
  · rw [Tie.emergency_status_tie m h hl, enc_rte_iff]; exact g35
  · rw [Tie.tcas_operational_tie m h hl, enc_rte_iff]; exact g36
  · rw [position_with_ref_full m h hl, enc_rte_iff]; exact g37 la lo

/-- **C14 (type guards), generated surv.py / allcall.py**, for 14- and 28-digit hex frames: DF 4/5 (altitude: DF 4,
    identity: DF 5), DF 11 -/
theorem guard_iff_surv_allcall_tie (m : Msg) (h : IsHex m) (hl : m.length = 14 ∨ m.length = 28) :
    (Gen.surv.fs (.str m) = .rte ↔ ¬ (dfB (hex2binM m) = 4 ∨ dfB (hex2binM m) = 5)) ∧
    (Gen.surv.um (.str m) = .rte ↔ ¬ (dfB (hex2binM m) = 4 ∨ dfB (hex2binM m) = 5)) ∧
    (Gen.surv.altitude (.str m) = .rte ↔ dfB (hex2binM m) ≠ 4) ∧
    (Gen.surv.identity (.str m) = .rte ↔ dfB (hex2binM m) ≠ 5) ∧
    (Gen.allcall.interrogator (.str m) = .rte ↔ dfB (hex2binM m) ≠ 11) ∧
    (Gen.allcall.capability (.str m) = .rte ↔ dfB (hex2binM m) ≠ 11) := by
  have hb : (hex2binM m).length = 56 ∨ (hex2binM m).length = 112 := by rw [hex2binM_length]; omega
  obtain ⟨s1, -, s3, s4, s5, s6, s7⟩ := guard_iff_surv_allcall _ hb
  refine ⟨?_, ?_, ?_, ?_, ?_, ?_⟩
  · rw [Tie.fs_tie m h (by omega), enc_rte_iff]; exact s1
  · rw [Tie.um_tie m h (by omega), enc_rte_iff]; exact s3
  · rw [Tie.surv_altitude_tie m h (by omega), enc_rte_iff]; exact s4
  · rw [Tie.identity_tie m h (by omega), enc_rte_iff]; exact s5
  · rw [Tie.interrogator_tie m h (by omega), enc_rte_iff]; exact s6
  · rw [Tie.capability_tie m h (by omega), enc_rte_iff]; exact s7

/-- "value iff documented", e.g.: the generated `adsb.altitude` returns a value exactly on a position message, the
    generated `bds62.selected_altitude` exactly on a TC 29 message whose subtype field is not 0 -/
theorem val_iff_examples_tie (m : Msg) (h : IsHex m) (hl : m.length = 28) :
    ((∃ v, Gen.adsb.altitude (.str m) = .val v) ↔ HasTC (hex2binM m) PosTC) ∧
    ((∃ v, Gen.bds62.selected_altitude (.str m) = .val v) ↔
      (tcB (hex2binM m) = some 29 ∧ PyModeS.bin2int (slice 37 39 (hex2binM m)) ≠ 0)) := by
  have n := no_exc_adsb_tie m h hl
  have g := guard_iff_tie m h hl
  refine ⟨val_iff_of n.1 g.1, ?_⟩
  have g22 := g.2.2.2.2.2.2.2.2.2.2.2.2.2.2.2.2.2.2.2.2.1
  have n10 := n.2.2.2.2.2.2.2.2.2.1
  have : (Gen.bds62.selected_altitude (.str m) = .rte ↔
      ¬ (tcB (hex2binM m) = some 29 ∧ PyModeS.bin2int (slice 37 39 (hex2binM m)) ≠ 0)) := by
    rw [g22]
    by_cases a : tcB (hex2binM m) = some 29 <;> by_cases b : PyModeS.bin2int (slice 37 39 (hex2binM m)) = 0 <;>
      simp [a, b]
  exact val_iff_of n10 this

/-! ### 7. routing by type code -/

/-- **the generated `adsb.altitude` routes exactly by type code**: the constant 0 for a surface position (TC 5–8), the
    generated `bds05.altitude` for TC 9–18 and 20–22, RuntimeError otherwise -/
theorem adsb_altitude_routing_tie (m : Msg) (h : IsHex m) (hl : m.length = 28) :
    (HasTC (hex2binM m) (fun tc => 5 ≤ tc ∧ tc ≤ 8) → Gen.adsb.altitude (.str m) = .val (.num 0)) ∧
    (HasTC (hex2binM m) (fun tc => 9 ≤ tc ∧ tc ≤ 18 ∨ 20 ≤ tc ∧ tc ≤ 22) →
      Gen.adsb.altitude (.str m) = Gen.bds05.altitude (.str m)) ∧
    (¬ HasTC (hex2binM m) PosTC → Gen.adsb.altitude (.str m) = .rte) := by
  rw [Tie.adsb_altitude_tie m h (by omega)]
  unfold HasTC PosTC
  cases h0 : tcB (hex2binM m) with
  | none => simp
  | some tc =>
    simp only [Option.some.injEq, exists_eq_left']
    refine ⟨?_, ?_, ?_⟩
    · intro h; rw [if_neg (by omega), if_pos (by omega)]
    · intro h; rw [if_neg (by omega), if_neg (by omega)]
    · intro h; rw [if_pos (by omega)]

/-- **the generated `adsb.position_with_ref` routes exactly by type code**: the generated surface decoder iff TC 5–8,
    the generated airborne decoder iff TC 9–18 or 20–22, RuntimeError otherwise (`la`, `lo` any values) -/
theorem position_with_ref_routing_tie (m : Msg) (h : IsHex m) (hl : m.length = 28) (la lo : Val) :
    (HasTC (hex2binM m) (fun tc => 5 ≤ tc ∧ tc ≤ 8) →
      Gen.adsb.position_with_ref (.str m) la lo = Gen.bds06.surface_position_with_ref (.str m) la lo) ∧
    (HasTC (hex2binM m) (fun tc => 9 ≤ tc ∧ tc ≤ 18 ∨ 20 ≤ tc ∧ tc ≤ 22) →
      Gen.adsb.position_with_ref (.str m) la lo = Gen.bds05.airborne_position_with_ref (.str m) la lo) ∧
    (¬ HasTC (hex2binM m) PosTC → Gen.adsb.position_with_ref (.str m) la lo = .rte) := by
  obtain ⟨t1, t2, t3, -⟩ := positionWithRefRoute_table (hex2binM m)
  rw [Tie.position_with_ref_tie m h (by omega)]
  refine ⟨fun hh => ?_, fun hh => ?_, fun hh => ?_⟩
  · rw [t1.mpr hh]; rfl
  · rw [t2.mpr hh]; rfl
  · rw [t3.mpr hh]; rfl

/-- **the generated `adsb.position` routes exactly by the pair of type codes**: the generated surface decoder iff both
    are 5–8 and a reference is supplied, the generated airborne decoder iff both are 9–18 or both are 20–22,
    RuntimeError for every other pair (including a non-DF17/18 frame) -/
theorem position_routing_tie (m0 m1 : Msg) (h0 : IsHex m0) (h1 : IsHex m1) (hl0 : m0.length = 28)
    (hl1 : m1.length = 28) (t0 t1 la lo : Val) :
    ((∃ tc0 tc1, tcB (hex2binM m0) = some tc0 ∧ tcB (hex2binM m1) = some tc1 ∧ (5 ≤ tc0 ∧ tc0 ≤ 8) ∧
        (5 ≤ tc1 ∧ tc1 ≤ 8) ∧ Tie.Adsb.haveRef la lo = true) →
      Gen.adsb.position (.str m0) (.str m1) t0 t1 la lo =
        Gen.bds06.surface_position (.str m0) (.str m1) t0 t1 la lo) ∧
    ((∃ tc0 tc1, tcB (hex2binM m0) = some tc0 ∧ tcB (hex2binM m1) = some tc1 ∧
        ((9 ≤ tc0 ∧ tc0 ≤ 18) ∧ (9 ≤ tc1 ∧ tc1 ≤ 18) ∨ (20 ≤ tc0 ∧ tc0 ≤ 22) ∧ (20 ≤ tc1 ∧ tc1 ≤ 22))) →
      Gen.adsb.position (.str m0) (.str m1) t0 t1 la lo =
        Gen.bds05.airborne_position (.str m0) (.str m1) t0 t1) ∧
    (positionRoute (hex2binM m0) (hex2binM m1) (Tie.Adsb.haveRef la lo) = .rte →
      Gen.adsb.position (.str m0) (.str m1) t0 t1 la lo = .rte) := by
  obtain ⟨r1, r2, -⟩ := positionRoute_table (hex2binM m0) (hex2binM m1) (Tie.Adsb.haveRef la lo)
  rw [Tie.position_tie m0 m1 h0 h1 (by omega) (by omega)]
  refine ⟨fun hh => ?_, fun hh => ?_, fun hh => ?_⟩
  · rw [r1.mpr hh]; rfl
  · rw [r2.mpr hh]; rfl
  · rw [hh]; rfl

end PyModeS.C14Gen
