/-
  Tie: generated `c_common` (the Cython module `src/pyModeS/c_common.pyx`, transliterated with explicit C conversions)
  = hand-written C-semantics model `PyModeS.C` (`Model/CCommon.lean`): the conversion helpers
  char_to_int, int_to_char, hex2bin, bin2int, hex2int, then df, data, allzeros, typecode, bin2hex, wrongstatus,
  and the transports `c_<f>_eq_py_tie` (generated C function = generated Python function where no overflow occurs).

  Helper lemmas live in `PyModeS.Tie.CB`; the results `c_<f>_tie` in `PyModeS.Tie`.
-/
import PyModeS.Tie.Crc
import PyModeS.Generated.Src.c_common
import PyModeS.Properties.C15
set_option maxHeartbeats 1000000
set_option linter.unusedSimpArgs false
set_option linter.style.nameCheck false
namespace PyModeS.Tie.CB
open PyModeS PyModeS.Py PyModeS.CRC PyModeS.CC CrcTie

theorem truncInt?_int (i : Int) : truncInt? (.num (i : Rat)) = some i := by
  simp only [truncInt?]
  have hf : ∀ j : Int, Rat.floor (j : Rat) = j := by
    intro j
    have : Rat.floor (j : Rat) = ⌊(j : Rat)⌋ := rfl
    rw [this]; exact Int.floor_intCast j
  by_cases h : (i : Rat) < 0
  · rw [if_pos h]
    have : (-(i : Rat)) = ((-i : Int) : Rat) := by push_cast; rfl
    rw [this, hf]; simp
  · rw [if_neg h, hf]

theorem wrapSigned64 (i : Int) : wrapSigned 64 i = C.wrap64 i := by
  unfold wrapSigned C.wrap64
  have h1 : (((2 ^ 64 : Nat) : Int)) = (2 : Int) ^ 64 := by norm_num
  have h2 : ((2 : Int) ^ 64) / 2 = 2 ^ 63 := by norm_num
  simp only [h1, h2]

theorem wrapSigned32 (i : Int) : wrapSigned 32 i = C.wrap32 i := by
  unfold wrapSigned C.wrap32
  have h1 : (((2 ^ 32 : Nat) : Int)) = (2 : Int) ^ 32 := by norm_num
  have h2 : ((2 : Int) ^ 32) / 2 = 2 ^ 31 := by norm_num
  simp only [h1, h2]

theorem cConvLong_int (i : Int) : cConvLong (Val.ofInt i) = .val (Val.ofInt (C.wrap64 i)) := by
  simp only [cConvLong, Val.ofInt, truncInt?_int, wrapSigned64]

theorem cConvInt_int (i : Int) : cConvInt (Val.ofInt i) = .val (Val.ofInt (C.wrap32 i)) := by
  simp only [cConvInt, Val.ofInt, truncInt?_int, wrapSigned32]

theorem ofInt_natCast (n : Nat) : Val.ofInt (n : Int) = Val.ofNat n := by
  simp [Val.ofInt, Val.ofNat]

theorem cConvUchar_int (i : Int) : cConvUchar (Val.ofInt i) = .val (Val.ofNat (i % 256).toNat) := by
  simp only [cConvUchar, Val.ofInt, truncInt?_int]
  rw [← ofInt_natCast, Int.toNat_of_nonneg (Int.emod_nonneg _ (by decide))]
  rfl

theorem cConvUchar_ofNat (n : Nat) : cConvUchar (Val.ofNat n) = .val (Val.ofNat (n % 256)) := by
  rw [← ofInt_natCast, cConvUchar_int]
  congr 2

theorem cConvUchar_char (c : Char) : cConvUchar (.str [c]) = .val (Val.ofNat (c.toNat % 256)) := rfl

theorem cConvInt_ofNat (n : Nat) (h : n < 2147483648) : cConvInt (Val.ofNat n) = .val (Val.ofNat n) := by
  rw [← ofInt_natCast, cConvInt_int, wrap32_of_range (by omega) (by omega)]

theorem cConvLong_ofNat (n : Nat) (h : n < 9223372036854775808) : cConvLong (Val.ofNat n) = .val (Val.ofNat n) := by
  rw [← ofInt_natCast, cConvLong_int, wrap64_of_range (by omega) (by omega)]

theorem pyLe_ofNat (a b : Nat) : pyLe (Val.ofNat a) (Val.ofNat b) = .val (.bool (decide (a ≤ b))) := by
  simp [Val.ofNat]
theorem pyLt_ofNat (a b : Nat) : pyLt (Val.ofNat a) (Val.ofNat b) = .val (.bool (decide (a < b))) := by
  simp [Val.ofNat]

/-- the body of `char_to_int` on a byte value -/
def charToIntN (n : Nat) : Nat :=
  if 48 ≤ n ∧ n ≤ 57 then n - 48
  else if 97 ≤ n ∧ n ≤ 102 then n - 97 + 10
  else if 65 ≤ n ∧ n ≤ 70 then n - 65 + 10
  else 0

theorem charToInt_eq_N (c : Char) : C.charToInt c = charToIntN (c.toNat % 256) := rfl

theorem lit48 : Val.num 48 = Val.ofNat 48 := by simp [Val.ofNat]
theorem lit57 : Val.num 57 = Val.ofNat 57 := by simp [Val.ofNat]
theorem lit97 : Val.num 97 = Val.ofNat 97 := by simp [Val.ofNat]
theorem lit102 : Val.num 102 = Val.ofNat 102 := by simp [Val.ofNat]
theorem lit65 : Val.num 65 = Val.ofNat 65 := by simp [Val.ofNat]
theorem lit70 : Val.num 70 = Val.ofNat 70 := by simp [Val.ofNat]
theorem lit10 : Val.num 10 = Val.ofNat 10 := by simp [Val.ofNat]

theorem chain_and (a b : Prop) [Decidable a] [Decidable b] :
    (if a then (Res.val (Val.bool (decide b)) : Res Val) else Res.val (Val.bool (decide a))) =
      Res.val (Val.bool (decide (a ∧ b))) := by
  by_cases ha : a <;> simp [ha]

theorem char_to_int_body (k : Nat) (hk : k < 256) (v : Val) (hv : cConvUchar v = .val (Val.ofNat k)) :
    Gen.c_common.char_to_int v = .val (Val.ofNat (charToIntN k)) := by
  unfold Gen.c_common.char_to_int charToIntN
  simp only [hv, bind_val', lit48, lit57, lit97, lit102, lit65, lit70, lit10, num_zero_ofNat, pyLe_ofNat,
    pyTruth_bool, Res.pure_eq, chain_and, decide_eq_true_eq]
  split_ifs with h1 h2 h3
  · rw [pySub_ofNat _ _ h1.1, bind_val', cConvInt_ofNat _ (by omega)]
  · rw [pySub_ofNat _ _ h2.1, bind_val', pyAdd_ofNat, bind_val', cConvInt_ofNat _ (by omega)]
  · rw [pySub_ofNat _ _ h3.1, bind_val', pyAdd_ofNat, bind_val', cConvInt_ofNat _ (by omega)]
  · rw [cConvInt_ofNat _ (by omega)]

/-- the body of `int_to_char` on a byte value -/
def intToCharN (n : Nat) : Nat := if n < 10 then 48 + n else (87 + n) % 256

end PyModeS.Tie.CB

namespace PyModeS.Tie
open PyModeS PyModeS.Py PyModeS.CRC PyModeS.CC CrcTie CB

/-- `char_to_int(c)` on a byte value (an item of a `bytes` object) -/
theorem c_char_to_int_tie (c : Char) :
    Gen.c_common.char_to_int (Val.ofNat c.toNat) = .val (Val.ofNat (C.charToInt c)) := by
  rw [charToInt_eq_N]
  exact char_to_int_body _ (Nat.mod_lt _ (by decide)) _ (cConvUchar_ofNat _)

/-- `char_to_int(c)` on a one-character string -/
theorem c_char_to_int_tie_str (c : Char) :
    Gen.c_common.char_to_int (.str [c]) = .val (Val.ofNat (C.charToInt c)) := by
  rw [charToInt_eq_N]
  exact char_to_int_body _ (Nat.mod_lt _ (by decide)) _ (cConvUchar_char _)

/-- `char_to_int(n)` on any non-negative integer (reduced mod 256 by the `unsigned char` parameter) -/
theorem c_char_to_int_nat (n : Nat) :
    Gen.c_common.char_to_int (Val.ofNat n) = .val (Val.ofNat (charToIntN (n % 256))) :=
  char_to_int_body _ (Nat.mod_lt _ (by decide)) _ (cConvUchar_ofNat _)


theorem c_int_to_char_tie (n : Nat) :
    Gen.c_common.int_to_char (Val.ofNat n) = .val (Val.ofNat (intToCharN (n % 256))) := by
  unfold Gen.c_common.int_to_char intToCharN
  have hk : n % 256 < 256 := Nat.mod_lt _ (by decide)
  simp only [cConvUchar_ofNat, bind_val', lit48, lit97, lit10, pyLt_ofNat, pyTruth_bool, Res.pure_eq,
    decide_eq_true_eq, pySub_ofNat _ _ (by decide : 10 ≤ 97), pyAdd_ofNat]
  generalize n % 256 = k at hk
  split_ifs with h1
  · rw [Nat.mod_eq_of_lt (by omega)]
  · rfl

theorem c_int_to_char_digit (n : Nat) (h : n < 10) :
    Gen.c_common.int_to_char (Val.ofNat n) = .val (Val.ofNat (48 + n)) := by
  rw [c_int_to_char_tie, Nat.mod_eq_of_lt (by omega), intToCharN, if_pos h]

theorem c_int_to_char_bit (b : Bool) :
    Gen.c_common.int_to_char (Val.ofNat b.toNat) = .val (Val.ofNat b.toDigit.toNat) := by
  cases b
  · exact c_int_to_char_digit 0 (by decide)
  · exact c_int_to_char_digit 1 (by decide)

end PyModeS.Tie

namespace PyModeS.Tie.CB
open PyModeS PyModeS.Py PyModeS.CRC PyModeS.CC CrcTie

/-! ### loops over `range(0, n)`, byte strings -/

theorem forRange_aux {σ} (enc : Nat → Val) (Inv : Nat → σ → Prop) (f : Val → σ → Res (ForInStep σ)) (n : Nat) :
    ∀ (k a : Nat) (s0 : σ), a + k = n → Inv a s0 →
    (∀ i, i < n → ∀ s, Inv i s → Post (f (enc i) s) (fun r => ∃ s', r = .yield s' ∧ Inv (i + 1) s')) →
    Post (forIn ((List.range' a k).map enc) s0 f) (Inv n) := by
  intro k
  induction k with
  | zero =>
    intro a s0 ha h0 _
    have : a = n := by omega
    subst this
    exact ⟨s0, rfl, h0⟩
  | succ k ih =>
    intro a s0 ha h0 hstep
    rw [List.range'_succ, List.map_cons, List.forIn_cons]
    refine Post.bind (hstep a (by omega) s0 h0) ?_
    rintro _ ⟨s', rfl, hs'⟩
    exact ih (a + 1) s' (by omega) hs' hstep

/-- loop rule for `for i in range(0, n)`: an invariant indexed by the number of completed iterations -/
theorem Post.forRange {σ} (enc : Nat → Val) (Inv : Nat → σ → Prop) (f : Val → σ → Res (ForInStep σ)) (n : Nat)
    (s0 : σ) (h0 : Inv 0 s0)
    (hstep : ∀ i, i < n → ∀ s, Inv i s → Post (f (enc i) s) (fun r => ∃ s', r = .yield s' ∧ Inv (i + 1) s')) :
    Post (forIn ((List.range n).map enc) s0 f) (Inv n) := by
  rw [List.range_eq_range']
  exact forRange_aux enc Inv f n n 0 s0 (by omega) h0 hstep

/-- `s.encode()` of an ASCII string: the list of code points -/
theorem pyEncode_ascii (m : Msg) (h : IsAscii m) : pyEncode (.str m) = .val (natList (m.map Char.toNat)) := by
  have : (m.all fun c => decide (c.toNat < 128)) = true := by
    rw [List.all_eq_true]; intro c hc; simpa using h c hc
  simp only [pyEncode, this, if_true, natList, List.map_map]
  rfl

theorem pyBytes_repr (l : List Nat) : pyBytes (natList l) = .val (natList l) := rfl
theorem pyBytearray_repr (l : List Nat) : pyBytearray (natList l) = .val (natList l) := rfl
theorem pyBytearray_ofNat (n : Nat) : pyBytearray (Val.ofNat n) = .val (natList (List.replicate n 0)) := by
  simp only [pyBytearray, int?_ofNat, natList, List.map_replicate]
  rfl
theorem cConvObj_eq (v : Val) : cConvObj v = .val v := rfl
theorem cConvStr_str (s : List Char) : cConvStr (.str s) = .val (.str s) := rfl
theorem cConvSsize_ofNat (n : Nat) (h : n < 2 ^ 63) : cConvSsize (Val.ofNat n) = .val (Val.ofNat n) :=
  cConvLong_ofNat n (by omega)

theorem pyMul_ofNat (a b : Nat) : pyMul (Val.ofNat a) (Val.ofNat b) = .val (Val.ofNat (a * b)) := by
  simp [Val.ofNat]
theorem lit4 : Val.num 4 = Val.ofNat 4 := by simp [Val.ofNat]

theorem mapM_bits (g : Val → Option Char) (hg : ∀ x : Bool, g (Val.ofNat x.toDigit.toNat) = some x.toDigit)
    (b : Bits) : (List.map Val.ofNat (b.map fun x => x.toDigit.toNat)).mapM g = some (b.map Bool.toDigit) := by
  induction b with
  | nil => rfl
  | cons x b ih => simp only [List.map_cons, List.mapM_cons, ih, hg]; rfl

/-- `b.decode()` of the bytes of a '0'/'1' string -/
theorem pyDecode_bits (b : Bits) : pyDecode (natList (b.map fun x => x.toDigit.toNat)) = .val (Val.ofBits b) := by
  unfold pyDecode natList Val.ofBits
  simp only []
  rw [mapM_bits _ ?_ b]
  intro x
  cases x <;> rfl

theorem charToIntN_lt (n : Nat) (h : n < 256) : charToIntN n < 16 := by
  unfold charToIntN; split_ifs <;> omega

theorem charToInt_lt (c : Char) : C.charToInt c < 16 := by
  rw [charToInt_eq_N]; exact charToIntN_lt _ (Nat.mod_lt _ (by decide))

theorem bit_digit (x : Nat) (h : x < 2) : (x == 1).toDigit.toNat = 48 + x := by
  interval_cases x <;> rfl

theorem and_one_lt (x : Nat) : x &&& 1 < 2 := by
  rw [Nat.and_one_is_mod]; omega

theorem set4 (A T : List Nat) (p : Nat) (hp : A.length = p) (x0 x1 x2 x3 a b c d : Nat) :
    ((((A ++ x0 :: x1 :: x2 :: x3 :: T).set p a).set (p + 1) b).set (p + 2) c).set (p + 3) d =
      A ++ a :: b :: c :: d :: T := by
  subst hp
  induction A with
  | nil => rfl
  | cons y A ih => simp [ih]

theorem getD_map_toNat (m : Msg) (i : Nat) (h : i < m.length) : (m.map Char.toNat).getD i 0 = (m[i]).toNat := by
  simp [List.getD_eq_getElem?_getD, h]

theorem hex2bin_take_succ (m : Msg) (i : Nat) (h : i < m.length) :
    C.hex2bin (m.take (i + 1)) = C.hex2bin (m.take i) ++
      (let v := C.charToInt m[i]; [(v >>> 3) &&& 1 == 1, (v >>> 2) &&& 1 == 1, (v >>> 1) &&& 1 == 1, v &&& 1 == 1]) := by
  unfold C.hex2bin
  rw [List.take_add_one, List.flatMap_append, List.getElem?_eq_getElem h]
  simp

end PyModeS.Tie.CB

namespace PyModeS.Tie
open PyModeS PyModeS.Py PyModeS.CRC PyModeS.CC CrcTie CB

/-- `c_common.hex2bin(hexstr)` on an ASCII string (`pyEncode` models `str.encode()` on ASCII only: one byte per
    character).  The length bound is the range of `Py_ssize_t` (`cConvSsize` wraps to 64 bits). -/
theorem c_hex2bin_tie (m : Msg) (h : IsAscii m) (hl : m.length < 2 ^ 63) :
    Gen.c_common.hex2bin (.str m) = .val (Val.ofBits (C.hex2bin m)) := by
  apply Post.eq
  unfold Gen.c_common.hex2bin
  simp only [cConvStr_str, bind_val', pyEncode_ascii m h, pyBytes_repr, pyLen_repr, List.length_map,
    cConvSsize_ofNat _ hl, lit4, pyMul_ofNat, pyBytearray_ofNat, cConvObj_eq, num_zero_ofNat, pyRange_ofNat,
    pyIter_tuple]
  refine Post.bind (Post.forRange Val.ofNat
    (fun k (s : Val × Val × Val) => s.1 = natList ((C.hex2bin (m.take k)).map (fun x => x.toDigit.toNat) ++
        List.replicate (4 * (m.length - k)) 0)) _ _ _ (by simp [C.hex2bin]) ?step) ?final
  case step =>
    intro i hi s hs
    rcases s with ⟨s1, s2, s3⟩
    simp only at hs
    subst hs
    simp only []
    have hlen : ((C.hex2bin (m.take i)).map (fun x => x.toDigit.toNat)).length = 4 * i := by
      rw [List.length_map, c_hex2bin_eq_of_ascii _ (isAscii_take h i), hex2binM_length, List.length_take,
        Nat.min_eq_left (Nat.le_of_lt hi)]
    have hrep : List.replicate (4 * (m.length - i)) 0 = 0 :: 0 :: 0 :: 0 :: List.replicate (4 * (m.length - (i + 1))) 0 := by
      have : 4 * (m.length - i) = 4 * (m.length - (i + 1)) + 4 := by omega
      rw [this]; rfl
    rw [hrep]
    rw [hex2bin_take_succ m i hi, List.map_append]
    generalize hA : (C.hex2bin (m.take i)).map (fun x => x.toDigit.toNat) = A at hlen ⊢
    generalize List.replicate (4 * (m.length - (i + 1))) 0 = T
    have hv := charToInt_lt m[i]
    rw [pyIdx_repr _ _ (by simpa using hi), bind_val', getD_map_toNat m i hi, c_char_to_int_tie, bind_val',
      cConvUchar_ofNat, Nat.mod_eq_of_lt (by omega), bind_val']
    generalize C.charToInt m[i] = v at hv ⊢
    have b3 := and_one_lt (v >>> 3)
    have b2 := and_one_lt (v >>> 2)
    have b1 := and_one_lt (v >>> 1)
    have b0 := and_one_lt v
    simp (disch := ((try simp only [List.length_set, List.length_append, List.length_cons]); omega)) only
      [pyMul_ofNat, bind_val', lit2, lit3, num_one_ofNat, pyShr_ofNat, pyBitAnd_ofNat, c_int_to_char_digit,
       pySetItem_repr, pyAdd_ofNat, Res.pure_eq]
    refine Post.val ⟨_, rfl, ?_⟩
    simp only [List.map_cons, List.map_nil, bit_digit _ b3, bit_digit _ b2, bit_digit _ b1, bit_digit _ b0]
    rw [set4 A T (4 * i) hlen, List.append_assoc]
    rfl
  case final =>
    rintro ⟨a1, a2, a3⟩ ha
    simp only at ha
    subst ha
    simp only [List.take_length, Nat.sub_self, Nat.mul_zero, List.replicate_zero, List.append_nil, pyDecode_bits,
      bind_val', cConvStr]
    exact Post.val rfl

end PyModeS.Tie

namespace PyModeS.Tie.CB
open PyModeS PyModeS.Py PyModeS.CRC PyModeS.CC CrcTie

/-! ### `bin2int`, `hex2int`: `cumul = K*cumul + char_to_int(b[i])` on a C long -/

theorem pyMul_ofNat_ofInt (k : Nat) (a : Int) : pyMul (Val.ofNat k) (Val.ofInt a) = .val (Val.ofInt (k * a)) := by
  simp [Val.ofNat, Val.ofInt]
theorem pyAdd_ofInt_ofNat (a : Int) (b : Nat) : pyAdd (Val.ofInt a) (Val.ofNat b) = .val (Val.ofInt (a + b)) := by
  simp [Val.ofNat, Val.ofInt]
theorem ofInt_zero : Val.num 0 = Val.ofInt 0 := by simp [Val.ofInt]

theorem wrap64_zero : C.wrap64 0 = 0 := by decide

theorem wrap64_idem (x : Int) : C.wrap64 (C.wrap64 x) = C.wrap64 x := wrap64_congr (wrap64_emod x)

/-- the accumulation of the two loops, as a fold over the characters -/
def accC (K : Nat) (m : Msg) : Int := m.foldl (fun acc c => C.wrap64 (K * acc + C.charToInt c)) 0

theorem accC_take_succ (K : Nat) (m : Msg) (i : Nat) (h : i < m.length) :
    accC K (m.take (i + 1)) = C.wrap64 (K * accC K (m.take i) + C.charToInt m[i]) := by
  unfold accC
  rw [List.take_add_one, List.foldl_append, List.getElem?_eq_getElem h]
  rfl

theorem accC_idem (K : Nat) (m : Msg) : C.wrap64 (accC K m) = accC K m := by
  rcases List.eq_nil_or_concat m with rfl | ⟨l, c, rfl⟩
  · exact wrap64_zero
  · unfold accC
    rw [List.concat_eq_append, List.foldl_append]
    exact wrap64_idem _

theorem accLoop (K : Nat) (m : Msg) (i0 : Val) :
    Post (forIn ((List.range m.length).map Val.ofNat) (i0, Val.ofInt 0) (fun it__1 (__s : Val × Val) => do
        let __do_lift ← pyMul (Val.ofNat K) __s.2
        let __do_lift_1 ← Py.pyIdx (natList (m.map Char.toNat)) it__1
        let __do_lift_2 ← Gen.c_common.char_to_int __do_lift_1
        let __do_lift ← pyAdd __do_lift __do_lift_2
        let cumul ← cConvLong __do_lift
        pure (ForInStep.yield (it__1, cumul))))
      (fun s => s.2 = Val.ofInt (accC K m)) := by
  have := Post.forRange Val.ofNat (fun k (s : Val × Val) => s.2 = Val.ofInt (accC K (m.take k)))
    (fun it__1 (__s : Val × Val) => do
        let __do_lift ← pyMul (Val.ofNat K) __s.2
        let __do_lift_1 ← Py.pyIdx (natList (m.map Char.toNat)) it__1
        let __do_lift_2 ← Gen.c_common.char_to_int __do_lift_1
        let __do_lift ← pyAdd __do_lift __do_lift_2
        let cumul ← cConvLong __do_lift
        pure (ForInStep.yield (it__1, cumul))) m.length (i0, Val.ofInt 0) rfl ?_
  · simpa only [List.take_length] using this
  · intro i hi s hs
    rcases s with ⟨s1, s2⟩
    simp only at hs
    subst hs
    simp only []
    rw [pyMul_ofNat_ofInt, bind_val', pyIdx_repr _ _ (by simpa using hi), bind_val', getD_map_toNat m i hi,
      c_char_to_int_tie, bind_val', pyAdd_ofInt_ofNat, bind_val', cConvLong_int, bind_val']
    refine Post.val ⟨_, rfl, ?_⟩
    simp only [accC_take_succ K m i hi]

theorem accC_bits (b : Bits) : accC 2 (b.map Bool.toDigit) = C.bin2int b := by
  unfold accC C.bin2int
  rw [List.foldl_map]
  congr 1
  funext acc x
  cases x <;> rfl

theorem isAscii_bits (b : Bits) : IsAscii (b.map Bool.toDigit) := by
  intro c hc
  rw [List.mem_map] at hc
  obtain ⟨x, _, rfl⟩ := hc
  cases x <;> decide

end PyModeS.Tie.CB

namespace PyModeS.Tie
open PyModeS PyModeS.Py PyModeS.CRC PyModeS.CC CrcTie CB

/-- `c_common.bin2int(binstr)` on any ASCII string: the 64-bit accumulation `cumul = 2*cumul + char_to_int(c)` -/
theorem c_bin2int_str (m : Msg) (h : IsAscii m) (hl : m.length < 2 ^ 63) :
    Gen.c_common.bin2int (.str m) = .val (Val.ofInt (accC 2 m)) := by
  apply Post.eq
  unfold Gen.c_common.bin2int
  simp only [cConvStr_str, bind_val', pyEncode_ascii m h, pyBytearray_repr, cConvObj_eq, pyLen_repr, List.length_map,
    cConvSsize_ofNat _ hl, ofInt_zero, cConvLong_int, wrap64_zero, lit2]
  rw [← ofInt_zero, num_zero_ofNat, pyRange_ofNat, bind_val', pyIter_tuple, bind_val']
  refine Post.bind (accLoop 2 m _) ?_
  rintro ⟨a1, a2⟩ ha
  simp only at ha
  subst ha
  simp only [cConvLong_int, accC_idem]
  exact Post.val rfl

/-- `c_common.bin2int(binstr)` on a bit string (no condition on its length beyond the range of `Py_ssize_t`) -/
theorem c_bin2int_tie (b : Bits) (hl : b.length < 2 ^ 63) :
    Gen.c_common.bin2int (Val.ofBits b) = .val (Val.ofInt (C.bin2int b)) := by
  rw [Val.ofBits, c_bin2int_str _ (isAscii_bits b) (by simpa using hl), accC_bits]

/-- `c_common.hex2int(hexstr)` on an ASCII string -/
theorem c_hex2int_tie (m : Msg) (h : IsAscii m) (hl : m.length < 2 ^ 63) :
    Gen.c_common.hex2int (.str m) = .val (Val.ofInt (C.hex2int m)) := by
  apply Post.eq
  unfold Gen.c_common.hex2int
  simp only [cConvStr_str, bind_val', pyEncode_ascii m h, pyBytearray_repr, cConvObj_eq, pyLen_repr, List.length_map,
    cConvSsize_ofNat _ hl, ofInt_zero, cConvLong_int, wrap64_zero, lit16]
  rw [← ofInt_zero, num_zero_ofNat, pyRange_ofNat, bind_val', pyIter_tuple, bind_val']
  refine Post.bind (accLoop 16 m _) ?_
  rintro ⟨a1, a2⟩ ha
  simp only at ha
  subst ha
  simp only [cConvLong_int, accC_idem]
  exact Post.val rfl

end PyModeS.Tie

namespace PyModeS.Tie.CB
open PyModeS PyModeS.Py PyModeS.CRC PyModeS.CC CrcTie

/-! ### df, typecode, data, allzeros, bin2hex, wrongstatus -/

theorem c_hex2bin_length (m : Msg) : (C.hex2bin m).length = 4 * m.length := by
  unfold C.hex2bin
  induction m with
  | nil => rfl
  | cons c m ih => simp only [List.flatMap_cons, List.length_append, ih, List.length_cons, List.length_nil]; omega

theorem c_bin2int_idem (b : Bits) : C.wrap64 (C.bin2int b) = C.bin2int b := by
  rw [← accC_bits, accC_idem]

theorem cConvStr_ofBits (b : Bits) : cConvStr (Val.ofBits b) = .val (Val.ofBits b) := rfl

theorem pyGt_ofInt_ofNat (a : Int) (b : Nat) : pyGt (Val.ofInt a) (Val.ofNat b) = .val (.bool (decide ((b : Int) < a))) := by
  simp only [Val.ofInt, Val.ofNat, pyGt_num]
  congr 2
  have : ((b : Rat) < (a : Rat)) ↔ ((b : Int) < a) := by
    rw [← Int.cast_natCast (R := Rat) b]; exact Int.cast_lt
  exact decide_eq_decide.mpr this

theorem lit24 : Val.num 24 = Val.ofNat 24 := by simp [Val.ofNat]
theorem lit17 : Val.num 17 = Val.ofNat 17 := by simp [Val.ofNat]
theorem lit18 : Val.num 18 = Val.ofNat 18 := by simp [Val.ofNat]
theorem litm1 : Val.num (-1) = Val.ofInt (-1) := by simp [Val.ofInt]
theorem wrap32_m1 : C.wrap32 (-1) = -1 := by decide

theorem pySlice_N_str (m : Msg) (k : Nat) : pySlice_N (.str m) k = .val (.str (m.take k)) := rfl
theorem pySliceNN_str (m : Msg) (a b : Nat) : pySliceNN (.str m) a b = .val (.str (slice a b m)) := rfl

end PyModeS.Tie.CB

namespace PyModeS.Tie
open PyModeS PyModeS.Py PyModeS.CRC PyModeS.CC CrcTie CB

/-- `c_common.df(msg)` on any ASCII string (no length condition: a short string gives fewer bits, `bin2int('')` is 0 in C) -/
theorem c_df_tie (m : Msg) (h : IsAscii m) : Gen.c_common.df (.str m) = .val (Val.ofNat (C.df m)) := by
  unfold Gen.c_common.df C.df
  have hl2 : (m.take 2).length < 2 ^ 63 := by
    have : (m.take 2).length ≤ 2 := by simp
    omega
  have hl5 : (slice 0 5 (C.hex2bin (m.take 2))).length < 2 ^ 63 := by
    have : (slice 0 5 (C.hex2bin (m.take 2))).length ≤ 5 := by rw [slice_length]; omega
    omega
  simp only [cConvStr_str, bind_val', pySlice_N_str, c_hex2bin_tie _ (isAscii_take h 2) hl2, cConvStr_ofBits,
    pySliceNN_ofBits, c_bin2int_tie _ hl5, cConvLong_int, c_bin2int_idem, lit24, pyGt_ofInt_ofNat, pyTruth_bool,
    cConvUchar_ofNat, cConvUchar_int, Res.pure_eq, decide_eq_true_eq]
  split_ifs <;> first | rfl | omega

/-- `c_common.typecode(msg)` on any ASCII string: −1 instead of `None` -/
theorem c_typecode_tie (m : Msg) (h : IsAscii m) : Gen.c_common.typecode (.str m) = .val (Val.ofInt (C.typecode m)) := by
  unfold Gen.c_common.typecode C.typecode
  have hin := pyNotIn_ofNat (C.df m) [17, 18]
  simp only [List.map_cons, List.map_nil, Nat.cast_ofNat] at hin
  have hl2 : (slice 8 10 m).length < 2 ^ 63 := by
    have : (slice 8 10 m).length ≤ 2 := by rw [slice_length]; omega
    omega
  have hl5 : (slice 0 5 (C.hex2bin (slice 8 10 m))).length < 2 ^ 63 := by
    have : (slice 0 5 (C.hex2bin (slice 8 10 m))).length ≤ 5 := by rw [slice_length]; omega
    omega
  simp only [cConvStr_str, bind_val', c_df_tie m h, hin, pyTruth_bool, litm1, cConvInt_int, wrap32_m1, pySliceNN_str,
    c_hex2bin_tie _ (isAscii_slice h 8 10) hl2, cConvStr_ofBits, pySliceNN_ofBits, c_bin2int_tie _ hl5, Res.pure_eq]
  by_cases hd : C.df m ∈ [17, 18]
  · have hd' := hd
    simp only [List.mem_cons, List.not_mem_nil, or_false] at hd'
    have : ¬ (C.df m ≠ 17 ∧ C.df m ≠ 18) := by omega
    simp only [hd, decide_true, Bool.not_true, Bool.false_eq_true, if_false, this]
  · have hd' := hd
    simp only [List.mem_cons, List.not_mem_nil, or_false] at hd'
    have : (C.df m ≠ 17 ∧ C.df m ≠ 18) := by omega
    simp only [hd, decide_false, Bool.not_false, if_true]
    rw [if_pos this]

/-- `c_common.data(msg)` = `msg[8:-6]` -/
theorem c_data_tie (m : Msg) : Gen.c_common.data (.str m) = .val (.str (dataM m)) := by
  have := data_str m
  unfold Gen.py_common.data at this
  unfold Gen.c_common.data
  simp only [cConvStr_str, bind_val', this, Res.pure_eq]

end PyModeS.Tie

namespace PyModeS.Tie.CB
open PyModeS PyModeS.Py PyModeS.CRC PyModeS.CC CrcTie

theorem dataM_length_le (m : Msg) : (dataM m).length ≤ m.length := by
  simp only [dataM, dropLast, List.length_drop, List.length_take]; omega

theorem isAscii_dataM {m : Msg} (h : IsAscii m) : IsAscii (dataM m) :=
  fun c hc => h c (List.mem_of_mem_take (List.mem_of_mem_drop hc))

theorem pySub_ofNat_one (n : Nat) (h : 1 ≤ n) : pySub (Val.ofNat n) (Val.num 1) = .val (Val.ofNat (n - 1)) := by
  simp [Val.ofNat, Nat.cast_sub h]

theorem pyIdx_ofBits (d : Bits) (k : Nat) : Py.pyIdx (Val.ofBits d) (Val.ofNat k) = pyIdxN (Val.ofBits d) k := by
  have : ¬ ((k : Int) < 0) := by omega
  simp only [Py.pyIdx, int?_ofNat, pyIdxN, Val.ofBits, idxList, this, if_false, Int.toNat_natCast]

theorem pySlice_ofBits (d : Bits) (a b : Nat) :
    pySlice (Val.ofBits d) (some (Val.ofNat a)) (some (Val.ofNat b)) = .val (Val.ofBits (slice a b d)) := by
  have i0 : ∀ n : Nat, optInt (some (Val.ofNat n)) = .val (some (n : Int)) := by
    intro n
    have := int?_ofNat n
    unfold Val.ofNat at this ⊢
    simp only [optInt, this]
  simp only [pySlice, i0, Res.bind_val, Val.ofBits, sliceList, normBound_nonneg, List.length_map]
  simp only [slice, List.map_take, List.map_drop]
  congr 2
  rcases Nat.lt_or_ge d.length a with hlt | hge
  · rw [Nat.min_eq_right (Nat.le_of_lt hlt), List.drop_eq_nil_of_le (by simp), List.drop_eq_nil_of_le (by simp; omega)]
    simp
  · rw [Nat.min_eq_left hge]
    rcases Nat.lt_or_ge d.length b with hlt2 | hge2
    · rw [Nat.min_eq_right (Nat.le_of_lt hlt2)]
      rw [List.take_of_length_le (by simp only [List.length_drop, List.length_map]; omega),
        List.take_of_length_le (by simp only [List.length_drop, List.length_map]; omega)]
    · rw [Nat.min_eq_left hge2]

theorem pyNe_ofInt_zero (a : Int) : pyNe (Val.ofInt a) (Val.num 0) = .val (.bool (a != 0)) := by
  simp only [Val.ofInt, pyNe_num]
  by_cases h : a = 0
  · subst h; rfl
  · have h' : ¬ ((a : Rat) = 0) := by exact_mod_cast h
    have e1 : ((a : Rat) == 0) = false := by simpa using h'
    have e2 : (a != 0) = true := by simpa using h
    rw [e1, e2]; rfl

end PyModeS.Tie.CB

namespace PyModeS.Tie
open PyModeS PyModeS.Py PyModeS.CRC PyModeS.CC CrcTie CB

/-- `c_common.allzeros(msg)` on any ASCII string: `False` iff the C long read from the data bits is positive
    (no exception on an empty data field, unlike py_common: `bin2int('')` is 0 in C) -/
theorem c_allzeros_tie (m : Msg) (h : IsAscii m) (hl : m.length < 2 ^ 61) :
    Gen.c_common.allzeros (.str m) = .val (.bool (decide (C.bin2int (C.hex2bin (dataM m)) ≤ 0))) := by
  unfold Gen.c_common.allzeros
  have hd := dataM_length_le m
  have hl1 : (dataM m).length < 2 ^ 63 := by omega
  have hl2 : (C.hex2bin (dataM m)).length < 2 ^ 63 := by rw [c_hex2bin_length]; omega
  simp only [cConvStr_str, bind_val', c_data_tie, c_hex2bin_tie _ (isAscii_dataM h) hl1, c_bin2int_tie _ hl2,
    num_zero_ofNat, pyGt_ofInt_ofNat, pyTruth_bool, decide_eq_true_eq, Nat.cast_zero]
  by_cases hp : 0 < C.bin2int (C.hex2bin (dataM m))
  · have : ¬ (C.bin2int (C.hex2bin (dataM m)) ≤ 0) := by omega
    simp only [hp, if_true, this, decide_false]; rfl
  · have : (C.bin2int (C.hex2bin (dataM m)) ≤ 0) := by omega
    simp only [hp, if_false, this, decide_true]; rfl

/-- `c_common.bin2hex` is the same text as `py_common.bin2hex` with `str` conversions: equal on every string -/
theorem c_bin2hex_tie (s : List Char) : Gen.c_common.bin2hex (.str s) = Gen.py_common.bin2hex (.str s) := by
  unfold Gen.c_common.bin2hex Gen.py_common.bin2hex
  simp only [cConvStr_str, bind_val', Res.pure_eq]
  cases hv : pyInt2 (Val.str s) (Val.num 2) with
  | rte => rfl
  | exc => rfl
  | val v =>
    simp only [bind_val']
    unfold pyFmtHexU
    split <;> rfl

/-- `c_common.wrongstatus(d, sb, msb, lsb)` on a bit string, 1-based positions: the value is the C long of the slice
    (0 on an empty slice, where py_common raises) -/
theorem c_wrongstatus_tie (d : Bits) (sb msb lsb : Nat) (h1 : 1 ≤ sb) (h2 : 1 ≤ msb) (hl : d.length < 2 ^ 63) :
    Gen.c_common.wrongstatus (Val.ofBits d) (Val.ofNat sb) (Val.ofNat msb) (Val.ofNat lsb) =
      (idxR d (sb - 1) >>= fun s => .val (.bool (!s && C.bin2int (slice (msb - 1) lsb d) != 0))) := by
  unfold Gen.c_common.wrongstatus
  have hls : (slice (msb - 1) lsb d).length < 2 ^ 63 := by
    have : (slice (msb - 1) lsb d).length ≤ d.length := by rw [slice_length]; omega
    omega
  simp only [pySub_ofNat_one _ h1, pySub_ofNat_one _ h2, bind_val', pyIdx_ofBits, pySlice_ofBits, pyIdxN_ofBits,
    c_bin2int_tie _ hls]
  cases hi : idxR d (sb - 1) with
  | rte => rfl
  | exc => rfl
  | val s =>
    simp only [bind_val', pyInt1_digit, pyNe_ofInt_zero, cConvObj_eq, Res.pure_eq]
    cases s <;> by_cases hz : C.bin2int (slice (msb - 1) lsb d) = 0 <;> simp [pyNot, Val.truth, pyTruth, hz]

end PyModeS.Tie

/-! ### transports: generated C function = generated Python function where no overflow (and no `None`) is involved -/

namespace PyModeS.Tie
open PyModeS PyModeS.Py PyModeS.CRC PyModeS.CC CrcTie CB

theorem c_hex2bin_eq_py_tie (m : Msg) (h : IsHex m) (hne : m ≠ []) (hl : m.length < 2 ^ 63) :
    Gen.c_common.hex2bin (.str m) = Gen.py_common.hex2bin (.str m) := by
  rw [c_hex2bin_tie m (isAscii_of_isHex h) hl, C15.c_hex2bin_eq m h, hex2bin_str m h hne]

/-- at most 63 bits: no 64-bit wrap; at least one: `int('', 2)` raises in Python (C gives 0) -/
theorem c_bin2int_eq_py_tie (b : Bits) (h0 : 0 < b.length) (hl : b.length ≤ 63) :
    Gen.c_common.bin2int (Val.ofBits b) = Gen.py_common.bin2int (Val.ofBits b) := by
  rw [c_bin2int_tie b (by omega), C15.c_bin2int_eq_63 b hl, bin2int_ofBits, bin2intR_of_length h0, bind_val',
    ofInt_natCast]

/-- the empty string is where the two differ: 0 in C, `ValueError` in Python -/
theorem c_bin2int_nil : Gen.c_common.bin2int (Val.ofBits []) = .val (Val.ofInt 0) ∧
    Gen.py_common.bin2int (Val.ofBits []) = .exc := by
  refine ⟨c_bin2int_tie [] (by simp), ?_⟩
  rw [bin2int_ofBits]; rfl

/-- 64 ones: −1 in C, 2^64 − 1 in Python -/
theorem c_bin2int_wraps_tie :
    Gen.c_common.bin2int (Val.ofBits (List.replicate 64 true)) = .val (Val.ofInt (-1)) ∧
    Gen.py_common.bin2int (Val.ofBits (List.replicate 64 true)) = .val (Val.ofNat 18446744073709551615) := by
  refine ⟨?_, ?_⟩
  · rw [c_bin2int_tie _ (by simp), C15.c_bin2int_wraps_at_64.1]
  · rw [bin2int_ofBits, bin2intR_of_length (by simp), bind_val', C15.c_bin2int_wraps_at_64.2]

theorem c_hex2int_eq_py_tie (m : Msg) (h : IsHex m) (hne : m ≠ []) (hl : m.length ≤ 15) :
    Gen.c_common.hex2int (.str m) = Gen.py_common.hex2int (.str m) := by
  rw [c_hex2int_tie m (isAscii_of_isHex h) (by omega), C15.c_hex2int_eq m h hl, hex2int_tie m h hne, ofInt_natCast]

theorem c_df_eq_py_tie (m : Msg) (h : IsHex m) (hl : 2 ≤ m.length) :
    Gen.c_common.df (.str m) = Gen.py_common.df (.str m) := by
  rw [c_df_tie m (isAscii_of_isHex h), C15.c_df_eq m h, df_str m h hl]

/-- the documented sentinel: `None` of py_common is −1 in c_common -/
def tcSentinel : Val → Val
  | .none => Val.ofInt (-1)
  | v => v

theorem c_typecode_eq_py_tie (m : Msg) (h : IsHex m) (hl : 10 ≤ m.length) :
    Gen.c_common.typecode (.str m) = (Gen.py_common.typecode (.str m) >>= fun v => .val (tcSentinel v)) := by
  rw [c_typecode_tie m (isAscii_of_isHex h), C15.c_typecode_val m h, typecode_str m h hl, bind_val']
  cases PyModeS.typecode m with
  | none => rfl
  | some t => simp only [Val.ofOptNat, tcSentinel, Val.ofInt, Int.cast_natCast]

theorem c_data_eq_py_tie (m : Msg) : Gen.c_common.data (.str m) = Gen.py_common.data (.str m) := by
  rw [c_data_tie, data_str]

/-- `py_common.allzeros(msg)` on any hex string with a non-empty data field (`allzeros_str` is the 28-digit case) -/
theorem allzeros_gen (m : Msg) (h : IsHex m) (hne : dataM m ≠ []) :
    Gen.py_common.allzeros (.str m) = .val (.bool (PyModeS.bin2int (hex2binM (dataM m)) = 0)) := by
  unfold Gen.py_common.allzeros
  have hh : IsHex (dataM m) := fun c hc => h c (List.mem_of_mem_take (List.mem_of_mem_drop hc))
  have hpos : 0 < (hex2binM (dataM m)).length := by
    rw [hex2binM_length]; have := List.length_pos_of_ne_nil hne; omega
  simp only [data_str, Res.bind_val, hex2bin_str _ hh hne, bin2int_ofBits, bin2intR_of_length hpos, Val.ofNat, pyGt_num]
  by_cases hz : PyModeS.bin2int (hex2binM (dataM m)) = 0
  · simp [hz]
  · have : (0 : Rat) < (PyModeS.bin2int (hex2binM (dataM m)) : Rat) := by
      exact_mod_cast Nat.pos_of_ne_zero hz
    simp [hz, this]

/-- 15 to 29 hex digits: a non-empty data field of at most 60 bits -/
theorem c_allzeros_eq_py_tie (m : Msg) (h : IsHex m) (h15 : 15 ≤ m.length) (h29 : m.length ≤ 29) :
    Gen.c_common.allzeros (.str m) = Gen.py_common.allzeros (.str m) := by
  have hlen : (dataM m).length = m.length - 14 := by
    simp only [dataM, dropLast, List.length_drop, List.length_take]; omega
  have hne : dataM m ≠ [] := by
    intro e; rw [e] at hlen; simp at hlen; omega
  have hh : IsHex (dataM m) := fun c hc => h c (List.mem_of_mem_take (List.mem_of_mem_drop hc))
  have hb : (hex2binM (dataM m)).length ≤ 63 := by rw [hex2binM_length]; omega
  rw [c_allzeros_tie m (isAscii_of_isHex h) (by omega), allzeros_gen m h hne, C15.c_hex2bin_eq _ hh,
    C15.c_bin2int_eq_63 _ hb]
  congr 2
  apply decide_eq_decide.mpr
  omega

/-- a 56-bit frame has no data field: `True` in C, `ValueError` in Python -/
theorem c_allzeros_nodata (m : Msg) (h : IsAscii m) (hl : m.length ≤ 14) :
    Gen.c_common.allzeros (.str m) = .val (.bool true) ∧ Gen.py_common.allzeros (.str m) = .exc := by
  have hd : dataM m = [] := by
    apply List.eq_nil_of_length_eq_zero
    simp only [dataM, dropLast, List.length_drop, List.length_take]; omega
  refine ⟨?_, ?_⟩
  · rw [c_allzeros_tie m h (by omega), hd]; rfl
  · unfold Gen.py_common.allzeros
    rw [data_str, hd]
    rfl

theorem c_bin2hex_eq_py_tie (s : List Char) : Gen.c_common.bin2hex (.str s) = Gen.py_common.bin2hex (.str s) :=
  c_bin2hex_tie s

/-- a non-empty value field of at most 63 bits -/
theorem c_wrongstatus_eq_py_tie (d : Bits) (sb msb lsb : Nat) (h1 : 1 ≤ sb) (h2 : 1 ≤ msb) (hl : d.length < 2 ^ 63)
    (hne : msb - 1 < lsb) (hin : msb - 1 < d.length) (h63 : lsb - (msb - 1) ≤ 63) :
    Gen.c_common.wrongstatus (Val.ofBits d) (Val.ofNat sb) (Val.ofNat msb) (Val.ofNat lsb) =
      Gen.py_common.wrongstatus (Val.ofBits d) (Val.ofNat sb) (Val.ofNat msb) (Val.ofNat lsb) := by
  have hsl : (slice (msb - 1) lsb d).length ≤ 63 := by rw [slice_length]; omega
  rw [c_wrongstatus_tie d sb msb lsb h1 h2 hl, wrongstatus_ofBits d sb msb lsb h1 h2, PyModeS.wrongstatus,
    bin2intR_slice_of_lt d _ _ hne hin, C15.c_bin2int_eq_63 _ hsl]
  cases idxR d (sb - 1) with
  | rte => rfl
  | exc => rfl
  | val s =>
    simp only [bind_val', Res.pure_eq]
    congr 2
    generalize PyModeS.bin2int (slice (msb - 1) lsb d) = n
    have hb : ((n : Int) != 0) = (n != 0) := by
      rw [Bool.eq_iff_iff, bne_iff_ne, bne_iff_ne]; exact Int.natCast_ne_zero
    rw [hb]

end PyModeS.Tie
