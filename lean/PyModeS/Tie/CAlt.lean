/-
  Tie: generated `c_common` (Cython module, transliterated) = hand-written C-semantics model `PyModeS.C`
  for the 13-bit functions: squawk, altitude (every bit string), gray2int, gray2alt, and the frame wrappers
  idcode, altcode; then the transports "generated C function = generated Python function".

  Helper lemmas are prefixed `ca_` (in `PyModeS.Tie.CA` or `PyModeS.Tie`), to avoid clashes with the growing
  `Tie/CBasic.lean`; the results `c_<f>_tie`, `c_<f>_eq_py_tie` are in `PyModeS.Tie`.
-/
import PyModeS.Tie.CBasic
set_option maxHeartbeats 1000000
set_option linter.unusedSimpArgs false
set_option linter.unusedTactic false
set_option linter.unreachableTactic false
set_option linter.style.nameCheck false
namespace PyModeS.Tie.CA
open PyModeS PyModeS.Py PyModeS.CRC PyModeS.CC CrcTie CB

/-! ### byte arrays of bit strings -/

/-- the bytes of a '0'/'1' string -/
def bb (b : Bits) : List Nat := b.map fun x => x.toDigit.toNat

theorem ca_cConvStr_ofBits (b : Bits) : cConvStr (Val.ofBits b) = .val (Val.ofBits b) := rfl

theorem ca_pyEncode_ofBits (b : Bits) : pyEncode (Val.ofBits b) = .val (natList (bb b)) := by
  rw [Val.ofBits, pyEncode_ascii _ (isAscii_bits b), List.map_map]
  rfl

theorem ca_pyDecode_bb (b : Bits) : pyDecode (natList (bb b)) = .val (Val.ofBits b) := pyDecode_bits b

theorem ca_pyIdxN_bb (b : Bits) (k : Nat) :
    pyIdxN (natList (bb b)) k = (idxR b k >>= fun x => .val (Val.ofNat x.toDigit.toNat)) := by
  simp only [pyIdxN, natList, bb, idxR, List.getElem?_map]
  cases h : b[k]? <;> simp

theorem ca_pySlice_N_bb (b : Bits) (k : Nat) : pySlice_N (natList (bb b)) k = .val (natList (bb (b.take k))) := by
  simp [pySlice_N, natList, bb, List.map_take]

theorem ca_pySliceN__bb (b : Bits) (k : Nat) : pySliceN_ (natList (bb b)) k = .val (natList (bb (b.drop k))) := by
  simp [pySliceN_, natList, bb, List.map_drop]

theorem ca_pySliceNN_bb (b : Bits) (i j : Nat) :
    pySliceNN (natList (bb b)) i j = .val (natList (bb (slice i j b))) := by
  simp [pySliceNN, natList, bb, slice, List.map_take, List.map_drop]

theorem ca_pyAdd_bb (x y : Bits) : pyAdd (natList (bb x)) (natList (bb y)) = .val (natList (bb (x ++ y))) := by
  simp [pyAdd, natList, bb]

theorem ca_uchar_bit (x : Bool) : cConvUchar (Val.ofNat x.toDigit.toNat) = .val (Val.ofNat x.toDigit.toNat) := by
  rw [cConvUchar_ofNat]
  cases x <;> rfl

theorem ca_char_to_int_bit (x : Bool) :
    Gen.c_common.char_to_int (Val.ofNat x.toDigit.toNat) = .val (Val.ofNat x.toNat) := by
  rw [c_char_to_int_tie]
  cases x <;> rfl

theorem ca_oct_lt (a b c : Bool) : (a.toNat * 2 + b.toNat) * 2 + c.toNat < 8 := by
  cases a <;> cases b <;> cases c <;> decide

theorem ca_int_to_char_oct (a b c : Bool) :
    Gen.c_common.int_to_char (Val.ofNat ((a.toNat * 2 + b.toNat) * 2 + c.toNat)) =
      .val (Val.ofNat (48 + ((a.toNat * 2 + b.toNat) * 2 + c.toNat))) :=
  c_int_to_char_digit _ (by have := ca_oct_lt a b c; omega)

theorem ca_mapM_digits (g : Val → Option Char)
    (hg : ∀ d, d < 10 → g (Val.ofNat (48 + d)) = some (Nat.digitChar d)) (l : List Nat) (hl : ∀ d ∈ l, d < 10) :
    (List.map Val.ofNat (l.map (48 + ·))).mapM g = some (l.map Nat.digitChar) := by
  induction l with
  | nil => rfl
  | cons x l ih =>
    simp only [List.map_cons, List.mapM_cons, hg x (hl x (by simp)), ih (fun d hd => hl d (by simp [hd]))]
    rfl

/-- `bytearray.decode()` of ASCII digits -/
theorem ca_pyDecode_digits (l : List Nat) (hl : ∀ d ∈ l, d < 10) :
    pyDecode (natList (l.map (48 + ·))) = .val (.str (l.map Nat.digitChar)) := by
  unfold pyDecode natList
  simp only []
  rw [ca_mapM_digits _ ?_ l hl]
  intro d hd
  interval_cases d <;> rfl

theorem ca_ite_toNat (x : Bool) : (if x = true then 1 else 0 : Nat) = x.toNat := by cases x <;> rfl

theorem ca_bits13 (b : Bits) (hb : b.length = 13) :
    ∃ m0 m1 m2 m3 m4 m5 m6 m7 m8 m9 m10 m11 m12, b = [m0, m1, m2, m3, m4, m5, m6, m7, m8, m9, m10, m11, m12] := by
  rcases b with _ | ⟨a0, _ | ⟨a1, _ | ⟨a2, _ | ⟨a3, _ | ⟨a4, _ | ⟨a5, _ | ⟨a6, _ | ⟨a7, _ | ⟨a8, _ | ⟨a9,
    _ | ⟨a10, _ | ⟨a11, _ | ⟨a12, _ | ⟨a13, t⟩⟩⟩⟩⟩⟩⟩⟩⟩⟩⟩⟩⟩⟩ <;> simp at hb
  exact ⟨a0, a1, a2, a3, a4, a5, a6, a7, a8, a9, a10, a11, a12, rfl⟩

theorem ca_c_squawk_ne (b : Bits) (hb : b.length ≠ 13) : C.squawk b = .rte := by
  rcases b with _ | ⟨a0, _ | ⟨a1, _ | ⟨a2, _ | ⟨a3, _ | ⟨a4, _ | ⟨a5, _ | ⟨a6, _ | ⟨a7, _ | ⟨a8, _ | ⟨a9,
    _ | ⟨a10, _ | ⟨a11, _ | ⟨a12, _ | ⟨a13, t⟩⟩⟩⟩⟩⟩⟩⟩⟩⟩⟩⟩⟩⟩ <;> first | rfl | exact absurd rfl hb

theorem ca_c_altitude_ne (b : Bits) (hb : b.length ≠ 13) : C.altitude b = .rte := by
  rcases b with _ | ⟨a0, _ | ⟨a1, _ | ⟨a2, _ | ⟨a3, _ | ⟨a4, _ | ⟨a5, _ | ⟨a6, _ | ⟨a7, _ | ⟨a8, _ | ⟨a9,
    _ | ⟨a10, _ | ⟨a11, _ | ⟨a12, _ | ⟨a13, t⟩⟩⟩⟩⟩⟩⟩⟩⟩⟩⟩⟩⟩⟩ <;> first | rfl | exact absurd rfl hb

theorem ca_rep4 : List.replicate 4 (0 : Nat) = [0, 0, 0, 0] := rfl

end PyModeS.Tie.CA

namespace PyModeS.Tie
open PyModeS PyModeS.Py PyModeS.CRC PyModeS.CC CrcTie CB CA

/-- `c_common.squawk(binstr)` on EVERY bit string: `RuntimeError` unless it has 13 bits, otherwise the four octal
    digits as a 4-character string (`Val.ofDigits`, the encoder of the Python tie `squawk_tie`; see
    `c_squawk_tie_chars` for the explicit characters). -/
theorem c_squawk_tie (b : Bits) :
    Gen.c_common.squawk (Val.ofBits b) = (C.squawk b >>= fun l => .val (Val.ofDigits l)) := by
  unfold Gen.c_common.squawk
  simp only [ca_cConvStr_ofBits, bind_val']
  rw [guard13]
  by_cases hb : b.length = 13
  swap
  · have hd : decide (b.length ≠ 13) = true := by simp [hb]
    rw [ca_c_squawk_ne b hb, hd]
    simp only [pyTruth_bool, if_true, bind_val', bind_rte']
  have hd : decide (b.length ≠ 13) = false := by simp [hb]
  rw [hd]
  simp only [pyTruth_bool, Bool.false_eq_true, if_false, Res.pure_eq, bind_val']
  obtain ⟨C1, A1, C2, A2, C4, A4, M, B1, D1, B2, D2, B4, D4, rfl⟩ := ca_bits13 b hb
  have hidx : ∀ k (hk : k < 13), idxR [C1, A1, C2, A2, C4, A4, M, B1, D1, B2, D2, B4, D4] k =
      .val ([C1, A1, C2, A2, C4, A4, M, B1, D1, B2, D2, B4, D4][k]'(by simpa using hk)) :=
    fun k hk => idxR_of_lt _ k (by simpa using hk)
  simp only [ca_pyEncode_ofBits, bind_val', pyBytearray_repr, cConvObj_eq, lit4, pyBytearray_ofNat, ca_rep4,
    ca_pyIdxN_bb, hidx, Nat.reduceLT, List.getElem_cons_succ, List.getElem_cons_zero, ca_uchar_bit,
    ca_char_to_int_bit, lit2, pyMul_ofNat, pyAdd_ofNat, ca_int_to_char_oct]
  simp (disch := simp) only [num_zero_ofNat, num_one_ofNat, lit2, lit3, pySetItem_repr, bind_val', List.set_cons_zero,
    List.set_cons_succ]
  have hdec := ca_pyDecode_digits [(A4.toNat * 2 + A2.toNat) * 2 + A1.toNat, (B4.toNat * 2 + B2.toNat) * 2 + B1.toNat,
        (C4.toNat * 2 + C2.toNat) * 2 + C1.toNat, (D4.toNat * 2 + D2.toNat) * 2 + D1.toNat] (by
    intro d hd
    simp only [List.mem_cons, List.not_mem_nil, or_false] at hd
    rcases hd with rfl | rfl | rfl | rfl <;> exact Nat.lt_of_lt_of_le (ca_oct_lt _ _ _) (by decide))
  simp only [List.map_cons, List.map_nil] at hdec
  rw [hdec]
  have hsq : C.squawk [C1, A1, C2, A2, C4, A4, M, B1, D1, B2, D2, B4, D4] =
      .val [(A4.toNat * 2 + A2.toNat) * 2 + A1.toNat, (B4.toNat * 2 + B2.toNat) * 2 + B1.toNat,
        (C4.toNat * 2 + C2.toNat) * 2 + C1.toNat, (D4.toNat * 2 + D2.toNat) * 2 + D1.toNat] := by
    simp only [C.squawk, ca_ite_toNat]
  rw [hsq]
  simp only [bind_val', cConvStr_str, Res.pure_eq, Val.ofDigits, List.flatMap_cons, List.flatMap_nil, List.append_nil,
    toString_digit _ (ca_oct_lt _ _ _), List.cons_append, List.nil_append]

end PyModeS.Tie

namespace PyModeS.Tie.CA
open PyModeS PyModeS.Py PyModeS.CRC PyModeS.CC CrcTie CB

/-! ### gray2int, gray2alt -/

theorem ca_xor_shr_lt (n j k : Nat) (h : n < 2 ^ k) : n ^^^ (n >>> j) < 2 ^ k :=
  Nat.xor_lt_two_pow h (Nat.lt_of_le_of_lt (Nat.shiftRight_le n j) h)

/-- the C Gray value of at most 31 bits is a natural number below `2 ^ k` -/
theorem ca_gray2int_nat (b : Bits) (k : Nat) (h : b.length ≤ k) (hk : k ≤ 31) :
    ∃ n : Nat, C.gray2int b = (n : Int) ∧ n < 2 ^ k := by
  refine ⟨PyModeS.gray2int b, c_gray2int_eq b (by omega), ?_⟩
  unfold PyModeS.gray2int
  have h0 := bin2int_lt_of_length_le b k h
  exact ca_xor_shr_lt _ _ _ (ca_xor_shr_lt _ _ _ (ca_xor_shr_lt _ _ _ (ca_xor_shr_lt _ _ _ h0)))

theorem ca_two31 : (2 : Nat) ^ 31 = 2147483648 := by decide

end PyModeS.Tie.CA

namespace PyModeS.Tie
open PyModeS PyModeS.Py PyModeS.CRC PyModeS.CC CrcTie CB CA

/-- `c_common.gray2int(graystr)` on a bit string of at most 31 bits (beyond that the C `int` may be negative and
    `>>` is an arithmetic shift, which the hand model does not describe) -/
theorem c_gray2int_tie (b : Bits) (h : b.length ≤ 31) :
    Gen.c_common.gray2int (Val.ofBits b) = .val (Val.ofInt (C.gray2int b)) := by
  unfold Gen.c_common.gray2int C.gray2int
  have h0 : PyModeS.bin2int b < 2147483648 := by
    have := bin2int_lt_of_length_le b 31 h; rwa [ca_two31] at this
  have hw : C.wrap32 (C.bin2int b) = ((PyModeS.bin2int b : Nat) : Int) := by
    rw [c_bin2int_eq' b (by omega), wrap32_of_range (by omega) (by omega)]
  generalize PyModeS.bin2int b = n at h0 hw
  have k0 : n < 2 ^ 31 := by rw [ca_two31]; exact h0
  have k1 := ca_xor_shr_lt n 8 31 k0
  have k2 := ca_xor_shr_lt _ 4 31 k1
  have k3 := ca_xor_shr_lt _ 2 31 k2
  have k4 := ca_xor_shr_lt _ 1 31 k3
  rw [ca_two31] at k1 k2 k3 k4
  simp only [ca_cConvStr_ofBits, bind_val', c_bin2int_tie b (by omega), cConvInt_int, hw, ofInt_natCast,
    Int.toNat_natCast, lit8, lit4, lit2, num_one_ofNat, pyShr_ofNat, pyBitXor_ofNat, cConvInt_ofNat _ k1,
    cConvInt_ofNat _ k2, cConvInt_ofNat _ k3, cConvInt_ofNat _ k4, Res.pure_eq]

end PyModeS.Tie

namespace PyModeS.Tie
open PyModeS PyModeS.Py PyModeS.CRC PyModeS.CC CrcTie CB CA

theorem ca_pyMul_ofInt (a b : Int) : pyMul (Val.ofInt a) (Val.ofInt b) = .val (Val.ofInt (a * b)) := by
  simp [Val.ofInt]
theorem ca_pyAdd_ofInt (a b : Int) : pyAdd (Val.ofInt a) (Val.ofInt b) = .val (Val.ofInt (a + b)) := by
  simp [Val.ofInt]
theorem ca_pySub_ofInt (a b : Int) : pySub (Val.ofInt a) (Val.ofInt b) = .val (Val.ofInt (a - b)) := by
  simp [Val.ofInt]
theorem ca_lit (n : Nat) [n.AtLeastTwo] : Val.num (OfNat.ofNat n) = Val.ofInt (OfNat.ofNat n) := by
  simp [Val.ofInt]
theorem ca_lit5 : Val.num 5 = Val.ofInt 5 := by simp [Val.ofInt]
theorem ca_lit6 : Val.num 6 = Val.ofInt 6 := by simp [Val.ofInt]
theorem ca_lit100 : Val.num 100 = Val.ofInt 100 := by simp [Val.ofInt]
theorem ca_lit500 : Val.num 500 = Val.ofInt 500 := by simp [Val.ofInt]
theorem ca_lit1300 : Val.num 1300 = Val.ofInt 1300 := by simp [Val.ofInt]
theorem ca_litm1 : Val.num (-1) = Val.ofInt (-1) := by simp [Val.ofInt]
theorem ca_wrap32_m1 : C.wrap32 (-1) = -1 := by decide

/-- `c_common.gray2alt(codestr)` for at most 32 bits (8 + 24: beyond that `n100 * 100` may overflow the C `int`,
    which the hand model does not describe); −1 stands for `None` -/
theorem c_gray2alt_tie (b : Bits) (h : b.length ≤ 32) :
    Gen.c_common.gray2alt (Val.ofBits b) = .val (Val.ofInt (C.gray2alt b)) := by
  unfold Gen.c_common.gray2alt C.gray2alt
  have hs : slice 0 8 b = b.take 8 := by simp [slice]
  have l8 : (b.take 8).length ≤ 8 := by simp
  have l24 : (b.drop 8).length ≤ 24 := by simp; omega
  obtain ⟨n500, e500, h500⟩ := ca_gray2int_nat (b.take 8) 8 l8 (by omega)
  obtain ⟨n100, e100, h100⟩ := ca_gray2int_nat (b.drop 8) 24 l24 (by omega)
  have hin := pyIn_ofNat n100 [0, 5, 6]
  simp only [List.map_cons, List.map_nil, Nat.cast_ofNat, Nat.cast_zero] at hin
  have e7 := pyEq_ofNat n100 7
  simp only [Nat.cast_ofNat] at e7
  simp only [ca_cConvStr_ofBits, bind_val', pySliceTo_ofBits, pySliceFrom_ofBits, c_gray2int_tie _ (by omega : (b.take 8).length ≤ 31),
    c_gray2int_tie _ (by omega : (b.drop 8).length ≤ 31), hs, e500, e100, ofInt_natCast,
    cConvInt_ofNat _ (by omega : n500 < 2147483648), cConvInt_ofNat _ (by omega : n100 < 2147483648), hin, e7,
    pyMod_ofNat_two, pyTruth_ofNat, pyTruth_bool]
  have h500' : n500 < 256 := by simpa using h500
  have h100' : n100 < 16777216 := by simpa using h100
  simp only [← ofInt_natCast, ca_lit5, ca_lit6, ca_lit100, ca_lit500, ca_lit1300, ca_litm1, ca_pyMul_ofInt, ca_pyAdd_ofInt,
    ca_pySub_ofInt, cConvInt_int, bind_val', decide_eq_true_eq, List.mem_cons, List.not_mem_nil, or_false]
  split_ifs <;> first | omega | skip
  all_goals (try simp (disch := omega) only [wrap32_of_range])
end PyModeS.Tie

namespace PyModeS.Tie
open PyModeS PyModeS.Py PyModeS.CRC PyModeS.CC CrcTie CB CA

theorem ca_cConvChar_bit (x : Bool) : cConvChar (.str [x.toDigit]) = .val (Val.ofNat (48 + x.toNat)) := by
  cases x <;> simp [cConvChar, wrapSigned, Val.ofNat, Bool.toDigit] <;> rfl

theorem ca_pyEq_bit48 (x : Bool) : pyEq (Val.ofNat (48 + x.toNat)) (Val.num 48) = .val (.bool (!x)) := by
  have := pyEq_ofNat (48 + x.toNat) 48
  simp only [Nat.cast_ofNat] at this
  rw [this]; cases x <;> rfl
theorem ca_pyEq_bit49 (x : Bool) : pyEq (Val.ofNat (48 + x.toNat)) (Val.num 49) = .val (.bool x) := by
  have := pyEq_ofNat (48 + x.toNat) 49
  simp only [Nat.cast_ofNat] at this
  rw [this]; cases x <;> rfl

theorem ca_pyEq_ofInt_zero (a : Int) : pyEq (Val.ofInt a) (Val.num 0) = .val (.bool (decide (a = 0))) := by
  simp only [Val.ofInt, pyEq_num]
  congr 2
  by_cases h : a = 0
  · simp [h]
  · have : ¬ ((a : Rat) = 0) := by exact_mod_cast h
    simp [h, this]

theorem ca_lit11 : Val.num 11 = Val.ofNat 11 := by simp [Val.ofNat]
theorem ca_rep11 : List.replicate 11 (0 : Nat) = [0, 0, 0, 0, 0, 0, 0, 0, 0, 0, 0] := rfl
theorem ca_lit25 : Val.num 25 = Val.ofInt 25 := by simp [Val.ofInt]
theorem ca_lit1000 : Val.num 1000 = Val.ofInt 1000 := by simp [Val.ofInt]
theorem ca_litm999999 : Val.num (-999999) = Val.ofInt (-999999) := by simp [Val.ofInt]

theorem ca_lit5n : Val.num 5 = Val.ofNat 5 := by simp [Val.ofNat]
theorem ca_lit6n : Val.num 6 = Val.ofNat 6 := by simp [Val.ofNat]
theorem ca_lit7n : Val.num 7 = Val.ofNat 7 := by simp [Val.ofNat]
theorem ca_lit9n : Val.num 9 = Val.ofNat 9 := by simp [Val.ofNat]
theorem ca_wrap32_sent : C.wrap32 (-999999) = -999999 := by decide

theorem ca_wrap32_idem (x : Int) : C.wrap32 (C.wrap32 x) = C.wrap32 x := by
  apply wrap32_of_range <;> (unfold C.wrap32; simp only [two32, two31]; split_ifs <;> omega)

/-- the C `gray2alt` of at most 32 bits fits a C `int` -/
theorem ca_gray2alt_range (b : Bits) (h : b.length ≤ 32) : C.wrap32 (C.gray2alt b) = C.gray2alt b := by
  unfold C.gray2alt
  have hs : slice 0 8 b = b.take 8 := by simp [slice]
  have l8 : (b.take 8).length ≤ 8 := by simp
  have l24 : (b.drop 8).length ≤ 24 := by simp; omega
  obtain ⟨n500, e500, h500⟩ := ca_gray2int_nat (b.take 8) 8 l8 (by omega)
  obtain ⟨n100, e100, h100⟩ := ca_gray2int_nat (b.drop 8) 24 l24 (by omega)
  have h500' : n500 < 256 := by simpa using h500
  have h100' : n100 < 16777216 := by simpa using h100
  rw [hs, e500, e100]
  simp only []
  apply wrap32_of_range <;> split_ifs <;> omega

theorem c_altitude_tie (b : Bits) :
    Gen.c_common.altitude (Val.ofBits b) = (C.altitude b >>= fun a => .val (Val.ofInt a)) := by
  unfold Gen.c_common.altitude
  simp only [ca_cConvStr_ofBits, bind_val']
  rw [guard13]
  by_cases hb : b.length = 13
  swap
  · have hd : decide (b.length ≠ 13) = true := by simp [hb]
    rw [ca_c_altitude_ne b hb, hd]
    simp only [pyTruth_bool, if_true, bind_val', bind_rte']
  have hd : decide (b.length ≠ 13) = false := by simp [hb]
  rw [hd]
  simp only [pyTruth_bool, Bool.false_eq_true, if_false, Res.pure_eq, bind_val']
  obtain ⟨m0, m1, m2, m3, m4, m5, M, m7, Q, m9, m10, m11, m12, rfl⟩ := ca_bits13 b hb
  have hidx : ∀ k (hk : k < 13), idxR [m0, m1, m2, m3, m4, m5, M, m7, Q, m9, m10, m11, m12] k =
      .val ([m0, m1, m2, m3, m4, m5, M, m7, Q, m9, m10, m11, m12][k]'(by simpa using hk)) :=
    fun k hk => idxR_of_lt _ k (by simpa using hk)
  simp only [ca_pyEncode_ofBits, bind_val', pyBytearray_repr, cConvObj_eq, ca_lit11, pyBytearray_ofNat, ca_rep11,
    pyIdxN_ofBits, ca_pyIdxN_bb, hidx, Nat.reduceLT, List.getElem_cons_succ, List.getElem_cons_zero, ca_cConvChar_bit,
    c_bin2int_tie _ (by simp : [m0, m1, m2, m3, m4, m5, M, m7, Q, m9, m10, m11, m12].length < 2 ^ 63),
    ca_pyEq_ofInt_zero, ca_pyEq_bit48, ca_pyEq_bit49, pyTruth_bool]
  have hg : [(Bool.toDigit m10).toNat, (Bool.toDigit m12).toNat, (Bool.toDigit m1).toNat, (Bool.toDigit m3).toNat,
      (Bool.toDigit m5).toNat, (Bool.toDigit m7).toNat, (Bool.toDigit m9).toNat, (Bool.toDigit m11).toNat,
      (Bool.toDigit m0).toNat, (Bool.toDigit m2).toNat, (Bool.toDigit m4).toNat] =
      bb [m10, m12, m1, m3, m5, m7, m9, m11, m0, m2, m4] := rfl
  simp (disch := simp) only [num_zero_ofNat, num_one_ofNat, lit2, lit3, lit4, ca_lit5n, ca_lit6n, ca_lit7n, lit8, ca_lit9n,
    lit10, pySetItem_repr, bind_val', List.set_cons_zero, List.set_cons_succ, hg, ca_pyDecode_bb,
    c_gray2alt_tie _ (by simp : [m10, m12, m1, m3, m5, m7, m9, m11, m0, m2, m4].length ≤ 32), cConvInt_int,
    cConvInt_ofNat 0 (by decide), ca_litm999999, ca_wrap32_sent, ca_wrap32_idem,
    ca_gray2alt_range _ (by simp : [m10, m12, m1, m3, m5, m7, m9, m11, m0, m2, m4].length ≤ 32)]
  have h12 : C.bin2int [m0, m1, m2, m3, m4, m5, m7, Q, m9, m10, m11, m12] =
      ((PyModeS.bin2int [m0, m1, m2, m3, m4, m5, m7, Q, m9, m10, m11, m12] : Nat) : Int) :=
    c_bin2int_eq' _ (by simp)
  have hmul : ∀ (n : Nat) (q : Rat), pyMul (Val.ofNat n) (.num q) = .val (.num ((n : Rat) * q)) := fun _ _ => rfl
  have hm2 : ∀ n : Nat, pyInt1 (.num ((n : Rat) * ((82021 : Rat) / 25000))) = .val (Val.ofInt (m2ft n)) := pyInt1_m2ft
  simp only [ca_pySlice_N_bb, ca_pySliceN__bb, ca_pySliceNN_bb, ca_pyAdd_bb, ca_pyDecode_bb, bind_val', slice,
    List.drop_succ_cons, List.drop_zero, List.take_succ_cons, List.take_zero, Nat.reduceSub, List.cons_append,
    List.nil_append,
    c_bin2int_tie _ (by simp : [m0, m1, m2, m3, m4, m5, m7, m9, m10, m11, m12].length < 2 ^ 63),
    c_bin2int_tie _ (by simp : [m0, m1, m2, m3, m4, m5, m7, Q, m9, m10, m11, m12].length < 2 ^ 63),
    ca_lit25, ca_lit1000, ca_pyMul_ofInt, ca_pySub_ofInt, cConvInt_int, ca_wrap32_idem, h12, ofInt_natCast, hmul, hm2]
  unfold C.altitude
  simp only [h12, Int.toNat_natCast]
  generalize C.bin2int [m0, m1, m2, m3, m4, m5, M, m7, Q, m9, m10, m11, m12] = z
  by_cases h0 : z = 0
  · simp only [h0, decide_true, if_true, bind_val']
  · cases M <;> cases Q <;> simp [h0, m2ft]

end PyModeS.Tie

namespace PyModeS.Tie
open PyModeS PyModeS.Py PyModeS.CRC PyModeS.CC CrcTie CB CA

/-! ### frame wrappers: idcode, altcode -/

theorem ca_c_bin2int_idem (b : Bits) : C.wrap64 (C.bin2int b) = C.bin2int b := by
  rw [← accC_bits, accC_idem]

theorem ca_pyGt_ofInt_ofNat (a : Int) (b : Nat) :
    pyGt (Val.ofInt a) (Val.ofNat b) = .val (.bool (decide ((b : Int) < a))) := by
  simp only [Val.ofInt, Val.ofNat, pyGt_num]
  congr 2
  have : ((b : Rat) < (a : Rat)) ↔ ((b : Int) < a) := by
    rw [← Int.cast_natCast (R := Rat) b]; exact Int.cast_lt
  exact decide_eq_decide.mpr this

theorem ca_lit24 : Val.num 24 = Val.ofNat 24 := by simp [Val.ofNat]
theorem ca_pySlice_N_str (m : Msg) (k : Nat) : pySlice_N (.str m) k = .val (.str (m.take k)) := rfl

/-- `c_common.df(msg)` on any ASCII string (copy of `c_df_tie` of Tie/CBasic.lean, whose built object file did not
    yet contain it when this file was written) -/
theorem ca_df_tie (m : Msg) (h : IsAscii m) : Gen.c_common.df (.str m) = .val (Val.ofNat (C.df m)) := by
  unfold Gen.c_common.df C.df
  have hl2 : (m.take 2).length < 2 ^ 63 := by
    have : (m.take 2).length ≤ 2 := by simp
    omega
  have hl5 : (slice 0 5 (C.hex2bin (m.take 2))).length < 2 ^ 63 := by
    have : (slice 0 5 (C.hex2bin (m.take 2))).length ≤ 5 := by rw [slice_length]; omega
    omega
  simp only [cConvStr_str, bind_val', ca_pySlice_N_str, c_hex2bin_tie _ (isAscii_take h 2) hl2, ca_cConvStr_ofBits,
    pySliceNN_ofBits, c_bin2int_tie _ hl5, cConvLong_int, ca_c_bin2int_idem, ca_lit24, ca_pyGt_ofInt_ofNat, pyTruth_bool,
    cConvUchar_ofNat, cConvUchar_int, Res.pure_eq, decide_eq_true_eq]
  split_ifs <;> first | rfl | omega

/-- `c_common.idcode(msg)` on any ASCII string (in particular any hex frame) shorter than `2 ^ 63` characters:
    `RuntimeError` unless DF is 5 or 21 (and unless the string has the 32 bits the field needs) -/
theorem c_idcode_tie (m : Msg) (h : IsAscii m) (hl : m.length < 2 ^ 63) :
    Gen.c_common.idcode (.str m) = (C.idcode m >>= fun l => .val (Val.ofDigits l)) := by
  unfold Gen.c_common.idcode C.idcode
  have hin := pyNotIn_ofNat (C.df m) [5, 21]
  simp only [List.map_cons, List.map_nil, Nat.cast_ofNat] at hin
  simp only [cConvStr_str, bind_val', ca_df_tie m h, hin, pyTruth_bool, c_hex2bin_tie m h hl, pySliceNN_ofBits,
    c_squawk_tie]
  by_cases hd : C.df m ∈ [5, 21]
  · have hd' := hd
    simp only [List.mem_cons, List.not_mem_nil, or_false] at hd'
    have : ¬ (C.df m ≠ 5 ∧ C.df m ≠ 21) := by omega
    simp only [hd, decide_true, Bool.not_true, Bool.false_eq_true, if_false, this, bind_val', Res.pure_eq]
    generalize C.squawk (slice 19 32 (C.hex2bin m)) = r
    rcases r with (l | _ | _) <;> rfl
  · have hd' := hd
    simp only [List.mem_cons, List.not_mem_nil, or_false] at hd'
    have : (C.df m ≠ 5 ∧ C.df m ≠ 21) := by omega
    simp only [hd, decide_false, Bool.not_false, if_true]
    rw [if_pos this]
    rfl

/-- every value of the C altitude fits a C `int` -/
theorem ca_altitude_range (b : Bits) (a : Int) (h : C.altitude b = .val a) : C.wrap32 a = a := by
  by_cases hb : b.length = 13
  swap
  · rw [ca_c_altitude_ne b hb] at h; cases h
  obtain ⟨m0, m1, m2, m3, m4, m5, M, m7, Q, m9, m10, m11, m12, rfl⟩ := ca_bits13 b hb
  unfold C.altitude at h
  simp only [] at h
  have hgr := ca_gray2alt_range [m10, m12, m1, m3, m5, m7, m9, m11, m0, m2, m4] (by simp)
  split_ifs at h <;> injection h with h <;> subst h <;>
    first | exact ca_wrap32_idem _ | exact ca_wrap32_sent | exact hgr | (simp_all)

/-- `c_common.altcode(msg)` on any ASCII string shorter than `2 ^ 63` characters: `RuntimeError` unless DF is
    0, 4, 16 or 20; −999999 / −1 stand for `None` -/
theorem c_altcode_tie (m : Msg) (h : IsAscii m) (hl : m.length < 2 ^ 63) :
    Gen.c_common.altcode (.str m) = (C.altcode m >>= fun a => .val (Val.ofInt a)) := by
  unfold Gen.c_common.altcode C.altcode
  have hin := pyNotIn_ofNat (C.df m) [0, 4, 16, 20]
  simp only [List.map_cons, List.map_nil, Nat.cast_ofNat, Nat.cast_zero] at hin
  simp only [cConvStr_str, bind_val', ca_df_tie m h, hin, pyTruth_bool, c_hex2bin_tie m h hl, pySliceNN_ofBits,
    c_altitude_tie]
  by_cases hd : C.df m ∈ [0, 4, 16, 20]
  · have hd' := hd
    simp only [List.mem_cons, List.not_mem_nil, or_false] at hd'
    have : ¬ (C.df m ≠ 0 ∧ C.df m ≠ 4 ∧ C.df m ≠ 16 ∧ C.df m ≠ 20) := by omega
    simp only [hd, decide_true, Bool.not_true, Bool.false_eq_true, if_false, this, bind_val', Res.pure_eq]
    have hr := ca_altitude_range (slice 19 32 (C.hex2bin m))
    generalize C.altitude (slice 19 32 (C.hex2bin m)) = r at hr
    rcases r with (a | _ | _)
    · simp only [bind_val', cConvInt_int, hr a rfl]
    · rfl
    · rfl
  · have hd' := hd
    simp only [List.mem_cons, List.not_mem_nil, or_false] at hd'
    have : (C.df m ≠ 0 ∧ C.df m ≠ 4 ∧ C.df m ≠ 16 ∧ C.df m ≠ 20) := by omega
    simp only [hd, decide_false, Bool.not_false, if_true]
    rw [if_pos this]
    rfl

/-- the same with the characters spelled out: one ASCII digit per octal digit -/
theorem c_squawk_tie_chars (b : Bits) :
    Gen.c_common.squawk (Val.ofBits b) = (C.squawk b >>= fun l => .val (.str (l.map Nat.digitChar))) := by
  rw [c_squawk_tie]
  cases hr : C.squawk b with
  | val l =>
    rw [C15.c_squawk_eq] at hr
    simp only [bind_val', (ofDigits_squawk b l hr).2.2]
  | rte => rfl
  | exc => rfl

/-! ### transports: generated C function = generated Python function -/

/-- `c_common.squawk` = `py_common.squawk` on every bit string -/
theorem c_squawk_eq_py_tie (b : Bits) :
    Gen.c_common.squawk (Val.ofBits b) = Gen.py_common.squawk (Val.ofBits b) := by
  rw [c_squawk_tie, squawk_tie, C15.c_squawk_eq]

/-- `c_common.idcode` = `py_common.idcode` on every hex string of at least two digits -/
theorem c_idcode_eq_py_tie (m : Msg) (h : IsHex m) (hl : 2 ≤ m.length) (hl2 : m.length < 2 ^ 63) :
    Gen.c_common.idcode (.str m) = Gen.py_common.idcode (.str m) := by
  rw [c_idcode_tie m (isAscii_of_isHex h) hl2, idcode_tie m h hl, C15.c_idcode_eq m h]

/-- `c_common.gray2int` = `py_common.gray2int` on 1 to 31 bits -/
theorem c_gray2int_eq_py_tie (b : Bits) (h0 : 0 < b.length) (h : b.length ≤ 31) :
    Gen.c_common.gray2int (Val.ofBits b) = Gen.py_common.gray2int (Val.ofBits b) := by
  rw [c_gray2int_tie b h, gray2int_tie b h0, C15.c_gray2int_eq b h, ofInt_natCast]

theorem ca_int?_ofInt (i : Int) : (Val.ofInt i).int? = some i := by
  simp [Val.ofInt, Val.int?]

/-- the documented sentinel map on Python values: the C integers −999999 and −1 read as `None`
    (`C.altOfSentinel` of Model/CCommon.lean), every other value is unchanged -/
def sentinelVal (v : Val) : Val :=
  match v.int? with
  | some i => Val.ofOptInt (C.altOfSentinel i)
  | none => v

theorem sentinelVal_ofInt (a : Int) : sentinelVal (Val.ofInt a) = Val.ofOptInt (C.altOfSentinel a) := by
  simp only [sentinelVal, ca_int?_ofInt]

/-- `c_common.gray2alt` read through the sentinel map = `py_common.gray2alt` on 9 to 32 bits -/
theorem c_gray2alt_eq_py_tie (b : Bits) (h8 : 8 < b.length) (h : b.length ≤ 32) :
    (Gen.c_common.gray2alt (Val.ofBits b) >>= fun v => .val (sentinelVal v)) =
      Gen.py_common.gray2alt (Val.ofBits b) := by
  rw [c_gray2alt_tie b h, gray2alt_tie b h8, bind_val', sentinelVal_ofInt, C15.c_gray2alt_sentinel b (by omega)]

/-- `c_common.altitude` read through the sentinel map = `py_common.altitude`, on EVERY bit string
    (`RuntimeError` on the same inputs) -/
theorem c_altitude_eq_py_tie (b : Bits) :
    (Gen.c_common.altitude (Val.ofBits b) >>= fun v => .val (sentinelVal v)) =
      Gen.py_common.altitude (Val.ofBits b) := by
  rw [c_altitude_tie, altitude_tie, ← C15.c_altitude_eq]
  rcases C.altitude b with (a | _ | _)
  · simp only [bind_val', sentinelVal_ofInt]; rfl
  · rfl
  · rfl

/-- `c_common.altcode` read through the sentinel map = `py_common.altcode` on every hex string of at least two digits -/
theorem c_altcode_eq_py_tie (m : Msg) (h : IsHex m) (hl : 2 ≤ m.length) (hl2 : m.length < 2 ^ 63) :
    (Gen.c_common.altcode (.str m) >>= fun v => .val (sentinelVal v)) = Gen.py_common.altcode (.str m) := by
  rw [c_altcode_tie m (isAscii_of_isHex h) hl2, altcode_tie m h hl, ← C15.c_altcode_eq m h]
  rcases C.altcode m with (a | _ | _)
  · simp only [bind_val', sentinelVal_ofInt]; rfl
  · rfl
  · rfl

end PyModeS.Tie
