/-
  C08 transported to the source-generated definitions: identity code (`common.squawk`, `common.idcode`, `surv.identity`,
  `bds61.emergency_squawk`), the FS / DR / UM fields of DF 4/5 (`surv.fs`, `surv.dr`, `surv.um`), CA of DF 11
  (`allcall.capability`) and the interrogator code read through the PI overlay (`allcall.interrogator`), stated about
  the `Gen.*` functions py2lean.py produced from the current Python source, by composing the tie theorems
  (`Tie/Common.lean`, `Tie/Surv.lean`, `Tie/Bds61.lean`) with `Properties/C08.lean`.
  `surv.dr` had no tie yet; it is proved here (`dr_tie`), with its C14 statement (`dr_total_guard_tie`).
  (The length guard of `squawk` is in `Tie/C0278Gen.lean`.)
-/
import PyModeS.Properties.C08
import PyModeS.Properties.C14
import PyModeS.Tie.Common
import PyModeS.Tie.Surv
import PyModeS.Tie.Bds61
import Mathlib.Tactic.SplitIfs

-- symbolic execution of long generated `do` blocks: generous but finite budget (proof times are seconds)
set_option maxHeartbeats 1000000

set_option linter.unusedSimpArgs false
set_option linter.unusedTactic false
set_option linter.unreachableTactic false
namespace PyModeS.C08Gen
open PyModeS PyModeS.Py PyModeS.CRC PyModeS.Spec PyModeS.Tie

theorem bits_ge (m : Msg) {k : Nat} (hl : k ≤ m.length) : 4 * k ≤ (hex2binM m).length := by
  rw [hex2binM_length]; omega

/-! ### identity code -/

/-- the four octal digits A B C D of an identity field `C1 A1 C2 A2 C4 A4 X B1 D1 B2 D2 B4 D4` (Annex 10 3.1.2.6.7.1) -/
def idDigits (b : Bits) : List Nat :=
  [PyModeS.bin2int [b.getD 5 false, b.getD 3 false, b.getD 1 false],
   PyModeS.bin2int [b.getD 11 false, b.getD 9 false, b.getD 7 false],
   PyModeS.bin2int [b.getD 4 false, b.getD 2 false, b.getD 0 false],
   PyModeS.bin2int [b.getD 12 false, b.getD 10 false, b.getD 8 false]]

/-- the Python result: one character per octal digit -/
def octalStr (l : List Nat) : Val := .str (l.map Nat.digitChar)

theorem squawk_model13 (b : Bits) (hb : b.length = 13) : PyModeS.squawk b = .val (idDigits b) := by
  obtain ⟨C1, A1, C2, A2, C4, A4, M, B1, Q, B2, D2, B4, D4, rfl⟩ :
      ∃ C1 A1 C2 A2 C4 A4 M B1 Q B2 D2 B4 D4, b = [C1, A1, C2, A2, C4, A4, M, B1, Q, B2, D2, B4, D4] := by
    rcases b with _ | ⟨a0, _ | ⟨a1, _ | ⟨a2, _ | ⟨a3, _ | ⟨a4, _ | ⟨a5, _ | ⟨a6, _ | ⟨a7, _ | ⟨a8, _ | ⟨a9,
      _ | ⟨a10, _ | ⟨a11, _ | ⟨a12, _ | ⟨a13, t⟩⟩⟩⟩⟩⟩⟩⟩⟩⟩⟩⟩⟩⟩ <;> simp at hb
    exact ⟨a0, a1, a2, a3, a4, a5, a6, a7, a8, a9, a10, a11, a12, rfl⟩
  rfl

/-- what a `squawk` result looks like once encoded -/
theorem squawk_enc (b : Bits) :
    (PyModeS.squawk b >>= fun l => (.val (Val.ofDigits l) : Res Val)) =
      (PyModeS.squawk b >>= fun l => .val (octalStr l)) := by
  rcases hs : PyModeS.squawk b with (l | _ | _)
  · simp only [Res.bind_val, octalStr, (ofDigits_squawk b l hs).2.2]
  · rfl
  · rfl

/-- all 8192 identity fields: the generated `squawk` returns the four octal digits as a 4-character string -/
theorem squawk_digits_tie (b : Bits) (hb : b.length = 13) :
    Gen.py_common.squawk (Val.ofBits b) = .val (octalStr (idDigits b)) := by
  rw [Tie.squawk_tie, squawk_enc, squawk_model13 b hb]; rfl

/-- the encoder view: the field built from digits A B C D and any X bit decodes to "ABCD" -/
theorem squawk_spec_tie (a b c d : Nat) (x : Bool) (ha : a < 8) (hb : b < 8) (hc : c < 8) (hd : d < 8) :
    Gen.py_common.squawk (Val.ofBits (id13 a b c d x)) = .val (octalStr [a, b, c, d]) := by
  rw [Tie.squawk_tie, squawk_enc, C08.squawk_spec a b c d x ha hb hc hd]; rfl

theorem idDigits_id13 (a b c d : Nat) (x : Bool) (ha : a < 8) (hb : b < 8) (hc : c < 8) (hd : d < 8) :
    idDigits (id13 a b c d x) = [a, b, c, d] := by
  have h1 := squawk_model13 (id13 a b c d x) rfl
  rw [C08.squawk_spec a b c d x ha hb hc hd] at h1
  exact (Res.val.inj h1).symm

theorem id_field_len (m : Msg) (hl : 8 ≤ m.length) : (slice 19 32 (hex2binM m)).length = 13 := by
  rw [slice_length_of_le (bits_ge m hl)]

/-- `common.idcode` (generated) on every hex string of at least two digits: for DF 5 / 21 it is the generated `squawk`
    of bits 20–32 — a function of the DF and the ID field only; every other DF is rejected -/
theorem idcode_frame_tie (m : Msg) (h : IsHex m) (hl : 2 ≤ m.length) :
    Gen.py_common.idcode (.str m) =
      if dfB (hex2binM m) = 5 ∨ dfB (hex2binM m) = 21
      then Gen.py_common.squawk (Val.ofBits (slice 19 32 (hex2binM m))) else .rte := by
  rw [Tie.idcode_tie m h hl, C08.idcode_msg, C08.idcode_frame, Tie.squawk_tie]
  split_ifs <;> rfl

/-- … and on a frame of at least 8 digits that is the 4-character string of the octal digits of the ID field -/
theorem idcode_digits_tie (m : Msg) (h : IsHex m) (hl : 8 ≤ m.length) :
    Gen.py_common.idcode (.str m) =
      if dfB (hex2binM m) = 5 ∨ dfB (hex2binM m) = 21
      then .val (octalStr (idDigits (slice 19 32 (hex2binM m)))) else .rte := by
  rw [idcode_frame_tie m h (by omega), squawk_digits_tie _ (id_field_len m hl)]

/-- `surv.identity` (generated, with its DF decorator): DF 5 only -/
theorem identity_frame_tie (m : Msg) (h : IsHex m) (hl : 2 ≤ m.length) :
    Gen.surv.identity (.str m) =
      if dfB (hex2binM m) = 5 then Gen.py_common.squawk (Val.ofBits (slice 19 32 (hex2binM m))) else .rte := by
  rw [Tie.identity_tie m h hl, C08.surv_identity_frame, Tie.squawk_tie]
  split_ifs <;> rfl

theorem identity_digits_tie (m : Msg) (h : IsHex m) (hl : 8 ≤ m.length) :
    Gen.surv.identity (.str m) =
      if dfB (hex2binM m) = 5 then .val (octalStr (idDigits (slice 19 32 (hex2binM m)))) else .rte := by
  rw [identity_frame_tie m h (by omega), squawk_digits_tie _ (id_field_len m hl)]

/-- a DF 5 / DF 21 reply whose ID field was built from the digits A B C D is reported as "ABCD" -/
theorem idcode_encoder_tie (m : Msg) (h : IsHex m) (hl : 8 ≤ m.length)
    (hdf : dfB (hex2binM m) = 5 ∨ dfB (hex2binM m) = 21)
    (a b c d : Nat) (x : Bool) (ha : a < 8) (hb : b < 8) (hc : c < 8) (hd : d < 8)
    (hid : slice 19 32 (hex2binM m) = id13 a b c d x) :
    Gen.py_common.idcode (.str m) = .val (octalStr [a, b, c, d]) := by
  rw [idcode_digits_tie m h hl, if_pos hdf, hid, idDigits_id13 a b c d x ha hb hc hd]

/-- TC 28: `bds61.emergency_squawk` (generated) is the generated `squawk` of ME bits 12–24; RuntimeError otherwise -/
theorem emergency_squawk_frame_tie (m : Msg) (h : IsHex m) (hl : m.length = 28) :
    Gen.bds61.emergency_squawk (.str m) =
      if tcB (hex2binM m) = some 28 then Gen.py_common.squawk (Val.ofBits (slice 43 56 (hex2binM m))) else .rte := by
  rw [Tie.emergency_squawk_tie m h hl, C08.emergency_squawk_frame, Tie.squawk_bits_tie]
  split_ifs <;> rfl

theorem emergency_squawk_digits_tie (m : Msg) (h : IsHex m) (hl : m.length = 28) :
    Gen.bds61.emergency_squawk (.str m) =
      if tcB (hex2binM m) = some 28 then .val (octalStr (idDigits (slice 43 56 (hex2binM m)))) else .rte := by
  have hb : (hex2binM m).length = 112 := by rw [hex2binM_length, hl]
  have hs : (slice 43 56 (hex2binM m)).length = 13 := by rw [slice_length_of_le (by omega)]
  rw [emergency_squawk_frame_tie m h hl, squawk_digits_tie _ hs]

/-! ### FS, DR, UM of DF 4/5; CA of DF 11 -/

/-- `surv.fs` (generated): FS is bits 6–8, with its text; other DFs are rejected -/
theorem fs_field_tie (m : Msg) (h : IsHex m) (hl : 5 ≤ m.length) :
    Gen.surv.fs (.str m) =
      if dfB (hex2binM m) = 4 ∨ dfB (hex2binM m) = 5
      then .val (.tuple [Val.ofNat (PyModeS.bin2int (slice 5 8 (hex2binM m))),
                         fsText (PyModeS.bin2int (slice 5 8 (hex2binM m)))]) else .rte := by
  rw [Tie.fs_tie m h (by omega), (C08.surv_fields _ (by have := bits_ge m hl; omega)).1]
  split_ifs <;> rfl

/-- `surv.um` (generated): IIS is bits 14–17, IDS bits 18–19, with the text of IDS -/
theorem um_field_tie (m : Msg) (h : IsHex m) (hl : 5 ≤ m.length) :
    Gen.surv.um (.str m) =
      if dfB (hex2binM m) = 4 ∨ dfB (hex2binM m) = 5
      then .val (.tuple [Val.ofNat (PyModeS.bin2int (slice 13 17 (hex2binM m))),
                         Val.ofNat (PyModeS.bin2int (slice 17 19 (hex2binM m))),
                         umText (PyModeS.bin2int (slice 17 19 (hex2binM m)))]) else .rte := by
  rw [Tie.um_tie m h (by omega), (C08.surv_fields _ (by have := bits_ge m hl; omega)).2.2]
  split_ifs <;> rfl

/-- the text label `surv.dr` returns next to the DR value -/
def drText (n : Nat) : Val :=
  if n = 0 then .str "no downlink request".toList
  else if n = 1 then .str "request to send Comm-B message".toList
  else if n = 4 then .str "Comm-B broadcast 1 available".toList
  else if n = 5 then .str "Comm-B broadcast 2 available".toList
  else if 16 ≤ n then .str ("ELM downlink segments available: ".toList ++ (toString (n - 15)).toList)
  else .str []

/-- `surv.dr(msg)`: the pair (DR, text) — tie of the generated function with the hand model `survDr` -/
theorem dr_tie (m : Msg) (h : IsHex m) (hl : 2 ≤ m.length) :
    Gen.surv.dr (.str m) = (survDr (hex2binM m) >>= fun n => .val (.tuple [Val.ofNat n, drText n])) := by
  unfold Gen.surv.dr survDr
  simp only [df_str m h hl, bind_val', df_in45]
  apply surv_guard
  intro _
  unfold Gen.surv.dr_undecorated
  have hne : m ≠ [] := by intro e; simp [e] at hl
  simp only [hex2bin_str m h hne, bind_val', pySliceNN_ofBits, bin2int_ofBits]
  generalize bin2intR (slice 8 13 (hex2binM m)) = r
  rcases r with (n | _ | _)
  swap; · rfl
  swap; · rfl
  obtain ⟨e0, e1, -, -, e4, e5, -, -⟩ := pyEq_ofNat_lits n
  have hge : pyGe (Val.ofNat n) (Val.num 16) = .val (.bool (decide (16 ≤ n))) := by
    simp only [Val.ofNat, pyGe_num]
    congr 2
    have : ((16 : Rat) ≤ (n : Rat)) ↔ 16 ≤ n := by exact_mod_cast Iff.rfl
    exact decide_eq_decide.mpr this
  simp only [bind_val', e0, e1, e4, e5, hge, pyTruth_bool, decide_eq_true_eq, Res.pure_eq, drText]
  by_cases c0 : n = 0
  · simp only [c0, if_true] <;> rfl
  by_cases c1 : n = 1
  · simp only [c1, if_true]; rfl
  by_cases c4 : n = 4
  · simp only [c4, if_true]; rfl
  by_cases c5 : n = 5
  · simp only [c5, if_true]; rfl
  by_cases c16 : 16 ≤ n
  · have hsub : pySub (Val.ofNat n) (Val.num 15) = .val (Val.ofNat (n - 15)) := by
      have : 15 ≤ n := by omega
      simp [Val.ofNat, Nat.cast_sub this]
    simp only [c0, c1, c4, c5, c16, if_true, if_false, bind_val', pyFormat1, hsub, pyStr_ofNat, Tie.pyAdd_str,
      List.append_nil] <;> rfl
  · simp only [c0, c1, c4, c5, c16, if_false] <;> rfl

/-- `surv.dr` (generated): DR is bits 9–13, with its text; other DFs are rejected -/
theorem dr_field_tie (m : Msg) (h : IsHex m) (hl : 5 ≤ m.length) :
    Gen.surv.dr (.str m) =
      if dfB (hex2binM m) = 4 ∨ dfB (hex2binM m) = 5
      then .val (.tuple [Val.ofNat (PyModeS.bin2int (slice 8 13 (hex2binM m))),
                         drText (PyModeS.bin2int (slice 8 13 (hex2binM m)))]) else .rte := by
  rw [dr_tie m h (by omega), (C08.surv_fields _ (by have := bits_ge m hl; omega)).2.1]
  split_ifs <;> rfl

/-- C14 for `surv.dr` (generated), on 14- and 28-digit hex frames: never an exception other than RuntimeError, and
    RuntimeError exactly outside DF 4 / 5 -/
theorem dr_total_guard_tie (m : Msg) (h : IsHex m) (hl : m.length = 14 ∨ m.length = 28) :
    Gen.surv.dr (.str m) ≠ .exc ∧
    (Gen.surv.dr (.str m) = .rte ↔ ¬ (dfB (hex2binM m) = 4 ∨ dfB (hex2binM m) = 5)) := by
  have hb : (hex2binM m).length = 56 ∨ (hex2binM m).length = 112 := by rw [hex2binM_length]; omega
  have hn := (C14.no_exc_surv_allcall _ hb).2.1
  have hg := (C14.guard_iff_surv_allcall _ hb).2.1
  rw [dr_tie m h (by omega)]
  rcases hs : survDr (hex2binM m) with (n | _ | _)
  · rw [hs] at hg
    refine ⟨(fun e => by cases e), ⟨(fun e => by cases e), fun e => ?_⟩⟩
    exact absurd (hg.mpr e) (by intro c; cases c)
  · rw [hs] at hg
    exact ⟨(fun e => by cases e), ⟨fun _ => hg.mp rfl, fun _ => rfl⟩⟩
  · exact absurd hs hn

/-- `allcall.capability` (generated): CA of a DF 11 reply is bits 6–8, with its text; other DFs are rejected -/
theorem capability_field_tie (m : Msg) (h : IsHex m) (hl : 2 ≤ m.length) :
    Gen.allcall.capability (.str m) =
      if dfB (hex2binM m) = 11
      then .val (.tuple [Val.ofNat (PyModeS.bin2int (slice 5 8 (hex2binM m))),
                         caText (PyModeS.bin2int (slice 5 8 (hex2binM m)))]) else .rte := by
  rw [Tie.capability_tie m h hl, C08.capability_frame _ (by have := bits_ge m hl; omega)]
  split_ifs <;> rfl

/-! ### the interrogator code, read through the PI overlay -/

/-- If the last 24 bits of an all-call reply are `parity(data) XOR code` (PI field, Annex 10 3.1.2.3.3.2), the generated
    `allcall.interrogator` returns the label of exactly that code ("II<n>", "SI<n-16>", "corrupt IC" above 79); every
    other DF is rejected.  Any whole number >= 3 of bytes. -/
theorem interrogator_spec_tie (m : Msg) (h : IsHex m) (hl : 6 ≤ m.length) (h2 : m.length % 2 = 0) (code : Nat)
    (hpi : PyModeS.bin2int (takeLast 24 (hex2binM m)) =
      Spec.remH (dropLast 24 (hex2binM m) ++ List.replicate 24 false) ^^^ code) :
    Gen.allcall.interrogator (.str m) =
      if dfB (hex2binM m) = 11 then .val (.str (C08.icLabel code).toList) else .rte := by
  have h8 : (hex2binM m).length % 8 = 0 := by rw [hex2binM_length]; omega
  have h24 : 24 ≤ (hex2binM m).length := by have := bits_ge m hl; omega
  rw [Tie.interrogator_tie m h hl, C08.interrogator_spec _ code h8 h24 hpi]
  split_ifs <;> rfl

/-- the hypothesis is satisfiable for every payload and every code: the frame `hex(data ++ (parity(data) xor code))`
    (`CRC.encodeAP`), passed to the generated `interrogator`, yields the label of `code` -/
theorem interrogator_encoder_tie (d : Bits) (code : Nat) (hc : code < 2 ^ 24) (h8 : d.length % 8 = 0)
    (h5 : 5 ≤ d.length) :
    Gen.allcall.interrogator (.str (CRC.encodeAP d code)) =
      if dfB d = 11 then .val (.str (C08.icLabel code).toList) else .rte := by
  have hhex : IsHex (CRC.encodeAP d code) := CRC.hexOfBits_isHex _
  have hlen : 6 ≤ (CRC.encodeAP d code).length := by rw [CRC.encodeAP_length]; omega
  rw [Tie.interrogator_tie _ hhex hlen, CRC.hex2binM_encodeAP d code (by omega),
    C08.interrogator_encoder d code hc h8 h5]
  split_ifs <;> rfl

end PyModeS.C08Gen
