/-
  Tie: generated `py_common.crc` (the Mode S CRC of `src/pyModeS/py_common.py`, two nested `for` loops with
  item assignments on a Python list) = hand model `PyModeS.crc` (`Model/Common.lean`), the function all C01
  theorems are about.

  Route: a small Hoare logic for `Res` (`Post`) with a loop rule for `forIn` over `range(n)`; the Python list of
  bytes is `natList l`; one pass of the inner body on `natList mb` gives `natList (crcInner Tables.crcG mb ibyte ibit)`;
  the two loops are the two `List.foldl` of `crcLoop`; the last line is `last3`.

  Helper lemmas live in `PyModeS.Tie.CrcTie`; the results `crc_tie`, `crc_tie_14_28`, `crc_encode` in `PyModeS.Tie`.
-/
import PyModeS.Tie.Common

-- symbolic execution of long generated `do` blocks: generous but finite budget (proof times are seconds)
set_option maxHeartbeats 1000000

set_option linter.unusedSimpArgs false
set_option linter.style.nameCheck false
namespace PyModeS.Tie.CrcTie
open PyModeS PyModeS.Py PyModeS.CRC

/-! ### a small Hoare logic for `Res` -/

/-- `r` returns a value satisfying `P` -/
def Post {α} (r : Res α) (P : α → Prop) : Prop := ∃ a, r = .val a ∧ P a

theorem Post.val {α} {P : α → Prop} {a : α} (h : P a) : Post (.val a) P := ⟨a, rfl, h⟩

theorem Post.bind {α β} {x : Res α} {k : α → Res β} {Q : α → Prop} {P : β → Prop}
    (hx : Post x Q) (hk : ∀ a, Q a → Post (k a) P) : Post (x >>= k) P := by
  obtain ⟨a, rfl, ha⟩ := hx
  rw [bind_val']
  exact hk a ha

theorem Post.eq {α} {r : Res α} {a : α} (h : Post r (fun x => x = a)) : r = .val a := by
  obtain ⟨_, rfl, rfl⟩ := h
  rfl

/-- loop rule: a `for` over the items `enc i`, `i ∈ l`, whose body keeps the relation `R` between the model state
    and the mutable variables, computes the fold of the model step -/
theorem Post.forIn {σ τ} (enc : Nat → Val) (R : τ → σ → Prop) (g : τ → Nat → τ)
    (f : Val → σ → Res (ForInStep σ)) (l : List Nat) (t0 : τ) (s0 : σ) (h0 : R t0 s0)
    (hstep : ∀ i ∈ l, ∀ t s, R t s → Post (f (enc i) s) (fun r => ∃ s', r = .yield s' ∧ R (g t i) s')) :
    Post (forIn (l.map enc) s0 f) (fun s => R (l.foldl g t0) s) := by
  induction l generalizing t0 s0 with
  | nil => exact ⟨s0, rfl, h0⟩
  | cons i l ih =>
    rw [List.map_cons, List.forIn_cons]
    refine Post.bind (hstep i (by simp) t0 s0 h0) ?_
    rintro _ ⟨s', rfl, hs'⟩
    exact ih (g t0 i) s' hs' (fun j hj => hstep j (List.mem_cons_of_mem _ hj))

/-! ### lists of numbers -/

/-- a Python list of non-negative integers -/
def natList (l : List Nat) : Val := .tuple (l.map Val.ofNat)

theorem pyIdx_repr (l : List Nat) (i : Nat) (h : i < l.length) :
    Py.pyIdx (natList l) (Val.ofNat i) = .val (Val.ofNat (l.getD i 0)) := by
  have hn : ¬ ((i : Int) < 0) := by omega
  simp only [Py.pyIdx, natList, int?_ofNat, idxList, hn, if_false, Int.toNat_natCast, List.getElem?_map,
    List.getElem?_eq_getElem h, Option.map_some, List.getD_eq_getElem?_getD, Option.getD_some]
  rfl

theorem pySetItem_repr (l : List Nat) (i v : Nat) (h : i < l.length) :
    pySetItem (natList l) (Val.ofNat i) (Val.ofNat v) = .val (natList (l.set i v)) := by
  have hn : ¬ ((i : Int) < 0) := by omega
  simp [pySetItem, natList, int?_ofNat, hn, h, List.map_set]

/-! ### the prefix of `crc`: generator bytes, `msg[:-6] + "000000"`, the byte list -/

theorem g0_lit : pyInt2 (Val.str ['1', '1', '1', '1', '1', '1', '1', '1']) (Val.num 2) = .val (Val.ofNat 255) := by
  rfl
theorem g1_lit : pyInt2 (Val.str ['1', '1', '1', '1', '1', '0', '1', '0']) (Val.num 2) = .val (Val.ofNat 250) := by
  rfl
theorem g2_lit : pyInt2 (Val.str ['0', '0', '0', '0', '0', '1', '0', '0']) (Val.num 2) = .val (Val.ofNat 4) := by
  rfl
theorem g3_lit : pyInt2 (Val.str ['1', '0', '0', '0', '0', '0', '0', '0']) (Val.num 2) = .val (Val.ofNat 128) := by
  rfl

theorem zeros6 : "000000".toList = ['0', '0', '0', '0', '0', '0'] := by decide

/-- `msg[:-6]` -/
theorem pySlice_dropLast6 (m : Msg) :
    pySlice (.str m) none (some (Val.num (-6))) = .val (.str (dropLast 6 m)) := by
  have h6 : (Val.num (-6)).int? = some (-((6 : Nat) : Int)) := by
    simp [Val.int?]
  simp only [pySlice, optInt, h6, Res.bind_val, sliceList, normBound_neg _ 6 (by decide)]
  simp [dropLast, slice]

theorem bytesOfBits_cons (b : Bool) (bs : Bits) :
    bytesOfBits (b :: bs) = PyModeS.bin2int ((b :: bs).take 8) :: bytesOfBits ((b :: bs).drop 8) := by
  rw [bytesOfBits]

/-- `[bin2int(x) for x in wrap(bits, 8)]` (steps of the comprehension; `fuel` bounds the number of chunks) -/
theorem compList_bytes (fuel : Nat) : ∀ bits : Bits, bits.length ≤ fuel →
    compList (fun x__1 => do
        let r ← Gen.py_common.bin2int x__1
        pure (some r)) ((chunks 8 fuel (bits.map Bool.toDigit)).map .str) =
      .val ((bytesOfBits bits).map Val.ofNat) := by
  induction fuel with
  | zero =>
    intro bits h
    have : bits = [] := List.eq_nil_of_length_eq_zero (by omega)
    subst this
    rw [bytesOfBits]
    rfl
  | succ fuel ih =>
    intro bits h
    cases bits with
    | nil => rw [bytesOfBits]; rfl
    | cons b bs =>
      have hd : ((b :: bs).drop 8).length ≤ fuel := by
        rw [List.length_drop]; simp only [List.length_cons] at h ⊢; omega
      have ht : 0 < ((b :: bs).take 8).length := by simp
      have e : Val.str (((b :: bs).map Bool.toDigit).take 8) = Val.ofBits ((b :: bs).take 8) := by
        simp only [Val.ofBits, List.map_take]
      have := ih _ hd
      rw [List.map_drop] at this
      rw [bytesOfBits_cons]
      simp only [List.map_cons] at e this ⊢
      simp only [chunks, List.map_cons, compList, e, this]
      simp only [bin2int_ofBits, bin2intR_of_length ht, Res.bind_val, Res.pure_eq]

/-! ### numbers -/

theorem pyBitAnd_ofNat (a b : Nat) : pyBitAnd (Val.ofNat a) (Val.ofNat b) = .val (Val.ofNat (a &&& b)) :=
  bitop_ofNat _ a b
theorem pyBitOr_ofNat (a b : Nat) : pyBitOr (Val.ofNat a) (Val.ofNat b) = .val (Val.ofNat (a ||| b)) :=
  bitop_ofNat _ a b
theorem pyShl_ofNat (a b : Nat) : pyShl (Val.ofNat a) (Val.ofNat b) = .val (Val.ofNat (a <<< b)) :=
  bitop_ofNat _ a b

theorem pyAdd_ofNat (a b : Nat) : pyAdd (Val.ofNat a) (Val.ofNat b) = .val (Val.ofNat (a + b)) := by
  simp [Val.ofNat]

theorem pySub_ofNat (a b : Nat) (h : b ≤ a) : pySub (Val.ofNat a) (Val.ofNat b) = .val (Val.ofNat (a - b)) := by
  simp [Val.ofNat, Nat.cast_sub h]

theorem pyGt_ofNat_zero (b : Nat) : pyGt (Val.ofNat b) (Val.ofNat 0) = .val (.bool (decide (b > 0))) := by
  simp [Val.ofNat]

theorem pyLen_repr (l : List Nat) : pyLen (natList l) = .val (Val.ofNat l.length) := by
  simp [pyLen, natList]

theorem pyRange_ofNat (n : Nat) :
    pyRange (Val.ofNat 0) (Val.ofNat n) = .val (.tuple ((List.range n).map Val.ofNat)) := by
  simp only [pyRange, int?_ofNat]
  simp [Val.ofNat]

theorem pyIter_tuple (l : List Val) : pyIter (.tuple l) = .val l := rfl
theorem pyList_tuple (l : List Val) : pyList (.tuple l) = .val (.tuple l) := rfl

/-- `wrap(bits, 8)` then `[bin2int(x) for x in …]` -/
theorem bytes_comp (bits : Bits) :
    (pyWrap (Val.ofBits bits) (Val.num 8) >>= fun sp => pyComp sp (fun x__1 => do
        let r ← Gen.py_common.bin2int x__1
        pure (some r))) = .val (natList (bytesOfBits bits)) := by
  have h8 : (Val.num 8).int? = some (Int.ofNat (7 + 1)) := by simpa using int?_natLit 8
  simp only [pyWrap, Val.ofBits, h8, List.length_map, Res.bind_val, pyComp, pyIter, Nat.reduceAdd]
  rw [compList_bytes _ _ (Nat.le_refl _)]
  rfl

theorem idx4_0 (a b c d : Val) : pyIdxN (Val.tuple [a, b, c, d]) 0 = .val a := rfl
theorem idx4_1 (a b c d : Val) : pyIdxN (Val.tuple [a, b, c, d]) 1 = .val b := rfl
theorem idx4_2 (a b c d : Val) : pyIdxN (Val.tuple [a, b, c, d]) 2 = .val c := rfl
theorem idx4_3 (a b c d : Val) : pyIdxN (Val.tuple [a, b, c, d]) 3 = .val d := rfl
theorem lit2 : Val.num 2 = Val.ofNat 2 := by simp [Val.ofNat]
theorem lit3 : Val.num 3 = Val.ofNat 3 := by simp [Val.ofNat]
theorem lit8 : Val.num 8 = Val.ofNat 8 := by simp [Val.ofNat]
theorem lit16 : Val.num 16 = Val.ofNat 16 := by simp [Val.ofNat]
theorem lit128 : Val.num 128 = Val.ofNat 128 := by simp [Val.ofNat]
theorem lit255 : Val.num 255 = Val.ofNat 255 := by simp [Val.ofNat]

/-- `l[-k]` -/
theorem pyIdx_repr_neg (l : List Nat) (k : Nat) (q : Rat) (hq : q = ((-(k : Int) : Int) : Rat)) (hk : 0 < k)
    (h : k ≤ l.length) :
    Py.pyIdx (natList l) (Val.num q) = .val (Val.ofNat (l.getD (l.length - k) 0)) := by
  subst hq
  have hi : (Val.num ((-(k : Int) : Int) : Rat)).int? = some (-(k : Int)) := by
    simp only [Val.int?, Rat.den_intCast, Rat.num_intCast, if_true]
  have hn : (-(k : Int)) < 0 := by omega
  have hlt : l.length - k < l.length := by omega
  simp only [Py.pyIdx, natList, hi, idxList, hn, if_true, Int.neg_neg, Int.toNat_natCast, List.length_map, h,
    List.getElem?_map, List.getElem?_eq_getElem hlt, Option.map_some, List.getD_eq_getElem?_getD, Option.getD_some]

theorem pyList_repr (l : List Nat) : pyList (natList l) = .val (natList l) := rfl

theorem bytesOfBits_length : ∀ (k : Nat) (bits : Bits), bits.length ≤ 8 * k →
    (bytesOfBits bits).length = (bits.length + 7) / 8 := by
  intro k
  induction k with
  | zero =>
    intro bits h
    have : bits = [] := List.eq_nil_of_length_eq_zero (by omega)
    subst this
    rw [bytesOfBits]; rfl
  | succ k ih =>
    intro bits h
    cases bits with
    | nil => rw [bytesOfBits]; rfl
    | cons b bs =>
      rw [bytesOfBits_cons, List.length_cons, ih _ (by rw [List.length_drop]; omega), List.length_drop]
      simp only [List.length_cons] at h ⊢
      omega

theorem crcInner_length (g mb : List Nat) (i j : Nat) : (crcInner g mb i j).length = mb.length := by
  unfold crcInner
  simp only [xorAt]
  split <;> simp

theorem foldl_crcInner_length (g : List Nat) (i : Nat) (l : List Nat) (mb : List Nat) :
    (l.foldl (fun mb ibit => crcInner g mb i ibit) mb).length = mb.length := by
  induction l generalizing mb with
  | nil => rfl
  | cons a l ih => rw [List.foldl_cons, ih, crcInner_length]

/-- `encode=False`: the whole computation on the hex string as it is -/
theorem crc_tie_false (m : Msg) (h : IsHex m) (hl : 6 ≤ m.length) :
    Gen.py_common.crc (.str m) (.bool false) = .val (Val.ofNat (PyModeS.crc m false)) := by
  apply Post.eq
  unfold Gen.py_common.crc
  have hne : m ≠ [] := by intro e; rw [e] at hl; simp at hl
  have hb := bytes_comp (hex2binM m)
  simp only [g0_lit, g1_lit, g2_lit, g3_lit, bind_val', pyTruth_bool, Bool.false_eq_true, if_false,
    hex2bin_str m h hne]
  rw [← bind_assoc, hb, bind_val', pyList_repr, bind_val', pyLen_repr, bind_val']
  have hlen : 3 ≤ (bytesOfBits (hex2binM m)).length := by
    rw [bytesOfBits_length m.length _ (by rw [hex2binM_length]; omega), hex2binM_length]; omega
  simp only [PyModeS.crc, Bool.false_eq_true, if_false, crcBitsPy]
  generalize bytesOfBits (hex2binM m) = mb0 at hlen ⊢
  simp only [lit2, lit3, lit8, lit16, lit128, lit255, num_zero_ofNat, num_one_ofNat]
  rw [pySub_ofNat _ _ hlen, bind_val', pyRange_ofNat, bind_val', pyIter_tuple, bind_val']
  refine Post.bind (Post.forIn Val.ofNat
      (fun (t : List Nat) (s : Val × Val × Val × Val × Val) => t.length = mb0.length ∧ s.2.2.2.2 = natList t)
      (fun mb ibyte => (List.range 8).foldl (fun mb ibit => crcInner Tables.crcG mb ibyte ibit) mb)
      _ _ mb0 _ ⟨rfl, rfl⟩ ?step) ?final
  case step =>
    intro ibyte hib mb s hR
    obtain ⟨hmbl, hs⟩ := hR
    have hib' : ibyte + 3 < mb.length := by rw [List.mem_range] at hib; omega
    rcases s with ⟨s1, s2, s3, s4, s5⟩
    simp only at hs
    subst hs
    simp only []
    rw [pyRange_ofNat, bind_val', pyIter_tuple, bind_val']
    refine Post.bind (Post.forIn Val.ofNat
       (fun (t : List Nat) (s : Val × Val × Val × Val) => t.length = mb.length ∧ s.2.2.2 = natList t)
       (fun mb ibit => crcInner Tables.crcG mb ibyte ibit) _ _ mb _ ⟨rfl, rfl⟩ ?inner) ?_
    case inner =>
      intro ibit hibit t s hR
      obtain ⟨htl, hs⟩ := hR
      rcases s with ⟨s1, s2, s3, s4⟩
      simp only at hs
      subst hs
      simp only []
      have hi8 : ibit ≤ 8 := by rw [List.mem_range] at hibit; omega
      simp (disch := ((try simp only [List.length_set]); omega)) only [pyShr_ofNat, pyIdx_repr, pyBitAnd_ofNat,
        pyGt_ofNat_zero, bind_val', pyTruth_bool, idx4_0, idx4_1, idx4_2, idx4_3, pyBitXor_ofNat, pySetItem_repr,
        pyAdd_ofNat, pySub_ofNat, pyShl_ofNat, pyBitOr_ofNat, Res.pure_eq]
      rw [crcInner_length, htl]
      have hG0 : Tables.crcG.getD 0 0 = 255 := rfl
      have hG1 : Tables.crcG.getD 1 0 = 250 := rfl
      have hG2 : Tables.crcG.getD 2 0 = 4 := rfl
      have hG3 : Tables.crcG.getD 3 0 = 128 := rfl
      by_cases hbits : t.getD ibyte 0 &&& 128 >>> ibit > 0
      · simp only [hbits, decide_true, if_true]
        refine Post.val ⟨_, rfl, trivial, ?_⟩
        simp only [crcInner, xorAt, hG0, hG1, hG2, hG3, if_pos hbits]
      · simp only [hbits, decide_false, Bool.false_eq_true, if_false]
        refine Post.val ⟨_, rfl, trivial, ?_⟩
        simp only [crcInner, xorAt, hG0, hG1, hG2, hG3, if_neg hbits]
    · rintro ⟨a1, a2, a3, a4⟩ ⟨_, ha⟩
      simp only at ha
      subst ha
      refine Post.val ⟨_, rfl, ?_, rfl⟩
      rw [foldl_crcInner_length, hmbl]
  case final =>
    rintro ⟨a1, a2, a3, a4, a5⟩ ⟨hfl, ha⟩
    simp only at ha
    subst ha
    simp only []
    have hloop : crcLoop Tables.crcG mb0 = (List.range (mb0.length - 3)).foldl
        (fun mb ibyte => (List.range 8).foldl (fun mb ibit => crcInner Tables.crcG mb ibyte ibit) mb) mb0 := rfl
    rw [← hloop] at hfl ⊢
    generalize crcLoop Tables.crcG mb0 = r at hfl ⊢
    rw [pyIdx_repr_neg r 3 _ (by norm_num) (by decide) (by omega), bind_val', pyShl_ofNat, bind_val',
      pyIdx_repr_neg r 2 _ (by norm_num) (by decide) (by omega), bind_val', pyShl_ofNat, bind_val',
      pyBitOr_ofNat, bind_val', pyIdx_repr_neg r 1 _ (by norm_num) (by decide) (by omega), bind_val',
      pyBitOr_ofNat]
    exact Post.val rfl

end PyModeS.Tie.CrcTie

namespace PyModeS.Tie
open PyModeS PyModeS.Py PyModeS.CRC CrcTie

/-- `encode=True` only replaces the last six digits by zeros before the same computation -/
theorem crc_encode (m : Msg) :
    Gen.py_common.crc (.str m) (.bool true) =
      Gen.py_common.crc (.str (dropLast 6 m ++ ['0', '0', '0', '0', '0', '0'])) (.bool false) := by
  unfold Gen.py_common.crc
  simp only [pyTruth_bool, if_true, Bool.false_eq_true, if_false, pySlice_dropLast6, bind_val', pyAdd_str]

theorem crc_isHex_zeroed (m : Msg) (h : IsHex m) : IsHex (dropLast 6 m ++ ['0', '0', '0', '0', '0', '0']) := by
  intro c hc
  rcases List.mem_append.mp hc with hc | hc
  · exact h c (List.mem_of_mem_take hc)
  · have : c = '0' := by simpa using hc
    subst this
    decide

/-- `py_common.crc(msg, encode)` on a hex string of at least six digits (any length: a trailing half byte is
    treated by both models as a short last chunk) -/
theorem crc_tie (m : Msg) (h : IsHex m) (hl : 6 ≤ m.length) (e : Bool) :
    Gen.py_common.crc (.str m) (.bool e) = .val (Val.ofNat (PyModeS.crc m e)) := by
  cases e with
  | false => exact crc_tie_false m h hl
  | true =>
    rw [crc_encode, crc_tie_false _ (crc_isHex_zeroed m h) (by simp [dropLast])]
    simp only [PyModeS.crc, if_true, Bool.false_eq_true, if_false, zeros6]

theorem crc_tie_14_28 (m : Msg) (h : IsHex m) (hl : m.length = 14 ∨ m.length = 28) (e : Bool) :
    Gen.py_common.crc (.str m) (.bool e) = .val (Val.ofNat (PyModeS.crc m e)) :=
  crc_tie m h (by omega) e

end PyModeS.Tie
