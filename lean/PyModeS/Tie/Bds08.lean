/-
  Tie: generated `bds08.py` (category, callsign) and `bds09.altitude_diff` = hand model (`Model/Adsb.lean`).
-/
import PyModeS.Tie.Basic
import PyModeS.Generated.Src.bds08
import PyModeS.Generated.Src.bds09
import Mathlib.Tactic.SplitIfs

-- symbolic execution of long generated `do` blocks: generous but finite budget (proof times are seconds)
set_option maxHeartbeats 1000000

set_option linter.unusedSimpArgs false
set_option linter.unusedTactic false
set_option linter.unreachableTactic false
namespace PyModeS.Tie
open PyModeS PyModeS.Py PyModeS.CRC

/-- `common.typecode(msg)` in terms of the bit-level type code of the hand model -/
theorem typecode_str' (m : Msg) (h : IsHex m) (hl : 10 ≤ m.length) :
    Gen.py_common.typecode (.str m) = .val (Val.ofOptNat (tcB (hex2binM m))) := by
  rw [typecode_str m h hl, typecode_eq]

theorem ne_nil_of_le {m : Msg} (hl : 10 ≤ m.length) : m ≠ [] := by
  intro e; rw [e] at hl; simp at hl

theorem category_tie (m : Msg) (h : IsHex m) (hl : 10 ≤ m.length) :
    Gen.bds08.category (.str m) = (PyModeS.category (hex2binM m) >>= fun n => .val (Val.ofNat n)) := by
  unfold Gen.bds08.category PyModeS.category
  simp only [typecode_str' m h hl, Res.bind_val, hex2bin_str m h (ne_nil_of_le hl)]
  generalize tcB (hex2binM m) = o
  rcases o with _ | tc
  · simp [Val.ofOptNat]
  · simp [Val.ofOptNat]
    split_ifs <;> simp_all

theorem altitude_diff_tie (m : Msg) (h : IsHex m) (hl : 10 ≤ m.length) :
    Gen.bds09.altitude_diff (.str m) =
      (PyModeS.altitudeDiff (hex2binM m) >>= fun o => .val (Val.ofOptInt o)) := by
  unfold Gen.bds09.altitude_diff PyModeS.altitudeDiff
  simp only [typecode_str' m h hl, Res.bind_val, hex2bin_str m h (ne_nil_of_le hl)]
  generalize tcB (hex2binM m) = o
  generalize hex2binM m = d
  rcases o with _ | tc
  · simp [Val.ofOptNat]
  · simp [Val.ofOptNat]
    by_cases h19 : tc = 19
    · subst h19
      simp only [Nat.cast_ofNat, if_true]
      generalize idxR d 80 = r1
      generalize bin2intR (slice 81 88 d) = r2
      rcases r1 with (s | _ | _) <;> rcases r2 with (v | _ | _) <;> try rfl
      all_goals (cases s <;> simp [Val.ofNat, Val.ofOptInt])
      all_goals
        by_cases h0 : v = 0
        · simp [h0]
        by_cases h127 : v = 127
        · simp [h127]
        have : ¬ ((v : Rat) = 127) := by exact_mod_cast h127
        simp [h0, h127, this]
    · have : ¬ ((tc : Rat) = 19) := by exact_mod_cast h19
      simp [h19, this]

/-- `s[n]` for a string and a non-negative integer value -/
theorem pyIdx_str_ofNat (cs : List Char) (n : Nat) :
    Py.pyIdx (.str cs) (Val.ofNat n) = (idxR cs n >>= fun c => .val (.str [c])) := by
  have : ¬ ((n : Int) < 0) := by omega
  simp only [Py.pyIdx, int?_ofNat, idxList, this, if_false, Int.toNat_natCast, idxR]
  cases cs[n]? <;> rfl

@[simp] theorem pyAdd_str (x y : List Char) : pyAdd (.str x) (.str y) = .val (.str (x ++ y)) := rfl

theorem mapM_cons {α β} (f : α → Res β) (a : α) (as : List α) :
    Res.mapM f (a :: as) = (f a >>= fun b => Res.mapM f as >>= fun bs => .val (b :: bs)) := by
  simp only [Res.mapM]
  cases f a with
  | val b => cases Res.mapM f as <;> rfl
  | rte => rfl
  | exc => rfl

theorem mapM_nil {α β} (f : α → Res β) : Res.mapM f [] = .val [] := rfl

theorem flatMap_remove (x : Char) (l : List Char) :
    l.flatMap (fun c => if c = x then [] else [c]) = l.filter (fun c => decide (c ≠ x)) := by
  induction l with
  | nil => rfl
  | cons a l ih =>
    simp only [List.flatMap_cons, ih, List.filter_cons]
    by_cases hx : a = x <;> simp [hx]

theorem pyReplace_remove (s : List Char) (x : Char) :
    pyReplace (.str s) (.str [x]) (.str []) = .val (.str (s.filter (fun c => decide (c ≠ x)))) := by
  simp only [pyReplace, flatMap_remove]

macro "res_split" t:term : tactic => `(tactic|
  (generalize $t = r
   rcases r with (_ | _ | _)
   all_goals try (simp only [Res.bind_val, Res.bind_rte, Res.bind_exc, Res.pure_eq])))

/- `callsign_tie` (NOT FINISHED, statement believed true):
     Gen.bds08.callsign (.str m) = (PyModeS.callsign (hex2binM m) >>= fun s => .val (.str s))   for 10 ≤ m.length.
   Plan that elaborates: `unfold Gen.bds08.callsign PyModeS.callsign; generalize hc : String.toList _ = chars;
   have hc' : Tables.callsignChars = chars := hc; rw [hc']`, then `typecode_str'`, `hex2bin_str`, `chars8` unfolded with
   `mapM_cons`/`mapM_nil` on `List.range 8 = [0,…,7]`, `pyIdx_str_ofNat`, `pyAdd_str`, `pyReplace_remove`, and `res_split`
   on the eight `bin2intR (slice …)` / `idxR chars …` pairs.  Obstacle: after `hex2bin_str` is rewritten, the proof term
   of `simp only [Res.bind_val]` (substituting `msgbin`/`csbin`, used eight times) hits a *kernel* deterministic timeout
   (elaboration is fine); it needs a formulation that avoids the substitution (e.g. a helper lemma for one
   `cs + chars[bin2int(csbin[a:b])]` step stated on `Val.ofBits cs`). -/

end PyModeS.Tie
