/-
  Model of extra/aero.py: one polymorphic definition over a numeric class, instantiated at
  `Float` (executed by the driver, compared with numpy) and at `ℝ` (Proofs/Aero, where the
  theorems are proved).  Same operations in the same order as the Python.
-/
import PyModeS.Basic

namespace PyModeS.Aero

/-- the transcendental operations aero.py uses -/
class AeroOps (α : Type) where
  sqrt : α → α
  exp : α → α
  pow : α → α → α
  sin : α → α
  cos : α → α
  acos : α → α
  atan2 : α → α → α
  pi : α
  /-- Python `x % 360` for floats -/
  mod360 : α → α

variable {α : Type} [Add α] [Sub α] [Mul α] [Div α] [Neg α] [OfScientific α] [OfNat α 0] [OfNat α 1] [Max α]
  [LT α] [DecidableLT α] [AeroOps α]

open AeroOps

def kts : α := 0.514444
def ft : α := 0.3048
def R : α := 287.05287
def p0 : α := 101325.0
def rho0 : α := 1.225
def gamma : α := 1.40
def rEarth : α := 6371000.0

/-- aero.atmos(H) = (p, rho, T) -/
def atmos (H : α) : α × α × α :=
  let T : α := max (288.15 - 0.0065 * H) 216.65
  let rhotrop : α := 1.225 * pow (T / 288.15) 4.256848030018761
  let dhstrat : α := max 0.0 (H - 11000.0)
  let rho : α := rhotrop * exp (-dhstrat / 6341.552161)
  let p : α := rho * R * T
  (p, rho, T)

def temperature (H : α) : α := (atmos H).2.2
def pressure (H : α) : α := (atmos H).1
def density (H : α) : α := (atmos H).2.1
def vsound (H : α) : α := sqrt (gamma * R * temperature H)

def tas2mach (v H : α) : α := v / vsound H
def mach2tas (m H : α) : α := m * vsound H
def eas2tas (v H : α) : α := v * sqrt (rho0 / density H)
def tas2eas (v H : α) : α := v * sqrt (density H / rho0)

def cas2tas (vcas H : α) : α :=
  let (p, rho, _) := atmos H
  let qdyn : α := p0 * (pow (1.0 + rho0 * vcas * vcas / (7.0 * p0)) 3.5 - 1.0)
  sqrt (7.0 * p / rho * (pow (1.0 + qdyn / p) (2.0 / 7.0) - 1.0))

def tas2cas (vtas H : α) : α :=
  let (p, rho, _) := atmos H
  let qdyn : α := p * (pow (1.0 + rho * vtas * vtas / (7.0 * p)) 3.5 - 1.0)
  sqrt (7.0 * p0 / rho0 * (pow (qdyn / p0 + 1.0) (2.0 / 7.0) - 1.0))

def mach2cas (m H : α) : α := tas2cas (mach2tas m H) H
def cas2mach (v H : α) : α := tas2mach (cas2tas v H) H

def radians (x : α) : α := x * (AeroOps.pi / 180.0)
def degrees (x : α) : α := x * (180.0 / AeroOps.pi)

/-- aero.distance (law of cosines, `cos` clamped to [-1, 1]) -/
def distance (lat1 lon1 lat2 lon2 H : α) : α :=
  let phi1 := radians (90.0 - lat1)
  let phi2 := radians (90.0 - lat2)
  let theta1 := radians lon1
  let theta2 := radians lon2
  let c : α := sin phi1 * sin phi2 * cos (theta1 - theta2) + cos phi1 * cos phi2
  let c : α := if (1.0 : α) < c then 1.0 else c
  let c : α := if c < (-1.0 : α) then -1.0 else c
  acos c * (rEarth + H)

/-- aero.bearing -/
def bearing (lat1 lon1 lat2 lon2 : α) : α :=
  let lat1 := radians lat1
  let lon1 := radians lon1
  let lat2 := radians lat2
  let lon2 := radians lon2
  let x : α := sin (lon2 - lon1) * cos lat2
  let y : α := cos lat1 * sin lat2 - sin lat1 * cos lat2 * cos (lon2 - lon1)
  mod360 (degrees (atan2 x y) + 360.0)

/-- `aero.mach2cas(mach, alt*aero.ft)/aero.kts` as used by is60 / is50or60 -/
def iasOfMach (mach altFt : α) : α := mach2cas mach (altFt * ft) / kts

instance : AeroOps Float where
  sqrt := Float.sqrt
  exp := Float.exp
  pow := Float.pow
  sin := Float.sin
  cos := Float.cos
  acos := Float.acos
  atan2 := Float.atan2
  pi := Float.ofBits 0x400921FB54442D18
  mod360 := fun x => x - 360.0 * Float.floor (x / 360.0)

end PyModeS.Aero
