/-
  Model of extra/tcpclient.py (read_beast_buffer, read_raw_buffer, read_skysense_buffer) and of
  streamer/source.py NetSource.handle_messages.  A reader is `read : buffer → messages × buffer'`;
  the client does `buffer.extend(chunk); read`.
-/
import PyModeS.Model.Adsb

namespace PyModeS

abbrev Byte := Nat

def hex2 (b : Byte) : List Char := [hexDigitU (b / 16 % 16), hexDigitU (b % 16)]
def hexOfBytes (l : List Byte) : Msg := l.flatMap hex2

/-! ### Beast -/

/-- the `while` loop of read_beast_buffer over the raw bytes not yet looked at.
    `msg`: un-escaped bytes since the last divider; `out`: completed messages (newest first);
    `st`: the raw suffix beginning at the divider that opened the current message (`self.buffer[start:]`). -/
def beastScan : List Byte → List Byte → List (List Byte) → List Byte → List (List Byte) × List Byte
  | [], _, out, st => (out.reverse, st)
  | [b], msg, out, st =>
    if b = 0x1A then (out.reverse, st)                   -- lone trailing 0x1a: wait for more
    else beastScan [] (msg ++ [b]) out st
  | b :: c :: rest, msg, out, st =>
    if b = 0x1A ∧ c = 0x1A then beastScan rest (msg ++ [0x1A]) out st        -- <esc><esc>
    else if b = 0x1A then                                                     -- divider
      beastScan (c :: rest) [] (if msg.isEmpty then out else msg :: out) (b :: c :: rest)
    else beastScan (c :: rest) (msg ++ [b]) out st

/-- message extraction from one un-escaped Beast frame (`None`: skipped) -/
def beastExtract (mm : List Byte) : Option Msg :=
  match mm with
  | [] => none   -- (not reachable: only non-empty frames are collected)
  | t :: _ =>
    let m? : Option Msg :=
      if t = 0x32 then some (hexOfBytes (slice 8 15 mm))
      else if t = 0x33 then some (hexOfBytes (slice 8 22 mm))
      else none
    match m? with
    | none => none
    | some m =>
      if m.length ≠ 14 ∧ m.length ≠ 28 then none else
      let d := df m
      if (d = 0 ∨ d = 4 ∨ d = 5 ∨ d = 11) ∧ m.length ≠ 14 then none
      else if (d = 16 ∨ d = 17 ∨ d = 18 ∨ d = 19 ∨ d = 20 ∨ d = 21 ∨ d = 24) ∧ m.length ≠ 28 then none
      else some m

/-- read_beast_buffer: (messages, new self.buffer) -/
def readBeast (buf : List Byte) : List Msg × List Byte :=
  let (frames, rest) := beastScan buf [] [] buf
  (frames.filterMap beastExtract, rest)

/-! ### AVR raw -/

def isHexByte (b : Byte) : Bool := (48 ≤ b ∧ b ≤ 57) ∨ (65 ≤ b ∧ b ≤ 70) ∨ (97 ≤ b ∧ b ≤ 102)

/-- the `for` loop of read_raw_buffer; `st` = `self.buffer[msg_start:]` if a message is open -/
def rawScan : List Byte → List Char → Bool → List Msg → Option (List Byte) → List Msg × List Byte
  | [], _, _, out, st => (out.reverse, st.getD [])
  | b :: rest, cur, stop, out, st =>
    let (stop, out, st) := if b = 59 then (true, cur :: out, none) else (stop, out, st)
    let (stop, cur, st) := if b = 42 then (false, [], some (b :: rest)) else (stop, cur, st)
    let cur := if !stop && isHexByte b then cur ++ [Char.ofNat b] else cur
    rawScan rest cur stop out st

def readRaw (buf : List Byte) : List Msg × List Byte := rawScan buf [] false [] none

/-! ### Skysense -/

def skyLoop : Nat → List Byte → List Msg → List Msg × List Byte
  | 0, buf, out => (out.reverse, buf)
  | fuel + 1, buf, out =>
    if buf.length ≤ 24 then (out.reverse, buf)
    else if buf.getD 0 0 = 0x24 ∧ buf.getD 24 0 = 0x24 then
      let payload := if buf.getD 1 0 >>> 7 ≠ 0 then slice 1 15 buf else slice 1 8 buf
      skyLoop fuel (buf.drop 24) (hexOfBytes payload :: out)
    else skyLoop fuel (buf.drop 1) out

/-- read_skysense_buffer (`None` and `[]` are both "no messages") -/
def readSky (buf : List Byte) : List Msg × List Byte := skyLoop buf.length buf []

/-! ### the client loop -/

inductive Fmt where | beast | raw | skysense
deriving Repr, DecidableEq

def readFmt : Fmt → List Byte → List Msg × List Byte
  | .beast => readBeast
  | .raw => readRaw
  | .skysense => readSky

/-- deliver the chunks one after the other; all messages handed to `handle_messages`, and the final buffer -/
def feedAll (fmt : Fmt) : List (List Byte) → List Byte → List Msg → List Msg × List Byte
  | [], buf, out => (out, buf)
  | c :: cs, buf, out =>
    let (ms, buf') := readFmt fmt (buf ++ c)
    feedAll fmt cs buf' (out ++ ms)

/-! ### NetSource.handle_messages -/

structure NetSrc where
  adsb : List Msg
  commb : List Msg
deriving Repr, DecidableEq

/-- one call (stop flag clear): (new local buffers, what is sent on the pipe if anything) -/
def nsHandle (s : NetSrc) (msgs : List Msg) : NetSrc × Option (List Msg × List Msg) :=
  let s := msgs.foldl (fun s m =>
    if m.length < 28 then s else
    let d := df m
    if d = 17 ∨ d = 18 then { s with adsb := s.adsb ++ [m] }
    else if d = 20 ∨ d = 21 then { s with commb := s.commb ++ [m] }
    else s) s
  if s.adsb.length > 1 then (⟨[], []⟩, some (s.adsb, s.commb)) else (s, none)

end PyModeS
