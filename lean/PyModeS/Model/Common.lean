/-
  Model of src/pyModeS/py_common.py, line by line.  Messages are hex strings
  represented as `List Char` (`Msg`); bit strings are `Bits`.
-/
import PyModeS.Basic
import PyModeS.Generated.Tables

namespace PyModeS

abbrev Msg := List Char

def hex2binM (m : Msg) : Bits := m.flatMap (fun c => natToBits 4 (hexVal c))

/-- `msg[:-k]` -/
def dropLast {α} (k : Nat) (l : List α) : List α := l.take (l.length - k)
/-- `msg[-k:]` -/
def takeLast {α} (k : Nat) (l : List α) : List α := l.drop (l.length - k)

def hexToNatM (m : Msg) : Nat := m.foldl (fun n c => 16 * n + hexVal c) 0

/-- py_common.df -/
def df (m : Msg) : Nat := min (bin2int (slice 0 5 (hex2binM (m.take 2)))) 24

/-! ### crc -/

/-- `textwrap.wrap(msgbin, 8)` followed by `map(bin2int, …)` -/
def bytesOfBits : Bits → List Nat
  | [] => []
  | b :: bs =>
    let l := b :: bs
    bin2int (l.take 8) :: bytesOfBits (l.drop 8)
termination_by l => l.length
decreasing_by simp; omega

def xorAt (l : List Nat) (i m : Nat) : List Nat := l.set i (l.getD i 0 ^^^ m)

/-- body of the inner loop of `crc` (lines 60–73) for generator bytes `g` -/
def crcInner (g : List Nat) (mb : List Nat) (ibyte ibit : Nat) : List Nat :=
  let g0 := g.getD 0 0; let g1 := g.getD 1 0; let g2 := g.getD 2 0; let g3 := g.getD 3 0
  let mask := 0x80 >>> ibit
  let bits := mb.getD ibyte 0 &&& mask
  if bits > 0 then
    let mb := xorAt mb ibyte (g0 >>> ibit)
    let mb := xorAt mb (ibyte + 1) (0xFF &&& ((g0 <<< (8 - ibit)) ||| (g1 >>> ibit)))
    let mb := xorAt mb (ibyte + 2) (0xFF &&& ((g1 <<< (8 - ibit)) ||| (g2 >>> ibit)))
    let mb := xorAt mb (ibyte + 3) (0xFF &&& ((g2 <<< (8 - ibit)) ||| (g3 >>> ibit)))
    mb
  else mb

def crcLoop (g : List Nat) (mb : List Nat) : List Nat :=
  (List.range (mb.length - 3)).foldl
    (fun mb ibyte => (List.range 8).foldl (fun mb ibit => crcInner g mb ibyte ibit) mb) mb

def last3 (mb : List Nat) : Nat :=
  let n := mb.length
  (mb.getD (n - 3) 0 <<< 16) ||| (mb.getD (n - 2) 0 <<< 8) ||| mb.getD (n - 1) 0

/-- py_common.crc on the bit string (after `hex2bin`) -/
def crcBitsPy (bits : Bits) : Nat := last3 (crcLoop Tables.crcG (bytesOfBits bits))

/-- py_common.crc -/
def crc (m : Msg) (encode : Bool) : Nat :=
  let m := if encode then dropLast 6 m ++ "000000".toList else m
  crcBitsPy (hex2binM m)

/-- py_common.crc_legacy: bit-serial XOR of the 25-bit generator -/
def xorAtBits : Bits → Nat → Bits → Bits
  | l, 0, g => xorBits' l g
  | [], _ + 1, _ => []
  | b :: l, i + 1, g => b :: xorAtBits l i g
where
  /-- xor `g` into the front of `l`, keeping `l`'s length -/
  xorBits' : Bits → Bits → Bits
    | a :: as, b :: bs => (a != b) :: xorBits' as bs
    | as, _ => as

def crcLegacyLoop (gen : Bits) (bits : Bits) : Bits :=
  (List.range (bits.length - 24)).foldl
    (fun s i => if s.getD i false then xorAtBits s i gen else s) bits

def crcLegacy (m : Msg) (encode : Bool) : Nat :=
  let bits := hex2binM m
  let bits := if encode then dropLast 24 bits ++ List.replicate 24 false else bits
  bin2int (takeLast 24 (crcLegacyLoop Tables.crcLegacyGen bits))

/-! ### icao, typecode -/

def hex6 (n : Nat) : Msg :=
  let ds := (Nat.toDigits 16 n).map Char.toUpper
  List.replicate (6 - ds.length) '0' ++ ds

/-- py_common.icao (`none` = Python `None`) -/
def icao (m : Msg) : Option Msg :=
  let d := df m
  if d = 11 ∨ d = 17 ∨ d = 18 then some ((slice 2 8 m).map Char.toUpper)
  else if d = 0 ∨ d = 4 ∨ d = 5 ∨ d = 16 ∨ d = 20 ∨ d = 21 then
    let c0 := crc m true
    let c1 := hexToNatM (takeLast 6 m)
    some (hex6 (c0 ^^^ c1))
  else none

/-- py_common.typecode -/
def typecode (m : Msg) : Option Nat :=
  let d := df m
  if d = 17 ∨ d = 18 then some (bin2int (slice 0 5 (hex2binM (slice 8 10 m)))) else none

/-! ### identity code -/

def b2n (b : Bool) : Nat := b.toNat

/-- py_common.squawk on a 13-bit string: four octal digits A B C D -/
def squawk (b : Bits) : Res (List Nat) :=
  match b with
  | [C1, A1, C2, A2, C4, A4, _X, B1, D1, B2, D2, B4, D4] =>
    .val [bin2int [A4, A2, A1], bin2int [B4, B2, B1], bin2int [C4, C2, C1], bin2int [D4, D2, D1]]
  | _ => .rte  -- len(binstr) != 13

/-- py_common.idcode -/
def idcode (m : Msg) : Res (List Nat) :=
  let d := df m
  if d ≠ 5 ∧ d ≠ 21 then .rte else squawk (slice 19 32 (hex2binM m))

/-! ### altitude code -/

def gray2int (b : Bits) : Nat :=
  let n := bin2int b
  let n := n ^^^ (n >>> 8)
  let n := n ^^^ (n >>> 4)
  let n := n ^^^ (n >>> 2)
  let n := n ^^^ (n >>> 1)
  n

/-- py_common.gray2alt -/
def gray2alt (b : Bits) : Option Int :=
  let n500 := gray2int (slice 0 8 b)
  let n100 := gray2int (b.drop 8)
  if n100 = 0 ∨ n100 = 5 ∨ n100 = 6 then none else
  let n100 := if n100 = 7 then 5 else n100
  let n100 : Int := if n500 % 2 = 1 then 6 - (n100 : Int) else (n100 : Int)
  some (((n500 : Int) * 500 + n100 * 100) - 1300)

/-- `int(N * 3.28084)` for `N ≥ 0` -/
def m2ft (n : Nat) : Int := ((n * 328084 / 100000 : Nat) : Int)

/-- py_common.altitude on a 13-bit string -/
def altitude13 (b : Bits) : Res (Option Int) :=
  match b with
  | [C1, A1, C2, A2, C4, A4, M, B1, Q, B2, D2, B4, D4] =>
    if bin2int b = 0 then .val none
    else if M = false then
      if Q = true then
        -- vbin = binstr[:6] + binstr[7] + binstr[9:]
        let vbin := [C1, A1, C2, A2, C4, A4, B1, B2, D2, B4, D4]
        .val (some (((bin2int vbin * 25 : Nat) : Int) - 1000))
      else
        -- graystr = D2 D4 A1 A2 A4 B1 B2 B4 C1 C2 C4
        .val (gray2alt [D2, D4, A1, A2, A4, B1, B2, B4, C1, C2, C4])
    else
      -- vbin = binstr[:6] + binstr[7:]
      let vbin := [C1, A1, C2, A2, C4, A4, B1, Q, B2, D2, B4, D4]
      .val (some (m2ft (bin2int vbin)))
  | _ => .rte  -- len(binstr) != 13

/-- py_common.altcode -/
def altcode (m : Msg) : Res (Option Int) :=
  let d := df m
  if d ≠ 0 ∧ d ≠ 4 ∧ d ≠ 16 ∧ d ≠ 20 then .rte else altitude13 (slice 19 32 (hex2binM m))

/-! ### data, allzeros, wrongstatus -/

/-- py_common.data: `msg[8:-6]` -/
def dataM (m : Msg) : Msg := (dropLast 6 m).drop 8

/-- the 56 MB bits `hex2bin(data(msg))` -/
def dataBits (m : Msg) : Bits := hex2binM (dataM m)

/-- py_common.allzeros (`int('', 2)` raises `ValueError` when there is no data) -/
def allzeros (m : Msg) : Res Bool := do
  let v ← bin2intR (dataBits m)
  pure (v = 0)

/-- py_common.wrongstatus(data, sb, msb, lsb) on in-range arguments -/
def wrongstatus (d : Bits) (sb msb lsb : Nat) : Res Bool := do
  let status ← idxR d (sb - 1)
  let value ← bin2intR (slice (msb - 1) lsb d)
  pure (!status && value != 0)

/-! ### flight status, downlink request, utility message (py_common.fs/dr/um and surv.*) -/

def fsField (bits : Bits) : Nat := bin2int (slice 5 8 bits)
def drField (bits : Bits) : Nat := bin2int (slice 8 13 bits)
def umFields (bits : Bits) : Nat × Nat := (bin2int (slice 13 17 bits), bin2int (slice 17 19 bits))

end PyModeS
