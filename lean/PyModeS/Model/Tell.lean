/-
  Model of decoder/__init__.py `tell(msg)` projected onto its outcome: which decoders are
  called and which label dictionaries are indexed (the printed text is not modelled).
  `.val ()` = returns normally, `.rte` / `.exc` = the exception class that escapes.
-/
import PyModeS.Model.Commb
import PyModeS.Model.Misc

namespace PyModeS

/-- `d[k]` on a label dictionary with the given keys -/
def dictHas (keys : List Nat) (k : Nat) : Res Unit := if keys.contains k then .val () else .exc

/-- the CPR fields printed for position messages: `bin2int(msgbin[54:71])`, `bin2int(msgbin[71:88])` -/
def tellCpr (bits : Bits) : Res Unit := do
  let _ ← oeFlag bits
  let _ ← bin2intR (slice 54 71 bits)
  let _ ← bin2intR (slice 71 88 bits)
  pure ()

def tellTc29 (bits : Bits) : Res Unit := do
  let mb := bits.drop 32
  let subtype ← bin2intR (slice 5 7 mb)
  let tcasOp ← tcasOperational bits
  if subtype = 0 then do
    let _ ← targetAltitude bits
    let _ ← targetAngle bits
    let vm ← verticalMode bits
    let hm ← horizontalMode bits
    let ra ← tcasRa bits
    let es ← emergencyStatus bits
    -- vertical_horizontal_types = {1, 2, 3}
    match vm with | some v => dictHas [1, 2, 3] v | none => pure ()
    match hm with | some v => dictHas [1, 2, 3] v | none => pure ()
    -- tcas_operational_types[True] (key 1) only when operational
    if tcasOp then dictHas [0, 1] 1 else pure ()
    dictHas [0, 1] (if ra then 1 else 0)
    dictHas [0, 1, 2, 3, 4, 5, 6, 7] es
  else do
    let _ ← selectedAltitude bits
    let _ ← baroPressureSetting bits
    let _ ← selectedHeading bits
    let _ ← autopilot bits
    let _ ← vnavMode bits
    let _ ← altitudeHoldMode bits
    let _ ← approachMode bits
    let _ ← lnavMode bits
    let st ← idxR mb 46
    -- types_29[True] is indexed only with key True (= 1)
    let _ := st
    pure ()

def tellAdsb (bits : Bits) : Res Unit :=
  match tcB bits with
  | none => pure ()
  | some tc => do
    if 1 ≤ tc ∧ tc ≤ 4 then do let _ ← callsign bits; pure ()
    if 5 ≤ tc ∧ tc ≤ 8 then do
      tellCpr bits
      let _ ← surfaceVelocity bits
      pure ()
    if 9 ≤ tc ∧ tc ≤ 18 then do
      let _ ← adsbAltitude bits
      tellCpr bits
    if tc = 19 then do
      -- velocity(msg): TC 19 -> airborne_velocity; types = {GS, TAS, IAS}
      match ← airborneVelocity bits with
      | none => pure ()
      | some v => if v.spdType == "GS" || v.spdType == "TAS" || v.spdType == "IAS" then pure () else .exc
    if 20 ≤ tc ∧ tc ≤ 22 then do
      let _ ← adsbAltitude bits
      tellCpr bits
    if tc = 29 then tellTc29 bits

def tellCommb (ias : Rat → Int → Rat) (bits : Bits) : Res Unit := do
  let bds ← infer ias bits true
  match bds with
  | some "BDS20" => do let _ ← cs20 bits; pure ()
  | some "BDS40" => do let _ ← selalt40mcp bits; let _ ← selalt40fms bits; let _ ← p40baro bits; pure ()
  | some "BDS50" => do
    let _ ← roll50 bits; let _ ← trk50 bits; let _ ← rtrk50 bits; let _ ← gs50 bits; let _ ← tas50 bits; pure ()
  | some "BDS60" => do
    let _ ← hdg60 bits; let _ ← ias60 bits; let _ ← mach60 bits; let _ ← vr60baro bits; let _ ← vr60ins bits; pure ()
  | some "BDS44" => do
    let _ ← wind44 bits; let _ ← temp44 bits; let _ ← p44 bits; let _ ← hum44 bits; let _ ← turb44 bits; pure ()
  | some "BDS45" => do
    let _ ← turb45 bits; let _ ← ws45 bits; let _ ← mb45 bits; let _ ← ic45 bits; let _ ← wv45 bits
    let _ ← temp45 bits; let _ ← p45 bits; let _ ← rh45 bits; pure ()
  | _ => pure ()

/-- decoder.tell(msg) -/
def tell (ias : Rat → Int → Rat) (bits : Bits) : Res Unit := do
  let d := dfB bits
  -- common.icao(msg) is total on hex strings
  if d = 17 then tellAdsb bits
  if d = 20 then do let _ ← altcodeB bits; pure ()
  if d = 21 then do let _ ← idcodeB bits; pure ()
  if d = 20 ∨ d = 21 then tellCommb ias bits

end PyModeS
