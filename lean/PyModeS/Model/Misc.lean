/-
  Model of decoder/surv.py, decoder/allcall.py and decoder/uplink.py.
-/
import PyModeS.Model.Adsb

namespace PyModeS

/-! ### surv.py (DF 4/5 only) -/

def survGuard {α} (bits : Bits) (f : Res α) : Res α :=
  let d := dfB bits
  if d ≠ 4 ∧ d ≠ 5 then .rte else f

def survFs (bits : Bits) : Res Nat := survGuard bits (bin2intR (slice 5 8 bits))
def survDr (bits : Bits) : Res Nat := survGuard bits (bin2intR (slice 8 13 bits))
def survUm (bits : Bits) : Res (Nat × Nat) := survGuard bits (do
  let iis ← bin2intR (slice 13 17 bits)
  let ids ← bin2intR (slice 17 19 bits)
  pure (iis, ids))

/-- common.altcode on bits -/
def altcodeB (bits : Bits) : Res (Option Int) :=
  let d := dfB bits
  if d ≠ 0 ∧ d ≠ 4 ∧ d ≠ 16 ∧ d ≠ 20 then .rte else altitude13 (slice 19 32 bits)

/-- common.idcode on bits -/
def idcodeB (bits : Bits) : Res (List Nat) :=
  let d := dfB bits
  if d ≠ 5 ∧ d ≠ 21 then .rte else squawk (slice 19 32 bits)

def survAltitude (bits : Bits) : Res (Option Int) := survGuard bits (altcodeB bits)
def survIdentity (bits : Bits) : Res (List Nat) := survGuard bits (idcodeB bits)

/-! ### allcall.py (DF 11 only) -/

def allcallGuard {α} (bits : Bits) (f : Res α) : Res α :=
  if dfB bits ≠ 11 then .rte else f

/-- allcall.interrogator: label and number, or "corrupt IC" -/
def interrogator (bits : Bits) : Res String := allcallGuard bits (
  let r := crcBitsPy bits
  if r > 79 then .val "corrupt IC"
  else if r < 16 then .val ("II" ++ toString r)
  else .val ("SI" ++ toString (r - 16)))

def capability (bits : Bits) : Res Nat := allcallGuard bits (bin2intR (slice 5 8 bits))

/-! ### uplink.py -/

/-- the loop of `uplink_icao`; `n = len(msg)*4`, state `(data, PA, ad)` -/
def uplinkLoop (n pgen : Nat) : Nat → Nat × Nat × Nat → Nat × Nat × Nat
  | 0, s => s
  | k + 1, s =>
    let (data, pa, ad) := uplinkLoop n pgen k s
    let j := k
    let topbit := 1 <<< (n - 25)
    let data := if data &&& topbit ≠ 0 then data ^^^ pgen else data
    let data := (data <<< 1) + ((pa >>> 23) &&& 1)
    let pa := pa <<< 1
    let ad := if j + 26 > n then (ad + ((data >>> (n - 25)) &&& 1)) <<< 1 else ad
    (data, pa, ad)

/-- uplink.uplink_icao -/
def uplinkIcao (m : Msg) : Msg :=
  let n := m.length * 4
  let pgen := 0xFFFA0480 <<< ((m.length - 14) * 4)
  let data := hexToNatM (dropLast 6 m)
  let pa := hexToNatM (takeLast 6 m)
  let (_, _, ad) := uplinkLoop n pgen n (data, pa, 0)
  hex6 (ad >>> 2)

def ufB (bits : Bits) : Nat := min (bin2int (slice 0 5 bits)) 24

def isRollCall (u : Nat) : Bool := u = 4 ∨ u = 5 ∨ u = 20 ∨ u = 21

def byteAt (bits : Bits) (i : Nat) : Nat := bin2int (slice (8 * i) (8 * i + 8) bits)

def hexDigitStr (n : Nat) : String := String.ofList ((Nat.toDigits 16 n).map Char.toUpper)

/-- uplink.bds -/
def uplinkBds (bits : Bits) : Option String :=
  if isRollCall (ufB bits) then
    let b1 := byteAt bits 1; let b2 := byteAt bits 2; let b3 := byteAt bits 3
    let di := b1 &&& 0x7
    let rr := (b1 >>> 3) &&& 0x1F
    if rr > 15 then
      let bds1 := rr - 16
      let bds2 :=
        if di = 7 then b2 &&& 0x0F
        else if di = 3 then ((b2 &&& 0x1) <<< 3) ||| ((b3 &&& 0xE0) >>> 5)
        else 0
      some (hexDigitStr bds1 ++ hexDigitStr bds2)
    else none
  else none

/-- uplink.pr -/
def uplinkPr (bits : Bits) : Option Nat :=
  if ufB bits = 11 then
    some (((byteAt bits 0 &&& 0x7) <<< 1) ||| ((byteAt bits 1 &&& 0x80) >>> 7))
  else none

def icSwitcher (codeLabel icField : Nat) : String :=
  match codeLabel with
  | 0 => "II" ++ toString icField
  | 1 => "SI" ++ toString icField
  | 2 => "SI" ++ toString (icField + 16)
  | 3 => "SI" ++ toString (icField + 32)
  | 4 => "SI" ++ toString (icField + 48)
  | _ => ""

/-- uplink.ic -/
def uplinkIc (bits : Bits) : Option String :=
  let u := ufB bits
  let b1 := byteAt bits 1; let b2 := byteAt bits 2
  let ic : Option String := if u = 11 then some (icSwitcher (b1 &&& 0x7) ((b1 >>> 3) &&& 0xF)) else none
  if isRollCall u then
    let di := b1 &&& 0x7
    if di = 0 ∨ di = 1 ∨ di = 7 then some ("II" ++ toString ((b2 >>> 4) &&& 0xF))
    else if di = 3 then some ("SI" ++ toString ((b2 >>> 2) &&& 0x3F))
    else ic
  else ic

/-- uplink.lockout -/
def uplinkLockout (bits : Bits) : Option Bool :=
  if isRollCall (ufB bits) then
    let b1 := byteAt bits 1; let b2 := byteAt bits 2; let b3 := byteAt bits 3
    let di := b1 &&& 0x7
    if di = 1 ∨ di = 7 then some (((b3 &&& 0x40) >>> 6) = 1)
    else if di = 3 then some (((b2 &&& 0x2) >>> 1) = 1)
    else some false
  else none

structure UplinkFields where
  di : Option Nat      -- `""` when absent
  ic : String
  los : Bool
  pr : Option Nat
  rr : Option Nat
  rrs : Option Nat
  bds : String
deriving Repr, DecidableEq

/-- uplink.uplink_fields -/
def uplinkFields (bits : Bits) : UplinkFields :=
  let u := ufB bits
  let b0 := byteAt bits 0; let b1 := byteAt bits 1; let b2 := byteAt bits 2; let b3 := byteAt bits 3
  let (pr, ic) : Option Nat × String :=
    if u = 11 then
      (some (((b0 &&& 0x7) <<< 1) ||| ((b1 &&& 0x80) >>> 7)), icSwitcher (b1 &&& 0x7) ((b1 >>> 3) &&& 0xF))
    else (none, "")
  if isRollCall u then
    let di := b1 &&& 0x7
    let rr := (b1 >>> 3) &&& 0x1F
    let ii := "II" ++ toString ((b2 >>> 4) &&& 0xF)
    let los1 := ((b3 &&& 0x40) >>> 6) = 1
    let (ic, lockout, rrs, bds2) : String × Bool × Option Nat × Nat :=
      if di = 0 then (ii, false, none, 0)
      else if di = 1 then (ii, los1, none, 0)
      else if di = 7 then (ii, los1, some (b2 &&& 0x0F), b2 &&& 0x0F)
      else if di = 3 then
        let rrs := ((b2 &&& 0x1) <<< 3) ||| ((b3 &&& 0xE0) >>> 5)
        ("SI" ++ toString ((b2 >>> 2) &&& 0x3F), ((b2 &&& 0x2) >>> 1) = 1, some rrs, rrs)
      else (ic, false, none, 0)
    let bds := if rr > 15 then hexDigitStr (rr - 16) ++ hexDigitStr bds2 else ""
    ⟨some di, ic, lockout, pr, some rr, rrs, bds⟩
  else ⟨none, ic, false, pr, none, none, ""⟩

end PyModeS
