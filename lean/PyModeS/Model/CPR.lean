/-
  Model of py_common.cprNL and the CPR decoders of bds05.py / bds06.py over exact
  rationals.  Every `floor` argument of the global decode is a dyadic rational a
  double holds exactly; see DESIGN.md section 3.
-/
import PyModeS.Model.Common
import PyModeS.Spec.NLTable

namespace PyModeS

def rabs (x : Rat) : Rat := if x < 0 then -x else x

/-- The DO-260B staircase on `x = |lat|`: the largest `n` whose transition latitude exceeds `x`,
    2 up to and including 87, 1 beyond (thresholds: lower ends of the enclosures). -/
def nlStairAux (x : Rat) : List (Nat × Nat × Nat) → Nat
  | [] => if x ≤ 87 then 2 else 1
  | (n, lo, _) :: rest => if x * 1000000000000 < (lo : Rat) then n else nlStairAux x rest

def nlStair (x : Rat) : Nat := nlStairAux x Spec.nlTable

/-- py_common.cprNL as coded (`np.isclose(a, b)` is `|a-b| <= 1e-8 + 1e-5*|b|`). -/
def cprNL (lat : Rat) : Nat :=
  if rabs lat ≤ (1 : Rat) / 100000000 then 59
  else if lat > 87 ∨ lat < -87 then 1
  else if rabs (rabs lat - 87) ≤ (1 : Rat) / 100000000 + (87 : Rat) / 100000 then 2
  else nlStair (rabs lat)

/-- `common.floor` -/
def pfloor (x : Rat) : Int := x.floor

structure CprFrame where
  oe : Bool
  lat : Nat   -- 17-bit YZ
  lon : Nat   -- 17-bit XZ

/-- the CPR fields of `mb = hex2bin(msg)[32:]` as read by bds05 (`mb[21]`, `mb[22:39]`, `mb[39:56]`) -/
def cprFields (bits : Bits) : Res CprFrame := do
  let mb := bits.drop 32
  let oe ← idxR mb 21
  let la ← bin2intR (slice 22 39 mb)
  let lo ← bin2intR (slice 39 56 mb)
  pure ⟨oe, la, lo⟩

def two17 : Rat := 131072

/-- bds05.airborne_position (after the fields are read); `nl` is `common.cprNL` -/
def airbornePositionCore (nl : Rat → Nat) (f0 f1 : CprFrame) (t0 t1 : Rat) : Res (Option (Rat × Rat)) :=
  -- order the two frames: mb0 even, mb1 odd
  let sel : Option (CprFrame × CprFrame × Rat × Rat) :=
    if f0.oe = false ∧ f1.oe = true then some (f0, f1, t0, t1)
    else if f0.oe = true ∧ f1.oe = false then some (f1, f0, t1, t0)
    else none
  match sel with
  | none => .rte
  | some (e, o, t0, t1) =>
    let cprlat_even : Rat := e.lat / two17
    let cprlon_even : Rat := e.lon / two17
    let cprlat_odd : Rat := o.lat / two17
    let cprlon_odd : Rat := o.lon / two17
    let air_d_lat_even : Rat := (360 : Rat) / 60
    let air_d_lat_odd : Rat := (360 : Rat) / 59
    let j := pfloor (59 * cprlat_even - 60 * cprlat_odd + 1 / 2)
    let lat_even : Rat := air_d_lat_even * (((j % 60 : Int) : Rat) + cprlat_even)
    let lat_odd : Rat := air_d_lat_odd * (((j % 59 : Int) : Rat) + cprlat_odd)
    let lat_even := if lat_even ≥ 270 then lat_even - 360 else lat_even
    let lat_odd := if lat_odd ≥ 270 then lat_odd - 360 else lat_odd
    if nl lat_even ≠ nl lat_odd then .val none
    else
      let (lat, lon) :=
        if t0 > t1 then
          let lat := lat_even
          let n := nl lat
          let ni : Nat := max (n - 0) 1
          let m := pfloor (cprlon_even * ((n : Rat) - 1) - cprlon_odd * n + 1 / 2)
          (lat, ((360 : Rat) / ni) * (((m % (ni : Int) : Int) : Rat) + cprlon_even))
        else
          let lat := lat_odd
          let n := nl lat
          let ni : Nat := max (n - 1) 1
          let m := pfloor (cprlon_even * ((n : Rat) - 1) - cprlon_odd * n + 1 / 2)
          (lat, ((360 : Rat) / ni) * (((m % (ni : Int) : Int) : Rat) + cprlon_odd))
      let lon := if lon > 180 then lon - 360 else lon
      .val (some (lat, lon))

/-- bds05.airborne_position on two 112-bit strings -/
def airbornePosition (b0 b1 : Bits) (t0 t1 : Rat) : Res (Option (Rat × Rat)) := do
  let f0 ← cprFields b0
  let f1 ← cprFields b1
  airbornePositionCore cprNL f0 f1 t0 t1

/-- bds05.airborne_position_with_ref / bds06.surface_position_with_ref (`base` = 360 or 90) -/
def positionWithRefCore (nl : Rat → Nat) (base : Rat) (f : CprFrame) (latRef lonRef : Rat) : Rat × Rat :=
  let cprlat : Rat := f.lat / two17
  let cprlon : Rat := f.lon / two17
  let i : Nat := if f.oe then 1 else 0
  let d_lat : Rat := if f.oe then base / 59 else base / 60
  let j := pfloor (1 / 2 + latRef / d_lat - cprlat)
  let lat := d_lat * ((j : Rat) + cprlat)
  let ni : Int := (nl lat : Int) - i
  let d_lon : Rat := if ni > 0 then base / (ni : Rat) else base
  let m := pfloor (1 / 2 + lonRef / d_lon - cprlon)
  let lon := d_lon * ((m : Rat) + cprlon)
  (lat, lon)

def airbornePositionWithRef (b : Bits) (latRef lonRef : Rat) : Res (Rat × Rat) := do
  let f ← cprFields b
  pure (positionWithRefCore cprNL 360 f latRef lonRef)

def surfacePositionWithRef (b : Bits) (latRef lonRef : Rat) : Res (Rat × Rat) := do
  let f ← cprFields b
  pure (positionWithRefCore cprNL 90 f latRef lonRef)

/-- the fields as read by bds06.surface_position (`msgbin[54:71]`, `msgbin[71:88]`; the
    format bit is *not* read there) -/
def surfFields (bits : Bits) : Res (Nat × Nat) := do
  let la ← bin2intR (slice 54 71 bits)
  let lo ← bin2intR (slice 71 88 bits)
  pure (la, lo)

/-- Python float `%`: `x - 360*floor(x/360)` -/
def rmod360 (x : Rat) : Rat := x - 360 * ((x / 360).floor : Rat)

/-- index of the first minimum (Python `min(range(4), key=...)`) -/
def argminFirst : List Rat → Nat
  | [] => 0
  | x :: xs =>
    let rec go (best : Rat) (bi i : Nat) : List Rat → Nat
      | [] => bi
      | y :: ys => if y < best then go y i (i + 1) ys else go best bi (i + 1) ys
    go x 0 1 xs

/-- bds06.surface_position; msg0 is taken as the even frame and msg1 as the odd one, as coded -/
def surfacePositionCore (nl : Rat → Nat) (e o : Nat × Nat) (t0 t1 latRef lonRef : Rat) : Option (Rat × Rat) :=
  let cprlat_even : Rat := e.1 / two17
  let cprlon_even : Rat := e.2 / two17
  let cprlat_odd : Rat := o.1 / two17
  let cprlon_odd : Rat := o.2 / two17
  let d_even : Rat := (90 : Rat) / 60
  let d_odd : Rat := (90 : Rat) / 59
  let j := pfloor (59 * cprlat_even - 60 * cprlat_odd + 1 / 2)
  let lat_even_n : Rat := d_even * (((j % 60 : Int) : Rat) + cprlat_even)
  let lat_odd_n : Rat := d_odd * (((j % 59 : Int) : Rat) + cprlat_odd)
  let lat_even_s := lat_even_n - 90
  let lat_odd_s := lat_odd_n - 90
  let lat_even := if rabs (lat_even_n - latRef) ≤ rabs (lat_even_s - latRef) then lat_even_n else lat_even_s
  let lat_odd := if rabs (lat_odd_n - latRef) ≤ rabs (lat_odd_s - latRef) then lat_odd_n else lat_odd_s
  if nl lat_even ≠ nl lat_odd then none
  else
    let (lat, lon) :=
      if t0 > t1 then
        let n := nl lat_even
        let ni : Nat := max (n - 0) 1
        let m := pfloor (cprlon_even * ((n : Rat) - 1) - cprlon_odd * n + 1 / 2)
        (lat_even, ((90 : Rat) / ni) * (((m % (ni : Int) : Int) : Rat) + cprlon_even))
      else
        let n := nl lat_odd
        let ni : Nat := max (n - 1) 1
        let m := pfloor (cprlon_even * ((n : Rat) - 1) - cprlon_odd * n + 1 / 2)
        (lat_odd, ((90 : Rat) / ni) * (((m % (ni : Int) : Int) : Rat) + cprlon_odd))
    let lons := [lon, lon + 90, lon + 180, lon + 270].map (fun l => rmod360 (l + 180) - 180)
    let dls := lons.map (fun l => rabs (rmod360 (lonRef - l + 180) - 180))
    let imin := argminFirst dls
    some (lat, lons.getD imin 0)

def surfacePosition (b0 b1 : Bits) (t0 t1 latRef lonRef : Rat) : Res (Option (Rat × Rat)) := do
  let e ← surfFields b0
  let o ← surfFields b1
  pure (surfacePositionCore cprNL e o t0 t1 latRef lonRef)

end PyModeS
