/-
  Model of streamer/decode.py `Decode.process_raw`, projected onto what property C17 observes:
  the key set, `live`, the stored even/odd frames and their times, `tpos`, `lat`, `lon`, plus
  `ver` and the NIC supplements (they steer which look-ups run).  Times are rationals.
-/
import PyModeS.Model.Commb

namespace PyModeS

structure Ac where
  live : Int
  m0 : Option Bits := none     -- acs[icao][0]
  m1 : Option Bits := none     -- acs[icao][1]
  t0 : Option Rat := none
  t1 : Option Rat := none
  tpos : Option Rat := none
  lat : Option Rat := none
  lon : Option Rat := none
  ver : Option Nat := none
  nicS : Option Nat := none
  nicA : Option Nat := none
  nicBC : Option Nat := none
deriving Repr

structure Tracker where
  acs : List (Msg × Ac) := []          -- dict, insertion order
  ref : Option (Rat × Rat) := none      -- receiver (lat0, lon0)
deriving Repr

/-- Python `int(t)` on a real: truncation toward zero -/
def pyInt (t : Rat) : Int := if t ≥ 0 then t.floor else -((-t).floor)

def acsGet (acs : List (Msg × Ac)) (k : Msg) : Option Ac := (acs.find? (·.1 = k)).map (·.2)

def acsSet (acs : List (Msg × Ac)) (k : Msg) (a : Ac) : List (Msg × Ac) :=
  if acs.any (·.1 = k) then acs.map (fun p => if p.1 = k then (k, a) else p) else acs ++ [(k, a)]

/-- what `process_raw` needs from `pms.adsb.velocity(msg)`: `none` = the decoder returned None,
    else (tag = "GS", spd is None, trk is None) -/
def velocityGate (bits : Bits) : Res (Option (Bool × Bool × Bool)) := do
  match ← velocityRoute bits with
  | .surface => do
    let (spd, trk) ← surfaceVelocity bits
    pure (some (true, spd.isNone, trk.isNone))
  | .airborne => do
    match ← airborneVelocity bits with
    | none => pure none
    | some v => pure (some (v.spdType == "GS", v.spd.isNone, v.dir == Dir.none))

/-- the uncertainty block at the end of the ADS-B loop body: returns the updated record, or a crash -/
def qualityBlock (ac : Ac) (bits : Bits) (tc : Nat) : Res Ac := do
  let ac ← if 9 ≤ tc ∧ tc ≤ 18 then do
      let b ← nicB bits
      pure { ac with nicBC := some b }
    else pure ac
  if (5 ≤ tc ∧ tc ≤ 8) ∨ (9 ≤ tc ∧ tc ≤ 18) ∨ (20 ≤ tc ∧ tc ≤ 22) then do
    let _ ← nucP bits
    match ac.ver, ac.nicS, ac.nicA, ac.nicBC with
    | some 1, some s, _, _ => let _ ← nicV1 bits s; pure ()
    | some 2, _, some a, some bc => let _ ← nicV2 bits a bc; pure ()
    | _, _, _, _ => pure ()
  if tc = 19 then do
    let _ ← nucV bits
    if ac.ver = some 1 ∨ ac.ver = some 2 then let _ ← nacV bits; pure ()
  let ac ← if tc = 29 then do
      let _ ← sil bits ac.ver
      let _ ← nacP bits
      pure ac
    else pure ac
  if tc = 31 then do
    let v ← version bits
    let ac := { ac with ver := some v }
    let _ ← nacP bits
    let _ ← sil bits (some v)
    if v = 1 then do
      let s ← nicS bits
      pure { ac with nicS := some s }
    else if v = 2 then do
      let (a, c) ← nicAC bits
      pure { ac with nicA := some a, nicBC := some c }
    else pure ac
  else pure ac

/-- one ADS-B message `(t, msg)`; `key` is `pms.icao(msg)` -/
def adsbStep (tr : Tracker) (t : Rat) (m : Msg) : Res Tracker := do
  let bits := hex2binM m
  let key : Msg := (icao m).getD "None".toList
  let tc? := typecode m
  let ac0 : Ac := (acsGet tr.acs key).getD { live := 0 }
  let ac : Ac := { ac0 with live := pyInt t }
  -- `1 <= tc <= 4` with tc None raises TypeError
  match tc? with
  | none => .exc
  | some tc =>
    let save := fun (a : Ac) => ({ tr with acs := acsSet tr.acs key a } : Tracker)
    if 1 ≤ tc ∧ tc ≤ 4 then do let _ ← callsign bits; pure () else pure ()
    -- velocity block: `continue` leaves the record as updated so far
    let cont ← if (5 ≤ tc ∧ tc ≤ 8) ∨ tc = 19 then do
        match ← velocityGate bits with
        | none => pure false
        | some (gs, spdNone, trkNone) => pure (gs && !spdNone && !trkNone)
      else pure true
    if !cont then pure (save ac) else do
    -- position block
    let (ac, cont) ← if 5 ≤ tc ∧ tc ≤ 18 then do
        let oe ← oeFlag bits
        let ac : Ac := if oe = 0 then { ac with m0 := some bits, t0 := some t } else { ac with m1 := some bits, t1 := some t }
        let useRef : Bool := match ac.tpos with | some tp => decide (t - tp < 180) | none => false
        if useRef then do
          match ac.lat, ac.lon with
          | some la, some lo => do
            let (la', lo') ← positionWithRef bits la lo
            let _ ← adsbAltitude bits
            pure ({ ac with tpos := some t, lat := some la', lon := some lo' }, true)
          | _, _ => .exc
        else
          match ac.m0, ac.m1, ac.t0, ac.t1 with
          | some b0, some b1, some t0, some t1 =>
            if rabs (t0 - t1) < 10 then
              match position b0 b1 t0 t1 tr.ref with
              | .val (some (la', lo')) => do
                let _ ← adsbAltitude bits
                pure ({ ac with tpos := some t, lat := some la', lon := some lo' }, true)
              | .val none => pure (ac, true)
              | _ => pure (ac, false)          -- bare `except: continue`
            else pure (ac, true)
          | _, _, _, _ => pure (ac, true)
      else pure (ac, true)
    if !cont then pure (save ac) else do
    let ac ← qualityBlock ac bits tc
    pure (save ac)

/-- one Comm-B message: only an already known address is updated -/
def commbStep (ias : Rat → Int → Rat) (tr : Tracker) (t : Rat) (m : Msg) : Res Tracker := do
  let key : Msg := (icao m).getD "None".toList
  match acsGet tr.acs key with
  | none => pure tr
  | some ac => do
    let bits := hex2binM m
    let _ ← infer ias bits false
    pure { tr with acs := acsSet tr.acs key { ac with live := max ac.live (pyInt t) } }

def foldRes {α β} (f : α → β → Res α) : α → List β → Res α
  | a, [] => .val a
  | a, b :: bs => do foldRes f (← f a b) bs

/-- Decode.process_raw(adsb_ts, adsb_msg, commb_ts, commb_msg, tnow) -/
def processRaw (ias : Rat → Int → Rat) (tr : Tracker) (adsb commb : List (Rat × Msg)) (tnow : Rat) : Res Tracker := do
  let tr ← foldRes (fun tr p => adsbStep tr p.1 p.2) tr adsb
  let tr ← foldRes (fun tr p => commbStep ias tr p.1 p.2) tr commb
  pure { tr with acs := tr.acs.filter (fun p => !decide (tnow - (p.2.live : Rat) > (Tables.cacheTimeout : Rat))) }

end PyModeS
