/-
  Model of decoder/bds/bds05.py (altitude), bds06.py (surface velocity), bds08.py, bds09.py,
  bds61.py, bds62.py, decoder/adsb.py and the look-ups of decoder/uncertainty.py.
  All functions take the frame as a bit string (`hex2bin(msg)`).
-/
import PyModeS.Model.CPR

namespace PyModeS

/-- `common.df` on the bit string -/
def dfB (bits : Bits) : Nat := min (bin2int (slice 0 5 bits)) 24

/-- `common.typecode` on the bit string -/
def tcB (bits : Bits) : Option Nat :=
  let d := dfB bits
  if d = 17 ∨ d = 18 then some (bin2int (slice 32 37 bits)) else none

/-- Python list indexing with a possibly negative index -/
def pyIdx {α} (l : List α) (i : Int) : Res α :=
  let j : Int := if i < 0 then i + l.length else i
  if j < 0 then .exc else idxR l j.toNat

def optIntToRat (o : Option Int) : Option Rat := o.map (fun i => (i : Rat))

/-! ### bds05.altitude / adsb.altitude -/

/-- bds05.altitude: feet; TC 20-22 give the GNSS height (a float in Python) -/
def altitude05 (bits : Bits) : Res (Option Rat) :=
  match tcB bits with
  | none => .rte
  | some tc =>
    if tc < 9 ∨ tc = 19 ∨ tc > 22 then .rte else
    let mb := bits.drop 32
    let altbin := slice 8 20 mb
    if tc < 19 then do
      let altcode := slice 0 6 altbin ++ [false] ++ altbin.drop 6
      let a ← altitude13 altcode
      pure (optIntToRat a)
    else do
      let n ← bin2intR altbin
      pure (some ((n : Rat) * 328084 / 100000))

/-- adsb.altitude -/
def adsbAltitude (bits : Bits) : Res (Option Rat) :=
  match tcB bits with
  | none => .rte
  | some tc =>
    if tc < 5 ∨ tc = 19 ∨ tc > 22 then .rte
    else if tc ≥ 5 ∧ tc ≤ 8 then .val (some 0)
    else altitude05 bits

/-! ### bds06.surface_velocity -/

/-- `next(m[0] for m in enumerate(mov_lb) if m[1] > mov)` -/
def firstGreater (l : List Nat) (x : Nat) : Res Nat :=
  match l.findIdx? (fun m => decide (m > x)) with
  | some i => .val i
  | none => .exc   -- StopIteration

/-- the movement field -> speed (kt) as coded, from the regenerated tables -/
def movSpeed (mov : Nat) : Res (Option Rat) :=
  if mov = 0 ∨ mov > 124 then .val none
  else if mov = 1 then .val (some 0)
  else if mov = 124 then .val (some 175)
  else do
    let i ← firstGreater Tables.movLb mov
    let k ← pyIdx Tables.ktsLb ((i : Int) - 1)
    let lb ← pyIdx Tables.movLb ((i : Int) - 1)
    let st ← pyIdx Tables.movStep ((i : Int) - 1)
    pure (some (k + (((mov : Int) - (lb : Int) : Int) : Rat) * st))

/-- bds06.surface_velocity: (speed, track); the remaining tuple members are the constants
    `0, "GS"` (and `"TRUE_NORTH", None` with `source=True`) -/
def surfaceVelocity (bits : Bits) : Res (Option Rat × Option Rat) :=
  match tcB bits with
  | none => .rte
  | some tc =>
    if tc < 5 ∨ tc > 8 then .rte else do
    let mb := bits.drop 32
    let st ← idxR mb 12
    let trk ← if st then do
        let v ← bin2intR (slice 13 20 mb)
        pure (some ((v : Rat) * 360 / 128))
      else pure none
    let mov ← bin2intR (slice 5 12 mb)
    let spd ← movSpeed mov
    pure (spd, trk)

/-! ### bds08 -/

def category (bits : Bits) : Res Nat :=
  match tcB bits with
  | none => .rte
  | some tc =>
    if tc < 1 ∨ tc > 4 then .rte else
    let mebin := slice 32 87 bits
    bin2intR (slice 5 8 mebin)

/-- eight 6-bit character codes looked up in `chars` -/
def chars8 (chars : List Char) (cs : Bits) : Res (List Char) :=
  Res.mapM (fun i => do
    let c ← bin2intR (slice (6 * i) (6 * i + 6) cs)
    idxR chars c) (List.range 8)

/-- bds08.callsign -/
def callsign (bits : Bits) : Res (List Char) :=
  match tcB bits with
  | none => .rte
  | some tc =>
    if tc < 1 ∨ tc > 4 then .rte else do
    let cs ← chars8 Tables.callsignChars (slice 40 96 bits)
    pure (cs.filter (· ≠ '#'))

/-! ### bds09 -/

inductive Dir where
  | track (vwe vsn : Int)      -- `atan2(v_we, v_sn)` in degrees, made non-negative
  | heading (h : Rat)
  | none
deriving Repr, DecidableEq

structure Velocity where
  spd : Option Int
  dir : Dir
  vs : Option Int
  spdType : String
  dirType : String
  vrSource : String
deriving Repr, DecidableEq

/-- bds09.airborne_velocity (with `source=True`; without it the last two members are dropped) -/
def airborneVelocity (bits : Bits) : Res (Option Velocity) :=
  if tcB bits ≠ some 19 then .rte else do
  let mb := bits.drop 32
  let subtype ← bin2intR (slice 5 8 mb)
  -- `subtype in (1, 2) and (bin2int(mb[14:24]) == 0 or bin2int(mb[25:35]) == 0)`, short-circuit order
  let early ← if subtype = 1 ∨ subtype = 2 then do
      let f1 ← bin2intR (slice 14 24 mb)
      if f1 = 0 then pure true else do
        let f2 ← bin2intR (slice 25 35 mb)
        pure (decide (f2 = 0))
    else pure false
  if early then pure none else do
  let b13 ← idxR mb 13
  let f1 ← if (subtype = 1 ∨ subtype = 2) ∨ b13 then bin2intR (slice 14 24 mb) else pure 0
  let f2 ← bin2intR (slice 25 35 mb)
  let b24 ← idxR mb 24
  let (spd, dir, spdType, dirType) : Option Int × Dir × String × String :=
    if subtype = 1 ∨ subtype = 2 then
      let v_ew_sign : Int := if b13 then -1 else 1
      let v_ew : Int := (f1 : Int) - 1
      let v_ew := if subtype = 2 then v_ew * 4 else v_ew
      let v_ns_sign : Int := if b24 then -1 else 1
      let v_ns : Int := (f2 : Int) - 1
      let v_ns := if subtype = 2 then v_ns * 4 else v_ns
      let v_we := v_ew_sign * v_ew
      let v_sn := v_ns_sign * v_ns
      let spd : Int := (Nat.sqrt (v_sn * v_sn + v_we * v_we).toNat : Int)
      (some spd, Dir.track v_we v_sn, "GS", "TRUE_NORTH")
    else
      let hdg : Dir := if b13 = false then Dir.none else Dir.heading ((f1 : Rat) / 1024 * 360)
      let spd : Option Int := if f2 = 0 then none else some ((f2 : Int) - 1)
      let spd := if subtype = 4 then spd.map (· * 4) else spd
      (spd, hdg, if b24 = false then "IAS" else "TAS", "MAGNETIC_NORTH")
  let b35 ← idxR mb 35
  let b36 ← idxR mb 36
  let vr ← bin2intR (slice 37 46 mb)
  let vr_sign : Int := if b36 then -1 else 1
  let vs : Option Int := if vr = 0 then none else some (vr_sign * ((vr : Int) - 1) * 64)
  pure (some ⟨spd, dir, vs, spdType, dirType, if b35 = false then "GNSS" else "BARO"⟩)

/-- bds09.altitude_diff -/
def altitudeDiff (bits : Bits) : Res (Option Int) :=
  if tcB bits ≠ some 19 then .rte else do
  let s ← idxR bits 80
  let value ← bin2intR (slice 81 88 bits)
  let sign : Int := if s then -1 else 1
  if value = 0 ∨ value = 127 then pure none else pure (some (sign * ((value : Int) - 1) * 25))

/-! ### bds61 -/

def isEmergency (bits : Bits) : Res Bool :=
  if tcB bits ≠ some 28 then .rte else do
  let mb := bits.drop 32
  let subtype ← bin2intR (slice 5 8 mb)
  if subtype = 2 then .rte else do
  let st ← bin2intR (slice 8 11 mb)
  pure (subtype = 1 ∧ st ≠ 0)

def emergencyState (bits : Bits) : Res Nat :=
  if tcB bits ≠ some 28 then .rte else do
  let mb := bits.drop 32
  let subtype ← bin2intR (slice 5 8 mb)
  if subtype = 2 then .rte else bin2intR (slice 8 11 mb)

def emergencySquawk (bits : Bits) : Res (List Nat) :=
  if tcB bits ≠ some 28 then .rte else squawk (slice 43 56 bits)

/-! ### bds62 (TC 29) -/

/-- common prologue: TC must be 29; returns `mb` and the 2-bit subtype -/
def tc29 (bits : Bits) : Res (Bits × Nat) :=
  if tcB bits ≠ some 29 then .rte else do
  let mb := bits.drop 32
  let st ← bin2intR (slice 5 7 mb)
  pure (mb, st)

def selectedAltitude (bits : Bits) : Res (Option Nat × String) := do
  let (mb, st) ← tc29 bits
  if st = 0 then .rte else do
  let alt ← bin2intR (slice 9 20 mb)
  if alt = 0 then pure (none, "N/A") else do
  let src ← idxR mb 8
  pure (some ((alt - 1) * 32), if src = false then "MCP/FCU" else "FMS")

def targetAltitude (bits : Bits) : Res (Option Int × String × String) := do
  let (mb, st) ← tc29 bits
  if st = 1 then .rte else do
  let avail ← bin2intR (slice 7 9 mb)
  if avail = 0 then pure (none, "N/A", "") else do
  let src := if avail = 1 then "MCP/FCU" else if avail = 2 then "Holding mode" else "FMS/RNAV"
  let r ← idxR mb 9
  let a ← bin2intR (slice 15 25 mb)
  pure (some (-1000 + (a : Int) * 100), src, if r = false then "FL" else "MSL")

def verticalMode (bits : Bits) : Res (Option Nat) := do
  let (mb, st) ← tc29 bits
  if st = 1 then .rte else do
  let v ← bin2intR (slice 13 15 mb)
  pure (if v = 0 then none else some v)

def horizontalMode (bits : Bits) : Res (Option Nat) := do
  let (mb, st) ← tc29 bits
  if st = 1 then .rte else do
  let v ← bin2intR (slice 25 27 mb)
  pure (if v = 0 then none else some v)

def selectedHeading (bits : Bits) : Res (Option Rat) := do
  let (mb, st) ← tc29 bits
  if st = 0 then .rte else do
  let status ← idxR mb 29
  if status = false then pure none else do
  let sign ← idxR mb 30
  let v ← bin2intR (slice 31 39 mb)
  pure (some (((b2n sign : Nat) : Rat) * 180 + (v : Rat) * ((180 : Rat) / 256)))

def targetAngle (bits : Bits) : Res (Option Nat × String × String) := do
  let (mb, st) ← tc29 bits
  if st = 1 then .rte else do
  let avail ← bin2intR (slice 25 27 mb)
  if avail = 0 then pure (none, "", "N/A") else do
  let angle ← bin2intR (slice 27 36 mb)
  let src := if avail = 1 then "MCP/FCU" else if avail = 2 then "Autopilot mode" else "FMS/RNAV"
  let ty ← idxR mb 36
  pure (some angle, if ty then "Heading" else "Track", src)

def baroPressureSetting (bits : Bits) : Res (Option Rat) := do
  let (mb, st) ← tc29 bits
  if st = 0 then .rte else do
  let baro ← bin2intR (slice 20 29 mb)
  pure (if baro = 0 then none else some (800 + (((baro : Int) - 1 : Int) : Rat) * 4 / 5))

/-- autopilot / vnav / altitude-hold / approach / lnav: status bit `mb[46]`, flag bit `k` -/
def modeFlag (k : Nat) (bits : Bits) : Res (Option Bool) := do
  let (mb, st) ← tc29 bits
  if st = 0 then .rte else do
  let status ← idxR mb 46
  if status = false then pure none else do
  let f ← idxR mb k
  pure (some f)

def autopilot := modeFlag 47
def vnavMode := modeFlag 48
def altitudeHoldMode := modeFlag 49
def approachMode := modeFlag 51
def lnavMode := modeFlag 53

def tcasOperational (bits : Bits) : Res Bool := do
  let (mb, st) ← tc29 bits
  if st = 0 then do
    let b ← idxR mb 51
    pure (b = false)
  else do
    let b ← idxR mb 52
    pure b

def tcasRa (bits : Bits) : Res Bool := do
  let (mb, st) ← tc29 bits
  if st = 1 then .rte else idxR mb 52

def emergencyStatus (bits : Bits) : Res Nat := do
  let (mb, st) ← tc29 bits
  if st = 1 then .rte else bin2intR (slice 53 56 mb)

/-! ### adsb.py: bit picks, version, NIC/NAC/SIL -/

def oeFlag (bits : Bits) : Res Nat := do
  let b ← idxR bits 53
  pure (b2n b)

def version (bits : Bits) : Res Nat :=
  if tcB bits ≠ some 31 then .rte else bin2intR (slice 72 75 bits)

def lookup {α} (t : List (Nat × α)) (k : Nat) : Option α := (t.find? (·.1 = k)).map (·.2)

/-- Python `d[k]`: `KeyError` when absent -/
def lookupR {α} (t : List (Nat × α)) (k : Nat) : Res α :=
  match lookup t k with
  | some v => .val v
  | none => .exc

def col (row : List (Option Rat)) (i : Nat) : Option Rat := (row.getD i none)

/-- adsb.nuc_p: (NUCp, HPL, RCu, RCv) -/
def nucP (bits : Bits) : Res (Nat × Option Rat × Option Rat × Option Rat) :=
  match tcB bits with
  | none => .rte
  | some tc =>
    if tc < 5 ∨ tc = 19 ∨ tc > 22 then .rte else do
    let nucp ← lookupR Tables.tcNUCp tc
    let (hpl, rcu) := match lookup Tables.tblNUCp nucp with
      | some row => (col row 0, col row 1)
      | none => (none, none)
    let rcv : Option Rat := if tc = 20 then some 4 else if tc = 21 then some 15 else none
    pure (nucp, hpl, rcu, rcv)

def nucV (bits : Bits) : Res (Nat × Option Rat × Option Rat) :=
  if tcB bits ≠ some 19 then .rte else do
  let v ← bin2intR (slice 42 45 bits)
  match lookup Tables.tblNUCv v with
  | some row => pure (v, col row 0, col row 1)
  | none => pure (v, none, none)

/-- `NIC = TC_NICvX_lookup[tc]; if isinstance(NIC, dict): NIC = NIC[NICs]` -/
def nicOfEntry (e : List (Option Nat × Nat)) (nics : Nat) : Res Nat :=
  match e with
  | [(none, v)] => .val v
  | _ => match e.find? (·.1 = some nics) with
    | some (_, v) => .val v
    | none => .exc

/-- adsb.nic_v1: (NIC, Rc, VPL) -/
def nicV1 (bits : Bits) (nics : Nat) : Res (Nat × Option Rat × Option Rat) :=
  match tcB bits with
  | none => .rte
  | some tc =>
    if tc < 5 ∨ tc = 19 ∨ tc > 22 then .rte else do
    let e ← lookupR Tables.tcNICv1 tc
    let nic ← nicOfEntry e nics
    match lookup Tables.tblNICv1 nic with
    | none => pure (nic, none, none)
    | some d => match lookup d nics with
      | none => pure (nic, none, none)
      | some row => pure (nic, col row 0, col row 1)

/-- adsb.nic_v2: (NIC, Rc) or (None, None) on a `KeyError` inside the `try` -/
def nicV2 (bits : Bits) (nica nicbc : Nat) : Res (Option (Nat × Option Rat)) :=
  match tcB bits with
  | none => .rte
  | some tc =>
    if tc < 5 ∨ tc = 19 ∨ tc > 22 then .rte else do
    let e ← lookupR Tables.tcNICv2 tc
    let nics := if 20 ≤ tc ∧ tc ≤ 22 then 0 else nica * 2 + nicbc
    match nicOfEntry e nics with
    | .val nic =>
      match lookup Tables.tblNICv2 nic with
      | none => pure none
      | some d => match lookup d nics with
        | none => pure none
        | some row => pure (some (nic, col row 0))
    | _ => pure none

def nicS (bits : Bits) : Res Nat :=
  if tcB bits ≠ some 31 then .rte else do
  let b ← idxR bits 75
  pure (b2n b)

def nicAC (bits : Bits) : Res (Nat × Nat) :=
  if tcB bits ≠ some 31 then .rte else do
  let a ← idxR bits 75
  let c ← idxR bits 51
  pure (b2n a, b2n c)

def nicB (bits : Bits) : Res Nat :=
  match tcB bits with
  | none => .rte
  | some tc => if tc < 9 ∨ tc > 18 then .rte else do
    let b ← idxR bits 39
    pure (b2n b)

def nacP (bits : Bits) : Res (Nat × Option Rat × Option Rat) :=
  match tcB bits with
  | some 29 => do
    let v ← bin2intR (slice 71 75 bits)
    match lookup Tables.tblNACp v with
    | some row => pure (v, col row 0, col row 1)
    | none => pure (v, none, none)
  | some 31 => do
    let v ← bin2intR (slice 76 80 bits)
    match lookup Tables.tblNACp v with
    | some row => pure (v, col row 0, col row 1)
    | none => pure (v, none, none)
  | _ => .rte

def nacV (bits : Bits) : Res (Nat × Option Rat × Option Rat) :=
  if tcB bits ≠ some 19 then .rte else do
  let v ← bin2intR (slice 42 45 bits)
  match lookup Tables.tblNACv v with
  | some row => pure (v, col row 0, col row 1)
  | none => pure (v, none, none)

/-- adsb.sil(msg, version): (PE_RCu, PE_VPL, base) -/
def sil (bits : Bits) (version : Option Nat) : Res (Option Rat × Option Rat × String) :=
  match tcB bits with
  | some tc =>
    if tc ≠ 29 ∧ tc ≠ 31 then .rte else do
    let s ← if tc = 29 then bin2intR (slice 76 78 bits) else bin2intR (slice 82 84 bits)
    let (a, b) := match lookup Tables.tblSIL s with
      | some row => (col row 0, col row 1)
      | none => (none, none)
    if version = some 2 then do
      let sup ← if tc = 29 then idxR bits 39 else idxR bits 86
      pure (a, b, if sup = false then "hour" else "sample")
    else pure (a, b, "unknown")
  | none => .rte

/-! ### adsb.py dispatchers -/

inductive PosKind where | surface | airborne
deriving Repr, DecidableEq

/-- adsb.position routing: which decoder is called, or RuntimeError -/
def positionRoute (b0 b1 : Bits) (haveRef : Bool) : Res PosKind :=
  match tcB b0, tcB b1 with
  | some tc0, some tc1 =>
    if 5 ≤ tc0 ∧ tc0 ≤ 8 ∧ 5 ≤ tc1 ∧ tc1 ≤ 8 then
      if haveRef then .val .surface else .rte
    else if 9 ≤ tc0 ∧ tc0 ≤ 18 ∧ 9 ≤ tc1 ∧ tc1 ≤ 18 then .val .airborne
    else if 20 ≤ tc0 ∧ tc0 ≤ 22 ∧ 20 ≤ tc1 ∧ tc1 ≤ 22 then .val .airborne
    else .rte
  | _, _ => .rte

/-- adsb.position -/
def position (b0 b1 : Bits) (t0 t1 : Rat) (ref : Option (Rat × Rat)) : Res (Option (Rat × Rat)) := do
  let k ← positionRoute b0 b1 ref.isSome
  match k, ref with
  | .surface, some (la, lo) => surfacePosition b0 b1 t0 t1 la lo
  | .surface, none => .rte
  | .airborne, _ => airbornePosition b0 b1 t0 t1

def positionWithRefRoute (b : Bits) : Res PosKind :=
  match tcB b with
  | none => .rte
  | some tc =>
    if 5 ≤ tc ∧ tc ≤ 8 then .val .surface
    else if (9 ≤ tc ∧ tc ≤ 18) ∨ (20 ≤ tc ∧ tc ≤ 22) then .val .airborne
    else .rte

/-- adsb.position_with_ref -/
def positionWithRef (b : Bits) (latRef lonRef : Rat) : Res (Rat × Rat) := do
  let k ← positionWithRefRoute b
  match k with
  | .surface => surfacePositionWithRef b latRef lonRef
  | .airborne => airbornePositionWithRef b latRef lonRef

inductive VelKind where | surface | airborne
deriving Repr, DecidableEq

/-- adsb.velocity routing -/
def velocityRoute (b : Bits) : Res VelKind :=
  match tcB b with
  | none => .rte
  | some tc => if 5 ≤ tc ∧ tc ≤ 8 then .val .surface else if tc = 19 then .val .airborne else .rte

end PyModeS
