/-
  Model of decoder/bds/bds10 17 20 30 40 44 45 50 53 60 and bds/__init__.infer.
  `d = hex2bin(data(msg))` is the 56-bit MB field of a 112-bit frame.
-/
import PyModeS.Model.Adsb

namespace PyModeS

/-- `hex2bin(data(msg))`: `msg[8:-6]`; `int('', 16)` raises on a frame with no MB field -/
def dataR (bits : Bits) : Res Bits :=
  let d := slice 32 (bits.length - 24) bits
  if d.isEmpty then .exc else .val d

/-- `common.allzeros` on the bit string -/
def allzerosB (bits : Bits) : Res Bool := do
  let d ← dataR bits
  pure (bin2int d = 0)

/-- status-gated unsigned field: `None` if `d[sb] == '0'` else `bin2int(d[a:b]) * scale + off` -/
def ufield (d : Bits) (sb a b : Nat) (scale off : Rat) : Res (Option Rat) := do
  let s ← idxR d sb
  if s = false then pure none else do
  let v ← bin2intR (slice a b d)
  pure (some ((v : Rat) * scale + off))

/-- status-gated two's-complement field: sign bit `sg`, magnitude bits `d[a:b]` of width `b-a` -/
def sfield (d : Bits) (sb sg a b : Nat) (scale : Rat) : Res (Option Rat) := do
  let s ← idxR d sb
  if s = false then pure none else do
  let sign ← idxR d sg
  let v ← bin2intR (slice a b d)
  let v : Int := if sign then (v : Int) - (2 ^ (b - a) : Nat) else v
  pure (some ((v : Rat) * scale))

/-- `[-180,180)` to `[0,360)` as coded: `if x < 0: x = 360 + x` -/
def wrap360 (x : Option Rat) : Option Rat := x.map (fun v => if v < 0 then 360 + v else v)

/-! ### BDS 1,0 -/
def ovc10 (bits : Bits) : Res Nat := do
  let d ← dataR bits
  let b ← idxR d 14
  pure (b2n b)

def is10 (bits : Bits) : Res Bool := do
  if (← allzerosB bits) then pure false else do
  let d ← dataR bits
  if slice 0 8 d ≠ natToBits 8 0x10 then pure false else do
  let r ← bin2intR (slice 9 14 d)
  if r ≠ 0 then pure false else do
  let b14 ← idxR d 14
  let v ← bin2intR (slice 16 23 d)
  if b14 = true ∧ v < 5 then pure false
  else if b14 = false ∧ v > 4 then pure false
  else pure true

/-! ### BDS 1,7 -/
def cap17 (bits : Bits) : Res (List String) := do
  let d ← dataR bits
  let first := d.take 24
  let idx := (List.range first.length).filter (fun i => first.getD i false)
  Res.mapM (fun i => do
    let s ← idxR Tables.cap17All i
    pure ("BDS" ++ s)) idx

def is17 (bits : Bits) : Res Bool := do
  if (← allzerosB bits) then pure false else do
  let d ← dataR bits
  let r ← bin2intR (slice 24 56 d)
  if r ≠ 0 then pure false else do
  let caps ← cap17 bits
  pure (caps.contains "BDS20")

/-! ### BDS 2,0 -/
def cs20 (bits : Bits) : Res (List Char) := do
  let d ← dataR bits
  chars8 Tables.cs20Chars (slice 8 56 d)

def is20 (bits : Bits) : Res Bool := do
  if (← allzerosB bits) then pure false else do
  let d ← dataR bits
  if slice 0 8 d ≠ natToBits 8 0x20 then pure false else do
  let r ← bin2intR (slice 8 56 d)
  if r = 0 then pure true else do
  let cs ← cs20 bits
  pure (!cs.contains '#')

/-! ### BDS 3,0 -/
def is30 (bits : Bits) : Res Bool := do
  if (← allzerosB bits) then pure false else do
  let d ← dataR bits
  if slice 0 8 d ≠ natToBits 8 0x30 then pure false else
  if slice 28 30 d = [true, true] then pure false else do
  let r ← bin2intR (slice 15 22 d)
  pure (r < 48)

/-! ### BDS 4,0 -/
def selalt40mcp (bits : Bits) : Res (Option Rat) := do ufield (← dataR bits) 0 1 13 16 0
def selalt40fms (bits : Bits) : Res (Option Rat) := do ufield (← dataR bits) 13 14 26 16 0
def p40baro (bits : Bits) : Res (Option Rat) := do ufield (← dataR bits) 26 27 39 ((1 : Rat) / 10) 800

/-- all `wrongstatus(d, sb, msb, lsb)` rules are satisfied -/
def statusOk (d : Bits) : List (Nat × Nat × Nat) → Res Bool
  | [] => pure true
  | (sb, msb, lsb) :: rest => do
    if (← wrongstatus d sb msb lsb) then pure false else statusOk d rest

def is40 (bits : Bits) : Res Bool := do
  if (← allzerosB bits) then pure false else do
  let d ← dataR bits
  if !(← statusOk d [(1, 2, 13), (14, 15, 26), (27, 28, 39), (48, 49, 51), (54, 55, 56)]) then pure false else do
  let r ← bin2intR (slice 39 47 d)
  if r ≠ 0 then pure false else do
  let r ← bin2intR (slice 51 53 d)
  pure (r = 0)

/-! ### BDS 4,4 -/
def wind44 (bits : Bits) : Res (Option (Nat × Rat)) := do
  let d ← dataR bits
  let s ← idxR d 4
  if s = false then pure none else do
  let sp ← bin2intR (slice 5 14 d)
  let di ← bin2intR (slice 14 23 d)
  pure (some (sp, (di : Rat) * 180 / 256))

def temp44 (bits : Bits) : Res (Rat × Rat) := do
  let d ← dataR bits
  let sign ← idxR d 23
  let v ← bin2intR (slice 24 34 d)
  let v : Int := if sign then (v : Int) - 1024 else v
  pure ((v : Rat) / 4, (v : Rat) / 8)

def p44 (bits : Bits) : Res (Option Rat) := do ufield (← dataR bits) 34 35 46 1 0
def hum44 (bits : Bits) : Res (Option Rat) := do ufield (← dataR bits) 49 50 56 ((100 : Rat) / 64) 0
def turb44 (bits : Bits) : Res (Option Rat) := do ufield (← dataR bits) 46 47 49 1 0

def is44 (bits : Bits) : Res Bool := do
  if (← allzerosB bits) then pure false else do
  let d ← dataR bits
  if !(← statusOk d [(5, 6, 23), (35, 36, 46), (47, 48, 49), (50, 51, 56)]) then pure false else do
  let src ← bin2intR (slice 0 4 d)
  if src > 4 then pure false else do
  let w ← wind44 bits
  if (match w with | some (vw, _) => decide (vw > 250) | none => false) then pure false else do
  let (t1, t2) ← temp44 bits
  if min t1 t2 > 60 ∨ max t1 t2 < -80 then pure false else pure true

/-! ### BDS 4,5 -/
def turb45 (bits : Bits) : Res (Option Rat) := do ufield (← dataR bits) 0 1 3 1 0
def ws45 (bits : Bits) : Res (Option Rat) := do ufield (← dataR bits) 3 4 6 1 0
def mb45 (bits : Bits) : Res (Option Rat) := do ufield (← dataR bits) 6 7 9 1 0
def ic45 (bits : Bits) : Res (Option Rat) := do ufield (← dataR bits) 9 10 12 1 0
def wv45 (bits : Bits) : Res (Option Rat) := do ufield (← dataR bits) 12 13 15 1 0
def p45 (bits : Bits) : Res (Option Rat) := do ufield (← dataR bits) 26 27 38 1 0
def rh45 (bits : Bits) : Res (Option Rat) := do ufield (← dataR bits) 38 39 51 16 0

def temp45 (bits : Bits) : Res Rat := do
  let d ← dataR bits
  let sign ← idxR d 16
  let v ← bin2intR (slice 17 26 d)
  let v : Int := if sign then (v : Int) - 512 else v
  pure ((v : Rat) / 4)

def is45 (bits : Bits) : Res Bool := do
  if (← allzerosB bits) then pure false else do
  let d ← dataR bits
  if !(← statusOk d [(1, 2, 3), (4, 5, 6), (7, 8, 9), (10, 11, 12), (13, 14, 15), (16, 17, 26),
      (27, 28, 38), (39, 40, 51)]) then pure false else do
  let r ← bin2intR (slice 51 56 d)
  if r ≠ 0 then pure false else do
  let t ← temp45 bits
  if t ≠ 0 ∧ (t > 60 ∨ t < -80) then pure false else pure true

/-! ### BDS 5,0 -/
def roll50 (bits : Bits) : Res (Option Rat) := do sfield (← dataR bits) 0 1 2 11 ((45 : Rat) / 256)
def trk50 (bits : Bits) : Res (Option Rat) := do
  pure (wrap360 (← sfield (← dataR bits) 11 12 13 23 ((90 : Rat) / 512)))
def gs50 (bits : Bits) : Res (Option Rat) := do ufield (← dataR bits) 23 24 34 2 0
def rtrk50 (bits : Bits) : Res (Option Rat) := do sfield (← dataR bits) 34 35 36 45 ((8 : Rat) / 256)
def tas50 (bits : Bits) : Res (Option Rat) := do ufield (← dataR bits) 45 46 56 2 0

def optGt (x : Option Rat) (lim : Rat) : Bool := match x with | some v => decide (v > lim) | none => false
def optAbsGt (x : Option Rat) (lim : Rat) : Bool := match x with | some v => decide (rabs v > lim) | none => false

def is50 (bits : Bits) : Res Bool := do
  if (← allzerosB bits) then pure false else do
  let d ← dataR bits
  if !(← statusOk d [(1, 2, 11), (12, 13, 23), (24, 25, 34), (35, 36, 45), (46, 47, 56)]) then pure false else do
  let roll ← roll50 bits
  if optAbsGt roll 50 then pure false else do
  let gs ← gs50 bits
  if optGt gs 600 then pure false else do
  let tas ← tas50 bits
  if optGt tas 600 then pure false else
  match gs, tas with
  | some g, some t => pure (!decide (rabs (t - g) > 200))
  | _, _ => pure true

/-! ### BDS 5,3 -/
def hdg53 (bits : Bits) : Res (Option Rat) := do
  pure (wrap360 (← sfield (← dataR bits) 0 1 2 12 ((90 : Rat) / 512)))
def ias53 (bits : Bits) : Res (Option Rat) := do ufield (← dataR bits) 12 13 23 1 0
def mach53 (bits : Bits) : Res (Option Rat) := do ufield (← dataR bits) 23 24 33 ((8 : Rat) / 1000) 0
def tas53 (bits : Bits) : Res (Option Rat) := do ufield (← dataR bits) 33 34 46 ((1 : Rat) / 2) 0
def vr53 (bits : Bits) : Res (Option Rat) := do sfield (← dataR bits) 46 47 48 56 64

def is53 (bits : Bits) : Res Bool := do
  if (← allzerosB bits) then pure false else do
  let d ← dataR bits
  if !(← statusOk d [(1, 3, 12), (13, 14, 23), (24, 25, 33), (34, 35, 46), (47, 49, 56)]) then pure false else do
  if optGt (← ias53 bits) 500 then pure false else do
  if optGt (← mach53 bits) 1 then pure false else do
  if optGt (← tas53 bits) 500 then pure false else do
  if optAbsGt (← vr53 bits) 8000 then pure false else pure true

/-! ### BDS 6,0 -/
def hdg60 (bits : Bits) : Res (Option Rat) := do
  pure (wrap360 (← sfield (← dataR bits) 0 1 2 12 ((90 : Rat) / 512)))
def ias60 (bits : Bits) : Res (Option Rat) := do ufield (← dataR bits) 12 13 23 1 0
def mach60 (bits : Bits) : Res (Option Rat) := do ufield (← dataR bits) 23 24 34 ((2048 : Rat) / 1000 / 512) 0
def vr60baro (bits : Bits) : Res (Option Rat) := do sfield (← dataR bits) 34 35 36 45 32
def vr60ins (bits : Bits) : Res (Option Rat) := do sfield (← dataR bits) 45 46 47 56 32

/-- is60 up to (not including) the altitude cross-check -/
def is60Core (bits : Bits) : Res Bool := do
  if (← allzerosB bits) then pure false else do
  let d ← dataR bits
  if !(← statusOk d [(1, 2, 12), (13, 14, 23), (24, 25, 34), (35, 36, 45), (46, 47, 56)]) then pure false else do
  if optGt (← ias60 bits) 500 then pure false else do
  if optGt (← mach60 bits) 1 then pure false else do
  if optAbsGt (← vr60baro bits) 6000 then pure false else do
  if optAbsGt (← vr60ins bits) 6000 then pure false else pure true

/-- the "additional check knowing altitude" of is60: DF20, Mach and IAS present, altitude decodable.
    `iasOfMach mach altFt` stands for `aero.mach2cas(mach, alt*aero.ft)/aero.kts` (floating point). -/
def is60AltCheck (iasOfMach : Rat → Int → Rat) (bits : Bits) : Res Bool := do
  let mach ← mach60 bits
  let ias ← ias60 bits
  match mach, ias with
  | some m, some i =>
    if dfB bits = 20 then do
      let alt ← altitude13 (slice 19 32 bits)
      match alt with
      | some a => pure (!decide (rabs (i - iasOfMach m a) > 20))
      | none => pure true
    else pure true
  | _, _ => pure true

def is60 (iasOfMach : Rat → Int → Rat) (bits : Bits) : Res Bool := do
  if !(← is60Core bits) then pure false else is60AltCheck iasOfMach bits

/-! ### bds.infer -/

def inferAdsb (tc : Nat) : Option String :=
  if 1 ≤ tc ∧ tc ≤ 4 then some "BDS08"
  else if 5 ≤ tc ∧ tc ≤ 8 then some "BDS06"
  else if 9 ≤ tc ∧ tc ≤ 18 then some "BDS05"
  else if tc = 19 then some "BDS09"
  else if 20 ≤ tc ∧ tc ≤ 22 then some "BDS05"
  else if tc = 28 then some "BDS61"
  else if tc = 29 then some "BDS62"
  else if tc = 31 then some "BDS65"
  else none

/-- the Comm-B rule set evaluated by `infer` (all nine are evaluated before `mrar` is looked at) -/
def commbRules (iasOfMach : Rat → Int → Rat) (bits : Bits) : Res (List (String × Bool × Bool)) := do
  let i10 ← is10 bits
  let i17 ← is17 bits
  let i20 ← is20 bits
  let i30 ← is30 bits
  let i40 ← is40 bits
  let i50 ← is50 bits
  let i60 ← is60 iasOfMach bits
  let i44 ← is44 bits
  let i45 ← is45 bits
  -- (label, satisfied, only with mrar)
  pure [("BDS10", i10, false), ("BDS17", i17, false), ("BDS20", i20, false), ("BDS30", i30, false),
        ("BDS40", i40, false), ("BDS44", i44, true), ("BDS45", i45, true), ("BDS50", i50, false),
        ("BDS60", i60, false)]

/-- bds.infer: `some "EMPTY"`, a single label, a comma-joined sorted list, or `none` -/
def infer (iasOfMach : Rat → Int → Rat) (bits : Bits) (mrar : Bool) : Res (Option String) := do
  let d := dfB bits
  if (← allzerosB bits) then pure (some "EMPTY") else do
  let adsb : Option String :=
    if d = 17 then (match tcB bits with | some tc => inferAdsb tc | none => none) else none
  match adsb with
  | some l => pure (some l)
  | none => do
    let rules ← commbRules iasOfMach bits
    let labels := (rules.filter (fun r => r.2.1 && (mrar || !r.2.2))).map (·.1)
    if labels.isEmpty then pure none else pure (some (",".intercalate labels))

end PyModeS
