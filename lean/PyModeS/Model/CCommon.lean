/-
  C-semantics twin of src/pyModeS/c_common.pyx: `long` = 64-bit two's complement, `int` = 32-bit,
  `unsigned char` = 8-bit, integer sentinels instead of `None` (−1 no type code, −999999 / −1 no altitude).
  Strings are lists of characters; `char_to_int` works on code points.
-/
import PyModeS.Model.Misc

namespace PyModeS.C

def wrap64 (x : Int) : Int := let y := x % (2 ^ 64 : Int); if y ≥ 2 ^ 63 then y - 2 ^ 64 else y
def wrap32 (x : Int) : Int := let y := x % (2 ^ 32 : Int); if y ≥ 2 ^ 31 then y - 2 ^ 32 else y

/-- `cdef int char_to_int(unsigned char binstr)` -/
def charToInt (c : Char) : Nat :=
  let n := c.toNat % 256
  if 48 ≤ n ∧ n ≤ 57 then n - 48
  else if 97 ≤ n ∧ n ≤ 102 then n - 97 + 10
  else if 65 ≤ n ∧ n ≤ 70 then n - 65 + 10
  else 0

/-- `cpdef str hex2bin(str hexstr)`: four characters '0'/'1' per input character -/
def hex2bin (m : Msg) : Bits :=
  m.flatMap (fun c => let v := charToInt c; [(v >>> 3) &&& 1 == 1, (v >>> 2) &&& 1 == 1, (v >>> 1) &&& 1 == 1, v &&& 1 == 1])

/-- `cpdef long bin2int(str binstr)` on a '0'/'1' string: `cumul = 2*cumul + char_to_int(c)` in 64-bit arithmetic -/
def bin2int (b : Bits) : Int := b.foldl (fun acc x => wrap64 (2 * acc + (if x then 1 else 0))) 0

/-- `cpdef long hex2int(str hexstr)` -/
def hex2int (m : Msg) : Int := m.foldl (fun acc c => wrap64 (16 * acc + charToInt c)) 0

/-- `cpdef unsigned char df(str msg)` -/
def df (m : Msg) : Nat :=
  let d := bin2int (slice 0 5 (hex2bin (m.take 2)))
  if d > 24 then 24 else (d % 256).toNat

/-- `cpdef long crc(str msg, bint encode=False)`: the same byte-wise loop on C longs -/
def crc (m : Msg) (encode : Bool) : Int :=
  let bits := hex2bin m
  let bits := if encode then dropLast 24 bits ++ List.replicate 24 false else bits
  let mbytes := (List.range (bits.length / 8)).map (fun i => (bin2int (slice (8 * i) (8 * i + 8) bits)).toNat)
  (last3 (crcLoop Tables.crcG mbytes) : Int)

/-- `cpdef str icao(str msg)` (`none` = Python `None`) -/
def icao (m : Msg) : Option Msg :=
  let d := df m
  if d = 11 ∨ d = 17 ∨ d = 18 then some ((slice 2 8 m).map Char.toUpper)
  else if d = 0 ∨ d = 4 ∨ d = 5 ∨ d = 16 ∨ d = 20 ∨ d = 21 then
    let c0 := crc m true
    let c1 := hex2int (takeLast 6 m)
    some (hex6 (c0.toNat ^^^ c1.toNat))   -- both operands are non-negative here
  else none

/-- `cpdef int typecode(str msg)`: −1 instead of `None` -/
def typecode (m : Msg) : Int :=
  let d := df m
  if d ≠ 17 ∧ d ≠ 18 then -1 else wrap32 (bin2int (slice 0 5 (hex2bin (slice 8 10 m))))

/-- `cdef int gray2int(str graystr)` -/
def gray2int (b : Bits) : Int :=
  -- (the argument has at most 11 bits, so the C int is non-negative and `^`, `>>` act as on naturals)
  let n : Nat := (wrap32 (bin2int b)).toNat
  let n := n ^^^ (n >>> 8)
  let n := n ^^^ (n >>> 4)
  let n := n ^^^ (n >>> 2)
  let n := n ^^^ (n >>> 1)
  (n : Int)

/-- `cpdef int gray2alt(str codestr)`: −1 instead of `None` -/
def gray2alt (b : Bits) : Int :=
  let n500 := gray2int (slice 0 8 b)
  let n100 := gray2int (b.drop 8)
  if n100 = 0 ∨ n100 = 5 ∨ n100 = 6 then -1 else
  let n100 := if n100 = 7 then 5 else n100
  let n100 := if n500 % 2 ≠ 0 then 6 - n100 else n100
  (n500 * 500 + n100 * 100) - 1300

/-- `cpdef int altitude(str binstr)`: −999999 for the zero code, −1 for an illegal Gillham code -/
def altitude (b : Bits) : Res Int :=
  match b with
  | [m0, m1, m2, m3, m4, m5, M, m7, Q, m9, m10, m11, m12] =>
    -- cdef int alt = 0
    if bin2int b = 0 then .val (-999999)
    else if M = false then            -- Mbit == 48
      let alt : Int := 0
      let alt := if Q = true then wrap32 (bin2int [m0, m1, m2, m3, m4, m5, m7, m9, m10, m11, m12] * 25 - 1000) else alt
      let alt := if Q = false then
          -- graybytes[8]=mbin[0] [2]=mbin[1] [9]=mbin[2] [3]=mbin[3] [10]=mbin[4] [4]=mbin[5] [5]=mbin[7] [6]=mbin[9] [0]=mbin[10] [7]=mbin[11] [1]=mbin[12]
          gray2alt [m10, m12, m1, m3, m5, m7, m9, m11, m0, m2, m4]
        else alt
      .val alt
    else                               -- elif Mbit == 49
      .val (wrap32 (((bin2int [m0, m1, m2, m3, m4, m5, m7, Q, m9, m10, m11, m12]).toNat * 328084 / 100000 : Nat)))
  | _ => .rte

/-- `cpdef str squawk(str binstr)` (after fix c713a7c: same subset test as py_common) -/
def squawk (b : Bits) : Res (List Nat) :=
  match b with
  | [C1, A1, C2, A2, C4, A4, _X, B1, D1, B2, D2, B4, D4] =>
    let v := fun (x : Bool) => if x then 1 else 0
    .val [(v A4 * 2 + v A2) * 2 + v A1, (v B4 * 2 + v B2) * 2 + v B1, (v C4 * 2 + v C2) * 2 + v C1, (v D4 * 2 + v D2) * 2 + v D1]
  | _ => .rte

def altcode (m : Msg) : Res Int :=
  let d := df m
  if d ≠ 0 ∧ d ≠ 4 ∧ d ≠ 16 ∧ d ≠ 20 then .rte else altitude (slice 19 32 (hex2bin m))

def idcode (m : Msg) : Res (List Nat) :=
  let d := df m
  if d ≠ 5 ∧ d ≠ 21 then .rte else squawk (slice 19 32 (hex2bin m))

/-- the documented sentinel map of the property: −999999 / −1 stand for `None` -/
def altOfSentinel (x : Int) : Option Int := if x = -999999 ∨ x = -1 then none else some x
def tcOfSentinel (x : Int) : Option Nat := if x = -1 then none else some x.toNat

end PyModeS.C
