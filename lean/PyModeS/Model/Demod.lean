/-
  Model of extra/rtlreader.py `RtlReader._process_buffer` over exact rational samples
  (the harness generates samples on a dyadic grid, which doubles hold exactly).
-/
import PyModeS.Model.Adsb

namespace PyModeS

/-- `_calc_noise`: minimum of the means of the complete 200-sample windows (`min([])` raises) -/
def calcNoise (buf : Array Rat) : Res Rat :=
  let window := Tables.rtlSamplesPerMicrosec * 100
  let n := buf.size / window
  let means := (List.range n).map (fun k => (buf.extract (k * window) (k * window + window)).foldl (· + ·) 0 / (window : Rat))
  match means with
  | [] => .exc
  | m :: ms => .val (ms.foldl min m)

/-- `_check_preamble` on `signal_buffer[i:i+16]` -/
def checkPreamble (p : List Rat) : Bool :=
  p.length == 16 &&
  (List.range 16).all (fun k => !decide (rabs (p.getD k 0 - (Tables.rtlPreamble.getD k 0 : Rat)) > Tables.rtlThAmpDiff))

/-- the bit-slicing loop: returns (msgbin, last value of j) -/
def sliceBits (fp : List Rat) (thr : Rat) : Nat → Nat → List Bool → List Bool × Nat
  | 0, j, acc => (acc, j)
  | fuel + 1, j, acc =>
    let p2 := (fp.drop j).take 2
    match p2 with
    | [a, b] =>
      if a < thr ∧ b < thr then (acc, j)
      else
        let c := decide (a ≥ b)
        -- (the `else: msgbin = []` arm is unreachable for numbers)
        if fuel = 0 then (acc ++ [c], j) else sliceBits fp thr fuel (j + 2) (acc ++ [c])
    | _ => (acc, j)

/-- `pms.bin2hex`: `"{0:X}".format(int(binstr, 2))` — no zero padding -/
def bin2hexNoPad (b : Bits) : Msg := (Nat.toDigits 16 (bin2int b)).map Char.toUpper

/-- `_check_msg` -/
def checkMsg (m : Msg) : Bool :=
  let d := df m
  let n := m.length
  if d = 17 ∧ n = 28 then crc m false = 0
  else if (d = 20 ∨ d = 21) ∧ n = 28 then true
  else if (d = 4 ∨ d = 5 ∨ d = 11) ∧ n = 14 then true
  else false

/-- the `while i < buffer_length` loop; `fuel` ≥ buffer length suffices (i grows by ≥ 1 per turn) -/
def demodLoop (buf : Array Rat) (minAmp : Rat) : Nat → Nat → List Msg → Res (List Msg × Nat)
  | 0, i, out => .val (out, i)
  | fuel + 1, i, out =>
    if i ≥ buf.size then .val (out, i)
    else if buf.getD i 0 < minAmp then demodLoop buf minAmp fuel (i + 1) out
    else
      let frameStart := i + Tables.rtlPbits * 2
      if checkPreamble (buf.extract i (i + Tables.rtlPbits * 2)).toList then
        let frameLength := (Tables.rtlFbits + 1) * 2
        let fp := (buf.extract frameStart (frameStart + frameLength)).toList
        match fp with
        | [] => .exc                       -- max([]) raises ValueError
        | x :: xs =>
          let thr := xs.foldl max x * (1 / 5)
          let (msgbin, j) := sliceBits fp thr (frameLength / 2) 0 []
          let i' := frameStart + j
          let out := if msgbin.isEmpty then out else
            let h := bin2hexNoPad msgbin
            if checkMsg h then out ++ [h] else out
          demodLoop buf minAmp fuel i' out
      else demodLoop buf minAmp fuel (i + 1) out

/-- `_process_buffer`: (messages, new noise floor, remaining buffer) -/
def processBuffer (noiseFloor : Rat) (buf : Array Rat) : Res (List Msg × Rat × Nat) := do
  let nf := min (← calcNoise buf) noiseFloor
  let minAmp := (3162 : Rat) / 1000 * nf
  let (out, i) ← demodLoop buf minAmp (buf.size + 1) 0 []
  -- (messages, noise floor, length of the remaining buffer `signal_buffer[i:]`)
  pure (out, nf, buf.size - i)

end PyModeS
