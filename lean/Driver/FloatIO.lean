import PyModeS.Model.Aero
namespace Driver

def hexToU64 (s : String) : UInt64 := s.toList.foldl (fun n c => n * 16 + (PyModeS.hexVal c).toUInt64) 0
def floatOfHex (s : String) : Float := Float.ofBits (hexToU64 s)
def hexOfFloat (f : Float) : String :=
  let n := f.toBits.toNat
  let ds := Nat.toDigits 16 n
  String.ofList (List.replicate (16 - ds.length) '0' ++ ds)

/-- exact value of a finite double -/
def floatToRat (f : Float) : Rat :=
  let b : Nat := f.toBits.toNat
  let neg : Bool := b / 2 ^ 63 == 1
  let e : Nat := b / 2 ^ 52 % 2048
  let m : Nat := b % 2 ^ 52
  let mag : Rat :=
    if e == 0 then (m : Rat) / ((2 ^ 1074 : Nat) : Rat)
    else if e ≥ 1075 then (((2 ^ 52 + m) * 2 ^ (e - 1075) : Nat) : Rat)
    else ((2 ^ 52 + m : Nat) : Rat) / ((2 ^ (1075 - e) : Nat) : Rat)
  if neg then -mag else mag

def ratToFloat (q : Rat) : Float := Float.ofInt q.num / Float.ofNat q.den

/-- `aero.mach2cas(mach, alt*aero.ft)/aero.kts` in double precision -/
def iasOfMachF (m : Rat) (alt : Int) : Rat :=
  floatToRat (PyModeS.Aero.iasOfMach (ratToFloat m) (Float.ofInt alt))

end Driver
