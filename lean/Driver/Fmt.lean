import PyModeS.Basic
namespace Driver
open PyModeS

def fmtRat (q : Rat) : String := s!"{q.num}/{q.den}"
def fmtOpt {α} (f : α → String) : Option α → String
  | none => "None"
  | some a => f a
def fmtRes {α} (f : α → String) : Res α → String
  | .val a => f a
  | .rte => "RE"
  | .exc => "EXC"
def fmtBool (b : Bool) : String := if b then "True" else "False"
def fmtInt (i : Int) : String := toString i
def fmtNat (i : Nat) : String := toString i
def fmtMsg (m : List Char) : String := String.ofList m
def joinBar (l : List String) : String := "|".intercalate l

def parseRat (s : String) : Option Rat :=
  match s.splitOn "/" with
  | [a] => (a.toInt?).map (fun (i : Int) => (i : Rat))
  | [a, b] => do
    let i ← a.toInt?
    let d ← b.toNat?
    if d = 0 then none else some ((i : Rat) / (d : Rat))
  | _ => none

end Driver
