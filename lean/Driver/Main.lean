import PyModeS.Models
import PyModeS.Spec.CPR
import PyModeS.Spec.Altitude
import PyModeS.Spec.CRC
import PyModeS.Spec.Velocity
import PyModeS.Spec.Fields
import PyModeS.Proofs.Uplink.Encoder
import Driver.Fmt
import Driver.FloatIO
open PyModeS Driver

def fmtOR := fmtOpt fmtRat
def fmtDigits (l : List Nat) : String := "".intercalate (l.map toString)
def fmtPos (p : Rat × Rat) : String := fmtRat p.1 ++ "|" ++ fmtRat p.2
def fmtStr (s : String) : String := if s.isEmpty then "''" else s

def fmtDir : Dir → String
  | .track a b => s!"atan2deg({a},{b})"
  | .heading h => fmtRat h
  | .none => "None"

def fmtVel (v : Velocity) : String :=
  joinBar [fmtOpt fmtInt v.spd, fmtDir v.dir, fmtOpt fmtInt v.vs, v.spdType, v.dirType, v.vrSource]

def fmt3 (x : Nat × Option Rat × Option Rat) : String := joinBar [fmtNat x.1, fmtOR x.2.1, fmtOR x.2.2]

def bytesOfHex (s : String) : List Nat :=
  let rec go : List Char → List Nat
    | a :: b :: rest => (hexVal a * 16 + hexVal b) :: go rest
    | _ => []
  go s.toList

def splitAt (l : List Nat) (cuts : List Nat) : List (List Nat) :=
  let rec go (l : List Nat) (pos : Nat) : List Nat → List (List Nat)
    | [] => [l]
    | c :: cs => if c ≤ pos then go l pos cs else (l.take (c - pos)) :: go (l.drop (c - pos)) c cs
  go l 0 cuts

def parseCuts (s : String) : List Nat := if s == "-" then [] else (s.splitOn ",").filterMap String.toNat?

def fmtMsgs (l : List Msg) : String := if l.isEmpty then "-" else ",".intercalate (l.map String.ofList)

def feedOp (fmt : Fmt) (raw cuts : String) : String :=
  fmtMsgs (feedAll fmt (splitAt (bytesOfHex raw) (parseCuts cuts)) [] []).1

/-- `ns m1,m2;m3;...`: calls of handle_messages; prints what is sent per call and the pending buffers -/
def nsOp (calls : String) : String :=
  let cs := (calls.splitOn ";").map (fun c => if c == "-" then [] else (c.splitOn ",").map String.toList)
  let (s, outs) := cs.foldl (fun (acc : NetSrc × List String) c =>
    let (s', sent) := nsHandle acc.1 c
    (s', acc.2 ++ [match sent with
      | some (a, b) => "S:" ++ fmtMsgs a ++ "/" ++ fmtMsgs b
      | none => "N"])) (⟨[], []⟩, [])
  ";".intercalate outs ++ "|P:" ++ fmtMsgs s.adsb ++ "/" ++ fmtMsgs s.commb

def parseItems (s : String) : List (Rat × Msg) :=
  if s == "-" then [] else
  (s.splitOn "+").filterMap (fun it => match it.splitOn "@" with
    | [t, m] => some ((parseRat t).getD 0, m.toList)
    | _ => none)

def fmtAc (p : Msg × Ac) : String :=
  String.ofList p.1 ++ "=" ++ ",".intercalate [toString p.2.live, fmtOpt fmtRat p.2.lat, fmtOpt fmtRat p.2.lon, fmtOpt fmtRat p.2.tpos]

def fmtTracker (tr : Tracker) : String :=
  let l := (tr.acs.map fmtAc).toArray.qsort (· < ·) |>.toList
  if l.isEmpty then "-" else "&".intercalate l

/-- `trk <lat,lon | -> <tnow~adsb~commb>;...` : state after every call -/
def trkOp (ias : Rat → Int → Rat) (ref calls : String) : String :=
  let r : Option (Rat × Rat) := match ref.splitOn "," with
    | [a, b] => some ((parseRat a).getD 0, (parseRat b).getD 0)
    | _ => none
  let init : Tracker := { ref := r }
  let (_, outs) := (calls.splitOn ";").foldl (fun (acc : Option Tracker × List String) c =>
    match acc.1, c.splitOn "~" with
    | some tr, [tnow, a, b] =>
      match processRaw ias tr (parseItems a) (parseItems b) ((parseRat tnow).getD 0) with
      | .val tr' => (some tr', acc.2 ++ [fmtTracker tr'])
      | .rte => (none, acc.2 ++ ["RE"])
      | .exc => (none, acc.2 ++ ["EXC"])
    | _, _ => (none, acc.2 ++ ["X"])) (some init, [])
  ";".intercalate outs

/-- placeholder for `aero.mach2cas(mach, alt*ft)/kts`: filled in by Driver.Aero -/
def iasOfMachStub (_ : Rat) (_ : Int) : Rat := 0

def rat! (s : String) : Rat := (parseRat s).getD 0

/-- One protocol line in, one canonical line out. -/
def handle (iasOfMach : Rat → Int → Rat) (ws : List String) : String :=
  match ws with
  | ["df", m] => fmtNat (df m.toList)
  | ["crc", m, e] => fmtNat (crc m.toList (e == "1"))
  | ["crc_legacy", m, e] => fmtNat (crcLegacy m.toList (e == "1"))
  | ["icao", m] => fmtOpt fmtMsg (icao m.toList)
  | ["typecode", m] => fmtOpt fmtNat (typecode m.toList)
  | ["c.altitude", b] => fmtRes (fun x => fmtOpt fmtInt (C.altOfSentinel x)) (C.altitude (bitsOfString b))
  | ["c.squawk", b] => fmtRes fmtDigits (C.squawk (bitsOfString b))
  | ["c.df", m] => fmtNat (C.df m.toList)
  | ["c.typecode", m] => fmtOpt fmtNat (C.tcOfSentinel (C.typecode m.toList))
  | ["c.icao", m] => fmtOpt fmtMsg (C.icao m.toList)
  | ["c.idcode", m] => fmtRes fmtDigits (C.idcode m.toList)
  | ["c.altcode", m] => fmtRes (fun x => fmtOpt fmtInt (C.altOfSentinel x)) (C.altcode m.toList)
  | ["c.crc", m, e] => fmtInt (C.crc m.toList (e == "1"))
  | ["altitude13", b] => fmtRes (fmtOpt fmtInt) (altitude13 (bitsOfString b))
  | ["altcode", m] => fmtRes (fmtOpt fmtInt) (altcode m.toList)
  | ["squawk", b] => fmtRes fmtDigits (squawk (bitsOfString b))
  | ["idcode", m] => fmtRes fmtDigits (idcode m.toList)
  | ["allzeros", m] => fmtRes fmtBool (allzerosB (hex2bin m))
  | ["cprNL", x] => fmtNat (cprNL (rat! x))
  -- the Lean Spec definitions the theorems talk about, so that the harness can compare them with its own oracle
  | ["spec.alt13", n] => fmtOpt fmtInt (Spec.alt13 n.toNat!)
  | ["spec.remH", m] => fmtNat (Spec.remH (hex2bin m))
  | ["spec.mov", n] => fmtOpt fmtRat (Spec.movementSpeed n.toNat!)
  | ["spec.id13", a, b, c, d, x] => bitsToString (Spec.id13 a.toNat! b.toNat! c.toNat! d.toNat! (x == "1"))
  | ["spec.idchar", c] => fmtOpt (fun ch => String.ofList [ch]) (Spec.idChar c.toNat!)
  | ["spec.uplinkframe", d, a] => fmtMsg (Uplink.uplinkFrame (hex2bin d) a.toNat!)
  | ["spec.encodeAP", d, a] => fmtMsg (CRC.encodeAP (hex2bin d) a.toNat!)
  | ["ns", calls] => nsOp calls
  | [op, m] =>
    let b := hex2bin m
    match op with
    -- adsb
    | "adsb.altitude" => fmtRes fmtOR (adsbAltitude b)
    | "altitude05" => fmtRes fmtOR (altitude05 b)
    | "surface_velocity" => fmtRes (fun r => joinBar [fmtOR r.1, fmtOR r.2, "0", "GS", "TRUE_NORTH", "None"]) (surfaceVelocity b)
    | "category" => fmtRes fmtNat (category b)
    | "callsign" => fmtRes (fun c => fmtStr (String.ofList c)) (callsign b)
    | "airborne_velocity" => fmtRes (fmtOpt fmtVel) (airborneVelocity b)
    | "altitude_diff" => fmtRes (fmtOpt fmtInt) (altitudeDiff b)
    | "is_emergency" => fmtRes fmtBool (isEmergency b)
    | "emergency_state" => fmtRes fmtNat (emergencyState b)
    | "emergency_squawk" => fmtRes fmtDigits (emergencySquawk b)
    | "selected_altitude" => fmtRes (fun r => joinBar [fmtOpt fmtNat r.1, r.2]) (selectedAltitude b)
    | "target_altitude" => fmtRes (fun r => joinBar [fmtOpt fmtInt r.1, r.2.1, fmtStr r.2.2]) (targetAltitude b)
    | "vertical_mode" => fmtRes (fmtOpt fmtNat) (verticalMode b)
    | "horizontal_mode" => fmtRes (fmtOpt fmtNat) (horizontalMode b)
    | "selected_heading" => fmtRes fmtOR (selectedHeading b)
    | "target_angle" => fmtRes (fun r => joinBar [fmtOpt fmtNat r.1, fmtStr r.2.1, r.2.2]) (targetAngle b)
    | "baro_pressure_setting" => fmtRes fmtOR (baroPressureSetting b)
    | "autopilot" => fmtRes (fmtOpt fmtBool) (autopilot b)
    | "vnav_mode" => fmtRes (fmtOpt fmtBool) (vnavMode b)
    | "altitude_hold_mode" => fmtRes (fmtOpt fmtBool) (altitudeHoldMode b)
    | "approach_mode" => fmtRes (fmtOpt fmtBool) (approachMode b)
    | "lnav_mode" => fmtRes (fmtOpt fmtBool) (lnavMode b)
    | "tcas_operational" => fmtRes fmtBool (tcasOperational b)
    | "tcas_ra" => fmtRes fmtBool (tcasRa b)
    | "emergency_status" => fmtRes fmtNat (emergencyStatus b)
    | "oe_flag" => fmtRes fmtNat (oeFlag b)
    | "version" => fmtRes fmtNat (version b)
    | "nuc_p" => fmtRes (fun r => joinBar [fmtNat r.1, fmtOR r.2.1, fmtOR r.2.2.1, fmtOR r.2.2.2]) (nucP b)
    | "nuc_v" => fmtRes fmt3 (nucV b)
    | "nic_s" => fmtRes fmtNat (nicS b)
    | "nic_a_c" => fmtRes (fun r => joinBar [fmtNat r.1, fmtNat r.2]) (nicAC b)
    | "nic_b" => fmtRes fmtNat (nicB b)
    | "nac_p" => fmtRes fmt3 (nacP b)
    | "nac_v" => fmtRes fmt3 (nacV b)
    | "velocity_route" => fmtRes (fun k => match k with | .surface => "surface" | .airborne => "airborne") (velocityRoute b)
    | "pwr_route" => fmtRes (fun k => match k with | .surface => "surface" | .airborne => "airborne") (positionWithRefRoute b)
    -- commb
    | "ovc10" => fmtRes fmtNat (ovc10 b)
    | "is10" => fmtRes fmtBool (is10 b)
    | "cap17" => fmtRes (fun l => if l.isEmpty then "[]" else ",".intercalate l) (cap17 b)
    | "is17" => fmtRes fmtBool (is17 b)
    | "cs20" => fmtRes (fun c => String.ofList c) (cs20 b)
    | "is20" => fmtRes fmtBool (is20 b)
    | "is30" => fmtRes fmtBool (is30 b)
    | "is40" => fmtRes fmtBool (is40 b)
    | "selalt40mcp" => fmtRes fmtOR (selalt40mcp b)
    | "selalt40fms" => fmtRes fmtOR (selalt40fms b)
    | "p40baro" => fmtRes fmtOR (p40baro b)
    | "is44" => fmtRes fmtBool (is44 b)
    | "wind44" => fmtRes (fun w => match w with | some (s, d) => joinBar [fmtNat s, fmtRat d] | none => "None|None") (wind44 b)
    | "temp44" => fmtRes fmtPos (temp44 b)
    | "p44" => fmtRes fmtOR (p44 b)
    | "hum44" => fmtRes fmtOR (hum44 b)
    | "turb44" => fmtRes fmtOR (turb44 b)
    | "is45" => fmtRes fmtBool (is45 b)
    | "turb45" => fmtRes fmtOR (turb45 b)
    | "ws45" => fmtRes fmtOR (ws45 b)
    | "mb45" => fmtRes fmtOR (mb45 b)
    | "ic45" => fmtRes fmtOR (ic45 b)
    | "wv45" => fmtRes fmtOR (wv45 b)
    | "temp45" => fmtRes fmtRat (temp45 b)
    | "p45" => fmtRes fmtOR (p45 b)
    | "rh45" => fmtRes fmtOR (rh45 b)
    | "is50" => fmtRes fmtBool (is50 b)
    | "roll50" => fmtRes fmtOR (roll50 b)
    | "trk50" => fmtRes fmtOR (trk50 b)
    | "gs50" => fmtRes fmtOR (gs50 b)
    | "rtrk50" => fmtRes fmtOR (rtrk50 b)
    | "tas50" => fmtRes fmtOR (tas50 b)
    | "is53" => fmtRes fmtBool (is53 b)
    | "hdg53" => fmtRes fmtOR (hdg53 b)
    | "ias53" => fmtRes fmtOR (ias53 b)
    | "mach53" => fmtRes fmtOR (mach53 b)
    | "tas53" => fmtRes fmtOR (tas53 b)
    | "vr53" => fmtRes fmtOR (vr53 b)
    | "is60" => fmtRes fmtBool (is60 iasOfMach b)
    | "is60core" => fmtRes fmtBool (is60Core b)
    | "hdg60" => fmtRes fmtOR (hdg60 b)
    | "ias60" => fmtRes fmtOR (ias60 b)
    | "mach60" => fmtRes fmtOR (mach60 b)
    | "vr60baro" => fmtRes fmtOR (vr60baro b)
    | "vr60ins" => fmtRes fmtOR (vr60ins b)
    | "infer0" => fmtRes (fmtOpt id) (infer iasOfMach b false)
    | "infer1" => fmtRes (fmtOpt id) (infer iasOfMach b true)
    -- surv / allcall
    | "surv.fs" => fmtRes fmtNat (survFs b)
    | "surv.dr" => fmtRes fmtNat (survDr b)
    | "surv.um" => fmtRes (fun r => joinBar [fmtNat r.1, fmtNat r.2]) (survUm b)
    | "surv.altitude" => fmtRes (fmtOpt fmtInt) (survAltitude b)
    | "surv.identity" => fmtRes fmtDigits (survIdentity b)
    | "interrogator" => fmtRes id (interrogator b)
    | "capability" => fmtRes fmtNat (capability b)
    -- uplink
    | "tell" => fmtRes (fun _ => "0") (tell iasOfMach b)
    | "uplink_icao" => fmtMsg (uplinkIcao m.toList)
    | "uf" => fmtNat (ufB b)
    | "uplink.bds" => fmtOpt id (uplinkBds b)
    | "uplink.pr" => fmtOpt fmtNat (uplinkPr b)
    | "uplink.ic" => fmtOpt fmtStr (uplinkIc b)
    | "uplink.lockout" => fmtOpt fmtBool (uplinkLockout b)
    | "uplink_fields" =>
      let f := uplinkFields b
      let e := fun (o : Option Nat) => match o with | some n => fmtNat n | none => "''"
      joinBar [e f.di, fmtStr f.ic, fmtBool f.los, e f.pr, e f.rr, e f.rrs, fmtStr f.bds]
    | _ => "BAD-OP"
  | ["demod", nf, den, samples] =>
    let d : Rat := ((den.toNat?).getD 1 : Nat)
    let buf : Array Rat := ((samples.splitOn ",").filterMap (fun t => (t.toInt?).map (fun (i : Int) => (i : Rat) / d))).toArray
    let nf0 : Rat := if nf == "-" then 1000000 else rat! nf
    fmtRes (fun r => fmtMsgs r.1 ++ "|" ++ toString r.2.2) (processBuffer nf0 buf)
  | ["demodseq", nf, den, bufs] =>
    -- one reader, several buffers: the noise floor (running minimum) is carried from call to call
    let d : Rat := ((den.toNat?).getD 1 : Nat)
    let nf0 : Rat := if nf == "-" then 1000000 else rat! nf
    let (_, outs) := (bufs.splitOn ";").foldl (fun (acc : Option Rat × List String) samples =>
      match acc.1 with
      | none => (none, acc.2 ++ ["X"])
      | some nfc =>
        let buf : Array Rat := ((samples.splitOn ",").filterMap (fun t => (t.toInt?).map (fun (i : Int) => (i : Rat) / d))).toArray
        match processBuffer nfc buf with
        | .val r => (some r.2.1, acc.2 ++ [fmtMsgs r.1 ++ "|" ++ toString r.2.2])
        | .rte => (none, acc.2 ++ ["RE"])
        | .exc => (none, acc.2 ++ ["EXC"])) (some nf0, [])
    ";".intercalate outs
  | ["trk", ref, calls] => trkOp iasOfMach ref calls
  | "aero" :: fn :: args =>
    let a := args.map floatOfHex
    let g := fun i => a.getD i 0.0
    let r : Option Float := match fn with
      | "pressure" => some (Aero.pressure (g 0))
      | "density" => some (Aero.density (g 0))
      | "temperature" => some (Aero.temperature (g 0))
      | "vsound" => some (Aero.vsound (g 0))
      | "tas2mach" => some (Aero.tas2mach (g 0) (g 1))
      | "mach2tas" => some (Aero.mach2tas (g 0) (g 1))
      | "eas2tas" => some (Aero.eas2tas (g 0) (g 1))
      | "tas2eas" => some (Aero.tas2eas (g 0) (g 1))
      | "cas2tas" => some (Aero.cas2tas (g 0) (g 1))
      | "tas2cas" => some (Aero.tas2cas (g 0) (g 1))
      | "mach2cas" => some (Aero.mach2cas (g 0) (g 1))
      | "cas2mach" => some (Aero.cas2mach (g 0) (g 1))
      | "distance" => some (Aero.distance (g 0) (g 1) (g 2) (g 3) (g 4))
      | "bearing" => some (Aero.bearing (g 0) (g 1) (g 2) (g 3))
      | _ => none
    match r with
    | some f => "f:" ++ hexOfFloat f
    | none => "BAD-OP"
  | ["feed_beast", raw, cuts] => feedOp .beast raw cuts
  | ["feed_raw", raw, cuts] => feedOp .raw raw cuts
  | ["feed_skysense", raw, cuts] => feedOp .skysense raw cuts
  | ["nic_v1", m, s] => fmtRes fmt3 (nicV1 (hex2bin m) s.toNat!)
  | ["nic_v2", m, a, bc] =>
    fmtRes (fun r => match r with | some (n, rc) => joinBar [fmtNat n, fmtOR rc] | none => "None|None")
      (nicV2 (hex2bin m) a.toNat! bc.toNat!)
  | ["sil", m, v] => fmtRes (fun r => joinBar [fmtOR r.1, fmtOR r.2.1, r.2.2]) (sil (hex2bin m) v.toNat?)
  | ["cpr_encode", base, i, la, lo] =>
    let e := Spec.cprEncode cprNL (rat! base) i.toNat! (rat! la) (rat! lo)
    joinBar [fmtNat e.yz, fmtNat e.xz, fmtRat e.rlat, fmtRat e.rlon]
  | ["airborne_position", m0, m1, t0, t1] =>
    fmtRes (fmtOpt fmtPos) (airbornePosition (hex2bin m0) (hex2bin m1) (rat! t0) (rat! t1))
  | ["surface_position", m0, m1, t0, t1, la, lo] =>
    fmtRes (fmtOpt fmtPos) (surfacePosition (hex2bin m0) (hex2bin m1) (rat! t0) (rat! t1) (rat! la) (rat! lo))
  | ["position", m0, m1, t0, t1] =>
    fmtRes (fmtOpt fmtPos) (position (hex2bin m0) (hex2bin m1) (rat! t0) (rat! t1) none)
  | ["position", m0, m1, t0, t1, la, lo] =>
    fmtRes (fmtOpt fmtPos) (position (hex2bin m0) (hex2bin m1) (rat! t0) (rat! t1) (some (rat! la, rat! lo)))
  | ["airborne_position_with_ref", m, la, lo] => fmtRes fmtPos (airbornePositionWithRef (hex2bin m) (rat! la) (rat! lo))
  | ["surface_position_with_ref", m, la, lo] => fmtRes fmtPos (surfacePositionWithRef (hex2bin m) (rat! la) (rat! lo))
  | ["position_with_ref", m, la, lo] => fmtRes fmtPos (positionWithRef (hex2bin m) (rat! la) (rat! lo))
  | _ => "BAD-OP"

partial def loop (h : IO.FS.Stream) (out : IO.FS.Stream) : IO Unit := do
  let line ← h.getLine
  if line.isEmpty then return ()
  let ws := (line.trimAscii.toString.splitOn " ").filter (· ≠ "")
  out.putStrLn (handle iasOfMachF ws)
  loop h out

def main : IO Unit := do
  let stdin ← IO.getStdin
  let stdout ← IO.getStdout
  loop stdin stdout
