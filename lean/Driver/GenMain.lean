/-
  Line-protocol driver for the source-generated model (`Generated/Src/*.lean`):
    <module.function> <arg> ...
  args:   N | T | F | n:<int or p/q> | s:<text> | L(<arg>,<arg>,…) | D(<arg>=<arg>,…)      (no blanks inside an argument;
          text must not contain , ( ) = : it is only ever hex digits, attribute names and labels)
  prints the canonical form of the returned Python value, `RE` (RuntimeError), `EXC` (other exception)
  or `NOFN` (function not translated).
-/
import PyModeS.Generated.Src.Index
import Driver.Fmt
open PyModeS PyModeS.Py Driver

partial def fmtVal : Val → String
  | .none => "None"
  | .bool b => fmtBool b
  | .num q => if q.den = 1 then toString q.num else fmtRat q
  | .str s => if s.isEmpty then "''" else String.ofList s
  | .tuple l => "|".intercalate (l.map fmtVal)
  | .dict l => "{" ++ ",".intercalate (l.map (fun kv => fmtVal kv.1 ++ "=" ++ fmtNested kv.2)) ++ "}"
where
  /-- inside a dictionary, lists are bracketed so that the structure stays readable -/
  fmtNested : Val → String
    | .tuple l => "[" ++ ",".intercalate (l.map fmtNested) ++ "]"
    | .dict l => "{" ++ ",".intercalate (l.map (fun kv => fmtNested kv.1 ++ "=" ++ fmtNested kv.2)) ++ "}"
    | v => fmtVal v

/-- split at top-level commas (parentheses nest) -/
def splitTop (s : List Char) : List (List Char) :=
  let rec go (cs : List Char) (depth : Nat) (cur : List Char) (acc : List (List Char)) : List (List Char) :=
    match cs with
    | [] => (cur.reverse :: acc).reverse
    | c :: rest =>
      if c == '(' then go rest (depth + 1) (c :: cur) acc
      else if c == ')' then go rest (depth - 1) (c :: cur) acc
      else if c == ',' && depth == 0 then go rest depth [] (cur.reverse :: acc)
      else go rest depth (c :: cur) acc
  if s.isEmpty then [] else go s 0 [] []

/-- position of the first top-level '=' -/
def splitEq (s : List Char) : Option (List Char × List Char) :=
  let rec go (cs : List Char) (depth : Nat) (pre : List Char) : Option (List Char × List Char) :=
    match cs with
    | [] => none
    | c :: rest =>
      if c == '(' then go rest (depth + 1) (c :: pre)
      else if c == ')' then go rest (depth - 1) (c :: pre)
      else if c == '=' && depth == 0 then some (pre.reverse, rest)
      else go rest depth (c :: pre)
  go s 0 []

partial def parseVal (w : List Char) : Option Val :=
  match w with
  | ['N'] => some .none
  | ['T'] => some (.bool true)
  | ['F'] => some (.bool false)
  | 's' :: ':' :: rest => some (.str rest)
  | 'n' :: ':' :: rest => (parseRat (String.ofList rest)).map .num
  | 'L' :: '(' :: rest =>
    if rest.getLast? == some ')' then
      ((splitTop rest.dropLast).mapM parseVal).map .tuple
    else none
  | 'D' :: '(' :: rest =>
    if rest.getLast? == some ')' then
      ((splitTop rest.dropLast).mapM (fun kv => do
        let (k, v) ← splitEq kv
        pure (← parseVal k, ← parseVal v))).map .dict
    else none
  | _ => none

def bytesOfHex (s : String) : List Nat :=
  let rec go : List Char → List Nat
    | a :: b :: rest => (hexVal a * 16 + hexVal b) :: go rest
    | _ => []
  go s.toList

def splitAtCuts (l : List Nat) (cuts : List Nat) : List (List Nat) :=
  let rec go (l : List Nat) (pos : Nat) : List Nat → List (List Nat)
    | [] => [l]
    | c :: cs => if c ≤ pos then go l pos cs else (l.take (c - pos)) :: go (l.drop (c - pos)) c cs
  go l 0 cuts

def msgTexts (ms : Val) : List String :=
  match ms with
  | .tuple l => l.filterMap (fun m => match m with
    | .tuple (.str t :: _) => some (if t.isEmpty then "" else String.ofList t)
    | _ => none)
  | _ => []

/-- `!feed <Class_method> <datatype> <hex bytes> <cuts>`: what the harness does with the real client — extend
    `self.buffer` by each piece, call the reader method, collect the message texts -/
def feedOp (method datatype raw cuts : String) : String :=
  let pieces := splitAtCuts (bytesOfHex raw) (if cuts == "-" then [] else (cuts.splitOn ",").filterMap String.toNat?)
  let self0 : Val := .dict [(attrKey "buffer", .tuple []), (attrKey "datatype", .str datatype.toList)]
  let step (acc : Option Val × List String × Option String) (piece : List Nat) : Option Val × List String × Option String :=
    match acc with
    | (some self, out, none) =>
      match (do
        let buf ← pyGetAttr self "buffer"
        let buf' ← pyExtend buf (.tuple (piece.map Val.ofNat))
        let self' ← pySetAttr self "buffer" buf'
        let r ← (match Gen.dispatch method [self'] with | some x => x | none => .exc)
        pure (← pyIdxN r 0, ← pyIdxN r 1) : Res (Val × Val)) with
      | .val (self'', ms) => (some self'', out ++ msgTexts ms, none)
      | .rte => (none, out, some "RE")
      | .exc => (none, out, some "EXC")
    | other => other
  match pieces.foldl step (some self0, [], none) with
  | (_, _, some e) => e
  | (_, out, none) => if out.isEmpty then "-" else ",".intercalate out

def joinMsgs (v : Val) : String :=
  match v with
  | .tuple l =>
    let ts := l.filterMap (fun m => match m with | .str t => some (String.ofList t) | _ => none)
    if ts.isEmpty then "-" else ",".intercalate ts
  | _ => "?"

/-- `!ns <Class_method> m1,m2;m3;…`: calls of handle_messages on one source object; per call what was sent on the pipe,
    then the pending local buffers (same format as the harness adapter) -/
def nsOp (method calls : String) : String :=
  let self0 : Val := .dict [
    (attrKey "stop_flag", .dict [(attrKey "value", .bool false)]), (attrKey "raw_pipe_in", .none),
    (attrKey "local_buffer_adsb_msg", .tuple []), (attrKey "local_buffer_adsb_ts", .tuple []),
    (attrKey "local_buffer_commb_msg", .tuple []), (attrKey "local_buffer_commb_ts", .tuple [])]
  let cs := (calls.splitOn ";").map (fun c => if c == "-" then [] else c.splitOn ",")
  let nOut (self : Val) : Nat := match pyGetAttr self "__out__" with | .val (.tuple es) => es.length | _ => 0
  let lastSent (self : Val) : String := match pyGetAttr self "__out__" with
    | .val (.tuple es) => (match es.getLast? with
      | some (.tuple [_, .tuple [d]]) =>
        (match pyIdx d (attrKey "adsb_msg"), pyIdx d (attrKey "commb_msg") with
        | .val a, .val b => "S:" ++ joinMsgs a ++ "/" ++ joinMsgs b
        | _, _ => "S:?")
      | _ => "S:?")
    | _ => "S:?"
  let step (acc : Option Val × List String × Nat) (c : List String) : Option Val × List String × Nat :=
    match acc with
    | (some self, outs, t) =>
      let msgs : Val := .tuple (c.zipIdx.map (fun (m, i) => .tuple [.str m.toList, Val.ofNat (t + i + 1)]))
      (match Gen.dispatch method [self, msgs] with
      | some (.val r) =>
        (match pyIdxN r 0 with
        | .val self' => (some self', outs ++ [if nOut self' > nOut self then lastSent self' else "N"], t + c.length)
        | _ => (none, outs ++ ["EXC"], t))
      | some .rte => (none, outs ++ ["RE"], t)
      | _ => (none, outs ++ ["EXC"], t))
    | other => other
  match cs.foldl step (some self0, [], 0) with
  | (some self, outs, _) =>
    let pend (k : String) := match pyGetAttr self k with | .val v => joinMsgs v | _ => "?"
    ";".intercalate outs ++ "|P:" ++ pend "local_buffer_adsb_msg" ++ "/" ++ pend "local_buffer_commb_msg"
  | (none, outs, _) => ";".intercalate outs

/-- `!demod <Class_method> <den> <samples>;<samples>;…`: one reader object (noise floor 1e6, debug off), one call of
    `_process_buffer` per sample buffer; per call the message texts and the length of what is left in the buffer -/
def demodOp (method den bufs : String) : String :=
  let d : Rat := ((den.toNat?).getD 1 : Nat)
  let self0 : Val := .dict [(attrKey "signal_buffer", .tuple []), (attrKey "noise_floor", .num 1000000),
    (attrKey "debug", .bool false)]
  let step (acc : Option Val × List String) (samples : String) : Option Val × List String :=
    match acc with
    | (some self, outs) =>
      let buf : List Val := (samples.splitOn ",").filterMap (fun t => (t.toInt?).map (fun (i : Int) => Val.num ((i : Rat) / d)))
      (match (do
          let self' ← pySetAttr self "signal_buffer" (.tuple buf)
          let r ← (match Gen.dispatch method [self'] with | some x => x | none => .exc)
          let self'' ← pyIdxN r 0
          let ms ← pyIdxN r 1
          let rest ← pyLen (← pyGetAttr self'' "signal_buffer")
          pure (self'', ms, rest) : Res (Val × Val × Val)) with
      | .val (self'', ms, rest) =>
        let ts := msgTexts ms
        (some self'', outs ++ [(if ts.isEmpty then "-" else ",".intercalate ts) ++ "|" ++ fmtVal rest])
      | .rte => (none, outs ++ ["RE"])
      | .exc => (none, outs ++ ["EXC"]))
    | other => other
  ";".intercalate ((bufs.splitOn ";").foldl step (some self0, [])).2

def parseItemsV (s : String) : List (Val × Val) :=
  if s == "-" then [] else
  (s.splitOn "+").filterMap (fun it => match it.splitOn "@" with
    | [t, m] => some (.num ((parseRat t).getD 0), .str m.toList)
    | _ => none)

def insertStr (x : String) : List String → List String
  | [] => [x]
  | y :: ys => if y < x then y :: insertStr x ys else x :: y :: ys

/-- `!trk <Class_method> <lat,lon | -> <tnow~adsb~commb>;…`: one Decode object, one `process_raw` call per item; the
    aircraft table after every call in the canonical form of the harness (`KEY=live,lat,lon,tpos`, sorted) -/
def trkOp (method ref calls : String) : String :=
  let (la, lo) : Val × Val := match ref.splitOn "," with
    | [a, b] => (.num ((parseRat a).getD 0), .num ((parseRat b).getD 0))
    | _ => (.none, .none)
  let self0 : Val := .dict [(attrKey "acs", .dict []), (attrKey "lat0", la), (attrKey "lon0", lo), (attrKey "t", .num 0),
    (attrKey "cache_timeout", .num 60), (attrKey "dumpto", .none)]
  let fmtTable (self : Val) : String :=
    match pyGetAttr self "acs" with
    | .val (.dict l) =>
      let rows := l.map (fun kv =>
        let g (k : String) : String := match pyDictGet kv.2 (attrKey k) .none with | .val v => fmtVal v | _ => "?"
        fmtVal kv.1 ++ "=" ++ ",".intercalate [g "live", g "lat", g "lon", g "tpos"])
      let sorted := rows.foldr insertStr []
      if sorted.isEmpty then "-" else "&".intercalate sorted
    | _ => "?"
  let step (acc : Option Val × List String) (c : String) : Option Val × List String :=
    match acc.1, c.splitOn "~" with
    | some self, [tnow, a, b] =>
      let av := parseItemsV a
      let bv := parseItemsV b
      let args : List Val := [self, .tuple (av.map (·.1)), .tuple (av.map (·.2)), .tuple (bv.map (·.1)), .tuple (bv.map (·.2)),
        .num ((parseRat tnow).getD 0)]
      (match Gen.dispatch method args with
      | some (.val r) => (match pyIdxN r 0 with
        | .val self' => (some self', acc.2 ++ [fmtTable self'])
        | _ => (none, acc.2 ++ ["EXC"]))
      | some .rte => (none, acc.2 ++ ["RE"])
      | _ => (none, acc.2 ++ ["EXC"]))
    | _, _ => (none, acc.2 ++ ["X"])
  ";".intercalate ((calls.splitOn ";").foldl step (some self0, [])).2

def handleGen (ws : List String) : String :=
  match ws with
  | ["!trk", method, ref, calls] => trkOp method ref calls
  | ["!demod", method, den, bufs] => demodOp method den bufs
  | ["!feed", method, datatype, raw, cuts] => feedOp method datatype raw cuts
  | ["!ns", method, calls] => nsOp method calls
  | name :: args =>
    match args.mapM (fun a => parseVal a.toList) with
    | none => "BADARG"
    | some vs =>
      match Gen.dispatch name vs with
      | none => "NOFN"
      | some r => fmtRes fmtVal r
  | [] => "BADOP"

partial def loop (h : IO.FS.Stream) (out : IO.FS.Stream) : IO Unit := do
  let line ← h.getLine
  if line.isEmpty then return ()
  let ws := (line.trimAscii.toString.splitOn " ").filter (· ≠ "")
  out.putStrLn (handleGen ws)
  loop h out

def main : IO Unit := do
  let out ← IO.getStdout
  loop (← IO.getStdin) out
  out.flush
