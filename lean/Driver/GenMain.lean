/-
  Line-protocol driver for the source-generated model (`Generated/Src/*.lean`):
    <module.function> <arg> ...      args: s:<text> | n:<int or p/q> | N | T | F
  prints the canonical form of the returned Python value, `RE` (RuntimeError), `EXC` (other exception)
  or `NOFN` (function not translated).
-/
import PyModeS.Generated.Src.Index
import Driver.Fmt
open PyModeS PyModeS.Py Driver

partial def fmtVal : Val → String
  | .none => "None"
  | .bool b => fmtBool b
  | .num q => if q.den = 1 then toString q.num else fmtRat q
  | .str s => if s.isEmpty then "''" else String.ofList s
  | .tuple l => "|".intercalate (l.map fmtVal)

def parseArg (w : String) : Option Val :=
  if w == "N" then some .none
  else if w == "T" then some (.bool true)
  else if w == "F" then some (.bool false)
  else if w.startsWith "s:" then some (.str (w.drop 2).toString.toList)
  else if w.startsWith "n:" then (parseRat (w.drop 2).toString).map .num
  else none

def handleGen (ws : List String) : String :=
  match ws with
  | name :: args =>
    match args.mapM parseArg with
    | none => "BADARG"
    | some vs =>
      match Gen.dispatch name vs with
      | none => "NOFN"
      | some r => fmtRes fmtVal r
  | [] => "BADOP"

partial def loop (h : IO.FS.Stream) (out : IO.FS.Stream) : IO Unit := do
  let line ← h.getLine
  if line.isEmpty then return ()
  let ws := (line.trimAscii.toString.splitOn " ").filter (· ≠ "")
  out.putStrLn (handleGen ws)
  loop h out

def main : IO Unit := do
  let out ← IO.getStdout
  loop (← IO.getStdin) out
  out.flush
