import PyModeS.Models
import PyModeS.Properties.C07
import PyModeS.Properties.C08
import PyModeS.Properties.C09
import PyModeS.Properties.C10
