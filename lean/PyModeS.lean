import PyModeS.Models
import PyModeS.Properties.C07
